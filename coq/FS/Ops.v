(* The call language of the filesystem-level models, its interpreter for MemoryFS,
   and the canonical rendering of observations. *)
From Coq Require Import List NArith ZArith Bool Arith String.
From PyFS Require Import Base.PyStr Base.Outcome Base.Render Path.PathModel
     FS.Tree FS.Monad FS.Mode FS.Base FS.Mem.
Import ListNotations.
Local Open Scope monad_scope.

Inductive op :=
| OGetinfo (p : str) | OListdir (p : str) | OScandir (p : str)
| OMakedir (p : str) (recreate : bool) | OMakedirs (p : str) (recreate : bool)
| OWritebytes (p : str) (d : bytes) | OAppendbytes (p : str) (d : bytes) | OReadbytes (p : str)
| OCreate (p : str) (wipe : bool) | OTouch (p : str)
| OOpenwrite (p mode : str) (d : bytes) | OOpenread (p mode : str)
| ORemove (p : str) | ORemovedir (p : str) | ORemovetree (p : str)
| OMove (s d : str) (overwrite pt : bool) | OCopy (s d : str) (overwrite pt : bool)
| OMovedir (s d : str) (create pt : bool) | OCopydir (s d : str) (create pt : bool)
| OSetinfo (p : str) (mt : option Z)
| OExists (p : str) | OIsdir (p : str) | OIsfile (p : str) | OIsempty (p : str)
| OGetsize (p : str) | OGettype (p : str).

Inductive value :=
| VUnit | VBool (b : bool) | VNat (n : nat) | VBytes (b : bytes)
| VNames (l : list str) | VInfo (i : info) | VInfos (l : list info).

Definition vmap {S A} (f : A -> value) (m : M S A) : M S value := a <- m ;; ret (f a).

Definition mem_run (o : op) : MM value :=
  match o with
  | OGetinfo p => vmap VInfo (mem_getinfo p)
  | OListdir p => vmap VNames (mem_listdir p)
  | OScandir p => vmap VInfos (mem_scandir p)
  | OMakedir p r => vmap (fun _ => VUnit) (mem_makedir p r)
  | OMakedirs p r => vmap (fun _ => VUnit) (mem_makedirs p r)
  | OWritebytes p d => vmap (fun _ => VUnit) (mem_writebytes p d)
  | OAppendbytes p d => vmap (fun _ => VUnit) (mem_appendbytes p d)
  | OReadbytes p => vmap VBytes (mem_readbytes p)
  | OCreate p w => vmap VBool (mem_create p w)
  | OTouch p => vmap (fun _ => VUnit) (mem_touch p)
  | OOpenwrite p m d =>
    vmap (fun _ => VUnit) (mem_openwrite p m (if m_writing m then Some d else None))
  | OOpenread p m =>
    h <- mem_open p m ;;
    if m_reading m then
      root <- get ;;
      match lookup root (fst h) with
      | Some (File data _) => ret (VBytes (skipn (snd h) data))
      | _ => crash Unreachable
      end
    else ret VUnit
  | ORemove p => vmap (fun _ => VUnit) (mem_remove p)
  | ORemovedir p => vmap (fun _ => VUnit) (mem_removedir p)
  | ORemovetree p => vmap (fun _ => VUnit) (mem_removetree p)
  | OMove s d o t => vmap (fun _ => VUnit) (mem_move s d o t)
  | OCopy s d o t => vmap (fun _ => VUnit) (mem_copy s d o t)
  | OMovedir s d c t => vmap (fun _ => VUnit) (mem_movedir s d c t)
  | OCopydir s d c t => vmap (fun _ => VUnit) (mem_copydir s d c t)
  | OSetinfo p mt => vmap (fun _ => VUnit) (mem_setinfo p mt)
  | OExists p => vmap VBool (mem_exists p)
  | OIsdir p => vmap VBool (mem_isdir p)
  | OIsfile p => vmap VBool (mem_isfile p)
  | OIsempty p => vmap VBool (mem_isempty p)
  | OGetsize p => vmap VNat (mem_getsize p)
  | OGettype p => vmap VNat (mem_gettype p)
  end.

(* ---- rendering ---- *)
Local Open Scope string_scope. Local Open Scope list_scope.

Definition r_mt (m : option Z) : str := r_option r_Z m.
Definition r_info (i : info) : str :=
  lit "(" ++ r_str (i_name i) ++ lit "|" ++ r_bool (i_isdir i) ++ lit "|" ++ r_nat (i_size i)
      ++ lit "|" ++ r_mt (i_mt i) ++ lit ")".

Definition r_value (v : value) : str :=
  match v with
  | VUnit => lit "U"
  | VBool b => r_bool b
  | VNat n => r_nat n
  | VBytes b => r_str b
  | VNames l => r_list r_str l
  | VInfo i => r_info i
  | VInfos l => r_list r_info l
  end.

Fixpoint r_tree (t : node) : str :=
  match t with
  | File d mt => lit "F" ++ r_str d ++ lit "@" ++ r_mt mt
  | Dir ents mt =>
    lit "D@" ++ r_mt mt ++ lit "{" ++
    (fix go (l : list (str * node)) : str :=
       match l with
       | [] => []
       | [(k, n)] => r_str k ++ lit ":" ++ r_tree n
       | (k, n) :: r => r_str k ++ lit ":" ++ r_tree n ++ lit ";" ++ go r
       end) ents ++ lit "}"
  end.

(* ---- decoding a token stream into ops: opcode token, then its arguments ---- *)
Definition tbool (t : str) : bool := match t with 1%N :: _ => true | _ => false end.
Definition tmt (t : str) : option Z := match t with z :: _ => Some (Z.of_N z) | [] => None end.

Fixpoint decode_ops (fuel : nat) (ts : list str) : list op :=
  match fuel with
  | O => []
  | S f =>
    match ts with
    | [c] :: rest =>
      let a := fun n => nth n rest [] in
      let k1 (o : op) := o :: decode_ops f (skipn 1 rest) in
      let k2 (o : op) := o :: decode_ops f (skipn 2 rest) in
      let k3 (o : op) := o :: decode_ops f (skipn 3 rest) in
      let k4 (o : op) := o :: decode_ops f (skipn 4 rest) in
      match N.to_nat c with
      | 1 => k1 (OGetinfo (a 0)) | 2 => k1 (OListdir (a 0)) | 26 => k1 (OScandir (a 0))
      | 3 => k2 (OMakedir (a 0) (tbool (a 1))) | 4 => k2 (OMakedirs (a 0) (tbool (a 1)))
      | 5 => k2 (OWritebytes (a 0) (a 1)) | 6 => k2 (OAppendbytes (a 0) (a 1))
      | 7 => k1 (OReadbytes (a 0))
      | 8 => k2 (OCreate (a 0) (tbool (a 1))) | 9 => k1 (OTouch (a 0))
      | 10 => k3 (OOpenwrite (a 0) (a 1) (a 2)) | 11 => k2 (OOpenread (a 0) (a 1))
      | 12 => k1 (ORemove (a 0)) | 13 => k1 (ORemovedir (a 0)) | 14 => k1 (ORemovetree (a 0))
      | 15 => k4 (OMove (a 0) (a 1) (tbool (a 2)) (tbool (a 3)))
      | 16 => k4 (OCopy (a 0) (a 1) (tbool (a 2)) (tbool (a 3)))
      | 17 => k4 (OMovedir (a 0) (a 1) (tbool (a 2)) (tbool (a 3)))
      | 18 => k4 (OCopydir (a 0) (a 1) (tbool (a 2)) (tbool (a 3)))
      | 19 => k2 (OSetinfo (a 0) (tmt (a 1)))
      | 20 => k1 (OExists (a 0)) | 21 => k1 (OIsdir (a 0)) | 22 => k1 (OIsfile (a 0))
      | 23 => k1 (OIsempty (a 0)) | 24 => k1 (OGetsize (a 0)) | 25 => k1 (OGettype (a 0))
      | _ => []
      end
    | _ => []
    end
  end.

(* run a history from the empty filesystem; one "outcome#tree" record per call *)
Fixpoint run_history (run : op -> M node value) (s : node) (ops : list op) : list str :=
  match ops with
  | [] => []
  | o :: r =>
    let '(s', out) := run o s in
    (r_outcome r_value out ++ lit "#" ++ r_tree s') :: run_history run s' r
  end.

Definition run_fs (name : str) (args : list str) : str :=
  if str_eqb name (lit "mem") then
    sep_by (lit " ") (run_history mem_run empty_dir (decode_ops (S (List.length args)) args))
  else lit "?unknown".
