(* The default walker over the MemoryFS model: bfs_walk visits the entries of the source
   subtree in a fixed (breadth first) order, provided the visit leaves the source alone. *)
From Coq Require Import List NArith ZArith Bool Arith Lia.
From PyFS Require Import Base.PyStr Base.Outcome Path.PathModel Path.PathSpec Path.PathProofs
     FS.Tree FS.Monad FS.Mode FS.Base FS.Mem FS.Ops FS.Ref FS.Agree FS.Wf
     FS.TreeLemmas FS.RefineLemmas FS.RefineProofs FS.RefineWalkLemmasEq.
Import ListNotations.

(* ------------------------------------------------------------------ *)
(* path arithmetic of the walker                                       *)
(* ------------------------------------------------------------------ *)
Lemma combine_abs ds k : Forall good ds -> good k ->
  combine (to_path true ds) k = to_path true (ds ++ [k]).
Proof.
  intros Hg Hc. unfold combine. destruct ds as [|d0 d'].
  - change (to_path true []) with [slash]. cbn [is_empty].
    change (rstrip_c slash [slash]) with (@nil char).
    rewrite good_lstrip0 by exact Hc. reflexivity.
  - rewrite is_empty_to_path by first [discriminate|exact Hg].
    rewrite rstrip_to_path by first [discriminate|exact Hg].
    rewrite good_lstrip0 by exact Hc.
    rewrite to_path_snoc by discriminate. reflexivity.
Qed.

Lemma join_app sep a : forall x, a <> [] -> x <> [] ->
  join sep (a ++ x) = join sep a ++ sep ++ join sep x.
Proof.
  induction a as [|y a IH]; intros x Na Nx; [congruence|].
  destruct a as [|y2 a2].
  - simpl app. now rewrite join_cons.
  - change ((y :: y2 :: a2) ++ x) with (y :: (y2 :: a2) ++ x).
    rewrite join_cons by discriminate. rewrite IH by (auto; discriminate).
    rewrite (join_cons sep y (y2 :: a2)) by discriminate.
    rewrite <- !app_assoc. reflexivity.
Qed.

Lemma to_path_app a x : a <> [] -> x <> [] ->
  to_path true (a ++ x) = to_path true a ++ to_path true x.
Proof.
  intros Na Nx. unfold to_path. rewrite join_app by assumption.
  rewrite <- !app_assoc. reflexivity.
Qed.

Lemma frombase_rel a x : Forall good a -> Forall good x -> a <> [] -> x <> [] ->
  frombase (to_path true a) (to_path true (a ++ x)) = Ok (to_path true x).
Proof.
  intros Ga Gx Na Nx.
  assert (Gax : Forall good (a ++ x)) by (apply Forall_app; now split).
  assert (Hp : cprefix a (a ++ x) = true).
  { clear. induction a; simpl; [reflexivity|]. now rewrite str_eqb_refl. }
  destruct (frombase_nf true a (a ++ x) Ga Gax Hp) as (r & H1 & H2).
  rewrite H1. f_equal. rewrite to_path_app in H2 by assumption.
  now apply app_inv_head in H2.
Qed.

Lemma combine_rel b x : Forall good b -> Forall good x -> b <> [] -> x <> [] ->
  combine (to_path true b) (to_path true x) = to_path true (b ++ x).
Proof.
  intros Gb Gx Nb Nx. unfold combine.
  rewrite is_empty_to_path by assumption.
  rewrite rstrip_to_path by assumption.
  rewrite to_path_app by assumption. f_equal.
  unfold to_path at 1. cbn [app lstrip_c]. rewrite ceqb_refl.
  rewrite join_good_lstrip by assumption. reflexivity.
Qed.

(* ------------------------------------------------------------------ *)
(* names without NUL; paths of a well-formed tree                      *)
(* ------------------------------------------------------------------ *)
Definition nonulc (k : str) : Prop := has_char Mem.nul k = false.

Fixpoint nnode (t : node) : Prop :=
  match t with
  | File _ _ => True
  | Dir ents _ =>
    Forall nonulc (keys ents) /\
    (fix all (l : list (str * node)) : Prop :=
       match l with [] => True | (_, n) :: r => nnode n /\ all r end) ents
  end.
Definition nn (t : node) : Prop := nnode t.

Lemma nnode_dir ents m :
  nnode (Dir ents m) <-> Forall nonulc (keys ents) /\ Forall (fun kn => nnode (snd kn)) ents.
Proof.
  simpl.
  assert (forall l : list (str * node),
             (fix all (l : list (str * node)) : Prop :=
                match l with [] => True | (_, n) :: r => nnode n /\ all r end) l
             <-> Forall (fun kn => nnode (snd kn)) l) as Hall.
  { induction l as [|[k n] r IH].
    - split; auto.
    - split.
      + intros [H1 H2]. constructor; [exact H1|now apply IH].
      + intro H. inversion H; subst. split; [assumption|now apply IH]. }
  rewrite Hall. tauto.
Qed.

Lemma nn_empty : nn empty_dir.
Proof. apply nnode_dir. split; constructor. Qed.

Lemma nn_assoc ents m k n : nnode (Dir ents m) -> assoc k ents = Some n -> nnode n.
Proof.
  intros H Ha. apply nnode_dir in H as (_ & H).
  apply assoc_some_In in Ha. rewrite Forall_forall in H. now apply H in Ha.
Qed.

Lemma nn_assoc_key ents m k n : nnode (Dir ents m) -> assoc k ents = Some n -> nonulc k.
Proof.
  intros H Ha. apply nnode_dir in H as (H & _).
  apply assoc_some_in in Ha. rewrite Forall_forall in H. now apply H.
Qed.

Lemma nn_lookup q : forall t n, nnode t -> lookup t q = Some n -> nnode n /\ nonul q.
Proof.
  induction q as [|c q IH]; intros t n W L.
  - simpl in L. inversion L; subst. split; [assumption|constructor].
  - simpl in L. destruct t as [|e m]; [discriminate|].
    destruct (assoc c e) as [ch|] eqn:E; [|discriminate].
    destruct (IH ch n (nn_assoc _ _ _ _ W E) L) as [H1 H2].
    split; [assumption|]. constructor; [eapply nn_assoc_key; eauto|assumption].
Qed.

Lemma nn_assoc_set ents m k n :
  nnode (Dir ents m) -> nonulc k -> nnode n -> nnode (Dir (assoc_set k n ents) m).
Proof.
  intros H Hg Hn. apply nnode_dir in H as (H2 & H3). apply nnode_dir.
  destruct (assoc k ents) as [x|] eqn:E.
  - rewrite (keys_assoc_set_some _ _ _ _ E). split; auto. apply Forall_assoc_set; auto.
  - rewrite (keys_assoc_set_none _ _ _ E). split.
    + apply Forall_app. split; [assumption|]. constructor; [assumption|constructor].
    + apply Forall_assoc_set; auto.
Qed.

Lemma nn_assoc_del ents m k : nnode (Dir ents m) -> nnode (Dir (assoc_del k ents) m).
Proof.
  intro H. apply nnode_dir in H as (H2 & H3). apply nnode_dir. split.
  - rewrite Forall_forall in *. intros x Hx. apply H2. now apply keys_assoc_del_incl in Hx.
  - rewrite Forall_forall in *. intros x Hx. apply H3. now apply In_assoc_del in Hx.
Qed.

Lemma nn_put p : forall t n, nnode t -> nonul p -> nnode n -> nnode (put t p n).
Proof.
  induction p as [|c rest IH]; intros t n W G Wn; [exact Wn|].
  inversion G as [|? ? Gc Gr]; subst.
  destruct t as [d m|ents m]; [exact W|].
  simpl. destruct rest as [|c2 rest2].
  - now apply nn_assoc_set.
  - destruct (assoc c ents) as [ch|] eqn:E; [|exact W].
    apply nn_assoc_set; auto. apply IH; auto. eapply nn_assoc; eauto.
Qed.

Lemma nn_del p : forall t, nnode t -> nnode (del t p).
Proof.
  induction p as [|c rest IH]; intros t W; [exact W|].
  destruct t as [d m|ents m]; [exact W|].
  simpl. destruct rest as [|c2 rest2].
  - now apply nn_assoc_del.
  - destruct (assoc c ents) as [ch|] eqn:E; [|exact W].
    apply nn_assoc_set; auto.
    + eapply nn_assoc_key; eauto.
    + apply IH. eapply nn_assoc; eauto.
Qed.

Lemma nn_set_mt t m : nnode t -> nnode (set_mt t m).
Proof. destruct t; simpl; auto. Qed.

Lemma wf_path_good q : forall t n, wf_node t -> lookup t q = Some n -> Forall good q.
Proof.
  induction q as [|c q IH]; intros t n W L; [constructor|].
  simpl in L. destruct t as [|e m]; [discriminate|].
  destruct (assoc c e) as [ch|] eqn:E; [|discriminate].
  constructor.
  - eapply wf_assoc_good; eauto.
  - eapply IH; [|exact L]. eapply wf_assoc; eauto.
Qed.

Lemma vp_of_lookup t q n : wf t -> nn t -> lookup t q = Some n -> vp q.
Proof.
  intros [_ W] N L. split.
  - eapply wf_path_good; eauto.
  - eapply nn_lookup; eauto.
Qed.

Lemma nonul_app a b : nonul (a ++ b) <-> nonul a /\ nonul b.
Proof. unfold nonul. apply Forall_app. Qed.

Lemma In_assoc_NoDup_local {A} k (v : A) l : NoDup (keys l) -> In (k, v) l -> assoc k l = Some v.
Proof.
  induction l as [|[k' v'] r IH]; simpl; intros N H; [contradiction|].
  inversion N as [|? ? Hn Nr]; subst. destruct H as [H|H].
  - inversion H; subst. now rewrite str_eqb_refl.
  - destruct (str_eqb k k') eqn:E.
    + apply str_eqb_eq in E. subst. exfalso. apply Hn.
      change k' with (fst (k', v)). now apply in_map.
    + now apply IH.
Qed.

(* ------------------------------------------------------------------ *)
(* diverging paths                                                     *)
(* ------------------------------------------------------------------ *)
Definition diverge (p q : list str) : Prop :=
  exists u c1 c2 p' q', c1 <> c2 /\ p = u ++ c1 :: p' /\ q = u ++ c2 :: q'.

Lemma diverge_sym p q : diverge p q -> diverge q p.
Proof.
  intros (u & c1 & c2 & p' & q' & H & -> & ->). exists u, c2, c1, q', p'. auto.
Qed.

Lemma diverge_of_prefix a : forall b,
  list_prefix a b = false -> list_prefix b a = false -> diverge a b.
Proof.
  induction a as [|x a IH]; intros [|y b] H1 H2; simpl in *; try discriminate.
  destruct (str_eqb x y) eqn:E.
  - apply str_eqb_eq in E. subst y. rewrite str_eqb_refl in H2. simpl in *.
    destruct (IH b H1 H2) as (u & c1 & c2 & p' & q' & H & -> & ->).
    exists (x :: u), c1, c2, p', q'. auto.
  - exists [], x, y, a, b. apply str_eqb_neq in E. auto.
Qed.

Lemma diverge_app p q x y : diverge p q -> diverge (p ++ x) (q ++ y).
Proof.
  intros (u & c1 & c2 & p' & q' & H & -> & ->).
  exists u, c1, c2, (p' ++ x), (q' ++ y). rewrite <- !app_assoc. auto.
Qed.

Lemma diverge_neq p q : diverge p q -> p <> q.
Proof.
  intros (u & c1 & c2 & p' & q' & H & -> & ->) E. apply app_inv_head in E. congruence.
Qed.

Lemma diverge_prefix p q : diverge p q -> list_prefix p q = false.
Proof.
  intros (u & c1 & c2 & p' & q' & H & -> & ->).
  induction u as [|h u IH]; simpl.
  - apply str_eqb_neq in H. now rewrite H.
  - now rewrite str_eqb_refl.
Qed.

Lemma lookup_put_diverge p q : diverge p q -> forall t n, lookup (put t p n) q = lookup t q.
Proof.
  intros (u & c1 & c2 & p' & q' & H & -> & ->). induction u as [|h u IH]; intros t n.
  - simpl app. destruct t as [|e m]; [reflexivity|].
    destruct p' as [|c3 p3].
    + simpl. rewrite assoc_set_other by congruence. reflexivity.
    + rewrite put_cons_ne by discriminate. destruct (assoc c1 e); [|reflexivity].
      simpl. rewrite assoc_set_other by congruence. reflexivity.
  - change ((h :: u) ++ c1 :: p') with (h :: (u ++ c1 :: p')).
    change ((h :: u) ++ c2 :: q') with (h :: (u ++ c2 :: q')).
    destruct t as [|e m]; [reflexivity|].
    rewrite put_cons_ne by (destruct u; discriminate).
    destruct (assoc h e) as [ch|] eqn:E; [|reflexivity].
    simpl. rewrite assoc_set_same, E. apply IH.
Qed.

Lemma lookup_del_diverge p q : diverge p q -> forall t, lookup (del t p) q = lookup t q.
Proof.
  intros (u & c1 & c2 & p' & q' & H & -> & ->). induction u as [|h u IH]; intros t.
  - simpl app. destruct t as [|e m]; [reflexivity|].
    destruct p' as [|c3 p3].
    + simpl. rewrite assoc_del_other' by congruence. reflexivity.
    + rewrite del_cons_ne by discriminate. destruct (assoc c1 e); [|reflexivity].
      simpl. rewrite assoc_set_other by congruence. reflexivity.
  - change ((h :: u) ++ c1 :: p') with (h :: (u ++ c1 :: p')).
    change ((h :: u) ++ c2 :: q') with (h :: (u ++ c2 :: q')).
    destruct t as [|e m]; [reflexivity|].
    rewrite del_cons_ne by (destruct u; discriminate).
    destruct (assoc h e) as [ch|] eqn:E; [|reflexivity].
    simpl. rewrite assoc_set_same, E. apply IH.
Qed.

(* ------------------------------------------------------------------ *)
(* mfor                                                                *)
(* ------------------------------------------------------------------ *)
Lemma mfor_app {A} (l1 l2 : list A) (f : A -> MM unit) t :
  mfor (l1 ++ l2) f t =
  match mfor l1 f t with
  | (t', Ok _) => mfor l2 f t'
  | (t', Err e) => (t', Err e)
  | (t', Crash k) => (t', Crash k)
  end.
Proof.
  revert t. induction l1 as [|x l1 IH]; intro t; [reflexivity|].
  cbn [app mfor]. unfold mbind. destruct (f x t) as [t1 [u|e|k]]; auto.
Qed.

(* ------------------------------------------------------------------ *)
(* the walk                                                            *)
(* ------------------------------------------------------------------ *)
Definition bfs_inner (visit : str -> info -> MM unit) (d : str)
  : list info -> list str -> MM (list str) :=
  fix go (l : list info) (acc : list str) : MM (list str) :=
    match l with
    | [] => ret acc
    | i :: r =>
      mbind (visit d i) (fun _ =>
      go r (if i_isdir i then acc ++ [combine d (i_name i)] else acc))
    end.

Lemma bfs_walk_S f d q visit :
  bfs_walk mem_low (S f) (d :: q) visit =
  mbind (mem_scandir d) (fun infos =>
  mbind (bfs_inner visit d infos []) (fun newdirs =>
  bfs_walk mem_low f (q ++ newdirs) visit)).
Proof. reflexivity. Qed.

Fixpoint dsize (t : node) : nat :=
  match t with
  | File _ _ => 0
  | Dir ents _ =>
    S ((fix go (l : list (str * node)) : nat :=
          match l with [] => 0 | (_, n) :: r => dsize n + go r end) ents)
  end.

Definition dsum (l : list (str * node)) : nat := list_sum (map (fun kn => dsize (snd kn)) l).

Lemma dsize_dir ents m : dsize (Dir ents m) = S (dsum ents).
Proof.
  simpl. f_equal. unfold dsum. induction ents as [|[k n] r IH]; [reflexivity|].
  simpl. now rewrite IH.
Qed.

Lemma dsize_le_tree_size : forall t, dsize t <= tree_size t.
Proof.
  induction t as [d m|ents m IH] using node_ind'; [simpl; lia|].
  rewrite dsize_dir. simpl. apply le_n_S.
  unfold dsum. induction ents as [|[k n] r IHr]; [simpl; lia|].
  inversion IH; subst. simpl in *. specialize (IHr H2). lia.
Qed.

Definition isdirb (kn : str * node) : bool := is_dir (snd kn).

Section Walk.
  Variable a : list str.
  Variable S0 : node.                      (* the source directory *)
  Variable visit : str -> info -> MM unit.
  Variable act : list str -> node -> MM unit.

  Definition P (t : node) : Prop := wf t /\ nn t /\ lookup t a = Some S0.

  Hypothesis Hvis : forall r k n t, vp (a ++ r ++ [k]) ->
    visit (to_path true (a ++ r)) (to_info k n) t = act (r ++ [k]) n t.
  Hypothesis Hact : forall x n t t' u, P t -> lookup S0 x = Some n -> x <> [] ->
    act x n t = (t', Ok u) -> P t'.

  Definition act' (xn : list str * node) : MM unit := act (fst xn) (snd xn).
  Definition dsub (r : list str) : nat :=
    match lookup S0 r with Some n => dsize n | None => 0 end.
  Definition qsize (Q : list (list str)) : nat := list_sum (map dsub Q).
  Definition children (r : list str) (ents : list (str * node)) : list (list str) :=
    map (fun kn => r ++ [fst kn]) (filter isdirb ents).
  Definition entries (r : list str) (ents : list (str * node)) : list (list str * node) :=
    map (fun kn => (r ++ [fst kn], snd kn)) ents.

  Fixpoint bfs_list (fuel : nat) (Q : list (list str)) : list (list str * node) :=
    match fuel with
    | O => []
    | S f =>
      match Q with
      | [] => []
      | r :: q =>
        match lookup S0 r with
        | Some (Dir ents _) => entries r ents ++ bfs_list f (q ++ children r ents)
        | _ => []
        end
      end
    end.

  Lemma P_lookup t x : P t -> lookup t (a ++ x) = lookup S0 x.
  Proof. intros (_ & _ & L). now rewrite lookup_app, L. Qed.

  Lemma P_vp t x n : P t -> lookup S0 x = Some n -> vp (a ++ x).
  Proof.
    intros HP L. destruct HP as (W & N & La).
    eapply vp_of_lookup; eauto. rewrite lookup_app, La. exact L.
  Qed.

  Lemma mfor_P l : forall t t' u,
    P t -> Forall (fun xn => lookup S0 (fst xn) = Some (snd xn) /\ fst xn <> []) l ->
    mfor l act' t = (t', Ok u) -> P t'.
  Proof.
    induction l as [|[x n] l IH]; intros t t' u HP F H.
    - inversion H; subst. exact HP.
    - inversion F as [|? ? [F1 F2] F3]; subst. cbn [mfor] in H. unfold mbind in H.
      unfold act' at 1 in H. cbn [fst snd] in *.
      destruct (act x n t) as [t1 [u1|e|k]] eqn:E; try discriminate.
      eapply IH; [|exact F3|exact H]. eapply Hact; eauto.
  Qed.

  Lemma entries_sound r ents m l :
    lookup S0 r = Some (Dir ents m) -> wf_node S0 -> incl l ents ->
    Forall (fun xn => lookup S0 (fst xn) = Some (snd xn) /\ fst xn <> []) (entries r l).
  Proof.
    intros L W I. unfold entries. apply Forall_forall. intros xn Hx.
    apply in_map_iff in Hx as ([k n] & <- & Hk). cbn [fst snd]. split; [|apply snoc_ne'].
    rewrite lookup_snoc, L. apply In_assoc_NoDup_local.
    - assert (Wd : wf_node (Dir ents m)) by (eapply wf_lookup; eauto).
      apply wf_node_dir in Wd. tauto.
    - now apply I.
  Qed.

  (* the loop over the entries of one directory *)
  Lemma inner_eq r ents m l : forall acc t,
    P t -> lookup S0 r = Some (Dir ents m) -> incl l ents ->
    bfs_inner visit (to_path true (a ++ r))
              (map (fun kn => to_info (fst kn) (snd kn)) l) acc t =
    match mfor (entries r l) act' t with
    | (t', Ok _) =>
      (t', Ok (acc ++ map (fun r' => to_path true (a ++ r')) (children r l)))
    | (t', Err e) => (t', Err e)
    | (t', Crash k) => (t', Crash k)
    end.
  Proof.
    induction l as [|[k n] l IH]; intros acc t HP L I.
    - simpl. unfold ret. now rewrite app_nil_r.
    - assert (Wn : wf_node S0).
      { destruct HP as ((_ & W) & _ & La). eapply wf_lookup; eauto. }
      pose proof (entries_sound r ents m ((k, n) :: l) L Wn I) as Snd.
      inversion Snd as [|? ? [S1 S2] S3]; subst. cbn [fst snd] in S1.
      assert (Vk : vp (a ++ r ++ [k])) by (eapply P_vp; eauto).
      cbn [map bfs_inner entries mfor fst snd]. unfold mbind.
      rewrite (Hvis r k n t Vk). unfold act' at 1. cbn [fst snd].
      destruct (act (r ++ [k]) n t) as [t1 [u1|e|c]] eqn:E; try reflexivity.
      assert (HP1 : P t1) by (eapply Hact; eauto).
      assert (I' : incl l ents) by (intros z Hz; apply I; now right).
      rewrite (IH _ t1 HP1 L I'). fold (entries r l).
      destruct (mfor (entries r l) act' t1) as [t2 [u2|e2|c2]]; try reflexivity.
      f_equal. f_equal. unfold children. cbn [filter]. unfold isdirb at 2. cbn [snd].
      cbn [i_isdir i_name to_info].
      destruct (is_dir n).
      + cbn [map fst]. rewrite <- app_assoc. cbn [app].
        assert (Vr : vp (a ++ r)) by (eapply P_vp; eauto).
        rewrite combine_abs.
        * rewrite <- app_assoc. reflexivity.
        * destruct Vr; assumption.
        * destruct Vk as [G _]. rewrite app_assoc in G. apply good_snoc in G. tauto.
      + reflexivity.
  Qed.

  Lemma dsum_children r ents m l :
    lookup S0 r = Some (Dir ents m) -> wf_node S0 -> incl l ents ->
    dsum l = qsize (children r l).
  Proof.
    intros L W I. induction l as [|[k n] l IH]; [reflexivity|].
    assert (I' : incl l ents) by (intros z Hz; apply I; now right).
    pose proof (entries_sound r ents m [(k, n)] L W) as Snd.
    assert (Hk : lookup S0 (r ++ [k]) = Some n).
    { assert (I1 : incl [(k, n)] ents) by (intros z [<-|[]]; apply I; now left).
      specialize (Snd I1). inversion Snd as [|? ? [S1 _] _]. exact S1. }
    unfold dsum, qsize, children in *. cbn [map list_sum filter snd]. unfold isdirb at 1. cbn [snd].
    change (list_sum (dsize n :: map (fun kn : str * node => dsize (snd kn)) l))
      with (dsize n + list_sum (map (fun kn : str * node => dsize (snd kn)) l)).
    rewrite (IH I'). destruct n as [|e2 m2]; cbn [is_dir].
    - simpl. reflexivity.
    - cbn [map list_sum fst]. unfold dsub at 2. rewrite Hk. reflexivity.
  Qed.

  Theorem bfs_eq : forall fuel Q t,
    P t -> Forall (fun r => exists e m, lookup S0 r = Some (Dir e m)) Q -> qsize Q < fuel ->
    bfs_walk mem_low fuel (map (fun r => to_path true (a ++ r)) Q) visit t =
    mfor (bfs_list fuel Q) act' t.
  Proof.
    induction fuel as [|f IH]; intros Q t HP F Hf; [lia|].
    destruct Q as [|r q]; [reflexivity|].
    inversion F as [|? ? (ents & m & L) Fq]; subst.
    assert (Wn : wf_node S0).
    { destruct HP as ((_ & W) & _ & La). eapply wf_lookup; eauto. }
    assert (Vr : vp (a ++ r)) by (eapply P_vp; eauto).
    cbn [map bfs_list]. rewrite L. rewrite bfs_walk_S. unfold mbind at 1.
    rewrite (mem_scandir_spec _ _ t (rpath_nf _ Vr)). rewrite (P_lookup t r HP), L.
    unfold mbind at 1.
    rewrite (inner_eq r ents m ents [] t HP L (incl_refl _)).
    rewrite mfor_app.
    destruct (mfor (entries r ents) act' t) as [t1 [u1|e1|c1]] eqn:E; try reflexivity.
    cbn [app]. rewrite <- map_app.
    apply IH.
    - eapply mfor_P; [exact HP| |exact E]. eapply entries_sound; eauto. apply incl_refl.
    - apply Forall_app. split; [exact Fq|].
      unfold children. apply Forall_forall. intros x Hx.
      apply in_map_iff in Hx as ([k n] & <- & Hk). apply filter_In in Hk as [Hk Hd].
      pose proof (entries_sound r ents m [(k, n)] L Wn) as Snd.
      assert (I1 : incl [(k, n)] ents) by (intros z [<-|[]]; exact Hk).
      specialize (Snd I1). inversion Snd as [|? ? [S1 _] _]. cbn [fst snd] in *.
      unfold isdirb in Hd. cbn [snd] in Hd. destruct n; [discriminate|]. eauto.
    - unfold qsize in *. rewrite map_app, list_sum_app.
      cbn [map list_sum] in Hf. unfold dsub at 1 in Hf. rewrite L, dsize_dir in Hf.
      rewrite (dsum_children r ents m ents L Wn (incl_refl _)) in Hf.
      unfold qsize in Hf. unfold list_sum in *. cbn [fold_right] in Hf. lia.
  Qed.
End Walk.

(* ------------------------------------------------------------------ *)
(* properties of the visiting order                                    *)
(* ------------------------------------------------------------------ *)
Definition sound_list (S0 : node) (l : list (list str * node)) : Prop :=
  Forall (fun xn => lookup S0 (fst xn) = Some (snd xn) /\ fst xn <> []) l.
Definition dirs_in (S0 : node) (Q : list (list str)) : Prop :=
  Forall (fun r => exists e m, lookup S0 r = Some (Dir e m)) Q.

Lemma children_dirs S0 r ents m :
  lookup S0 r = Some (Dir ents m) -> wf_node S0 -> dirs_in S0 (children r ents).
Proof.
  intros L Wn. unfold children. apply Forall_forall. intros x Hx.
  apply in_map_iff in Hx as ([k n] & <- & Hk). apply filter_In in Hk as [Hk Hd].
  pose proof (entries_sound S0 r ents m [(k, n)] L Wn) as Snd.
  assert (I1 : incl [(k, n)] ents) by (intros z [<-|[]]; exact Hk).
  specialize (Snd I1). inversion Snd as [|? ? [S1 _] _]. cbn [fst snd] in *.
  unfold isdirb in Hd. cbn [snd] in Hd. destruct n; [discriminate|]. eauto.
Qed.

Lemma qsize_step S0 r q ents m :
  lookup S0 r = Some (Dir ents m) -> wf_node S0 ->
  qsize S0 (r :: q) = S (qsize S0 (q ++ children r ents)).
Proof.
  intros L Wn. unfold qsize. rewrite map_app, list_sum_app. cbn [map].
  unfold dsub at 1. rewrite L, dsize_dir.
  rewrite (dsum_children S0 r ents m ents L Wn (incl_refl _)).
  unfold qsize. unfold list_sum. cbn [fold_right]. lia.
Qed.

Lemma bfs_sound S0 : wf_node S0 -> forall fuel Q, dirs_in S0 Q -> sound_list S0 (bfs_list S0 fuel Q).
Proof.
  intros Wn. induction fuel as [|f IH]; intros Q F; [constructor|].
  destruct Q as [|r q]; [constructor|].
  inversion F as [|? ? (ents & m & L) Fq]; subst. cbn [bfs_list]. rewrite L.
  apply Forall_app. split.
  - eapply entries_sound; eauto. apply incl_refl.
  - apply IH. apply Forall_app. split; [exact Fq|]. eapply children_dirs; eauto.
Qed.

Lemma bfs_complete S0 : wf_node S0 -> forall fuel Q,
  dirs_in S0 Q -> qsize S0 Q < fuel ->
  forall r k x' n, In r Q -> lookup S0 (r ++ k :: x') = Some n ->
                   In (r ++ k :: x', n) (bfs_list S0 fuel Q).
Proof.
  intros Wn. induction fuel as [|f IH]; intros Q F Hf r k x' n Hr L; [lia|].
  destruct Q as [|r0 q]; [contradiction|].
  inversion F as [|? ? (ents & m & L0) Fq]; subst. cbn [bfs_list]. rewrite L0.
  rewrite (qsize_step S0 r0 q ents m L0 Wn) in Hf.
  assert (F' : dirs_in S0 (q ++ children r0 ents)).
  { apply Forall_app. split; [exact Fq|]. eapply children_dirs; eauto. }
  apply in_or_app. destruct Hr as [<-|Hr].
  - rewrite lookup_app, L0 in L. simpl in L.
    destruct (assoc k ents) as [ch|] eqn:A; [|discriminate].
    destruct x' as [|k2 x2].
    + left. simpl in L. inversion L; subst. unfold entries.
      apply in_map_iff. exists (k, n). split; [reflexivity|]. now apply assoc_some_In.
    + right. assert (E : r0 ++ k :: k2 :: x2 = (r0 ++ [k]) ++ k2 :: x2)
        by (rewrite <- app_assoc; reflexivity).
      rewrite E. apply IH; auto; [lia| |].
      * apply in_or_app. right. unfold children. apply in_map_iff. exists (k, ch).
        split; [reflexivity|]. apply filter_In. split; [now apply assoc_some_In|].
        unfold isdirb. cbn [snd]. destruct ch; [discriminate|reflexivity].
      * rewrite <- E. rewrite lookup_app, L0. simpl. now rewrite A.
  - right. apply IH; auto; [lia|]. apply in_or_app. now left.
Qed.

Lemma bfs_order S0 : wf_node S0 -> forall fuel Q l1 x k n l2,
  dirs_in S0 Q -> bfs_list S0 fuel Q = l1 ++ (x ++ [k], n) :: l2 ->
  In x Q \/ exists e m, In (x, Dir e m) l1.
Proof.
  intros Wn. induction fuel as [|f IH]; intros Q l1 x k n l2 F E.
  - destruct l1; discriminate.
  - destruct Q as [|r q]; [destruct l1; discriminate|].
    inversion F as [|? ? (ents & m & L0) Fq]; subst. cbn [bfs_list] in E. rewrite L0 in E.
    assert (F' : dirs_in S0 (q ++ children r ents)).
    { apply Forall_app. split; [exact Fq|]. eapply children_dirs; eauto. }
    assert (Hch : forall y, In y (children r ents) ->
                            exists e m, In (y, Dir e m) (entries r ents)).
    { intros y Hy. unfold children in Hy. apply in_map_iff in Hy as ([k' n'] & <- & Hk).
      apply filter_In in Hk as [Hk Hd]. unfold isdirb in Hd. cbn [snd] in Hd.
      destruct n' as [|e' m']; [discriminate|]. exists e', m'.
      unfold entries. apply in_map_iff. exists (k', Dir e' m'). split; [reflexivity|exact Hk]. }
    apply app_eq_app in E as [l [[E1 E2]|[E1 E2]]].
    + (* the split point is not before the end of the entries of r *)
      destruct l as [|y l].
      * rewrite app_nil_r in E1. cbn [app] in E2. symmetry in E2.
        destruct (IH _ [] x k n l2 F' E2) as [Hx|(e & m' & [])].
        apply in_app_or in Hx as [Hx|Hx]; [left; now right|].
        right. destruct (Hch x Hx) as (e & m' & Hi). exists e, m'. now rewrite <- E1.
      * cbn [app] in E2. inversion E2; subst y.
        assert (Hy : In (x ++ [k], n) (entries r ents)) by (rewrite E1; apply in_or_app; right; now left).
        unfold entries in Hy. apply in_map_iff in Hy as ([k' n'] & Hy & _).
        inversion Hy as [[Hy1 Hy2]]. apply app_inj_tail in Hy1 as [-> _]. left. now left.
    + destruct (IH _ l x k n l2 F' E2) as [Hx|(e & m' & Hi)].
      * apply in_app_or in Hx as [Hx|Hx]; [left; now right|].
        right. destruct (Hch x Hx) as (e & m' & Hi). exists e, m'.
        rewrite E1. apply in_or_app. now left.
      * right. exists e, m'. rewrite E1. apply in_or_app. now right.
Qed.
