(* W1: FS.makedirs on the MemoryFS model (b_makedirs mem_low) refines ref_makedirs. *)
From Coq Require Import List NArith ZArith Bool Arith Lia.
From PyFS Require Import Base.PyStr Base.Outcome Path.PathModel Path.PathSpec Path.PathProofs
     FS.Tree FS.Monad FS.Mode FS.Base FS.Mem FS.Ops FS.Ref FS.Agree FS.Wf
     FS.TreeLemmas FS.RefineLemmas FS.RefineProofs FS.Props FS.PropsProofs.
Import ListNotations.

(* ------------------------------------------------------------------ *)
(* the proper prefixes below [pre], shortest first                     *)
(* ------------------------------------------------------------------ *)
Fixpoint mk_list (pre rest : list str) : list (list str) :=
  match rest with
  | [] => []
  | c :: r => (pre ++ [c]) :: mk_list (pre ++ [c]) r
  end.

Lemma mk_list_app a : forall pre b,
  mk_list pre (a ++ b) = mk_list pre a ++ mk_list (pre ++ a) b.
Proof.
  induction a as [|x a IH]; intros pre b; simpl.
  - now rewrite app_nil_r.
  - rewrite IH. rewrite <- app_assoc. reflexivity.
Qed.

Lemma map_cons_mk x l : forall pre, map (cons x) (mk_list pre l) = mk_list (x :: pre) l.
Proof. induction l as [|c l IH]; intros pre; simpl; [reflexivity|]. now rewrite IH. Qed.

Lemma prefixes_mk l : prefixes l = [] :: mk_list [] l.
Proof.
  induction l as [|x l IH]; [reflexivity|].
  cbn [prefixes]. rewrite IH. cbn [map]. rewrite map_cons_mk. reflexivity.
Qed.

Lemma removelast_mk l : forall pre, removelast (mk_list pre l) = mk_list pre (removelast l).
Proof.
  induction l as [|c l IH]; intros pre; [reflexivity|].
  destruct l as [|c2 l2]; [reflexivity|].
  change (mk_list pre (c :: c2 :: l2)) with ((pre ++ [c]) :: mk_list (pre ++ [c]) (c2 :: l2)).
  change (removelast (c :: c2 :: l2)) with (c :: removelast (c2 :: l2)).
  cbn [mk_list]. rewrite <- IH. reflexivity.
Qed.

Lemma map_removelast {A B} (f : A -> B) l : map f (removelast l) = removelast (map f l).
Proof.
  induction l as [|x l IH]; [reflexivity|].
  destruct l as [|y l]; [reflexivity|].
  change (removelast (x :: y :: l)) with (x :: removelast (y :: l)).
  cbn [map]. cbn [map] in IH. rewrite IH. reflexivity.
Qed.

Lemma vp_app_l a b : vp (a ++ b) -> vp a.
Proof.
  intros [G N]. apply Forall_app in G as [G _]. apply Forall_app in N as [N _]. now split.
Qed.

Lemma vp_mk_list mis : forall ex, vp (ex ++ mis) -> Forall vp (mk_list ex mis).
Proof.
  induction mis as [|c r IH]; intros ex V; simpl; [constructor|].
  assert (E : ex ++ c :: r = (ex ++ [c]) ++ r) by (rewrite <- app_assoc; reflexivity).
  rewrite E in V. constructor; [eapply vp_app_l; eauto|]. now apply IH.
Qed.

(* ------------------------------------------------------------------ *)
(* longest existing prefix                                             *)
(* ------------------------------------------------------------------ *)
Lemma decomp cs : forall t,
  exists ex mis n, cs = ex ++ mis /\ lookup t ex = Some n /\
                   (forall c r, mis = c :: r -> lookup t (ex ++ [c]) = None).
Proof.
  induction cs as [|c cs IH]; intros t.
  - exists [], [], t. split; [reflexivity|split; [reflexivity|]]. intros c r H. discriminate.
  - destruct t as [d m|ents m].
    + exists [], (c :: cs), (File d m). split; [reflexivity|split; [reflexivity|]].
      intros c0 r H. inversion H; subst. reflexivity.
    + destruct (assoc c ents) as [ch|] eqn:E.
      * destruct (IH ch) as (ex & mis & n & H1 & H2 & H3).
        exists (c :: ex), mis, n. split; [simpl; congruence|]. split.
        -- simpl. now rewrite E.
        -- intros c0 r Hm. simpl. rewrite E. eapply H3; eauto.
      * exists [], (c :: cs), (Dir ents m). split; [reflexivity|split; [reflexivity|]].
        intros c0 r H. inversion H; subst. simpl. now rewrite E.
Qed.

Lemma lookup_none_app t p q : lookup t p = None -> lookup t (p ++ q) = None.
Proof. intro H. rewrite lookup_app, H. reflexivity. Qed.

Lemma lookup_some_prefix t p q n : lookup t (p ++ q) = Some n -> exists m, lookup t p = Some m.
Proof. rewrite lookup_app. destruct (lookup t p); [eauto|discriminate]. Qed.

Lemma lookup_dir_prefix t p c q n :
  lookup t (p ++ c :: q) = Some n -> exists e m, lookup t p = Some (Dir e m).
Proof.
  rewrite lookup_app. destruct (lookup t p) as [[|e m]|]; try discriminate; eauto.
Qed.

(* ------------------------------------------------------------------ *)
(* mkdirs / prefix_is_file                                             *)
(* ------------------------------------------------------------------ *)
Lemma mkdirs_app a : forall t pre b,
  mkdirs t pre (a ++ b) = mkdirs (mkdirs t pre a) (pre ++ a) b.
Proof.
  induction a as [|x a IH]; intros t pre b; simpl.
  - now rewrite app_nil_r.
  - rewrite IH. rewrite <- app_assoc. reflexivity.
Qed.

Lemma mkdirs_exists a : forall t pre n, lookup t (pre ++ a) = Some n -> mkdirs t pre a = t.
Proof.
  induction a as [|x a IH]; intros t pre n H; [reflexivity|].
  simpl. assert (E : pre ++ x :: a = (pre ++ [x]) ++ a) by (rewrite <- app_assoc; reflexivity).
  rewrite E in H. destruct (lookup_some_prefix _ _ _ _ H) as [m Hm]. rewrite Hm.
  eapply IH; eauto.
Qed.

Lemma pif_app a : forall t pre b,
  prefix_is_file t pre (a ++ b) = prefix_is_file t pre a || prefix_is_file t (pre ++ a) b.
Proof.
  induction a as [|x a IH]; intros t pre b; simpl.
  - now rewrite app_nil_r.
  - destruct (lookup t (pre ++ [x])) as [[|]|]; try reflexivity;
      rewrite IH, <- app_assoc; reflexivity.
Qed.

Lemma pif_dirs a : forall t pre c n,
  lookup t (pre ++ a ++ [c]) = Some n -> prefix_is_file t pre a = false.
Proof.
  induction a as [|x a IH]; intros t pre c n H; [reflexivity|].
  simpl. assert (E : pre ++ (x :: a) ++ [c] = (pre ++ [x]) ++ a ++ [c])
    by (rewrite <- app_assoc; reflexivity).
  rewrite E in H.
  assert (Hd : exists e m, lookup t (pre ++ [x]) = Some (Dir e m)).
  { destruct a; simpl in H; eapply lookup_dir_prefix; eauto. }
  destruct Hd as (e & m & Hd). rewrite Hd. eapply IH; eauto.
Qed.

Lemma pif_missing mis : forall t pre,
  (forall c r, mis = c :: r -> lookup t (pre ++ [c]) = None) -> prefix_is_file t pre mis = false.
Proof.
  induction mis as [|c r IH]; intros t pre H; [reflexivity|].
  simpl. rewrite (H c r eq_refl). apply IH. intros c2 r2 E. subst r.
  apply lookup_none_app. eapply H; eauto.
Qed.

Lemma pif_decomp t ex mis n :
  is_dir t = true -> lookup t ex = Some n ->
  (forall c r, mis = c :: r -> lookup t (ex ++ [c]) = None) ->
  prefix_is_file t [] (ex ++ mis) = negb (is_dir n).
Proof.
  intros Wd L Hm. rewrite pif_app. simpl app. rewrite (pif_missing mis t ex Hm), orb_false_r.
  destruct (list_snoc_case ex) as [->|[e' [c ->]]].
  - simpl in L. inversion L; subst. simpl. now rewrite Wd.
  - rewrite pif_app. rewrite (pif_dirs e' t [] c n L). simpl.
    rewrite L. destruct n; reflexivity.
Qed.

(* ------------------------------------------------------------------ *)
(* get_intermediate_dirs                                               *)
(* ------------------------------------------------------------------ *)
Definition gi_go : list str -> list str -> MM (list str) :=
  fix go (l : list str) (acc : list str) : MM (list str) :=
    match l with
    | [] => ret acc
    | p :: r =>
      fun s =>
        match mem_getinfo p s with
        | (s', Err ResourceNotFound) => go r (acc ++ [abspath p]) s'
        | (s', Ok i) => if i_isdir i then (s', Ok acc) else (s', Err DirectoryExpected)
        | (s', Err e) => (s', Err e)
        | (s', Crash k) => (s', Crash k)
        end
    end.

Lemma gid_unfold p :
  get_intermediate_dirs mem_low p =
  mbind (lift (recursepath (abspath p) true)) (fun paths =>
  mbind (gi_go paths []) (fun inter => ret (removelast (rev inter)))).
Proof. reflexivity. Qed.

Lemma gi_go_cons p r acc s :
  gi_go (p :: r) acc s =
  match mem_getinfo p s with
  | (s', Err ResourceNotFound) => gi_go r (acc ++ [abspath p]) s'
  | (s', Ok i) => if i_isdir i then (s', Ok acc) else (s', Err DirectoryExpected)
  | (s', Err e) => (s', Err e)
  | (s', Crash k) => (s', Crash k)
  end.
Proof. reflexivity. Qed.

Fixpoint scan (s : node) (pres : list (list str)) (acc : list str) : outcome (list str) :=
  match pres with
  | [] => Ok acc
  | pre :: r =>
    match lookup s pre with
    | None => scan s r (acc ++ [to_path true pre])
    | Some n => if is_dir n then Ok acc else Err DirectoryExpected
    end
  end.

Lemma gi_go_scan s pres : Forall vp pres ->
  forall acc, gi_go (map (to_path true) pres) acc s = (s, scan s pres acc).
Proof.
  induction 1 as [|pre r V _ IH]; intros acc; [reflexivity|].
  cbn [map]. rewrite gi_go_cons. rewrite (mem_getinfo_spec _ _ s (rpath_nf _ V)).
  cbn [scan]. destruct (lookup s pre) as [n|].
  - unfold to_info, i_isdir. destruct (is_dir n); reflexivity.
  - rewrite abspath_nf_gen by (destruct V; assumption). apply IH.
Qed.

Lemma scan_none s l1 : forall l2 acc,
  Forall (fun pre => lookup s pre = None) l1 ->
  scan s (l1 ++ l2) acc = scan s l2 (acc ++ map (to_path true) l1).
Proof.
  induction l1 as [|x l1 IH]; intros l2 acc H; simpl.
  - now rewrite app_nil_r.
  - inversion H; subst. rewrite H2. rewrite IH by assumption. rewrite <- app_assoc. reflexivity.
Qed.

Lemma mk_list_missing mis : forall t ex,
  (forall c r, mis = c :: r -> lookup t (ex ++ [c]) = None) ->
  Forall (fun pre => lookup t pre = None) (mk_list ex mis).
Proof.
  induction mis as [|c r IH]; intros t ex H; simpl; [constructor|].
  constructor; [eapply H; eauto|]. apply IH. intros c2 r2 E. subst r.
  apply lookup_none_app. eapply H; eauto.
Qed.

Lemma last_prefixes ex : exists l, [] :: mk_list [] ex = l ++ [ex].
Proof.
  destruct (list_snoc_case ex) as [->|[e' [c ->]]].
  - exists []. reflexivity.
  - exists ([] :: mk_list [] e'). rewrite mk_list_app. reflexivity.
Qed.

Lemma scan_decomp s ex mis n :
  lookup s ex = Some n ->
  (forall c r, mis = c :: r -> lookup s (ex ++ [c]) = None) ->
  scan s (rev (prefixes (ex ++ mis))) [] =
  if is_dir n then Ok (map (to_path true) (rev (mk_list ex mis))) else Err DirectoryExpected.
Proof.
  intros L Hm. rewrite prefixes_mk, mk_list_app.
  change ([] :: mk_list [] ex ++ mk_list ([] ++ ex) mis)
    with (([] :: mk_list [] ex) ++ mk_list ex mis).
  destruct (last_prefixes ex) as [l El]. rewrite El.
  rewrite !rev_app_distr. cbn [rev app].
  rewrite scan_none.
  - cbn [scan app]. rewrite L. reflexivity.
  - apply Forall_rev. now apply mk_list_missing.
Qed.

Lemma resolve_abspath p : resolve (comps (abspath p)) = resolve (comps p).
Proof.
  unfold abspath. destruct (starts_c slash p); [reflexivity|].
  unfold comps. cbn [split_on]. rewrite ceqb_refl. reflexivity.
Qed.

Lemma recursepath_root s : resolve (comps s) = Some [] ->
  recursepath s true = Ok [s_slash] \/ recursepath s true = Ok [s_slash; s_slash].
Proof.
  intro H. unfold recursepath. destruct (in_slash s); [now left|].
  rewrite normpath_spec. unfold spec_normpath. rewrite H. cbn [bind].
  destruct (starts_c slash s); right; reflexivity.
Qed.

Lemma recursepath_abs p cs : resolve (comps p) = Some cs -> cs <> [] ->
  recursepath (abspath p) true = Ok (map (to_path true) (rev (prefixes cs))).
Proof.
  intros H N. rewrite recursepath_reverse.
  pose proof (recursepath_spec (abspath p)) as Hs. rewrite resolve_abspath, H in Hs.
  rewrite Hs by now left. cbn [omap]. now rewrite map_rev.
Qed.

(* ------------------------------------------------------------------ *)
(* the loop over the intermediate directories                          *)
(* ------------------------------------------------------------------ *)
Lemma makedir_new q ex c t ents m :
  rpath q = inl (ex ++ [c]) -> lookup t ex = Some (Dir ents m) -> assoc c ents = None ->
  mem_makedir q false t = (put t (ex ++ [c]) empty_dir, Ok tt).
Proof.
  intros R L A. rewrite (mem_makedir_snoc _ _ _ _ t R), L, A.
  rewrite (mem_opendir_spec _ _ _ R). rewrite (lookup_put_same _ _ _ _ _ _ L). reflexivity.
Qed.

Lemma mfor_mk recreate mis : forall ex t ents m,
  wf t -> vp (ex ++ mis) -> lookup t ex = Some (Dir ents m) ->
  (forall c r, mis = c :: r -> assoc c ents = None) ->
  exists e' m',
    mfor (map (to_path true) (mk_list ex mis)) (fun d => makedir_tolerant mem_low d recreate) t
    = (mkdirs t ex mis, Ok tt)
    /\ wf (mkdirs t ex mis)
    /\ lookup (mkdirs t ex mis) (ex ++ mis) = Some (Dir e' m')
    /\ ((mis = [] /\ e' = ents) \/ e' = []).
Proof.
  induction mis as [|c r IH]; intros ex t ents m W V L A.
  - exists ents, m. simpl. rewrite app_nil_r. split; [reflexivity|]. split; [exact W|]. split; [exact L|]. left. now split.
  - assert (E : ex ++ c :: r = (ex ++ [c]) ++ r) by (rewrite <- app_assoc; reflexivity).
    assert (Vc : vp (ex ++ [c])) by (rewrite E in V; eapply vp_app_l; eauto).
    assert (Ac : assoc c ents = None) by (eapply A; eauto).
    assert (Lc : lookup t (ex ++ [c]) = None) by (rewrite lookup_snoc, L; exact Ac).
    pose (t' := put t (ex ++ [c]) empty_dir).
    assert (W' : wf t').
    { apply wf_put_ne; auto using snoc_ne', wf_empty_dir. destruct Vc; assumption. }
    assert (L' : lookup t' (ex ++ [c]) = Some (Dir [] None)) by (apply (lookup_put_same _ _ _ _ _ _ L)).
    rewrite E in V.
    destruct (IH (ex ++ [c]) t' [] None W' V L') as (e' & m' & H1 & H2 & H3 & H4);
      [intros; reflexivity|].
    exists e', m'. cbn [mk_list map mfor mkdirs]. rewrite Lc. fold t'.
    rewrite E. split; [|split; [exact H2|split; [exact H3|]]].
    + unfold mbind. unfold makedir_tolerant at 1. cbn [l_makedir mem_low]. unfold catch.
      rewrite (makedir_new _ _ _ _ _ _ (rpath_nf _ Vc) L Ac). fold t'. exact H1.
    + right. destruct H4 as [[_ ->]| ->]; reflexivity.
Qed.

(* ------------------------------------------------------------------ *)
(* W1                                                                  *)
(* ------------------------------------------------------------------ *)
Lemma status_missing t p : lookup t p = None ->
  match status_of t p with IsDir => False | _ => True end.
Proof. intro H. destruct (status_lookup_none _ _ H) as [E|E]; rewrite E; exact I. Qed.

Definition makedirs_rhs (s : node) (cs : list str) (recreate : bool) : node * outcome unit :=
  if prefix_is_file s [] cs then (s, Err DirectoryExpected)
  else match status_of s cs with
       | IsDir => if recreate then (s, Ok tt) else (s, Err DirectoryExists)
       | _ => (mkdirs s [] cs, Ok tt)
       end.

Lemma makedirs_spec p recreate s cs :
  wf s -> rpath p = inl cs ->
  mem_makedirs p recreate s = makedirs_rhs s cs recreate
  /\ wf (fst (mem_makedirs p recreate s)).
Proof.
  intros W R. unfold makedirs_rhs.
  unfold mem_makedirs, b_makedirs. rewrite gid_unfold.
  destruct (rpath_inl _ _ R) as [Hnul Hres].
  pose proof (rpath_vp _ _ R) as V.
  assert (Wd : is_dir s = true) by (destruct W; assumption).
  destruct cs as [|c0 cs0].
  - (* the root *)
    assert (Hgo : forall l, gi_go (s_slash :: l) [] s = (s, Ok [])).
    { intro l. rewrite gi_go_cons. rewrite (mem_getinfo_spec s_slash [] s (rpath_nf [] V)).
      cbn [lookup]. unfold to_info, i_isdir. now rewrite Wd. }
    assert (Hrec : exists l, recursepath (abspath p) true = Ok (s_slash :: l)).
    { destruct (recursepath_root (abspath p)) as [E|E];
        [rewrite resolve_abspath; exact Hres| |]; rewrite E; eauto. }
    destruct Hrec as [l Hrec]. rewrite Hrec.
    mstep. rewrite Hgo. mstep. cbn [rev removelast mfor]. mstep.
    unfold makedir_tolerant. cbn [l_makedir mem_low]. mstep.
    rewrite (mem_makedir_root _ false s R). cbn [ecls_eqb].
    cbn [prefix_is_file status_of]. rewrite Wd.
    destruct recreate; mstep; [|split; [reflexivity|exact W]].
    unfold b_opendir. cbn [l_getinfo mem_low]. mstep.
    rewrite (mem_getinfo_spec _ _ s R). cbn [lookup]. mstep.
    unfold to_info, i_isdir. rewrite Wd. mstep. split; [reflexivity|exact W].
  - (* a proper path *)
    remember (c0 :: cs0) as cs eqn:Ecs.
    assert (Ncs : cs <> []) by (subst; discriminate).
    clear Ecs c0 cs0.
    rewrite (recursepath_abs _ _ Hres Ncs).
    destruct (decomp cs s) as (ex & mis & n & Hcs & Lex & Hmis).
    assert (Vpre : Forall vp (rev (prefixes cs))).
    { apply Forall_rev. rewrite prefixes_mk. constructor.
      - split; constructor.
      - apply vp_mk_list. exact V. }
    mstep. rewrite (gi_go_scan s _ Vpre []).
    subst cs. rewrite (scan_decomp s ex mis n Lex Hmis).
    rewrite (pif_decomp s ex mis n Wd Lex Hmis).
    destruct (is_dir n) eqn:Dn; cbn [negb]; mstep; [|split; [reflexivity|exact W]].
    destruct n as [|nents nm]; [discriminate|].
    rewrite <- map_rev, rev_involutive, <- map_removelast, removelast_mk.
    destruct (list_snoc_case mis) as [->|[mis0 [c ->]]].
    + (* the directory exists *)
      rewrite app_nil_r in *.
      cbn [removelast mk_list map mfor]. mstep.
      unfold makedir_tolerant. cbn [l_makedir mem_low]. mstep.
      rewrite (status_lookup_some _ _ _ Lex). cbn [is_dir].
      destruct (list_snoc_case ex) as [->|[d [c ->]]]; [congruence|].
      rewrite (mem_makedir_snoc _ _ _ false s R).
      pview s d c; try congruence.
      rewrite Hl, Ha. cbn [ecls_eqb].
      destruct recreate; mstep; [|split; [reflexivity|exact W]].
      unfold b_opendir. cbn [l_getinfo mem_low]. mstep.
      rewrite (mem_getinfo_spec _ _ s R), Lex. mstep. cbn [to_info i_isdir is_dir]. mstep. split; [reflexivity|exact W].
    + (* missing: created *)
      rewrite removelast_app1.
      assert (Lcs : lookup s (ex ++ mis0 ++ [c]) = None).
      { destruct mis0 as [|c1 r1]; simpl app.
        - eapply Hmis; reflexivity.
        - assert (E : ex ++ c1 :: r1 ++ [c] = (ex ++ [c1]) ++ r1 ++ [c])
            by (rewrite <- app_assoc; reflexivity).
          rewrite E. apply lookup_none_app. eapply Hmis; reflexivity. }
      assert (A : forall c' r, mis0 = c' :: r -> assoc c' nents = None).
      { intros c' r E. subst mis0. specialize (Hmis c' (r ++ [c]) eq_refl).
        rewrite lookup_snoc, Lex in Hmis. exact Hmis. }
      assert (V0 : vp (ex ++ mis0)) by (rewrite app_assoc in V; eapply vp_app_l; eauto).
      destruct (mfor_mk recreate mis0 ex s nents nm W V0 Lex A) as (e' & m' & H1 & H2 & H3 & H4).
      rewrite H1. mstep.
      assert (A1 : assoc c e' = None).
      { destruct H4 as [[-> ->]| ->]; [|reflexivity].
        specialize (Hmis c [] eq_refl). rewrite lookup_snoc, Lex in Hmis. exact Hmis. }
      rewrite app_assoc in R, V, Lcs |- *.
      unfold makedir_tolerant. cbn [l_makedir mem_low]. mstep.
      rewrite (makedir_new _ _ _ _ _ _ R H3 A1). mstep.
      unfold b_opendir. cbn [l_getinfo mem_low]. mstep.
      rewrite (mem_getinfo_spec _ _ _ R), (lookup_put_same _ _ _ _ _ _ H3). mstep.
      cbn [to_info i_isdir is_dir empty_dir]. mstep.
      assert (Em : mkdirs s [] ((ex ++ mis0) ++ [c])
                   = put (mkdirs s ex mis0) ((ex ++ mis0) ++ [c]) empty_dir).
      { transitivity (mkdirs s [] (ex ++ mis0 ++ [c])); [now rewrite <- app_assoc|].
        rewrite mkdirs_app. cbn [app].
        rewrite (mkdirs_exists ex s [] _ Lex). rewrite mkdirs_app. cbn [mkdirs].
        rewrite lookup_snoc, H3, A1. reflexivity. }
      rewrite Em.
      pose proof (status_missing _ _ Lcs) as Hst.
      assert (Wn : wf (put (mkdirs s ex mis0) ((ex ++ mis0) ++ [c]) empty_dir)).
      { apply wf_put_ne; auto using snoc_ne', wf_empty_dir. destruct V; assumption. }
      destruct (status_of s ((ex ++ mis0) ++ [c])); try contradiction;
        (split; [reflexivity|exact Wn]).
Qed.

Lemma makedirs_sstep p recreate s cs :
  wf s -> rpath p = inl cs -> sstep_ok (OMakedirs p recreate) s.
Proof.
  intros W R. destruct (makedirs_spec p recreate s cs W R) as [E Wf].
  unfold sstep_ok. cbn [mem_run ref_run]. unfold with1. rewrite R. unfold vmap, mbind.
  rewrite E in *. unfold makedirs_rhs in *. unfold ref_makedirs.
  destruct (prefix_is_file s [] cs); [mstep; sfin_err|].
  destruct (status_of s cs); try (mstep; apply sfin_ok; [exact Wf|reflexivity]).
  destruct recreate; mstep; [sfin_ok|sfin_err].
Qed.

Lemma sagree_agree obs r : sagree obs r -> agree obs r = true.
Proof.
  intros [H1 H2]. unfold agree. rewrite H1, H2. apply tree_eqb_refl.
Qed.

(* W1 *)
Theorem mem_makedirs_refines_ref : forall p recreate s cs,
  wf s -> rpath p = inl cs ->
  agree (mem_run (OMakedirs p recreate) s) (ref_run (OMakedirs p recreate) s) = true.
Proof. intros p r s cs W R. apply sagree_agree. exact (proj1 (makedirs_sstep p r s cs W R)). Qed.

Theorem mem_makedirs_wf : forall p recreate s cs,
  wf s -> rpath p = inl cs -> wf (fst (mem_run (OMakedirs p recreate) s)).
Proof. intros p r s cs W R. exact (proj2 (makedirs_sstep p r s cs W R)). Qed.

(* the model reaches exactly the reference tree *)
Theorem mem_makedirs_tree_exact : forall p recreate s cs,
  wf s -> rpath p = inl cs ->
  rs_tree (ref_run (OMakedirs p recreate) s) = Some (fst (mem_run (OMakedirs p recreate) s)).
Proof. intros p r s cs W R. exact (proj2 (proj1 (makedirs_sstep p r s cs W R))). Qed.
