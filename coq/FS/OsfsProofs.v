(* The OSFS model (FS/Osfs.v over the POSIX kernel model FS/Posix.v) refines the reference semantics
   FS/Ref.v for the 23 calls of [covered] (FS/Wf.v), following the structure of FS/RefineProofs.v:
     1. trees compared modulo modification times ([teq], [agree_tm]);
     2. the kernel calls in terms of lookup / status_of, and one characterising lemma per essential OSFS method;
     3. one [os_step_*] lemma per call (agreement with the reference step + well-formedness);
     4. the theorems: osfs_refines_ref, osfs_refines_ref_times, osfs_wf_preserved, osfs_nn_preserved,
        osfs_history_refines, osfs_mem_same_verdict, and the counterexamples to the stronger statements;
        makedirs (osfs_makedirs_refines_ref, _wf, _nn) through the MemoryFS proof of FS/RefineWalkLemmasMk.v;
     5. the kernel model against the table of answers recorded from this machine's kernel.
   The correspondence of the model with the real fs.osfs.OSFS is harness/h_osfs.py. *)
From Coq Require Import List NArith ZArith Bool Arith Lia.
From PyFS Require Import Base.PyStr Base.Outcome Base.Render Path.PathModel Path.PathSpec Path.PathProofs
     FS.Tree FS.Monad FS.Mode FS.Base FS.Mem FS.Ops FS.Ref FS.Agree FS.Wf
     FS.TreeLemmas FS.RefineLemmas FS.RefineProofs FS.WrapLemmas
     FS.RefineWalkLemmasEq FS.RefineWalkLemmasBfs FS.RefineWalkNn FS.Posix FS.Osfs.
Import ListNotations.


(* ====================================================================== *)
(* 1. trees modulo modification times *)
(* ====================================================================== *)
Definition agree_tm (tm : bool) (obs : node * outcome value) (r : rstep) : bool :=
  res_agree (snd obs) (rs_res r)
  && match rs_tree r with
     | Some t => tree_eqb tm (fst obs) t
     | None => true
     end.

Lemma agree_tm_true obs r : agree_tm true obs r = agree obs r.
Proof. reflexivity. Qed.

(* "the same tree up to modification times" *)
Inductive teq : node -> node -> Prop :=
| teq_file d m1 m2 : teq (File d m1) (File d m2)
| teq_dir e1 e2 m1 m2 :
    Forall2 (fun x y => fst x = fst y /\ teq (snd x) (snd y)) e1 e2 -> teq (Dir e1 m1) (Dir e2 m2).

(* ---- helpers ---- *)

(* entries related key-wise equal and value-wise by Q *)
Definition erel (Q : node -> node -> Prop) (x y : str * node) : Prop :=
  fst x = fst y /\ Q (snd x) (snd y).

Section TeqInd.
  Variable P : node -> node -> Prop.
  Hypothesis HF : forall d m1 m2, P (File d m1) (File d m2).
  Hypothesis HD : forall e1 e2 m1 m2,
      Forall2 (erel teq) e1 e2 -> Forall2 (erel P) e1 e2 -> P (Dir e1 m1) (Dir e2 m2).

  Fixpoint teq_ind' (a b : node) (H : teq a b) {struct H} : P a b :=
    match H in teq a0 b0 return P a0 b0 with
    | teq_file d m1 m2 => HF d m1 m2
    | teq_dir e1 e2 m1 m2 F =>
      HD e1 e2 m1 m2 F
         ((fix go (l1 l2 : list (str * node)) (G : Forall2 (erel teq) l1 l2) {struct G}
             : Forall2 (erel P) l1 l2 :=
             match G in Forall2 _ l1' l2' return Forall2 (erel P) l1' l2' with
             | Forall2_nil _ => Forall2_nil _
             | @Forall2_cons _ _ _ x y r1 r2 Hxy G' =>
               @Forall2_cons _ _ (erel P) x y r1 r2
                             (match Hxy with conj E T => conj E (teq_ind' (snd x) (snd y) T) end)
                             (go r1 r2 G')
             end) e1 e2 F)
    end.
End TeqInd.

Lemma erel_mono (Q Q' : node -> node -> Prop) l1 l2 :
  (forall x y, Q x y -> Q' x y) -> Forall2 (erel Q) l1 l2 -> Forall2 (erel Q') l1 l2.
Proof.
  intros HQ F. induction F as [|x y r1 r2 [E T] F' IH]; constructor; auto.
  split; auto.
Qed.

Lemma teq_dir' e1 e2 m1 m2 : Forall2 (erel teq) e1 e2 -> teq (Dir e1 m1) (Dir e2 m2).
Proof. intro F. apply teq_dir. exact F. Qed.

Lemma teq_dir_inv e1 e2 m1 m2 : teq (Dir e1 m1) (Dir e2 m2) -> Forall2 (erel teq) e1 e2.
Proof. intro H. inversion H; subst. assumption. Qed.

(* ---- the lemmas ---- *)

Lemma teq_refl t : teq t t.
Proof.
  induction t as [d m|ents m IH] using node_ind'.
  - constructor.
  - apply teq_dir'. induction IH as [|[k n] r Hn Hr IHr]; constructor; auto.
    split; [reflexivity|exact Hn].
Qed.

Lemma teq_sym a b : teq a b -> teq b a.
Proof.
  intro H. induction H as [d m1 m2|e1 e2 m1 m2 F G] using teq_ind'.
  - constructor.
  - apply teq_dir'. clear F.
    induction G as [|x y r1 r2 [E T] G' IH]; constructor; auto.
    split; [now symmetry|exact T].
Qed.

Lemma teq_trans a b c : teq a b -> teq b c -> teq a c.
Proof.
  intro H. revert c.
  induction H as [d m1 m2|e1 e2 m1 m2 F G] using teq_ind'; intros c Hc.
  - inversion Hc; subst. constructor.
  - destruct c as [d3 m3|e3 m3]; [inversion Hc|].
    apply teq_dir_inv in Hc. apply teq_dir'. clear F.
    revert e3 Hc.
    induction G as [|x y r1 r2 [E T] G' IH]; intros e3 Hc; inversion Hc as [|y' z r2' r3 [E' T'] Hc']; subst.
    + constructor.
    + constructor.
      * split; [congruence|apply T; exact T'].
      * apply IH. exact Hc'.
Qed.

Lemma assoc_set_F2 c n n' e1 e2 :
  Forall2 (erel teq) e1 e2 -> teq n n' ->
  Forall2 (erel teq) (assoc_set c n e1) (assoc_set c n' e2).
Proof.
  intros F Hn. induction F as [|[k1 v1] [k2 v2] r1 r2 [E T] F' IH]; cbn [assoc_set].
  - constructor; [split; [reflexivity|exact Hn]|constructor].
  - cbn [fst snd] in E, T. subst k2.
    destruct (str_eqb c k1).
    + constructor; [split; [reflexivity|exact Hn]|exact F'].
    + constructor; [split; [reflexivity|exact T]|exact IH].
Qed.

Lemma assoc_del_F2 c e1 e2 :
  Forall2 (erel teq) e1 e2 ->
  Forall2 (erel teq) (assoc_del c e1) (assoc_del c e2).
Proof.
  intros F. induction F as [|[k1 v1] [k2 v2] r1 r2 [E T] F' IH]; cbn [assoc_del].
  - constructor.
  - cbn [fst snd] in E, T. subst k2.
    destruct (str_eqb c k1).
    + exact F'.
    + constructor; [split; [reflexivity|exact T]|exact IH].
Qed.

Lemma assoc_F2 c e1 e2 :
  Forall2 (erel teq) e1 e2 ->
  match assoc c e1, assoc c e2 with
  | Some x, Some y => teq x y
  | None, None => True
  | _, _ => False
  end.
Proof.
  intros F. induction F as [|[k1 v1] [k2 v2] r1 r2 [E T] F' IH]; cbn [assoc].
  - exact I.
  - cbn [fst snd] in E, T. subst k2.
    destruct (str_eqb c k1); [exact T|exact IH].
Qed.

(* replacing any node by a teq one, anywhere *)
Lemma teq_put cs : forall s s' n n', teq s s' -> teq n n' -> teq (put s cs n) (put s' cs n').
Proof.
  induction cs as [|c rest IH]; intros s s' n n' Hs Hn.
  - exact Hn.
  - destruct s as [d1 m1|e1 m1]; destruct s' as [d2 m2|e2 m2]; try (now inversion Hs).
    + exact Hs.
    + pose proof (teq_dir_inv _ _ _ _ Hs) as F.
      cbn [put]. destruct rest as [|c2 rest2].
      * apply teq_dir'. now apply assoc_set_F2.
      * pose proof (assoc_F2 c _ _ F) as A.
        destruct (assoc c e1) as [x|]; destruct (assoc c e2) as [y|]; try contradiction.
        -- apply teq_dir'. apply assoc_set_F2; [exact F|]. apply IH; assumption.
        -- exact Hs.
Qed.

Lemma teq_del cs : forall s s', teq s s' -> teq (del s cs) (del s' cs).
Proof.
  induction cs as [|c rest IH]; intros s s' Hs.
  - exact Hs.
  - destruct s as [d1 m1|e1 m1]; destruct s' as [d2 m2|e2 m2]; try (now inversion Hs).
    + exact Hs.
    + pose proof (teq_dir_inv _ _ _ _ Hs) as F.
      cbn [del]. destruct rest as [|c2 rest2].
      * apply teq_dir'. now apply assoc_del_F2.
      * pose proof (assoc_F2 c _ _ F) as A.
        destruct (assoc c e1) as [x|]; destruct (assoc c e2) as [y|]; try contradiction.
        -- apply teq_dir'. apply assoc_set_F2; [exact F|]. apply IH; assumption.
        -- exact Hs.
Qed.

Lemma teq_put_file cs s d m1 m2 : teq (put s cs (File d m1)) (put s cs (File d m2)).
Proof. apply teq_put; [apply teq_refl|constructor]. Qed.

(* changing the time of a file that is there *)
Lemma teq_retime s cs d m m' : lookup s cs = Some (File d m) -> teq s (put s cs (File d m')).
Proof.
  intro H. pose proof (teq_put_file cs s d m m') as T.
  rewrite (put_id _ _ _ H) in T. exact T.
Qed.

(* sorting only looks at keys *)
Lemma insert_F2 (Q : node -> node -> Prop) k v v' l l' :
  Q v v' -> Forall2 (erel Q) l l' ->
  Forall2 (erel Q) (insert_sorted k v l) (insert_sorted k v' l').
Proof.
  intros Hv F. induction F as [|[k1 v1] [k2 v2] r1 r2 [E T] F' IH]; cbn [insert_sorted].
  - constructor; [split; [reflexivity|exact Hv]|constructor].
  - cbn [fst snd] in E, T. subst k2.
    destruct (str_ltb k k1).
    + constructor; [split; [reflexivity|exact Hv]|].
      constructor; [split; [reflexivity|exact T]|exact F'].
    + constructor; [split; [reflexivity|exact T]|exact IH].
Qed.

Lemma sort_F2 (Q : node -> node -> Prop) l l' :
  Forall2 (erel Q) l l' -> Forall2 (erel Q) (sort_ents l) (sort_ents l').
Proof.
  intros F. induction F as [|[k1 v1] [k2 v2] r1 r2 [E T] F' IH]; cbn [sort_ents fold_right].
  - constructor.
  - cbn [fst snd] in *. subst k2. apply insert_F2; [exact T|exact IH].
Qed.

Lemma cmap_F2 e1 e2 :
  Forall2 (erel (fun x y => teq (canon x) (canon y))) e1 e2 ->
  Forall2 (erel teq) (cmap e1) (cmap e2).
Proof.
  intros F. unfold cmap.
  induction F as [|[k1 v1] [k2 v2] r1 r2 [E T] F' IH]; cbn [map].
  - constructor.
  - constructor; [|exact IH]. split; [exact E|exact T].
Qed.

Lemma teq_canon a b : teq a b -> teq (canon a) (canon b).
Proof.
  intro H. induction H as [d m1 m2|e1 e2 m1 m2 F G] using teq_ind'.
  - cbn [canon]. constructor.
  - rewrite !canon_dir. apply teq_dir'. apply sort_F2. apply cmap_F2. exact G.
Qed.

Definition ents_eqb (tm : bool) : list (str * node) -> list (str * node) -> bool :=
  fix go (l1 l2 : list (str * node)) : bool :=
    match l1, l2 with
    | [], [] => true
    | (k1, n1) :: r1, (k2, n2) :: r2 => str_eqb k1 k2 && node_eqb tm n1 n2 && go r1 r2
    | _, _ => false
    end.

Lemma node_eqb_dir tm e1 m1 e2 m2 :
  node_eqb tm (Dir e1 m1) (Dir e2 m2) = (negb tm || mt_eqb m1 m2) && ents_eqb tm e1 e2.
Proof. reflexivity. Qed.

Lemma ents_eqb_cons tm k1 n1 r1 k2 n2 r2 :
  ents_eqb tm ((k1, n1) :: r1) ((k2, n2) :: r2)
  = str_eqb k1 k2 && node_eqb tm n1 n2 && ents_eqb tm r1 r2.
Proof. reflexivity. Qed.

Lemma teq_node_eqb x y : teq x y -> node_eqb false x y = true.
Proof.
  intro H. induction H as [d m1 m2|e1 e2 m1 m2 F G] using teq_ind'.
  - cbn [node_eqb]. rewrite str_eqb_refl. reflexivity.
  - rewrite node_eqb_dir. cbn [negb orb andb]. clear F.
    induction G as [|[k1 v1] [k2 v2] r1 r2 [E T] G' IH]; [reflexivity|].
    cbn [fst snd] in E, T. subst k2.
    rewrite ents_eqb_cons, str_eqb_refl, T, IH. reflexivity.
Qed.

Lemma teq_tree_eqb a b : teq a b -> tree_eqb false a b = true.
Proof. intro H. unfold tree_eqb. apply teq_node_eqb. now apply teq_canon. Qed.

Lemma tree_eqb_true_false a b : tree_eqb true a b = true -> tree_eqb false a b = true.
Proof.
  unfold tree_eqb. intro H. apply node_eqb_eq in H. rewrite H. apply node_eqb_refl.
Qed.

Lemma node_eqb_false_nnode : forall x y, node_eqb false x y = true -> nnode y -> nnode x.
Proof.
  induction x as [d m|ents m IH] using node_ind'; intros y H Ny.
  - exact I.
  - destruct y as [d2 m2|e2 m2]; [discriminate H|].
    rewrite node_eqb_dir in H. cbn [negb orb andb] in H.
    apply nnode_dir in Ny as [K N]. apply nnode_dir.
    revert e2 H K N.
    induction IH as [|[k1 n1] r1 Hn Hr IHr]; intros e2 H K N.
    + split; constructor.
    + destruct e2 as [|[k2 n2] r2]; [discriminate H|].
      rewrite ents_eqb_cons in H.
      apply andb_true_iff in H as [H H3]. apply andb_true_iff in H as [H1 H2].
      apply str_eqb_eq in H1. subst k2.
      cbn [keys map fst] in K. inversion K as [|? ? K1 K2]; subst.
      inversion N as [|? ? N1 N2]; subst. cbn [snd] in N1, Hn.
      destruct (IHr r2 H3 K2 N2) as [A B].
      split.
      * cbn [keys map fst]. constructor; [exact K1|exact A].
      * constructor; [cbn [snd]; apply (Hn n2); assumption|exact B].
Qed.

(* names are compared whatever the time flag *)
Lemma nn_tree_eqb_any tm a b : tree_eqb tm a b = true -> nn b -> nn a.
Proof.
  destruct tm.
  - apply nn_tree_eqb.
  - unfold tree_eqb, nn. intros H Nb. apply nn_canon.
    apply (node_eqb_false_nnode _ _ H). now apply nn_canon.
Qed.

(* ====================================================================== *)
(* 2. kernel calls and essential methods *)
(* ====================================================================== *)
Ltac ostep :=
  cbv beta iota delta [mbind ret raise lift get modify Monad.crash catch vmap mseq sys sys_raw syspath].

(* ------------------------------------------------------------------ *)
(* the kernel's path walk in terms of lookup / status_of               *)
(* ------------------------------------------------------------------ *)
Definition walk_err (t : node) (cs : list str) : errno :=
  match status_of t cs with AncFile => ENOTDIR | _ => ENOENT end.

Lemma k_walk_spec cs : forall t,
  k_walk t cs = match lookup t cs with Some n => inr n | None => inl (walk_err t cs) end.
Proof.
  induction cs as [|c cs IH]; intro t; [reflexivity|].
  unfold walk_err. cbn [k_walk lookup status_of]. destruct t as [d m|ents m]; [reflexivity|].
  destruct (assoc c ents) as [n|]; [|reflexivity]. rewrite IH. reflexivity.
Qed.

Lemma walk_err_cases t cs : lookup t cs = None ->
  (status_of t cs = Missing /\ walk_err t cs = ENOENT) \/
  (status_of t cs = AncFile /\ walk_err t cs = ENOTDIR).
Proof.
  intro L. unfold walk_err. destruct (status_lookup_none _ _ L) as [H|H]; rewrite H; auto.
Qed.

Lemma k_parent_snoc t d c :
  k_parent t (d ++ [c]) =
  match lookup t d with
  | Some (Dir _ _) => inr tt
  | Some (File _ _) => inl ENOTDIR
  | None => inl (walk_err t d)
  end.
Proof.
  unfold k_parent. rewrite removelast_app1, k_walk_spec.
  destruct (lookup t d) as [[|]|]; reflexivity.
Qed.

Lemma snoc_match {A B} (d : list A) c (x y : B) :
  match d ++ [c] with [] => x | _ :: _ => y end = y.
Proof. destruct d; reflexivity. Qed.

(* ------------------------------------------------------------------ *)
(* system paths                                                        *)
(* ------------------------------------------------------------------ *)
Lemma syspath_nf cs s : Forall good cs -> syspath (to_path true cs) s = (s, Ok cs).
Proof. intro G. unfold syspath, lift. now rewrite iteratepath_nf. Qed.

Lemma os_validate_inl p cs s : rpath p = inl cs -> os_validatepath p s = (s, Ok (to_path true cs)).
Proof. exact (validate_inl p cs s). Qed.

Lemma os_validate_inr p adm s : rpath p = inr adm -> os_validatepath p s = (s, Err (bad_err p)).
Proof. exact (validate_inr p adm s). Qed.

Lemma info_of_stat_of name n : info_of_stat name (stat_of n) = to_info name n.
Proof. reflexivity. Qed.

(* ------------------------------------------------------------------ *)
(* the essential methods                                               *)
(* ------------------------------------------------------------------ *)
Lemma os_getinfo_spec p cs s : rpath p = inl cs ->
  os_getinfo p s =
  (s, match lookup s cs with
      | Some n => Ok (to_info (last cs []) n)
      | None => Err ResourceNotFound
      end).
Proof.
  intro R. pose proof (rpath_good _ _ R) as G. unfold os_getinfo. ostep.
  rewrite (os_validate_inl _ _ s R). ostep. rewrite iteratepath_nf by assumption.
  unfold k_stat. rewrite k_walk_spec. destruct (lookup s cs) as [n|] eqn:L.
  - now rewrite basename_nf.
  - destruct (walk_err_cases _ _ L) as [[_ ->]|[_ ->]]; reflexivity.
Qed.

Lemma os_getinfo_bad p adm s : rpath p = inr adm -> os_getinfo p s = (s, Err (bad_err p)).
Proof. intro R. unfold os_getinfo. ostep. rewrite (os_validate_inr _ _ s R). reflexivity. Qed.

(* OSFS.getinfo and MemoryFS.getinfo are the same function of the tree *)
Lemma os_getinfo_mem p s : os_getinfo p s = mem_getinfo p s.
Proof.
  destruct (rpath p) as [cs|adm] eqn:R.
  - now rewrite (os_getinfo_spec _ _ s R), (mem_getinfo_spec _ _ s R).
  - now rewrite (os_getinfo_bad _ _ s R), (mem_getinfo_bad _ _ s R).
Qed.

Lemma os_listdir_spec p cs s : rpath p = inl cs ->
  os_listdir p s =
  (s, match lookup s cs with
      | Some (Dir ents _) => Ok (keys ents)
      | Some (File _ _) => Err DirectoryExpected
      | None => Err (os_dir_errors (walk_err s cs))
      end).
Proof.
  intro R. pose proof (rpath_good _ _ R) as G. unfold os_listdir. ostep.
  rewrite (os_validate_inl _ _ s R). ostep. rewrite iteratepath_nf by assumption.
  unfold k_listdir, k_scandir. rewrite k_walk_spec.
  destruct (lookup s cs) as [[d m|ents m]|]; try reflexivity.
  unfold keys. now rewrite map_map.
Qed.

Lemma os_listdir_bad p adm s : rpath p = inr adm -> os_listdir p s = (s, Err (bad_err p)).
Proof. intro R. unfold os_listdir. ostep. rewrite (os_validate_inr _ _ s R). reflexivity. Qed.

Lemma os_scandir_spec p cs s : rpath p = inl cs ->
  os_scandir p s =
  (s, match lookup s cs with
      | Some (Dir ents _) => Ok (map (fun kn => to_info (fst kn) (snd kn)) ents)
      | Some (File _ _) => Err DirectoryExpected
      | None => Err (os_dir_errors (walk_err s cs))
      end).
Proof.
  intro R. pose proof (rpath_good _ _ R) as G. unfold os_scandir. ostep.
  rewrite (os_validate_inl _ _ s R). ostep. rewrite iteratepath_nf by assumption.
  unfold k_scandir. rewrite k_walk_spec.
  destruct (lookup s cs) as [[d m|ents m]|]; try reflexivity.
  now rewrite map_map.
Qed.

Lemma os_scandir_bad p adm s : rpath p = inr adm -> os_scandir p s = (s, Err (bad_err p)).
Proof. intro R. unfold os_scandir. ostep. rewrite (os_validate_inr _ _ s R). reflexivity. Qed.

Lemma os_opendir_spec p cs s : rpath p = inl cs ->
  os_opendir p s =
  (s, match lookup s cs with
      | None => Err ResourceNotFound
      | Some n => if is_dir n then Ok tt else Err DirectoryExpected
      end).
Proof.
  intro R. unfold os_opendir. ostep. rewrite (os_getinfo_spec _ _ s R).
  destruct (lookup s cs) as [n|]; [|reflexivity]. cbn [to_info i_isdir]. now destruct (is_dir n).
Qed.

(* the error of a path whose parent directory cannot be reached *)
Definition parent_err (s : node) (d : list str) : errno :=
  match lookup s d with Some (File _ _) => ENOTDIR | _ => walk_err s d end.

Lemma os_setinfo_spec p cs mt s : rpath p = inl cs ->
  os_setinfo p mt s =
  match lookup s cs with
  | None => (s, Err ResourceNotFound)
  | Some n => (put s cs (set_mt n mt), Ok tt)
  end.
Proof.
  intro R. pose proof (rpath_good _ _ R) as G. unfold os_setinfo. ostep.
  rewrite (os_validate_inl _ _ s R). ostep. rewrite iteratepath_nf by assumption.
  unfold k_stat, k_utime. rewrite k_walk_spec. destruct (lookup s cs) as [n|] eqn:L.
  - cbn [negb]. rewrite k_walk_spec, L. reflexivity.
  - reflexivity.
Qed.

Lemma os_setinfo_bad p adm mt s : rpath p = inr adm -> os_setinfo p mt s = (s, Err (bad_err p)).
Proof. intro R. unfold os_setinfo. ostep. rewrite (os_validate_inr _ _ s R). reflexivity. Qed.

(* ---- makedir ---- *)
Lemma os_makedir_root p r s : rpath p = inl [] ->
  os_makedir p r s = if r then os_opendir s_slash s else (s, Err DirectoryExists).
Proof.
  intro R. unfold os_makedir. ostep. rewrite (os_validate_inl _ _ s R). ostep.
  rewrite iteratepath_nf by constructor. cbn [k_mkdir]. destruct r; reflexivity.
Qed.

Lemma os_makedir_snoc p d c r s : rpath p = inl (d ++ [c]) ->
  os_makedir p r s =
  match lookup s d with
  | Some (Dir ents _) =>
    match assoc c ents with
    | Some _ => if r then os_opendir (to_path true (d ++ [c])) s else (s, Err DirectoryExists)
    | None => os_opendir (to_path true (d ++ [c])) (put s (d ++ [c]) empty_dir)
    end
  | Some (File _ _) => (s, Err DirectoryExpected)
  | None => (s, Err (match walk_err s d with ENOENT => ResourceNotFound | e => os_dir_errors e end))
  end.
Proof.
  intro R. pose proof (rpath_good _ _ R) as G. unfold os_makedir. ostep.
  rewrite (os_validate_inl _ _ s R). ostep. rewrite iteratepath_nf by assumption.
  unfold k_mkdir. rewrite snoc_match, k_parent_snoc, lookup_snoc.
  destruct (lookup s d) as [[dt m|ents m]|] eqn:L.
  - reflexivity.
  - destruct (assoc c ents); [destruct r|]; reflexivity.
  - destruct (walk_err_cases _ _ L) as [[_ ->]|[_ ->]]; reflexivity.
Qed.

Lemma os_makedir_bad p adm r s : rpath p = inr adm -> os_makedir p r s = (s, Err (bad_err p)).
Proof. intro R. unfold os_makedir. ostep. rewrite (os_validate_inr _ _ s R). reflexivity. Qed.

(* ---- remove / removedir ---- *)
Lemma os_remove_root p s : rpath p = inl [] -> os_remove p s = (s, Err FileExpected).
Proof.
  intro R. unfold os_remove. ostep. rewrite (os_validate_inl _ _ s R). ostep.
  rewrite iteratepath_nf by constructor. reflexivity.
Qed.

Lemma os_remove_snoc p d c s : rpath p = inl (d ++ [c]) ->
  os_remove p s =
  match lookup s d with
  | Some (Dir ents _) =>
    match assoc c ents with
    | None => (s, Err ResourceNotFound)
    | Some (Dir _ _) => (s, Err FileExpected)
    | Some (File _ _) => (del s (d ++ [c]), Ok tt)
    end
  | _ => (s, Err ResourceNotFound)
  end.
Proof.
  intro R. pose proof (rpath_good _ _ R) as G. unfold os_remove. ostep.
  rewrite (os_validate_inl _ _ s R). ostep. rewrite iteratepath_nf by assumption.
  unfold k_unlink. rewrite snoc_match, k_parent_snoc, lookup_snoc.
  destruct (lookup s d) as [[dt m|ents m]|] eqn:L.
  - reflexivity.
  - destruct (assoc c ents) as [[|]|]; reflexivity.
  - destruct (walk_err_cases _ _ L) as [[_ ->]|[_ ->]]; reflexivity.
Qed.

Lemma os_remove_bad p adm s : rpath p = inr adm -> os_remove p s = (s, Err (bad_err p)).
Proof. intro R. unfold os_remove. ostep. rewrite (os_validate_inr _ _ s R). reflexivity. Qed.

(* OSFS.remove and MemoryFS.remove are the same function of the tree *)
Lemma os_remove_mem p s : os_remove p s = mem_remove p s.
Proof.
  destruct (rpath p) as [cs|adm] eqn:R.
  - destruct (list_snoc_case cs) as [->|[d [c ->]]].
    + now rewrite (os_remove_root _ s R), (mem_remove_root _ s R).
    + rewrite (os_remove_snoc _ _ _ s R), (mem_remove_snoc _ _ _ s R).
      destruct (lookup s d) as [[|ents m]|]; reflexivity.
  - now rewrite (os_remove_bad _ _ s R), (mem_remove_bad _ _ s R).
Qed.

Lemma os_removedir_root p s : rpath p = inl [] -> os_removedir p s = (s, Err RemoveRootError).
Proof.
  intro R. unfold os_removedir. ostep. rewrite (os_validate_inl _ _ s R). ostep.
  rewrite to_path_root, str_eqb_refl. reflexivity.
Qed.

Lemma os_removedir_snoc p d c s : rpath p = inl (d ++ [c]) ->
  os_removedir p s =
  match lookup s d with
  | Some (Dir ents _) =>
    match assoc c ents with
    | None => (s, Err ResourceNotFound)
    | Some (File _ _) => (s, Err DirectoryExpected)
    | Some (Dir (_ :: _) _) => (s, Err DirectoryNotEmpty)
    | Some (Dir [] _) => (del s (d ++ [c]), Ok tt)
    end
  | Some (File _ _) => (s, Err DirectoryExpected)
  | None => (s, Err (os_dir_errors (walk_err s d)))
  end.
Proof.
  intro R. pose proof (rpath_good _ _ R) as G. unfold os_removedir. ostep.
  rewrite (os_validate_inl _ _ s R). ostep. rewrite (to_path_snoc_not_root _ _ G).
  rewrite iteratepath_nf by assumption.
  unfold k_rmdir. rewrite snoc_match, k_parent_snoc, lookup_snoc.
  destruct (lookup s d) as [[dt m|ents m]|] eqn:L; try reflexivity.
  destruct (assoc c ents) as [[|[|]]|]; reflexivity.
Qed.

Lemma os_removedir_bad p adm s : rpath p = inr adm -> os_removedir p s = (s, Err (bad_err p)).
Proof. intro R. unfold os_removedir. ostep. rewrite (os_validate_inr _ _ s R). reflexivity. Qed.

(* ---- open ---- *)
Lemma os_open_invalid p mode s : mode_valid_bin mode = false -> os_open p mode s = (s, Crash ValueError).
Proof. intro V. unfold os_open. rewrite V. reflexivity. Qed.

Lemma os_open_bad p adm mode s : rpath p = inr adm -> mode_valid_bin mode = true ->
  os_open p mode s = (s, Err (bad_err p)).
Proof.
  intros R V. unfold os_open. rewrite V. change (negb true) with false. ostep.
  rewrite (os_validate_inr _ _ s R). reflexivity.
Qed.

Lemma os_open_root p mode s : rpath p = inl [] -> mode_valid_bin mode = true ->
  os_open p mode s = (s, Err FileExpected).
Proof.
  intros R V. unfold os_open. rewrite V. change (negb true) with false. ostep.
  rewrite (os_validate_inl _ _ s R). ostep. rewrite to_path_root, str_eqb_refl. reflexivity.
Qed.

(* the state and position after a successful open of an existing regular file *)
Definition os_open_init (mode : str) (cs : list str) (data : bytes) (s : node)
  : node * outcome (list str * nat) :=
  if m_truncate mode then (put s cs (File [] None), Ok (cs, 0))
  else if m_appending mode then (s, Ok (cs, length data))
  else (s, Ok (cs, 0)).

Lemma os_open_snoc p d c mode s : rpath p = inl (d ++ [c]) -> mode_valid_bin mode = true ->
  io_mode_ok mode = true ->
  os_open p mode s =
  match lookup s d with
  | Some (Dir ents _) =>
    match assoc c ents with
    | None =>
      if m_create mode then (put s (d ++ [c]) (File [] None), Ok (d ++ [c], 0))
      else (s, Err ResourceNotFound)
    | Some (Dir _ _) => if m_exclusive mode then (s, Err FileExists) else (s, Err FileExpected)
    | Some (File data _) =>
      if m_exclusive mode then (s, Err FileExists) else os_open_init mode (d ++ [c]) data s
    end
  | _ => (s, Err ResourceNotFound)
  end.
Proof.
  intros R V I. pose proof (rpath_good _ _ R) as G. unfold os_open. rewrite V, I.
  change (negb true) with false. ostep.
  rewrite (os_validate_inl _ _ s R). ostep. rewrite (to_path_snoc_not_root _ _ G).
  rewrite iteratepath_nf by assumption.
  unfold k_open. rewrite snoc_match, k_parent_snoc, lookup_snoc.
  destruct (lookup s d) as [[dt m|ents m]|] eqn:L.
  - reflexivity.
  - destruct (assoc c ents) as [[data mt|e2 m2]|].
    + unfold os_open_init. destruct (m_exclusive mode); [reflexivity|].
      destruct (m_truncate mode); [reflexivity|]. destruct (m_appending mode); reflexivity.
    + destruct (m_exclusive mode); reflexivity.
    + destruct (m_create mode); reflexivity.
  - destruct (walk_err_cases _ _ L) as [[_ ->]|[_ ->]]; reflexivity.
Qed.

(* an io.open-invalid mode on a resolvable non-root path: ValueError from inside OSFS.openbin *)
Lemma os_open_iobad p d c mode s : rpath p = inl (d ++ [c]) -> mode_valid_bin mode = true ->
  io_mode_ok mode = false -> os_open p mode s = (s, Crash ValueError).
Proof.
  intros R V I. pose proof (rpath_good _ _ R) as G. unfold os_open. rewrite V, I.
  change (negb true) with false. ostep.
  rewrite (os_validate_inl _ _ s R). ostep. rewrite (to_path_snoc_not_root _ _ G).
  rewrite iteratepath_nf by assumption. reflexivity.
Qed.

Lemma io_rb : io_mode_ok m_rb = true. Proof. reflexivity. Qed.
Lemma io_wb : io_mode_ok m_wb = true. Proof. reflexivity. Qed.
Lemma io_ab : io_mode_ok m_ab = true. Proof. reflexivity. Qed.

(* ------------------------------------------------------------------ *)
(* the statement proved per call                                       *)
(* ------------------------------------------------------------------ *)
(* the mode of an open call is one io.open accepts, or one fs.mode.Mode refuses itself.  Until /repo af07be9
   Mode accepted "rw", "rbb", ... which io.open refuses from inside OSFS.openbin (a finding; the theorems carried
   [os_mode_ok o = true] as a hypothesis); since then Mode.validate makes the same demands as io.open and the
   condition holds for every call: os_mode_ok_always *)
Definition os_mode_ok (o : op) : bool :=
  match o with
  | OOpenwrite _ m _ | OOpenread _ m => negb (mode_valid_bin m) || io_mode_ok m
  | _ => true
  end.

(* ------------------------------------------------------------------ *)
(* every mode fs.mode.Mode accepts is one io.open accepts (/repo af07be9) *)
(* ------------------------------------------------------------------ *)
Lemma count_c_cons c x r : count_c c (x :: r) = (if ceqb c x then 1 else 0) + count_c c r.
Proof. unfold count_c. cbn [filter]. destruct (ceqb c x); reflexivity. Qed.

Lemma count_c_zero_has c m : count_c c m = 0 -> has_char c m = false.
Proof.
  induction m as [|x r IH]; [reflexivity|]. rewrite count_c_cons. unfold has_char. cbn [existsb].
  destruct (ceqb c x); [discriminate|]. exact IH.
Qed.

Lemma has_char_count c m : has_char c m = negb (Nat.eqb (count_c c m) 0).
Proof.
  induction m as [|x r IH]; [reflexivity|]. rewrite count_c_cons. unfold has_char in *. cbn [existsb].
  destruct (ceqb c x); [reflexivity|]. exact IH.
Qed.

Lemma nodup_of_counts m : (forall c, count_c c m <= 1) -> nodup_chars m = true.
Proof.
  induction m as [|x r IH]; intro H; [reflexivity|]. cbn [nodup_chars].
  assert (Hx : count_c x r = 0).
  { specialize (H x). rewrite count_c_cons in H. unfold ceqb in H. rewrite N.eqb_refl in H. lia. }
  rewrite (count_c_zero_has _ _ Hx). cbn [negb andb]. apply IH.
  intro c. specialize (H c). rewrite count_c_cons in H. lia.
Qed.

Lemma count_c_outside c m : forallb (fun x => inb x mode_chars) m = true -> inb c mode_chars = false ->
  count_c c m = 0.
Proof.
  induction m as [|x r IH]; intros H Hc; [reflexivity|]. cbn [forallb] in H.
  apply andb_true_iff in H as [Hx Hr]. rewrite count_c_cons, (IH Hr Hc).
  destruct (ceqb c x) eqn:E; [|reflexivity].
  unfold ceqb in E. apply N.eqb_eq in E. subst x. congruence.
Qed.

Lemma mode_valid_io m : mode_valid m = true -> io_mode_ok m = true.
Proof.
  unfold mode_valid. destruct m as [|c0 r]; [discriminate|]. set (m := c0 :: r).
  intro H. repeat (apply andb_true_iff in H as [H ?]).
  match goal with X : Nat.eqb _ 1 = true |- _ => apply Nat.eqb_eq in X; rename X into Sum end.
  repeat match goal with X : Nat.leb _ 1 = true |- _ => apply Nat.leb_le in X end.
  assert (F : forallb (fun x => inb x mode_chars) m = true).
  { subst m. cbn [forallb]. apply andb_true_iff. split; assumption. }
  unfold io_mode_ok. apply andb_true_iff. split.
  - apply nodup_of_counts. intro c. destruct (inb c mode_chars) eqn:Ic.
    + unfold inb, mode_chars in Ic. cbn [existsb] in Ic. unfold ceqb in Ic.
      repeat (apply orb_true_iff in Ic as [Ic|Ic]; [apply N.eqb_eq in Ic; subst c; lia|]).
      discriminate.
    + rewrite (count_c_outside c m); [lia|exact F|assumption].
  - unfold count_true. rewrite !has_char_count. cbn [filter].
    destruct (count_c ch_r m) as [|[|?]], (count_c ch_w m) as [|[|?]], (count_c ch_x m) as [|[|?]],
      (count_c ch_a m) as [|[|?]]; cbn in Sum; try lia; reflexivity.
Qed.

Lemma mode_valid_bin_io m : mode_valid_bin m = true -> io_mode_ok m = true.
Proof. unfold mode_valid_bin. intro H. apply andb_true_iff in H as [H _]. now apply mode_valid_io. Qed.

Lemma os_mode_ok_always o : os_mode_ok o = true.
Proof.
  destruct o; try reflexivity; cbn [os_mode_ok];
    match goal with |- negb (mode_valid_bin ?m) || _ = true => destruct (mode_valid_bin m) eqn:V end;
    try reflexivity; cbn [negb orb]; now apply mode_valid_bin_io.
Qed.

Definition nonempty (d : bytes) : bool := match d with [] => false | _ => true end.

(* calls after which the model's FILE TIMES are those of the reference as well; for the others the
   resulting trees are equal up to modification times only (the kernel sets the time on O_TRUNC, not
   on an empty write; shutil.copy2 always copies the time) *)
Definition os_times_exact (o : op) : bool :=
  match o with
  | OAppendbytes _ d => nonempty d
  | OOpenwrite _ m d => negb (m_writing m) || m_truncate m || nonempty d
  | OOpenread _ m => negb (m_truncate m)
  | OCreate _ w => negb w
  | OCopy _ _ _ pt => pt
  | _ => true
  end.

Definition step_ok_os (o : op) (s : node) : Prop :=
  agree_tm (os_times_exact o) (osfs_run o s) (ref_run o s) = true /\ wf (fst (osfs_run o s)).

Lemma fin_ok_tm tm s' (v w : value) :
  wf s' -> value_eqb v w = true ->
  agree_tm tm (s', Ok v) {| rs_tree := Some s'; rs_res := ROk w |} = true /\ wf (fst (s', Ok v)).
Proof.
  intros W E. split; [|exact W]. unfold agree_tm. simpl. now rewrite E, tree_eqb_refl.
Qed.

Lemma fin_err_tm tm s e adm :
  wf s -> existsb (ecls_eqb e) adm = true ->
  agree_tm tm (s, @Err value e) {| rs_tree := Some s; rs_res := RFail adm |} = true
  /\ wf (fst (s, @Err value e)).
Proof.
  intros W E. split; [|exact W]. unfold agree_tm. simpl. now rewrite E, tree_eqb_refl.
Qed.

Lemma fin_crash_tm tm s :
  wf s -> agree_tm tm (s, @Crash value ValueError) {| rs_tree := Some s; rs_res := RValueError |} = true
  /\ wf (fst (s, @Crash value ValueError)).
Proof. intro W. split; [|exact W]. unfold agree_tm. simpl. apply tree_eqb_refl. Qed.

(* success with a tree that equals the reference's up to times *)
Lemma fin_ok_teq s1 s2 (v w : value) :
  wf s1 -> teq s1 s2 -> value_eqb v w = true ->
  agree_tm false (s1, Ok v) {| rs_tree := Some s2; rs_res := ROk w |} = true /\ wf (fst (s1, Ok v)).
Proof.
  intros W T E. split; [|exact W]. unfold agree_tm. simpl. now rewrite E, (teq_tree_eqb _ _ T).
Qed.

(* weakening: whatever holds with times holds without *)
Lemma agree_tm_weaken tm obs r : agree_tm true obs r = true -> agree_tm tm obs r = true.
Proof.
  destruct tm; [auto|]. unfold agree_tm. intro H. apply andb_true_iff in H as [H1 H2].
  rewrite H1. destruct (rs_tree r); [|reflexivity]. now apply tree_eqb_true_false.
Qed.

(* a call on which OSFS and MemoryFS models are the same function inherits MemoryFS's proof *)
Lemma step_ok_os_of_mem o s :
  osfs_run o s = mem_run o s -> wf s -> covered o = true -> step_ok_os o s.
Proof.
  intros E W C. unfold step_ok_os. rewrite E. split.
  - apply agree_tm_weaken. rewrite agree_tm_true. now apply mem_refines_ref.
  - now apply mem_wf_preserved.
Qed.

(* ====================================================================== *)
(* 2b. auxiliary facts: the reference never leaves a covered verdict open; io.open-refused modes *)
(* ====================================================================== *)
(* ------------------------------------------------------------------ *)
(* the reference never leaves the verdict of a covered call open       *)
(* ------------------------------------------------------------------ *)
Definition is_any (r : rres) : bool := match r with RAny => true | _ => false end.

Ltac anycrush :=
  repeat match goal with
         | |- context [match ?x with _ => _ end] => destruct x
         | |- context [if ?x then _ else _] => destruct x
         end; try reflexivity.

Lemma ref_open_not_any t cs mode wr rd : is_any (rs_res (ref_open t cs mode wr rd)) = false.
Proof. unfold ref_open, fail, same. anycrush. Qed.

Lemma ref_not_any o t : covered o = true -> is_any (rs_res (ref_run o t)) = false.
Proof.
  intro C. destruct o; try discriminate C; cbn [ref_run];
    unfold ref_query, with1, with2, ref_getinfo, ref_listing, ref_makedir, ref_remove, ref_removedir,
      ref_removetree, ref_setinfo, ref_move, ref_copy, fail, same;
    repeat match goal with
           | |- context [rpath ?p] => destruct (rpath p)
           end; cbn [rs_res is_any]; try reflexivity;
    try apply ref_open_not_any; anycrush;
    try (cbn [rs_res]; apply ref_open_not_any).
Qed.

(* verdict of an outcome: 0 success, 1 an fs.errors class, 2 a foreign exception *)
Definition verdict (o : outcome value) : nat :=
  match o with Ok _ => 0 | Err _ => 1 | Crash _ => 2 end.

Lemma res_agree_same_verdict a b r :
  is_any r = false -> res_agree a r = true -> res_agree b r = true -> verdict a = verdict b.
Proof.
  destruct r; try discriminate; intros _ Ha Hb; destruct a as [|?|[]], b as [|?|[]];
    simpl in *; try discriminate; reflexivity.
Qed.

(* an fs.mode-valid mode that io.open refuses: nothing happens to the tree *)
Lemma os_open_iobad_state p mode s : mode_valid_bin mode = true -> io_mode_ok mode = false ->
  fst (os_open p mode s) = s.
Proof.
  intros V I. destruct (rpath p) as [cs|adm] eqn:R.
  - destruct (list_snoc_case cs) as [->|[d [c ->]]].
    + now rewrite (os_open_root _ _ s R V).
    + now rewrite (os_open_iobad _ _ _ _ s R V I).
  - now rewrite (os_open_bad _ _ _ s R V).
Qed.

Lemma os_open_iobad_not_ok p mode s : mode_valid_bin mode = true -> io_mode_ok mode = false ->
  is_ok (snd (os_open p mode s)) = false.
Proof.
  intros V I. destruct (rpath p) as [cs|adm] eqn:R.
  - destruct (list_snoc_case cs) as [->|[d [c ->]]].
    + now rewrite (os_open_root _ _ s R V).
    + now rewrite (os_open_iobad _ _ _ _ s R V I).
  - now rewrite (os_open_bad _ _ _ s R V).
Qed.

Lemma osfs_iobad_state o s : os_mode_ok o = false -> fst (osfs_run o s) = s.
Proof.
  destruct o; try discriminate; cbn [os_mode_ok]; intro H;
    apply orb_false_iff in H as [V I]; apply negb_false_iff in V.
  - cbn [osfs_run]. unfold vmap, os_openwrite, mbind.
    pose proof (os_open_iobad_state p mode s V I) as E1.
    pose proof (os_open_iobad_not_ok p mode s V I) as E2.
    destruct (os_open p mode s) as [s' [h|e|k]]; cbn [fst snd is_ok] in *; try discriminate; exact E1.
  - cbn [osfs_run]. unfold mbind.
    pose proof (os_open_iobad_state p mode s V I) as E1.
    pose proof (os_open_iobad_not_ok p mode s V I) as E2.
    destruct (os_open p mode s) as [s' [h|e|k]]; cbn [fst snd is_ok] in *; try discriminate; exact E1.
Qed.

(* ====================================================================== *)
(* 3a. queries and simple mutators *)
(* ====================================================================== *)
Ltac tfin_ok := unfold same; apply fin_ok_tm; [auto | apply value_eqb_refl].
Ltac tfin_err := unfold fail, same; apply fin_err_tm; [assumption | reflexivity].
Ltac tfin_bad R := unfold fail, same; apply fin_err_tm; [assumption | exact (bad_err_in _ _ R)].

(* ------------------------------------------------------------------ *)
(* calls on which OSFS and MemoryFS are the same function of the tree   *)
(* ------------------------------------------------------------------ *)
(* step_ok_os_of_mem for a call with exact times: no weakening of the tree comparison needed *)
Lemma step_ok_os_of_mem_exact o s :
  os_times_exact o = true -> osfs_run o s = mem_run o s -> wf s -> covered o = true -> step_ok_os o s.
Proof.
  intros T E W C. unfold step_ok_os. rewrite E, T. split.
  - rewrite agree_tm_true. now apply mem_refines_ref.
  - now apply mem_wf_preserved.
Qed.

Lemma os_step_getinfo p s : wf s -> step_ok_os (OGetinfo p) s.
Proof.
  intro W. apply step_ok_os_of_mem_exact; [reflexivity| |assumption|reflexivity].
  cbn [osfs_run mem_run]. mstep. now rewrite os_getinfo_mem.
Qed.

Lemma os_step_exists p s : wf s -> step_ok_os (OExists p) s.
Proof.
  intro W. apply step_ok_os_of_mem_exact; [reflexivity| |assumption|reflexivity].
  cbn [osfs_run mem_run]. unfold os_exists, mem_exists, b_exists. cbn [l_getinfo os_low mem_low].
  mstep. now rewrite os_getinfo_mem.
Qed.

Lemma os_step_isdir p s : wf s -> step_ok_os (OIsdir p) s.
Proof.
  intro W. apply step_ok_os_of_mem_exact; [reflexivity| |assumption|reflexivity].
  cbn [osfs_run mem_run]. unfold os_isdir, mem_isdir, b_isdir. cbn [l_getinfo os_low mem_low].
  mstep. now rewrite os_getinfo_mem.
Qed.

Lemma os_step_isfile p s : wf s -> step_ok_os (OIsfile p) s.
Proof.
  intro W. apply step_ok_os_of_mem_exact; [reflexivity| |assumption|reflexivity].
  cbn [osfs_run mem_run]. unfold mem_isfile, b_isfile. cbn [l_getinfo os_low mem_low].
  mstep. now rewrite os_getinfo_mem.
Qed.

Lemma os_step_getsize p s : wf s -> step_ok_os (OGetsize p) s.
Proof.
  intro W. apply step_ok_os_of_mem_exact; [reflexivity| |assumption|reflexivity].
  cbn [osfs_run mem_run]. unfold mem_getsize, b_getsize. cbn [l_getinfo os_low mem_low].
  mstep. now rewrite os_getinfo_mem.
Qed.

Lemma os_step_gettype p s : wf s -> step_ok_os (OGettype p) s.
Proof.
  intro W. apply step_ok_os_of_mem_exact; [reflexivity| |assumption|reflexivity].
  cbn [osfs_run mem_run]. unfold os_gettype, mem_gettype, b_gettype. cbn [l_getinfo os_low mem_low].
  mstep. now rewrite os_getinfo_mem.
Qed.

Lemma os_setinfo_mem p mt s : os_setinfo p mt s = mem_setinfo p mt s.
Proof.
  destruct (rpath p) as [cs|adm] eqn:R.
  - now rewrite (os_setinfo_spec _ _ mt s R), (mem_setinfo_spec _ _ mt s R).
  - now rewrite (os_setinfo_bad _ _ mt s R), (mem_setinfo_bad _ _ mt s R).
Qed.

Lemma os_step_setinfo p mt s : wf s -> step_ok_os (OSetinfo p mt) s.
Proof.
  intro W. apply step_ok_os_of_mem_exact; [reflexivity| |assumption|reflexivity].
  cbn [osfs_run mem_run]. mstep. now rewrite os_setinfo_mem.
Qed.

Lemma os_step_remove p s : wf s -> step_ok_os (ORemove p) s.
Proof.
  intro W. apply step_ok_os_of_mem_exact; [reflexivity| |assumption|reflexivity].
  cbn [osfs_run mem_run]. mstep. now rewrite os_remove_mem.
Qed.

(* ------------------------------------------------------------------ *)
(* listings                                                            *)
(* ------------------------------------------------------------------ *)
(* the class OSFS answers on a path that cannot be walked is admitted by the reference *)
Lemma os_dir_errors_none s cs : lookup s cs = None ->
  existsb (ecls_eqb (os_dir_errors (walk_err s cs))) (dir_errors (status_of s cs)) = true.
Proof. intro L. destruct (walk_err_cases _ _ L) as [[-> ->]|[-> ->]]; reflexivity. Qed.

Lemma os_step_listdir p s : wf s -> step_ok_os (OListdir p) s.
Proof.
  intro W. unfold step_ok_os. cbn [osfs_run ref_run os_times_exact]. unfold with1.
  destruct (rpath p) as [cs|adm] eqn:R; mstep.
  - rewrite (os_listdir_spec _ _ s R). unfold ref_listing.
    destruct (lookup s cs) as [[|ents m]|] eqn:L; mstep.
    + unfold fail, same. apply fin_err_tm; [assumption|]. eapply dir_errors_file; eauto.
    + tfin_ok.
    + unfold fail, same. apply fin_err_tm; [assumption|]. now apply os_dir_errors_none.
  - rewrite (os_listdir_bad _ _ s R). mstep. tfin_bad R.
Qed.

Lemma os_step_scandir p s : wf s -> step_ok_os (OScandir p) s.
Proof.
  intro W. unfold step_ok_os. cbn [osfs_run ref_run os_times_exact]. unfold with1.
  destruct (rpath p) as [cs|adm] eqn:R; mstep.
  - rewrite (os_scandir_spec _ _ s R). unfold ref_listing.
    destruct (lookup s cs) as [[|ents m]|] eqn:L; mstep.
    + unfold fail, same. apply fin_err_tm; [assumption|]. eapply dir_errors_file; eauto.
    + tfin_ok.
    + unfold fail, same. apply fin_err_tm; [assumption|]. now apply os_dir_errors_none.
  - rewrite (os_scandir_bad _ _ s R). mstep. tfin_bad R.
Qed.

Lemma os_step_isempty p s : wf s -> step_ok_os (OIsempty p) s.
Proof.
  intro W. unfold step_ok_os. cbn [osfs_run ref_run os_times_exact]. unfold with1, b_isempty.
  cbn [l_scandir os_low].
  destruct (rpath p) as [cs|adm] eqn:R; mstep.
  - rewrite (os_scandir_spec _ _ s R). unfold ref_listing.
    destruct (lookup s cs) as [[|ents m]|] eqn:L; mstep.
    + unfold fail, same. apply fin_err_tm; [assumption|]. eapply dir_errors_file; eauto.
    + destruct ents; tfin_ok.
    + unfold fail, same. apply fin_err_tm; [assumption|]. now apply os_dir_errors_none.
  - rewrite (os_scandir_bad _ _ s R). mstep. tfin_bad R.
Qed.

(* ------------------------------------------------------------------ *)
(* makedir / removedir                                                 *)
(* ------------------------------------------------------------------ *)
Lemma rpath_slash : rpath s_slash = inl [].
Proof. rewrite <- to_path_root. apply rpath_nf. split; constructor. Qed.

Lemma os_step_makedir p r s : wf s -> step_ok_os (OMakedir p r) s.
Proof.
  intro W. unfold step_ok_os. cbn [osfs_run ref_run os_times_exact]. unfold with1.
  destruct (rpath p) as [cs|adm] eqn:R; mstep.
  2:{ rewrite (os_makedir_bad _ _ r s R). mstep. tfin_bad R. }
  pose proof (rpath_good _ _ R) as G. pose proof (rpath_nf _ (rpath_vp _ _ R)) as Rq.
  destruct (list_snoc_case cs) as [->|[d [c ->]]].
  - rewrite (os_makedir_root _ r s R). unfold ref_makedir.
    destruct r; [|mstep; tfin_err].
    rewrite (os_opendir_spec _ _ s rpath_slash). cbn [lookup]. destruct W as [Wd Wn]. rewrite Wd.
    mstep. apply fin_ok_tm; [split; assumption|reflexivity].
  - rewrite (os_makedir_snoc _ _ _ r s R), ref_makedir_snoc.
    pview s d c; unfold walk_err; rewrite ?Hl, ?Hs, ?Hsc, ?Ha; cbn [parent_errors os_dir_errors];
      mstep; try tfin_err.
    + rewrite (os_opendir_spec _ _ _ Rq). rewrite (lookup_put_same _ _ _ _ _ _ Hl).
      cbn [is_dir empty_dir]. mstep. apply fin_ok_tm; [|reflexivity].
      apply wf_put_ne; auto using snoc_ne', wf_empty_dir.
    + destruct r.
      * rewrite (os_opendir_spec _ _ _ Rq), Hlc. destruct (is_dir n); mstep; [tfin_ok|tfin_err].
      * destruct (is_dir n); mstep; tfin_err.
Qed.

Lemma os_step_removedir p s : wf s -> step_ok_os (ORemovedir p) s.
Proof.
  intro W. unfold step_ok_os. cbn [osfs_run ref_run os_times_exact]. unfold with1.
  destruct (rpath p) as [cs|adm] eqn:R; mstep.
  2:{ rewrite (os_removedir_bad _ _ s R). mstep. tfin_bad R. }
  destruct (list_snoc_case cs) as [->|[d [c ->]]].
  - rewrite (os_removedir_root _ s R). mstep. unfold ref_removedir. tfin_err.
  - rewrite (os_removedir_snoc _ _ _ s R), ref_removedir_snoc.
    pview s d c; unfold walk_err; rewrite ?Hl, ?Hs, ?Hsc, ?Ha, ?Hlc; cbn [os_dir_errors os_file_errors];
      mstep; try tfin_err.
    destruct n as [dt mt|[|e es] mt]; cbn [is_dir]; mstep; try tfin_err.
    apply fin_ok_tm; [|reflexivity]. now apply wf_del_any.
Qed.

(* ====================================================================== *)
(* 3b. the open family *)
(* ====================================================================== *)
(* ------------------------------------------------------------------ *)
(* small facts about modes and write_at                                *)
(* ------------------------------------------------------------------ *)
Lemma excl_create mode : m_create mode && m_exclusive mode = m_exclusive mode.
Proof.
  unfold m_create, m_exclusive. destruct (has_char ch_x mode).
  - now rewrite orb_true_r.
  - apply andb_false_r.
Qed.

Lemma nowrite_notrunc mode : m_writing mode = false -> m_truncate mode = false.
Proof.
  unfold m_writing, m_truncate.
  destruct (has_char ch_w mode), (has_char ch_a mode), (has_char ch_plus mode), (has_char ch_x mode);
    simpl; congruence.
Qed.

Lemma write_at_empty pos old : Mem.write_at pos old [] = old.
Proof.
  unfold Mem.write_at. cbn [length app]. rewrite Nat.add_0_r. apply firstn_skipn.
Qed.

(* ------------------------------------------------------------------ *)
(* open + optional write + close on OSFS                               *)
(* ------------------------------------------------------------------ *)
(* the tree after openbin(mode) [+ write(wr)] on an existing regular file *)
Definition os_ow_state (s : node) (cs : list str) (mode : str) (wr : option bytes)
           (old : bytes) : node :=
  if m_truncate mode then put s cs (File (match wr with Some x => x | None => [] end) None)
  else
    match wr with
    | Some ((_ :: _) as x) =>
      put s cs (File (Posix.write_at (if m_appending mode then length old else 0) old x) None)
    | _ => s
    end.

Lemma os_openwrite_invalid p mode wr s : mode_valid_bin mode = false ->
  os_openwrite p mode wr s = (s, Crash ValueError).
Proof. intro V. unfold os_openwrite. ostep. rewrite (os_open_invalid _ _ s V). reflexivity. Qed.

Lemma os_openwrite_bad p adm mode wr s : rpath p = inr adm -> mode_valid_bin mode = true ->
  os_openwrite p mode wr s = (s, Err (bad_err p)).
Proof. intros R V. unfold os_openwrite. ostep. rewrite (os_open_bad _ _ _ s R V). reflexivity. Qed.

Lemma os_openwrite_root p mode wr s : rpath p = inl [] -> mode_valid_bin mode = true ->
  os_openwrite p mode wr s = (s, Err FileExpected).
Proof. intros R V. unfold os_openwrite. ostep. rewrite (os_open_root _ _ s R V). reflexivity. Qed.

Lemma os_openwrite_snoc p d c mode wr s :
  rpath p = inl (d ++ [c]) -> mode_valid_bin mode = true -> io_mode_ok mode = true ->
  (wr = None \/ m_writing mode = true) ->
  os_openwrite p mode wr s =
  match lookup s d with
  | Some (Dir ents _) =>
    match assoc c ents with
    | None =>
      if m_create mode
      then (put s (d ++ [c]) (File (match wr with Some x => x | None => [] end) None), Ok tt)
      else (s, Err ResourceNotFound)
    | Some (Dir _ _) => if m_exclusive mode then (s, Err FileExists) else (s, Err FileExpected)
    | Some (File old mt) =>
      if m_exclusive mode then (s, Err FileExists)
      else (os_ow_state s (d ++ [c]) mode wr old, Ok tt)
    end
  | _ => (s, Err ResourceNotFound)
  end.
Proof.
  intros R V I Hw. unfold os_openwrite. ostep. rewrite (os_open_snoc _ _ _ _ s R V I).
  destruct (lookup s d) as [[|ents m]|] eqn:Hl; try reflexivity.
  assert (Hw' : forall x, wr = Some x -> m_writing mode = true).
  { intros x E. destruct Hw as [Hw|Hw]; [congruence|exact Hw]. }
  destruct (assoc c ents) as [[old mt|e2 m2]|] eqn:Ha.
  - destruct (m_exclusive mode); [reflexivity|].
    assert (Hlc : lookup s (d ++ [c]) = Some (File old mt)) by (rewrite lookup_snoc, Hl; exact Ha).
    unfold os_open_init, os_ow_state.
    destruct (m_truncate mode).
    + destruct wr as [x|]; [|reflexivity]. rewrite (Hw' x eq_refl). cbn [negb fst snd].
      unfold k_write. rewrite (lookup_put_same _ _ _ _ _ _ Hl).
      destruct x as [|b x]; [reflexivity|]. rewrite put_put.
      change Posix.write_at with Mem.write_at. now rewrite write_at_nil.
    + destruct (m_appending mode); (destruct wr as [x|]; [|reflexivity]);
        rewrite (Hw' x eq_refl); cbn [negb fst snd]; unfold k_write; rewrite Hlc;
        destruct x; reflexivity.
  - destruct (m_exclusive mode); reflexivity.
  - destruct (m_create mode); [|reflexivity].
    destruct wr as [x|]; [|reflexivity]. rewrite (Hw' x eq_refl). cbn [negb fst snd].
    unfold k_write. rewrite (lookup_put_same _ _ _ _ _ _ Hl).
    destruct x as [|b x]; [reflexivity|]. rewrite put_put.
    change Posix.write_at with Mem.write_at. now rewrite write_at_nil.
Qed.

(* when the tree after the call is exactly the reference's (times included) *)
Definition ow_exact (mode : str) (wr : option bytes) : bool :=
  match wr with
  | Some x => m_truncate mode || nonempty x
  | None => negb (m_truncate mode)
  end.

Lemma os_ow_exact s cs mode wr old mt :
  ow_exact mode wr = true -> os_ow_state s cs mode wr old = ow_state s cs mode wr old mt.
Proof.
  unfold ow_exact, os_ow_state, ow_state. change Posix.write_at with Mem.write_at.
  destruct (m_truncate mode); destruct wr as [[|b x]|]; cbn [orb negb nonempty];
    intro H; try discriminate; reflexivity.
Qed.

Lemma os_ow_teq s cs mode wr old mt :
  lookup s cs = Some (File old mt) ->
  teq (os_ow_state s cs mode wr old) (ow_state s cs mode wr old mt).
Proof.
  intro L. unfold os_ow_state, ow_state. change Posix.write_at with Mem.write_at.
  destruct (m_truncate mode); destruct wr as [[|b x]|]; try apply teq_refl.
  - apply teq_put_file.
  - rewrite write_at_empty. eapply teq_retime; eauto.
Qed.

Lemma wf_os_ow_state s cs mode wr old :
  wf s -> cs <> [] -> Forall good cs -> wf (os_ow_state s cs mode wr old).
Proof.
  intros W N G. unfold os_ow_state.
  destruct (m_truncate mode); [auto using wf_put_file|].
  destruct wr as [[|b x]|]; auto using wf_put_file.
Qed.

(* success with a tree equal to the reference's up to times, and exactly equal when [tm] *)
Lemma fin_ok_gen tm t1 t2 (v w : value) :
  wf t1 -> teq t1 t2 -> (tm = true -> t1 = t2) -> value_eqb v w = true ->
  agree_tm tm (t1, Ok v) {| rs_tree := Some t2; rs_res := ROk w |} = true /\ wf (fst (t1, Ok v)).
Proof.
  intros W T E V. destruct tm.
  - rewrite <- (E eq_refl). now apply fin_ok_tm.
  - now apply fin_ok_teq.
Qed.

Lemma os_openwrite_rel p cs mode wr s :
  wf s -> rpath p = inl cs -> mode_valid_bin mode = true -> io_mode_ok mode = true ->
  (wr = None \/ m_writing mode = true) ->
  (exists t1 t2, os_openwrite p mode wr s = (t1, Ok tt) /\
              ref_open s cs mode wr false = {| rs_tree := Some t2; rs_res := ROk VUnit |} /\
              wf t1 /\ teq t1 t2 /\
              (ow_exact mode wr = true \/ lookup s cs = None -> t1 = t2)) \/
  (exists e adm, os_openwrite p mode wr s = (s, Err e) /\
                 ref_open s cs mode wr false = fail s adm /\
                 existsb (ecls_eqb e) adm = true).
Proof.
  intros W R V I Hw. pose proof (rpath_good _ _ R) as G.
  destruct (list_snoc_case cs) as [->|[d [c ->]]].
  - right. rewrite (os_openwrite_root _ _ wr s R V). unfold ref_open. rewrite V.
    cbn [negb]. eexists _, _. repeat split; reflexivity.
  - rewrite (os_openwrite_snoc _ _ _ _ wr s R V I Hw), (ref_open_snoc _ _ _ _ _ _ V).
    rewrite excl_create.
    pview s d c; rewrite ?Hl, ?Hs, ?Hsc, ?Ha; cbn [file_parent_errors].
    + right. eexists _, _. repeat split; reflexivity.
    + right. eexists _, _. repeat split; reflexivity.
    + right. eexists _, _. repeat split; reflexivity.
    + destruct (m_create mode).
      * left. eexists _, _. split; [reflexivity|]. split; [reflexivity|].
        split; [auto using wf_put_file, snoc_ne'|]. split; [apply teq_refl|reflexivity].
      * right. eexists _, _. repeat split; reflexivity.
    + destruct n as [old mt|e2 m2]; cbn [is_dir].
      * destruct (m_exclusive mode).
        -- right. eexists _, _. repeat split; reflexivity.
        -- left. rewrite Hlc. exists (os_ow_state s (d ++ [c]) mode wr old),
             (ow_state s (d ++ [c]) mode wr old mt). split; [reflexivity|]. split.
           { f_equal. f_equal. apply ow_state_eq. }
           split; [apply wf_os_ow_state; auto using snoc_ne'|].
           split; [now apply os_ow_teq|].
           intros [E|E]; [now apply os_ow_exact|congruence].
      * right. destruct (m_exclusive mode); eexists _, _; repeat split; reflexivity.
Qed.

(* ------------------------------------------------------------------ *)
(* openwrite / writebytes / appendbytes                                *)
(* ------------------------------------------------------------------ *)
Lemma os_step_openwrite p m d s :
  wf s -> os_mode_ok (OOpenwrite p m d) = true -> step_ok_os (OOpenwrite p m d) s.
Proof.
  intros W MO. unfold step_ok_os. cbn [osfs_run ref_run os_times_exact].
  destruct (mode_valid_bin m) eqn:V; cbn [negb]; mstep.
  2:{ rewrite (os_openwrite_invalid _ _ _ s V). mstep. unfold same. now apply fin_crash_tm. }
  assert (I : io_mode_ok m = true).
  { unfold os_mode_ok in MO. rewrite V in MO. exact MO. }
  unfold with1. destruct (rpath p) as [cs|adm] eqn:R.
  2:{ rewrite (os_openwrite_bad _ _ _ _ s R V). mstep. unfold fail, same.
      apply fin_err_tm; [assumption|exact (bad_err_in _ _ R)]. }
  assert (Hw : (if m_writing m then Some d else None) = None \/ m_writing m = true)
    by (destruct (m_writing m); auto).
  destruct (os_openwrite_rel _ _ _ _ s W R V I Hw)
    as [(t1 & t2 & Hm & Hr & Wt & T & E)|(e & adm & Hm & Hr & He)];
    rewrite Hm, Hr; mstep.
  - apply fin_ok_gen; [assumption|assumption| |reflexivity].
    intro X. apply E. left.
    destruct (m_writing m) eqn:Wm; cbn [negb orb] in X |- *.
    + exact X.
    + unfold ow_exact. now rewrite (nowrite_notrunc _ Wm).
  - unfold fail. apply fin_err_tm; assumption.
Qed.

Lemma os_step_writebytes p d s : wf s -> step_ok_os (OWritebytes p d) s.
Proof. intro W. exact (os_step_openwrite p m_wb d s W eq_refl). Qed.

Lemma os_step_appendbytes p d s : wf s -> step_ok_os (OAppendbytes p d) s.
Proof. intro W. exact (os_step_openwrite p m_ab d s W eq_refl). Qed.

(* ------------------------------------------------------------------ *)
(* openread / readbytes                                                *)
(* ------------------------------------------------------------------ *)
Ltac os_or_crush Hl Hlc :=
  repeat first [ progress ostep | progress cbn [fst snd negb]
               | progress unfold k_readall
               | rewrite put_put | rewrite (lookup_put_same _ _ _ _ _ _ Hl) | rewrite Hlc ].

Lemma os_openread_rel p cs mode s :
  wf s -> rpath p = inl cs -> mode_valid_bin mode = true -> io_mode_ok mode = true ->
  (exists t1 t2 v, osfs_run (OOpenread p mode) s = (t1, Ok v) /\
                ref_open s cs mode None (m_reading mode)
                = {| rs_tree := Some t2; rs_res := ROk v |} /\
                wf t1 /\ teq t1 t2 /\
                (m_truncate mode = false \/ lookup s cs = None -> t1 = t2)) \/
  (exists e adm, osfs_run (OOpenread p mode) s = (s, Err e) /\
                 ref_open s cs mode None (m_reading mode) = fail s adm /\
                 existsb (ecls_eqb e) adm = true).
Proof.
  intros W R V I. pose proof (rpath_good _ _ R) as G. cbn [osfs_run]. ostep.
  destruct (list_snoc_case cs) as [->|[d [c ->]]].
  - right. rewrite (os_open_root _ _ s R V). unfold ref_open. rewrite V.
    cbn [negb]. eexists _, _. repeat split; reflexivity.
  - rewrite (os_open_snoc _ _ _ _ s R V I), (ref_open_snoc _ _ _ _ _ _ V).
    rewrite excl_create.
    pview s d c; rewrite ?Hl, ?Hs, ?Hsc, ?Ha; cbn [file_parent_errors].
    + right. eexists _, _. repeat split; reflexivity.
    + right. eexists _, _. repeat split; reflexivity.
    + right. eexists _, _. repeat split; reflexivity.
    + destruct (m_create mode).
      * left. destruct (m_reading mode); os_or_crush Hl Hlc;
          eexists _, _, _; (split; [reflexivity|]); (split; [reflexivity|]);
          (split; [auto using wf_put_file, snoc_ne'|]); (split; [apply teq_refl|reflexivity]).
      * right. eexists _, _. repeat split; reflexivity.
    + destruct n as [old mt|e2 m2]; cbn [is_dir].
      * destruct (m_exclusive mode).
        -- right. eexists _, _. repeat split; reflexivity.
        -- left. rewrite Hlc. unfold os_open_init.
           destruct (m_truncate mode).
           ++ destruct (m_appending mode), (m_reading mode); os_or_crush Hl Hlc;
                eexists _, _, _; (split; [reflexivity|]); (split; [reflexivity|]);
                (split; [auto using wf_put_file, snoc_ne'|]); (split; [apply teq_put_file|]);
                intros [E|E]; congruence.
           ++ destruct (m_appending mode), (m_reading mode); os_or_crush Hl Hlc;
                eexists _, _, _; (split; [reflexivity|]); (split; [reflexivity|]);
                (split; [assumption|]); (split; [apply teq_refl|reflexivity]).
      * right. destruct (m_exclusive mode); eexists _, _; repeat split; reflexivity.
Qed.

Lemma os_step_openread p m s :
  wf s -> os_mode_ok (OOpenread p m) = true -> step_ok_os (OOpenread p m) s.
Proof.
  intros W MO. unfold step_ok_os. cbn [ref_run os_times_exact].
  destruct (mode_valid_bin m) eqn:V; cbn [negb]; mstep.
  2:{ cbn [osfs_run]. mstep. rewrite (os_open_invalid _ _ s V). mstep. unfold same.
      now apply fin_crash_tm. }
  assert (I : io_mode_ok m = true).
  { unfold os_mode_ok in MO. rewrite V in MO. exact MO. }
  unfold with1. destruct (rpath p) as [cs|adm] eqn:R.
  2:{ cbn [osfs_run]. mstep. rewrite (os_open_bad _ _ _ s R V). mstep. unfold fail, same.
      apply fin_err_tm; [assumption|exact (bad_err_in _ _ R)]. }
  destruct (os_openread_rel _ _ _ s W R V I)
    as [(t1 & t2 & v & Hm & Hr & Wt & T & E)|(e & adm & Hm & Hr & He)];
    rewrite Hm, Hr.
  - apply fin_ok_gen; [assumption|assumption| |apply value_eqb_refl].
    intro X. apply E. left. now destruct (m_truncate m).
  - unfold fail. apply fin_err_tm; assumption.
Qed.

Lemma os_readbytes_as_openread p s : osfs_run (OReadbytes p) s = osfs_run (OOpenread p m_rb) s.
Proof.
  cbn [osfs_run]. unfold b_readbytes. cbn [l_openread os_low].
  unfold os_openread. mstep.
  destruct (os_open p m_rb s) as [s' [h| |]]; reflexivity.
Qed.

Lemma os_step_readbytes p s : wf s -> step_ok_os (OReadbytes p) s.
Proof.
  intro W. unfold step_ok_os. rewrite os_readbytes_as_openread.
  change (ref_run (OReadbytes p) s) with (ref_run (OOpenread p m_rb) s).
  exact (os_step_openread p m_rb s W eq_refl).
Qed.

(* ------------------------------------------------------------------ *)
(* create / touch                                                      *)
(* ------------------------------------------------------------------ *)
Lemma os_exists_mem p s : b_exists os_low p s = b_exists mem_low p s.
Proof. unfold b_exists. cbn [l_getinfo os_low mem_low]. mstep. now rewrite os_getinfo_mem. Qed.

Lemma os_exists_spec p cs s : rpath p = inl cs ->
  b_exists os_low p s = (s, Ok (match lookup s cs with Some _ => true | None => false end)).
Proof. intro R. rewrite os_exists_mem. now apply mem_exists_spec. Qed.

Lemma os_exists_bad p adm s : rpath p = inr adm -> b_exists os_low p s = (s, Err (bad_err p)).
Proof. intro R. rewrite os_exists_mem. now apply (mem_exists_bad _ adm). Qed.

Lemma os_step_create p wipe s : wf s -> step_ok_os (OCreate p wipe) s.
Proof.
  intro W. unfold step_ok_os. cbn [osfs_run ref_run os_times_exact]. unfold with1, b_create.
  cbn [l_openwrite os_low].
  destruct (rpath p) as [cs|adm] eqn:R.
  2:{ destruct wipe; mstep.
      - rewrite (os_openwrite_bad _ _ _ None s R m_wb_valid). mstep. unfold fail, same.
        apply fin_err_tm; [assumption|exact (bad_err_in _ _ R)].
      - rewrite (os_exists_bad _ _ s R). mstep. unfold fail, same.
        apply fin_err_tm; [assumption|exact (bad_err_in _ _ R)]. }
  rewrite exists_st_lookup.
  assert (Hw : @None bytes = None \/ m_writing m_wb = true) by (left; reflexivity).
  destruct wipe; cbn [negb andb]; mstep.
  - destruct (os_openwrite_rel _ _ _ _ s W R m_wb_valid io_wb Hw)
      as [(t1 & t2 & Hm & Hr & Wt & T & E)|(e & adm & Hm & Hr & He)]; rewrite Hm, Hr; mstep;
      cbv zeta; cbn [rs_res rs_tree fail same].
    + apply fin_ok_teq; [assumption|assumption|reflexivity].
    + apply fin_err_tm; assumption.
  - rewrite (os_exists_spec _ _ s R). mstep.
    destruct (lookup s cs) as [n|] eqn:L; mstep.
    + unfold same. apply fin_ok_tm; [assumption|reflexivity].
    + destruct (os_openwrite_rel _ _ _ _ s W R m_wb_valid io_wb Hw)
        as [(t1 & t2 & Hm & Hr & Wt & T & E)|(e & adm & Hm & Hr & He)]; rewrite Hm, Hr; mstep;
        cbv zeta; cbn [rs_res rs_tree fail same].
      * rewrite <- (E (or_intror L)). apply fin_ok_tm; [assumption|reflexivity].
      * apply fin_err_tm; assumption.
Qed.

Lemma os_step_touch p s : wf s -> step_ok_os (OTouch p) s.
Proof.
  intro W. unfold step_ok_os. cbn [osfs_run ref_run os_times_exact].
  unfold with1, b_touch, b_create. cbn [l_openwrite l_setinfo os_low].
  destruct (rpath p) as [cs|adm] eqn:R; mstep.
  2:{ rewrite (os_exists_bad _ _ s R). mstep. unfold fail, same.
      apply fin_err_tm; [assumption|exact (bad_err_in _ _ R)]. }
  assert (Hw : @None bytes = None \/ m_writing m_wb = true) by (left; reflexivity).
  rewrite (os_exists_spec _ _ s R). mstep.
  destruct (lookup s cs) as [n|] eqn:L; mstep.
  - rewrite (os_setinfo_spec _ _ None s R), L. mstep.
    apply fin_ok_tm; [|reflexivity]. apply wf_put_setmt; auto. eapply rpath_good; eauto.
  - destruct (os_openwrite_rel _ _ _ _ s W R m_wb_valid io_wb Hw)
      as [(t1 & t2 & Hm & Hr & Wt & T & E)|(e & adm & Hm & Hr & He)]; rewrite Hm, Hr; mstep.
    + rewrite <- (E (or_intror L)). apply fin_ok_tm; [assumption|reflexivity].
    + unfold fail. apply fin_err_tm; assumption.
Qed.

(* ====================================================================== *)
(* 3c. move and copy *)
(* ====================================================================== *)
(* ------------------------------------------------------------------ *)
(* small facts                                                         *)
(* ------------------------------------------------------------------ *)
Lemma os_exists_spec' p cs s : rpath p = inl cs ->
  os_exists p s = (s, Ok (match lookup s cs with Some _ => true | None => false end)).
Proof.
  intro R. unfold os_exists, b_exists. cbn [l_getinfo os_low]. ostep.
  rewrite (os_getinfo_spec _ _ s R). destruct (lookup s cs); reflexivity.
Qed.

Lemma os_isdir_spec p cs s : rpath p = inl cs ->
  os_isdir p s = (s, Ok (match lookup s cs with Some n => is_dir n | None => false end)).
Proof.
  intro R. unfold os_isdir, b_isdir. cbn [l_getinfo os_low]. ostep.
  rewrite (os_getinfo_spec _ _ s R). destruct (lookup s cs); reflexivity.
Qed.

Lemma os_gettype_spec p cs s : rpath p = inl cs ->
  os_gettype p s =
  (s, match lookup s cs with
      | Some n => Ok (if is_dir n then 1 else 2)
      | None => Err ResourceNotFound
      end).
Proof.
  intro R. unfold os_gettype, b_gettype. cbn [l_getinfo os_low]. ostep.
  rewrite (os_getinfo_spec _ _ s R). destruct (lookup s cs); reflexivity.
Qed.

Lemma list_prefix_app a : forall b, list_prefix a b = true -> exists r, b = a ++ r.
Proof.
  induction a as [|x a IH]; intros b H.
  - exists b. reflexivity.
  - destruct b as [|y b]; [discriminate|]. cbn [list_prefix] in H.
    apply andb_true_iff in H as [H1 H2]. apply str_eqb_eq in H1. subst y.
    destruct (IH _ H2) as [r ->]. exists r. reflexivity.
Qed.

(* a path that lies properly above an existing resource is a directory *)
Lemma prefix_is_dir s a b n :
  list_prefix a b = true -> a <> b -> lookup s b = Some n ->
  exists ents m, lookup s a = Some (Dir ents m).
Proof.
  intros P Ne L. destruct (list_prefix_app _ _ P) as [r ->].
  rewrite lookup_app in L. destruct (lookup s a) as [[dt m|ents m]|]; try discriminate.
  - destruct r as [|c r]; [rewrite app_nil_r in Ne; congruence|discriminate].
  - eauto.
Qed.

Lemma lookup_snoc_some s d c n : lookup s (d ++ [c]) = Some n ->
  exists ents m, lookup s d = Some (Dir ents m) /\ assoc c ents = Some n.
Proof.
  rewrite lookup_snoc. destruct (lookup s d) as [[dt m|ents m]|]; try discriminate. eauto.
Qed.

(* rename(2) of a regular file onto a different named path *)
Lemma k_rename_file s sd sc data mt dd dc :
  lookup s (sd ++ [sc]) = Some (File data mt) ->
  path_eqb (sd ++ [sc]) (dd ++ [dc]) = false ->
  k_rename (sd ++ [sc]) (dd ++ [dc]) s =
  match lookup s dd with
  | Some (Dir _ _) =>
    match lookup s (dd ++ [dc]) with
    | Some (Dir _ _) => inl (if list_prefix (dd ++ [dc]) (sd ++ [sc]) then ENOTEMPTY else EISDIR)
    | _ => inr (del (put s (dd ++ [dc]) (File data mt)) (sd ++ [sc]), tt)
    end
  | Some (File _ _) => inl ENOTDIR
  | None => inl (walk_err s dd)
  end.
Proof.
  intros L E. destruct (lookup_snoc_some _ _ _ _ L) as (sents & sm & Ls & As).
  unfold k_rename. rewrite snoc_match, k_parent_snoc, Ls, snoc_match, k_parent_snoc.
  destruct (lookup s dd) as [[dt m|dents m]|] eqn:Ld; try reflexivity.
  rewrite L, E. cbn [is_dir andb]. rewrite snoc_match.
  destruct (list_prefix (dd ++ [dc]) (sd ++ [sc])) eqn:P.
  - assert (Ne : dd ++ [dc] <> sd ++ [sc]).
    { intro H. rewrite H, path_eqb_refl in E. discriminate. }
    destruct (prefix_is_dir _ _ _ _ P Ne L) as (e2 & m2 & ->). reflexivity.
  - destruct (lookup s (dd ++ [dc])) as [[|[|]]|]; reflexivity.
Qed.

(* rename(2) of a regular file onto the root *)
Lemma k_rename_file_root s sd sc data mt :
  lookup s (sd ++ [sc]) = Some (File data mt) ->
  k_rename (sd ++ [sc]) [] s = inl ENOTDIR.
Proof.
  intro L. destruct (lookup_snoc_some _ _ _ _ L) as (sents & sm & Ls & As).
  unfold k_rename. rewrite snoc_match, k_parent_snoc, Ls, L.
  destruct (sd ++ [sc]) eqn:E; [destruct sd; discriminate|]. reflexivity.
Qed.

(* open(path,'rb').read() of a regular file *)
Lemma os_openread_file p d c data mt s :
  rpath p = inl (d ++ [c]) -> lookup s (d ++ [c]) = Some (File data mt) ->
  os_openread p s = (s, Ok data).
Proof.
  intros R L. destruct (lookup_snoc_some _ _ _ _ L) as (ents & m & Ld & A).
  unfold os_openread. ostep. rewrite (os_open_snoc _ _ _ _ s R m_rb_valid io_rb), Ld, A.
  change (m_exclusive m_rb) with false. cbv iota.
  unfold os_open_init. change (m_truncate m_rb) with false. change (m_appending m_rb) with false.
  cbv iota. cbn [fst snd]. unfold k_readall. rewrite L. reflexivity.
Qed.

(* the failing cases of openbin(path,'wb') *)
Lemma os_openwrite_wb_root p wr s : rpath p = inl [] ->
  os_openwrite p m_wb wr s = (s, Err FileExpected).
Proof.
  intro R. unfold os_openwrite. ostep. rewrite (os_open_root _ _ s R m_wb_valid). reflexivity.
Qed.

Lemma os_openwrite_wb_noparent p d c wr s : rpath p = inl (d ++ [c]) ->
  (forall ents m, lookup s d <> Some (Dir ents m)) ->
  os_openwrite p m_wb wr s = (s, Err ResourceNotFound).
Proof.
  intros R N. unfold os_openwrite. ostep. rewrite (os_open_snoc _ _ _ _ s R m_wb_valid io_wb).
  destruct (lookup s d) as [[dt m|ents m]|]; try reflexivity. now destruct (N ents m).
Qed.

Lemma os_openwrite_wb_isdir p d c wr e2 m2 s : rpath p = inl (d ++ [c]) ->
  lookup s (d ++ [c]) = Some (Dir e2 m2) ->
  os_openwrite p m_wb wr s = (s, Err FileExpected).
Proof.
  intros R L. destruct (lookup_snoc_some _ _ _ _ L) as (ents & m & Ld & A).
  unfold os_openwrite. ostep. rewrite (os_open_snoc _ _ _ _ s R m_wb_valid io_wb), Ld, A.
  reflexivity.
Qed.

(* ------------------------------------------------------------------ *)
(* the reference side                                                  *)
(* ------------------------------------------------------------------ *)
Lemma fin_move_err_tm tm s cs cd o pt e :
  wf s -> existsb (ecls_eqb e) (transfer_errors s cs cd o) = true ->
  agree_tm tm (s, @Err value e) (ref_move s cs cd o pt) = true /\ wf (fst (s, @Err value e)).
Proof.
  intros W H. unfold ref_move. destruct (transfer_errors s cs cd o) as [|x l]; [discriminate|].
  unfold fail, same. now apply fin_err_tm.
Qed.

Lemma fin_copy_err_tm tm s cs cd o pt e :
  wf s ->
  existsb (ecls_eqb e)
          (transfer_errors s cs cd o ++ (if path_eqb cs cd then [IllegalDestination] else [])) = true ->
  agree_tm tm (s, @Err value e) (ref_copy s cs cd o pt) = true /\ wf (fst (s, @Err value e)).
Proof.
  intros W H. unfold ref_copy.
  destruct (transfer_errors s cs cd o ++ (if path_eqb cs cd then [IllegalDestination] else []))
    as [|x l]; [discriminate|].
  unfold fail, same. now apply fin_err_tm.
Qed.

Lemma fin_copy_err_tm' tm s cs cd o pt e :
  wf s -> existsb (ecls_eqb e) (transfer_errors s cs cd o) = true ->
  agree_tm tm (s, @Err value e) (ref_copy s cs cd o pt) = true /\ wf (fst (s, @Err value e)).
Proof.
  intros W H. apply fin_copy_err_tm; [assumption|]. rewrite existsb_app, H. reflexivity.
Qed.

(* transfer_errors of a regular-file source *)
Lemma te_src_missing s cs cd o : lookup s cs = None ->
  existsb (ecls_eqb ResourceNotFound) (transfer_errors s cs cd o) = true.
Proof.
  intro L. unfold transfer_errors.
  destruct (status_lookup_none _ _ L) as [-> | ->]; reflexivity.
Qed.

Lemma te_src_dir s cs cd o e m : lookup s cs = Some (Dir e m) ->
  existsb (ecls_eqb FileExpected) (transfer_errors s cs cd o) = true.
Proof.
  intro L. unfold transfer_errors. rewrite (status_lookup_some _ _ _ L). reflexivity.
Qed.

Lemma te_dst_dir s cs cd o e m : lookup s cd = Some (Dir e m) ->
  existsb (ecls_eqb FileExpected) (transfer_errors s cs cd o) = true.
Proof.
  intro L. unfold transfer_errors. rewrite (status_lookup_some _ _ _ L). cbn [is_dir].
  rewrite !existsb_app. cbn [existsb ecls_eqb]. rewrite !orb_true_r. reflexivity.
Qed.

Lemma te_noparent s cs dd dc o : (forall ents m, lookup s dd <> Some (Dir ents m)) ->
  existsb (ecls_eqb ResourceNotFound) (transfer_errors s cs (dd ++ [dc]) o) = true.
Proof.
  intro N. rewrite transfer_errors_snoc.
  pview2 s dd dc; rewrite ?Dsc, ?Ds; try (now destruct (N _ _ Dl));
    cbn [exists_st andb parent_errors]; rewrite !existsb_app; cbn [existsb ecls_eqb];
    rewrite ?orb_true_r; reflexivity.
Qed.

(* ------------------------------------------------------------------ *)
(* move                                                                *)
(* ------------------------------------------------------------------ *)
Definition os_move_fallback (qs qd : str) (pt : bool) : OM unit :=
  mbind (os_openread qs) (fun d =>
  mbind (b_upload os_low qd d) (fun _ =>
  mbind (if pt then b_copy_modified_time os_low qs qd else ret tt) (fun _ =>
  os_remove qs))).

Definition os_move_tail (qs qd : str) (pt : bool) : OM unit :=
  mbind (os_getinfo qs) (fun i =>
  if i_isdir i then raise FileExpected
  else if str_eqb qs qd then ret tt
  else
    mbind (syspath qs) (fun scs =>
    mbind (syspath qd) (fun dcs =>
    fun s =>
      match k_rename scs dcs s with
      | inr (s', _) => (s', Ok tt)
      | inl _ => os_move_fallback qs qd pt s
      end))).

Lemma os_move_unfold src dst o pt :
  os_move src dst o pt =
  mbind (os_validatepath src) (fun _src =>
  mbind (os_validatepath dst) (fun _dst =>
  mbind (if o then ret false else os_exists _dst) (fun e =>
  if e then raise DestinationExists else os_move_tail _src _dst pt))).
Proof. reflexivity. Qed.

Lemma os_move_fallback_fail qs qd pt data e s :
  os_openread qs s = (s, Ok data) ->
  os_openwrite qd m_wb (match data with [] => None | _ => Some data end) s = (s, Err e) ->
  os_move_fallback qs qd pt s = (s, Err e).
Proof.
  intros H1 H2. unfold os_move_fallback, b_upload. cbn [l_openwrite os_low]. ostep.
  rewrite H1, H2. reflexivity.
Qed.

Lemma os_move_tail_ok s cs cd o pt :
  wf s -> vp cs -> vp cd -> (o = true \/ lookup s cd = None) ->
  agree_tm true (vmap (fun _ => VUnit) (os_move_tail (to_path true cs) (to_path true cd) pt) s)
           (ref_move s cs cd o pt) = true
  /\ wf (fst (vmap (fun _ => VUnit) (os_move_tail (to_path true cs) (to_path true cd) pt) s)).
Proof.
  intros W V1 V2 Ho.
  pose proof (rpath_nf _ V1) as Q1. pose proof (rpath_nf _ V2) as Q2.
  destruct V1 as [G1 N1]. destruct V2 as [G2 N2].
  unfold os_move_tail. ostep. rewrite (os_getinfo_spec _ _ s Q1).
  destruct (lookup s cs) as [[data mt|se sm]|] eqn:Ls.
  2:{ cbn [to_info i_isdir is_dir]. cbv iota.
      apply fin_move_err_tm; [assumption|]. eapply te_src_dir; eauto. }
  2:{ apply fin_move_err_tm; [assumption|]. now apply te_src_missing. }
  cbn [to_info i_isdir is_dir]. cbv iota.
  rewrite (to_path_eqb cs cd G1 G2).
  assert (Hss : status_of s cs = IsFile) by (now rewrite (status_lookup_some _ _ _ Ls)).
  destruct (path_eqb cs cd) eqn:E.
  { (* same path: nothing happens *)
    apply path_eqb_eq in E. subst cd.
    destruct Ho as [->|Ho]; [|congruence].
    unfold ref_move, transfer_errors. rewrite Hss, path_eqb_refl. cbn [exists_st negb andb app].
    destruct cs as [|c0 cs0]; cbn [app]; unfold same; apply fin_ok_tm; auto. }
  rewrite !iteratepath_nf by assumption.
  destruct (list_snoc_case cs) as [->|[sd [sc ->]]].
  { destruct (wf_root_dir s W) as (rents & rm & ->). discriminate. }
  pose proof (os_openread_file _ _ _ _ _ s Q1 Ls) as Hrd.
  set (wr := match data with [] => None | _ :: _ => Some data end).
  destruct (list_snoc_case cd) as [->|[dd [dc ->]]].
  { (* onto the root *)
    rewrite (k_rename_file_root _ _ _ _ _ Ls).
    rewrite (os_move_fallback_fail _ _ pt data FileExpected s Hrd (os_openwrite_wb_root _ wr s Q2)).
    destruct (wf_root_dir s W) as (rents & rm & Es).
    apply fin_move_err_tm; [assumption|]. apply (te_dst_dir _ _ _ _ rents rm). now rewrite Es. }
  rewrite (k_rename_file _ _ _ _ _ _ _ Ls E).
  destruct (lookup s dd) as [[pdt pm|dents pm]|] eqn:Ld.
  - (* the parent of the destination is a file *)
    rewrite (os_move_fallback_fail _ _ pt data ResourceNotFound s Hrd).
    + apply fin_move_err_tm; [assumption|]. apply te_noparent. intros; congruence.
    + apply (os_openwrite_wb_noparent _ _ _ wr s Q2). intros; congruence.
  - destruct (lookup s (dd ++ [dc])) as [[ddata dmt|e4 m4]|] eqn:Ldc.
    + (* existing file *)
      destruct Ho as [->|Ho]; [|congruence].
      unfold ref_move. rewrite transfer_errors_snoc, Hss, (status_lookup_some _ _ _ Ldc).
      cbn [is_dir exists_st negb andb app]. rewrite E, Ls.
      apply fin_ok_tm; [|reflexivity]. apply wf_del_any. apply wf_put_file; auto using snoc_ne'.
    + (* existing directory *)
      rewrite (os_move_fallback_fail _ _ pt data FileExpected s Hrd).
      * apply fin_move_err_tm; [assumption|]. eapply te_dst_dir; eauto.
      * apply (os_openwrite_wb_isdir _ _ _ wr _ _ s Q2 Ldc).
    + (* new name *)
      unfold ref_move. rewrite transfer_errors_snoc, Hss.
      pose proof (status_lookup_none _ _ Ldc) as Hst.
      assert (Hds : status_of s dd = IsDir) by (now rewrite (status_lookup_some _ _ _ Ld)).
      rewrite Hds. destruct Hst as [-> | ->]; cbn [exists_st negb andb app parent_errors];
        rewrite E, Ls; (apply fin_ok_tm; [|reflexivity]; apply wf_del_any;
                        apply wf_put_file; auto using snoc_ne').
  - (* the parent of the destination is missing *)
    rewrite (os_move_fallback_fail _ _ pt data ResourceNotFound s Hrd).
    + apply fin_move_err_tm; [assumption|]. apply te_noparent. intros; congruence.
    + apply (os_openwrite_wb_noparent _ _ _ wr s Q2). intros; congruence.
Qed.

Lemma os_step_move src dst o pt s : wf s -> step_ok_os (OMove src dst o pt) s.
Proof.
  intro W. unfold step_ok_os. cbn [osfs_run ref_run os_times_exact]. rewrite os_move_unfold.
  destruct (rpath src) as [cs|e1] eqn:R1.
  2:{ destruct (with2_bad1 s src dst (fun a b => ref_move s a b o pt) e1 R1) as (adm & Hr & He).
      rewrite Hr. ostep. rewrite (os_validate_inr _ _ s R1).
      unfold fail. apply fin_err_tm; assumption. }
  destruct (rpath dst) as [cd|e2] eqn:R2.
  2:{ unfold with2. rewrite R1, R2. ostep.
      rewrite (os_validate_inl _ _ s R1). rewrite (os_validate_inr _ _ s R2).
      unfold fail. apply fin_err_tm; [assumption|exact (bad_err_in _ _ R2)]. }
  unfold with2. rewrite R1, R2.
  pose proof (rpath_vp _ _ R1) as V1. pose proof (rpath_vp _ _ R2) as V2.
  rewrite vmap_mbind, (os_validate_inl _ _ s R1). cbv beta iota.
  rewrite vmap_mbind, (os_validate_inl _ _ s R2). cbv beta iota.
  rewrite vmap_mbind.
  destruct o.
  - unfold ret at 1. cbv beta iota.
    apply (os_move_tail_ok s cs cd true pt W V1 V2). now left.
  - rewrite (os_exists_spec' _ _ s (rpath_nf _ V2)). cbv beta iota.
    destruct (lookup s cd) as [n|] eqn:L; cbv beta iota.
    + ostep. apply fin_move_err_tm; [assumption|]. eapply te_dest_exists; eauto.
    + apply (os_move_tail_ok s cs cd false pt W V1 V2). now right.
Qed.

(* ------------------------------------------------------------------ *)
(* copy                                                                *)
(* ------------------------------------------------------------------ *)
Lemma dirname_snoc d c : Forall good (d ++ [c]) -> dirname (to_path true (d ++ [c])) = to_path true d.
Proof.
  intro G. destruct (good_snoc _ _ G) as [Gd Gc]. unfold dirname.
  now rewrite (psplit_snoc true d c Gd Gc).
Qed.

Lemma k_open_rb_file s d c data mt : lookup s (d ++ [c]) = Some (File data mt) ->
  k_open (d ++ [c]) m_rb s = inr (s, 0).
Proof.
  intro L. destruct (lookup_snoc_some _ _ _ _ L) as (ents & m & Ld & A).
  unfold k_open. rewrite snoc_match, k_parent_snoc, Ld, L. reflexivity.
Qed.

Lemma k_open_wb_file s d c ents m : lookup s d = Some (Dir ents m) ->
  (lookup s (d ++ [c]) = None \/ exists d2 m2, lookup s (d ++ [c]) = Some (File d2 m2)) ->
  k_open (d ++ [c]) m_wb s = inr (put s (d ++ [c]) (File [] None), 0).
Proof.
  intros Ld L. unfold k_open. rewrite snoc_match, k_parent_snoc, Ld.
  destruct L as [->|(d2 & m2 & ->)]; reflexivity.
Qed.

(* shutil.copy2 on system paths *)
Definition os_copy_raw (scs dcs : list str) : OM unit :=
  mbind (sys_raw (k_open scs m_rb)) (fun spos =>
  mbind (sys_raw (k_open dcs m_wb)) (fun dpos =>
  mbind (sys_raw (k_readall scs spos)) (fun data =>
  mbind (sys_raw (k_write dcs dpos data)) (fun _ =>
  mbind (sys_raw (k_stat scs)) (fun st =>
  sys_raw (k_utime dcs (st_mtime st))))))).

Lemma os_copy_unfold src dst o pt :
  os_copy src dst o pt =
  mbind (os_check_copy src dst o) (fun sd =>
  mbind (syspath (fst sd)) (fun scs =>
  mbind (syspath (snd sd)) (fun dcs => os_copy_raw scs dcs))).
Proof. reflexivity. Qed.

Lemma os_copy_raw_ok s sd sc dd dc data mt dents dm :
  lookup s (sd ++ [sc]) = Some (File data mt) -> sd ++ [sc] <> dd ++ [dc] ->
  lookup s dd = Some (Dir dents dm) ->
  (lookup s (dd ++ [dc]) = None \/ exists d2 m2, lookup s (dd ++ [dc]) = Some (File d2 m2)) ->
  os_copy_raw (sd ++ [sc]) (dd ++ [dc]) s = (put s (dd ++ [dc]) (File data mt), Ok tt).
Proof.
  intros Ls Ne Ld Ldc. unfold os_copy_raw. ostep.
  rewrite (k_open_rb_file _ _ _ _ _ Ls). rewrite (k_open_wb_file _ _ _ _ _ Ld Ldc).
  assert (Lsrc : forall n, lookup (put s (dd ++ [dc]) n) (sd ++ [sc]) = Some (File data mt)).
  { intro n. apply lookup_put_file; assumption. }
  assert (Ldst : forall n, lookup (put s (dd ++ [dc]) n) (dd ++ [dc]) = Some n).
  { intro n. eapply lookup_put_same; eauto. }
  unfold k_readall. rewrite Lsrc. cbn [skipn].
  unfold k_write. rewrite Ldst.
  destruct data as [|b0 data'].
  - unfold k_stat. rewrite k_walk_spec, Lsrc. cbn [stat_of st_mtime node_mt].
    unfold k_utime. rewrite k_walk_spec, Ldst. cbn [set_mt]. now rewrite put_put.
  - rewrite put_put. unfold k_stat. rewrite k_walk_spec, Lsrc. cbn [stat_of st_mtime node_mt].
    unfold k_utime. rewrite k_walk_spec, Ldst. cbn [set_mt]. rewrite put_put.
    change (Posix.write_at 0 [] (b0 :: data')) with (Mem.write_at 0 [] (b0 :: data')).
    now rewrite write_at_nil.
Qed.

Lemma os_step_copy src dst o pt s : wf s -> step_ok_os (OCopy src dst o pt) s.
Proof.
  intro W. unfold step_ok_os. cbn [osfs_run ref_run os_times_exact]. rewrite os_copy_unfold.
  unfold os_check_copy.
  destruct (rpath src) as [cs|e1] eqn:R1.
  2:{ destruct (with2_bad1 s src dst (fun a b => ref_copy s a b o pt) e1 R1) as (adm & Hr & He).
      rewrite Hr. ostep. rewrite (os_validate_inr _ _ s R1).
      unfold fail. apply fin_err_tm; assumption. }
  destruct (rpath dst) as [cd|e2] eqn:R2.
  2:{ unfold with2. rewrite R1, R2. ostep.
      rewrite (os_validate_inl _ _ s R1). rewrite (os_validate_inr _ _ s R2).
      unfold fail. apply fin_err_tm; [assumption|exact (bad_err_in _ _ R2)]. }
  unfold with2. rewrite R1, R2.
  pose proof (rpath_vp _ _ R1) as V1. pose proof (rpath_vp _ _ R2) as V2.
  pose proof (rpath_nf _ V1) as Q1. pose proof (rpath_nf _ V2) as Q2.
  pose proof (rpath_good _ _ R1) as G1. pose proof (rpath_good _ _ R2) as G2.
  assert (Hex : (if o then ret false else os_exists (to_path true cd)) s =
                (s, Ok (negb o && match lookup s cd with Some _ => true | None => false end))).
  { destruct o; [reflexivity|]. now rewrite (os_exists_spec' _ _ s Q2). }
  unfold ret in Hex.
  ostep. rewrite (os_validate_inl _ _ s R1). rewrite (os_validate_inl _ _ s R2).
  rewrite (os_gettype_spec _ _ s Q1).
  destruct (lookup s cs) as [[data mt|se sm]|] eqn:Ls.
  2:{ cbn [is_dir Nat.eqb negb]. apply fin_copy_err_tm'; [assumption|]. eapply te_src_dir; eauto. }
  2:{ apply fin_copy_err_tm'; [assumption|]. now apply te_src_missing. }
  cbn [is_dir Nat.eqb negb]. rewrite Hex.
  assert (Hss : status_of s cs = IsFile) by (now rewrite (status_lookup_some _ _ _ Ls)).
  destruct (negb o && match lookup s cd with Some _ => true | None => false end) eqn:Eo.
  { apply andb_true_iff in Eo as [Eo1 Eo2]. destruct o; [discriminate|].
    destruct (lookup s cd) as [n|] eqn:Lcd; [|discriminate].
    apply fin_copy_err_tm'; [assumption|]. eapply te_dest_exists; eauto. }
  assert (Ho : o = true \/ lookup s cd = None).
  { destruct o; [now left|right]. destruct (lookup s cd); [discriminate|reflexivity]. }
  clear Eo Hex.
  rewrite (to_path_eqb cs cd G1 G2).
  destruct (path_eqb cs cd) eqn:E.
  { apply fin_copy_err_tm; [assumption|]. rewrite E, existsb_app. apply orb_true_iff. now right. }
  rewrite (os_isdir_spec _ _ s Q2).
  destruct (list_snoc_case cs) as [->|[sd [sc ->]]].
  { destruct (wf_root_dir s W) as (rents & rm & ->). discriminate. }
  destruct (lookup s cd) as [[ddata dmt|de dm]|] eqn:Lcd.
  2:{ cbn [is_dir]. apply fin_copy_err_tm'; [assumption|]. eapply te_dst_dir; eauto. }
  - (* existing file *)
    cbn [is_dir]. destruct Ho as [->|Ho]; [|discriminate].
    destruct (list_snoc_case cd) as [->|[dd [dc ->]]].
    { destruct (wf_root_dir s W) as (rents & rm & ->). discriminate. }
    destruct (lookup_snoc_some _ _ _ _ Lcd) as (dents & pm & Ld & Ad).
    rewrite (dirname_snoc _ _ G2).
    destruct (good_snoc _ _ G2) as [Gdd Gdc]. destruct (vp_snoc _ _ V2) as [_ Ndd].
    rewrite (os_gettype_spec _ dd s (rpath_nf _ (conj Gdd Ndd))), Ld.
    cbn [is_dir Nat.eqb negb fst snd]. rewrite !iteratepath_nf by assumption.
    assert (Ne : sd ++ [sc] <> dd ++ [dc]).
    { intro H. rewrite H, path_eqb_refl in E. discriminate. }
    rewrite (os_copy_raw_ok s sd sc dd dc data mt dents pm Ls Ne Ld)
      by (right; eauto).
    unfold ref_copy. rewrite transfer_errors_snoc, Hss, (status_lookup_some _ _ _ Lcd), E, Ls.
    cbn [is_dir exists_st negb andb app].
    assert (Wp : wf (put s (dd ++ [dc]) (File data mt)))
      by (apply wf_put_file; auto using snoc_ne').
    destruct pt.
    + apply fin_ok_tm; [assumption|reflexivity].
    + apply fin_ok_teq; [assumption|apply teq_put_file|reflexivity].
  - (* new name *)
    destruct (list_snoc_case cd) as [->|[dd [dc ->]]].
    { destruct (wf_root_dir s W) as (rents & rm & Es). rewrite Es in Lcd. discriminate. }
    rewrite (dirname_snoc _ _ G2).
    destruct (good_snoc _ _ G2) as [Gdd Gdc]. destruct (vp_snoc _ _ V2) as [_ Ndd].
    rewrite (os_gettype_spec _ dd s (rpath_nf _ (conj Gdd Ndd))).
    destruct (lookup s dd) as [[pdt pm|dents pm]|] eqn:Ld.
    + (* parent is a file *)
      cbn [is_dir Nat.eqb negb]. apply fin_copy_err_tm'; [assumption|].
      rewrite transfer_errors_snoc, Hss.
      pview2 s dd dc; try congruence. rewrite Dsc, Ds. destruct o; reflexivity.
    + cbn [is_dir Nat.eqb negb fst snd]. rewrite !iteratepath_nf by assumption.
      assert (Ne : sd ++ [sc] <> dd ++ [dc]).
      { intro H. rewrite H, path_eqb_refl in E. discriminate. }
      rewrite (os_copy_raw_ok s sd sc dd dc data mt dents pm Ls Ne Ld) by (now left).
      unfold ref_copy. rewrite transfer_errors_snoc, Hss, E, Ls.
      assert (Hds : status_of s dd = IsDir) by (now rewrite (status_lookup_some _ _ _ Ld)).
      rewrite Hds.
      assert (Wp : wf (put s (dd ++ [dc]) (File data mt)))
        by (apply wf_put_file; auto using snoc_ne').
      destruct (status_lookup_none _ _ Lcd) as [-> | ->];
        cbn [exists_st negb andb app parent_errors];
        (destruct pt;
         [apply fin_ok_tm; [assumption|reflexivity]
         |apply fin_ok_teq; [assumption|apply teq_put_file|reflexivity]]).
    + (* parent is missing *)
      apply fin_copy_err_tm'; [assumption|]. apply te_noparent. intros; congruence.
Qed.

(* ====================================================================== *)
(* 3d. removetree (FS.removetree: depth-first walk) *)
(* ====================================================================== *)
(* ------------------------------------------------------------------ *)
(* sizes                                                               *)
(* ------------------------------------------------------------------ *)
Definition tsum (l : list (str * node)) : nat := list_sum (map (fun kn => tree_size (snd kn)) l).

Lemma tree_size_dir ents m : tree_size (Dir ents m) = S (tsum ents).
Proof.
  simpl. f_equal. unfold tsum. induction ents as [|[k n] r IH]; [reflexivity|].
  simpl. now rewrite IH.
Qed.

Lemma tsum_cons k n r : tsum ((k, n) :: r) = tree_size n + tsum r.
Proof. reflexivity. Qed.

Lemma tsum_assoc k : forall l n, assoc k l = Some n -> tree_size n <= tsum l.
Proof.
  induction l as [|[k2 n2] r IH]; intros n H; [discriminate|].
  rewrite tsum_cons. simpl in H. destruct (str_eqb k k2).
  - inversion H; subst. lia.
  - specialize (IH _ H). lia.
Qed.

Lemma tree_size_lookup cs : forall t sub, lookup t cs = Some sub -> tree_size sub <= tree_size t.
Proof.
  induction cs as [|c cs IH]; intros t sub L.
  - simpl in L. inversion L; subst. lia.
  - simpl in L. destruct t as [|ents m]; [discriminate|].
    destruct (assoc c ents) as [ch|] eqn:E; [|discriminate].
    specialize (IH _ _ L). pose proof (tsum_assoc _ _ _ E). rewrite tree_size_dir. lia.
Qed.

(* ------------------------------------------------------------------ *)
(* deleting the first entry of a directory                             *)
(* ------------------------------------------------------------------ *)
Lemma del_head s cs k n rest m :
  lookup s cs = Some (Dir ((k, n) :: rest) m) -> del s (cs ++ [k]) = put s cs (Dir rest m).
Proof.
  intro L. rewrite (del_pre cs s _ [k] L) by discriminate.
  cbn [del assoc_del]. now rewrite str_eqb_refl.
Qed.

Lemma put_head s cs k n x rest m :
  lookup s cs = Some (Dir ((k, n) :: rest) m) ->
  put s (cs ++ [k]) x = put s cs (Dir ((k, x) :: rest) m).
Proof.
  intro L. rewrite (put_pre cs s _ [k] x L).
  cbn [put assoc_set]. now rewrite str_eqb_refl.
Qed.

Lemma assoc_del_set {A} k (x : A) : forall l v, assoc k l = Some v ->
  assoc_del k (assoc_set k x l) = assoc_del k l.
Proof.
  induction l as [|[k2 v2] r IH]; intros v H; [discriminate|].
  simpl in H. cbn [assoc_set assoc_del]. destruct (str_eqb k k2) eqn:E.
  - cbn [assoc_del]. now rewrite str_eqb_refl.
  - cbn [assoc_del]. rewrite E. f_equal. eapply IH; eauto.
Qed.

(* emptying a directory, then deleting it = deleting it *)
Lemma del_put_empty s d c ents dm n x :
  lookup s d = Some (Dir ents dm) -> assoc c ents = Some n ->
  del (put s (d ++ [c]) x) (d ++ [c]) = del s (d ++ [c]).
Proof.
  intros L A. rewrite (put_pre d s _ [c] x L).
  rewrite (del_pre d _ _ [c] (lookup_put_at d s _ _ L)) by discriminate.
  rewrite put_put. rewrite (del_pre d s _ [c] L) by discriminate.
  cbn [put del]. now rewrite (assoc_del_set _ _ _ _ A).
Qed.

(* ------------------------------------------------------------------ *)
(* the walk                                                            *)
(* ------------------------------------------------------------------ *)
Definition rm_body (f : nat) (dir_path : str) (i : info) : OM unit :=
  let pth := combine dir_path (i_name i) in
  if i_isdir i then mbind (os_rm_walk f pth) (fun _ => os_removedir pth)
  else os_remove pth.

Lemma os_rm_walk_S f d :
  os_rm_walk (S f) d = mbind (os_scandir d) (fun infos => mfor infos (rm_body f d)).
Proof. reflexivity. Qed.

Definition walk_ok (f : nat) : Prop :=
  forall s cs ents m, wf_node s -> nnode s -> lookup s cs = Some (Dir ents m) ->
    tree_size (Dir ents m) <= f ->
    os_rm_walk f (to_path true cs) s = (put s cs (Dir [] m), Ok tt).

Lemma vp_lookup s cs n : wf_node s -> nnode s -> lookup s cs = Some n -> vp cs.
Proof.
  intros W N L. split; [eapply wf_path_good; eauto|eapply nn_lookup; eauto].
Qed.

Lemma vp_snoc cs k : vp cs -> good k -> nonulc k -> vp (cs ++ [k]).
Proof.
  intros [G N] Gk Nk. split.
  - apply Forall_app. split; [assumption|]. constructor; [assumption|constructor].
  - apply nonul_app. split; [assumption|]. constructor; [exact Nk|constructor].
Qed.

Lemma rm_inner f cs : walk_ok f ->
  forall l s m, wf_node s -> nnode s -> lookup s cs = Some (Dir l m) -> tsum l <= f ->
    mfor (map (fun kn => to_info (fst kn) (snd kn)) l) (rm_body f (to_path true cs)) s
    = (put s cs (Dir [] m), Ok tt).
Proof.
  intro IHf. induction l as [|[k n] rest IHl]; intros s m W N L Sz.
  - cbn [map mfor]. unfold ret. now rewrite (put_id _ _ _ L).
  - pose proof (vp_lookup _ _ _ W N L) as V.
    pose proof (wf_lookup _ _ _ W L) as Wd.
    destruct (nn_lookup _ _ _ N L) as [Nd _].
    assert (A : assoc k ((k, n) :: rest) = Some n) by (cbn [assoc]; now rewrite str_eqb_refl).
    pose proof (wf_assoc_good _ _ _ _ Wd A) as Gk.
    pose proof (nn_assoc_key _ _ _ _ Nd A) as Nk.
    pose proof (vp_snoc _ _ V Gk Nk) as Vk.
    pose proof (rpath_nf _ Vk) as R.
    rewrite tsum_cons in Sz.
    (* the state after this entry *)
    assert (Next : rm_body f (to_path true cs) (to_info k n) s = (del s (cs ++ [k]), Ok tt)).
    { unfold rm_body. cbn [to_info i_name i_isdir].
      rewrite (combine_abs cs k (proj1 V) Gk).
      destruct n as [dt fm|e2 m2]; cbn [is_dir].
      - rewrite (os_remove_snoc _ _ _ s R), L, A. reflexivity.
      - assert (L2 : lookup s (cs ++ [k]) = Some (Dir e2 m2)) by (now rewrite lookup_snoc, L).
        unfold mbind. rewrite (IHf s (cs ++ [k]) e2 m2 W N L2) by lia.
        rewrite (put_head _ _ _ _ (Dir [] m2) _ _ L).
        rewrite (os_removedir_snoc _ _ _ _ R).
        rewrite (lookup_put_at cs s _ _ L). cbn [assoc]. rewrite str_eqb_refl.
        rewrite (del_head _ _ _ _ _ _ (lookup_put_at cs s _ _ L)).
        rewrite put_put. now rewrite (del_head _ _ _ _ _ _ L). }
    cbn [map mfor fst snd]. unfold mbind at 1. rewrite Next.
    assert (L' : lookup (del s (cs ++ [k])) cs = Some (Dir rest m)).
    { rewrite (del_head _ _ _ _ _ _ L). apply (lookup_put_at cs s _ _ L). }
    rewrite (IHl _ m (wf_del _ _ W) (nn_del _ _ N) L') by lia.
    rewrite (del_head _ _ _ _ _ _ L). now rewrite put_put.
Qed.

Lemma os_rm_walk_dir : forall f, walk_ok f.
Proof.
  induction f as [|f IHf]; intros s cs ents m W N L Sz.
  - rewrite tree_size_dir in Sz. lia.
  - pose proof (vp_lookup _ _ _ W N L) as V.
    rewrite os_rm_walk_S. unfold mbind at 1.
    rewrite (os_scandir_spec _ _ s (rpath_nf _ V)), L.
    rewrite tree_size_dir in Sz. apply (rm_inner f cs IHf); auto. lia.
Qed.

(* ------------------------------------------------------------------ *)
(* os_removetree on resolved paths                                     *)
(* ------------------------------------------------------------------ *)
Lemma normpath_inl p cs : rpath p = inl cs ->
  exists n, normpath p = Ok n /\ abspath n = to_path true cs.
Proof.
  intro R. pose proof (rpath_good _ _ R) as G. apply rpath_inl in R as [_ H2].
  exists (to_path (starts_c slash p) cs). split.
  - rewrite normpath_spec. unfold spec_normpath. now rewrite H2.
  - now apply abspath_nf_gen.
Qed.

Lemma os_removetree_root p s : rpath p = inl [] -> wf s -> nn s ->
  os_removetree p s = (match s with Dir _ mt => Dir [] mt | f => f end, Ok tt).
Proof.
  intros R W N.
  destruct (wf_root_dir _ W) as (ents & m & ->). destruct W as [_ W].
  unfold os_removetree. ostep. rewrite (os_validate_inl _ _ _ R). ostep.
  rewrite (os_rm_walk_dir _ (Dir ents m) [] ents m W N eq_refl) by lia.
  rewrite to_path_root, str_eqb_refl. reflexivity.
Qed.

Lemma os_removetree_snoc p d c s : rpath p = inl (d ++ [c]) -> wf s -> nn s ->
  os_removetree p s =
  match lookup s (d ++ [c]) with
  | Some (Dir _ _) => (del s (d ++ [c]), Ok tt)
  | Some (File _ _) => (s, Err DirectoryExpected)
  | None => (s, Err (os_dir_errors (walk_err s (d ++ [c]))))
  end.
Proof.
  intros R [_ W] N.
  pose proof (rpath_vp _ _ R) as V. pose proof (rpath_good _ _ R) as G.
  unfold os_removetree. ostep. rewrite (os_validate_inl _ _ _ R). ostep.
  destruct (lookup s (d ++ [c])) as [[dt fm|e2 m2]|] eqn:L.
  - rewrite os_rm_walk_S. ostep. rewrite (os_scandir_spec _ _ s (rpath_nf _ V)), L. reflexivity.
  - rewrite (os_rm_walk_dir _ s _ e2 m2 W N L)
      by (pose proof (tree_size_lookup _ _ _ L); lia).
    rewrite (to_path_snoc_not_root _ _ G).
    rewrite lookup_snoc in L.
    destruct (lookup s d) as [[|ents dm]|] eqn:Ld; try discriminate.
    rewrite (os_removedir_snoc _ _ _ _ R).
    assert (Ld' : lookup (put s (d ++ [c]) (Dir [] m2)) d
                  = Some (Dir (assoc_set c (Dir [] m2) ents) dm)).
    { rewrite (put_pre d s _ [c] _ Ld). apply (lookup_put_at d s _ _ Ld). }
    rewrite Ld', assoc_set_same.
    now rewrite (del_put_empty _ _ _ _ _ _ _ Ld L).
  - rewrite os_rm_walk_S. ostep. rewrite (os_scandir_spec _ _ s (rpath_nf _ V)), L. reflexivity.
Qed.

(* an invalid path is rejected before anything is walked (FS.removetree validates first) *)
Lemma os_removetree_bad p adm s : rpath p = inr adm -> os_removetree p s = (s, Err (bad_err p)).
Proof. intro R. unfold os_removetree. ostep. rewrite (os_validate_inr _ _ s R). reflexivity. Qed.

Lemma os_scandir_nul q s : has_char Mem.nul q = true -> os_scandir q s = (s, Err InvalidCharsInPath).
Proof.
  intro H. unfold os_scandir, os_validatepath, mem_validatepath. rewrite H. reflexivity.
Qed.

(* a NUL anywhere in the argument - also one that a back-reference would cancel - : InvalidCharsInPath, nothing
   touched.  (Before /repo b9cf049 FS.removetree normalised first: removetree("a\0/..") emptied the root.) *)
Lemma os_removetree_nul_rejected p s : has_char Mem.nul p = true ->
  osfs_run (ORemovetree p) s = (s, Err InvalidCharsInPath).
Proof.
  intro H. cbn [osfs_run]. unfold vmap, os_removetree, os_validatepath, mem_validatepath. ostep.
  rewrite H. reflexivity.
Qed.

(* ------------------------------------------------------------------ *)
(* the statement                                                       *)
(* ------------------------------------------------------------------ *)
Lemma os_step_removetree p s : wf s -> nn s -> step_ok_os (ORemovetree p) s.
Proof.
  intros W N. unfold step_ok_os. cbn [osfs_run ref_run os_times_exact]. unfold with1, vmap.
  destruct (rpath p) as [cs|adm] eqn:R.
  - destruct (list_snoc_case cs) as [->|[d [c ->]]].
    + ostep. rewrite (os_removetree_root _ s R W N). unfold ref_removetree.
      apply fin_ok_tm; [|reflexivity]. now apply wf_root_clear.
    + ostep. rewrite (os_removetree_snoc _ _ _ s R W N), ref_removetree_snoc.
      destruct (lookup s (d ++ [c])) as [[dt fm|e2 m2]|] eqn:L.
      * rewrite (status_lookup_some _ _ _ L). cbn [is_dir]. unfold fail, same.
        apply fin_err_tm; [assumption|reflexivity].
      * rewrite (status_lookup_some _ _ _ L). cbn [is_dir].
        apply fin_ok_tm; [|reflexivity]. now apply wf_del_any.
      * destruct (walk_err_cases _ _ L) as [[-> ->]|[-> ->]]; unfold fail, same;
          (apply fin_err_tm; [assumption|reflexivity]).
  - ostep. rewrite (os_removetree_bad _ _ s R). unfold fail, same.
    apply fin_err_tm; [assumption|exact (bad_err_in _ _ R)].
Qed.

(* ------------------------------------------------------------------ *)
(* the hypotheses are needed                                           *)
(* ------------------------------------------------------------------ *)
From PyFS Require Import Base.Render.
From Coq Require Import String.
Local Open Scope list_scope.

(* [nn]: a file whose name holds a NUL (a name no OSFS call can create) stops the walk: remove
   re-validates the path the walker built *)
Definition ce_nn_tree : node := Dir [(lit "a", Dir [([0%N], File [] None)] None)] None.

Lemma ce_nn_tree_wf : wf ce_nn_tree.
Proof.
  split; [reflexivity|]. apply wf_node_dir. split; [|split].
  - constructor; [intros []|constructor].
  - constructor; [|constructor]. repeat split; discriminate.
  - constructor; [|constructor]. apply wf_node_dir. split; [|split].
    + constructor; [intros []|constructor].
    + constructor; [|constructor]. repeat split; discriminate.
    + constructor; [exact I|constructor].
Qed.

Example os_removetree_needs_nn_ce :
  wf ce_nn_tree /\
  agree_tm true (osfs_run (ORemovetree (lit "a")) ce_nn_tree) (ref_run (ORemovetree (lit "a")) ce_nn_tree)
  = false.
Proof. split; [exact ce_nn_tree_wf|vm_compute; reflexivity]. Qed.

(* a NUL cancelled by a back-reference: "a\0/.." would normalise to the root, "x\0/../a" to "a".  FS.removetree
   validates before it normalises (since /repo b9cf049), so both are REJECTED with the tree unchanged, as the reference
   demands; before the repair the first emptied the whole filesystem and returned, the second emptied "a" *)
Definition ce_tree : node :=
  Dir [(lit "a", Dir [(lit "f", File [] None)] None); (lit "g", File [] None)] None.
Definition ce_p1 : str := lit "a" ++ [0%N] ++ lit "/..".
Definition ce_p2 : str := lit "x" ++ [0%N] ++ lit "/../a".

Lemma ce_tree_wf_nn : wf ce_tree /\ nn ce_tree.
Proof.
  split.
  - split; [reflexivity|]. apply wf_node_dir. split; [|split].
    + constructor; [|constructor; [intros []|constructor]].
      intros [H|[]]. discriminate.
    + constructor; [|constructor; [|constructor]]; repeat split; discriminate.
    + constructor; [|constructor; [exact I|constructor]]. apply wf_node_dir. split; [|split].
      * constructor; [intros []|constructor].
      * constructor; [|constructor]. repeat split; discriminate.
      * constructor; [exact I|constructor].
  - apply nnode_dir. split.
    + constructor; [reflexivity|constructor; [reflexivity|constructor]].
    + constructor; [|constructor; [exact I|constructor]]. apply nnode_dir. split.
      * constructor; [reflexivity|constructor].
      * constructor; [exact I|constructor].
Qed.

Example os_removetree_nul_backref_rejected :
  wf ce_tree /\ nn ce_tree /\
  osfs_run (ORemovetree ce_p1) ce_tree = (ce_tree, Err InvalidCharsInPath) /\
  ref_run (ORemovetree ce_p1) ce_tree = fail ce_tree [InvalidCharsInPath] /\
  agree (osfs_run (ORemovetree ce_p1) ce_tree) (ref_run (ORemovetree ce_p1) ce_tree) = true.
Proof.
  destruct ce_tree_wf_nn as [W N].
  split; [exact W|]. split; [exact N|]. split; [vm_compute; reflexivity|].
  split; vm_compute; reflexivity.
Qed.

Example os_removetree_nul_backref_rejected2 :
  osfs_run (ORemovetree ce_p2) ce_tree = (ce_tree, Err InvalidCharsInPath) /\
  agree (osfs_run (ORemovetree ce_p2) ce_tree) (ref_run (ORemovetree ce_p2) ce_tree) = true.
Proof. split; vm_compute; reflexivity. Qed.

(* ====================================================================== *)
(* 4. theorems *)
(* ====================================================================== *)
From Coq Require Import String.
Local Open Scope list_scope.
(* ------------------------------------------------------------------ *)
(* all covered calls                                                   *)
(* ------------------------------------------------------------------ *)
Lemma os_step_covered o s :
  wf s -> nn s -> covered o = true -> step_ok_os o s.
Proof.
  intros W N C. pose proof (os_mode_ok_always o) as I. destruct o; try discriminate C.
  - now apply os_step_getinfo.
  - now apply os_step_listdir.
  - now apply os_step_scandir.
  - now apply os_step_makedir.
  - now apply os_step_writebytes.
  - now apply os_step_appendbytes.
  - now apply os_step_readbytes.
  - now apply os_step_create.
  - now apply os_step_touch.
  - now apply os_step_openwrite.
  - now apply os_step_openread.
  - now apply os_step_remove.
  - now apply os_step_removedir.
  - now apply os_step_removetree.
  - now apply os_step_move.
  - now apply os_step_copy.
  - now apply os_step_setinfo.
  - now apply os_step_exists.
  - now apply os_step_isdir.
  - now apply os_step_isfile.
  - now apply os_step_isempty.
  - now apply os_step_getsize.
  - now apply os_step_gettype.
Qed.

(* agreement with the reference step, modification times of the resulting tree not compared
   (C01: "the same observable tree (names, resource types, file bytes)") *)
Definition agree_nt (obs : node * outcome value) (r : rstep) : bool := agree_tm false obs r.

(* ---- counterexamples to the statement as first posed ----
   forall o s, wf s -> covered o = true -> agree (osfs_run o s) (ref_run o s) = true   is false: *)
Definition ce_state : node :=
  Dir [(lit "f", File (lit "ff") (Some 5%Z)); (lit "e", File [] (Some 6%Z))] None.
Lemma ce_state_wf : wf ce_state.
Proof.
  split; [reflexivity|]. cbn. repeat split; try discriminate; auto.
  - constructor; [intros [H|[]]; discriminate H|]. constructor; [intros []|constructor].
  - repeat constructor; try discriminate.
Qed.

(* (1) [historical] a mode string fs.mode.Mode accepted and io.open refuses ("rw"): OSFS.openbin raised ValueError from
       inside io.open where MemoryFS and the reference performed the call (confirmed on the real OSFS at the time).
   Since /repo af07be9 fs.mode.Mode refuses such modes itself (FS/Mode.v mode_valid), so every backend and the
   reference answer ValueError alike: the former counterexample now agrees, and no condition on modes is left
   (os_mode_ok_always). *)
Example osfs_refines_ref_iomode_now_agrees :
  let o := OOpenwrite (lit "f") (lit "rw") (lit "XY") in
  covered o = true /\ os_mode_ok o = true /\
  agree_nt (osfs_run o ce_state) (ref_run o ce_state) = true /\
  snd (osfs_run o ce_state) = Crash ValueError /\ agree (mem_run o ce_state) (ref_run o ce_state) = true.
Proof. vm_compute. repeat split. Qed.

(* (2) modification times.  shutil.copy2 copies the source's time whatever preserve_time says *)
Example osfs_refines_ref_times_copy_ce :
  let o := OCopy (lit "f") (lit "g") false false in
  agree (osfs_run o ce_state) (ref_run o ce_state) = false /\
  agree_nt (osfs_run o ce_state) (ref_run o ce_state) = true /\
  lookup (fst (osfs_run o ce_state)) [lit "g"] = Some (File (lit "ff") (Some 5%Z)).
Proof. vm_compute. repeat split. Qed.

(*     open(..., 'w') truncates: the kernel sets the time although nothing is written (the reference, like
       MemoryFS, keeps the old time until the first write) *)
Example osfs_refines_ref_times_create_ce :
  let o := OCreate (lit "f") true in
  agree (osfs_run o ce_state) (ref_run o ce_state) = false /\
  agree_nt (osfs_run o ce_state) (ref_run o ce_state) = true.
Proof. vm_compute. repeat split. Qed.

(*     an empty write does not touch the file (the reference sets the time at every write) *)
Example osfs_refines_ref_times_append_ce :
  let o := OAppendbytes (lit "f") [] in
  agree (osfs_run o ce_state) (ref_run o ce_state) = false /\
  agree_nt (osfs_run o ce_state) (ref_run o ce_state) = true.
Proof. vm_compute. repeat split. Qed.

(* (3) removetree needs NUL-free names (a kernel never has such a name): os_removetree_needs_nn_ce.
   (A fourth condition, on removetree paths whose NUL is cancelled by a back-reference, was needed until FS.removetree
   was repaired in /repo b9cf049 to validate its argument first: os_removetree_nul_backref_rejected.) *)

(* STATEMENT CHANGED: (a) the trees are compared up to modification times (counterexamples (2); the exact
   comparison holds for the calls with [os_times_exact], next theorem); (b) [nn s]: no name of the tree contains
   NUL (counterexample (3); an invariant of every reachable state, preserved below).  The two conditions on the
   arguments that earlier versions carried (open modes, removetree paths) disappeared with the repairs of /repo
   af07be9 and b9cf049. *)
Theorem osfs_refines_ref : forall o s,
  wf s -> nn s -> covered o = true ->
  agree_nt (osfs_run o s) (ref_run o s) = true.
Proof.
  intros o s W N C. destruct (os_step_covered o s W N C) as [A _].
  unfold agree_nt. destruct (os_times_exact o); [now apply agree_tm_weaken|exact A].
Qed.

Theorem osfs_refines_ref_times : forall o s,
  wf s -> nn s -> covered o = true -> os_times_exact o = true ->
  agree (osfs_run o s) (ref_run o s) = true.
Proof.
  intros o s W N C T. destruct (os_step_covered o s W N C) as [A _].
  rewrite T in A. now rewrite <- agree_tm_true.
Qed.

Theorem osfs_wf_preserved : forall o s,
  wf s -> nn s -> covered o = true -> wf (fst (osfs_run o s)).
Proof.
  intros o s W N C. now destruct (os_step_covered o s W N C).
Qed.

Theorem osfs_nn_preserved : forall o s,
  wf s -> nn s -> covered o = true -> nn (fst (osfs_run o s)).
Proof.
  intros o s W N C. pose proof (osfs_refines_ref o s W N C) as A.
  destruct (ref_nn o s N C) as (tr & T & Ntr).
  unfold agree_nt, agree_tm in A. rewrite T in A. apply andb_true_iff in A as [_ A].
  exact (nn_tree_eqb_any _ _ _ A Ntr).
Qed.

(* the empty directory an OSFS history starts from *)
Theorem osfs_initial : wf empty_dir /\ nn empty_dir.
Proof. split; [exact wf_empty|exact nn_initial]. Qed.

(* every state reachable by covered calls is well formed and NUL-free, and every call of
   such a history agrees with the reference *)
Fixpoint os_hist_ok (s : node) (ops : list op) : Prop :=
  match ops with
  | [] => True
  | o :: r => agree_nt (osfs_run o s) (ref_run o s) = true /\ os_hist_ok (fst (osfs_run o s)) r
  end.

Theorem osfs_history_refines : forall ops s,
  wf s -> nn s -> forallb covered ops = true -> os_hist_ok s ops.
Proof.
  induction ops as [|o r IH]; intros s W N H; [exact I|].
  cbn [forallb] in H. apply andb_true_iff in H as [C Hr].
  split; [now apply osfs_refines_ref|].
  apply IH; [now apply osfs_wf_preserved|now apply osfs_nn_preserved|exact Hr].
Qed.

(* OSFS and MemoryFS models, same call, same well-formed state: both refine the same reference step, hence
   the same verdict (success / fs.errors class / ValueError), an error class from the same admissible set, and
   the same resulting tree up to modification times *)
Theorem osfs_mem_same_verdict : forall o s,
  wf s -> nn s -> covered o = true ->
  agree_nt (osfs_run o s) (ref_run o s) = true /\ agree (mem_run o s) (ref_run o s) = true /\
  verdict (snd (osfs_run o s)) = verdict (snd (mem_run o s)) /\
  tree_eqb false (fst (osfs_run o s)) (fst (mem_run o s)) = true.
Proof.
  intros o s W N C.
  pose proof (osfs_refines_ref o s W N C) as A. pose proof (mem_refines_ref o s W C) as B.
  split; [exact A|]. split; [exact B|].
  pose proof (ref_not_any o s C) as NA.
  destruct (ref_nn o s N C) as (tr & T & _).
  unfold agree_nt, agree_tm in A. unfold agree in B. rewrite T in A, B.
  apply andb_true_iff in A as [A1 A2]. apply andb_true_iff in B as [B1 B2]. split.
  - exact (res_agree_same_verdict _ _ _ NA A1 B1).
  - unfold tree_eqb in *. apply node_eqb_eq in B2. now rewrite B2.
Qed.

(* ====================================================================== *)
(* 4b. makedirs: FS.makedirs over os_low is the same function of a well-formed tree as over mem_low *)
(* ====================================================================== *)
From PyFS Require Import FS.RefineWalkLemmasMk FS.RefineWalk FS.Props FS.Wrap FS.ReadOnly.
Local Open Scope list_scope.

(* ------------------------------------------------------------------ *)
(* sanity: the two models give the same observation                    *)
(* ------------------------------------------------------------------ *)
Module SanityE.
Definition P (x : string) : str := lit x.
Definition setup : list op :=
  [OMakedirs (P "d/e") false; OWritebytes (P "d/g") (P "gg"); OWritebytes (P "f") (P "ff"); OMakedir (P "m") false;
   OWritebytes (P "h") []].
Definition s0 : node := fst (run_ops osfs_run empty_dir setup).
Definition paths := map P ["/"; ""; "d"; "m"; "f"; "h"; "x"; "f/x"; "f/x/y"; "x/y"; "x/y/z/w"; "d/g"; "d/g/x"; "d/g/x/y"; "d/e";
                           "d/e/n1/n2/n3"; "d/new"; "m/a/b"; "d/../m"; "d/../q/r"; "a/../.."; "d//e/"; "/d/e"]%string.
Definition obs_eqb (a b : node * outcome value) : bool :=
  node_eqb true (fst a) (fst b) &&
  match snd a, snd b with
  | Ok v, Ok w => value_eqb v w
  | Err e, Err e' => ecls_eqb e e'
  | Crash _, Crash _ => true
  | _, _ => false
  end.
Definition chk (s : node) (p : str) (r : bool) : bool :=
  obs_eqb (osfs_run (OMakedirs p r) s) (mem_run (OMakedirs p r) s)
  && agree (osfs_run (OMakedirs p r) s) (ref_run (OMakedirs p r) s).
Definition bad (s : node) := filter (fun pr => negb (chk s (fst pr) (snd pr)))
  (flat_map (fun p => [(p, true); (p, false)]) paths).
End SanityE.

Example sanity_makedirs_s0 : SanityE.bad SanityE.s0 = [].
Proof. vm_compute. reflexivity. Qed.
Example sanity_makedirs_empty : SanityE.bad empty_dir = [].
Proof. vm_compute. reflexivity. Qed.

(* ------------------------------------------------------------------ *)
(* get_intermediate_dirs                                               *)
(* ------------------------------------------------------------------ *)
Definition os_gi_go : list str -> list str -> OM (list str) :=
  fix go (l : list str) (acc : list str) : OM (list str) :=
    match l with
    | [] => ret acc
    | p :: r =>
      fun s =>
        match os_getinfo p s with
        | (s', Err ResourceNotFound) => go r (acc ++ [abspath p]) s'
        | (s', Ok i) => if i_isdir i then (s', Ok acc) else (s', Err DirectoryExpected)
        | (s', Err e) => (s', Err e)
        | (s', Crash k) => (s', Crash k)
        end
    end.

Lemma os_gid_unfold p :
  get_intermediate_dirs os_low p =
  mbind (lift (recursepath (abspath p) true)) (fun paths =>
  mbind (os_gi_go paths []) (fun inter => ret (removelast (rev inter)))).
Proof. reflexivity. Qed.

Lemma os_gi_go_cons p r acc s :
  os_gi_go (p :: r) acc s =
  match os_getinfo p s with
  | (s', Err ResourceNotFound) => os_gi_go r (acc ++ [abspath p]) s'
  | (s', Ok i) => if i_isdir i then (s', Ok acc) else (s', Err DirectoryExpected)
  | (s', Err e) => (s', Err e)
  | (s', Crash k) => (s', Crash k)
  end.
Proof. reflexivity. Qed.

Lemma os_gi_go_mem l : forall acc s, os_gi_go l acc s = gi_go l acc s.
Proof.
  induction l as [|p r IH]; intros acc s; [reflexivity|].
  rewrite os_gi_go_cons, gi_go_cons, os_getinfo_mem.
  destruct (mem_getinfo p s) as [s' [i|e|k]]; try reflexivity.
  destruct e; try reflexivity. apply IH.
Qed.

(* get_intermediate_dirs only calls getinfo: the same function on both models *)
Lemma os_gid_mem p s : get_intermediate_dirs os_low p s = get_intermediate_dirs mem_low p s.
Proof.
  rewrite os_gid_unfold, gid_unfold. unfold mbind.
  destruct (lift (recursepath (abspath p) true) s) as [s' [paths|e|k]]; try reflexivity.
  now rewrite os_gi_go_mem.
Qed.

(* ------------------------------------------------------------------ *)
(* makedir where MemoryFS and OSFS coincide                            *)
(* ------------------------------------------------------------------ *)
Lemma os_opendir_mem p s : os_opendir p s = mem_opendir p s.
Proof. unfold os_opendir, mem_opendir, mbind. now rewrite os_getinfo_mem. Qed.

Lemma os_makedir_mem_root p r s : rpath p = inl [] -> os_makedir p r s = mem_makedir p r s.
Proof.
  intro R. rewrite (os_makedir_root _ r s R), (mem_makedir_root _ r s R).
  destruct r; [|reflexivity].
  assert (V : vp []) by (split; constructor).
  rewrite (os_opendir_spec s_slash [] s (rpath_nf [] V)), (mem_opendir_spec _ _ s R). reflexivity.
Qed.

(* the parent exists as a directory: same result (the two differ in the error class otherwise only) *)
Lemma os_makedir_mem_snoc p d c r s ents m :
  rpath p = inl (d ++ [c]) -> lookup s d = Some (Dir ents m) ->
  os_makedir p r s = mem_makedir p r s.
Proof.
  intros R L. pose proof (rpath_vp _ _ R) as V.
  rewrite (os_makedir_snoc _ _ _ r s R), (mem_makedir_snoc _ _ _ r s R), L.
  destruct (assoc c ents).
  - destruct r; [|reflexivity].
    rewrite (os_opendir_spec _ _ s (rpath_nf _ V)), (mem_opendir_spec _ _ s R). reflexivity.
  - rewrite (os_opendir_spec _ _ _ (rpath_nf _ V)), (mem_opendir_spec _ _ _ R). reflexivity.
Qed.

Lemma os_makedir_new q ex c t ents m :
  rpath q = inl (ex ++ [c]) -> lookup t ex = Some (Dir ents m) -> assoc c ents = None ->
  os_makedir q false t = (put t (ex ++ [c]) empty_dir, Ok tt).
Proof.
  intros R L A. rewrite (os_makedir_mem_snoc _ _ _ _ _ _ _ R L). eapply makedir_new; eauto.
Qed.

(* ------------------------------------------------------------------ *)
(* the loop over the intermediate directories                          *)
(* ------------------------------------------------------------------ *)
Lemma os_mfor_mk recreate mis : forall ex t ents m,
  wf t -> vp (ex ++ mis) -> lookup t ex = Some (Dir ents m) ->
  (forall c r, mis = c :: r -> assoc c ents = None) ->
  mfor (map (to_path true) (mk_list ex mis)) (fun d => makedir_tolerant os_low d recreate) t
  = (mkdirs t ex mis, Ok tt).
Proof.
  induction mis as [|c r IH]; intros ex t ents m W V L A.
  - reflexivity.
  - assert (E : ex ++ c :: r = (ex ++ [c]) ++ r) by (rewrite <- app_assoc; reflexivity).
    assert (Vc : vp (ex ++ [c])) by (rewrite E in V; eapply vp_app_l; eauto).
    assert (Ac : assoc c ents = None) by (eapply A; eauto).
    assert (Lc : lookup t (ex ++ [c]) = None) by (rewrite lookup_snoc, L; exact Ac).
    pose (t' := put t (ex ++ [c]) empty_dir).
    assert (W' : wf t').
    { apply wf_put_ne; auto using snoc_ne', wf_empty_dir. destruct Vc; assumption. }
    assert (L' : lookup t' (ex ++ [c]) = Some (Dir [] None)) by (apply (lookup_put_same _ _ _ _ _ _ L)).
    rewrite E in V.
    assert (H1 := IH (ex ++ [c]) t' [] None W' V L' (fun _ _ _ => eq_refl)).
    cbn [mk_list map mfor mkdirs]. rewrite Lc. fold t'.
    unfold mbind. unfold makedir_tolerant at 1. cbn [l_makedir os_low]. unfold catch.
    rewrite (os_makedir_new _ _ _ _ _ _ (rpath_nf _ Vc) L Ac). fold t'. exact H1.
Qed.

(* ------------------------------------------------------------------ *)
(* makedirs                                                            *)
(* ------------------------------------------------------------------ *)
Lemma os_makedirs_spec p recreate s cs :
  wf s -> rpath p = inl cs ->
  b_makedirs os_low p recreate s = makedirs_rhs s cs recreate.
Proof.
  intros W R. unfold makedirs_rhs.
  unfold b_makedirs. rewrite os_gid_unfold.
  destruct (rpath_inl _ _ R) as [Hnul Hres].
  pose proof (rpath_vp _ _ R) as V.
  assert (Wd : is_dir s = true) by (destruct W; assumption).
  destruct cs as [|c0 cs0].
  - (* the root *)
    assert (Hgo : forall l, gi_go (s_slash :: l) [] s = (s, Ok [])).
    { intro l. rewrite gi_go_cons. rewrite (mem_getinfo_spec s_slash [] s (rpath_nf [] V)).
      cbn [lookup]. unfold to_info, i_isdir. now rewrite Wd. }
    assert (Hrec : exists l, recursepath (abspath p) true = Ok (s_slash :: l)).
    { destruct (recursepath_root (abspath p)) as [E|E];
        [rewrite resolve_abspath; exact Hres| |]; rewrite E; eauto. }
    destruct Hrec as [l Hrec]. rewrite Hrec.
    mstep. rewrite os_gi_go_mem, Hgo. mstep. cbn [rev removelast mfor]. mstep.
    unfold makedir_tolerant. cbn [l_makedir os_low]. mstep.
    rewrite (os_makedir_root _ false s R). cbn [ecls_eqb].
    cbn [prefix_is_file status_of]. rewrite Wd.
    destruct recreate; mstep; [|reflexivity].
    unfold b_opendir. cbn [l_getinfo os_low]. mstep.
    rewrite (os_getinfo_spec _ _ s R). cbn [lookup]. mstep.
    unfold to_info, i_isdir. rewrite Wd. mstep. reflexivity.
  - (* a proper path *)
    remember (c0 :: cs0) as cs eqn:Ecs.
    assert (Ncs : cs <> []) by (subst; discriminate).
    clear Ecs c0 cs0.
    rewrite (recursepath_abs _ _ Hres Ncs).
    destruct (decomp cs s) as (ex & mis & n & Hcs & Lex & Hmis).
    assert (Vpre : Forall vp (rev (prefixes cs))).
    { apply Forall_rev. rewrite prefixes_mk. constructor.
      - split; constructor.
      - apply vp_mk_list. exact V. }
    mstep. rewrite os_gi_go_mem, (gi_go_scan s _ Vpre []).
    subst cs. rewrite (scan_decomp s ex mis n Lex Hmis).
    rewrite (pif_decomp s ex mis n Wd Lex Hmis).
    destruct (is_dir n) eqn:Dn; cbn [negb]; mstep; [|reflexivity].
    destruct n as [|nents nm]; [discriminate|].
    rewrite <- map_rev, rev_involutive, <- map_removelast, removelast_mk.
    destruct (list_snoc_case mis) as [->|[mis0 [c ->]]].
    + (* the directory exists *)
      rewrite app_nil_r in *.
      cbn [removelast mk_list map mfor]. mstep.
      unfold makedir_tolerant. cbn [l_makedir os_low]. mstep.
      rewrite (status_lookup_some _ _ _ Lex). cbn [is_dir].
      destruct (list_snoc_case ex) as [->|[d [c ->]]]; [congruence|].
      rewrite (os_makedir_snoc _ _ _ false s R).
      pview s d c; try congruence.
      rewrite Hl, Ha. cbn [ecls_eqb].
      destruct recreate; mstep; [|reflexivity].
      unfold b_opendir. cbn [l_getinfo os_low]. mstep.
      rewrite (os_getinfo_spec _ _ s R), Lex. mstep. cbn [to_info i_isdir is_dir]. mstep. reflexivity.
    + (* missing: created *)
      rewrite removelast_app1.
      assert (Lcs : lookup s (ex ++ mis0 ++ [c]) = None).
      { destruct mis0 as [|c1 r1]; simpl app.
        - eapply Hmis; reflexivity.
        - assert (E : ex ++ c1 :: r1 ++ [c] = (ex ++ [c1]) ++ r1 ++ [c])
            by (rewrite <- app_assoc; reflexivity).
          rewrite E. apply lookup_none_app. eapply Hmis; reflexivity. }
      assert (A : forall c' r, mis0 = c' :: r -> assoc c' nents = None).
      { intros c' r E. subst mis0. specialize (Hmis c' (r ++ [c]) eq_refl).
        rewrite lookup_snoc, Lex in Hmis. exact Hmis. }
      assert (V0 : vp (ex ++ mis0)) by (rewrite app_assoc in V; eapply vp_app_l; eauto).
      destruct (mfor_mk recreate mis0 ex s nents nm W V0 Lex A) as (e' & m' & _ & H2 & H3 & H4).
      rewrite (os_mfor_mk recreate mis0 ex s nents nm W V0 Lex A). mstep.
      assert (A1 : assoc c e' = None).
      { destruct H4 as [[-> ->]| ->]; [|reflexivity].
        specialize (Hmis c [] eq_refl). rewrite lookup_snoc, Lex in Hmis. exact Hmis. }
      rewrite app_assoc in R, V, Lcs |- *.
      unfold makedir_tolerant. cbn [l_makedir os_low]. mstep.
      rewrite (os_makedir_new _ _ _ _ _ _ R H3 A1). mstep.
      unfold b_opendir. cbn [l_getinfo os_low]. mstep.
      rewrite (os_getinfo_spec _ _ _ R), (lookup_put_same _ _ _ _ _ _ H3). mstep.
      cbn [to_info i_isdir is_dir empty_dir]. mstep.
      assert (Em : mkdirs s [] ((ex ++ mis0) ++ [c])
                   = put (mkdirs s ex mis0) ((ex ++ mis0) ++ [c]) empty_dir).
      { transitivity (mkdirs s [] (ex ++ mis0 ++ [c])); [now rewrite <- app_assoc|].
        rewrite mkdirs_app. cbn [app].
        rewrite (mkdirs_exists ex s [] _ Lex). rewrite mkdirs_app. cbn [mkdirs].
        rewrite lookup_snoc, H3, A1. reflexivity. }
      rewrite Em.
      pose proof (status_missing _ _ Lcs) as Hst.
      destruct (status_of s ((ex ++ mis0) ++ [c])); try contradiction; reflexivity.
Qed.

(* FS.makedirs: OSFS and MemoryFS models are the same function of a well-formed tree *)
Theorem os_makedirs_mem p recreate s cs :
  wf s -> rpath p = inl cs ->
  b_makedirs os_low p recreate s = b_makedirs mem_low p recreate s.
Proof.
  intros W R. rewrite (os_makedirs_spec _ _ _ _ W R).
  symmetry. exact (proj1 (makedirs_spec p recreate s cs W R)).
Qed.

Theorem osfs_run_makedirs_mem p recreate s cs :
  wf s -> rpath p = inl cs ->
  osfs_run (OMakedirs p recreate) s = mem_run (OMakedirs p recreate) s.
Proof.
  intros W R. cbn [osfs_run mem_run]. unfold vmap, mbind.
  change (mem_makedirs p recreate s) with (b_makedirs mem_low p recreate s).
  now rewrite (os_makedirs_mem _ _ _ _ W R).
Qed.

Theorem osfs_makedirs_refines_ref : forall p recreate s cs,
  wf s -> rpath p = inl cs ->
  agree (osfs_run (OMakedirs p recreate) s) (ref_run (OMakedirs p recreate) s) = true.
Proof.
  intros p r s cs W R. rewrite (osfs_run_makedirs_mem _ _ _ _ W R).
  eapply mem_makedirs_refines_ref; eauto.
Qed.

Theorem osfs_makedirs_wf : forall p recreate s cs,
  wf s -> rpath p = inl cs -> wf (fst (osfs_run (OMakedirs p recreate) s)).
Proof.
  intros p r s cs W R. rewrite (osfs_run_makedirs_mem _ _ _ _ W R).
  eapply mem_makedirs_wf; eauto.
Qed.

(* the model reaches exactly the reference tree *)
Theorem osfs_makedirs_tree_exact : forall p recreate s cs,
  wf s -> rpath p = inl cs ->
  rs_tree (ref_run (OMakedirs p recreate) s) = Some (fst (osfs_run (OMakedirs p recreate) s)).
Proof.
  intros p r s cs W R. rewrite (osfs_run_makedirs_mem _ _ _ _ W R).
  eapply mem_makedirs_tree_exact; eauto.
Qed.

Theorem osfs_makedirs_nn : forall p recreate s cs,
  wf s -> nn s -> rpath p = inl cs -> nn (fst (osfs_run (OMakedirs p recreate) s)).
Proof.
  intros p r s cs W N R. rewrite (osfs_run_makedirs_mem _ _ _ _ W R).
  now apply (mem_makedirs_nn p r s cs).
Qed.

(* ====================================================================== *)
(* 5. the kernel model against this machine's kernel *)
(* ====================================================================== *)
(* ------------------------------------------------------------------ *)
(* The kernel model against what THIS machine's kernel answered (recorded by /tmp/osfs/kt/gen.py:
   os.mkdir / rmdir / remove / stat / listdir / io.open / os.rename in a scratch directory holding
   d/{e/,g} f h m/ n/{k/}; every result - errno, or the whole resulting tree - is compared with the model
   by vm_compute; this covers the branches of k_rename that OSFS itself never reaches) *)
Definition kt0 : node :=
  Dir [([100]%N, Dir [([101]%N, Dir [] None); ([103]%N, File [103;103]%N None)] None); ([102]%N, File [102;102]%N None); ([109]%N, Dir [] None);
       ([104]%N, File [104;104]%N None); ([110]%N, Dir [([107]%N, Dir [] None)] None)] None.
Definition kshow {A} (r : sysres A) : str :=
  match r with
  | inl e => lit (match e with ENOENT => "ENOENT" | ENOTDIR => "ENOTDIR" | EEXIST => "EEXIST" | EISDIR => "EISDIR"
                  | ENOTEMPTY => "ENOTEMPTY" | EINVAL => "EINVAL" | EBUSY => "EBUSY" | EPERM => "EPERM" | EACCES => "EACCES" end)
  | inr (t, _) => lit "ok#" ++ r_tree (canon t)
  end.
Example kernel_table_mkdir :
  map (fun c => kshow (k_mkdir c kt0))
    [[]; [[100]%N]; [[109]%N]; [[102]%N]; [[104]%N]; [[120]%N]; [[102]%N;[120]%N]; [[120]%N;[121]%N]; [[100]%N;[101]%N;[122]%N]; [[100]%N;[101]%N]; [[100]%N;[110;101;119]%N]; [[109]%N;[110;101;119]%N]; [[110]%N]; [[100]%N;[103]%N]; [[102]%N;[120]%N;[121]%N]]
  = [lit "EEXIST";
     lit "EEXIST";
     lit "EEXIST";
     lit "EEXIST";
     lit "EEXIST";
     lit "ok#D@N{s100:D@N{s101:D@N{};s103:Fs103,103@N};s102:Fs102,102@N;s104:Fs104,104@N;s109:D@N{};s110:D@N{s107:D@N{}};s120:D@N{}}";
     lit "ENOTDIR";
     lit "ENOENT";
     lit "ok#D@N{s100:D@N{s101:D@N{s122:D@N{}};s103:Fs103,103@N};s102:Fs102,102@N;s104:Fs104,104@N;s109:D@N{};s110:D@N{s107:D@N{}}}";
     lit "EEXIST";
     lit "ok#D@N{s100:D@N{s101:D@N{};s103:Fs103,103@N;s110,101,119:D@N{}};s102:Fs102,102@N;s104:Fs104,104@N;s109:D@N{};s110:D@N{s107:D@N{}}}";
     lit "ok#D@N{s100:D@N{s101:D@N{};s103:Fs103,103@N};s102:Fs102,102@N;s104:Fs104,104@N;s109:D@N{s110,101,119:D@N{}};s110:D@N{s107:D@N{}}}";
     lit "EEXIST";
     lit "EEXIST";
     lit "ENOTDIR"].
Proof. vm_compute. reflexivity. Qed.

Example kernel_table_rmdir :
  map (fun c => kshow (k_rmdir c kt0))
    [[[100]%N]; [[109]%N]; [[102]%N]; [[104]%N]; [[120]%N]; [[102]%N;[120]%N]; [[120]%N;[121]%N]; [[100]%N;[101]%N;[122]%N]; [[100]%N;[101]%N]; [[100]%N;[110;101;119]%N]; [[109]%N;[110;101;119]%N]; [[110]%N]; [[100]%N;[103]%N]; [[102]%N;[120]%N;[121]%N]]
  = [lit "ENOTEMPTY";
     lit "ok#D@N{s100:D@N{s101:D@N{};s103:Fs103,103@N};s102:Fs102,102@N;s104:Fs104,104@N;s110:D@N{s107:D@N{}}}";
     lit "ENOTDIR";
     lit "ENOTDIR";
     lit "ENOENT";
     lit "ENOTDIR";
     lit "ENOENT";
     lit "ENOENT";
     lit "ok#D@N{s100:D@N{s103:Fs103,103@N};s102:Fs102,102@N;s104:Fs104,104@N;s109:D@N{};s110:D@N{s107:D@N{}}}";
     lit "ENOENT";
     lit "ENOENT";
     lit "ENOTEMPTY";
     lit "ENOTDIR";
     lit "ENOTDIR"].
Proof. vm_compute. reflexivity. Qed.

Example kernel_table_unlink :
  map (fun c => kshow (k_unlink c kt0))
    [[]; [[100]%N]; [[109]%N]; [[102]%N]; [[104]%N]; [[120]%N]; [[102]%N;[120]%N]; [[120]%N;[121]%N]; [[100]%N;[101]%N;[122]%N]; [[100]%N;[101]%N]; [[100]%N;[110;101;119]%N]; [[109]%N;[110;101;119]%N]; [[110]%N]; [[100]%N;[103]%N]; [[102]%N;[120]%N;[121]%N]]
  = [lit "EISDIR";
     lit "EISDIR";
     lit "EISDIR";
     lit "ok#D@N{s100:D@N{s101:D@N{};s103:Fs103,103@N};s104:Fs104,104@N;s109:D@N{};s110:D@N{s107:D@N{}}}";
     lit "ok#D@N{s100:D@N{s101:D@N{};s103:Fs103,103@N};s102:Fs102,102@N;s109:D@N{};s110:D@N{s107:D@N{}}}";
     lit "ENOENT";
     lit "ENOTDIR";
     lit "ENOENT";
     lit "ENOENT";
     lit "EISDIR";
     lit "ENOENT";
     lit "ENOENT";
     lit "EISDIR";
     lit "ok#D@N{s100:D@N{s101:D@N{}};s102:Fs102,102@N;s104:Fs104,104@N;s109:D@N{};s110:D@N{s107:D@N{}}}";
     lit "ENOTDIR"].
Proof. vm_compute. reflexivity. Qed.

Example kernel_table_stat :
  map (fun c => kshow (k_stat c kt0))
    [[]; [[100]%N]; [[109]%N]; [[102]%N]; [[104]%N]; [[120]%N]; [[102]%N;[120]%N]; [[120]%N;[121]%N]; [[100]%N;[101]%N;[122]%N]; [[100]%N;[101]%N]; [[100]%N;[110;101;119]%N]; [[109]%N;[110;101;119]%N]; [[110]%N]; [[100]%N;[103]%N]; [[102]%N;[120]%N;[121]%N]]
  = [lit "ok#D@N{s100:D@N{s101:D@N{};s103:Fs103,103@N};s102:Fs102,102@N;s104:Fs104,104@N;s109:D@N{};s110:D@N{s107:D@N{}}}";
     lit "ok#D@N{s100:D@N{s101:D@N{};s103:Fs103,103@N};s102:Fs102,102@N;s104:Fs104,104@N;s109:D@N{};s110:D@N{s107:D@N{}}}";
     lit "ok#D@N{s100:D@N{s101:D@N{};s103:Fs103,103@N};s102:Fs102,102@N;s104:Fs104,104@N;s109:D@N{};s110:D@N{s107:D@N{}}}";
     lit "ok#D@N{s100:D@N{s101:D@N{};s103:Fs103,103@N};s102:Fs102,102@N;s104:Fs104,104@N;s109:D@N{};s110:D@N{s107:D@N{}}}";
     lit "ok#D@N{s100:D@N{s101:D@N{};s103:Fs103,103@N};s102:Fs102,102@N;s104:Fs104,104@N;s109:D@N{};s110:D@N{s107:D@N{}}}";
     lit "ENOENT";
     lit "ENOTDIR";
     lit "ENOENT";
     lit "ENOENT";
     lit "ok#D@N{s100:D@N{s101:D@N{};s103:Fs103,103@N};s102:Fs102,102@N;s104:Fs104,104@N;s109:D@N{};s110:D@N{s107:D@N{}}}";
     lit "ENOENT";
     lit "ENOENT";
     lit "ok#D@N{s100:D@N{s101:D@N{};s103:Fs103,103@N};s102:Fs102,102@N;s104:Fs104,104@N;s109:D@N{};s110:D@N{s107:D@N{}}}";
     lit "ok#D@N{s100:D@N{s101:D@N{};s103:Fs103,103@N};s102:Fs102,102@N;s104:Fs104,104@N;s109:D@N{};s110:D@N{s107:D@N{}}}";
     lit "ENOTDIR"].
Proof. vm_compute. reflexivity. Qed.

Example kernel_table_listdir :
  map (fun c => kshow (k_listdir c kt0))
    [[]; [[100]%N]; [[109]%N]; [[102]%N]; [[104]%N]; [[120]%N]; [[102]%N;[120]%N]; [[120]%N;[121]%N]; [[100]%N;[101]%N;[122]%N]; [[100]%N;[101]%N]; [[100]%N;[110;101;119]%N]; [[109]%N;[110;101;119]%N]; [[110]%N]; [[100]%N;[103]%N]; [[102]%N;[120]%N;[121]%N]]
  = [lit "ok#D@N{s100:D@N{s101:D@N{};s103:Fs103,103@N};s102:Fs102,102@N;s104:Fs104,104@N;s109:D@N{};s110:D@N{s107:D@N{}}}";
     lit "ok#D@N{s100:D@N{s101:D@N{};s103:Fs103,103@N};s102:Fs102,102@N;s104:Fs104,104@N;s109:D@N{};s110:D@N{s107:D@N{}}}";
     lit "ok#D@N{s100:D@N{s101:D@N{};s103:Fs103,103@N};s102:Fs102,102@N;s104:Fs104,104@N;s109:D@N{};s110:D@N{s107:D@N{}}}";
     lit "ENOTDIR";
     lit "ENOTDIR";
     lit "ENOENT";
     lit "ENOTDIR";
     lit "ENOENT";
     lit "ENOENT";
     lit "ok#D@N{s100:D@N{s101:D@N{};s103:Fs103,103@N};s102:Fs102,102@N;s104:Fs104,104@N;s109:D@N{};s110:D@N{s107:D@N{}}}";
     lit "ENOENT";
     lit "ENOENT";
     lit "ok#D@N{s100:D@N{s101:D@N{};s103:Fs103,103@N};s102:Fs102,102@N;s104:Fs104,104@N;s109:D@N{};s110:D@N{s107:D@N{}}}";
     lit "ENOTDIR";
     lit "ENOTDIR"].
Proof. vm_compute. reflexivity. Qed.

Example kernel_table_open_r :
  map (fun c => kshow (k_open c [114]%N kt0))
    [[]; [[100]%N]; [[109]%N]; [[102]%N]; [[104]%N]; [[120]%N]; [[102]%N;[120]%N]; [[120]%N;[121]%N]; [[100]%N;[101]%N;[122]%N]; [[100]%N;[101]%N]; [[100]%N;[110;101;119]%N]; [[109]%N;[110;101;119]%N]; [[110]%N]; [[100]%N;[103]%N]; [[102]%N;[120]%N;[121]%N]]
  = [lit "EISDIR";
     lit "EISDIR";
     lit "EISDIR";
     lit "ok#D@N{s100:D@N{s101:D@N{};s103:Fs103,103@N};s102:Fs102,102@N;s104:Fs104,104@N;s109:D@N{};s110:D@N{s107:D@N{}}}";
     lit "ok#D@N{s100:D@N{s101:D@N{};s103:Fs103,103@N};s102:Fs102,102@N;s104:Fs104,104@N;s109:D@N{};s110:D@N{s107:D@N{}}}";
     lit "ENOENT";
     lit "ENOTDIR";
     lit "ENOENT";
     lit "ENOENT";
     lit "EISDIR";
     lit "ENOENT";
     lit "ENOENT";
     lit "EISDIR";
     lit "ok#D@N{s100:D@N{s101:D@N{};s103:Fs103,103@N};s102:Fs102,102@N;s104:Fs104,104@N;s109:D@N{};s110:D@N{s107:D@N{}}}";
     lit "ENOTDIR"].
Proof. vm_compute. reflexivity. Qed.

Example kernel_table_open_rp :
  map (fun c => kshow (k_open c [114;43]%N kt0))
    [[]; [[100]%N]; [[109]%N]; [[102]%N]; [[104]%N]; [[120]%N]; [[102]%N;[120]%N]; [[120]%N;[121]%N]; [[100]%N;[101]%N;[122]%N]; [[100]%N;[101]%N]; [[100]%N;[110;101;119]%N]; [[109]%N;[110;101;119]%N]; [[110]%N]; [[100]%N;[103]%N]; [[102]%N;[120]%N;[121]%N]]
  = [lit "EISDIR";
     lit "EISDIR";
     lit "EISDIR";
     lit "ok#D@N{s100:D@N{s101:D@N{};s103:Fs103,103@N};s102:Fs102,102@N;s104:Fs104,104@N;s109:D@N{};s110:D@N{s107:D@N{}}}";
     lit "ok#D@N{s100:D@N{s101:D@N{};s103:Fs103,103@N};s102:Fs102,102@N;s104:Fs104,104@N;s109:D@N{};s110:D@N{s107:D@N{}}}";
     lit "ENOENT";
     lit "ENOTDIR";
     lit "ENOENT";
     lit "ENOENT";
     lit "EISDIR";
     lit "ENOENT";
     lit "ENOENT";
     lit "EISDIR";
     lit "ok#D@N{s100:D@N{s101:D@N{};s103:Fs103,103@N};s102:Fs102,102@N;s104:Fs104,104@N;s109:D@N{};s110:D@N{s107:D@N{}}}";
     lit "ENOTDIR"].
Proof. vm_compute. reflexivity. Qed.

Example kernel_table_open_w :
  map (fun c => kshow (k_open c [119]%N kt0))
    [[]; [[100]%N]; [[109]%N]; [[102]%N]; [[104]%N]; [[120]%N]; [[102]%N;[120]%N]; [[120]%N;[121]%N]; [[100]%N;[101]%N;[122]%N]; [[100]%N;[101]%N]; [[100]%N;[110;101;119]%N]; [[109]%N;[110;101;119]%N]; [[110]%N]; [[100]%N;[103]%N]; [[102]%N;[120]%N;[121]%N]]
  = [lit "EISDIR";
     lit "EISDIR";
     lit "EISDIR";
     lit "ok#D@N{s100:D@N{s101:D@N{};s103:Fs103,103@N};s102:Fs@N;s104:Fs104,104@N;s109:D@N{};s110:D@N{s107:D@N{}}}";
     lit "ok#D@N{s100:D@N{s101:D@N{};s103:Fs103,103@N};s102:Fs102,102@N;s104:Fs@N;s109:D@N{};s110:D@N{s107:D@N{}}}";
     lit "ok#D@N{s100:D@N{s101:D@N{};s103:Fs103,103@N};s102:Fs102,102@N;s104:Fs104,104@N;s109:D@N{};s110:D@N{s107:D@N{}};s120:Fs@N}";
     lit "ENOTDIR";
     lit "ENOENT";
     lit "ok#D@N{s100:D@N{s101:D@N{s122:Fs@N};s103:Fs103,103@N};s102:Fs102,102@N;s104:Fs104,104@N;s109:D@N{};s110:D@N{s107:D@N{}}}";
     lit "EISDIR";
     lit "ok#D@N{s100:D@N{s101:D@N{};s103:Fs103,103@N;s110,101,119:Fs@N};s102:Fs102,102@N;s104:Fs104,104@N;s109:D@N{};s110:D@N{s107:D@N{}}}";
     lit "ok#D@N{s100:D@N{s101:D@N{};s103:Fs103,103@N};s102:Fs102,102@N;s104:Fs104,104@N;s109:D@N{s110,101,119:Fs@N};s110:D@N{s107:D@N{}}}";
     lit "EISDIR";
     lit "ok#D@N{s100:D@N{s101:D@N{};s103:Fs@N};s102:Fs102,102@N;s104:Fs104,104@N;s109:D@N{};s110:D@N{s107:D@N{}}}";
     lit "ENOTDIR"].
Proof. vm_compute. reflexivity. Qed.

Example kernel_table_open_wp :
  map (fun c => kshow (k_open c [119;43]%N kt0))
    [[]; [[100]%N]; [[109]%N]; [[102]%N]; [[104]%N]; [[120]%N]; [[102]%N;[120]%N]; [[120]%N;[121]%N]; [[100]%N;[101]%N;[122]%N]; [[100]%N;[101]%N]; [[100]%N;[110;101;119]%N]; [[109]%N;[110;101;119]%N]; [[110]%N]; [[100]%N;[103]%N]; [[102]%N;[120]%N;[121]%N]]
  = [lit "EISDIR";
     lit "EISDIR";
     lit "EISDIR";
     lit "ok#D@N{s100:D@N{s101:D@N{};s103:Fs103,103@N};s102:Fs@N;s104:Fs104,104@N;s109:D@N{};s110:D@N{s107:D@N{}}}";
     lit "ok#D@N{s100:D@N{s101:D@N{};s103:Fs103,103@N};s102:Fs102,102@N;s104:Fs@N;s109:D@N{};s110:D@N{s107:D@N{}}}";
     lit "ok#D@N{s100:D@N{s101:D@N{};s103:Fs103,103@N};s102:Fs102,102@N;s104:Fs104,104@N;s109:D@N{};s110:D@N{s107:D@N{}};s120:Fs@N}";
     lit "ENOTDIR";
     lit "ENOENT";
     lit "ok#D@N{s100:D@N{s101:D@N{s122:Fs@N};s103:Fs103,103@N};s102:Fs102,102@N;s104:Fs104,104@N;s109:D@N{};s110:D@N{s107:D@N{}}}";
     lit "EISDIR";
     lit "ok#D@N{s100:D@N{s101:D@N{};s103:Fs103,103@N;s110,101,119:Fs@N};s102:Fs102,102@N;s104:Fs104,104@N;s109:D@N{};s110:D@N{s107:D@N{}}}";
     lit "ok#D@N{s100:D@N{s101:D@N{};s103:Fs103,103@N};s102:Fs102,102@N;s104:Fs104,104@N;s109:D@N{s110,101,119:Fs@N};s110:D@N{s107:D@N{}}}";
     lit "EISDIR";
     lit "ok#D@N{s100:D@N{s101:D@N{};s103:Fs@N};s102:Fs102,102@N;s104:Fs104,104@N;s109:D@N{};s110:D@N{s107:D@N{}}}";
     lit "ENOTDIR"].
Proof. vm_compute. reflexivity. Qed.

Example kernel_table_open_a :
  map (fun c => kshow (k_open c [97]%N kt0))
    [[]; [[100]%N]; [[109]%N]; [[102]%N]; [[104]%N]; [[120]%N]; [[102]%N;[120]%N]; [[120]%N;[121]%N]; [[100]%N;[101]%N;[122]%N]; [[100]%N;[101]%N]; [[100]%N;[110;101;119]%N]; [[109]%N;[110;101;119]%N]; [[110]%N]; [[100]%N;[103]%N]; [[102]%N;[120]%N;[121]%N]]
  = [lit "EISDIR";
     lit "EISDIR";
     lit "EISDIR";
     lit "ok#D@N{s100:D@N{s101:D@N{};s103:Fs103,103@N};s102:Fs102,102@N;s104:Fs104,104@N;s109:D@N{};s110:D@N{s107:D@N{}}}";
     lit "ok#D@N{s100:D@N{s101:D@N{};s103:Fs103,103@N};s102:Fs102,102@N;s104:Fs104,104@N;s109:D@N{};s110:D@N{s107:D@N{}}}";
     lit "ok#D@N{s100:D@N{s101:D@N{};s103:Fs103,103@N};s102:Fs102,102@N;s104:Fs104,104@N;s109:D@N{};s110:D@N{s107:D@N{}};s120:Fs@N}";
     lit "ENOTDIR";
     lit "ENOENT";
     lit "ok#D@N{s100:D@N{s101:D@N{s122:Fs@N};s103:Fs103,103@N};s102:Fs102,102@N;s104:Fs104,104@N;s109:D@N{};s110:D@N{s107:D@N{}}}";
     lit "EISDIR";
     lit "ok#D@N{s100:D@N{s101:D@N{};s103:Fs103,103@N;s110,101,119:Fs@N};s102:Fs102,102@N;s104:Fs104,104@N;s109:D@N{};s110:D@N{s107:D@N{}}}";
     lit "ok#D@N{s100:D@N{s101:D@N{};s103:Fs103,103@N};s102:Fs102,102@N;s104:Fs104,104@N;s109:D@N{s110,101,119:Fs@N};s110:D@N{s107:D@N{}}}";
     lit "EISDIR";
     lit "ok#D@N{s100:D@N{s101:D@N{};s103:Fs103,103@N};s102:Fs102,102@N;s104:Fs104,104@N;s109:D@N{};s110:D@N{s107:D@N{}}}";
     lit "ENOTDIR"].
Proof. vm_compute. reflexivity. Qed.

Example kernel_table_open_ap :
  map (fun c => kshow (k_open c [97;43]%N kt0))
    [[]; [[100]%N]; [[109]%N]; [[102]%N]; [[104]%N]; [[120]%N]; [[102]%N;[120]%N]; [[120]%N;[121]%N]; [[100]%N;[101]%N;[122]%N]; [[100]%N;[101]%N]; [[100]%N;[110;101;119]%N]; [[109]%N;[110;101;119]%N]; [[110]%N]; [[100]%N;[103]%N]; [[102]%N;[120]%N;[121]%N]]
  = [lit "EISDIR";
     lit "EISDIR";
     lit "EISDIR";
     lit "ok#D@N{s100:D@N{s101:D@N{};s103:Fs103,103@N};s102:Fs102,102@N;s104:Fs104,104@N;s109:D@N{};s110:D@N{s107:D@N{}}}";
     lit "ok#D@N{s100:D@N{s101:D@N{};s103:Fs103,103@N};s102:Fs102,102@N;s104:Fs104,104@N;s109:D@N{};s110:D@N{s107:D@N{}}}";
     lit "ok#D@N{s100:D@N{s101:D@N{};s103:Fs103,103@N};s102:Fs102,102@N;s104:Fs104,104@N;s109:D@N{};s110:D@N{s107:D@N{}};s120:Fs@N}";
     lit "ENOTDIR";
     lit "ENOENT";
     lit "ok#D@N{s100:D@N{s101:D@N{s122:Fs@N};s103:Fs103,103@N};s102:Fs102,102@N;s104:Fs104,104@N;s109:D@N{};s110:D@N{s107:D@N{}}}";
     lit "EISDIR";
     lit "ok#D@N{s100:D@N{s101:D@N{};s103:Fs103,103@N;s110,101,119:Fs@N};s102:Fs102,102@N;s104:Fs104,104@N;s109:D@N{};s110:D@N{s107:D@N{}}}";
     lit "ok#D@N{s100:D@N{s101:D@N{};s103:Fs103,103@N};s102:Fs102,102@N;s104:Fs104,104@N;s109:D@N{s110,101,119:Fs@N};s110:D@N{s107:D@N{}}}";
     lit "EISDIR";
     lit "ok#D@N{s100:D@N{s101:D@N{};s103:Fs103,103@N};s102:Fs102,102@N;s104:Fs104,104@N;s109:D@N{};s110:D@N{s107:D@N{}}}";
     lit "ENOTDIR"].
Proof. vm_compute. reflexivity. Qed.

Example kernel_table_open_x :
  map (fun c => kshow (k_open c [120]%N kt0))
    [[]; [[100]%N]; [[109]%N]; [[102]%N]; [[104]%N]; [[120]%N]; [[102]%N;[120]%N]; [[120]%N;[121]%N]; [[100]%N;[101]%N;[122]%N]; [[100]%N;[101]%N]; [[100]%N;[110;101;119]%N]; [[109]%N;[110;101;119]%N]; [[110]%N]; [[100]%N;[103]%N]; [[102]%N;[120]%N;[121]%N]]
  = [lit "EISDIR";
     lit "EEXIST";
     lit "EEXIST";
     lit "EEXIST";
     lit "EEXIST";
     lit "ok#D@N{s100:D@N{s101:D@N{};s103:Fs103,103@N};s102:Fs102,102@N;s104:Fs104,104@N;s109:D@N{};s110:D@N{s107:D@N{}};s120:Fs@N}";
     lit "ENOTDIR";
     lit "ENOENT";
     lit "ok#D@N{s100:D@N{s101:D@N{s122:Fs@N};s103:Fs103,103@N};s102:Fs102,102@N;s104:Fs104,104@N;s109:D@N{};s110:D@N{s107:D@N{}}}";
     lit "EEXIST";
     lit "ok#D@N{s100:D@N{s101:D@N{};s103:Fs103,103@N;s110,101,119:Fs@N};s102:Fs102,102@N;s104:Fs104,104@N;s109:D@N{};s110:D@N{s107:D@N{}}}";
     lit "ok#D@N{s100:D@N{s101:D@N{};s103:Fs103,103@N};s102:Fs102,102@N;s104:Fs104,104@N;s109:D@N{s110,101,119:Fs@N};s110:D@N{s107:D@N{}}}";
     lit "EEXIST";
     lit "EEXIST";
     lit "ENOTDIR"].
Proof. vm_compute. reflexivity. Qed.

Example kernel_table_open_xp :
  map (fun c => kshow (k_open c [120;43]%N kt0))
    [[]; [[100]%N]; [[109]%N]; [[102]%N]; [[104]%N]; [[120]%N]; [[102]%N;[120]%N]; [[120]%N;[121]%N]; [[100]%N;[101]%N;[122]%N]; [[100]%N;[101]%N]; [[100]%N;[110;101;119]%N]; [[109]%N;[110;101;119]%N]; [[110]%N]; [[100]%N;[103]%N]; [[102]%N;[120]%N;[121]%N]]
  = [lit "EISDIR";
     lit "EEXIST";
     lit "EEXIST";
     lit "EEXIST";
     lit "EEXIST";
     lit "ok#D@N{s100:D@N{s101:D@N{};s103:Fs103,103@N};s102:Fs102,102@N;s104:Fs104,104@N;s109:D@N{};s110:D@N{s107:D@N{}};s120:Fs@N}";
     lit "ENOTDIR";
     lit "ENOENT";
     lit "ok#D@N{s100:D@N{s101:D@N{s122:Fs@N};s103:Fs103,103@N};s102:Fs102,102@N;s104:Fs104,104@N;s109:D@N{};s110:D@N{s107:D@N{}}}";
     lit "EEXIST";
     lit "ok#D@N{s100:D@N{s101:D@N{};s103:Fs103,103@N;s110,101,119:Fs@N};s102:Fs102,102@N;s104:Fs104,104@N;s109:D@N{};s110:D@N{s107:D@N{}}}";
     lit "ok#D@N{s100:D@N{s101:D@N{};s103:Fs103,103@N};s102:Fs102,102@N;s104:Fs104,104@N;s109:D@N{s110,101,119:Fs@N};s110:D@N{s107:D@N{}}}";
     lit "EEXIST";
     lit "EEXIST";
     lit "ENOTDIR"].
Proof. vm_compute. reflexivity. Qed.

Example kernel_table_rename :
  map (fun ab => kshow (k_rename (fst ab) (snd ab) kt0))
    [([], []);
     ([], [[100]%N]);
     ([], [[109]%N]);
     ([], [[102]%N]);
     ([], [[104]%N]);
     ([], [[120]%N]);
     ([], [[102]%N;[120]%N]);
     ([], [[120]%N;[121]%N]);
     ([], [[100]%N;[101]%N;[122]%N]);
     ([], [[100]%N;[101]%N]);
     ([], [[100]%N;[110;101;119]%N]);
     ([], [[109]%N;[110;101;119]%N]);
     ([], [[110]%N]);
     ([], [[100]%N;[103]%N]);
     ([], [[102]%N;[120]%N;[121]%N]);
     ([[100]%N], []);
     ([[100]%N], [[100]%N]);
     ([[100]%N], [[109]%N]);
     ([[100]%N], [[102]%N]);
     ([[100]%N], [[104]%N]);
     ([[100]%N], [[120]%N]);
     ([[100]%N], [[102]%N;[120]%N]);
     ([[100]%N], [[120]%N;[121]%N]);
     ([[100]%N], [[100]%N;[101]%N;[122]%N]);
     ([[100]%N], [[100]%N;[101]%N]);
     ([[100]%N], [[100]%N;[110;101;119]%N]);
     ([[100]%N], [[109]%N;[110;101;119]%N]);
     ([[100]%N], [[110]%N]);
     ([[100]%N], [[100]%N;[103]%N]);
     ([[100]%N], [[102]%N;[120]%N;[121]%N]);
     ([[109]%N], []);
     ([[109]%N], [[100]%N]);
     ([[109]%N], [[109]%N]);
     ([[109]%N], [[102]%N]);
     ([[109]%N], [[104]%N]);
     ([[109]%N], [[120]%N]);
     ([[109]%N], [[102]%N;[120]%N]);
     ([[109]%N], [[120]%N;[121]%N]);
     ([[109]%N], [[100]%N;[101]%N;[122]%N]);
     ([[109]%N], [[100]%N;[101]%N]);
     ([[109]%N], [[100]%N;[110;101;119]%N]);
     ([[109]%N], [[109]%N;[110;101;119]%N]);
     ([[109]%N], [[110]%N]);
     ([[109]%N], [[100]%N;[103]%N]);
     ([[109]%N], [[102]%N;[120]%N;[121]%N]);
     ([[102]%N], []);
     ([[102]%N], [[100]%N]);
     ([[102]%N], [[109]%N]);
     ([[102]%N], [[102]%N]);
     ([[102]%N], [[104]%N]);
     ([[102]%N], [[120]%N]);
     ([[102]%N], [[102]%N;[120]%N]);
     ([[102]%N], [[120]%N;[121]%N]);
     ([[102]%N], [[100]%N;[101]%N;[122]%N]);
     ([[102]%N], [[100]%N;[101]%N]);
     ([[102]%N], [[100]%N;[110;101;119]%N]);
     ([[102]%N], [[109]%N;[110;101;119]%N]);
     ([[102]%N], [[110]%N]);
     ([[102]%N], [[100]%N;[103]%N]);
     ([[102]%N], [[102]%N;[120]%N;[121]%N]);
     ([[104]%N], []);
     ([[104]%N], [[100]%N]);
     ([[104]%N], [[109]%N]);
     ([[104]%N], [[102]%N]);
     ([[104]%N], [[104]%N]);
     ([[104]%N], [[120]%N]);
     ([[104]%N], [[102]%N;[120]%N]);
     ([[104]%N], [[120]%N;[121]%N]);
     ([[104]%N], [[100]%N;[101]%N;[122]%N]);
     ([[104]%N], [[100]%N;[101]%N]);
     ([[104]%N], [[100]%N;[110;101;119]%N]);
     ([[104]%N], [[109]%N;[110;101;119]%N]);
     ([[104]%N], [[110]%N]);
     ([[104]%N], [[100]%N;[103]%N]);
     ([[104]%N], [[102]%N;[120]%N;[121]%N]);
     ([[120]%N], []);
     ([[120]%N], [[100]%N]);
     ([[120]%N], [[109]%N]);
     ([[120]%N], [[102]%N]);
     ([[120]%N], [[104]%N]);
     ([[120]%N], [[120]%N]);
     ([[120]%N], [[102]%N;[120]%N]);
     ([[120]%N], [[120]%N;[121]%N]);
     ([[120]%N], [[100]%N;[101]%N;[122]%N]);
     ([[120]%N], [[100]%N;[101]%N]);
     ([[120]%N], [[100]%N;[110;101;119]%N]);
     ([[120]%N], [[109]%N;[110;101;119]%N]);
     ([[120]%N], [[110]%N]);
     ([[120]%N], [[100]%N;[103]%N]);
     ([[120]%N], [[102]%N;[120]%N;[121]%N]);
     ([[102]%N;[120]%N], []);
     ([[102]%N;[120]%N], [[100]%N]);
     ([[102]%N;[120]%N], [[109]%N]);
     ([[102]%N;[120]%N], [[102]%N]);
     ([[102]%N;[120]%N], [[104]%N]);
     ([[102]%N;[120]%N], [[120]%N]);
     ([[102]%N;[120]%N], [[102]%N;[120]%N]);
     ([[102]%N;[120]%N], [[120]%N;[121]%N]);
     ([[102]%N;[120]%N], [[100]%N;[101]%N;[122]%N]);
     ([[102]%N;[120]%N], [[100]%N;[101]%N]);
     ([[102]%N;[120]%N], [[100]%N;[110;101;119]%N]);
     ([[102]%N;[120]%N], [[109]%N;[110;101;119]%N]);
     ([[102]%N;[120]%N], [[110]%N]);
     ([[102]%N;[120]%N], [[100]%N;[103]%N]);
     ([[102]%N;[120]%N], [[102]%N;[120]%N;[121]%N]);
     ([[120]%N;[121]%N], []);
     ([[120]%N;[121]%N], [[100]%N]);
     ([[120]%N;[121]%N], [[109]%N]);
     ([[120]%N;[121]%N], [[102]%N]);
     ([[120]%N;[121]%N], [[104]%N]);
     ([[120]%N;[121]%N], [[120]%N]);
     ([[120]%N;[121]%N], [[102]%N;[120]%N]);
     ([[120]%N;[121]%N], [[120]%N;[121]%N]);
     ([[120]%N;[121]%N], [[100]%N;[101]%N;[122]%N]);
     ([[120]%N;[121]%N], [[100]%N;[101]%N]);
     ([[120]%N;[121]%N], [[100]%N;[110;101;119]%N]);
     ([[120]%N;[121]%N], [[109]%N;[110;101;119]%N]);
     ([[120]%N;[121]%N], [[110]%N]);
     ([[120]%N;[121]%N], [[100]%N;[103]%N]);
     ([[120]%N;[121]%N], [[102]%N;[120]%N;[121]%N]);
     ([[100]%N;[101]%N;[122]%N], []);
     ([[100]%N;[101]%N;[122]%N], [[100]%N]);
     ([[100]%N;[101]%N;[122]%N], [[109]%N]);
     ([[100]%N;[101]%N;[122]%N], [[102]%N]);
     ([[100]%N;[101]%N;[122]%N], [[104]%N]);
     ([[100]%N;[101]%N;[122]%N], [[120]%N]);
     ([[100]%N;[101]%N;[122]%N], [[102]%N;[120]%N]);
     ([[100]%N;[101]%N;[122]%N], [[120]%N;[121]%N]);
     ([[100]%N;[101]%N;[122]%N], [[100]%N;[101]%N;[122]%N]);
     ([[100]%N;[101]%N;[122]%N], [[100]%N;[101]%N]);
     ([[100]%N;[101]%N;[122]%N], [[100]%N;[110;101;119]%N]);
     ([[100]%N;[101]%N;[122]%N], [[109]%N;[110;101;119]%N]);
     ([[100]%N;[101]%N;[122]%N], [[110]%N]);
     ([[100]%N;[101]%N;[122]%N], [[100]%N;[103]%N]);
     ([[100]%N;[101]%N;[122]%N], [[102]%N;[120]%N;[121]%N]);
     ([[100]%N;[101]%N], []);
     ([[100]%N;[101]%N], [[100]%N]);
     ([[100]%N;[101]%N], [[109]%N]);
     ([[100]%N;[101]%N], [[102]%N]);
     ([[100]%N;[101]%N], [[104]%N]);
     ([[100]%N;[101]%N], [[120]%N]);
     ([[100]%N;[101]%N], [[102]%N;[120]%N]);
     ([[100]%N;[101]%N], [[120]%N;[121]%N]);
     ([[100]%N;[101]%N], [[100]%N;[101]%N;[122]%N]);
     ([[100]%N;[101]%N], [[100]%N;[101]%N]);
     ([[100]%N;[101]%N], [[100]%N;[110;101;119]%N]);
     ([[100]%N;[101]%N], [[109]%N;[110;101;119]%N]);
     ([[100]%N;[101]%N], [[110]%N]);
     ([[100]%N;[101]%N], [[100]%N;[103]%N]);
     ([[100]%N;[101]%N], [[102]%N;[120]%N;[121]%N]);
     ([[100]%N;[110;101;119]%N], []);
     ([[100]%N;[110;101;119]%N], [[100]%N]);
     ([[100]%N;[110;101;119]%N], [[109]%N]);
     ([[100]%N;[110;101;119]%N], [[102]%N]);
     ([[100]%N;[110;101;119]%N], [[104]%N]);
     ([[100]%N;[110;101;119]%N], [[120]%N]);
     ([[100]%N;[110;101;119]%N], [[102]%N;[120]%N]);
     ([[100]%N;[110;101;119]%N], [[120]%N;[121]%N]);
     ([[100]%N;[110;101;119]%N], [[100]%N;[101]%N;[122]%N]);
     ([[100]%N;[110;101;119]%N], [[100]%N;[101]%N]);
     ([[100]%N;[110;101;119]%N], [[100]%N;[110;101;119]%N]);
     ([[100]%N;[110;101;119]%N], [[109]%N;[110;101;119]%N]);
     ([[100]%N;[110;101;119]%N], [[110]%N]);
     ([[100]%N;[110;101;119]%N], [[100]%N;[103]%N]);
     ([[100]%N;[110;101;119]%N], [[102]%N;[120]%N;[121]%N]);
     ([[109]%N;[110;101;119]%N], []);
     ([[109]%N;[110;101;119]%N], [[100]%N]);
     ([[109]%N;[110;101;119]%N], [[109]%N]);
     ([[109]%N;[110;101;119]%N], [[102]%N]);
     ([[109]%N;[110;101;119]%N], [[104]%N]);
     ([[109]%N;[110;101;119]%N], [[120]%N]);
     ([[109]%N;[110;101;119]%N], [[102]%N;[120]%N]);
     ([[109]%N;[110;101;119]%N], [[120]%N;[121]%N]);
     ([[109]%N;[110;101;119]%N], [[100]%N;[101]%N;[122]%N]);
     ([[109]%N;[110;101;119]%N], [[100]%N;[101]%N]);
     ([[109]%N;[110;101;119]%N], [[100]%N;[110;101;119]%N]);
     ([[109]%N;[110;101;119]%N], [[109]%N;[110;101;119]%N]);
     ([[109]%N;[110;101;119]%N], [[110]%N]);
     ([[109]%N;[110;101;119]%N], [[100]%N;[103]%N]);
     ([[109]%N;[110;101;119]%N], [[102]%N;[120]%N;[121]%N]);
     ([[110]%N], []);
     ([[110]%N], [[100]%N]);
     ([[110]%N], [[109]%N]);
     ([[110]%N], [[102]%N]);
     ([[110]%N], [[104]%N]);
     ([[110]%N], [[120]%N]);
     ([[110]%N], [[102]%N;[120]%N]);
     ([[110]%N], [[120]%N;[121]%N]);
     ([[110]%N], [[100]%N;[101]%N;[122]%N]);
     ([[110]%N], [[100]%N;[101]%N]);
     ([[110]%N], [[100]%N;[110;101;119]%N]);
     ([[110]%N], [[109]%N;[110;101;119]%N]);
     ([[110]%N], [[110]%N]);
     ([[110]%N], [[100]%N;[103]%N]);
     ([[110]%N], [[102]%N;[120]%N;[121]%N]);
     ([[100]%N;[103]%N], []);
     ([[100]%N;[103]%N], [[100]%N]);
     ([[100]%N;[103]%N], [[109]%N]);
     ([[100]%N;[103]%N], [[102]%N]);
     ([[100]%N;[103]%N], [[104]%N]);
     ([[100]%N;[103]%N], [[120]%N]);
     ([[100]%N;[103]%N], [[102]%N;[120]%N]);
     ([[100]%N;[103]%N], [[120]%N;[121]%N]);
     ([[100]%N;[103]%N], [[100]%N;[101]%N;[122]%N]);
     ([[100]%N;[103]%N], [[100]%N;[101]%N]);
     ([[100]%N;[103]%N], [[100]%N;[110;101;119]%N]);
     ([[100]%N;[103]%N], [[109]%N;[110;101;119]%N]);
     ([[100]%N;[103]%N], [[110]%N]);
     ([[100]%N;[103]%N], [[100]%N;[103]%N]);
     ([[100]%N;[103]%N], [[102]%N;[120]%N;[121]%N]);
     ([[102]%N;[120]%N;[121]%N], []);
     ([[102]%N;[120]%N;[121]%N], [[100]%N]);
     ([[102]%N;[120]%N;[121]%N], [[109]%N]);
     ([[102]%N;[120]%N;[121]%N], [[102]%N]);
     ([[102]%N;[120]%N;[121]%N], [[104]%N]);
     ([[102]%N;[120]%N;[121]%N], [[120]%N]);
     ([[102]%N;[120]%N;[121]%N], [[102]%N;[120]%N]);
     ([[102]%N;[120]%N;[121]%N], [[120]%N;[121]%N]);
     ([[102]%N;[120]%N;[121]%N], [[100]%N;[101]%N;[122]%N]);
     ([[102]%N;[120]%N;[121]%N], [[100]%N;[101]%N]);
     ([[102]%N;[120]%N;[121]%N], [[100]%N;[110;101;119]%N]);
     ([[102]%N;[120]%N;[121]%N], [[109]%N;[110;101;119]%N]);
     ([[102]%N;[120]%N;[121]%N], [[110]%N]);
     ([[102]%N;[120]%N;[121]%N], [[100]%N;[103]%N]);
     ([[102]%N;[120]%N;[121]%N], [[102]%N;[120]%N;[121]%N])]
  = [lit "ok#D@N{s100:D@N{s101:D@N{};s103:Fs103,103@N};s102:Fs102,102@N;s104:Fs104,104@N;s109:D@N{};s110:D@N{s107:D@N{}}}";
     lit "EINVAL";
     lit "EINVAL";
     lit "EINVAL";
     lit "EINVAL";
     lit "EINVAL";
     lit "ENOTDIR";
     lit "ENOENT";
     lit "EINVAL";
     lit "EINVAL";
     lit "EINVAL";
     lit "EINVAL";
     lit "EINVAL";
     lit "EINVAL";
     lit "ENOTDIR";
     lit "ENOTEMPTY";
     lit "ok#D@N{s100:D@N{s101:D@N{};s103:Fs103,103@N};s102:Fs102,102@N;s104:Fs104,104@N;s109:D@N{};s110:D@N{s107:D@N{}}}";
     lit "ok#D@N{s102:Fs102,102@N;s104:Fs104,104@N;s109:D@N{s101:D@N{};s103:Fs103,103@N};s110:D@N{s107:D@N{}}}";
     lit "ENOTDIR";
     lit "ENOTDIR";
     lit "ok#D@N{s102:Fs102,102@N;s104:Fs104,104@N;s109:D@N{};s110:D@N{s107:D@N{}};s120:D@N{s101:D@N{};s103:Fs103,103@N}}";
     lit "ENOTDIR";
     lit "ENOENT";
     lit "EINVAL";
     lit "EINVAL";
     lit "EINVAL";
     lit "ok#D@N{s102:Fs102,102@N;s104:Fs104,104@N;s109:D@N{s110,101,119:D@N{s101:D@N{};s103:Fs103,103@N}};s110:D@N{s107:D@N{}}}";
     lit "ENOTEMPTY";
     lit "EINVAL";
     lit "ENOTDIR";
     lit "ENOTEMPTY";
     lit "ENOTEMPTY";
     lit "ok#D@N{s100:D@N{s101:D@N{};s103:Fs103,103@N};s102:Fs102,102@N;s104:Fs104,104@N;s109:D@N{};s110:D@N{s107:D@N{}}}";
     lit "ENOTDIR";
     lit "ENOTDIR";
     lit "ok#D@N{s100:D@N{s101:D@N{};s103:Fs103,103@N};s102:Fs102,102@N;s104:Fs104,104@N;s110:D@N{s107:D@N{}};s120:D@N{}}";
     lit "ENOTDIR";
     lit "ENOENT";
     lit "ok#D@N{s100:D@N{s101:D@N{s122:D@N{}};s103:Fs103,103@N};s102:Fs102,102@N;s104:Fs104,104@N;s110:D@N{s107:D@N{}}}";
     lit "ok#D@N{s100:D@N{s101:D@N{};s103:Fs103,103@N};s102:Fs102,102@N;s104:Fs104,104@N;s110:D@N{s107:D@N{}}}";
     lit "ok#D@N{s100:D@N{s101:D@N{};s103:Fs103,103@N;s110,101,119:D@N{}};s102:Fs102,102@N;s104:Fs104,104@N;s110:D@N{s107:D@N{}}}";
     lit "EINVAL";
     lit "ENOTEMPTY";
     lit "ENOTDIR";
     lit "ENOTDIR";
     lit "ENOTDIR";
     lit "EISDIR";
     lit "EISDIR";
     lit "ok#D@N{s100:D@N{s101:D@N{};s103:Fs103,103@N};s102:Fs102,102@N;s104:Fs104,104@N;s109:D@N{};s110:D@N{s107:D@N{}}}";
     lit "ok#D@N{s100:D@N{s101:D@N{};s103:Fs103,103@N};s104:Fs102,102@N;s109:D@N{};s110:D@N{s107:D@N{}}}";
     lit "ok#D@N{s100:D@N{s101:D@N{};s103:Fs103,103@N};s104:Fs104,104@N;s109:D@N{};s110:D@N{s107:D@N{}};s120:Fs102,102@N}";
     lit "ENOTDIR";
     lit "ENOENT";
     lit "ok#D@N{s100:D@N{s101:D@N{s122:Fs102,102@N};s103:Fs103,103@N};s104:Fs104,104@N;s109:D@N{};s110:D@N{s107:D@N{}}}";
     lit "EISDIR";
     lit "ok#D@N{s100:D@N{s101:D@N{};s103:Fs103,103@N;s110,101,119:Fs102,102@N};s104:Fs104,104@N;s109:D@N{};s110:D@N{s107:D@N{}}}";
     lit "ok#D@N{s100:D@N{s101:D@N{};s103:Fs103,103@N};s104:Fs104,104@N;s109:D@N{s110,101,119:Fs102,102@N};s110:D@N{s107:D@N{}}}";
     lit "EISDIR";
     lit "ok#D@N{s100:D@N{s101:D@N{};s103:Fs102,102@N};s104:Fs104,104@N;s109:D@N{};s110:D@N{s107:D@N{}}}";
     lit "ENOTDIR";
     lit "ENOTDIR";
     lit "EISDIR";
     lit "EISDIR";
     lit "ok#D@N{s100:D@N{s101:D@N{};s103:Fs103,103@N};s102:Fs104,104@N;s109:D@N{};s110:D@N{s107:D@N{}}}";
     lit "ok#D@N{s100:D@N{s101:D@N{};s103:Fs103,103@N};s102:Fs102,102@N;s104:Fs104,104@N;s109:D@N{};s110:D@N{s107:D@N{}}}";
     lit "ok#D@N{s100:D@N{s101:D@N{};s103:Fs103,103@N};s102:Fs102,102@N;s109:D@N{};s110:D@N{s107:D@N{}};s120:Fs104,104@N}";
     lit "ENOTDIR";
     lit "ENOENT";
     lit "ok#D@N{s100:D@N{s101:D@N{s122:Fs104,104@N};s103:Fs103,103@N};s102:Fs102,102@N;s109:D@N{};s110:D@N{s107:D@N{}}}";
     lit "EISDIR";
     lit "ok#D@N{s100:D@N{s101:D@N{};s103:Fs103,103@N;s110,101,119:Fs104,104@N};s102:Fs102,102@N;s109:D@N{};s110:D@N{s107:D@N{}}}";
     lit "ok#D@N{s100:D@N{s101:D@N{};s103:Fs103,103@N};s102:Fs102,102@N;s109:D@N{s110,101,119:Fs104,104@N};s110:D@N{s107:D@N{}}}";
     lit "EISDIR";
     lit "ok#D@N{s100:D@N{s101:D@N{};s103:Fs104,104@N};s102:Fs102,102@N;s109:D@N{};s110:D@N{s107:D@N{}}}";
     lit "ENOTDIR";
     lit "ENOENT";
     lit "ENOENT";
     lit "ENOENT";
     lit "ENOENT";
     lit "ENOENT";
     lit "ENOENT";
     lit "ENOTDIR";
     lit "ENOENT";
     lit "ENOENT";
     lit "ENOENT";
     lit "ENOENT";
     lit "ENOENT";
     lit "ENOENT";
     lit "ENOENT";
     lit "ENOTDIR";
     lit "ENOTDIR";
     lit "ENOTDIR";
     lit "ENOTDIR";
     lit "ENOTDIR";
     lit "ENOTDIR";
     lit "ENOTDIR";
     lit "ENOTDIR";
     lit "ENOTDIR";
     lit "ENOTDIR";
     lit "ENOTDIR";
     lit "ENOTDIR";
     lit "ENOTDIR";
     lit "ENOTDIR";
     lit "ENOTDIR";
     lit "ENOTDIR";
     lit "ENOENT";
     lit "ENOENT";
     lit "ENOENT";
     lit "ENOENT";
     lit "ENOENT";
     lit "ENOENT";
     lit "ENOENT";
     lit "ENOENT";
     lit "ENOENT";
     lit "ENOENT";
     lit "ENOENT";
     lit "ENOENT";
     lit "ENOENT";
     lit "ENOENT";
     lit "ENOENT";
     lit "ENOENT";
     lit "ENOENT";
     lit "ENOENT";
     lit "ENOENT";
     lit "ENOENT";
     lit "ENOENT";
     lit "ENOTDIR";
     lit "ENOENT";
     lit "ENOENT";
     lit "ENOENT";
     lit "ENOENT";
     lit "ENOENT";
     lit "ENOENT";
     lit "ENOENT";
     lit "ENOTDIR";
     lit "ENOTEMPTY";
     lit "ENOTEMPTY";
     lit "ok#D@N{s100:D@N{s103:Fs103,103@N};s102:Fs102,102@N;s104:Fs104,104@N;s109:D@N{};s110:D@N{s107:D@N{}}}";
     lit "ENOTDIR";
     lit "ENOTDIR";
     lit "ok#D@N{s100:D@N{s103:Fs103,103@N};s102:Fs102,102@N;s104:Fs104,104@N;s109:D@N{};s110:D@N{s107:D@N{}};s120:D@N{}}";
     lit "ENOTDIR";
     lit "ENOENT";
     lit "EINVAL";
     lit "ok#D@N{s100:D@N{s101:D@N{};s103:Fs103,103@N};s102:Fs102,102@N;s104:Fs104,104@N;s109:D@N{};s110:D@N{s107:D@N{}}}";
     lit "ok#D@N{s100:D@N{s103:Fs103,103@N;s110,101,119:D@N{}};s102:Fs102,102@N;s104:Fs104,104@N;s109:D@N{};s110:D@N{s107:D@N{}}}";
     lit "ok#D@N{s100:D@N{s103:Fs103,103@N};s102:Fs102,102@N;s104:Fs104,104@N;s109:D@N{s110,101,119:D@N{}};s110:D@N{s107:D@N{}}}";
     lit "ENOTEMPTY";
     lit "ENOTDIR";
     lit "ENOTDIR";
     lit "ENOENT";
     lit "ENOENT";
     lit "ENOENT";
     lit "ENOENT";
     lit "ENOENT";
     lit "ENOENT";
     lit "ENOTDIR";
     lit "ENOENT";
     lit "ENOENT";
     lit "ENOENT";
     lit "ENOENT";
     lit "ENOENT";
     lit "ENOENT";
     lit "ENOENT";
     lit "ENOTDIR";
     lit "ENOENT";
     lit "ENOENT";
     lit "ENOENT";
     lit "ENOENT";
     lit "ENOENT";
     lit "ENOENT";
     lit "ENOTDIR";
     lit "ENOENT";
     lit "ENOENT";
     lit "ENOENT";
     lit "ENOENT";
     lit "ENOENT";
     lit "ENOENT";
     lit "ENOENT";
     lit "ENOTDIR";
     lit "ENOTEMPTY";
     lit "ENOTEMPTY";
     lit "ok#D@N{s100:D@N{s101:D@N{};s103:Fs103,103@N};s102:Fs102,102@N;s104:Fs104,104@N;s109:D@N{s107:D@N{}}}";
     lit "ENOTDIR";
     lit "ENOTDIR";
     lit "ok#D@N{s100:D@N{s101:D@N{};s103:Fs103,103@N};s102:Fs102,102@N;s104:Fs104,104@N;s109:D@N{};s120:D@N{s107:D@N{}}}";
     lit "ENOTDIR";
     lit "ENOENT";
     lit "ok#D@N{s100:D@N{s101:D@N{s122:D@N{s107:D@N{}}};s103:Fs103,103@N};s102:Fs102,102@N;s104:Fs104,104@N;s109:D@N{}}";
     lit "ok#D@N{s100:D@N{s101:D@N{s107:D@N{}};s103:Fs103,103@N};s102:Fs102,102@N;s104:Fs104,104@N;s109:D@N{}}";
     lit "ok#D@N{s100:D@N{s101:D@N{};s103:Fs103,103@N;s110,101,119:D@N{s107:D@N{}}};s102:Fs102,102@N;s104:Fs104,104@N;s109:D@N{}}";
     lit "ok#D@N{s100:D@N{s101:D@N{};s103:Fs103,103@N};s102:Fs102,102@N;s104:Fs104,104@N;s109:D@N{s110,101,119:D@N{s107:D@N{}}}}";
     lit "ok#D@N{s100:D@N{s101:D@N{};s103:Fs103,103@N};s102:Fs102,102@N;s104:Fs104,104@N;s109:D@N{};s110:D@N{s107:D@N{}}}";
     lit "ENOTDIR";
     lit "ENOTDIR";
     lit "ENOTDIR";
     lit "ENOTEMPTY";
     lit "EISDIR";
     lit "ok#D@N{s100:D@N{s101:D@N{}};s102:Fs103,103@N;s104:Fs104,104@N;s109:D@N{};s110:D@N{s107:D@N{}}}";
     lit "ok#D@N{s100:D@N{s101:D@N{}};s102:Fs102,102@N;s104:Fs103,103@N;s109:D@N{};s110:D@N{s107:D@N{}}}";
     lit "ok#D@N{s100:D@N{s101:D@N{}};s102:Fs102,102@N;s104:Fs104,104@N;s109:D@N{};s110:D@N{s107:D@N{}};s120:Fs103,103@N}";
     lit "ENOTDIR";
     lit "ENOENT";
     lit "ok#D@N{s100:D@N{s101:D@N{s122:Fs103,103@N}};s102:Fs102,102@N;s104:Fs104,104@N;s109:D@N{};s110:D@N{s107:D@N{}}}";
     lit "EISDIR";
     lit "ok#D@N{s100:D@N{s101:D@N{};s110,101,119:Fs103,103@N};s102:Fs102,102@N;s104:Fs104,104@N;s109:D@N{};s110:D@N{s107:D@N{}}}";
     lit "ok#D@N{s100:D@N{s101:D@N{}};s102:Fs102,102@N;s104:Fs104,104@N;s109:D@N{s110,101,119:Fs103,103@N};s110:D@N{s107:D@N{}}}";
     lit "EISDIR";
     lit "ok#D@N{s100:D@N{s101:D@N{};s103:Fs103,103@N};s102:Fs102,102@N;s104:Fs104,104@N;s109:D@N{};s110:D@N{s107:D@N{}}}";
     lit "ENOTDIR";
     lit "ENOTDIR";
     lit "ENOTDIR";
     lit "ENOTDIR";
     lit "ENOTDIR";
     lit "ENOTDIR";
     lit "ENOTDIR";
     lit "ENOTDIR";
     lit "ENOTDIR";
     lit "ENOTDIR";
     lit "ENOTDIR";
     lit "ENOTDIR";
     lit "ENOTDIR";
     lit "ENOTDIR";
     lit "ENOTDIR";
     lit "ENOTDIR"].
Proof. vm_compute. reflexivity. Qed.

