(* fs/base.py: the derived (default) methods of FS over the essential methods of a backend,
   plus fs/copy.py copy_dir / copy_structure and fs/move.py move_dir for one filesystem,
   mirroring the order of guards of the code. *)
From Coq Require Import List NArith ZArith Bool Arith.
From PyFS Require Import Base.PyStr Base.Outcome Path.PathModel FS.Tree FS.Monad FS.Mode.
Import ListNotations.
Local Open Scope monad_scope.

Record info := { i_name : str; i_isdir : bool; i_size : nat; i_mt : option Z }.

Definition m_wb : str := [ch_w; ch_b].
Definition m_ab : str := [ch_a; ch_b].
Definition m_rb : str := [ch_r; ch_b].

Section Derived.
  Context {S : Type}.

  (* the methods the defaults are written against (each may be a backend override) *)
  Record low := {
    l_validatepath : str -> M S str;
    l_getinfo : str -> M S info;
    l_listdir : str -> M S (list str);
    l_scandir : str -> M S (list info);
    l_makedir : str -> bool -> M S unit;               (* path, recreate *)
    l_openread : str -> M S bytes;                     (* open(path, 'rb').read(); close *)
    l_openwrite : str -> str -> option bytes -> M S unit;
        (* openbin(path, mode); write(data) if Some; close *)
    l_remove : str -> M S unit;
    l_removedir : str -> M S unit;
    l_removetree : str -> M S unit;
    l_setinfo : str -> option Z -> M S unit;           (* details.modified; None = now *)
    l_fuel : S -> nat
  }.

  Variable L : low.

  Definition b_exists (p : str) : M S bool :=
    catch (_ <- l_getinfo L p ;; ret true) ResourceNotFound (ret false).

  Definition b_isdir (p : str) : M S bool :=
    catch (i <- l_getinfo L p ;; ret (i_isdir i)) ResourceNotFound (ret false).

  Definition b_isfile (p : str) : M S bool :=
    catch (i <- l_getinfo L p ;; ret (negb (i_isdir i))) ResourceNotFound (ret false).

  Definition b_isempty (p : str) : M S bool :=
    l <- l_scandir L p ;; ret (match l with [] => true | _ => false end).

  Definition b_getsize (p : str) : M S nat := i <- l_getinfo L p ;; ret (i_size i).
  Definition b_gettype (p : str) : M S nat :=
    i <- l_getinfo L p ;; ret (if i_isdir i then 1 else 2).

  Definition b_opendir (p : str) : M S unit :=
    i <- l_getinfo L p ;; if i_isdir i then ret tt else raise DirectoryExpected.

  (* FS.scandir default: getinfo(join(_path, name)) for name in listdir(path) *)
  Definition b_scandir (getinfo : str -> M S info) (listdir : str -> M S (list str))
             (p : str) : M S (list info) :=
    n <- lift (normpath p) ;;
    let _path := abspath n in
    names <- listdir p ;;
    (fix go (l : list str) : M S (list info) :=
       match l with
       | [] => ret []
       | nm :: r => q <- lift (pjoin [_path; nm]) ;; i <- getinfo q ;; is <- go r ;; ret (i :: is)
       end) names.

  Definition b_readbytes (p : str) : M S bytes := l_openread L p.
  Definition b_writebytes (p : str) (d : bytes) : M S unit := l_openwrite L p m_wb (Some d).
  Definition b_appendbytes (p : str) (d : bytes) : M S unit := l_openwrite L p m_ab (Some d).

  (* upload: copy_file_data never calls write() for an empty source *)
  Definition b_upload (p : str) (d : bytes) : M S unit :=
    l_openwrite L p m_wb (match d with [] => None | _ => Some d end).

  Definition b_create (p : str) (wipe : bool) : M S bool :=
    e <- (if wipe then ret false else b_exists p) ;;
    if e then ret false else (_ <- l_openwrite L p m_wb None ;; ret true).

  Definition b_touch (p : str) : M S unit :=
    c <- b_create p false ;;
    if c then ret tt else l_setinfo L p None.

  Definition b_copy_modified_time (src dst : str) : M S unit :=
    i <- l_getinfo L src ;; l_setinfo L dst (i_mt i).

  (* tools.get_intermediate_dirs *)
  Definition get_intermediate_dirs (dir_path : str) : M S (list str) :=
    paths <- lift (recursepath (abspath dir_path) true) ;;
    inter <- (fix go (l : list str) (acc : list str) : M S (list str) :=
                match l with
                | [] => ret acc
                | p :: r =>
                  fun s =>
                    match l_getinfo L p s with
                    | (s', Err ResourceNotFound) => go r (acc ++ [abspath p]) s'
                    | (s', Ok i) => if i_isdir i then (s', Ok acc)
                                    else (s', Err DirectoryExpected)
                    | (s', Err e) => (s', Err e)
                    | (s', Crash k) => (s', Crash k)
                    end
                end) paths [] ;;
    ret (removelast (rev inter)).

  Definition makedir_tolerant (p : str) (recreate : bool) : M S unit :=
    catch (l_makedir L p false) DirectoryExists
          (if recreate then ret tt else raise DirectoryExists).

  Definition b_makedirs (p : str) (recreate : bool) : M S unit :=
    dirs <- get_intermediate_dirs p ;;
    _ <- mfor dirs (fun d => makedir_tolerant d recreate) ;;
    _ <- makedir_tolerant p recreate ;;
    b_opendir p.

  (* FS.copy *)
  Definition b_copy (src dst : str) (overwrite preserve_time : bool) : M S unit :=
    _src <- l_validatepath L src ;;
    _dst <- l_validatepath L dst ;;
    e <- (if overwrite then ret false else b_exists _dst) ;;
    if e then raise DestinationExists
    else if str_eqb _src _dst then raise IllegalDestination
    else
      d <- l_openread L _src ;;
      _ <- b_upload _dst d ;;
      if preserve_time then b_copy_modified_time _src _dst else ret tt.

  (* default Walker, breadth first: visit every (dir_path, info) in yield order *)
  Fixpoint bfs_walk (fuel : nat) (queue : list str) (visit : str -> info -> M S unit)
    : M S unit :=
    match fuel with
    | O => crash NonTermination
    | Datatypes.S f =>
      match queue with
      | [] => ret tt
      | d :: q =>
        infos <- l_scandir L d ;;
        newdirs <- (fix go (l : list info) (acc : list str) : M S (list str) :=
                      match l with
                      | [] => ret acc
                      | i :: r =>
                        _ <- visit d i ;;
                        go r (if i_isdir i then acc ++ [combine d (i_name i)] else acc)
                      end) infos [] ;;
        bfs_walk f (q ++ newdirs) visit
      end
    end.

  Definition walk_fuel : M S nat := s <- get ;; ret (2 * l_fuel L s + 2).

  (* copy.copy_structure(fs, fs, Walker(), src_root, dst_root) *)
  Definition copy_structure (src_root dst_root : str) : M S unit :=
    _src <- l_validatepath L src_root ;;
    _dst <- l_validatepath L dst_root ;;
    if isbase _src _dst then raise IllegalDestination
    else
      _ <- b_makedirs _dst true ;;
      fuel <- walk_fuel ;;
      bfs_walk fuel [_src] (fun dir_path i =>
        if i_isdir i then
          rel <- lift (frombase _src (combine dir_path (i_name i))) ;;
          l_makedir L (combine _dst rel) true
        else ret tt).

  (* copy.copy_file_internal on one filesystem *)
  Definition copy_file_internal (copy : str -> str -> bool -> bool -> M S unit)
             (src dst : str) (preserve_time : bool) : M S unit :=
    _src <- l_validatepath L src ;;
    _dst <- l_validatepath L dst ;;
    if str_eqb _src _dst then raise IllegalDestination
    else copy src dst true preserve_time.

  (* copy.copy_dir(fs, src, fs, dst, preserve_time) with the default walker, no workers *)
  Definition copy_dir (copy : str -> str -> bool -> bool -> M S unit)
             (src dst : str) (preserve_time : bool) : M S unit :=
    ns <- lift (normpath src) ;;
    nd <- lift (normpath dst) ;;
    let _src := abspath ns in
    let _dst := abspath nd in
    _ <- copy_structure src dst ;;
    fuel <- walk_fuel ;;
    bfs_walk fuel [_src] (fun dir_path i =>
      if i_isdir i then ret tt
      else
        let fp := combine dir_path (i_name i) in
        rel <- lift (frombase _src fp) ;;
        copy_file_internal copy fp (combine _dst rel) preserve_time).

  (* FS.copydir *)
  Definition b_copydir (copy : str -> str -> bool -> bool -> M S unit)
             (src dst : str) (create preserve_time : bool) : M S unit :=
    _src <- l_validatepath L src ;;
    _dst <- l_validatepath L dst ;;
    if isbase _src _dst then raise IllegalDestination
    else
      e <- (if create then ret true else b_exists _dst) ;;
      if negb e then raise ResourceNotFound
      else
        i <- l_getinfo L _src ;;
        if negb (i_isdir i) then raise DirectoryExpected
        else copy_dir copy _src _dst preserve_time.

  (* move.move_dir(fs, src, fs, dst) *)
  Definition move_dir (copy : str -> str -> bool -> bool -> M S unit)
             (src dst : str) (preserve_time : bool) : M S unit :=
    _ <- l_makedir L dst true ;;
    _ <- copy_dir copy src dst preserve_time ;;
    l_removetree L src.

  (* FS.movedir *)
  Definition b_movedir (copy : str -> str -> bool -> bool -> M S unit)
             (src dst : str) (create preserve_time : bool) : M S unit :=
    _src <- l_validatepath L src ;;
    _dst <- l_validatepath L dst ;;
    if str_eqb _src _dst then ret tt
    else if isbase _src _dst then raise IllegalDestination
    else
      e <- (if create then ret true else b_exists dst) ;;
      if negb e then raise ResourceNotFound
      else
        i <- l_getinfo L _src ;;
        if negb (i_isdir i) then raise DirectoryExpected
        else move_dir copy src dst preserve_time.

  (* FS.move without the os.rename shortcut (supports_rename is false) *)
  Definition b_move (src dst : str) (overwrite preserve_time : bool) : M S unit :=
    _src <- l_validatepath L src ;;
    _dst <- l_validatepath L dst ;;
    e <- (if overwrite then ret false else b_exists _dst) ;;
    if e then raise DestinationExists
    else
      i <- l_getinfo L _src ;;
      if i_isdir i then raise FileExpected
      else if str_eqb _src _dst then ret tt
      else
        d <- l_openread L _src ;;
        _ <- b_upload _dst d ;;
        _ <- (if preserve_time then b_copy_modified_time _src _dst else ret tt) ;;
        l_remove L _src.
End Derived.
Arguments low : clear implicits.
