(* fs/wrapfs.py WrapFS and fs/subfs.py SubFS over the MemoryFS model: every method maps its
   path arguments with delegate_path and calls the same method of the wrapped filesystem,
   except the ones WrapFS implements itself (getinfo's root name, removedir/removetree of the
   root, copy/copydir through fs.copy). check() (the closed flag) is C18's. *)
From Coq Require Import List NArith ZArith Bool Arith.
From PyFS Require Import Base.PyStr Base.Outcome Path.PathModel FS.Tree FS.Monad FS.Mode FS.Base FS.Mem
     FS.Ops Sandbox.Sandbox.
Import ListNotations.
Local Open Scope monad_scope.

Section Wrapper.
  (* delegate_path: identity for WrapFS, join(sub_dir, relpath(normpath(path))) for SubFS *)
  Variable delegate : str -> outcome str.

  Definition dpath (p : str) : MM str := lift (delegate p).
  Definition is_root (p : str) : MM bool :=
    n <- lift (normpath p) ;; ret (str_eqb (abspath n) s_slash).

  Definition set_name (i : info) (n : str) : info :=
    {| i_name := n; i_isdir := i_isdir i; i_size := i_size i; i_mt := i_mt i |}.

  Definition w_getinfo (p : str) : MM info :=
    q <- dpath p ;;
    i <- mem_getinfo q ;;
    r <- is_root p ;;
    ret (if r then set_name i [] else i).

  Definition w_removedir (p : str) : MM unit :=
    r <- is_root p ;;
    if r then raise RemoveRootError
    else q <- dpath p ;; mem_removedir q.

  Definition w_removetree (p : str) : MM unit :=
    n <- lift (normpath p) ;;
    q <- dpath p ;;
    if str_eqb (abspath n) s_slash then
      infos <- mem_scandir q ;;
      mfor infos (fun i =>
        ip <- lift (pjoin [q; i_name i]) ;;
        if i_isdir i then mem_removetree ip else mem_remove ip)
    else mem_removetree q.

  (* fs.copy.copy_file(fs, src, fs, dst): condition "always"; same filesystem *)
  Definition w_copy (s d : str) (overwrite pt : bool) : MM unit :=
    qs <- dpath s ;;
    qd <- dpath d ;;
    e <- (if overwrite then ret false else mem_exists qd) ;;
    if e then raise DestinationExists
    else copy_file_internal mem_low mem_copy qs qd pt.

  Definition w_copydir (s d : str) (create pt : bool) : MM unit :=
    qs <- dpath s ;;
    qd <- dpath d ;;
    e <- (if create then ret true else mem_exists qd) ;;
    if negb e then raise ResourceNotFound
    else
      i <- mem_getinfo qs ;;
      if negb (i_isdir i) then raise DirectoryExpected
      else copy_dir mem_low mem_copy qs qd pt.

  Definition map1 (p : str) (k : str -> op) : MM value := q <- dpath p ;; mem_run (k q).
  Definition map2 (s d : str) (k : str -> str -> op) : MM value :=
    qs <- dpath s ;; qd <- dpath d ;; mem_run (k qs qd).

  Definition wrap_run (o : op) : MM value :=
    match o with
    | OGetinfo p => vmap VInfo (w_getinfo p)
    | ORemovedir p => vmap (fun _ => VUnit) (w_removedir p)
    | ORemovetree p => vmap (fun _ => VUnit) (w_removetree p)
    | OCopy s d o' t => vmap (fun _ => VUnit) (w_copy s d o' t)
    | OCopydir s d c t => vmap (fun _ => VUnit) (w_copydir s d c t)
    | OListdir p => map1 p OListdir
    | OScandir p => map1 p OScandir
    | OMakedir p r => map1 p (fun q => OMakedir q r)
    | OMakedirs p r => map1 p (fun q => OMakedirs q r)
    | OWritebytes p d => map1 p (fun q => OWritebytes q d)
    | OAppendbytes p d => map1 p (fun q => OAppendbytes q d)
    | OReadbytes p => map1 p OReadbytes
    | OCreate p w => map1 p (fun q => OCreate q w)
    | OTouch p => map1 p OTouch
    | OOpenwrite p m d => map1 p (fun q => OOpenwrite q m d)
    | OOpenread p m => map1 p (fun q => OOpenread q m)
    | ORemove p => map1 p ORemove
    | OMove s d o' t => map2 s d (fun a b => OMove a b o' t)
    | OMovedir s d c t => map2 s d (fun a b => OMovedir a b c t)
    | OSetinfo p mt => map1 p (fun q => OSetinfo q mt)
    | OExists p => map1 p OExists
    | OIsdir p => map1 p OIsdir
    | OIsfile p => map1 p OIsfile
    | OIsempty p => map1 p OIsempty
    | OGetsize p => map1 p OGetsize
    | OGettype p => map1 p OGettype
    end.
End Wrapper.

Definition wrapfs_run : op -> MM value := wrap_run (fun p => Ok p).
Definition subfs_run (sub_dir : str) : op -> MM value := wrap_run (subfs_delegate sub_dir).
(* SubFS of SubFS ... (innermost sub-directory first) *)
Definition nested_subfs_run (subs : list str) : op -> MM value := wrap_run (nested_delegate subs).
