(* Executable property predicates over observations (trees before/after a call).
   The same functions are the subject of the theorems and are applied by the harness to
   the implementation's snapshots. *)
From Coq Require Import List NArith ZArith Bool Arith String.
From PyFS Require Import Base.PyStr Base.Outcome Base.Render FS.Tree FS.Mode FS.Base FS.Ops FS.Ref
     FS.Agree.
Import ListNotations.

Definition file_at (t : node) (p : list str) : option bytes :=
  match lookup t p with Some (File d _) => Some d | _ => None end.

Definition has_file (t : node) (p : list str) (d : bytes) : bool :=
  match file_at t p with Some d' => str_eqb d d' | None => false end.

Definition all_files_kept (before after : node) (exempt : list str -> bool) : bool :=
  forallb (fun pb => exempt (fst pb) || has_file after (fst pb) (snd pb)) (files_of before).

Definition rp (p : str) : option (list str) :=
  match rpath p with inl cs => Some cs | inr _ => None end.

Definition sub_files (t : node) (p : list str) : list (list str * bytes) :=
  match lookup t p with Some n => files_of n | None => [] end.

(* C05: which pre-existing files the call may remove or overwrite *)
Definition exempt_of (before : node) (o : op) : list str -> bool :=
  match o with
  | OMove s d ow _ =>
    match rp s, rp d with
    | Some a, Some b => fun p => path_eqb p a || (ow && path_eqb p b)
    | _, _ => fun _ => false
    end
  | OCopy s d ow _ =>
    match rp s, rp d with
    | Some _, Some b => fun p => ow && path_eqb p b
    | _, _ => fun _ => false
    end
  | OMovedir s d _ _ =>
    match rp s, rp d with
    | Some a, Some b =>
      fun p => list_prefix a p
               || existsb (fun rb => path_eqb p (b ++ fst rb)) (sub_files before a)
    | _, _ => fun _ => false
    end
  | OCopydir s d _ _ =>
    match rp s, rp d with
    | Some a, Some b => fun p => existsb (fun rb => path_eqb p (b ++ fst rb)) (sub_files before a)
    | _, _ => fun _ => false
    end
  | ORemovetree p0 =>
    match rp p0 with Some a => fun p => list_prefix a p | None => fun _ => false end
  | _ => fun _ => true
  end.

(* C05: after a successful move/copy the complete source content is at the destination *)
Definition delivered (before after : node) (o : op) : bool :=
  match o with
  | OMove s d _ _ | OCopy s d _ _ =>
    match rp s, rp d with
    | Some a, Some b =>
      match file_at before a with
      | Some data => has_file after b data
                     && match o with OCopy _ _ _ _ => has_file after a data | _ => true end
      | None => false
      end
    | _, _ => false
    end
  | OMovedir s d _ _ | OCopydir s d _ _ =>
    match rp s, rp d with
    | Some a, Some b =>
      path_eqb a b
      || forallb (fun rb => has_file after (b ++ fst rb) (snd rb)) (sub_files before a)
    | _, _ => false
    end
  | _ => true
  end.

Definition preserved (before after : node) (o : op) (ok : bool) : bool :=
  all_files_kept before after (exempt_of before o) && (negb ok || delivered before after o).

Definition is_transfer (o : op) : bool :=
  match o with
  | OMove _ _ _ _ | OCopy _ _ _ _ | OMovedir _ _ _ _ | OCopydir _ _ _ _ | ORemovetree _ => true
  | _ => false
  end.
