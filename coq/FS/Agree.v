(* Comparing an observed step (tree after, outcome) with the reference step; canonical
   (order-insensitive) forms of trees and listings; tree decoding from tokens. *)
From Coq Require Import List NArith ZArith Bool Arith String.
From PyFS Require Import Base.PyStr Base.Outcome Base.Render FS.Tree FS.Mode FS.Base FS.Ops FS.Ref.
Import ListNotations.

Fixpoint str_ltb (a b : str) : bool :=
  match a, b with
  | [], [] => false
  | [], _ :: _ => true
  | _ :: _, [] => false
  | x :: a', y :: b' => if N.ltb x y then true else if N.eqb x y then str_ltb a' b' else false
  end.

Fixpoint insert_sorted {A} (k : str) (v : A) (l : list (str * A)) : list (str * A) :=
  match l with
  | [] => [(k, v)]
  | (k', v') :: r => if str_ltb k k' then (k, v) :: l else (k', v') :: insert_sorted k v r
  end.

Definition sort_ents {A} (l : list (str * A)) : list (str * A) :=
  fold_right (fun kv acc => insert_sorted (fst kv) (snd kv) acc) [] l.

(* canonical tree: entries sorted by name at every level *)
Fixpoint canon (t : node) : node :=
  match t with
  | File d mt => File d mt
  | Dir ents mt =>
    Dir (sort_ents ((fix go (l : list (str * node)) : list (str * node) :=
                       match l with [] => [] | (k, n) :: r => (k, canon n) :: go r end) ents)) mt
  end.

Definition mt_eqb (a b : option Z) : bool :=
  match a, b with
  | None, None => true
  | Some x, Some y => Z.eqb x y
  | _, _ => false
  end.

Definition bytes_eqb (a b : bytes) : bool := str_eqb a b.

(* structural equality; [times] says whether modification times are compared *)
Fixpoint node_eqb (times : bool) (a b : node) : bool :=
  match a, b with
  | File d1 m1, File d2 m2 => str_eqb d1 d2 && (negb times || mt_eqb m1 m2)
  | Dir e1 m1, Dir e2 m2 =>
    (negb times || mt_eqb m1 m2) &&
    (fix go (l1 l2 : list (str * node)) : bool :=
       match l1, l2 with
       | [], [] => true
       | (k1, n1) :: r1, (k2, n2) :: r2 => str_eqb k1 k2 && node_eqb times n1 n2 && go r1 r2
       | _, _ => false
       end) e1 e2
  | _, _ => false
  end.

Definition tree_eqb (times : bool) (a b : node) : bool := node_eqb times (canon a) (canon b).

Definition info_eqb (a b : info) : bool :=
  str_eqb (i_name a) (i_name b) && Bool.eqb (i_isdir a) (i_isdir b)
  && Nat.eqb (i_size a) (i_size b) && mt_eqb (i_mt a) (i_mt b).

Definition sort_strs (l : list str) : list str :=
  map fst (sort_ents (map (fun s => (s, tt)) l)).
Definition sort_infos (l : list info) : list info :=
  map snd (sort_ents (map (fun i => (i_name i, i)) l)).

Fixpoint list_eqb {A} (f : A -> A -> bool) (a b : list A) : bool :=
  match a, b with
  | [], [] => true
  | x :: a', y :: b' => f x y && list_eqb f a' b'
  | _, _ => false
  end.

Definition value_eqb (a b : value) : bool :=
  match a, b with
  | VUnit, VUnit => true
  | VBool x, VBool y => Bool.eqb x y
  | VNat x, VNat y => Nat.eqb x y
  | VBytes x, VBytes y => str_eqb x y
  | VNames x, VNames y => list_eqb str_eqb (sort_strs x) (sort_strs y)
  | VInfo x, VInfo y => info_eqb x y
  | VInfos x, VInfos y => list_eqb info_eqb (sort_infos x) (sort_infos y)
  | _, _ => false
  end.

Definition res_agree (o : outcome value) (r : rres) : bool :=
  match o, r with
  | Ok v, ROk w => value_eqb v w
  | Err e, RFail adm => existsb (ecls_eqb e) adm
  | Crash ValueError, RValueError => true
  | Ok _, RAny | Err _, RAny => true
  | _, _ => false
  end.

(* the observed step agrees with the reference step *)
Definition agree (obs : node * outcome value) (r : rstep) : bool :=
  res_agree (snd obs) (rs_res r)
  && match rs_tree r with
     | Some t => tree_eqb true (fst obs) t
     | None => true
     end.

(* ---- rendering of reference steps for the harness ---- *)
Local Open Scope string_scope. Local Open Scope list_scope.

Definition r_rres (r : rres) : str :=
  match r with
  | ROk v => lit "ok:" ++ r_value (match v with
                                   | VNames l => VNames (sort_strs l)
                                   | VInfos l => VInfos (sort_infos l)
                                   | x => x end)
  | RFail adm => lit "fail:" ++ sep_by (lit ",") (map ecls_name adm)
  | RValueError => lit "crash:ValueError"
  | RAny => lit "any"
  end.

Definition r_rstep (r : rstep) : str :=
  r_rres (rs_res r) ++ lit "#" ++
  match rs_tree r with Some t => r_tree (canon t) | None => lit "ANY" end.

(* run the reference along a history; stops being informative after an ANY tree *)
Fixpoint ref_history (t : option node) (ops : list op) : list str :=
  match ops with
  | [] => []
  | o :: r =>
    match t with
    | None => lit "SKIP" :: ref_history None r
    | Some s => let st := ref_run o s in r_rstep st :: ref_history (rs_tree st) r
    end
  end.

(* ---- trees from tokens (pre-order): [1] mt data | [2] mt [n] (name subtree)*n ---- *)
Fixpoint decode_tree (fuel : nat) (ts : list str) : option (node * list str) :=
  match fuel with
  | O => None
  | S f =>
    match ts with
    | [1%N] :: mt :: data :: rest => Some (File data (tmt mt), rest)
    | [2%N] :: mt :: cnt :: rest =>
      let n := match cnt with c :: _ => N.to_nat c | [] => 0 end in
      (fix kids (k : nat) (ts : list str) (acc : list (str * node)) : option (node * list str) :=
         match k with
         | O => Some (Dir (rev acc) (tmt mt), ts)
         | S k' =>
           match ts with
           | name :: ts' =>
             match decode_tree f ts' with
             | Some (c, ts'') => kids k' ts'' ((name, c) :: acc)
             | None => None
             end
           | [] => None
           end
         end) n rest []
    | _ => None
    end
  end.
