(* C05, stronger executable predicate.

   [preserved] (FS/Props.v) EXEMPTS every file that is a legitimate destination of the call:
   whatever happens to such a file is accepted.  Two consequences:
     (1) for copydir / movedir of a directory onto ITSELF (or overlapping so that a destination
         path is itself a source path) every file of the tree is exempt and [delivered] is
         short-circuited by [path_eqb a b]: a call that truncates every file satisfies
         [preserved];
     (2) an overwritten destination may end up with ARBITRARY bytes.

   [preserved2] replaces "exempt" by an explicit description of what a pre-existing file may
   look like after the call, whatever the outcome:
     - it is still a file whose bytes are its OLD bytes, or - only where the file is a
       destination of the call - the bytes of the CORRESPONDING SOURCE file
       ([allowed_after]); when the corresponding source is the file itself (a = b, or
       p = a ++ r = b ++ r) that is again the old bytes;
     - it may be ABSENT only where the call was asked to remove it ([gone_ok]): below the
       directory given to removetree, or - for move / movedir - when it is a moved source
       AND its bytes are found at its destination in the tree after the call (so nothing is
       lost, also when the call failed midway, and never when source = destination).
   After a successful call the complete source content is at the destination ([delivered2]:
   [delivered] without the [path_eqb a b] short-circuit). *)
From Coq Require Import List NArith ZArith Bool Arith.
From PyFS Require Import Base.PyStr Base.Outcome Base.Render FS.Tree FS.Mode FS.Base FS.Ops FS.Ref
     FS.Agree FS.Props.
Import ListNotations.

(* the bytes of the source files of a directory transfer a -> b whose destination path is p
   (at most one: b ++ r = p determines r) *)
Definition src_for (before : node) (a b p : list str) : list bytes :=
  map snd (filter (fun rb => path_eqb p (b ++ fst rb)) (sub_files before a)).

(* what a pre-existing file at path p (bytes [old]) may contain after the call.
   [ok] is not needed: after a successful call [delivered2] forces the source bytes at
   every destination; after a failed one a destination may hold either. *)
Definition allowed_after (before : node) (o : op) (ok : bool) (p : list str) (old : bytes)
  : list bytes :=
  old ::
  match o with
  | OMove s d ow _ | OCopy s d ow _ =>
    match rp s, rp d with
    | Some a, Some b =>
      if ow && path_eqb p b
      then match file_at before a with Some data => [data] | None => [] end
      else []
    | _, _ => []
    end
  | OMovedir s d _ _ | OCopydir s d _ _ =>
    match rp s, rp d with
    | Some a, Some b => src_for before a b p
    | _, _ => []
    end
  | _ => []
  end.

(* may the pre-existing file at p (bytes [old]) be absent from [after]? *)
Definition gone_ok (after : node) (o : op) (p : list str) (old : bytes) : bool :=
  match o with
  | OMove s d _ _ =>
    match rp s, rp d with
    | Some a, Some b => path_eqb p a && has_file after b old
    | _, _ => false
    end
  | OMovedir s d _ _ =>
    match rp s, rp d with
    | Some a, Some b => list_prefix a p && has_file after (b ++ skipn (List.length a) p) old
    | _, _ => false
    end
  | ORemovetree p0 =>
    match rp p0 with Some a => list_prefix a p | None => false end
  | _ => false
  end.

Definition file_ok2 (before after : node) (o : op) (ok : bool) (pb : list str * bytes) : bool :=
  match file_at after (fst pb) with
  | Some d => existsb (str_eqb d) (allowed_after before o ok (fst pb) (snd pb))
  | None => gone_ok after o (fst pb) (snd pb)
  end.

Definition delivered2 (before after : node) (o : op) : bool :=
  match o with
  | OMove s d _ _ | OCopy s d _ _ =>
    match rp s, rp d with
    | Some a, Some b =>
      match file_at before a with
      | Some data => has_file after b data
                     && match o with OCopy _ _ _ _ => has_file after a data | _ => true end
      | None => false
      end
    | _, _ => false
    end
  | OMovedir s d _ _ | OCopydir s d _ _ =>
    match rp s, rp d with
    | Some a, Some b =>
      forallb (fun rb => has_file after (b ++ fst rb) (snd rb)) (sub_files before a)
    | _, _ => false
    end
  | _ => true
  end.

(* like [preserved], the predicate says nothing (true) about calls that are not transfers *)
Definition preserved2 (before after : node) (o : op) (ok : bool) : bool :=
  if is_transfer o then
    forallb (file_ok2 before after o ok) (files_of before)
    && (negb ok || delivered2 before after o)
  else true.
