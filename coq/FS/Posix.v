(* A small POSIX kernel model: the part of Linux that fs/osfs.py (OSFS) talks to.

   State: the directory tree below the root directory of the OSFS, as the same [node] type the
   other filesystem models use: directories with ordered entries, regular files with bytes and a
   modification time ([None] = "the wall clock when it was last written", [Some z] = a time set
   explicitly through utime).  No permissions (the harness runs as root / owner), no symbolic or
   hard links, no special files, a single process (nothing changes between two system calls of one
   method).  Directory modification times: the real kernel bumps the mtime of a directory whenever an
   entry is created, removed or renamed in it; the model does NOT (a directory's time changes only
   through utime) - directory times are therefore outside the correspondence (the harness strips
   them), file times are inside it.

   What reaches the kernel.  Every OSFS method starts with validatepath (fs/base.py): the path is
   normalised (no empty, '.' or '..' component survives, IllegalBackReference otherwise), made
   absolute, and NUL is rejected (InvalidCharsInPath).  _to_sys_path / getsyspath then join the
   root directory of the OSFS with the relative path.  So the kernel sees <root>/c1/.../cn with
   ordinary components c_i (non-empty, no '/', no NUL, never '.' or '..'), or - for the root itself -
   "<root>/" WITH a trailing slash (os.path.join(root, "")).  A system path is represented by its
   component list below the root; [] is the root.  Components are walked from the root directory
   (the part of the path above it is an existing directory chain by OSFS.__init__ and is never
   touched).

   errno choices: found by experiment on this machine (Linux 6.x, /tmp, Python 3.12 os.* calls in a
   scratch directory, run as root); the tables are reproduced in the comments of each call, and
   recorded in full as the `kernel_table_*` examples of FS/OsfsProofs.v (419 calls: errno or resulting
   tree, proved of this model by vm_compute; `python harness/h_osfs.py --emit-kernel-table`
   regenerates them, and every run of the C01 check repeats the calls on the live kernel and compares).  Cases, for a tree
   d/{e/,g} f m/ : root, dir (d), emptydir (m), file (f), missing (x), belowfile (f/x),
   noparent (x/y), belowbelowfile (f/x/y). *)
From Coq Require Import List NArith ZArith Bool Arith.
From PyFS Require Import Base.PyStr FS.Tree FS.Mode.
Import ListNotations.

Inductive errno :=
| ENOENT | ENOTDIR | EEXIST | EISDIR | ENOTEMPTY | EINVAL | EBUSY | EPERM | EACCES.

(* a system call: error (state unchanged) or new state and result *)
Definition sysres (A : Type) : Type := (errno + node * A)%type.
Definition K (A : Type) : Type := node -> sysres A.

(* path walk (namei) over all components: ENOENT at the first missing name, ENOTDIR when a
   component has to be looked up in a regular file
     stat: root dir emptydir file -> ok ; missing ENOENT ; belowfile ENOTDIR ; noparent ENOENT ;
           belowbelowfile ENOTDIR *)
Fixpoint k_walk (t : node) (cs : list str) : errno + node :=
  match cs with
  | [] => inr t
  | c :: rest =>
    match t with
    | File _ _ => inl ENOTDIR
    | Dir ents _ =>
      match assoc c ents with
      | Some n => k_walk n rest
      | None => inl ENOENT
      end
    end
  end.

(* the directory that holds the last component: walk all but the last, which must be a directory *)
Definition k_parent (t : node) (cs : list str) : errno + unit :=
  match k_walk t (removelast cs) with
  | inl e => inl e
  | inr (File _ _) => inl ENOTDIR
  | inr (Dir _ _) => inr tt
  end.

Record kstat := { st_isdir : bool; st_size : nat; st_mtime : option Z }.
Definition stat_of (n : node) : kstat :=
  {| st_isdir := is_dir n; st_size := node_size n; st_mtime := node_mt n |}.

(* stat(2) (no symbolic links: lstat = stat) *)
Definition k_stat (cs : list str) : K kstat :=
  fun t => match k_walk t cs with inl e => inl e | inr n => inr (t, stat_of n) end.
Definition k_lstat := k_stat.

(* mkdir(2):  root dir emptydir file -> EEXIST ; missing -> ok ; belowfile ENOTDIR ;
              noparent ENOENT ; belowbelowfile ENOTDIR *)
Definition k_mkdir (cs : list str) : K unit :=
  fun t =>
    match cs with
    | [] => inl EEXIST
    | _ =>
      match k_parent t cs with
      | inl e => inl e
      | inr _ =>
        match lookup t cs with
        | Some _ => inl EEXIST
        | None => inr (put t cs empty_dir, tt)
        end
      end
    end.

(* rmdir(2):  dir (non-empty) ENOTEMPTY ; emptydir ok ; file ENOTDIR ; missing ENOENT ;
              belowfile ENOTDIR ; noparent ENOENT.  "<root>/" itself: ENOTEMPTY / would succeed when
              empty (it is an ordinary directory of the enclosing file system, not a mount point, so
              no EBUSY) - OSFS.removedir never lets the root reach the kernel; the model answers
              EBUSY for it so that a model change that lets it through is seen *)
Definition k_rmdir (cs : list str) : K unit :=
  fun t =>
    match cs with
    | [] => inl EBUSY
    | _ =>
      match k_parent t cs with
      | inl e => inl e
      | inr _ =>
        match lookup t cs with
        | None => inl ENOENT
        | Some (File _ _) => inl ENOTDIR
        | Some (Dir (_ :: _) _) => inl ENOTEMPTY
        | Some (Dir [] _) => inr (del t cs, tt)
        end
      end
    end.

(* unlink(2) (os.remove):  root dir emptydir -> EISDIR (Linux; POSIX allows EPERM, which is what
              macOS gives and what OSFS.remove's extra isdir check is for) ; file ok ; missing ENOENT ;
              belowfile ENOTDIR ; noparent ENOENT *)
Definition k_unlink (cs : list str) : K unit :=
  fun t =>
    match cs with
    | [] => inl EISDIR
    | _ =>
      match k_parent t cs with
      | inl e => inl e
      | inr _ =>
        match lookup t cs with
        | None => inl ENOENT
        | Some (Dir _ _) => inl EISDIR
        | Some (File _ _) => inr (del t cs, tt)
        end
      end
    end.

(* opendir/readdir (os.listdir, os.scandir):  root dir emptydir ok ; file ENOTDIR ; missing ENOENT ;
   belowfile ENOTDIR ; noparent ENOENT.  The order of the entries is unspecified for the real kernel
   (hash order on ext4/tmpfs); the model returns creation order and the harness compares sets.
   A directory is read with one getdents call (the directories of the histories are far smaller than
   the 32 KiB buffer), so entries removed while a scandir iterator is still open are still reported
   and entries added are not: a listing is a snapshot taken when the iterator is first advanced *)
Definition k_scandir (cs : list str) : K (list (str * kstat)) :=
  fun t =>
    match k_walk t cs with
    | inl e => inl e
    | inr (File _ _) => inl ENOTDIR
    | inr (Dir ents _) => inr (t, map (fun kn => (fst kn, stat_of (snd kn))) ents)
    end.

Definition k_listdir (cs : list str) : K (list str) :=
  fun t =>
    match k_scandir cs t with
    | inl e => inl e
    | inr (t', l) => inr (t', map fst l)
    end.

(* open(2) as io.open(path, mode) uses it, followed by the reads / the one write of the call and
   close, for the mode letters r w a x and '+' (flags O_RDONLY / O_WRONLY / O_RDWR, O_CREAT for
   w a x, O_TRUNC for w, O_EXCL for x, O_APPEND for a):
     r, r+ :  root dir -> EISDIR (O_RDONLY on a directory succeeds in the kernel; io.FileIO fstats
              the descriptor and raises IsADirectoryError(EISDIR) itself) ; file ok ; missing ENOENT ;
              belowfile ENOTDIR ; noparent ENOENT
     w, w+, a, a+ :  dir EISDIR ; file ok ; missing ok (created) ; belowfile ENOTDIR ; noparent ENOENT
     x, x+ :  dir EEXIST ; file EEXIST ; missing ok ; belowfile ENOTDIR ; noparent ENOENT ;
              "<root>/" EISDIR (trailing slash with O_CREAT) - OSFS never passes the root
   The result is the position of the descriptor after open: 0, or the size for append mode
   (io.FileIO seeks to the end; with O_APPEND every write goes to the end anyway).
   Times: creation and O_TRUNC set the modification time to now - O_TRUNC also when the file was
   already empty (experiment: "open w on EMPTY no write: now"); opening without truncation does not
   change it *)
Definition k_open (cs : list str) (mode : str) : K nat :=
  fun t =>
    match cs with
    | [] => inl EISDIR
    | _ =>
      match k_parent t cs with
      | inl e => inl e
      | inr _ =>
        match lookup t cs with
        | Some (Dir _ _) => if m_exclusive mode then inl EEXIST else inl EISDIR
        | Some (File data mt) =>
          if m_exclusive mode then inl EEXIST
          else if m_truncate mode then inr (put t cs (File [] None), 0)
          else if m_appending mode then inr (t, length data)
          else inr (t, 0)
        | None =>
          if m_create mode then inr (put t cs (File [] None), 0) else inl ENOENT
        end
      end
    end.

(* read(2) until EOF from position pos of an open regular file (cannot fail) *)
Definition k_readall (cs : list str) (pos : nat) : K bytes :=
  fun t =>
    match lookup t cs with
    | Some (File data _) => inr (t, skipn pos data)
    | _ => inl EINVAL
    end.

Definition write_at (pos : nat) (old data : bytes) : bytes :=
  firstn pos old ++ data ++ skipn (pos + length data) old.

(* write(2) of all of data at position pos.  A zero-length write changes nothing, not even the
   time (experiment: "open r+ write empty: S5"); any other write sets the time to now *)
Definition k_write (cs : list str) (pos : nat) (data : bytes) : K unit :=
  fun t =>
    match lookup t cs with
    | Some (File old mt) =>
      match data with
      | [] => inr (t, tt)
      | _ => inr (put t cs (File (write_at pos old data) None), tt)
      end
    | _ => inl EINVAL
    end.

(* utime(2): sets the modification time of a file or directory (None = the current time);
   root dir file ok ; missing ENOENT ; belowfile ENOTDIR ; noparent ENOENT *)
Definition k_utime (cs : list str) (mt : option Z) : K unit :=
  fun t =>
    match k_walk t cs with
    | inl e => inl e
    | inr n => inr (put t cs (set_mt n mt), tt)
    end.

(* rename(2).  Order of the checks as observed (rename a -> b over the tree above, plus h a second
   file and n/k a non-empty directory):
     1. the parent directory of the source is resolved (ENOENT / ENOTDIR), then the parent directory
        of the destination (belowfile -> noparent: ENOTDIR ; noparent -> belowfile: ENOENT ;
        missing -> belowfile: ENOTDIR, i.e. before the source name is looked up);
     2. the source name is looked up: ENOENT;
     3. same resource: success, nothing happens;
     4. source is a directory and the destination lies inside it: EINVAL (dir -> d/new, dir -> d/g
        even though d/g is a file);
     5. the destination is an ancestor of the source: ENOTEMPTY whatever the source is (sub_e -> dir,
        dir -> root, and d/g -> d for the FILE d/g: the kernel finds the destination on the path to the
        source before it compares types; first modelled as EISDIR, corrected by the recorded table
        kernel_table_rename of FS/OsfsProofs.v);
     6. destination exists: directory source onto a file ENOTDIR ; file source onto a directory
        EISDIR ; onto a non-empty directory ENOTEMPTY ; onto an empty directory / a file: replaced;
     7. otherwise the source is moved; the moved resource keeps its modification time.
   With the trailing slash of "<root>/": file -> root ENOTDIR (not EISDIR), root -> root ok,
   root -> anything else EINVAL (after the destination parent has been resolved).  FS.move is the only
   caller and only ever passes a regular file as the source *)
Definition k_rename (src dst : list str) : K unit :=
  fun t =>
    match src with
    | [] =>
      match dst with
      | [] => inr (t, tt)
      | _ => match k_parent t dst with inl e => inl e | inr _ => inl EINVAL end
      end
    | _ =>
      match k_parent t src with
      | inl e => inl e
      | inr _ =>
        match (match dst with [] => inr tt | _ => k_parent t dst end) with
        | inl e => inl e
        | inr _ =>
          match lookup t src with
          | None => inl ENOENT
          | Some sn =>
            if path_eqb src dst then inr (t, tt)
            else if is_dir sn && list_prefix src dst then inl EINVAL
            else if list_prefix dst src then
              (match dst with
               | [] => if is_dir sn then inl ENOTEMPTY else inl ENOTDIR
               | _ => inl ENOTEMPTY
               end)
            else
              match lookup t dst, sn with
              | Some (File _ _), Dir _ _ => inl ENOTDIR
              | Some (Dir _ _), File _ _ => inl EISDIR
              | Some (Dir (_ :: _) _), Dir _ _ => inl ENOTEMPTY
              | _, _ => inr (del (put t dst sn) src, tt)
              end
          end
        end
      end
    end.

(* truncate(2) is not used by OSFS on paths (only through file objects, which the one-step open model
   does not expose) *)
