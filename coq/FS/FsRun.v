(* Dispatcher for the filesystem-level models. *)
From Coq Require Import List NArith ZArith Bool Arith String.
From PyFS Require Import Base.PyStr Base.Outcome Base.Render FS.Tree FS.Monad FS.Mode FS.Base
     FS.Mem FS.Ops FS.Ref FS.Agree.
Import ListNotations.
Local Open Scope string_scope. Local Open Scope list_scope.

(* per step: does the MemoryFS model agree with the reference started from the same state *)
Fixpoint agree_history (s : node) (ops : list op) : list str :=
  match ops with
  | [] => []
  | o :: r =>
    let obs := mem_run o s in
    r_bool (agree obs (ref_run o s)) :: agree_history (fst obs) r
  end.

Definition run_fs2 (name : str) (args : list str) : str :=
  let ops := decode_ops (S (List.length args)) args in
  if str_eqb name (lit "mem") then sep_by (lit " ") (run_history mem_run empty_dir ops)
  else if str_eqb name (lit "ref") then sep_by (lit " ") (ref_history (Some empty_dir) ops)
  else if str_eqb name (lit "agree_mem") then sep_by (lit " ") (agree_history empty_dir ops)
  else lit "?unknown".
