(* Dispatcher for the filesystem-level models. *)
From Coq Require Import List NArith ZArith Bool Arith String.
From PyFS Require Import Base.PyStr Base.Outcome Base.Render FS.Tree FS.Monad FS.Mode FS.Base
     FS.Mem FS.Ops FS.Ref FS.Agree FS.Props FS.Props2 FS.Wrap FS.ReadOnly FS.Osfs Path.PathSpec.
Import ListNotations.
Local Open Scope string_scope. Local Open Scope list_scope.

(* per step: does the MemoryFS model agree with the reference started from the same state *)
Fixpoint agree_history (s : node) (ops : list op) : list str :=
  match ops with
  | [] => []
  | o :: r =>
    let obs := mem_run o s in
    r_bool (agree obs (ref_run o s)) :: agree_history (fst obs) r
  end.

(* per step of the MemoryFS model: the C05 predicate *)
Fixpoint preserved_history (s : node) (ops : list op) : list str :=
  match ops with
  | [] => []
  | o :: r =>
    let obs := mem_run o s in
    r_bool (negb (is_transfer o) || preserved s (fst obs) o (is_ok (snd obs)))
      :: preserved_history (fst obs) r
  end.

(* predicates applied to observations supplied by the harness:
   <tree before> <tree after> <ok flag> <one call> *)
Definition with_obs (args : list str) (k : node -> node -> bool -> op -> str) : str :=
  match decode_tree (S (List.length args)) args with
  | Some (before, rest) =>
    match decode_tree (S (List.length rest)) rest with
    | Some (after, okf :: rest') =>
      match decode_ops 2 rest' with
      | o :: _ => k before after (tbool okf) o
      | [] => lit "?op"
      end
    | _ => lit "?after"
    end
  | None => lit "?before"
  end.

(* SubFS at [d] over the MemoryFS model vs the reference on the sub-tree, step by step *)
Definition sub_agree (d : list str) (obs : node * outcome value) (r : rstep) (s : node) : bool :=
  res_agree (snd obs) (rs_res r)
  && match rs_tree r with
     | Some t' => tree_eqb true (fst obs) (put s d t')
     | None => true
     end.

Fixpoint sub_agree_history (d : list str) (s : node) (ops : list op) : list str :=
  match ops with
  | [] => []
  | o :: r =>
    let obs := subfs_run (to_path true d) o s in
    let sub := match lookup s d with Some n => n | None => empty_dir end in
    r_bool (sub_agree d obs (ref_run o sub) s) :: sub_agree_history d (fst obs) r
  end.

Fixpoint sub_history (d : list str) (s : node) (ops : list op) : list str :=
  match ops with
  | [] => []
  | o :: r =>
    let '(s', out) := subfs_run (to_path true d) o s in
    (r_outcome r_value out ++ lit "#" ++ r_tree s') :: sub_history d s' r
  end.

Definition sub_start : node :=
  Dir [(lit "top", Dir [(lit "sub", Dir [] None); (lit "canary", File (lit "canary") None)] None)] None.

Definition run_fs2 (name : str) (args : list str) : str :=
  let ops := decode_ops (S (List.length args)) args in
  if str_eqb name (lit "mem") then sep_by (lit " ") (run_history mem_run empty_dir ops)
  (* the OSFS model (FS/Osfs.v over the kernel model FS/Posix.v), history from the empty directory *)
  else if str_eqb name (lit "osfs") then sep_by (lit " ") (run_history osfs_run empty_dir ops)
  else if str_eqb name (lit "ref") then sep_by (lit " ") (ref_history (Some empty_dir) ops)
  else if str_eqb name (lit "agree_mem") then sep_by (lit " ") (agree_history empty_dir ops)
  else if str_eqb name (lit "agree_sub") then
    sep_by (lit " ") (sub_agree_history [lit "top"; lit "sub"] sub_start ops)
  else if str_eqb name (lit "sub") then
    sep_by (lit " ") (sub_history [lit "top"; lit "sub"] sub_start ops)
  else if str_eqb name (lit "mem_preserved") then
    sep_by (lit " ") (preserved_history empty_dir ops)
  else if str_eqb name (lit "preserved") then
    with_obs args (fun b a ok o => r_bool (preserved b a o ok))
  else if str_eqb name (lit "preserved2") then
    with_obs args (fun b a ok o => r_bool (preserved2 b a o ok))
  else if str_eqb name (lit "ro") then
    (* <k> <calls>: the first k calls on the MemoryFS model, the rest through the read-only wrapper model *)
    match args with
    | k :: rest =>
      let ops := decode_ops (S (List.length rest)) rest in
      let n := match k with c :: _ => N.to_nat c | [] => O end in
      let s := fst (run_ops mem_run empty_dir (firstn n ops)) in
      sep_by (lit " ") (run_history ro_mem_run s (skipn n ops))
    | [] => lit "?k"
    end
  else if str_eqb name (lit "refstep") then
    (* reference step from a supplied tree: <tree> <call> *)
    match decode_tree (S (List.length args)) args with
    | Some (t, rest) =>
      match decode_ops 2 rest with
      | o :: _ => r_rstep (ref_run o t)
      | [] => lit "?op"
      end
    | None => lit "?tree"
    end
  else lit "?unknown".
