(* FS-level data round trips on the MemoryFS model: stored data is returned bit-identical by
   every read path (readbytes, open(..,'r').read(), getsize), after every way of storing it
   (writebytes, open(..,'w').write, appendbytes, copy, move), and writing one file leaves the
   bytes of every other file alone.
   Proved directly on the model with the characterising lemmas of FS/RefineLemmas.v; copy and
   move go through the exact-tree theorem of FS/PropsProofs.v (model tree = reference tree). *)
From Coq Require Import List NArith ZArith Bool Arith Lia String.
From PyFS Require Import Base.PyStr Base.Outcome Base.Render Path.PathModel Path.PathSpec Path.PathProofs
     FS.Tree FS.Monad FS.Mode FS.Base FS.Mem FS.Ops FS.Ref FS.Agree FS.Props FS.Wf
     FS.TreeLemmas FS.RefineLemmas FS.RefineProofs FS.PropsProofs.
Import ListNotations.
Local Open Scope list_scope.

(* ------------------------------------------------------------------ *)
(* reading                                                             *)
(* ------------------------------------------------------------------ *)
Lemma run_read_spec p cs s : rpath p = inl cs ->
  mem_run (OReadbytes p) s =
  (s, match cs with
      | [] => Err FileExpected
      | _ => match lookup s cs with
             | Some (File data _) => Ok (VBytes data)
             | Some (Dir _ _) => Err FileExpected
             | None => Err ResourceNotFound
             end
      end).
Proof.
  intro R. cbn [mem_run]. mstep. rewrite (mem_readbytes_spec _ _ s R).
  destruct cs as [|c0 cs0]; [reflexivity|].
  destruct (lookup s (c0 :: cs0)) as [[dt m|en m]|]; reflexivity.
Qed.

Lemma run_read_file p cs s data mt :
  rpath p = inl cs -> cs <> [] -> lookup s cs = Some (File data mt) ->
  mem_run (OReadbytes p) s = (s, Ok (VBytes data)).
Proof.
  intros R Hne L. rewrite (run_read_spec _ _ s R), L.
  destruct cs; [congruence|reflexivity].
Qed.

Lemma run_read_inv p s s1 data :
  mem_run (OReadbytes p) s = (s1, Ok (VBytes data)) ->
  exists cs mt, rpath p = inl cs /\ cs <> [] /\ lookup s cs = Some (File data mt).
Proof.
  destruct (rpath p) as [cs|adm] eqn:R.
  - rewrite (run_read_spec _ _ s R). intro H.
    destruct cs as [|c0 cs0]; [discriminate|].
    destruct (lookup s (c0 :: cs0)) as [[dt m|en m]|] eqn:L; try discriminate.
    inversion H; subst. exists (c0 :: cs0), m. repeat split; [discriminate|exact L].
  - cbn [mem_run]. mstep. rewrite (mem_readbytes_bad _ _ s R). discriminate.
Qed.

(* ------------------------------------------------------------------ *)
(* writing through openbin: where the bytes end up                     *)
(* ------------------------------------------------------------------ *)
(* the contents of an existing file after open(mode); write(d); close *)
Definition written (mode : str) (old d : bytes) : bytes :=
  if m_truncate mode then d
  else Mem.write_at (if m_appending mode then List.length old else 0) old d.

Lemma openwrite_ok_inv p mode d s s' u :
  mode_valid_bin mode = true -> m_writing mode = true ->
  mem_openwrite p mode (Some d) s = (s', Ok u) ->
  exists dd c ents m X,
    rpath p = inl (dd ++ [c]) /\ lookup s dd = Some (Dir ents m) /\
    s' = put s (dd ++ [c]) (File X None) /\
    ((assoc c ents = None /\ X = d) \/
     (exists old mt, assoc c ents = Some (File old mt) /\ X = written mode old d)).
Proof.
  intros V Wm H.
  destruct (rpath p) as [cs|adm] eqn:R.
  2:{ rewrite (mem_openwrite_bad _ _ _ _ s R V) in H. discriminate. }
  destruct (list_snoc_case cs) as [->|[dd [c ->]]].
  { rewrite (mem_openwrite_root _ _ _ s R V) in H. discriminate. }
  rewrite (mem_openwrite_snoc _ _ _ _ _ s R V (or_intror Wm)) in H.
  destruct (lookup s dd) as [[dt m|ents m]|] eqn:L; try discriminate.
  exists dd, c, ents, m.
  destruct (assoc c ents) as [[old mt|en mt]|] eqn:A.
  - destruct (m_create mode && m_exclusive mode); [discriminate|].
    inversion H; subst. exists (written mode old d).
    split; [reflexivity|]. split; [exact L|]. split.
    + unfold ow_state, written. destruct (m_truncate mode); reflexivity.
    + right. eauto.
  - destruct (m_create mode && m_exclusive mode); discriminate.
  - destruct (m_create mode); [|discriminate]. inversion H; subst.
    exists d. split; [reflexivity|]. split; [exact L|]. split; [reflexivity|]. now left.
Qed.

Lemma vmap_ok_inv {A} (f : A -> value) (m : MM A) s s' v :
  vmap f m s = (s', Ok v) -> exists a, m s = (s', Ok a) /\ v = f a.
Proof.
  unfold vmap. mstep. destruct (m s) as [s1 [a|e|k]]; intro H; inversion H; subst. eauto.
Qed.

Lemma write_at_end old d : Mem.write_at (List.length old) old d = old ++ d.
Proof.
  unfold Mem.write_at. rewrite firstn_all, skipn_all2 by lia. now rewrite app_nil_r.
Qed.

(* the target of a successful write is a fresh name or an existing file *)
Lemma target_none_or_file s dd c ents m :
  lookup s dd = Some (Dir ents m) ->
  (assoc c ents = None \/ exists old mt, assoc c ents = Some (File old mt)) ->
  lookup s (dd ++ [c]) = None \/ exists d2 m2, lookup s (dd ++ [c]) = Some (File d2 m2).
Proof. intros L H. rewrite lookup_snoc, L. exact H. Qed.

Lemma m_w_valid : mode_valid_bin (lit "w") = true. Proof. reflexivity. Qed.
Lemma m_r_valid : mode_valid_bin (lit "r") = true. Proof. reflexivity. Qed.

(* ------------------------------------------------------------------ *)
(* what was written is what is read                                    *)
(* ------------------------------------------------------------------ *)
Lemma truncating_write_then_read p mode d s s' u :
  mode_valid_bin mode = true -> m_writing mode = true -> m_truncate mode = true ->
  mem_openwrite p mode (Some d) s = (s', Ok u) ->
  mem_run (OReadbytes p) s' = (s', Ok (VBytes d)).
Proof.
  intros V Wm T H.
  destruct (openwrite_ok_inv _ _ _ _ _ _ V Wm H) as (dd & c & ents & m & X & R & L & -> & HX).
  assert (X = d) as ->.
  { destruct HX as [[_ E]|(old & mt & _ & E)]; [exact E|]. unfold written in E. now rewrite T in E. }
  apply (run_read_file p (dd ++ [c]) _ d None R (snoc_ne' dd c)).
  eapply lookup_put_same; eauto.
Qed.

Theorem write_then_read : forall p d s s' v,
  wf s -> mem_run (OWritebytes p d) s = (s', Ok v) ->
  mem_run (OReadbytes p) s' = (s', Ok (VBytes d)).
Proof.
  intros p d s s' v _ H. cbn [mem_run] in H. apply vmap_ok_inv in H as (u & H & _).
  exact (truncating_write_then_read p m_wb d s s' u m_wb_valid eq_refl eq_refl H).
Qed.
Print Assumptions write_then_read.

Theorem openwrite_then_read : forall p d s s' v,
  wf s -> mem_run (OOpenwrite p (lit "w") d) s = (s', Ok v) ->
  mem_run (OReadbytes p) s' = (s', Ok (VBytes d)).
Proof.
  intros p d s s' v _ H. cbn [mem_run] in H. apply vmap_ok_inv in H as (u & H & _).
  change (m_writing (lit "w")) with true in H. cbv iota in H.
  exact (truncating_write_then_read p (lit "w") d s s' u m_w_valid eq_refl eq_refl H).
Qed.
Print Assumptions openwrite_then_read.

Theorem append_then_read : forall p d old s s' v,
  wf s -> mem_run (OReadbytes p) s = (s, Ok (VBytes old)) ->
  mem_run (OAppendbytes p d) s = (s', Ok v) ->
  mem_run (OReadbytes p) s' = (s', Ok (VBytes (old ++ d))).
Proof.
  intros p d old s s' v _ Hr H. cbn [mem_run] in H. apply vmap_ok_inv in H as (u & H & _).
  destruct (openwrite_ok_inv p m_ab d s s' u m_ab_valid eq_refl H)
    as (dd & c & ents & m & X & R & L & -> & HX).
  destruct (run_read_inv _ _ _ _ Hr) as (cs & mt & R' & _ & Lf).
  rewrite R in R'. inversion R'; subst cs. clear R'.
  rewrite lookup_snoc, L in Lf.
  assert (X = old ++ d) as ->.
  { destruct HX as [[A _]|(old' & mt' & A & E)]; [congruence|].
    rewrite Lf in A. inversion A; subst old' mt'. subst X.
    unfold written. change (m_truncate m_ab) with false. change (m_appending m_ab) with true.
    cbv iota. apply write_at_end. }
  apply (run_read_file p (dd ++ [c]) _ (old ++ d) None R (snoc_ne' dd c)).
  eapply lookup_put_same; eauto.
Qed.
Print Assumptions append_then_read.

Theorem append_new_then_read : forall p d s s' v,
  wf s -> mem_run (OExists p) s = (s, Ok (VBool false)) ->
  mem_run (OAppendbytes p d) s = (s', Ok v) ->
  mem_run (OReadbytes p) s' = (s', Ok (VBytes d)).
Proof.
  intros p d s s' v _ He H. cbn [mem_run] in H. apply vmap_ok_inv in H as (u & H & _).
  destruct (openwrite_ok_inv p m_ab d s s' u m_ab_valid eq_refl H)
    as (dd & c & ents & m & X & R & L & -> & HX).
  cbn [mem_run] in He. apply vmap_ok_inv in He as (b & He & Eb).
  unfold mem_exists in He. rewrite (mem_exists_spec _ _ s R), lookup_snoc, L in He.
  assert (X = d) as ->.
  { destruct HX as [[_ E]|(old & mt & A & _)]; [exact E|].
    rewrite A in He. inversion He; subst b. discriminate Eb. }
  apply (run_read_file p (dd ++ [c]) _ d None R (snoc_ne' dd c)).
  eapply lookup_put_same; eauto.
Qed.
Print Assumptions append_new_then_read.

(* ------------------------------------------------------------------ *)
(* copy / move                                                         *)
(* ------------------------------------------------------------------ *)
Lemma agree_ok_inv v r : res_agree (Ok v) r = true -> (exists w, r = ROk w) \/ r = RAny.
Proof. destruct r; simpl; intro H; try discriminate; eauto. Qed.

(* a successful copy: the tree afterwards *)
Lemma copy_ok_inv a b ow pt s s' v :
  wf s -> mem_run (OCopy a b ow pt) s = (s', Ok v) ->
  exists ca cb data mt dmt dd dc ents m,
    rpath a = inl ca /\ rpath b = inl cb /\ ca <> cb /\
    lookup s ca = Some (File data mt) /\ s' = put s cb (File data dmt) /\
    (lookup s cb = None \/ exists d2 m2, lookup s cb = Some (File d2 m2)) /\
    cb = dd ++ [dc] /\ lookup s dd = Some (Dir ents m).
Proof.
  intros W H. destruct (sstep_copy a b ow pt s W) as [[A T] _].
  rewrite H in A, T. cbn [fst snd] in A, T. cbn [ref_run] in A, T. unfold with2 in A, T.
  destruct (rpath a) as [ca|e1] eqn:Ra; destruct (rpath b) as [cb|e2] eqn:Rb;
    try discriminate A.
  unfold ref_copy in A, T.
  destruct (transfer_errors s ca cb ow ++ (if path_eqb ca cb then [IllegalDestination] else []))
    as [|e0 es] eqn:TE0; [|discriminate A].
  apply app_eq_nil in TE0 as [TE E].
  destruct (path_eqb ca cb) eqn:E'; [discriminate E|].
  destruct (transfer_ok s ca cb ow W TE) as ((data & mt & La) & Lb & (dd & dc & ents & m & Eb & Ld)).
  rewrite La in T. cbn [rs_tree] in T. inversion T as [T']. clear T.
  exists ca, cb, data, mt. eexists. exists dd, dc, ents, m.
  split; [reflexivity|]. split; [reflexivity|]. split.
  { intro X. subst. now rewrite path_eqb_refl in E'. }
  split; [exact La|]. split; [reflexivity|]. split; [|split; assumption].
  destruct Lb as [Lb|[_ Lb]]; auto.
Qed.

Theorem copy_then_read : forall a b ow pt data s s' v,
  wf s -> mem_run (OReadbytes a) s = (s, Ok (VBytes data)) ->
  mem_run (OCopy a b ow pt) s = (s', Ok v) ->
  mem_run (OReadbytes b) s' = (s', Ok (VBytes data)) /\
  mem_run (OReadbytes a) s' = (s', Ok (VBytes data)).
Proof.
  intros a b ow pt data s s' v W Hr H.
  destruct (copy_ok_inv _ _ _ _ _ _ _ W H)
    as (ca & cb & data' & mt & dmt & dd & dc & ents & m & Ra & Rb & Hab & La & -> & Lb & -> & Ld).
  destruct (run_read_inv _ _ _ _ Hr) as (cs & mt0 & R' & Hne & Lf).
  rewrite Ra in R'. inversion R'; subst cs. clear R'.
  rewrite La in Lf. inversion Lf; subst data' mt0. clear Lf.
  split.
  - apply (run_read_file b (dd ++ [dc]) _ data dmt Rb (snoc_ne' dd dc)).
    eapply lookup_put_same; eauto.
  - apply (run_read_file a ca _ data mt Ra Hne).
    apply lookup_put_file; assumption.
Qed.
Print Assumptions copy_then_read.

(* a successful move: either source and destination are the same resource and nothing
   changes, or the file is re-attached under the destination and the source deleted *)
Lemma move_ok_inv a b ow pt s s' v :
  wf s -> mem_run (OMove a b ow pt) s = (s', Ok v) ->
  exists ca cb data mt,
    rpath a = inl ca /\ rpath b = inl cb /\ lookup s ca = Some (File data mt) /\
    ((ca = cb /\ s' = s) \/
     (ca <> cb /\ s' = del (put s cb (File data mt)) ca /\
      (lookup s cb = None \/ exists d2 m2, lookup s cb = Some (File d2 m2)) /\
      exists dd dc ents m, cb = dd ++ [dc] /\ lookup s dd = Some (Dir ents m))).
Proof.
  intros W H. destruct (sstep_move a b ow pt s W) as [[A T] _].
  rewrite H in A, T. cbn [fst snd] in A, T. cbn [ref_run] in A, T. unfold with2 in A, T.
  destruct (rpath a) as [ca|e1] eqn:Ra; destruct (rpath b) as [cb|e2] eqn:Rb;
    try discriminate A.
  unfold ref_move in A, T.
  destruct (transfer_errors s ca cb ow) as [|e0 es] eqn:TE; [|discriminate A].
  destruct (transfer_ok s ca cb ow W TE) as ((data & mt & La) & Lb & (dd & dc & ents & m & Eb & Ld)).
  exists ca, cb, data, mt. split; [reflexivity|]. split; [reflexivity|]. split; [exact La|].
  destruct (path_eqb ca cb) eqn:E.
  - left. apply path_eqb_eq in E. cbn [same rs_tree] in T. inversion T. auto.
  - right. rewrite La in T. cbn [rs_tree] in T. inversion T as [T']. clear T.
    split. { intro X. subst. now rewrite path_eqb_refl in E. }
    split; [reflexivity|]. split; [|eauto 6].
    destruct Lb as [Lb|[_ Lb]]; auto.
Qed.

(* holds also when source and destination are the same resource: MemoryFS.move(a, a,
   overwrite=True) succeeds without touching the tree *)
Theorem move_then_read : forall a b ow pt data s s' v,
  wf s -> mem_run (OReadbytes a) s = (s, Ok (VBytes data)) ->
  mem_run (OMove a b ow pt) s = (s', Ok v) ->
  mem_run (OReadbytes b) s' = (s', Ok (VBytes data)).
Proof.
  intros a b ow pt data s s' v W Hr H.
  destruct (move_ok_inv _ _ _ _ _ _ _ W H) as (ca & cb & data' & mt & Ra & Rb & La & Hc).
  destruct (run_read_inv _ _ _ _ Hr) as (cs & mt0 & R' & Hne & Lf).
  rewrite Ra in R'. inversion R'; subst cs. clear R'.
  rewrite La in Lf. inversion Lf; subst data' mt0. clear Lf.
  destruct Hc as [[-> ->]|(Hab & -> & Lb & (dd & dc & ents & m & -> & Ld))].
  - exact (run_read_file b cb s data mt Rb Hne La).
  - set (t := put s (dd ++ [dc]) (File data mt)).
    assert (Pa : lookup t ca = Some (File data mt)) by (apply lookup_put_file; assumption).
    assert (Pb : lookup t (dd ++ [dc]) = Some (File data mt))
      by (eapply lookup_put_same; eauto).
    apply (run_read_file b (dd ++ [dc]) _ data mt Rb (snoc_ne' dd dc)).
    apply lookup_del_file; [exact Pb|]. eapply file_no_prefix; eauto.
Qed.
Print Assumptions move_then_read.

(* ------------------------------------------------------------------ *)
(* the read paths agree                                                *)
(* ------------------------------------------------------------------ *)
Theorem read_paths_agree : forall p data s,
  wf s -> mem_run (OReadbytes p) s = (s, Ok (VBytes data)) ->
  mem_run (OGetsize p) s = (s, Ok (VNat (List.length data))) /\
  mem_run (OOpenread p (lit "r")) s = (s, Ok (VBytes data)) /\
  mem_run (OIsfile p) s = (s, Ok (VBool true)).
Proof.
  intros p data s _ Hr.
  destruct (run_read_inv _ _ _ _ Hr) as (cs & mt & R & Hne & Lf).
  split; [|split].
  - cbn [mem_run]. mstep. rewrite (mem_getsize_spec _ _ s R), Lf. reflexivity.
  - destruct (list_snoc_case cs) as [->|[dd [c ->]]]; [congruence|].
    rewrite lookup_snoc in Lf.
    destruct (lookup s dd) as [[dt m|ents m]|] eqn:L; try discriminate Lf.
    cbn [mem_run]. mstep. rewrite (mem_open_snoc _ _ _ _ s R m_r_valid), L, Lf.
    change (m_create (lit "r") && m_exclusive (lit "r")) with false. cbv iota.
    change (open_init (lit "r") (dd ++ [c]) data mt s)
      with (s, @Ok (list str * nat) (dd ++ [c], 0)).
    change (m_reading (lit "r")) with true. cbv iota. cbn [fst snd].
    rewrite lookup_snoc, L, Lf. reflexivity.
  - cbn [mem_run]. mstep. rewrite (mem_isfile_spec _ _ s R), Lf. reflexivity.
Qed.
Print Assumptions read_paths_agree.

(* ------------------------------------------------------------------ *)
(* frame: writing one file does not change the bytes of another        *)
(* ------------------------------------------------------------------ *)
Theorem write_frame : forall p q d data s s' v cp cq,
  wf s -> rpath p = inl cp -> rpath q = inl cq -> cp <> cq ->
  mem_run (OReadbytes q) s = (s, Ok (VBytes data)) ->
  mem_run (OWritebytes p d) s = (s', Ok v) ->
  mem_run (OReadbytes q) s' = (s', Ok (VBytes data)).
Proof.
  intros p q d data s s' v cp cq _ Rp Rq Hne Hr H.
  cbn [mem_run] in H. apply vmap_ok_inv in H as (u & H & _).
  destruct (openwrite_ok_inv p m_wb d s s' u m_wb_valid eq_refl H)
    as (dd & c & ents & m & X & R & L & -> & HX).
  rewrite Rp in R. inversion R; subst cp. clear R.
  destruct (run_read_inv _ _ _ _ Hr) as (cs & mt & R' & Hq & Lf).
  rewrite Rq in R'. inversion R'; subst cs. clear R'.
  apply (run_read_file q cq _ data mt Rq Hq).
  apply lookup_put_file; [exact Lf|congruence|].
  apply (target_none_or_file s dd c ents m L).
  destruct HX as [[A _]|(old & mt' & A & _)]; eauto.
Qed.
Print Assumptions write_frame.

(* ------------------------------------------------------------------ *)
(* the hypotheses are satisfiable: one concrete instance per family    *)
(* ------------------------------------------------------------------ *)
Definition e_a : str := [97%N].                       (* "a"    *)
Definition e_b : str := [98%N].                       (* "b"    *)
Definition e_d : str := [100%N].                      (* "d"    *)
Definition e_db : str := [100; 47; 98]%N.             (* "d/b"  *)
Definition e_a2 : str := [47; 100; 47; 46; 46; 47; 97]%N.   (* "/d/../a": another spelling of a *)
Definition e_s0 : node :=
  Dir [(e_a, File [1; 2; 3]%N (Some 5%Z)); (e_d, Dir [] (Some 6%Z))] None.

Lemma e_good c : goodb c = true -> good c.
Proof.
  unfold goodb, good. intro H.
  apply andb_true_iff in H as [H H4]. apply andb_true_iff in H as [H H3].
  apply andb_true_iff in H as [H1 H2].
  repeat split.
  - intro X. subst. discriminate H1.
  - intro X. subst. discriminate H2.
  - intro X. subst. discriminate H3.
  - now apply negb_true_iff in H4.
Qed.

Example e_s0_wf : wf e_s0.
Proof.
  split; [reflexivity|]. apply wf_node_dir. cbn [keys map fst e_s0]. repeat split.
  - repeat constructor; simpl; intuition discriminate.
  - repeat constructor; apply e_good; reflexivity.
  - repeat constructor; simpl; repeat split; constructor.
Qed.

(* write / open('w') *)
Example write_then_read_ex :
  mem_run (OWritebytes e_db [7; 8]%N) e_s0 =
    (Dir [(e_a, File [1; 2; 3]%N (Some 5%Z)); (e_d, Dir [(e_b, File [7; 8]%N None)] (Some 6%Z))] None,
     Ok VUnit)
  /\ mem_run (OOpenwrite e_a (lit "w") [9%N]) e_s0 =
    (Dir [(e_a, File [9%N] None); (e_d, Dir [] (Some 6%Z))] None, Ok VUnit).
Proof. split; vm_compute; reflexivity. Qed.

(* append to an existing file, and to a new one *)
Example append_then_read_ex :
  mem_run (OReadbytes e_a) e_s0 = (e_s0, Ok (VBytes [1; 2; 3]%N))
  /\ mem_run (OAppendbytes e_a [4%N]) e_s0 =
     (Dir [(e_a, File [1; 2; 3; 4]%N None); (e_d, Dir [] (Some 6%Z))] None, Ok VUnit)
  /\ mem_run (OExists e_b) e_s0 = (e_s0, Ok (VBool false))
  /\ mem_run (OAppendbytes e_b [4%N]) e_s0 =
     (Dir [(e_a, File [1; 2; 3]%N (Some 5%Z)); (e_d, Dir [] (Some 6%Z)); (e_b, File [4%N] None)] None,
      Ok VUnit).
Proof. repeat split; vm_compute; reflexivity. Qed.

(* copy / move, and move onto the same resource under another spelling *)
Example copy_move_then_read_ex :
  mem_run (OCopy e_a e_db false true) e_s0 =
    (Dir [(e_a, File [1; 2; 3]%N (Some 5%Z));
          (e_d, Dir [(e_b, File [1; 2; 3]%N (Some 5%Z))] (Some 6%Z))] None, Ok VUnit)
  /\ mem_run (OMove e_a e_db false false) e_s0 =
    (Dir [(e_d, Dir [(e_b, File [1; 2; 3]%N (Some 5%Z))] (Some 6%Z))] None, Ok VUnit)
  /\ mem_run (OMove e_a e_a2 true false) e_s0 = (e_s0, Ok VUnit)
  /\ mem_run (OCopy e_a e_a2 true false) e_s0 = (e_s0, Err IllegalDestination).
Proof. repeat split; vm_compute; reflexivity. Qed.

(* the read paths *)
Example read_paths_agree_ex :
  mem_run (OReadbytes e_a) e_s0 = (e_s0, Ok (VBytes [1; 2; 3]%N))
  /\ mem_run (OGetsize e_a) e_s0 = (e_s0, Ok (VNat 3))
  /\ mem_run (OOpenread e_a (lit "r")) e_s0 = (e_s0, Ok (VBytes [1; 2; 3]%N))
  /\ mem_run (OIsfile e_a) e_s0 = (e_s0, Ok (VBool true)).
Proof. repeat split; vm_compute; reflexivity. Qed.

(* frame *)
Example write_frame_ex :
  rpath e_db = inl [e_d; e_b] /\ rpath e_a = inl [e_a] /\ [e_d; e_b] <> [e_a]
  /\ mem_run (OReadbytes e_a) e_s0 = (e_s0, Ok (VBytes [1; 2; 3]%N))
  /\ snd (mem_run (OWritebytes e_db [7; 8]%N) e_s0) = Ok VUnit.
Proof. repeat split; try (vm_compute; reflexivity). discriminate. Qed.

(* the theorems applied to the instances *)
Example round_trip_applied :
  (forall s', fst (mem_run (OWritebytes e_db [7; 8]%N) e_s0) = s' ->
              mem_run (OReadbytes e_db) s' = (s', Ok (VBytes [7; 8]%N)))
  /\ (forall s', fst (mem_run (OWritebytes e_db [7; 8]%N) e_s0) = s' ->
                 mem_run (OReadbytes e_a) s' = (s', Ok (VBytes [1; 2; 3]%N))).
Proof.
  split; intros s' E.
  - apply (write_then_read e_db [7; 8]%N e_s0 s' VUnit e_s0_wf).
    rewrite <- E. vm_compute. reflexivity.
  - apply (write_frame e_db e_a [7; 8]%N [1; 2; 3]%N e_s0 s' VUnit [e_d; e_b] [e_a] e_s0_wf).
    + vm_compute. reflexivity.
    + vm_compute. reflexivity.
    + discriminate.
    + vm_compute. reflexivity.
    + rewrite <- E. vm_compute. reflexivity.
Qed.
