(* State + outcome monad used by the filesystem models: a method is S -> S * outcome A.
   A failing method returns the state it reached (partial effects are visible). *)
From Coq Require Import List Bool.
From PyFS Require Import Base.Outcome.
Import ListNotations.

Definition M (S A : Type) := S -> S * outcome A.

Definition ret {S A} (a : A) : M S A := fun s => (s, Ok a).
Definition mbind {S A B} (m : M S A) (f : A -> M S B) : M S B :=
  fun s => match m s with
           | (s', Ok a) => f a s'
           | (s', Err e) => (s', Err e)
           | (s', Crash k) => (s', Crash k)
           end.
Definition raise {S A} (e : ecls) : M S A := fun s => (s, Err e).
Definition crash {S A} (k : crash) : M S A := fun s => (s, Crash k).
Definition lift {S A} (o : outcome A) : M S A := fun s => (s, o).
Definition get {S} : M S S := fun s => (s, Ok s).
Definition modify {S} (f : S -> S) : M S unit := fun s => (f s, Ok tt).

(* try: m  except e: h *)
Definition catch {S A} (m : M S A) (e : ecls) (h : M S A) : M S A :=
  fun s => match m s with
           | (s', Err e') => if ecls_eqb e e' then h s' else (s', Err e')
           | r => r
           end.

(* try: m  finally: f   (f cannot fail in the uses made of it) *)
Definition mseq {S A} (m : M S unit) (k : M S A) : M S A := mbind m (fun _ => k).

Declare Scope monad_scope.
Notation "x <- m ;; k" := (mbind m (fun x => k))
  (at level 61, m at next level, right associativity) : monad_scope.
Notation "m ;;; k" := (mseq m k) (at level 61, right associativity) : monad_scope.

Fixpoint mfor {S A} (l : list A) (f : A -> M S unit) : M S unit :=
  match l with
  | [] => ret tt
  | x :: r => mbind (f x) (fun _ => mfor r f)
  end.
