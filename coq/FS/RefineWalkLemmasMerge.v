(* Shallow content of the reference results for directory transfers: fresh / merge_node. *)
From Coq Require Import List NArith ZArith Bool Arith Lia.
From PyFS Require Import Base.PyStr Base.Outcome Path.PathSpec
     FS.Tree FS.Mode FS.Base FS.Ops FS.Ref FS.Agree FS.Wf FS.TreeLemmas
     FS.RefineWalkLemmasEq.
Import ListNotations.

Definition isD (t : node) (p : list str) : Prop := exists m, shl t p = Some (SD m).
Definition isF (t : node) (p : list str) : Prop := exists d m, shl t p = Some (SF d m).

Section Merge.
  Variable pt : bool.

  (* ---------------------------------------------------------------- *)
  (* fresh                                                             *)
  (* ---------------------------------------------------------------- *)
  Definition fmap (ents : list (str * node)) : list (str * node) :=
    map (fun kc => (fst kc, fresh pt (snd kc))) ents.

  Lemma fresh_dir ents mt : fresh pt (Dir ents mt) = Dir (fmap ents) None.
  Proof.
    simpl. f_equal. unfold fmap. induction ents as [|[k c] r IH]; [reflexivity|].
    simpl. now rewrite IH.
  Qed.

  Lemma keys_fmap ents : keys (fmap ents) = keys ents.
  Proof. unfold fmap, keys. rewrite map_map. reflexivity. Qed.

  Lemma assoc_fmap k ents : assoc k (fmap ents) = option_map (fresh pt) (assoc k ents).
  Proof.
    induction ents as [|[k0 n0] r IH]; [reflexivity|]. simpl.
    destruct (str_eqb k k0); [reflexivity|exact IH].
  Qed.

  Lemma wf_fresh : forall c, wf_node c -> wf_node (fresh pt c).
  Proof.
    induction c as [d m|ents m IH] using node_ind'; intro W; [exact I|].
    rewrite fresh_dir. apply wf_node_dir in W as (N & G & F). apply wf_node_dir.
    rewrite keys_fmap. split; [exact N|]. split; [exact G|].
    unfold fmap. rewrite Forall_map. rewrite Forall_forall in *.
    intros x Hx. cbn [snd]. apply IH; auto.
  Qed.

  Lemma lookup_fresh r : forall c, lookup (fresh pt c) r = option_map (fresh pt) (lookup c r).
  Proof.
    induction r as [|k r IH]; intro c; [reflexivity|].
    destruct c as [d m|ents m]; [reflexivity|].
    rewrite fresh_dir. simpl. rewrite assoc_fmap.
    destruct (assoc k ents) as [ch|]; [apply IH|reflexivity].
  Qed.

  Lemma shl_fresh c r :
    shl (fresh pt c) r =
    match lookup c r with
    | Some (File d m) => Some (SF d (if pt then m else None))
    | Some (Dir _ _) => Some (SD None)
    | None => None
    end.
  Proof.
    unfold shl. rewrite lookup_fresh. destruct (lookup c r) as [[d m|e m]|]; reflexivity.
  Qed.

  (* ---------------------------------------------------------------- *)
  (* merge_node                                                        *)
  (* ---------------------------------------------------------------- *)
  Definition mgo (f : nat) (dmt : option Z)
    : list (str * node) -> list (str * node) -> option node :=
    fix go (l : list (str * node)) (acc : list (str * node)) : option node :=
      match l with
      | [] => Some (Dir acc dmt)
      | (k, n) :: r =>
        match assoc k acc, n with
        | None, _ => go r (assoc_set k (if pt then n else n) acc)
        | Some (Dir _ _ as d'), Dir _ _ =>
          match merge_node f pt d' n with
          | Some m => go r (assoc_set k m acc)
          | None => None
          end
        | Some (File _ omt), File data mt =>
          go r (assoc_set k (File data (if pt then mt else
                                          match data with [] => omt | _ => None end)) acc)
        | _, _ => None
        end
      end.

  Lemma merge_node_S f dents dmt sents sm :
    merge_node (S f) pt (Dir dents dmt) (Dir sents sm) = mgo f dmt sents dents.
  Proof. reflexivity. Qed.

  Definition mrg1 (f : nat) (o : option node) (n' : node) : option node :=
    match o, n' with
    | None, _ => Some n'
    | Some (Dir _ _ as d'), Dir _ _ => merge_node f pt d' n'
    | Some (File _ omt), File data mt =>
      Some (File data (if pt then mt else match data with [] => omt | _ => None end))
    | _, _ => None
    end.

  Lemma mgo_cons f dmt k n r acc :
    mgo f dmt ((k, n) :: r) acc =
    match mrg1 f (assoc k acc) n with
    | Some v => mgo f dmt r (assoc_set k v acc)
    | None => None
    end.
  Proof.
    cbn [mgo]. unfold mrg1.
    destruct (assoc k acc) as [[d0 m0|e0 m0]|]; destruct n as [d1 m1|e1 m1]; try reflexivity;
      try (destruct pt; reflexivity).
  Qed.

  Definition okopt (o : option node) : Prop :=
    match o with None => True | Some x => wf_node x end.

  Lemma mgo_spec f dmt l : NoDup (keys l) -> Forall good (keys l) ->
    (forall k n' o v, In (k, n') l -> okopt o -> mrg1 f o n' = Some v -> wf_node v) ->
    forall acc, wf_node (Dir acc dmt) ->
    (exists accF,
        mgo f dmt l acc = Some (Dir accF dmt) /\ wf_node (Dir accF dmt) /\
        (forall k, assoc k accF =
                   match assoc k l with
                   | Some n' => mrg1 f (assoc k acc) n'
                   | None => assoc k acc
                   end) /\
        (forall k n', assoc k l = Some n' -> mrg1 f (assoc k acc) n' <> None))
    \/ (mgo f dmt l acc = None /\
        exists k n', assoc k l = Some n' /\ mrg1 f (assoc k acc) n' = None).
  Proof.
    induction l as [|[k n'] r IH]; intros N G Hv acc Wa.
    - left. exists acc. split; [reflexivity|]. split; [exact Wa|]. split; [reflexivity|].
      intros k n' H. discriminate.
    - inversion N as [|? ? Nk Nr]; subst. inversion G as [|? ? Gk Gr]; subst.
      rewrite mgo_cons.
      assert (Ak : assoc k r = None).
      { destruct (assoc k r) eqn:E; [|reflexivity]. apply assoc_some_in in E. contradiction. }
      destruct (mrg1 f (assoc k acc) n') as [v|] eqn:E1.
      + assert (Wv : wf_node v).
        { eapply (Hv k n' (assoc k acc) v); [now left| |exact E1].
          destruct (assoc k acc) eqn:Ea; [|exact I]. simpl. eapply wf_assoc; eauto. }
        assert (Wa' : wf_node (Dir (assoc_set k v acc) dmt)) by (apply wf_assoc_set; auto).
        destruct (IH Nr Gr (fun k0 n0 o v0 Hi => Hv k0 n0 o v0 (or_intror Hi))
                     (assoc_set k v acc) Wa')
          as [(accF & H1 & H2 & H3 & H4)|(H1 & k0 & n0 & H2 & H3)].
        * left. exists accF. split; [exact H1|]. split; [exact H2|]. split.
          -- intro k0. rewrite H3. simpl. destruct (str_eqb k0 k) eqn:E.
             ++ apply str_eqb_eq in E. subst k0. rewrite Ak, assoc_set_same. now rewrite E1.
             ++ apply str_eqb_neq in E. rewrite assoc_set_other by assumption. reflexivity.
          -- intros k0 n0 H0. simpl in H0. destruct (str_eqb k0 k) eqn:E.
             ++ apply str_eqb_eq in E. subst k0. inversion H0; subst. congruence.
             ++ apply str_eqb_neq in E. specialize (H4 k0 n0 H0).
                rewrite assoc_set_other in H4 by assumption. exact H4.
        * right. split; [exact H1|]. exists k0, n0.
          assert (E : k0 <> k) by (intro; subst; congruence).
          split.
          -- simpl. apply str_eqb_neq in E. now rewrite E.
          -- rewrite assoc_set_other in H3 by assumption. exact H3.
      + right. split; [reflexivity|]. exists k, n'. split; [|exact E1].
        simpl. now rewrite str_eqb_refl.
  Qed.

  (* the shallow content of the merge of S into D *)
  Definition mval (D S : node) (r : list str) : option shv :=
    match lookup S r with
    | Some (File d m) =>
      Some (SF d (if pt then m else
                    match d, shl D r with [], Some (SF _ om) => om | _, _ => None end))
    | Some (Dir _ _) => match shl D r with Some v => Some v | None => Some (SD None) end
    | None => shl D r
    end.

  Definition confl (D S : node) (r : list str) : Prop :=
    r <> [] /\
    (((exists e m, lookup S r = Some (Dir e m)) /\ isF D r) \/
     ((exists d m, lookup S r = Some (File d m)) /\ isD D r)).

  Lemma tree_size_child k c ents m : In (k, c) ents -> tree_size c < tree_size (Dir ents m).
  Proof.
    intro H. simpl. induction ents as [|[k0 c0] r IH]; [contradiction|].
    destruct H as [H|H].
    - inversion H; subst. lia.
    - specialize (IH H). lia.
  Qed.

  Theorem merge_spec : forall fuel D S,
    tree_size S < fuel -> wf_node D -> wf_node S -> is_dir D = true -> is_dir S = true ->
    (exists M, merge_node fuel pt D (fresh pt S) = Some M /\ wf_node M /\
               (forall r, shl M r = mval D S r) /\ (forall r, ~ confl D S r))
    \/ (merge_node fuel pt D (fresh pt S) = None /\ exists r, confl D S r).
  Proof.
    induction fuel as [|f IH]; intros D S Hf WD WS DD DS; [lia|].
    destruct D as [|dents dmt]; [discriminate|]. destruct S as [|sents sm]; [discriminate|].
    rewrite fresh_dir, merge_node_S.
    pose proof WS as WS'. apply wf_node_dir in WS' as (NS & GS & FS).
    (* one entry *)
    assert (Hent : forall k c, assoc k sents = Some c ->
      (exists v, mrg1 f (assoc k dents) (fresh pt c) = Some v /\ wf_node v /\
                 (forall r', shl v r' = mval (Dir dents dmt) (Dir sents sm) (k :: r')) /\
                 (forall r', ~ confl (Dir dents dmt) (Dir sents sm) (k :: r')))
      \/ (mrg1 f (assoc k dents) (fresh pt c) = None /\
          exists r', confl (Dir dents dmt) (Dir sents sm) (k :: r'))).
    { intros k c Ac.
      assert (Wc : wf_node c) by exact (wf_assoc _ _ _ _ WS Ac).
      assert (Sc : tree_size c < f).
      { pose proof (tree_size_child k c sents sm (assoc_some_In _ _ _ Ac)). lia. }
      unfold mval, confl, isF, isD, shl. simpl lookup. rewrite Ac.
      destruct (assoc k dents) as [[d0 omt|e0 m0]|] eqn:Ad.
      - (* a file at the destination *)
        destruct c as [data mt|ec mc].
        + left. simpl fresh. cbn [mrg1]. eexists. split; [reflexivity|]. split; [exact I|]. split.
          * intros [|k2 r']; simpl; [|reflexivity]. destruct pt; reflexivity.
          * intros r' [_ [[(e & m & H) _]|[_ (m & H)]]].
            -- destruct r'; simpl in H; discriminate.
            -- destruct r'; simpl in H; discriminate.
        + right. rewrite fresh_dir. cbn [mrg1]. split; [reflexivity|]. exists [].
          split; [discriminate|]. left. simpl. split; eauto.
      - (* a directory at the destination *)
        destruct c as [data mt|ec mc].
        + right. simpl fresh. cbn [mrg1]. split; [reflexivity|]. exists [].
          split; [discriminate|]. right. simpl. split; eauto.
        + assert (Wd : wf_node (Dir e0 m0)) by exact (wf_assoc _ _ _ _ WD Ad).
          destruct (IH (Dir e0 m0) (Dir ec mc) Sc Wd Wc eq_refl eq_refl)
            as [(M & H1 & H2 & H3 & H4)|(H1 & r' & H2)].
          * left. exists M. rewrite fresh_dir in *. cbn [mrg1]. split; [exact H1|].
            split; [exact H2|]. split.
            -- intro r'. fold (shl M r'). rewrite H3. unfold mval, shl. reflexivity.
            -- intros r' [_ Hc]. destruct r' as [|k2 r2].
               ++ simpl in Hc. destruct Hc as [[_ (d & m & H)]|[(d & m & H) _]]; discriminate.
               ++ apply (H4 (k2 :: r2)). split; [discriminate|]. exact Hc.
          * right. rewrite fresh_dir in *. cbn [mrg1]. split; [exact H1|].
            exists r'. destruct H2 as [Nr Hc]. split; [discriminate|]. exact Hc.
      - (* nothing at the destination *)
        left. exists (fresh pt c). split; [reflexivity|]. split; [now apply wf_fresh|]. split.
        + intro r'. fold (shl (fresh pt c) r'). rewrite shl_fresh.
          destruct (lookup c r') as [[d m|e m]|]; try reflexivity.
          destruct pt; [reflexivity|]. destruct d; reflexivity.
        + intros r' [_ [[_ (d & m & H)]|[_ (m & H)]]]; discriminate. }
    assert (Hv : forall k n' o v, In (k, n') (fmap sents) -> okopt o -> mrg1 f o n' = Some v -> wf_node v).
    { intros k n' o v Hi Ho Hm. unfold fmap in Hi. apply in_map_iff in Hi as ([k0 c] & E & Hi).
      inversion E; subst k n'. cbn [fst snd] in *.
      assert (Wc : wf_node c).
      { rewrite Forall_forall in FS. apply (FS (k0, c) Hi). }
      assert (Sc : tree_size c < f).
      { pose proof (tree_size_child k0 c sents sm Hi). lia. }
      destruct o as [[d0 omt|e0 m0]|]; cbn [mrg1] in Hm.
      - destruct c; simpl in Hm; [inversion Hm; exact I|discriminate].
      - destruct c as [|ec mc]; [simpl in Hm; discriminate|].
        rewrite fresh_dir in Hm. cbn [mrg1] in Hm.
        destruct (IH (Dir e0 m0) (Dir ec mc) Sc Ho Wc eq_refl eq_refl)
          as [(M & H1 & H2 & _)|(H1 & _)]; rewrite fresh_dir in H1; congruence.
      - inversion Hm; subst. now apply wf_fresh. }
    assert (Nf : NoDup (keys (fmap sents))) by (rewrite keys_fmap; exact NS).
    assert (Gf : Forall good (keys (fmap sents))) by (rewrite keys_fmap; exact GS).
    destruct (mgo_spec f dmt (fmap sents) Nf Gf Hv dents WD)
      as [(accF & H1 & H2 & H3 & H4)|(H1 & k & n' & H2 & H3)].
    - left. exists (Dir accF dmt). split; [exact H1|]. split; [exact H2|]. split.
      + intros [|k r']; [reflexivity|].
        unfold shl at 1. simpl lookup. rewrite H3, assoc_fmap.
        destruct (assoc k sents) as [c|] eqn:Ac; simpl option_map.
        * destruct (Hent k c Ac) as [(v & E1 & _ & E3 & _)|(E1 & _)].
          -- rewrite E1. apply E3.
          -- exfalso. apply (H4 k (fresh pt c)); [rewrite assoc_fmap, Ac; reflexivity|exact E1].
        * unfold mval, shl. simpl. rewrite Ac. reflexivity.
      + intros [|k r'] Hc; [destruct Hc as [Hc _]; congruence|].
        destruct (assoc k sents) as [c|] eqn:Ac.
        * destruct (Hent k c Ac) as [(v & _ & _ & _ & E4)|(E1 & _)].
          -- apply (E4 r' Hc).
          -- apply (H4 k (fresh pt c)); [rewrite assoc_fmap, Ac; reflexivity|exact E1].
        * destruct Hc as [_ [[(e & m & H) _]|[(d & m & H) _]]]; simpl in H; rewrite Ac in H; discriminate.
    - right. split; [exact H1|].
      rewrite assoc_fmap in H2. destruct (assoc k sents) as [c|] eqn:Ac; [|discriminate].
      simpl in H2. inversion H2; subst n'.
      destruct (Hent k c Ac) as [(v & E1 & _)|(_ & r' & Hc)]; [congruence|].
      exists (k :: r'). exact Hc.
  Qed.
End Merge.
