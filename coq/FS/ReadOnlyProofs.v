(* WrapReadOnly (FS/ReadOnly.v): a read-only filesystem cannot be modified through any call.
   1. the calls WrapReadOnly lets through ([mutating o = false]) do not change the state of
      MemoryFS, WrapFS(MemoryFS), SubFS(MemoryFS), SubFS(SubFS(...)) -- for EVERY state and
      every argument (invalid paths, odd mode strings, ...);
   2. the refused calls raise ResourceReadOnly and change nothing;
   3. hence no history of calls through a read-only view changes the wrapped filesystem, and
      no later query of the wrapped filesystem can tell that the history happened. *)
From Coq Require Import List NArith ZArith Bool Arith Lia.
From PyFS Require Import Base.PyStr Base.Outcome Path.PathModel Path.PathSpec Path.PathProofs
     FS.Tree FS.Monad FS.Mode FS.Base FS.Mem FS.Ops FS.Ref FS.Agree FS.Wf
     FS.TreeLemmas FS.RefineLemmas FS.RefineProofs FS.PropsProofs Sandbox.Sandbox FS.Wrap FS.ReadOnly.
Import ListNotations.

(* ------------------------------------------------------------------ *)
(* opening with a mode that is not a writing mode                      *)
(* ------------------------------------------------------------------ *)
Lemma not_writing_parts m : m_writing m = false ->
  m_create m = false /\ m_truncate m = false /\ m_appending m = false.
Proof.
  unfold m_writing, m_create, m_truncate, m_appending. intro H.
  destruct (has_char ch_w m), (has_char ch_a m), (has_char ch_plus m), (has_char ch_x m);
    try discriminate H; auto.
Qed.

Lemma mem_open_pure p m s : m_writing m = false -> fst (mem_open p m s) = s.
Proof.
  intro H. destruct (not_writing_parts m H) as (Hc & Ht & Ha).
  destruct (mode_valid_bin m) eqn:V.
  2:{ now rewrite (mem_open_invalid p m s V). }
  destruct (rpath p) as [cs|adm] eqn:R.
  2:{ now rewrite (mem_open_bad _ _ _ s R V). }
  destruct (list_snoc_case cs) as [->|[d [c ->]]].
  { now rewrite (mem_open_root _ _ s R V). }
  rewrite (mem_open_snoc _ _ _ _ s R V), Hc. cbn [andb].
  destruct (lookup s d) as [[|ents mt]|]; try reflexivity.
  destruct (assoc c ents) as [[data mt2|e2 mt2]|]; try reflexivity.
  unfold open_init. rewrite Ht, Ha. reflexivity.
Qed.

Lemma fst_vmap {A} (f : A -> value) (m : MM A) s : fst (vmap f m s) = fst (m s).
Proof. unfold vmap, mbind, ret. destruct (m s) as [s' [a|e|k]]; reflexivity. Qed.

Theorem mem_nonmutating_pure : forall o s, mutating o = false -> fst (mem_run o s) = s.
Proof.
  intros o s H.
  destruct o; try discriminate H; cbn [mem_run]; rewrite ?fst_vmap;
    try (destruct (mem_query_pure p s) as (Q1 & Q2 & Q3 & Q4 & Q5 & Q6 & Q7 & Q8 & Q9 & Q10 & _);
         assumption).
  - (* OOpenwrite, mode not writing: open, no write, close *)
    cbn [mutating] in H. rewrite H. unfold mem_openwrite. mstep.
    pose proof (mem_open_pure p mode s H) as P.
    destruct (mem_open p mode s) as [s' [h|e|k]]; exact P.
  - (* OOpenread, mode not writing *)
    cbn [mutating] in H. mstep.
    pose proof (mem_open_pure p mode s H) as P.
    destruct (mem_open p mode s) as [s' [h|e|k]]; try exact P.
    destruct (m_reading mode); [|exact P].
    destruct (lookup s' (fst h)) as [[dt mt|en mt]|]; exact P.
Qed.
Print Assumptions mem_nonmutating_pure.

(* ------------------------------------------------------------------ *)
(* WrapFS / SubFS: any delegate_path                                   *)
(* ------------------------------------------------------------------ *)
Lemma is_root_pure p s : fst (is_root p s) = s.
Proof. unfold is_root. mstep. destruct (normpath p); reflexivity. Qed.

Lemma wrap_nonmutating_pure (dg : str -> outcome str) : forall o s,
  mutating o = false -> fst (wrap_run dg o s) = s.
Proof.
  intros o s H.
  assert (M1 : forall p k, (forall q, mutating (k q) = false) -> fst (map1 dg p k s) = s).
  { intros p k Hk. unfold map1, dpath. mstep.
    destruct (dg p) as [q|e|c]; try reflexivity. apply mem_nonmutating_pure, Hk. }
  destruct o; try discriminate H; cbn [wrap_run];
    try (apply M1; intro q; exact H || reflexivity).
  (* OGetinfo *)
  rewrite fst_vmap. unfold w_getinfo, dpath. mstep.
  destruct (dg p) as [q|e|c]; try reflexivity.
  destruct (mem_query_pure q s) as (Q1 & _).
  destruct (mem_getinfo q s) as [s1 [i|e|c]]; cbn [fst] in Q1; subst s1; try reflexivity.
  pose proof (is_root_pure p s) as P.
  destruct (is_root p s) as [s2 [r|e|c]]; exact P.
Qed.

Theorem wrapfs_nonmutating_pure : forall o s, mutating o = false -> fst (wrapfs_run o s) = s.
Proof. intros o s. apply wrap_nonmutating_pure. Qed.
Print Assumptions wrapfs_nonmutating_pure.

Theorem subfs_nonmutating_pure : forall d o s, mutating o = false -> fst (subfs_run d o s) = s.
Proof. intros d o s. apply wrap_nonmutating_pure. Qed.
Print Assumptions subfs_nonmutating_pure.

Theorem nested_subfs_nonmutating_pure : forall ds o s,
  mutating o = false -> fst (nested_subfs_run ds o s) = s.
Proof. intros ds o s. apply wrap_nonmutating_pure. Qed.
Print Assumptions nested_subfs_nonmutating_pure.

(* ------------------------------------------------------------------ *)
(* the read-only wrapper over any wrapped filesystem                   *)
(* ------------------------------------------------------------------ *)
Theorem ro_refuses : forall inner o s,
  mutating o = true -> ro_run inner o s = (s, Err ResourceReadOnly).
Proof. intros inner o s H. unfold ro_run. rewrite H. reflexivity. Qed.
Print Assumptions ro_refuses.

Theorem ro_transparent : forall inner o s, mutating o = false -> ro_run inner o s = inner o s.
Proof. intros inner o s H. unfold ro_run. rewrite H. reflexivity. Qed.
Print Assumptions ro_transparent.

Theorem ro_never_modifies : forall inner,
  (forall o s, mutating o = false -> fst (inner o s) = s) -> forall o s, fst (ro_run inner o s) = s.
Proof.
  intros inner HI o s. destruct (mutating o) eqn:E.
  - now rewrite (ro_refuses inner o s E).
  - rewrite (ro_transparent inner o s E). now apply HI.
Qed.
Print Assumptions ro_never_modifies.

Lemma run_ops_cons run s o r :
  run_ops run s (o :: r) =
  (fst (run_ops run (fst (run o s)) r), snd (run o s) :: snd (run_ops run (fst (run o s)) r)).
Proof.
  cbn [run_ops]. destruct (run o s) as [s' out]. cbn [fst snd].
  destruct (run_ops run s' r) as [s'' outs]. reflexivity.
Qed.

(* a call interpreter that never changes the state, along a history *)
Lemma pure_history run : (forall o s, fst (run o s) = s) ->
  forall ops s, fst (run_ops run s ops) = s.
Proof.
  intros HP ops. induction ops as [|o r IH]; intro s; [reflexivity|].
  rewrite run_ops_cons. cbn [fst]. rewrite HP. apply IH.
Qed.

Theorem ro_history_unchanged : forall inner,
  (forall o s, mutating o = false -> fst (inner o s) = s) ->
  forall ops s, fst (run_ops (ro_run inner) s ops) = s.
Proof. intros inner HI. apply pure_history. now apply ro_never_modifies. Qed.
Print Assumptions ro_history_unchanged.

Theorem ro_history_outcomes : forall inner,
  (forall o s, mutating o = false -> fst (inner o s) = s) -> forall ops s,
  snd (run_ops (ro_run inner) s ops) =
  map (fun o => if mutating o then Err ResourceReadOnly else snd (inner o s)) ops.
Proof.
  intros inner HI ops. induction ops as [|o r IH]; intro s; [reflexivity|].
  rewrite run_ops_cons. cbn [snd map]. rewrite (ro_never_modifies inner HI o s), IH.
  f_equal. unfold ro_run. destruct (mutating o); reflexivity.
Qed.
Print Assumptions ro_history_outcomes.

(* ------------------------------------------------------------------ *)
(* the three instances of FS/ReadOnly.v                                *)
(* ------------------------------------------------------------------ *)
Lemma ro_inner_mem_pure o s : mutating o = false -> fst (ro_inner_mem o s) = s.
Proof.
  intro H. destruct o; cbn [ro_inner_mem];
    solve [ now apply mem_nonmutating_pure | now apply wrapfs_nonmutating_pure ].
Qed.

Lemma ro_mem_never_modifies o s : fst (ro_mem_run o s) = s.
Proof. unfold ro_mem_run. apply ro_never_modifies. intros o' s'. apply ro_inner_mem_pure. Qed.

Theorem ro_mem_history_unchanged : forall ops s, fst (run_ops ro_mem_run s ops) = s.
Proof. apply pure_history. apply ro_mem_never_modifies. Qed.
Print Assumptions ro_mem_history_unchanged.

Theorem ro_sub_history_unchanged : forall d ops s, fst (run_ops (ro_sub_run d) s ops) = s.
Proof.
  intro d. unfold ro_sub_run. apply ro_history_unchanged.
  intros o s. apply subfs_nonmutating_pure.
Qed.
Print Assumptions ro_sub_history_unchanged.

Theorem ro_ro_mem_history_unchanged : forall ops s, fst (run_ops ro_ro_mem_run s ops) = s.
Proof.
  unfold ro_ro_mem_run. apply ro_history_unchanged.
  intros o s _. apply ro_mem_never_modifies.
Qed.
Print Assumptions ro_ro_mem_history_unchanged.

(* no call of a read-only view changes what any later query of the WRAPPED filesystem returns *)
Theorem ro_mem_invisible : forall ops s q,
  snd (mem_run q (fst (run_ops ro_mem_run s ops))) = snd (mem_run q s).
Proof. intros ops s q. now rewrite ro_mem_history_unchanged. Qed.
Print Assumptions ro_mem_invisible.

(* ------------------------------------------------------------------ *)
(* non-vacuity: a history on a non-empty tree                          *)
(* ------------------------------------------------------------------ *)
Definition x_a : str := [97%N].                 (* "a"   *)
Definition x_d : str := [100%N].                (* "d"   *)
Definition x_da : str := [100; 47; 97]%N.       (* "d/a" *)
Definition x_new : str := [110%N].              (* "n"   *)
Definition x_r : str := [114%N].                (* "r"   *)
Definition x_w : str := [119%N].                (* "w"   *)
Definition x_s0 : node :=
  Dir [(x_a, File [1; 2; 3]%N (Some 5%Z)); (x_d, Dir [(x_a, File [7%N] None)] (Some 6%Z))] None.

Definition x_ops : list op :=
  [ OReadbytes x_a; OWritebytes x_a [9%N]; OListdir []; ORemove x_a; OGetsize x_da;
    OMakedir x_new false; OOpenread x_a x_r; OOpenwrite x_a x_w [4%N]; OCopy x_a x_new true false;
    OIsdir x_d; ORemovetree []; OExists x_new; OSetinfo x_a None; OReadbytes x_da ].

Example ro_mem_history_example :
  run_ops ro_mem_run x_s0 x_ops =
  (x_s0,
   [ Ok (VBytes [1; 2; 3]%N); Err ResourceReadOnly; Ok (VNames [x_a; x_d]); Err ResourceReadOnly;
     Ok (VNat 1); Err ResourceReadOnly; Ok (VBytes [1; 2; 3]%N); Err ResourceReadOnly;
     Err ResourceReadOnly; Ok (VBool true); Err ResourceReadOnly; Ok (VBool false);
     Err ResourceReadOnly; Ok (VBytes [7%N]) ]).
Proof. vm_compute. reflexivity. Qed.

(* the same history on the unwrapped MemoryFS does change the tree: the theorems above are
   about the wrapper, not about a history that happens to be harmless *)
Example ro_mem_history_example_unwrapped :
  tree_eqb true (fst (run_ops mem_run x_s0 x_ops)) x_s0 = false.
Proof. vm_compute. reflexivity. Qed.
