(* Well-formed trees: what every reachable MemoryFS state satisfies. *)
From Coq Require Import List NArith ZArith Bool Arith.
From PyFS Require Import Base.PyStr Path.PathSpec FS.Tree FS.Ops.
Import ListNotations.

Fixpoint wf_node (t : node) : Prop :=
  match t with
  | File _ _ => True
  | Dir ents _ =>
    NoDup (keys ents) /\ Forall good (keys ents) /\
    (fix all (l : list (str * node)) : Prop :=
       match l with [] => True | (_, n) :: r => wf_node n /\ all r end) ents
  end.

Definition wf (t : node) : Prop := is_dir t = true /\ wf_node t.

(* calls whose MemoryFS implementation does not involve the directory walker *)
Definition covered (o : op) : bool :=
  match o with
  | OCopydir _ _ _ _ | OMovedir _ _ _ _ | OMakedirs _ _ => false
  | _ => true
  end.

(* calls on a single resource (C06: a failure leaves the tree as it was) *)
Definition single_resource (o : op) : bool :=
  match o with
  | OCopydir _ _ _ _ | OMovedir _ _ _ _ | OMakedirs _ _ | ORemovetree _ => false
  | _ => true
  end.
