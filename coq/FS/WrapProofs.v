(* SubFS / WrapFS over the MemoryFS model refine the reference on the sub-tree, and leave
   everything outside the sub-directory unchanged. *)
From Coq Require Import List NArith ZArith Bool Arith Lia.
From PyFS Require Import Base.PyStr Base.Outcome Path.PathModel Path.PathSpec FS.Tree FS.Monad FS.Mode FS.Base
     FS.Mem FS.Ops FS.Ref FS.Agree FS.Wf FS.Wrap Sandbox.Sandbox.
Import ListNotations.

(* observed step of a filesystem rooted at component path d of the storage s, against the
   reference step on the sub-tree: same result; the storage is s with the sub-tree replaced *)
Definition sub_agree (d : list str) (obs : node * outcome value) (r : rstep) (s : node) : bool :=
  res_agree (snd obs) (rs_res r)
  && match rs_tree r with
     | Some t' => tree_eqb true (fst obs) (put s d t')
     | None => true
     end.

(* STATEMENTS TO PROVE   (nn = the NUL-free-names invariant of FS/RefineWalkLemmasBfs.v / RefineWalkNn.v)

(* 1. SubFS(MemoryFS, d): every call behaves like the reference on the sub-tree at d and changes
      nothing outside it - for the calls in [covered] *)
Theorem subfs_refines_ref : forall d sub o s,
  wf s -> nn s -> Forall good d -> Forall (fun c => has_char Mem.nul c = false) d ->
  lookup s d = Some sub -> is_dir sub = true -> covered o = true ->
  sub_agree d (subfs_run (to_path true d) o s) (ref_run o sub) s = true.

(* 2. the same for the walker-based calls in their non-degenerate cases *)
Theorem subfs_refines_ref_walk : forall d sub o s,
  wf s -> nn s -> Forall good d -> Forall (fun c => has_char Mem.nul c = false) d ->
  lookup s d = Some sub -> is_dir sub = true ->
  (match o with
   | OMakedirs p _ => exists cs, rpath p = inl cs
   | OCopydir a b _ _ | OMovedir a b _ _ =>
     exists ca cb, rpath a = inl ca /\ rpath b = inl cb /\ list_prefix cb ca = false
   | _ => False
   end) ->
  sub_agree d (subfs_run (to_path true d) o s) (ref_run o sub) s = true.

(* 3. invariants are kept, and the sub-directory itself survives every call *)
Theorem subfs_wf_preserved : forall d sub o s,
  wf s -> nn s -> Forall good d -> Forall (fun c => has_char Mem.nul c = false) d ->
  lookup s d = Some sub -> is_dir sub = true -> covered o = true ->
  wf (fst (subfs_run (to_path true d) o s)) /\ nn (fst (subfs_run (to_path true d) o s))
  /\ exists sub', lookup (fst (subfs_run (to_path true d) o s)) d = Some sub' /\ is_dir sub' = true.

(* 4. any nesting depth: SubFS of SubFS of ... is the SubFS at the concatenated path
      (subs innermost first, as in Sandbox.nested_delegate) *)
Theorem nested_subfs_refines_ref : forall (subs : list (list str)) sub o s,
  subs <> [] -> wf s -> nn s -> Forall (Forall good) subs ->
  Forall (Forall (fun c => has_char Mem.nul c = false)) subs ->
  lookup s (concat (rev subs)) = Some sub -> is_dir sub = true -> covered o = true ->
  sub_agree (concat (rev subs)) (nested_subfs_run (map (to_path true) subs) o s) (ref_run o sub) s = true.

(* 5. plain WrapFS (identity delegate_path) *)
Theorem wrapfs_refines_ref : forall o s, wf s -> nn s -> covered o = true ->
  agree (wrapfs_run o s) (ref_run o s) = true.
*)
