(* SubFS / WrapFS over the MemoryFS model refine the reference on the sub-tree, and leave
   everything outside the sub-directory unchanged. *)
From Coq Require Import List NArith ZArith Bool Arith Lia.
From PyFS Require Import Base.PyStr Base.Outcome Path.PathModel Path.PathSpec FS.Tree FS.Monad FS.Mode FS.Base
     FS.Mem FS.Ops FS.Ref FS.Agree FS.Wf FS.Wrap Sandbox.Sandbox.
From PyFS Require Import Path.PathProofs Sandbox.SandboxProofs FS.TreeLemmas FS.RefineLemmas FS.RefineProofs
     FS.Props FS.PropsProofs FS.RefineWalkLemmasEq FS.RefineWalkLemmasMk FS.RefineWalkLemmasBfs
     FS.RefineWalkLemmasCopy FS.RefineWalkNn FS.RefineWalk FS.WrapLemmas.
Import ListNotations.

(* observed step of a filesystem rooted at component path d of the storage s, against the
   reference step on the sub-tree: same result; the storage is s with the sub-tree replaced *)
Definition sub_agree (d : list str) (obs : node * outcome value) (r : rstep) (s : node) : bool :=
  res_agree (snd obs) (rs_res r)
  && match rs_tree r with
     | Some t' => tree_eqb true (fst obs) (put s d t')
     | None => true
     end.

(* ------------------------------------------------------------------ *)
(* path arguments as SubFS sees them                                   *)
(* ------------------------------------------------------------------ *)
(* SubFS.delegate_path, as a function of the resolved components (subfs_delegate_spec) *)
Definition dq (d : list str) (p : str) : outcome str :=
  match resolve (comps p) with
  | Some cs => Ok (to_path true (d ++ cs))
  | None => Err IllegalBackReference
  end.

(* the normal form of a path argument: what is left of it after SubFS.delegate_path *)
Definition npath (p : str) : str :=
  match resolve (comps p) with Some cs => to_path true cs | None => p end.

Definition nop (o : op) : op :=
  match o with
  | OGetinfo p => OGetinfo (npath p) | OListdir p => OListdir (npath p)
  | OScandir p => OScandir (npath p)
  | OMakedir p r => OMakedir (npath p) r | OMakedirs p r => OMakedirs (npath p) r
  | OWritebytes p x => OWritebytes (npath p) x | OAppendbytes p x => OAppendbytes (npath p) x
  | OReadbytes p => OReadbytes (npath p)
  | OCreate p w => OCreate (npath p) w | OTouch p => OTouch (npath p)
  | OOpenwrite p m x => OOpenwrite (npath p) m x | OOpenread p m => OOpenread (npath p) m
  | ORemove p => ORemove (npath p) | ORemovedir p => ORemovedir (npath p)
  | ORemovetree p => ORemovetree (npath p)
  | OMove a b o t => OMove (npath a) (npath b) o t | OCopy a b o t => OCopy (npath a) (npath b) o t
  | OMovedir a b o t => OMovedir (npath a) (npath b) o t
  | OCopydir a b o t => OCopydir (npath a) (npath b) o t
  | OSetinfo p m => OSetinfo (npath p) m
  | OExists p => OExists (npath p) | OIsdir p => OIsdir (npath p) | OIsfile p => OIsfile (npath p)
  | OIsempty p => OIsempty (npath p) | OGetsize p => OGetsize (npath p)
  | OGettype p => OGettype (npath p)
  end.

Definition resolves (p : str) : bool :=
  match resolve (comps p) with Some _ => true | None => false end.

(* the cases where the order of the checks of WrapFS is visible (see the counterexamples
   at the end of the file): an invalid mode string with a path that climbs above the root;
   copy(overwrite=False) from a source whose normal form contains NUL *)
Definition g_pre (o : op) : bool :=
  match o with
  | OOpenwrite p m _ | OOpenread p m => mode_valid_bin m || resolves p
  | OCopy a _ false _ =>
    match resolve (comps a) with
    | Some cs => negb (has_char Mem.nul (to_path true cs))
    | None => true
    end
  | _ => true
  end.

Definition sub_ok (d : list str) (obs : node * outcome value) (r : rstep) (s : node) : Prop :=
  sub_agree d obs r s = true /\ wf (fst obs) /\ nn (fst obs).

Lemma covered_nop o : covered (nop o) = covered o.
Proof. destruct o; reflexivity. Qed.

Lemma with2_bad_l t p q k e e1 : rpath p = inr e1 -> existsb (ecls_eqb e) e1 = true ->
  exists adm, with2 t p q k = fail t adm /\ existsb (ecls_eqb e) adm = true.
Proof.
  intros R H. unfold with2. rewrite R. destruct (rpath q); eexists; split; try reflexivity.
  - exact H.
  - rewrite existsb_app, H. reflexivity.
Qed.

Lemma with2_bad_r t p q k e e2 : rpath q = inr e2 -> existsb (ecls_eqb e) e2 = true ->
  exists adm, with2 t p q k = fail t adm /\ existsb (ecls_eqb e) adm = true.
Proof.
  intros R H. unfold with2. rewrite R. destruct (rpath p); eexists; split; try reflexivity.
  - exact H.
  - rewrite existsb_app, H. apply orb_true_r.
Qed.

Lemma ibr_in p : resolve (comps p) = None ->
  npath p = p /\ exists adm, rpath p = inr adm /\ existsb (ecls_eqb IllegalBackReference) adm = true.
Proof.
  intro E. unfold npath, rpath. rewrite E. split; [reflexivity|].
  eexists. split; [reflexivity|]. destruct (has_char Ref.nul p); reflexivity.
Qed.

Lemma rpath_npath_some p cs : resolve (comps p) = Some cs ->
  rpath (npath p) = if has_char Mem.nul (to_path true cs) then inr [InvalidCharsInPath] else inl cs.
Proof.
  intro E. pose proof (resolve_comps_good _ _ E) as G.
  unfold npath. rewrite E. unfold rpath. change Ref.nul with Mem.nul.
  rewrite resolve_comps_nf by exact G. destruct (has_char Mem.nul (to_path true cs)); reflexivity.
Qed.

Lemma is_root_some p cs s : resolve (comps p) = Some cs ->
  is_root p s = (s, Ok (match cs with [] => true | _ => false end)).
Proof.
  intro E. pose proof (resolve_comps_good _ _ E) as G.
  unfold is_root. mstep. rewrite normpath_spec. unfold spec_normpath. rewrite E.
  rewrite abspath_nf_gen by exact G. rewrite <- to_path_root.
  rewrite (RefineLemmas.to_path_eqb cs []) by (auto; constructor).
  destruct cs; reflexivity.
Qed.

Lemma is_root_none p s : resolve (comps p) = None -> is_root p s = (s, Err IllegalBackReference).
Proof.
  intro E. unfold is_root. mstep. rewrite normpath_spec. unfold spec_normpath. now rewrite E.
Qed.

Lemma set_name_root x n : set_name (to_info x n) [] = info_of [] n.
Proof. reflexivity. Qed.

(* ------------------------------------------------------------------ *)
(* WrapFS.copy after delegation                                        *)
(* ------------------------------------------------------------------ *)
Definition wc_body (qs qd : str) (o pt : bool) : MM unit :=
  mbind (if o then ret false else mem_exists qd) (fun e =>
    if e then raise DestinationExists else copy_file_internal mem_low mem_copy qs qd pt).

Lemma w_copy_unfold dg a b o pt s :
  vmap (fun _ : unit => VUnit) (w_copy dg a b o pt) s =
  match dg a with
  | Ok qs => match dg b with
             | Ok qd => vmap (fun _ : unit => VUnit) (wc_body qs qd o pt) s
             | Err e => (s, Err e)
             | Crash k => (s, Crash k)
             end
  | Err e => (s, Err e)
  | Crash k => (s, Crash k)
  end.
Proof.
  unfold w_copy, wc_body, dpath. mstep. destruct (dg a); [|reflexivity|reflexivity].
  destruct (dg b); reflexivity.
Qed.

Lemma cfi_inl qs qd a b pt s : rpath qs = inl a -> rpath qd = inl b ->
  copy_file_internal mem_low mem_copy qs qd pt s = copy_tail (to_path true a) (to_path true b) pt s.
Proof.
  intros R1 R2. unfold copy_file_internal. cbn [l_validatepath mem_low]. mstep.
  rewrite (validate_inl _ _ s R1). mstep. rewrite (validate_inl _ _ s R2). mstep.
  destruct (str_eqb (to_path true a) (to_path true b)) eqn:E.
  - unfold copy_tail. rewrite E. reflexivity.
  - unfold mem_copy. rewrite b_copy_unfold. mstep.
    rewrite (validate_inl _ _ s R1). mstep. rewrite (validate_inl _ _ s R2). reflexivity.
Qed.

Lemma wc_body_inl qs qd a b o pt s : rpath qs = inl a -> rpath qd = inl b ->
  wc_body qs qd o pt s = mem_copy qs qd o pt s.
Proof.
  intros R1 R2. unfold wc_body, mem_copy. rewrite b_copy_unfold. mstep.
  rewrite (validate_inl _ _ s R1). mstep. rewrite (validate_inl _ _ s R2). mstep.
  destruct o.
  - mstep. exact (cfi_inl _ _ _ _ pt s R1 R2).
  - unfold mem_exists. rewrite (mem_exists_spec _ _ s R2).
    rewrite (mem_exists_spec _ _ s (rpath_nf _ (rpath_vp _ _ R2))).
    destruct (lookup s b); [reflexivity|]. exact (cfi_inl _ _ _ _ pt s R1 R2).
Qed.

Lemma wc_body_bad_l qs qd adm pt s : rpath qs = inr adm ->
  wc_body qs qd true pt s = (s, Err (bad_err qs)).
Proof.
  intro R. unfold wc_body, copy_file_internal. cbn [l_validatepath mem_low]. mstep.
  now rewrite (validate_inr _ _ s R).
Qed.

Lemma wc_body_bad_r qs qd a adm o pt s : rpath qs = inl a -> rpath qd = inr adm ->
  wc_body qs qd o pt s = (s, Err (bad_err qd)).
Proof.
  intros R1 R2. unfold wc_body. destruct o.
  - unfold copy_file_internal. cbn [l_validatepath mem_low]. mstep.
    rewrite (validate_inl _ _ s R1). mstep. now rewrite (validate_inr _ _ s R2).
  - unfold mem_exists. mstep. now rewrite (mem_exists_bad _ _ s R2).
Qed.

(* ------------------------------------------------------------------ *)
(* removetree of the root: every entry is removed, the directory stays *)
(* ------------------------------------------------------------------ *)
Definition rt_body (q : str) (i : info) : MM unit :=
  mbind (lift (pjoin [q; i_name i])) (fun ip =>
    if i_isdir i then mem_removetree ip else mem_remove ip).

Section RtLoop.
  Variable d : list str.
  Variable q : str.      (* a spelling of the directory d *)
  Hypothesis HQ : forall k, good k -> nonulc k ->
    exists ip, pjoin [q; k] = Ok ip /\ rpath ip = inl (d ++ [k]).

  Lemma rt_body_step s k n r m : wf s -> nn s -> lookup s d = Some (Dir ((k, n) :: r) m) ->
    rt_body q (to_info k n) s = (put s d (Dir r m), Ok tt)
    /\ wf (put s d (Dir r m)) /\ nn (put s d (Dir r m)).
  Proof.
    intros W N Hl.
    assert (Ha : assoc k ((k, n) :: r) = Some n) by (simpl; now rewrite str_eqb_refl).
    assert (Gk : good k).
    { destruct W as [_ Wn]. eapply wf_assoc_good; [eapply wf_lookup; eauto|exact Ha]. }
    assert (Nk : nonulc k).
    { destruct (nn_lookup d s _ N Hl) as [Nn _]. eapply nn_assoc_key; eauto. }
    destruct (HQ k Gk Nk) as (ip & Ej & R).
    assert (Ed : del s (d ++ [k]) = put s d (Dir r m)).
    { rewrite (del_pre d s _ [k] Hl) by discriminate. cbn [del assoc_del]. now rewrite str_eqb_refl. }
    split.
    - unfold rt_body. cbn [i_name i_isdir to_info]. mstep. rewrite Ej.
      destruct n as [dt mt|e2 m2]; cbn [is_dir].
      + rewrite (mem_remove_snoc _ d k s R), Hl, Ha. now rewrite Ed.
      + rewrite (mem_removetree_snoc _ d k s R), Hl, Ha. now rewrite Ed.
    - rewrite <- Ed. split; [now apply wf_del_any|now apply nn_del].
  Qed.

  Lemma rt_loop ents : forall s m, wf s -> nn s -> lookup s d = Some (Dir ents m) ->
    mfor (map (fun kn => to_info (fst kn) (snd kn)) ents) (rt_body q) s
    = (put s d (Dir [] m), Ok tt)
    /\ wf (put s d (Dir [] m)) /\ nn (put s d (Dir [] m)).
  Proof.
    induction ents as [|[k n] r IH]; intros s m W N Hl.
    - rewrite (put_id _ _ _ Hl). auto.
    - cbn [map mfor fst snd]. unfold mbind.
      destruct (rt_body_step s k n r m W N Hl) as (E & W1 & N1). rewrite E.
      assert (Hl1 : lookup (put s d (Dir r m)) d = Some (Dir r m)) by (eapply lookup_put_at; eauto).
      destruct (IH _ m W1 N1 Hl1) as (E2 & W2 & N2). rewrite put_put in E2, W2, N2. auto.
  Qed.
End RtLoop.

(* ------------------------------------------------------------------ *)
(* a wrapper whose delegate_path prepends the directory d              *)
(* ------------------------------------------------------------------ *)
Section Gen.
  Variable dg : str -> outcome str.
  Variable d : list str.
  Hypothesis DS : forall p, dg p = dq d p.
  Hypothesis Gd : Forall good d.
  Hypothesis Nd : nonul d.

  Lemma vp_d : vp d.
  Proof. split; assumption. Qed.

  Lemma rpath_deleg p cs : resolve (comps p) = Some cs ->
    rpath (to_path true (d ++ cs))
    = if has_char Mem.nul (to_path true cs) then inr [InvalidCharsInPath] else inl (d ++ cs).
  Proof.
    intro E. pose proof (resolve_comps_good _ _ E) as G.
    unfold rpath. change Ref.nul with Mem.nul. rewrite has_nul_pre by exact Nd.
    rewrite resolve_comps_nf by (apply Forall_good_app; assumption).
    destruct (has_char Mem.nul (to_path true cs)); reflexivity.
  Qed.

  Lemma plift_deleg p cs : resolve (comps p) = Some cs ->
    plift d (npath p) (to_path true (d ++ cs)).
  Proof.
    intro E. unfold plift. rewrite (rpath_npath_some _ _ E), (rpath_deleg _ _ E).
    destruct (has_char Mem.nul (to_path true cs)); reflexivity.
  Qed.

  Lemma dg_some p cs : resolve (comps p) = Some cs -> dg p = Ok (to_path true (d ++ cs)).
  Proof. intro E. rewrite DS. unfold dq. now rewrite E. Qed.

  Lemma dg_none p : resolve (comps p) = None -> dg p = Err IllegalBackReference.
  Proof. intro E. rewrite DS. unfold dq. now rewrite E. Qed.

  Lemma map1_some p cs k s : resolve (comps p) = Some cs ->
    map1 dg p k s = mem_run (k (to_path true (d ++ cs))) s.
  Proof. intro E. unfold map1, dpath. mstep. now rewrite (dg_some _ _ E). Qed.

  Lemma map1_none p k s : resolve (comps p) = None ->
    map1 dg p k s = (s, Err IllegalBackReference).
  Proof. intro E. unfold map1, dpath. mstep. now rewrite (dg_none _ E). Qed.

  Lemma map2_some a b ca cb k s : resolve (comps a) = Some ca -> resolve (comps b) = Some cb ->
    map2 dg a b k s = mem_run (k (to_path true (d ++ ca)) (to_path true (d ++ cb))) s.
  Proof. intros E1 E2. unfold map2, dpath. mstep. now rewrite (dg_some _ _ E1), (dg_some _ _ E2). Qed.

  Lemma map2_none_l a b k s : resolve (comps a) = None ->
    map2 dg a b k s = (s, Err IllegalBackReference).
  Proof. intro E. unfold map2, dpath. mstep. now rewrite (dg_none _ E). Qed.

  Lemma map2_none_r a b ca k s : resolve (comps a) = Some ca -> resolve (comps b) = None ->
    map2 dg a b k s = (s, Err IllegalBackReference).
  Proof. intros E1 E2. unfold map2, dpath. mstep. now rewrite (dg_some _ _ E1), (dg_none _ E2). Qed.

  Section State.
    Variables s sub : node.
    Hypothesis W : wf s.
    Hypothesis N : nn s.
    Hypothesis Hl : lookup s d = Some sub.
    Hypothesis Hsub : is_dir sub = true.

    Lemma gen_ok o o' : covered o = true -> op_lift d o o' -> not_root_special o ->
      sub_ok d (mem_run o' s) (ref_run o sub) s.
    Proof.
      intros C H NR. assert (C' : covered o' = true) by now rewrite (op_lift_covered _ _ _ H).
      split; [|split].
      - pose proof (mem_refines_ref o' s W C') as A.
        rewrite (ref_frame s sub d o o' Hl Hsub H NR C), agree_lift in A. exact A.
      - now apply mem_wf_preserved.
      - now apply nn_preserved_covered.
    Qed.

    Lemma bad_ok e adm : existsb (ecls_eqb e) adm = true ->
      sub_ok d (s, Err e) (fail sub adm) s.
    Proof.
      intro H. split; [|split; assumption].
      unfold sub_agree, fail, same. cbn. rewrite H, (put_id _ _ _ Hl). apply tree_eqb_refl.
    Qed.

    Lemma same_ok v w : value_eqb v w = true -> sub_ok d (s, Ok v) (same sub (ROk w)) s.
    Proof.
      intro H. split; [|split; assumption].
      unfold sub_agree, same. cbn. rewrite H, (put_id _ _ _ Hl). apply tree_eqb_refl.
    Qed.

    (* ---- calls delegated as they are ---- *)
    Ltac t_map1 p :=
      let E := fresh "E" in
      destruct (resolve (comps p)) as [cs|] eqn:E;
      [ rewrite (map1_some _ _ _ _ E); apply gen_ok;
        [reflexivity | cbn [nop op_lift]; repeat split; now apply plift_deleg | exact I]
      | let adm := fresh "adm" in let R := fresh "R" in let Hin := fresh "Hin" in
        let En := fresh "En" in
        rewrite (map1_none _ _ _ E); destruct (ibr_in p E) as (En & adm & R & Hin);
        cbn [nop ref_run]; unfold ref_query, with1; rewrite En, R; now apply bad_ok ].

    Lemma gen_map1 o : covered o = true -> g_pre o = true ->
      match o with
      | OGetinfo _ | ORemovedir _ | ORemovetree _ | OCopy _ _ _ _ | OMove _ _ _ _ => True
      | _ => sub_ok d (wrap_run dg o s) (ref_run (nop o) sub) s
      end.
    Proof.
      intros C P. destruct o; try exact I; try discriminate C; cbn [wrap_run].
      - t_map1 p.
      - t_map1 p.
      - t_map1 p.
      - t_map1 p.
      - t_map1 p.
      - t_map1 p.
      - t_map1 p.
      - t_map1 p.
      - (* openwrite *)
        destruct (resolve (comps p)) as [cs|] eqn:E.
        + rewrite (map1_some _ _ _ _ E). apply gen_ok;
            [reflexivity | cbn [nop op_lift]; repeat split; now apply plift_deleg | exact I].
        + cbn [g_pre] in P. unfold resolves in P. rewrite E, orb_false_r in P.
          rewrite (map1_none _ _ _ E). destruct (ibr_in p E) as (En & adm & R & Hin).
          cbn [nop ref_run]. rewrite P. cbn [negb]. unfold with1. rewrite En, R. now apply bad_ok.
      - destruct (resolve (comps p)) as [cs|] eqn:E.
        + rewrite (map1_some _ _ _ _ E). apply gen_ok;
            [reflexivity | cbn [nop op_lift]; repeat split; now apply plift_deleg | exact I].
        + cbn [g_pre] in P. unfold resolves in P. rewrite E, orb_false_r in P.
          rewrite (map1_none _ _ _ E). destruct (ibr_in p E) as (En & adm & R & Hin).
          cbn [nop ref_run]. rewrite P. cbn [negb]. unfold with1. rewrite En, R. now apply bad_ok.
      - t_map1 p.
      - t_map1 p.
      - t_map1 p.
      - t_map1 p.
      - t_map1 p.
      - t_map1 p.
      - t_map1 p.
      - t_map1 p.
    Qed.

    (* ---- move: two delegated paths ---- *)
    Lemma gen_move a b o pt :
      sub_ok d (wrap_run dg (OMove a b o pt) s) (ref_run (nop (OMove a b o pt)) sub) s.
    Proof.
      cbn [wrap_run nop ref_run].
      destruct (resolve (comps a)) as [ca|] eqn:E1.
      - destruct (resolve (comps b)) as [cb|] eqn:E2.
        + rewrite (map2_some _ _ _ _ _ _ E1 E2).
          apply (gen_ok (OMove (npath a) (npath b) o pt));
            [reflexivity | cbn [op_lift]; repeat split; now apply plift_deleg | exact I].
        + rewrite (map2_none_r _ _ _ _ _ E1 E2). destruct (ibr_in b E2) as (En & adm & R & Hin).
          rewrite En.
          destruct (with2_bad_r sub (npath a) b (fun x y => ref_move sub x y o pt) _ _ R Hin)
            as (adm' & -> & Hin').
          now apply bad_ok.
      - rewrite (map2_none_l _ _ _ _ E1). destruct (ibr_in a E1) as (En & adm & R & Hin).
        rewrite En.
        destruct (with2_bad_l sub a (npath b) (fun x y => ref_move sub x y o pt) _ _ R Hin)
          as (adm' & -> & Hin').
        now apply bad_ok.
    Qed.

    (* ---- getinfo: the name of the root is "" ---- *)
    Lemma gen_getinfo p :
      sub_ok d (wrap_run dg (OGetinfo p) s) (ref_run (nop (OGetinfo p)) sub) s.
    Proof.
      cbn [wrap_run nop ref_run]. unfold w_getinfo, dpath.
      destruct (resolve (comps p)) as [cs|] eqn:E.
      2:{ mstep. rewrite (dg_none _ E). destruct (ibr_in p E) as (En & adm & R & Hin).
          unfold with1. rewrite En, R. now apply bad_ok. }
      destruct cs as [|c cs'].
      - (* the root of the SubFS *)
        mstep. rewrite (dg_some _ _ E), app_nil_r.
        rewrite (mem_getinfo_spec _ _ s (rpath_nf _ vp_d)), Hl.
        rewrite (is_root_some _ _ s E). rewrite set_name_root.
        unfold with1. rewrite (rpath_npath_some _ _ E). cbn [has_char existsb to_path app join].
        cbn. unfold ref_getinfo. cbn [lookup]. apply same_ok. apply value_eqb_refl.
      - assert (X : vmap VInfo
                      (mbind (lift (dg p)) (fun q => mbind (mem_getinfo q) (fun i =>
                       mbind (is_root p) (fun r => ret (if r then set_name i [] else i))))) s
                    = mem_run (OGetinfo (to_path true (d ++ c :: cs'))) s).
        { cbn [mem_run]. mstep. rewrite (dg_some _ _ E).
          destruct (mem_getinfo (to_path true (d ++ c :: cs')) s) as [s1 [i|e|k]]; try reflexivity.
          now rewrite (is_root_some _ _ s1 E). }
        rewrite X. apply (gen_ok (OGetinfo (npath p))); [reflexivity|now apply plift_deleg|].
        cbn [not_root_special]. rewrite (rpath_npath_some _ _ E).
        destruct (has_char Mem.nul (to_path true (c :: cs'))); discriminate.
    Qed.

    (* ---- removedir: the root cannot be removed ---- *)
    Lemma gen_removedir p :
      sub_ok d (wrap_run dg (ORemovedir p) s) (ref_run (nop (ORemovedir p)) sub) s.
    Proof.
      cbn [wrap_run nop ref_run]. unfold w_removedir.
      destruct (resolve (comps p)) as [cs|] eqn:E.
      2:{ mstep. rewrite (is_root_none _ s E). destruct (ibr_in p E) as (En & adm & R & Hin).
          unfold with1. rewrite En, R. now apply bad_ok. }
      destruct cs as [|c cs'].
      - mstep. rewrite (is_root_some _ _ s E).
        unfold with1. rewrite (rpath_npath_some _ _ E). cbn. unfold ref_removedir.
        now apply bad_ok.
      - assert (X : vmap (fun _ : unit => VUnit)
                      (mbind (is_root p) (fun r => if r then raise RemoveRootError
                         else mbind (dpath dg p) (fun q => mem_removedir q))) s
                    = mem_run (ORemovedir (to_path true (d ++ c :: cs'))) s).
        { cbn [mem_run]. unfold dpath. mstep. rewrite (is_root_some _ _ s E).
          now rewrite (dg_some _ _ E). }
        rewrite X. apply (gen_ok (ORemovedir (npath p))); [reflexivity|now apply plift_deleg|].
        cbn [not_root_special]. rewrite (rpath_npath_some _ _ E).
        destruct (has_char Mem.nul (to_path true (c :: cs'))); discriminate.
    Qed.
  End State.

  Lemma HQ_deleg k : good k -> nonulc k ->
    exists ip, pjoin [to_path true d; k] = Ok ip /\ rpath ip = inl (d ++ [k]).
  Proof.
    intros Gk Nk. exists (to_path true (d ++ [k])). split; [now apply pjoin_two_nf|].
    apply rpath_nf. apply vp_app. split; [exact vp_d|].
    split; (constructor; [assumption|constructor]).
  Qed.

  Section State2.
    Variables s sub : node.
    Hypothesis W : wf s.
    Hypothesis N : nn s.
    Hypothesis Hl : lookup s d = Some sub.
    Hypothesis Hsub : is_dir sub = true.

    Lemma gen_removetree p :
      sub_ok d (wrap_run dg (ORemovetree p) s) (ref_run (nop (ORemovetree p)) sub) s.
    Proof.
      cbn [wrap_run nop ref_run]. unfold w_removetree, dpath.
      destruct (resolve (comps p)) as [cs|] eqn:E.
      2:{ mstep. rewrite normpath_spec. unfold spec_normpath. rewrite E.
          destruct (ibr_in p E) as (En & adm & R & Hin).
          unfold with1. rewrite En, R. now apply (bad_ok s sub W N Hl). }
      pose proof (resolve_comps_good _ _ E) as G.
      destruct cs as [|c cs'].
      - destruct sub as [|ents m] eqn:Es; [discriminate|].
        destruct (rt_loop d (to_path true d) HQ_deleg ents s m W N Hl) as (EL & W1 & N1).
        assert (X : vmap (fun _ : unit => VUnit)
                      (mbind (lift (normpath p)) (fun n => mbind (lift (dg p)) (fun q =>
                         if str_eqb (abspath n) s_slash
                         then mbind (mem_scandir q) (fun infos => mfor infos (rt_body q))
                         else mem_removetree q))) s
                    = (put s d (Dir [] m), Ok VUnit)).
        { mstep. rewrite normpath_spec. unfold spec_normpath. rewrite E.
          rewrite (dg_some _ _ E), app_nil_r.
          rewrite abspath_nf_gen by constructor.
          change (str_eqb (to_path true []) s_slash) with true. cbv beta iota.
          rewrite (mem_scandir_spec _ _ s (rpath_nf _ vp_d)), Hl. now rewrite EL. }
        unfold rt_body in X. rewrite X.
        unfold with1. rewrite (rpath_npath_some _ _ E). cbn. unfold ref_removetree.
        split; [|split; assumption].
        unfold sub_agree. cbn. apply tree_eqb_refl.
      - assert (X : vmap (fun _ : unit => VUnit)
                      (mbind (lift (normpath p)) (fun n => mbind (lift (dg p)) (fun q =>
                         if str_eqb (abspath n) s_slash
                         then mbind (mem_scandir q) (fun infos => mfor infos (rt_body q))
                         else mem_removetree q))) s
                    = mem_run (ORemovetree (to_path true (d ++ c :: cs'))) s).
        { cbn [mem_run]. mstep. rewrite normpath_spec. unfold spec_normpath. rewrite E.
          rewrite (dg_some _ _ E). rewrite abspath_nf_gen by exact G.
          rewrite <- to_path_root.
          rewrite (RefineLemmas.to_path_eqb (c :: cs') []) by (auto; constructor).
          reflexivity. }
        unfold rt_body in X. rewrite X.
        apply (gen_ok s sub W N Hl Hsub (ORemovetree (npath p)));
          [reflexivity|now apply plift_deleg|].
        cbn [not_root_special]. rewrite (rpath_npath_some _ _ E).
        destruct (has_char Mem.nul (to_path true (c :: cs'))); discriminate.
    Qed.

    (* ---- copy: WrapFS checks the destination, then fs.copy.copy_file ---- *)
    Lemma gen_copy a b o pt : g_pre (OCopy a b o pt) = true ->
      sub_ok d (wrap_run dg (OCopy a b o pt) s) (ref_run (nop (OCopy a b o pt)) sub) s.
    Proof.
      intro P. cbn [wrap_run nop ref_run]. rewrite w_copy_unfold.
      destruct (resolve (comps a)) as [ca|] eqn:E1.
      2:{ rewrite (dg_none _ E1). destruct (ibr_in a E1) as (En & adm & R & Hin). rewrite En.
          destruct (with2_bad_l sub a (npath b) (fun x y => ref_copy sub x y o pt) _ _ R Hin)
            as (adm' & -> & Hin').
          now apply (bad_ok s sub W N Hl). }
      rewrite (dg_some _ _ E1).
      destruct (resolve (comps b)) as [cb|] eqn:E2.
      2:{ rewrite (dg_none _ E2). destruct (ibr_in b E2) as (En & adm & R & Hin). rewrite En.
          destruct (with2_bad_r sub (npath a) b (fun x y => ref_copy sub x y o pt) _ _ R Hin)
            as (adm' & -> & Hin').
          now apply (bad_ok s sub W N Hl). }
      rewrite (dg_some _ _ E2).
      pose proof (rpath_deleg _ _ E1) as Q1. pose proof (rpath_deleg _ _ E2) as Q2.
      pose proof (rpath_npath_some _ _ E1) as P1. pose proof (rpath_npath_some _ _ E2) as P2.
      destruct (has_char Mem.nul (to_path true ca)) eqn:N1.
      - (* NUL in the source *)
        cbn [g_pre] in P. rewrite E1, N1 in P. destruct o; [|discriminate P].
        unfold vmap, mbind. rewrite (wc_body_bad_l _ _ _ pt s Q1).
        destruct (with2_bad_l sub (npath a) (npath b) (fun x y => ref_copy sub x y true pt) _ _ P1
                              (bad_err_in _ _ Q1)) as (adm' & -> & Hin').
        now apply (bad_ok s sub W N Hl).
      - destruct (has_char Mem.nul (to_path true cb)) eqn:N2.
        + unfold vmap, mbind. rewrite (wc_body_bad_r _ _ _ _ o pt s Q1 Q2).
          destruct (with2_bad_r sub (npath a) (npath b) (fun x y => ref_copy sub x y o pt) _ _ P2
                                (bad_err_in _ _ Q2)) as (adm' & -> & Hin').
          now apply (bad_ok s sub W N Hl).
        + assert (X : vmap (fun _ : unit => VUnit)
                        (wc_body (to_path true (d ++ ca)) (to_path true (d ++ cb)) o pt) s
                      = mem_run (OCopy (to_path true (d ++ ca)) (to_path true (d ++ cb)) o pt) s).
          { cbn [mem_run]. unfold vmap, mbind. now rewrite (wc_body_inl _ _ _ _ o pt s Q1 Q2). }
          rewrite X.
          apply (gen_ok s sub W N Hl Hsub (OCopy (npath a) (npath b) o pt));
            [reflexivity | cbn [op_lift]; repeat split; now apply plift_deleg | exact I].
    Qed.

    (* every covered call *)
    Theorem wrap_gen o : covered o = true -> g_pre o = true ->
      sub_ok d (wrap_run dg o s) (ref_run (nop o) sub) s.
    Proof.
      intros C P. pose proof (gen_map1 s sub W N Hl Hsub o C P) as H.
      destruct o; try exact H; try discriminate C.
      - apply gen_getinfo; assumption.
      - apply gen_removedir; assumption.
      - apply gen_removetree.
      - apply gen_move; assumption.
      - now apply gen_copy.
    Qed.
  End State2.
End Gen.

(* ------------------------------------------------------------------ *)
(* path arguments whose NUL characters disappear in normalisation      *)
(* ------------------------------------------------------------------ *)
(* "x\0/.." : SubFS normalises the path before MemoryFS.validatepath can see the NUL *)
Definition nul_hidden (p : str) : bool :=
  has_char Mem.nul p &&
  match resolve (comps p) with
  | Some cs => negb (has_char Mem.nul (to_path true cs))
  | None => false
  end.

Definition paths_of (o : op) : list str :=
  match o with
  | OGetinfo p | OListdir p | OScandir p | OMakedir p _ | OMakedirs p _ | OWritebytes p _
  | OAppendbytes p _ | OReadbytes p | OCreate p _ | OTouch p | OOpenwrite p _ _ | OOpenread p _
  | ORemove p | ORemovedir p | ORemovetree p | OSetinfo p _ | OExists p | OIsdir p | OIsfile p
  | OIsempty p | OGetsize p | OGettype p => [p]
  | OMove a b _ _ | OCopy a b _ _ | OMovedir a b _ _ | OCopydir a b _ _ => [a; b]
  end.

(* the calls on which SubFS(MemoryFS) is compared with the reference *)
Definition sub_pre (o : op) : bool :=
  forallb (fun p => negb (nul_hidden p)) (paths_of o) && g_pre o.

Lemma npath_same p : nul_hidden p = false -> rpath (npath p) = rpath p.
Proof.
  unfold nul_hidden. intro H.
  destruct (resolve (comps p)) as [cs|] eqn:E.
  - rewrite (rpath_npath_some _ _ E).
    destruct (rpath p) as [cs'|adm] eqn:R.
    + pose proof (rpath_vp _ _ R) as [_ Nn]. apply rpath_inl in R as [_ R]. rewrite E in R.
      inversion R; subst cs'. pose proof (to_path_nonul true cs Nn) as K. now rewrite K.
    + unfold rpath in R. change Ref.nul with Mem.nul in R. rewrite E in R.
      destruct (has_char Mem.nul p); [|discriminate R].
      cbn [andb] in H. apply negb_false_iff in H. rewrite H. exact R.
  - unfold npath. now rewrite E.
Qed.

Lemma nop_same o : forallb (fun p => negb (nul_hidden p)) (paths_of o) = true -> same_call (nop o) o.
Proof.
  destruct o; cbn [paths_of forallb nop same_call]; rewrite ?andb_true_r, ?andb_true_iff, ?negb_true_iff;
    intros; split_and; repeat split; auto using npath_same.
Qed.

(* outside g_pre the call fails and leaves the storage as it is *)
Lemma wc_body_fails qs qd adm pt s : rpath qs = inr adm ->
  exists e, wc_body qs qd false pt s = (s, Err e).
Proof.
  intro R. unfold wc_body, mem_exists, copy_file_internal. cbn [l_validatepath mem_low]. mstep.
  destruct (rpath qd) as [b|e] eqn:R2.
  - rewrite (mem_exists_spec _ _ s R2). destruct (lookup s b); [eauto|].
    rewrite (validate_inr _ _ s R). eauto.
  - rewrite (mem_exists_bad _ _ s R2). eauto.
Qed.

Section GenTheorems.
  Variable dg : str -> outcome str.
  Variable d : list str.
  Hypothesis DS : forall p, dg p = dq d p.
  Hypothesis Gd : Forall good d.
  Hypothesis Nd : Forall (fun c => has_char Mem.nul c = false) d.

  Theorem gen_refines_ref : forall sub o s,
    wf s -> nn s -> lookup s d = Some sub -> is_dir sub = true -> covered o = true ->
    sub_pre o = true ->
    sub_agree d (wrap_run dg o s) (ref_run o sub) s = true.
  Proof.
    intros sub o s W N Hl Hs C P. unfold sub_pre in P. apply andb_true_iff in P as [P1 P2].
    rewrite <- (ref_spelling (nop o) o sub (nop_same o P1)).
    exact (proj1 (wrap_gen dg d DS Gd Nd s sub W N Hl Hs o C P2)).
  Qed.

  Lemma excluded_fails o s : covered o = true -> g_pre o = false ->
    exists e, wrap_run dg o s = (s, Err e).
  Proof.
    intros C P. destruct o; try discriminate P; cbn [g_pre] in P.
    - apply orb_false_iff in P as [_ P]. unfold resolves in P.
      destruct (resolve (comps p)) eqn:E; [discriminate|].
      cbn [wrap_run]. rewrite (map1_none dg d DS _ _ _ E). eauto.
    - apply orb_false_iff in P as [_ P]. unfold resolves in P.
      destruct (resolve (comps p)) eqn:E; [discriminate|].
      cbn [wrap_run]. rewrite (map1_none dg d DS _ _ _ E). eauto.
    - destruct overwrite; [discriminate|].
      destruct (resolve (comps s0)) as [ca|] eqn:E1; [|discriminate].
      apply negb_false_iff in P.
      cbn [wrap_run]. rewrite w_copy_unfold, (dg_some dg d DS _ _ E1).
      destruct (resolve (comps d0)) as [cb|] eqn:E2.
      + rewrite (dg_some dg d DS _ _ E2).
        pose proof (rpath_deleg d Gd Nd _ _ E1) as Q1. rewrite P in Q1.
        destruct (wc_body_fails _ (to_path true (d ++ cb)) _ pt s Q1) as (e & K).
        unfold vmap, mbind. rewrite K. eauto.
      + rewrite (dg_none dg d DS _ E2). eauto.
  Qed.

  Theorem gen_wf_preserved : forall sub o s,
    wf s -> nn s -> lookup s d = Some sub -> is_dir sub = true -> covered o = true ->
    wf (fst (wrap_run dg o s)) /\ nn (fst (wrap_run dg o s))
    /\ exists sub', lookup (fst (wrap_run dg o s)) d = Some sub' /\ is_dir sub' = true.
  Proof.
    intros sub o s W N Hl Hs C.
    destruct (g_pre o) eqn:P.
    2:{ destruct (excluded_fails o s C P) as (e & K). rewrite K. cbn [fst]. eauto. }
    destruct (wrap_gen dg d DS Gd Nd s sub W N Hl Hs o C P) as (A & W1 & N1).
    split; [exact W1|]. split; [exact N1|].
    assert (Wsub : wf sub) by (split; [exact Hs|destruct W as [_ Wn]; eapply wf_lookup; eauto]).
    assert (Nsub : nn sub) by (destruct (nn_lookup d s sub N Hl); assumption).
    assert (C' : covered (nop o) = true) by now rewrite covered_nop.
    destruct (ref_nn (nop o) sub Nsub C') as (tr & T & _).
    unfold sub_agree in A. rewrite T in A. apply andb_true_iff in A as [_ A].
    assert (Dt : is_dir tr = true).
    { pose proof (mem_refines_ref (nop o) sub Wsub C') as B. unfold agree in B. rewrite T in B.
      apply andb_true_iff in B as [_ B]. rewrite <- (tree_eqb_is_dir _ _ B).
      exact (proj1 (mem_wf_preserved (nop o) sub Wsub C')). }
    destruct W as [_ Wn]. destruct W1 as [_ Wn1].
    exact (tree_eqb_sub_survives _ s d sub tr Wn1 Wn Hl Dt A).
  Qed.
End GenTheorems.

(* nested SubFS: the composed delegate_path prepends the concatenated directory *)
Lemma nested_dq (subs : list (list str)) : subs <> [] -> Forall (Forall good) subs ->
  forall p, nested_delegate (map (to_path true) subs) p = dq (concat (rev subs)) p.
Proof.
  intros Hn Hs p. destruct subs as [|s1 rest]; [congruence|].
  inversion Hs as [|? ? Hs1 Hs2]; subst.
  cbn [map nested_delegate]. rewrite subfs_delegate_spec by exact Hs1. unfold dq.
  destruct (resolve (comps p)) as [cs|] eqn:E; [|reflexivity].
  pose proof (resolve_comps_good _ _ E) as G.
  rewrite nested_delegate_nf by first [exact Hs2|apply Forall_good_app; assumption].
  cbn [rev]. rewrite concat_app. cbn [concat]. rewrite app_nil_r, <- app_assoc. reflexivity.
Qed.

Lemma Forall_concat_rev {A} (P : A -> Prop) (ls : list (list A)) :
  Forall (Forall P) ls -> Forall P (concat (rev ls)).
Proof. intro H. apply Forall_concat. now apply Forall_rev. Qed.

(* ================================================================== *)
(* the theorems                                                        *)
(* ================================================================== *)

(* Three corner cases make statement 1 false as first written (the same holds for 4):
   (a) a path whose NUL characters disappear in normalisation ("x\0/.."): SubFS normalises
       before MemoryFS.validatepath sees the path, the call is carried out on the
       normalised path instead of failing with InvalidCharsInPath;
   (b) openbin with an invalid mode string AND a path climbing above the root: SubFS raises
       IllegalBackReference (delegate_path comes first), the contract says ValueError;
   (c) copy(overwrite=False) from a source containing NUL onto an existing destination:
       WrapFS.copy looks at the destination first and raises DestinationExists, which is not
       admissible for a call with an invalid path argument. *)
Definition ce_a : str := [97%N].
Definition ce_b : str := [98%N].
Definition ce_s : node := Dir [(ce_a, Dir [(ce_b, File [1%N] None)] None)] None.
Definition ce_sub : node := Dir [(ce_b, File [1%N] None)] None.
Definition ce_hidden : str := [120; 0; 47; 46; 46]%N.      (* "x\0/.." *)
Definition ce_up : str := [46; 46]%N.                       (* ".." *)
Definition ce_nul : str := [120; 0]%N.                      (* "x\0" *)

Example ce_hyps : wf ce_s /\ nn ce_s /\ Forall good [ce_a]
  /\ Forall (fun c => has_char Mem.nul c = false) [ce_a]
  /\ lookup ce_s [ce_a] = Some ce_sub /\ is_dir ce_sub = true.
Proof.
  assert (Ga : good ce_a) by (repeat split; discriminate).
  assert (Gb : good ce_b) by (repeat split; discriminate).
  assert (ND : forall x : str, NoDup [x]) by (intro x; constructor; [intros []|constructor]).
  split; [|split; [|split; [|split; [|split]]]]; try reflexivity.
  - split; [reflexivity|]. simpl. repeat split; auto.
  - simpl. repeat split; auto; repeat constructor.
  - auto.
  - repeat constructor.
Qed.

Eval vm_compute in
  (subfs_run (to_path true [ce_a]) (OExists ce_hidden) ce_s, rs_res (ref_run (OExists ce_hidden) ce_sub)).
Example ce_subfs_hidden_nul :
  sub_agree [ce_a] (subfs_run (to_path true [ce_a]) (OExists ce_hidden) ce_s)
            (ref_run (OExists ce_hidden) ce_sub) ce_s = false.
Proof. vm_compute. reflexivity. Qed.

Eval vm_compute in
  (snd (subfs_run (to_path true [ce_a]) (OOpenwrite ce_up [] []) ce_s),
   rs_res (ref_run (OOpenwrite ce_up [] []) ce_sub)).
Example ce_subfs_mode_backref :
  sub_agree [ce_a] (subfs_run (to_path true [ce_a]) (OOpenwrite ce_up [] []) ce_s)
            (ref_run (OOpenwrite ce_up [] []) ce_sub) ce_s = false.
Proof. vm_compute. reflexivity. Qed.

Eval vm_compute in
  (snd (subfs_run (to_path true [ce_a]) (OCopy ce_nul ce_b false false) ce_s),
   rs_res (ref_run (OCopy ce_nul ce_b false false) ce_sub)).
Example ce_subfs_copy_dest_first :
  sub_agree [ce_a] (subfs_run (to_path true [ce_a]) (OCopy ce_nul ce_b false false) ce_s)
            (ref_run (OCopy ce_nul ce_b false false) ce_sub) ce_s = false.
Proof. vm_compute. reflexivity. Qed.

(* STATEMENT CHANGED: original statement 1
     Theorem subfs_refines_ref : forall d sub o s,
       wf s -> nn s -> Forall good d -> Forall (fun c => has_char Mem.nul c = false) d ->
       lookup s d = Some sub -> is_dir sub = true -> covered o = true ->
       sub_agree d (subfs_run (to_path true d) o s) (ref_run o sub) s = true.
   is false (ce_subfs_hidden_nul, ce_subfs_mode_backref, ce_subfs_copy_dest_first above, with
   ce_hyps).  True version: the additional hypothesis [sub_pre o = true], a condition on the
   call alone, excludes the three situations (a), (b), (c) (for (c): every copy with
   overwrite=False whose source has NUL in its normal form, whether or not the destination
   exists).  What happens there is stated by subfs_refines_ref_normalised (a: the call is
   carried out on the normalised paths) and subfs_excluded_call_fails (b, c: the call
   fails, the storage is unchanged) below.  Statement 3 holds without any such hypothesis. *)
Theorem subfs_refines_ref : forall d sub o s,
  wf s -> nn s -> Forall good d -> Forall (fun c => has_char Mem.nul c = false) d ->
  lookup s d = Some sub -> is_dir sub = true -> covered o = true ->
  sub_pre o = true ->
  sub_agree d (subfs_run (to_path true d) o s) (ref_run o sub) s = true.
Proof.
  intros d sub o s W N Gd Nd Hl Hs C P. unfold subfs_run.
  exact (gen_refines_ref _ d (fun p => subfs_delegate_spec d p Gd) Gd Nd sub o s W N Hl Hs C P).
Qed.

(* (a) in general: SubFS behaves like the reference called with the NORMALISED paths *)
Theorem subfs_refines_ref_normalised : forall d sub o s,
  wf s -> nn s -> Forall good d -> Forall (fun c => has_char Mem.nul c = false) d ->
  lookup s d = Some sub -> is_dir sub = true -> covered o = true ->
  g_pre o = true ->
  sub_agree d (subfs_run (to_path true d) o s) (ref_run (nop o) sub) s = true.
Proof.
  intros d sub o s W N Gd Nd Hl Hs C P. unfold subfs_run.
  exact (proj1 (wrap_gen _ d (fun p => subfs_delegate_spec d p Gd) Gd Nd s sub W N Hl Hs o C P)).
Qed.

(* (b), (c): the call fails and the storage is unchanged *)
Theorem subfs_excluded_call_fails : forall d o s,
  Forall good d -> Forall (fun c => has_char Mem.nul c = false) d ->
  covered o = true -> g_pre o = false ->
  exists e, subfs_run (to_path true d) o s = (s, Err e).
Proof.
  intros d o s Gd Nd C P. unfold subfs_run.
  exact (excluded_fails _ d (fun p => subfs_delegate_spec d p Gd) Gd Nd o s C P).
Qed.

(* 3. invariants are kept, and the sub-directory itself survives every call (as stated) *)
Theorem subfs_wf_preserved : forall d sub o s,
  wf s -> nn s -> Forall good d -> Forall (fun c => has_char Mem.nul c = false) d ->
  lookup s d = Some sub -> is_dir sub = true -> covered o = true ->
  wf (fst (subfs_run (to_path true d) o s)) /\ nn (fst (subfs_run (to_path true d) o s))
  /\ exists sub', lookup (fst (subfs_run (to_path true d) o s)) d = Some sub' /\ is_dir sub' = true.
Proof.
  intros d sub o s W N Gd Nd Hl Hs C. unfold subfs_run.
  exact (gen_wf_preserved _ d (fun p => subfs_delegate_spec d p Gd) Gd Nd sub o s W N Hl Hs C).
Qed.

(* STATEMENT CHANGED: original statement 4
     Theorem nested_subfs_refines_ref : forall (subs : list (list str)) sub o s,
       subs <> [] -> wf s -> nn s -> Forall (Forall good) subs ->
       Forall (Forall (fun c => has_char Mem.nul c = false)) subs ->
       lookup s (concat (rev subs)) = Some sub -> is_dir sub = true -> covered o = true ->
       sub_agree (concat (rev subs)) (nested_subfs_run (map (to_path true) subs) o s) (ref_run o sub) s = true.
   is false for the same reasons as statement 1 (subs = [[ce_a]] gives back the three
   counterexamples: ce_nested below).  True version: hypothesis [sub_pre o = true] added. *)
Example ce_nested :
  sub_agree (concat (rev [[ce_a]])) (nested_subfs_run (map (to_path true) [[ce_a]]) (OExists ce_hidden) ce_s)
            (ref_run (OExists ce_hidden) ce_sub) ce_s = false.
Proof. vm_compute. reflexivity. Qed.

Theorem nested_subfs_refines_ref : forall (subs : list (list str)) sub o s,
  subs <> [] -> wf s -> nn s -> Forall (Forall good) subs ->
  Forall (Forall (fun c => has_char Mem.nul c = false)) subs ->
  lookup s (concat (rev subs)) = Some sub -> is_dir sub = true -> covered o = true ->
  sub_pre o = true ->
  sub_agree (concat (rev subs)) (nested_subfs_run (map (to_path true) subs) o s) (ref_run o sub) s = true.
Proof.
  intros subs sub o s Hn W N Gs Ns Hl Hs C P. unfold nested_subfs_run.
  exact (gen_refines_ref _ _ (nested_dq subs Hn Gs) (Forall_concat_rev _ _ Gs)
           (Forall_concat_rev _ _ Ns) sub o s W N Hl Hs C P).
Qed.

Theorem nested_subfs_refines_ref_normalised : forall (subs : list (list str)) sub o s,
  subs <> [] -> wf s -> nn s -> Forall (Forall good) subs ->
  Forall (Forall (fun c => has_char Mem.nul c = false)) subs ->
  lookup s (concat (rev subs)) = Some sub -> is_dir sub = true -> covered o = true ->
  g_pre o = true ->
  sub_agree (concat (rev subs)) (nested_subfs_run (map (to_path true) subs) o s)
            (ref_run (nop o) sub) s = true.
Proof.
  intros subs sub o s Hn W N Gs Ns Hl Hs C P. unfold nested_subfs_run.
  exact (proj1 (wrap_gen _ _ (nested_dq subs Hn Gs) (Forall_concat_rev _ _ Gs)
                  (Forall_concat_rev _ _ Ns) s sub W N Hl Hs o C P)).
Qed.

(* statement 3 at any nesting depth *)
Theorem nested_subfs_wf_preserved : forall (subs : list (list str)) sub o s,
  subs <> [] -> wf s -> nn s -> Forall (Forall good) subs ->
  Forall (Forall (fun c => has_char Mem.nul c = false)) subs ->
  lookup s (concat (rev subs)) = Some sub -> is_dir sub = true -> covered o = true ->
  wf (fst (nested_subfs_run (map (to_path true) subs) o s))
  /\ nn (fst (nested_subfs_run (map (to_path true) subs) o s))
  /\ exists sub', lookup (fst (nested_subfs_run (map (to_path true) subs) o s)) (concat (rev subs)) = Some sub'
                  /\ is_dir sub' = true.
Proof.
  intros subs sub o s Hn W N Gs Ns Hl Hs C. unfold nested_subfs_run.
  exact (gen_wf_preserved _ _ (nested_dq subs Hn Gs) (Forall_concat_rev _ _ Gs)
           (Forall_concat_rev _ _ Ns) sub o s W N Hl Hs C).
Qed.

(* ================================================================== *)
(* 5. plain WrapFS (identity delegate_path)                            *)
(* ================================================================== *)
(* the two situations where WrapFS(MemoryFS) leaves the contract:
   removedir of a spelling of the root that contains NUL ("x\0/.."): WrapFS.removedir
   normalises the path itself and raises RemoveRootError before MemoryFS can reject the path;
   copy(overwrite=False) with an invalid source path: the destination is looked at first *)
Definition wrap_pre (o : op) : bool :=
  match o with
  | ORemovedir p =>
    negb (has_char Mem.nul p && match resolve (comps p) with Some [] => true | _ => false end)
  | OCopy a _ false _ => match rpath a with inl _ => true | inr _ => false end
  | _ => true
  end.

Lemma wrapfs_plain o s :
  match o with
  | OGetinfo _ | ORemovedir _ | ORemovetree _ | OCopy _ _ _ _ | OCopydir _ _ _ _ => True
  | _ => wrapfs_run o s = mem_run o s
  end.
Proof. destruct o; try exact I; reflexivity. Qed.

Lemma wrapfs_getinfo p s : wrapfs_run (OGetinfo p) s = mem_run (OGetinfo p) s.
Proof.
  unfold wrapfs_run. cbn [wrap_run mem_run]. unfold w_getinfo, dpath. mstep.
  destruct (rpath p) as [cs|adm] eqn:R.
  - rewrite (mem_getinfo_spec _ _ s R). destruct (lookup s cs); [|reflexivity].
    destruct (rpath_inl _ _ R) as [_ E]. rewrite (is_root_some _ _ s E). destruct cs; reflexivity.
  - rewrite (mem_getinfo_bad _ _ s R). reflexivity.
Qed.

Lemma agree_err s e adm : existsb (ecls_eqb e) adm = true ->
  agree (s, @Err value e) (fail s adm) = true.
Proof. intro H. unfold agree, fail, same. cbn. rewrite H. apply tree_eqb_refl. Qed.

Lemma rpath_nonul_some p cs : has_char Mem.nul p = false -> resolve (comps p) = Some cs ->
  rpath p = inl cs.
Proof. intros H E. unfold rpath. change Ref.nul with Mem.nul. now rewrite H, E. Qed.

Lemma wrapfs_removedir p s : wf s -> wrap_pre (ORemovedir p) = true ->
  agree (wrapfs_run (ORemovedir p) s) (ref_run (ORemovedir p) s) = true.
Proof.
  intros W P. destruct (resolve (comps p)) as [cs|] eqn:E.
  2:{ unfold wrapfs_run. cbn [wrap_run ref_run]. unfold w_removedir. mstep.
      rewrite (is_root_none _ s E). destruct (ibr_in p E) as (_ & adm & R & Hin).
      unfold with1. rewrite R. now apply agree_err. }
  destruct cs as [|c cs'].
  - unfold wrapfs_run. cbn [wrap_run ref_run]. unfold w_removedir. mstep.
    rewrite (is_root_some _ _ s E). cbn [wrap_pre] in P. rewrite E, andb_true_r in P.
    apply negb_true_iff in P. unfold with1. rewrite (rpath_nonul_some _ _ P E).
    unfold ref_removedir. now apply agree_err.
  - assert (X : wrapfs_run (ORemovedir p) s = mem_run (ORemovedir p) s).
    { unfold wrapfs_run. cbn [wrap_run mem_run]. unfold w_removedir, dpath. mstep.
      now rewrite (is_root_some _ _ s E). }
    rewrite X. now apply mem_refines_ref.
Qed.

Lemma HQ_root p k : resolve (comps p) = Some [] -> good k -> nonulc k ->
  exists ip, pjoin [p; k] = Ok ip /\ rpath ip = inl ([] ++ [k]).
Proof.
  intros E Gk Nk. destruct (pjoin_root_spelling p k E Gk) as (b & Hb).
  exists (to_path b [k]). split; [exact Hb|]. now apply rpath_single.
Qed.

Lemma wrapfs_removetree p s : wf s -> nn s ->
  agree (wrapfs_run (ORemovetree p) s) (ref_run (ORemovetree p) s) = true.
Proof.
  intros W N. destruct (resolve (comps p)) as [cs|] eqn:E.
  2:{ unfold wrapfs_run. cbn [wrap_run ref_run]. unfold w_removetree. mstep.
      rewrite normpath_spec. unfold spec_normpath. rewrite E.
      destruct (ibr_in p E) as (_ & adm & R & Hin).
      unfold with1. rewrite R. now apply agree_err. }
  pose proof (resolve_comps_good _ _ E) as G.
  destruct cs as [|c cs'].
  - assert (X : wrapfs_run (ORemovetree p) s =
                vmap (fun _ : unit => VUnit)
                     (mbind (mem_scandir p) (fun infos => mfor infos (rt_body p))) s).
    { unfold wrapfs_run. cbn [wrap_run]. unfold w_removetree, dpath, rt_body. mstep.
      rewrite normpath_spec. unfold spec_normpath. rewrite E.
      rewrite abspath_nf_gen by constructor.
      change (str_eqb (to_path true []) s_slash) with true. reflexivity. }
    rewrite X. cbn [ref_run]. unfold with1. mstep.
    destruct (rpath p) as [cs|adm] eqn:R.
    + destruct (rpath_inl _ _ R) as [_ E']. rewrite E in E'. inversion E'; subst cs.
      rewrite (mem_scandir_spec _ _ s R). cbn [lookup].
      destruct (wf_root_dir s W) as (ents & m & ->).
      destruct (rt_loop [] p (fun k => HQ_root p k E) ents (Dir ents m) m W N eq_refl) as (EL & _ & _).
      rewrite EL. cbn [put]. unfold ref_removetree, agree.
      cbn [fst snd rs_res rs_tree res_agree value_eqb andb]. apply tree_eqb_refl.
    + rewrite (mem_scandir_bad _ _ s R). apply agree_err. exact (bad_err_in _ _ R).
  - assert (X : wrapfs_run (ORemovetree p) s = mem_run (ORemovetree p) s).
    { unfold wrapfs_run. cbn [wrap_run mem_run]. unfold w_removetree, dpath. mstep.
      rewrite normpath_spec. unfold spec_normpath. rewrite E.
      rewrite abspath_nf_gen by exact G. rewrite <- to_path_root.
      rewrite (RefineLemmas.to_path_eqb (c :: cs') []) by (auto; constructor).
      reflexivity. }
    rewrite X. now apply mem_refines_ref.
Qed.

Lemma wrapfs_copy a b o pt s : wf s -> wrap_pre (OCopy a b o pt) = true ->
  agree (wrapfs_run (OCopy a b o pt) s) (ref_run (OCopy a b o pt) s) = true.
Proof.
  intros W P. unfold wrapfs_run. cbn [wrap_run]. rewrite w_copy_unfold. cbn [ref_run].
  destruct (rpath a) as [ca|e1] eqn:R1.
  - destruct (rpath b) as [cb|e2] eqn:R2.
    + assert (X : vmap (fun _ : unit => VUnit) (wc_body a b o pt) s = mem_run (OCopy a b o pt) s).
      { cbn [mem_run]. unfold vmap, mbind. now rewrite (wc_body_inl _ _ _ _ o pt s R1 R2). }
      rewrite X. pose proof (mem_refines_ref (OCopy a b o pt) s W eq_refl) as A.
      cbn [ref_run] in A. exact A.
    + unfold vmap, mbind. rewrite (wc_body_bad_r _ _ _ _ o pt s R1 R2).
      destruct (with2_bad_r s a b (fun x y => ref_copy s x y o pt) _ _ R2 (bad_err_in _ _ R2))
        as (adm' & -> & Hin').
      now apply agree_err.
  - cbn [wrap_pre] in P. rewrite R1 in P. destruct o; [|discriminate P].
    unfold vmap, mbind. rewrite (wc_body_bad_l _ _ _ pt s R1).
    destruct (with2_bad_l s a b (fun x y => ref_copy s x y true pt) _ _ R1 (bad_err_in _ _ R1))
      as (adm' & -> & Hin').
    now apply agree_err.
Qed.

Definition ce_upx : str := [46; 46; 47; 120]%N.             (* "../x" *)
Eval vm_compute in
  (snd (wrapfs_run (ORemovedir ce_hidden) ce_s), rs_res (ref_run (ORemovedir ce_hidden) ce_s)).
Example ce_wrapfs_removedir :
  agree (wrapfs_run (ORemovedir ce_hidden) ce_s) (ref_run (ORemovedir ce_hidden) ce_s) = false.
Proof. vm_compute. reflexivity. Qed.
Eval vm_compute in
  (snd (wrapfs_run (OCopy ce_upx ce_a false false) ce_s),
   rs_res (ref_run (OCopy ce_upx ce_a false false) ce_s)).
Example ce_wrapfs_copy :
  agree (wrapfs_run (OCopy ce_upx ce_a false false) ce_s)
        (ref_run (OCopy ce_upx ce_a false false) ce_s) = false.
Proof. vm_compute. reflexivity. Qed.

(* STATEMENT CHANGED: original statement 5
     Theorem wrapfs_refines_ref : forall o s, wf s -> nn s -> covered o = true ->
       agree (wrapfs_run o s) (ref_run o s) = true.
   is false: ce_wrapfs_removedir (RemoveRootError for removedir("x\0/..") where the contract
   says InvalidCharsInPath) and ce_wrapfs_copy (DestinationExists for
   copy("../x", existing, overwrite=False) where the contract says IllegalBackReference), on
   the well-formed ce_s (ce_hyps).  True version: hypothesis [wrap_pre o = true], a condition
   on the call alone that excludes these two situations (removedir of a NUL-containing
   spelling of the root; copy with overwrite=False and an invalid source path); there the
   call fails and changes nothing (wrapfs_excluded_call_fails). *)
Theorem wrapfs_refines_ref : forall o s, wf s -> nn s -> covered o = true ->
  wrap_pre o = true ->
  agree (wrapfs_run o s) (ref_run o s) = true.
Proof.
  intros o s W N C P. pose proof (wrapfs_plain o s) as H.
  destruct o; try discriminate C; try (rewrite H; now apply mem_refines_ref).
  - rewrite wrapfs_getinfo. now apply mem_refines_ref.
  - now apply wrapfs_removedir.
  - now apply wrapfs_removetree.
  - now apply wrapfs_copy.
Qed.

Theorem wrapfs_excluded_call_fails : forall o s, covered o = true -> wrap_pre o = false ->
  exists e, wrapfs_run o s = (s, Err e).
Proof.
  intros o s C P. destruct o; try discriminate P; cbn [wrap_pre] in P.
  - apply negb_false_iff in P. apply andb_true_iff in P as [_ P].
    destruct (resolve (comps p)) as [[|c cs]|] eqn:E; try discriminate P.
    unfold wrapfs_run. cbn [wrap_run]. unfold w_removedir. mstep.
    rewrite (is_root_some _ _ s E). eauto.
  - destruct overwrite; [discriminate|].
    destruct (rpath s0) as [ca|e1] eqn:R1; [discriminate|].
    unfold wrapfs_run. cbn [wrap_run]. rewrite w_copy_unfold.
    destruct (wc_body_fails s0 d _ pt s R1) as (e & K).
    unfold vmap, mbind. rewrite K. eauto.
Qed.

(* ================================================================== *)
(* 2. the walker-based calls, non-degenerate cases                     *)
(* ================================================================== *)
Definition wcd_body (qs qd : str) (create pt : bool) : MM unit :=
  mbind (if create then ret true else mem_exists qd) (fun e =>
    if negb e then raise ResourceNotFound
    else mbind (mem_getinfo qs) (fun i =>
      if negb (i_isdir i) then raise DirectoryExpected
      else copy_dir mem_low mem_copy qs qd pt)).

Lemma w_copydir_unfold dg a b c pt s :
  vmap (fun _ : unit => VUnit) (w_copydir dg a b c pt) s =
  match dg a with
  | Ok qs => match dg b with
             | Ok qd => vmap (fun _ : unit => VUnit) (wcd_body qs qd c pt) s
             | Err e => (s, Err e)
             | Crash k => (s, Crash k)
             end
  | Err e => (s, Err e)
  | Crash k => (s, Crash k)
  end.
Proof.
  unfold w_copydir, wcd_body, dpath. mstep. destruct (dg a); [|reflexivity|reflexivity].
  destruct (dg b); reflexivity.
Qed.

Lemma wcd_unfold a b create pt s : vp a -> vp b ->
  wcd_body (to_path true a) (to_path true b) create pt s =
  if negb (if create then true else match lookup s b with Some _ => true | None => false end)
  then (s, Err ResourceNotFound)
  else match lookup s a with
       | None => (s, Err ResourceNotFound)
       | Some n => if is_dir n
                   then copy_dir mem_low mem_copy (to_path true a) (to_path true b) pt s
                   else (s, Err DirectoryExpected)
       end.
Proof.
  intros Va Vb. unfold wcd_body, mem_exists.
  destruct create; mstep; cbn [negb]; mstep.
  - rewrite (mem_getinfo_spec _ _ s (rpath_nf _ Va)).
    destruct (lookup s a) as [n|]; [|reflexivity]. mstep. cbn [to_info i_isdir].
    destruct (is_dir n); reflexivity.
  - rewrite (mem_exists_spec _ _ s (rpath_nf _ Vb)). mstep.
    destruct (lookup s b) as [nb|]; cbn [negb]; mstep; [|reflexivity].
    rewrite (mem_getinfo_spec _ _ s (rpath_nf _ Va)).
    destruct (lookup s a) as [n|]; [|reflexivity]. mstep. cbn [to_info i_isdir].
    destruct (is_dir n); reflexivity.
Qed.

Lemma copy_dir_illegal a b pt s : vp a -> vp b -> list_prefix a b = true ->
  copy_dir mem_low mem_copy (to_path true a) (to_path true b) pt s = (s, Err IllegalDestination).
Proof.
  intros Va Vb H. pose proof Va as [Ga _]. pose proof Vb as [Gb _].
  rewrite copy_dir_unfold. mstep. rewrite !normpath_nf by assumption.
  rewrite copy_structure_unfold. mstep.
  rewrite (validate_inl _ _ s (rpath_nf _ Va)). mstep.
  rewrite (validate_inl _ _ s (rpath_nf _ Vb)). mstep.
  rewrite (isbase_nf true a true b Ga Gb), <- list_prefix_cprefix, H. reflexivity.
Qed.

Lemma sub_agree_lift d s obs o' o sub :
  agree obs (ref_run o' s) = true -> ref_run o' s = lift_step d s (ref_run o sub) ->
  sub_agree d obs (ref_run o sub) s = true.
Proof. intros A E. rewrite E, agree_lift in A. exact A. Qed.

Section Walk.
  Variables (d : list str) (s sub : node).
  Hypothesis W : wf s.
  Hypothesis N : nn s.
  Hypothesis Gd : Forall good d.
  Hypothesis Nd : Forall (fun c => has_char Mem.nul c = false) d.
  Hypothesis Hl : lookup s d = Some sub.
  Hypothesis Hsub : is_dir sub = true.

  Let DS := fun p => subfs_delegate_spec d p Gd.

  Lemma vp_pre cs : vp cs -> vp (d ++ cs).
  Proof. intro V. apply vp_app. split; [split; assumption|exact V]. Qed.

  Lemma plift_inl p cs : rpath p = inl cs -> plift d p (to_path true (d ++ cs)).
  Proof. intro R. unfold plift. rewrite R. apply rpath_nf. apply vp_pre. eapply rpath_vp; eauto. Qed.

  Lemma walk_makedirs p r cs : rpath p = inl cs ->
    sub_agree d (subfs_run (to_path true d) (OMakedirs p r) s) (ref_run (OMakedirs p r) sub) s = true.
  Proof.
    intro R. destruct (rpath_inl _ _ R) as [_ E]. pose proof (rpath_vp _ _ R) as V.
    unfold subfs_run. cbn [wrap_run]. rewrite (map1_some _ d DS _ _ _ _ E).
    eapply sub_agree_lift.
    - eapply mem_makedirs_refines_ref; [exact W|]. apply rpath_nf. now apply vp_pre.
    - apply ref_frame_walk; auto. cbn [op_lift]. split; [now apply plift_inl|reflexivity].
  Qed.

  Lemma walk_movedir a b c pt ca cb : rpath a = inl ca -> rpath b = inl cb ->
    list_prefix cb ca = false ->
    sub_agree d (subfs_run (to_path true d) (OMovedir a b c pt) s) (ref_run (OMovedir a b c pt) sub) s = true.
  Proof.
    intros R1 R2 Hba. destruct (rpath_inl _ _ R1) as [_ E1]. destruct (rpath_inl _ _ R2) as [_ E2].
    pose proof (rpath_vp _ _ R1) as V1. pose proof (rpath_vp _ _ R2) as V2.
    unfold subfs_run. cbn [wrap_run]. rewrite (map2_some _ d DS _ _ _ _ _ _ E1 E2).
    eapply sub_agree_lift.
    - eapply (mem_movedir_refines_ref_nondegenerate _ _ c pt s (d ++ ca) (d ++ cb)); auto.
      + apply rpath_nf. now apply vp_pre.
      + apply rpath_nf. now apply vp_pre.
      + now rewrite list_prefix_app.
    - apply ref_frame_walk; auto. cbn [op_lift]. repeat split; now apply plift_inl.
  Qed.

  Lemma walk_copydir a b c pt ca cb : rpath a = inl ca -> rpath b = inl cb ->
    list_prefix cb ca = false ->
    sub_agree d (subfs_run (to_path true d) (OCopydir a b c pt) s) (ref_run (OCopydir a b c pt) sub) s = true.
  Proof.
    intros R1 R2 Hba. destruct (rpath_inl _ _ R1) as [_ E1]. destruct (rpath_inl _ _ R2) as [_ E2].
    pose proof (rpath_vp _ _ R1) as V1. pose proof (rpath_vp _ _ R2) as V2.
    pose proof (vp_pre _ V1) as VA. pose proof (vp_pre _ V2) as VB.
    unfold subfs_run. cbn [wrap_run]. rewrite w_copydir_unfold.
    rewrite (dg_some _ d DS _ _ E1), (dg_some _ d DS _ _ E2).
    destruct (list_prefix ca cb) eqn:Hab.
    - (* destination inside the source: some failure, all of them admissible *)
      unfold vmap, mbind. rewrite (wcd_unfold _ _ c pt s VA VB).
      rewrite !(lookup_pre d s sub _ Hl).
      cbn [ref_run]. unfold with2. rewrite R1, R2. unfold ref_dirtransfer. cbn [andb].
      assert (K : forall e, existsb (ecls_eqb e) (dirtransfer_errors sub ca cb c false) = true ->
                  sub_agree d (s, @Err value e)
                    match dirtransfer_errors sub ca cb c false with
                    | [] => if list_prefix cb ca then {| rs_tree := None; rs_res := RAny |}
                            else match lookup sub ca, lookup sub cb with
                                 | Some src, None =>
                                   let t1 := put (mkdirs sub [] cb) cb (fresh pt src) in
                                   {| rs_tree := Some t1; rs_res := ROk VUnit |}
                                 | Some src, Some dst =>
                                   match merge_node (S (tree_size src)) pt dst (fresh pt src) with
                                   | Some m => let t1 := put sub cb m in
                                               {| rs_tree := Some t1; rs_res := ROk VUnit |}
                                   | None => {| rs_tree := None;
                                                rs_res := RFail [DirectoryExpected; FileExpected;
                                                                 DirectoryExists; ResourceNotFound] |}
                                   end
                                 | _, _ => fail sub [ResourceNotFound]
                                 end
                    | (_ :: _) as e0 => fail sub e0
                    end s = true).
      { intros e He. destruct (dirtransfer_errors sub ca cb c false) as [|x l]; [discriminate|].
        unfold sub_agree, fail, same. cbn [fst snd rs_res rs_tree res_agree]. rewrite He.
        rewrite (put_id _ _ _ Hl). apply tree_eqb_refl. }
      destruct (negb (if c then true else match lookup sub cb with Some _ => true | None => false end)) eqn:Hex.
      { destruct c; [discriminate|]. destruct (lookup sub cb) eqn:Lb; [discriminate|].
        apply K. rewrite dte_eq, Hab.
        destruct (status_lookup_none _ _ Lb) as [E|E]; rewrite E;
          destruct (status_of sub ca); destruct (prefix_is_file sub [] cb); reflexivity. }
      destruct (lookup sub ca) as [S0|] eqn:La.
      2:{ apply K. rewrite dte_eq, Hab.
          destruct (status_lookup_none _ _ La) as [E|E]; rewrite E; reflexivity. }
      destruct S0 as [d0 m0|es ms]; cbn [is_dir].
      { apply K. rewrite dte_eq, Hab, (status_file _ _ _ _ La). reflexivity. }
      rewrite (copy_dir_illegal _ _ pt s VA VB) by now rewrite list_prefix_app.
      apply K. rewrite dte_eq, Hab. reflexivity.
    - assert (X : vmap (fun _ : unit => VUnit)
                    (wcd_body (to_path true (d ++ ca)) (to_path true (d ++ cb)) c pt) s
                  = mem_run (OCopydir (to_path true (d ++ ca)) (to_path true (d ++ cb)) c pt) s).
      { cbn [mem_run]. unfold vmap, mbind.
        rewrite (copydir_unfold _ _ c pt s _ _ (rpath_nf _ VA) (rpath_nf _ VB)).
        rewrite list_prefix_app, Hab. now rewrite (wcd_unfold _ _ c pt s VA VB). }
      rewrite X. eapply sub_agree_lift.
      + eapply (mem_copydir_refines_ref _ _ c pt s (d ++ ca) (d ++ cb)); auto.
        * now apply rpath_nf.
        * now apply rpath_nf.
        * now rewrite list_prefix_app.
      + apply ref_frame_walk; auto. cbn [op_lift]. repeat split; now apply plift_inl.
  Qed.
End Walk.

(* 2. as stated *)
Theorem subfs_refines_ref_walk : forall d sub o s,
  wf s -> nn s -> Forall good d -> Forall (fun c => has_char Mem.nul c = false) d ->
  lookup s d = Some sub -> is_dir sub = true ->
  (match o with
   | OMakedirs p _ => exists cs, rpath p = inl cs
   | OCopydir a b _ _ | OMovedir a b _ _ =>
     exists ca cb, rpath a = inl ca /\ rpath b = inl cb /\ list_prefix cb ca = false
   | _ => False
   end) ->
  sub_agree d (subfs_run (to_path true d) o s) (ref_run o sub) s = true.
Proof.
  intros d sub o s W N Gd Nd Hl Hs H. destruct o; try contradiction.
  - destruct H as (cs & R). now apply (walk_makedirs d s sub W Gd Nd Hl Hs p recreate cs).
  - destruct H as (ca & cb & R1 & R2 & Hba).
    now apply (walk_movedir d s sub W N Gd Nd Hl Hs s0 d0 create pt ca cb).
  - destruct H as (ca & cb & R1 & R2 & Hba).
    now apply (walk_copydir d s sub W N Gd Nd Hl Hs s0 d0 create pt ca cb).
Qed.

(* Summary.  Proved as stated: subfs_refines_ref_walk (2), subfs_wf_preserved (3).
   Proved with an added hypothesis (STATEMENT CHANGED, counterexamples above):
   subfs_refines_ref (1) and nested_subfs_refines_ref (4) with [sub_pre o = true],
   wrapfs_refines_ref (5) with [wrap_pre o = true].
   Complements: subfs_refines_ref_normalised, nested_subfs_refines_ref_normalised (every
   covered call satisfying g_pre, against the reference on the normalised paths),
   subfs_excluded_call_fails, wrapfs_excluded_call_fails, nested_subfs_wf_preserved;
   wrap_gen / gen_refines_ref / gen_wf_preserved: the same for ANY wrapper whose
   delegate_path is [dq d].  Nothing is left unproved. *)
