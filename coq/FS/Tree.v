(* Directory trees: nodes, ordered association lists (OrderedDict), path-indexed access. *)
From Coq Require Import List NArith ZArith Bool Arith Lia.
From PyFS Require Import Base.PyStr.
Import ListNotations.

Definition bytes := list N.

Inductive node :=
| File (data : bytes) (mt : option Z)
| Dir (ents : list (str * node)) (mt : option Z).

Definition is_dir (n : node) : bool := match n with Dir _ _ => true | File _ _ => false end.
Definition node_mt (n : node) : option Z := match n with Dir _ m => m | File _ m => m end.
Definition node_size (n : node) : nat := match n with File d _ => length d | Dir _ _ => 0 end.
Definition set_mt (n : node) (m : option Z) : node :=
  match n with File d _ => File d m | Dir e _ => Dir e m end.
Definition empty_dir : node := Dir [] None.
Definition dir_ents (n : node) : list (str * node) :=
  match n with Dir e _ => e | File _ _ => [] end.

(* OrderedDict: get / set (in place when present, appended otherwise) / del *)
Fixpoint assoc {A} (k : str) (l : list (str * A)) : option A :=
  match l with
  | [] => None
  | (k', v) :: r => if str_eqb k k' then Some v else assoc k r
  end.

Fixpoint assoc_set {A} (k : str) (v : A) (l : list (str * A)) : list (str * A) :=
  match l with
  | [] => [(k, v)]
  | (k', v') :: r => if str_eqb k k' then (k, v) :: r else (k', v') :: assoc_set k v r
  end.

Fixpoint assoc_del {A} (k : str) (l : list (str * A)) : list (str * A) :=
  match l with
  | [] => []
  | (k', v') :: r => if str_eqb k k' then r else (k', v') :: assoc_del k r
  end.

Definition keys {A} (l : list (str * A)) : list str := map fst l.

(* the node at a component path *)
Fixpoint lookup (t : node) (p : list str) : option node :=
  match p with
  | [] => Some t
  | c :: rest =>
    match t with
    | Dir ents _ => match assoc c ents with Some n => lookup n rest | None => None end
    | File _ _ => None
    end
  end.

(* put n at path p: the parent must be an existing directory, otherwise t is returned
   unchanged (callers check first, as the code does) *)
Fixpoint put (t : node) (p : list str) (n : node) : node :=
  match p with
  | [] => n
  | c :: rest =>
    match t with
    | Dir ents mt =>
      match rest with
      | [] => Dir (assoc_set c n ents) mt
      | _ => match assoc c ents with
             | Some ch => Dir (assoc_set c (put ch rest n) ents) mt
             | None => t
             end
      end
    | File _ _ => t
    end
  end.

Fixpoint del (t : node) (p : list str) : node :=
  match p with
  | [] => t
  | c :: rest =>
    match t with
    | Dir ents mt =>
      match rest with
      | [] => Dir (assoc_del c ents) mt
      | _ => match assoc c ents with
             | Some ch => Dir (assoc_set c (del ch rest) ents) mt
             | None => t
             end
      end
    | File _ _ => t
    end
  end.

(* all files / all resources below a node, as (component path, _) in entry order *)
Fixpoint files_of (t : node) : list (list str * bytes) :=
  match t with
  | File d _ => [([], d)]
  | Dir ents _ =>
    (fix go (l : list (str * node)) : list (list str * bytes) :=
       match l with
       | [] => []
       | (k, n) :: r => map (fun pb => (k :: fst pb, snd pb)) (files_of n) ++ go r
       end) ents
  end.

Fixpoint paths_of (t : node) : list (list str * bool) :=   (* (path, is_dir), root excluded *)
  match t with
  | File _ _ => []
  | Dir ents _ =>
    (fix go (l : list (str * node)) : list (list str * bool) :=
       match l with
       | [] => []
       | (k, n) :: r =>
         ([k], is_dir n) :: map (fun pb => (k :: fst pb, snd pb)) (paths_of n) ++ go r
       end) ents
  end.

Fixpoint tree_size (t : node) : nat :=
  match t with
  | File _ _ => 1
  | Dir ents _ =>
    S ((fix go (l : list (str * node)) : nat :=
          match l with [] => 0 | (_, n) :: r => tree_size n + go r end) ents)
  end.

Fixpoint list_prefix (a b : list str) : bool :=
  match a, b with
  | [], _ => true
  | x :: a', y :: b' => str_eqb x y && list_prefix a' b'
  | _ :: _, [] => false
  end.

Fixpoint path_eqb (a b : list str) : bool :=
  match a, b with
  | [], [] => true
  | x :: a', y :: b' => str_eqb x y && path_eqb a' b'
  | _, _ => false
  end.
