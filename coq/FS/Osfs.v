(* fs/osfs.py: OSFS over the kernel model of FS/Posix.v (state = the tree below the root
   directory of the OSFS).  Each essential method is written against the system calls it makes, wrapped
   in the errno -> fs.errors translation of fs/error_tools.py (convert_os_errors) exactly where the
   code wraps them; the derived methods OSFS inherits from fs/base.py are the ones of FS/Base.v,
   instantiated with [os_low]; OSFS's own overrides of derived methods (copy; FS.move's os.rename
   fast path, which only filesystems with system paths take) are modelled here.

   Platform: Linux, CPython >= 3.8 (the [copy] of the [else] branch of the version test: shutil.copy2),
   not Windows / macOS (the win32 / darwin branches of OSFS.remove are dead code here). *)
From Coq Require Import List NArith ZArith Bool Arith.
From PyFS Require Import Base.PyStr Base.Outcome Path.PathModel
     FS.Tree FS.Monad FS.Mode FS.Base FS.Mem FS.Ops FS.Posix.
Import ListNotations.
Local Open Scope monad_scope.

Definition OM := M node.

(* ---- fs/error_tools.py: _ConvertOSErrors.FILE_ERRORS / DIR_ERRORS restricted to the errnos the
   kernel model can produce (EBUSY is in neither table: OperationFailed) ---- *)
Definition os_file_errors (e : errno) : ecls :=
  match e with
  | EACCES => PermissionDenied
  | ENOENT => ResourceNotFound
  | ENOTEMPTY => DirectoryNotEmpty
  | EEXIST => FileExists
  | ENOTDIR => ResourceNotFound
  | EISDIR => FileExpected
  | EINVAL => FileExpected
  | EPERM => PermissionDenied
  | EBUSY => OperationFailed
  end.

Definition os_dir_errors (e : errno) : ecls :=
  match e with
  | ENOTDIR => DirectoryExpected
  | EEXIST => DirectoryExists
  | EINVAL => DirectoryExpected
  | _ => os_file_errors e
  end.

(* with convert_os_errors(op, path, directory=...): <one system call> *)
Definition sys {A} (table : errno -> ecls) (k : K A) : OM A :=
  fun s => match k s with
           | inl e => (s, Err (table e))
           | inr (s', a) => (s', Ok a)
           end.

(* a system call outside any convert_os_errors block: an OSError escapes as it is *)
Definition sys_raw {A} (k : K A) : OM A :=
  fun s => match k s with
           | inl _ => (s, Crash RawOSError)
           | inr (s', a) => (s', Ok a)
           end.

(* OSFS.validatepath -> FS.validatepath with meta invalid_path_chars = "\0": NUL check,
   getsyspath (normpath: IllegalBackReference) for the max_sys_path_length test - system paths are
   assumed shorter than PATH_MAX (4096) -, abspath(normpath(path)).  The same function as for
   MemoryFS. *)
Definition os_validatepath : str -> OM str := mem_validatepath.

(* _to_sys_path(_path) / getsyspath(_path) of a validated path: the components below the root *)
Definition syspath (q : str) : OM (list str) := lift (iteratepath q).

Definition info_of_stat (name : str) (st : kstat) : info :=
  {| i_name := name; i_isdir := st_isdir st; i_size := st_size st; i_mt := st_mtime st |}.

(* OSFS.getinfo: os.stat under convert_os_errors("getinfo", path) (FILE table) *)
Definition os_getinfo (p : str) : OM info :=
  q <- os_validatepath p ;;
  cs <- syspath q ;;
  st <- sys os_file_errors (k_stat cs) ;;
  ret (info_of_stat (basename q) st).

(* OSFS.listdir: os.listdir under the DIR table *)
Definition os_listdir (p : str) : OM (list str) :=
  q <- os_validatepath p ;;
  cs <- syspath q ;;
  sys os_dir_errors (k_listdir cs).

(* OSFS.scandir/_scandir: os.scandir under the DIR table; name, is_dir() and stat() of each entry *)
Definition os_scandir (p : str) : OM (list info) :=
  q <- os_validatepath p ;;
  cs <- syspath q ;;
  l <- sys os_dir_errors (k_scandir cs) ;;
  ret (map (fun ns => info_of_stat (fst ns) (snd ns)) l).

(* FS.opendir (not overridden): getinfo(path).is_dir or DirectoryExpected *)
Definition os_opendir (p : str) : OM unit :=
  i <- os_getinfo p ;; if i_isdir i then ret tt else raise DirectoryExpected.

(* OSFS.makedir: inside convert_os_errors("makedir", path, directory=True):
     try: os.mkdir  except OSError: ENOENT -> ResourceNotFound ; EEXIST and recreate -> pass ; else re-raise
     return self.opendir(_path)       (opendir's fs.errors pass through the context manager) *)
Definition os_makedir (p : str) (recreate : bool) : OM unit :=
  q <- os_validatepath p ;;
  cs <- syspath q ;;
  _ <- (fun s => match k_mkdir cs s with
                 | inr (s', _) => (s', Ok tt)
                 | inl ENOENT => (s, Err ResourceNotFound)
                 | inl EEXIST => if recreate then (s, Ok tt) else (s, Err (os_dir_errors EEXIST))
                 | inl e => (s, Err (os_dir_errors e))
                 end) ;;
  os_opendir q.

(* io.open's own check of the mode string handed over by Mode.to_platform_bin (it runs before the
   system call): every character at most once, exactly one of r w x a, else ValueError.  fs.mode.Mode
   accepts e.g. "rw" and "rbb", io.open does not *)
Fixpoint nodup_chars (m : str) : bool :=
  match m with
  | [] => true
  | c :: r => negb (has_char c r) && nodup_chars r
  end.
Definition count_true (l : list bool) : nat := length (filter (fun b => b) l).
Definition io_mode_ok (m : str) : bool :=
  nodup_chars m
  && Nat.eqb (count_true [has_char ch_r m; has_char ch_w m; has_char ch_x m; has_char ch_a m]) 1.

(* OSFS.openbin up to the open file: Mode(mode) + validate_bin (ValueError), validatepath,
   the root is refused (FileExpected), io.open under the FILE table.
   Returns (components, position) like mem_open *)
Definition os_open (p mode : str) : OM (list str * nat) :=
  if negb (mode_valid_bin mode) then crash ValueError
  else
    q <- os_validatepath p ;;
    if str_eqb q s_slash then raise FileExpected
    else
      cs <- syspath q ;;
      if negb (io_mode_ok mode) then crash ValueError
      else
        pos <- sys os_file_errors (k_open cs mode) ;;
        ret (cs, pos).

(* open(path,'rb').read(); close *)
Definition os_openread (p : str) : OM bytes :=
  h <- os_open p m_rb ;;
  sys_raw (k_readall (fst h) (snd h)).

(* openbin(path, mode); write(data) if Some; close *)
Definition os_openwrite (p mode : str) (d : option bytes) : OM unit :=
  h <- os_open p mode ;;
  match d with
  | None => ret tt
  | Some data =>
    if negb (m_writing mode) then crash RawOSError   (* io.UnsupportedOperation: not writable *)
    else sys_raw (k_write (fst h) (snd h) data)
  end.

(* OSFS.remove: os.remove under the FILE table (EISDIR -> FileExpected on Linux; the EACCES/win32 and
   EPERM/darwin re-checks are dead on this platform) *)
Definition os_remove (p : str) : OM unit :=
  q <- os_validatepath p ;;
  cs <- syspath q ;;
  sys os_file_errors (k_unlink cs).

(* OSFS.removedir: RemoveRootError for the root, os.rmdir under the DIR table *)
Definition os_removedir (p : str) : OM unit :=
  q <- os_validatepath p ;;
  if str_eqb q s_slash then raise RemoveRootError
  else
    cs <- syspath q ;;
    sys os_dir_errors (k_rmdir cs).

(* OSFS.setinfo: os.path.exists (a failing stat is False) else ResourceNotFound; os.utime under the
   FILE table.  The harness always passes details.modified (accessed defaults to it) *)
Definition os_setinfo (p : str) (mt : option Z) : OM unit :=
  q <- os_validatepath p ;;
  cs <- syspath q ;;
  ex <- (fun s => match k_stat cs s with inl _ => (s, Ok false) | inr _ => (s, Ok true) end) ;;
  if negb ex then raise ResourceNotFound
  else sys os_file_errors (k_utime cs mt).

(* FS.removetree (OSFS does not override it): validatepath first (since /repo b9cf049; before that the path
   was only normalised, so a NUL cancelled by a back-reference went unnoticed and "t\0/.." emptied the root),
   then a depth-first walk (walk.Walker(search="depth").info) of the validated path, removedir / remove on
   everything it yields, then removedir(dir_path) - the caller's spelling - unless it is the root.
   Walker._walk_depth keeps a stack of (directory, scandir iterator, parent entry); a directory entry is
   pushed, its iterator is first advanced at the next turn of the loop (nothing happens in between), its
   content is yielded, then the entry itself.  That explicit stack is written here as the equivalent
   recursion; a scandir result is a snapshot taken when the directory is entered (see k_scandir).
   An error raised by scandir inside the walk propagates (on_error re-raises by default). *)
Fixpoint os_rm_walk (fuel : nat) (dir_path : str) : OM unit :=
  match fuel with
  | O => crash NonTermination
  | S f =>
    infos <- os_scandir dir_path ;;
    mfor infos (fun i =>
      let pth := combine dir_path (i_name i) in
      if i_isdir i then (_ <- os_rm_walk f pth ;; os_removedir pth)
      else os_remove pth)
  end.

Definition os_removetree (p : str) : OM unit :=
  _dir_path <- os_validatepath p ;;
  s <- get ;;
  _ <- os_rm_walk (S (tree_size s)) _dir_path ;;
  if str_eqb _dir_path s_slash then ret tt else os_removedir p.

Definition os_low : low node :=
  {| l_validatepath := os_validatepath; l_getinfo := os_getinfo; l_listdir := os_listdir;
     l_scandir := os_scandir; l_makedir := os_makedir; l_openread := os_openread;
     l_openwrite := os_openwrite; l_remove := os_remove; l_removedir := os_removedir;
     l_removetree := os_removetree; l_setinfo := os_setinfo; l_fuel := tree_size |}.

(* OSFS.gettype: os.stat under the FILE table, type from st_mode: the same as getinfo's *)
Definition os_gettype := b_gettype os_low.
Definition os_exists := b_exists os_low.
Definition os_isdir := b_isdir os_low.

(* OSFS._check_copy *)
Definition os_check_copy (src dst : str) (overwrite : bool) : OM (str * str) :=
  _src <- os_validatepath src ;;
  _dst <- os_validatepath dst ;;
  ty <- os_gettype _src ;;
  if negb (Nat.eqb ty 2) then raise FileExpected
  else
    e <- (if overwrite then ret false else os_exists _dst) ;;
    if e then raise DestinationExists
    else if str_eqb _src _dst then raise IllegalDestination
    else
      isd <- os_isdir _dst ;;
      if isd then raise FileExpected
      else
        pty <- os_gettype (dirname _dst) ;;
        if negb (Nat.eqb pty 1) then raise DirectoryExpected
        else ret (_src, _dst).

(* OSFS.copy (Python >= 3.8): _check_copy, then shutil.copy2(src_sys, dst_sys) OUTSIDE any
   convert_os_errors block: copyfile (open src 'rb', open dst 'wb', copy) + copystat (utime with the
   source's times).  preserve_time is not looked at: the time is always preserved *)
Definition os_copy (src dst : str) (overwrite preserve_time : bool) : OM unit :=
  sd <- os_check_copy src dst overwrite ;;
  scs <- syspath (fst sd) ;;
  dcs <- syspath (snd sd) ;;
  spos <- sys_raw (k_open scs m_rb) ;;
  dpos <- sys_raw (k_open dcs m_wb) ;;
  data <- sys_raw (k_readall scs spos) ;;
  _ <- sys_raw (k_write dcs dpos data) ;;
  st <- sys_raw (k_stat scs) ;;
  sys_raw (k_utime dcs (st_mtime st)).

(* FS.move on a filesystem with supports_rename and system paths (fs/base.py): the argument checks of
   the generic move, then os.rename(src_sys, dst_sys); any OSError falls through to the generic
   open / upload / copy_modified_time / remove *)
Definition os_move (src dst : str) (overwrite preserve_time : bool) : OM unit :=
  _src <- os_validatepath src ;;
  _dst <- os_validatepath dst ;;
  e <- (if overwrite then ret false else os_exists _dst) ;;
  if e then raise DestinationExists
  else
    i <- os_getinfo _src ;;
    if i_isdir i then raise FileExpected
    else if str_eqb _src _dst then ret tt
    else
      scs <- syspath _src ;;
      dcs <- syspath _dst ;;
      fun s =>
        match k_rename scs dcs s with
        | inr (s', _) => (s', Ok tt)
        | inl _ =>
          (d <- os_openread _src ;;
           _ <- b_upload os_low _dst d ;;
           _ <- (if preserve_time then b_copy_modified_time os_low _src _dst else ret tt) ;;
           os_remove _src) s
        end.

(* the call language of FS/Ops.v on OSFS *)

Definition osfs_run (o : op) : OM value :=
  match o with
  | OGetinfo p => vmap VInfo (os_getinfo p)
  | OListdir p => vmap VNames (os_listdir p)
  | OScandir p => vmap VInfos (os_scandir p)
  | OMakedir p r => vmap (fun _ => VUnit) (os_makedir p r)
  | OMakedirs p r => vmap (fun _ => VUnit) (b_makedirs os_low p r)
  | OWritebytes p d => vmap (fun _ => VUnit) (b_writebytes os_low p d)
  | OAppendbytes p d => vmap (fun _ => VUnit) (b_appendbytes os_low p d)
  | OReadbytes p => vmap VBytes (b_readbytes os_low p)
  | OCreate p w => vmap VBool (b_create os_low p w)
  | OTouch p => vmap (fun _ => VUnit) (b_touch os_low p)
  | OOpenwrite p m d =>
    vmap (fun _ => VUnit) (os_openwrite p m (if m_writing m then Some d else None))
  | OOpenread p m =>
    h <- os_open p m ;;
    if m_reading m then vmap VBytes (sys_raw (k_readall (fst h) (snd h)))
    else ret VUnit
  | ORemove p => vmap (fun _ => VUnit) (os_remove p)
  | ORemovedir p => vmap (fun _ => VUnit) (os_removedir p)
  | ORemovetree p => vmap (fun _ => VUnit) (os_removetree p)
  | OMove s d o t => vmap (fun _ => VUnit) (os_move s d o t)
  | OCopy s d o t => vmap (fun _ => VUnit) (os_copy s d o t)
  | OMovedir s d c t => vmap (fun _ => VUnit) (b_movedir os_low os_copy s d c t)
  | OCopydir s d c t => vmap (fun _ => VUnit) (b_copydir os_low os_copy s d c t)
  | OSetinfo p mt => vmap (fun _ => VUnit) (os_setinfo p mt)
  | OExists p => vmap VBool (os_exists p)
  | OIsdir p => vmap VBool (os_isdir p)
  | OIsfile p => vmap VBool (b_isfile os_low p)
  | OIsempty p => vmap VBool (b_isempty os_low p)
  | OGetsize p => vmap VNat (b_getsize os_low p)
  | OGettype p => vmap VNat (os_gettype p)
  end.
