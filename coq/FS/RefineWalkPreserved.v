(* W4: the C05 predicate [preserved] for copydir / movedir on the MemoryFS model
   (non-degenerate case), success and failure branches. *)
From Coq Require Import List NArith ZArith Bool Arith Lia.
From PyFS Require Import Base.PyStr Base.Outcome Path.PathModel Path.PathSpec Path.PathProofs
     FS.Tree FS.Monad FS.Mode FS.Base FS.Mem FS.Ops FS.Ref FS.Agree FS.Wf
     FS.TreeLemmas FS.RefineLemmas FS.RefineProofs FS.Props FS.PropsProofs
     FS.RefineWalkLemmasEq FS.RefineWalkLemmasMk FS.RefineWalkLemmasBfs
     FS.RefineWalkLemmasMerge FS.RefineWalkLemmasCopy FS.RefineWalkNn FS.RefineWalk.
Import ListNotations.

(* ------------------------------------------------------------------ *)
(* general facts                                                       *)
(* ------------------------------------------------------------------ *)
Lemma lookup_files_of p : forall t d m, lookup t p = Some (File d m) -> In (p, d) (files_of t).
Proof.
  induction p as [|k p IH]; intros t d m L.
  - simpl in L. inversion L; subst. simpl. now left.
  - simpl in L. destruct t as [|ents m0]; [discriminate|].
    destruct (assoc k ents) as [ch|] eqn:A; [|discriminate].
    rewrite files_of_dir. unfold files_ents. apply in_flat_map.
    exists (k, ch). split; [now apply assoc_some_In|].
    apply in_map_iff. exists (p, d). split; [reflexivity|]. eapply IH; eauto.
Qed.

Definition mono (t t' : node) : Prop := forall q v, shl t q = Some v -> shl t' q = Some v.

Lemma mono_refl t : mono t t.
Proof. intros q v H. exact H. Qed.

Lemma mono_trans t1 t2 t3 : mono t1 t2 -> mono t2 t3 -> mono t1 t3.
Proof. intros H1 H2 q v H. apply H2, H1, H. Qed.

Lemma shl_put_mono p : forall t n, lookup t p = None -> mono t (put t p n).
Proof.
  induction p as [|c rest IH]; intros t n L q v H; [simpl in L; discriminate|].
  destruct t as [|ents m]; [exact H|].
  destruct rest as [|c2 rest2].
  - simpl in L. simpl put. destruct q as [|x q]; [exact H|].
    unfold shl in *. simpl in *. destruct (str_eqb x c) eqn:E.
    + apply str_eqb_eq in E. subst x. destruct (assoc c ents); discriminate.
    + apply str_eqb_neq in E. now rewrite assoc_set_other.
  - remember (c2 :: rest2) as rest eqn:Er.
    assert (Hne : rest <> []) by (subst; discriminate).
    rewrite put_cons_ne by assumption.
    destruct (assoc c ents) as [ch|] eqn:A; [|exact H].
    destruct q as [|x q]; [exact H|].
    unfold shl in *. simpl lookup in *. destruct (str_eqb x c) eqn:E.
    + apply str_eqb_eq in E. subst x. rewrite assoc_set_same. rewrite A in H, L.
      apply (IH ch n L q v H).
    + apply str_eqb_neq in E. now rewrite assoc_set_other.
Qed.

Lemma mkdirs_mono rest : forall pre t, mono t (mkdirs t pre rest).
Proof.
  induction rest as [|c r IH]; intros pre t; [apply mono_refl|].
  cbn [mkdirs]. destruct (lookup t (pre ++ [c])) eqn:L; [apply IH|].
  eapply mono_trans; [|apply IH]. now apply shl_put_mono.
Qed.

Lemma is_ok_vmap {A} (f : A -> value) (m : MM A) s :
  fst (vmap f m s) = fst (m s) /\ is_ok (snd (vmap f m s)) = is_ok (snd (m s)).
Proof. unfold vmap, mbind, ret. destruct (m s) as [t [x|e|c]]; auto. Qed.

Section Pres.
  Variables (a b : list str) (pt : bool) (S0 : node).
  Hypothesis Va : vp a.
  Hypothesis Vb : vp b.
  Hypothesis Dab : diverge a b.
  Hypothesis S0dir : is_dir S0 = true.

  Notation P := (P a S0).

  Definition exq (q : list str) : Prop :=
    exists x d m, q = b ++ x /\ lookup S0 x = Some (File d m).

  Definition kept (t t' : node) : Prop :=
    forall q d m, lookup t q = Some (File d m) ->
                  (exists m', lookup t' q = Some (File d m')) \/ exq q.

  Definition deliv (t' : node) : Prop :=
    forall x d m, lookup S0 x = Some (File d m) -> exists m', lookup t' (b ++ x) = Some (File d m').

  Lemma kept_refl t : kept t t.
  Proof. intros q d m H. left. eauto. Qed.

  Lemma kept_trans t1 t2 t3 : kept t1 t2 -> kept t2 t3 -> kept t1 t3.
  Proof.
    intros H1 H2 q d m H. destruct (H1 q d m H) as [[m' H']|E]; [|now right].
    exact (H2 q d m' H').
  Qed.

  Lemma mono_kept t t' : mono t t' -> kept t t'.
  Proof.
    intros H q d m L. left. exists m. apply shl_file. apply H. now apply shl_file.
  Qed.

  (* ---- pass 1, any outcome ---- *)
  Lemma act1_mono x n t t1 out :
    P t -> lookup S0 x = Some n -> x <> [] -> act1 b x n t = (t1, out) -> mono t t1.
  Proof.
    intros HP L Nx H.
    destruct (list_snoc_case x) as [->|[x' [k ->]]]; [congruence|].
    unfold act1 in H. destruct (is_dir n) eqn:Dn; [|inversion H; subst; apply mono_refl].
    assert (V : vp ((b ++ x') ++ [k])).
    { rewrite <- app_assoc. apply vp_app. split; [exact Vb|].
      eapply (P_vp_x a S0); eauto. }
    rewrite app_assoc in H.
    rewrite (mem_makedir_snoc _ _ _ true t (rpath_nf _ V)) in H.
    destruct (lookup t (b ++ x')) as [[|e m]|] eqn:Lb;
      try (inversion H; subst; apply mono_refl).
    destruct (assoc k e) as [n2|] eqn:A.
    - rewrite (mem_opendir_spec _ _ t (rpath_nf _ V)) in H. inversion H; subst. apply mono_refl.
    - rewrite (mem_opendir_spec _ _ _ (rpath_nf _ V)) in H. inversion H; subst.
      apply shl_put_mono. rewrite lookup_snoc, Lb. exact A.
  Qed.

  Lemma mfor_act1_mono l : forall t t' out,
    P t -> sound_list S0 l -> mfor l (act' (act1 b)) t = (t', out) -> mono t t'.
  Proof.
    induction l as [|[x n] l IH]; intros t t' out HP Snd H.
    - inversion H; subst. apply mono_refl.
    - inversion Snd as [|? ? [S1 S2] S3]; subst. cbn [fst snd] in S1, S2.
      cbn [mfor] in H. unfold mbind in H. unfold act' at 1 in H. cbn [fst snd] in H.
      destruct (act1 b x n t) as [t1 o1] eqn:E.
      pose proof (act1_mono x n t t1 o1 HP S1 S2 E) as M1.
      destruct o1 as [u|e|c]; try (inversion H; subst; exact M1).
      eapply mono_trans; [exact M1|]. eapply IH; [|exact S3|exact H].
      eapply (act1_P a b S0 Vb Dab); eauto.
  Qed.

  (* ---- pass 2, any outcome ---- *)
  Lemma act2_kept x n t t1 out :
    P t -> lookup S0 x = Some n -> x <> [] -> act2 a b pt x n t = (t1, out) -> kept t t1.
  Proof.
    intros HP L Nx H. unfold act2 in H.
    destruct (is_dir n) eqn:Dn; [inversion H; subst; apply kept_refl|].
    assert (Vx : vp x) by (eapply (P_vp_x a S0); eauto).
    assert (V1 : vp (a ++ x)) by (apply vp_app; split; [exact Va|exact Vx]).
    assert (V2 : vp (b ++ x)) by (apply vp_app; split; [exact Vb|exact Vx]).
    rewrite (cfi_eq _ _ pt t V1 V2 (neq_ax_bx a b Dab _)) in H.
    pose proof HP as (W & N & La).
    destruct (copy_step t _ _ true pt W V1 V2) as (t1' & out' & E & T & A & W1).
    rewrite E in H. inversion H; subst t1' out'. clear H E.
    unfold ref_copy in T.
    destruct (transfer_errors t (a ++ x) (b ++ x) true ++
              (if path_eqb (a ++ x) (b ++ x) then [IllegalDestination] else [])) eqn:Et.
    2:{ cbn [rs_tree fail same] in T. inversion T; subst. apply kept_refl. }
    assert (Ls : lookup t (a ++ x) = Some n) by (rewrite lookup_app, La; exact L).
    rewrite Ls in T. destruct n as [d m|]; [|discriminate].
    cbn [rs_tree] in T. inversion T; subst t1. clear T.
    (* the destination holds no directory *)
    assert (Hnd : lookup t (b ++ x) = None \/ exists d2 m2, lookup t (b ++ x) = Some (File d2 m2)).
    { destruct (lookup t (b ++ x)) as [[d2 m2|e2 m2]|] eqn:Lx; eauto.
      exfalso. apply app_eq_nil in Et as [Et _]. unfold transfer_errors in Et.
      rewrite (status_dir _ _ _ _ Lx) in Et.
      apply app_eq_nil in Et as [_ Et]. apply app_eq_nil in Et as [_ Et].
      apply app_eq_nil in Et as [Et _]. discriminate. }
    intros q d' m' Lq.
    destruct (path_eqb q (b ++ x)) eqn:Eq.
    - apply path_eqb_eq in Eq. right. exists x, d, m. auto.
    - left. exists m'. apply lookup_put_file; auto.
      intro; subst q. now rewrite path_eqb_refl in Eq.
  Qed.

  Lemma mfor_act2_kept l : forall t t' out,
    P t -> sound_list S0 l -> mfor l (act' (act2 a b pt)) t = (t', out) -> kept t t'.
  Proof.
    induction l as [|[x n] l IH]; intros t t' out HP Snd H.
    - inversion H; subst. apply kept_refl.
    - inversion Snd as [|? ? [S1 S2] S3]; subst. cbn [fst snd] in S1, S2.
      cbn [mfor] in H. unfold mbind in H. unfold act' at 1 in H. cbn [fst snd] in H.
      destruct (act2 a b pt x n t) as [t1 o1] eqn:E.
      pose proof (act2_kept x n t t1 o1 HP S1 S2 E) as M1.
      destruct o1 as [u|e|c]; try (inversion H; subst; exact M1).
      eapply kept_trans; [exact M1|]. eapply IH; [|exact S3|exact H].
      eapply (act2_P a b pt S0 Va Vb Dab); eauto.
  Qed.

  (* ---- both walks ---- *)
  Lemma run2_kept t : P t -> kept t (fst (run2 a b pt t)).
  Proof.
    intro HP. unfold run2.
    rewrite (walk1 a b S0 Va Vb Dab S0dir t _ HP (fuel_ok a S0 t HP)).
    set (l1 := bfs_list S0 (2 * tree_size t + 2) [[]]).
    assert (Snd1 : sound_list S0 l1)
      by (apply bfs_sound; [exact (wfS a S0 t HP)|exact (S0_dirs_in S0 S0dir)]).
    destruct (mfor l1 (act' (act1 b)) t) as [t1 o1] eqn:E1.
    pose proof (mfor_act1_mono l1 t t1 o1 HP Snd1 E1) as M1.
    destruct o1 as [u|e|c]; try (cbn [fst]; now apply mono_kept).
    assert (HP1 : P t1).
    { eapply (mfor_P a S0 (act1 b) (act1_P a b S0 Vb Dab)); eauto. }
    rewrite (walk2 a b pt S0 Va Vb Dab S0dir t1 _ HP1 (fuel_ok a S0 t1 HP1)).
    set (l2 := bfs_list S0 (2 * tree_size t1 + 2) [[]]).
    assert (Snd2 : sound_list S0 l2)
      by (apply bfs_sound; [exact (wfS a S0 t HP)|exact (S0_dirs_in S0 S0dir)]).
    destruct (mfor l2 (act' (act2 a b pt)) t1) as [t2 o2] eqn:E2.
    cbn [fst]. eapply kept_trans; [apply mono_kept; exact M1|].
    eapply mfor_act2_kept; eauto.
  Qed.

  Lemma run2_deliv t D t2 u :
    P t -> lookup t b = Some D -> is_dir D = true ->
    run2 a b pt t = (t2, Ok u) -> deliv t2 /\ P t2.
  Proof.
    intros HP Lb DD E.
    pose proof HP as ((Wd & Wn) & N & La).
    assert (WS : wf_node S0) by exact (wf_lookup _ _ _ Wn La).
    assert (WD : wf_node D) by exact (wf_lookup _ _ _ Wn Lb).
    destruct (run2_vs_merge a b pt S0 D t Va Vb Dab S0dir HP Lb DD)
      as [HP2 [(t2' & M & E2 & Em & WM & Hext)|(t2' & e & E2 & _)]].
    2:{ rewrite E in E2. discriminate. }
    rewrite E in E2, HP2. inversion E2; subst t2'. cbn [fst] in HP2. split; [|exact HP2].
    destruct (merge_spec pt (S (tree_size S0)) D S0 (Nat.lt_succ_diag_r _) WD WS DD S0dir)
      as [(M' & Hm1 & _ & H3 & _)|(Hm1 & _)]; [|congruence].
    rewrite Em in Hm1. inversion Hm1; subst M'.
    intros x d m Lx.
    assert (Hb : exists db cb eb mb, b = db ++ [cb] /\ lookup t db = Some (Dir eb mb)).
    { destruct (list_snoc_case b) as [Eb|[db [cb Eb]]].
      - exfalso. destruct Dab as (u0 & c1 & c2 & p' & q' & _ & _ & E0). rewrite Eb in E0.
        destruct u0; discriminate.
      - rewrite Eb in Lb. rewrite lookup_snoc in Lb.
        destruct (lookup t db) as [[|eb mb]|] eqn:Ldb0; try discriminate.
        exists db, cb, eb, mb. split; [exact Eb|exact Ldb0]. }
    destruct Hb as (db & cb & eb & mb & Eb & Ldb).
    pose proof (Hext (b ++ x)) as Hq. rewrite Eb in Hq at 2.
    rewrite (shl_put db t cb M (b ++ x) eb mb Ldb) in Hq. rewrite <- Eb in Hq.
    assert (Hp : list_prefix b (b ++ x) = true) by (apply list_prefix_ex; eauto).
    rewrite Hp, skipn_len_app, H3 in Hq. unfold mval in Hq. rewrite Lx in Hq.
    eexists. apply shl_file. exact Hq.
  Qed.

  (* ---- copy_dir from raw paths ---- *)
  Lemma copy_dir_facts p1 p2 s :
    rpath p1 = inl a -> rpath p2 = inl b -> P s ->
    kept s (fst (copy_dir mem_low mem_copy p1 p2 pt s)) /\
    (is_ok (snd (copy_dir mem_low mem_copy p1 p2 pt s)) = true ->
     deliv (fst (copy_dir mem_low mem_copy p1 p2 pt s)) /\
     P (fst (copy_dir mem_low mem_copy p1 p2 pt s))).
  Proof.
    intros R1 R2 HP. pose proof HP as (W & N & La).
    assert (Wd : is_dir s = true) by (destruct W; assumption).
    rewrite (copy_dir_run a b pt S0 Va Vb Dab _ _ s R1 R2 HP).
    destruct (makedirs_spec _ true s b W (rpath_nf _ Vb)) as [Emk _].
    rewrite Emk. unfold makedirs_rhs.
    destruct (prefix_is_file s [] b) eqn:Pf.
    { split; [apply kept_refl|discriminate]. }
    destruct (lookup s b) as [D|] eqn:Lb.
    - assert (DD : is_dir D = true).
      { destruct D as [d0 m0|]; [|reflexivity].
        rewrite (pif_file_true s b d0 m0 Wd Lb) in Pf. discriminate. }
      destruct D as [|eb mb]; [discriminate|].
      rewrite (status_dir _ _ _ _ Lb).
      split; [now apply run2_kept|].
      intro Hok. destruct (run2 a b pt s) as [t2 [u|e|c]] eqn:E; try discriminate.
      exact (run2_deliv s _ t2 u HP Lb eq_refl E).
    - assert (Hst : match status_of s b with IsDir => False | _ => True end)
        by (apply status_missing; exact Lb).
      assert (Est : match status_of s b with
                    | IsDir => (s, @Ok unit tt)
                    | _ => (mkdirs s [] b, Ok tt)
                    end = (mkdirs s [] b, Ok tt)).
      { destruct (status_of s b); try reflexivity. contradiction. }
      rewrite Est. set (t0 := mkdirs s [] b).
      assert (Hab : list_prefix a b = false) by (now apply diverge_prefix).
      assert (HP0 : P t0) by (apply (mkdirs_P a S0 b [] s HP Vb Hab)).
      destruct (mkdirs_new s b W Vb Lb Pf) as (t1 & db & cb & eb & mb & Eb & Emk0 & Ldb).
      assert (Lb0 : lookup t0 b = Some empty_dir).
      { unfold t0. rewrite Emk0, Eb. apply (lookup_put_same _ _ _ _ _ _ Ldb). }
      split.
      + eapply kept_trans; [apply mono_kept; apply mkdirs_mono|]. now apply run2_kept.
      + intro Hok. destruct (run2 a b pt t0) as [t2 [u|e|c]] eqn:E; try discriminate.
        exact (run2_deliv t0 _ t2 u HP0 Lb0 eq_refl E).
  Qed.

  (* ---- from kept / deliv to the predicates of Props.v ---- *)
  Lemma exq_exempt s q : lookup s a = Some S0 -> exq q ->
    existsb (fun rb => path_eqb q (b ++ fst rb)) (sub_files s a) = true.
  Proof.
    intros La (x & d & m & -> & Lx). unfold sub_files. rewrite La.
    apply existsb_exists. exists (x, d). split; [eapply lookup_files_of; eauto|].
    apply path_eqb_refl.
  Qed.

  Lemma deliv_forallb s t' : wf s -> lookup s a = Some S0 -> deliv t' ->
    forallb (fun rb => has_file t' (b ++ fst rb) (snd rb)) (sub_files s a) = true.
  Proof.
    intros [_ W] La Hd. unfold sub_files. rewrite La. apply forallb_forall. intros [x d] Hi.
    destruct (files_of_lookup S0 (wf_lookup _ _ _ W La) x d Hi) as [m Lx].
    destruct (Hd x d m Lx) as [m' H]. cbn [fst snd]. eapply has_file_lookup; eauto.
  Qed.
End Pres.

(* ------------------------------------------------------------------ *)
(* W4: copydir                                                         *)
(* ------------------------------------------------------------------ *)
Theorem mem_preserved_copydir : forall src dst create pt s a b,
  wf s -> nn s -> rpath src = inl a -> rpath dst = inl b -> list_prefix b a = false ->
  preserved s (fst (mem_run (OCopydir src dst create pt) s)) (OCopydir src dst create pt)
            (is_ok (snd (mem_run (OCopydir src dst create pt) s))) = true.
Proof.
  intros src dst create pt s a b W N R1 R2 Hba.
  cbn [mem_run].
  destruct (is_ok_vmap (fun _ : unit => VUnit) (mem_copydir src dst create pt) s) as [E1 E2].
  rewrite E1, E2. clear E1 E2.
  pose proof (rpath_vp _ _ R1) as Va. pose proof (rpath_vp _ _ R2) as Vb.
  rewrite (copydir_unfold _ _ create pt s a b R1 R2).
  destruct (list_prefix a b) eqn:Hab; [now apply preserved_noop|].
  pose proof (diverge_of_prefix a b Hab Hba) as Dab.
  destruct (negb (if create then true else match lookup s b with Some _ => true | None => false end));
    [now apply preserved_noop|].
  destruct (lookup s a) as [S0|] eqn:La; [|now apply preserved_noop].
  destruct (is_dir S0) eqn:Sd; [|now apply preserved_noop].
  assert (HP : P a S0 s) by (split; [exact W|split; [exact N|exact La]]).
  destruct (copy_dir_facts a b pt S0 Va Vb Dab Sd _ _ s (rpath_nf _ Va) (rpath_nf _ Vb) HP)
    as [Hk Hd].
  set (r := copy_dir mem_low mem_copy (to_path true a) (to_path true b) pt s) in *.
  unfold preserved. apply andb_true_iff. split.
  - apply all_files_kept_intro; [destruct W; assumption|].
    intros q d m Lq. cbn [exempt_of]. rewrite (rp_inl _ _ R1), (rp_inl _ _ R2).
    destruct (Hk q d m Lq) as [[m' H]|Ex].
    + right. eapply has_file_lookup; eauto.
    + left. eapply exq_exempt; eauto.
  - destruct (is_ok (snd r)) eqn:Ok; [|reflexivity]. cbn [negb orb delivered].
    rewrite (rp_inl _ _ R1), (rp_inl _ _ R2).
    apply orb_true_iff. right. destruct (Hd eq_refl) as [Hdl _].
    eapply deliv_forallb; eauto.
Qed.

(* ------------------------------------------------------------------ *)
(* W4: movedir                                                         *)
(* ------------------------------------------------------------------ *)
Theorem mem_preserved_movedir : forall src dst create pt s a b,
  wf s -> nn s -> rpath src = inl a -> rpath dst = inl b -> list_prefix b a = false ->
  preserved s (fst (mem_run (OMovedir src dst create pt) s)) (OMovedir src dst create pt)
            (is_ok (snd (mem_run (OMovedir src dst create pt) s))) = true.
Proof.
  intros src dst create pt s a b W N R1 R2 Hba.
  destruct (lookup s b) as [D|] eqn:Lb.
  2:{ exact (mem_preserved_movedir_fresh src dst create pt s a b W R1 R2 Lb). }
  cbn [mem_run].
  destruct (is_ok_vmap (fun _ : unit => VUnit) (mem_movedir src dst create pt) s) as [E1 E2].
  rewrite E1, E2. clear E1 E2.
  pose proof (rpath_vp _ _ R1) as Va. pose proof (rpath_vp _ _ R2) as Vb.
  destruct (list_prefix a b) eqn:Hab.
  { destruct (path_eqb a b) eqn:Eab.
    - apply path_eqb_eq in Eab. subst b. rewrite list_prefix_refl in Hba. discriminate.
    - rewrite (movedir_prefix_illegal src dst create pt s a b R1 R2 Hab Eab).
      now apply preserved_noop. }
  pose proof (diverge_of_prefix a b Hab Hba) as Dab.
  rewrite (movedir_exist_unfold _ _ create pt s a b D R1 R2 Dab Lb).
  destruct (lookup s a) as [S0|] eqn:La; [|now apply preserved_noop].
  destruct S0 as [d0 m0|es ms]; [now apply preserved_noop|].
  set (S0 := Dir es ms) in *.
  assert (Sd : is_dir S0 = true) by reflexivity.
  assert (HP : P a S0 s) by (split; [exact W|split; [exact N|exact La]]).
  rewrite (base_movedir_unfold _ _ create pt s a b S0 D R1 R2 Dab La Sd Lb).
  destruct (is_dir D); [|now apply preserved_noop].
  destruct (copy_dir_facts a b pt S0 Va Vb Dab Sd _ _ s R1 R2 HP) as [Hk Hd].
  destruct (copy_dir mem_low mem_copy src dst pt s) as [t2 [u|e|c]] eqn:Ec; cbn [fst snd is_ok] in *.
  - (* copied: the source is removed *)
    destruct (Hd eq_refl) as [Hdl HP2]. pose proof HP2 as (W2 & N2 & La2).
    destruct (list_snoc_case a) as [Ea|[sd [sc Ea]]].
    { exfalso. destruct Dab as (u0 & c1 & c2 & p' & q' & _ & E0 & _). rewrite Ea in E0.
      destruct u0; discriminate. }
    assert (Er : mem_removetree src t2 = (del t2 a, Ok tt)).
    { subst a. rewrite (mem_removetree_snoc _ _ _ t2 R1).
      pose proof La2 as La2'. rewrite lookup_snoc in La2'.
      destruct (lookup t2 sd) as [[|ed md]|]; try discriminate. rewrite La2'. reflexivity. }
    rewrite Er. cbn [fst snd is_ok].
    unfold preserved. apply andb_true_iff. split.
    + apply all_files_kept_intro; [destruct W; assumption|].
      intros q d m Lq. cbn [exempt_of]. rewrite (rp_inl _ _ R1), (rp_inl _ _ R2).
      destruct (list_prefix a q) eqn:Pq; [left; reflexivity|]. cbn [orb].
      destruct (Hk q d m Lq) as [[m' H]|Ex].
      * right. eapply has_file_lookup. eapply lookup_del_file; eauto.
      * left. eapply exq_exempt; eauto.
    + cbn [negb orb delivered]. rewrite (rp_inl _ _ R1), (rp_inl _ _ R2).
      apply orb_true_iff. right.
      eapply (deliv_forallb a b S0); eauto.
      intros x d m Lx. destruct (Hdl x d m Lx) as [m' H]. exists m'.
      apply lookup_del_file; [exact H|].
      apply diverge_prefix. apply diverge_sym.
      pose proof (diverge_app b a x [] (diverge_sym _ _ Dab)) as Hdv.
      now rewrite app_nil_r in Hdv.
  - unfold preserved. apply andb_true_iff. split; [|reflexivity].
    apply all_files_kept_intro; [destruct W; assumption|].
    intros q d m Lq. cbn [exempt_of]. rewrite (rp_inl _ _ R1), (rp_inl _ _ R2).
    destruct (Hk q d m Lq) as [[m' H]|Ex].
    + right. eapply has_file_lookup; eauto.
    + left. apply orb_true_iff. right. eapply exq_exempt; eauto.
  - unfold preserved. apply andb_true_iff. split; [|reflexivity].
    apply all_files_kept_intro; [destruct W; assumption|].
    intros q d m Lq. cbn [exempt_of]. rewrite (rp_inl _ _ R1), (rp_inl _ _ R2).
    destruct (Hk q d m Lq) as [[m' H]|Ex].
    + right. eapply has_file_lookup; eauto.
    + left. apply orb_true_iff. right. eapply exq_exempt; eauto.
Qed.
