(* fs/wrap.py WrapReadOnly over a wrapped filesystem model: every method that could modify the
   filesystem raises ResourceReadOnly BEFORE looking at its arguments (so even for an invalid
   path), openbin/open raise it when check_writable(mode) = Mode(mode).writing, and every other
   method is WrapFS's, i.e. delegates.  openbin of a non-writable mode goes to the wrapped
   filesystem's openbin directly. *)
From Coq Require Import List NArith ZArith Bool Arith.
From PyFS Require Import Base.PyStr Base.Outcome Path.PathModel FS.Tree FS.Monad FS.Mode FS.Base FS.Mem
     FS.Ops FS.Wrap.
Import ListNotations.
Local Open Scope monad_scope.

(* the calls WrapReadOnly refuses *)
Definition mutating (o : op) : bool :=
  match o with
  | OMakedir _ _ | OMakedirs _ _ | OWritebytes _ _ | OAppendbytes _ _ | OCreate _ _ | OTouch _
  | ORemove _ | ORemovedir _ | ORemovetree _ | OMove _ _ _ _ | OCopy _ _ _ _
  | OMovedir _ _ _ _ | OCopydir _ _ _ _ | OSetinfo _ _ => true
  | OOpenwrite _ m _ | OOpenread _ m => m_writing m
  | _ => false
  end.

Section ReadOnly.
  (* the wrapped filesystem *)
  Variable inner : op -> MM value.

  Definition ro_run (o : op) : MM value :=
    if mutating o then raise ResourceReadOnly else inner o.
End ReadOnly.

(* WrapReadOnly(MemoryFS): WrapFS's methods for everything but openbin *)
Definition ro_inner_mem (o : op) : MM value :=
  match o with
  | OOpenread _ _ | OOpenwrite _ _ _ => mem_run o
  | _ => wrapfs_run o
  end.
Definition ro_mem_run : op -> MM value := ro_run ro_inner_mem.
(* WrapReadOnly(SubFS(MemoryFS)) and WrapReadOnly(WrapReadOnly(MemoryFS)) *)
Definition ro_sub_run (sub_dir : str) : op -> MM value := ro_run (subfs_run sub_dir).
Definition ro_ro_mem_run : op -> MM value := ro_run ro_mem_run.

(* a history: the final state and the list of outcomes *)
Fixpoint run_ops (run : op -> MM value) (s : node) (ops : list op) : node * list (outcome value) :=
  match ops with
  | [] => (s, [])
  | o :: r => let '(s', out) := run o s in
              let '(s'', outs) := run_ops run s' r in (s'', out :: outs)
  end.
