(* Dispatcher entry for the stronger C05 predicate [preserved2] (FS/Props2.v), applied to
   observations supplied by the harness exactly like the entry [fs preserved] of FS/FsRun.v:
   <tree before> <tree after> <ok flag> <one call>. *)
From Coq Require Import List NArith ZArith Bool Arith String.
From PyFS Require Import Base.PyStr Base.Outcome Base.Render FS.Tree FS.Ops FS.Agree FS.Props
     FS.Props2 FS.FsRun.
Import ListNotations.
Local Open Scope string_scope. Local Open Scope list_scope.

Definition run_preserved2 (args : list str) : str :=
  with_obs args (fun b a ok o => r_bool (preserved2 b a o ok)).

(* the token stream of: before = {f: "x"}, after = {f: ""}, ok, copydir("/", "/", create=True) *)
Definition ex_tokens : list str :=
  [[2%N]; []; [1%N]; lit "f"; [1%N]; []; lit "x";
   [2%N]; []; [1%N]; lit "f"; [1%N]; []; lit "";
   [1%N];
   [18%N]; lit "/"; lit "/"; [1%N]; [0%N]].

Example run_preserved2_ex :
  (run_preserved2 ex_tokens, with_obs ex_tokens (fun b a ok o => r_bool (preserved b a o ok)))
  = (r_bool false, r_bool true).
Proof. vm_compute. reflexivity. Qed.
