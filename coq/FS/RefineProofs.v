(* MemoryFS model refines the reference semantics (for the calls in [covered]). *)
From Coq Require Import List NArith ZArith Bool Arith Lia.
From PyFS Require Import Base.PyStr Base.Outcome Path.PathModel Path.PathSpec Path.PathProofs
     FS.Tree FS.Monad FS.Mode FS.Base FS.Mem FS.Ops FS.Ref FS.Agree FS.Wf
     FS.TreeLemmas FS.RefineLemmas.
Import ListNotations.

Lemma wf_empty : wf empty_dir.
Proof. split; [reflexivity|apply wf_empty_dir]. Qed.

(* one step: the observation agrees with the reference and the new tree is well formed *)
Definition step_ok (o : op) (s : node) : Prop :=
  agree (mem_run o s) (ref_run o s) = true /\ wf (fst (mem_run o s)).

Lemma fin_ok s' (v w : value) :
  wf s' -> value_eqb v w = true ->
  agree (s', Ok v) {| rs_tree := Some s'; rs_res := ROk w |} = true /\ wf (fst (s', Ok v)).
Proof.
  intros W E. split; [|exact W]. unfold agree. simpl. now rewrite E, tree_eqb_refl.
Qed.

Lemma fin_err s e adm :
  wf s -> existsb (ecls_eqb e) adm = true ->
  agree (s, @Err value e) {| rs_tree := Some s; rs_res := RFail adm |} = true
  /\ wf (fst (s, @Err value e)).
Proof.
  intros W E. split; [|exact W]. unfold agree. simpl. now rewrite E, tree_eqb_refl.
Qed.

Ltac fin_ok := unfold same; apply fin_ok; [auto | apply value_eqb_refl].
Ltac fin_err := unfold fail, same; apply fin_err; [assumption | reflexivity].
Ltac fin_bad R := unfold fail, same; apply fin_err; [assumption | exact (bad_err_in _ _ R)].

Ltac pview s d c :=
  destruct (path_view d s c)
    as [(Hl & Hs & Hsc & Hlc)
       | [(dt & dm & Hl & Hs & Hsc & Hlc)
         | [(ents & dm & Hl & Hs & Ha & Hsc & Hlc)
           | (ents & dm & n & Hl & Hs & Ha & Hsc & Hlc)]]];
  [ destruct Hs as [Hs|Hs]; rewrite Hs in Hsc | | | ].

Lemma wf_put_setmt s cs n mt :
  wf s -> Forall good cs -> lookup s cs = Some n -> wf (put s cs (set_mt n mt)).
Proof.
  intros W G L. destruct cs as [|c cs].
  - simpl in L. inversion L; subst. simpl. now apply wf_root_set_mt.
  - apply wf_put_ne; auto; [discriminate|]. apply wf_set_mt.
    destruct W as [_ W]. eapply wf_lookup; eauto.
Qed.

(* ------------------------------------------------------------------ *)
(* queries                                                             *)
(* ------------------------------------------------------------------ *)
Lemma step_getinfo p s : wf s -> step_ok (OGetinfo p) s.
Proof.
  intro W. unfold step_ok. cbn [mem_run ref_run]. unfold with1.
  destruct (rpath p) as [cs|adm] eqn:R; mstep.
  - rewrite (mem_getinfo_spec _ _ s R). unfold ref_getinfo.
    destruct (lookup s cs); mstep; [fin_ok|fin_err].
  - rewrite (mem_getinfo_bad _ _ s R). mstep. fin_bad R.
Qed.

Lemma dir_errors_file s cs d m :
  lookup s cs = Some (File d m) -> existsb (ecls_eqb DirectoryExpected) (dir_errors (status_of s cs)) = true.
Proof. intro L. now rewrite (status_lookup_some _ _ _ L). Qed.

Lemma dir_errors_none s cs :
  lookup s cs = None -> existsb (ecls_eqb ResourceNotFound) (dir_errors (status_of s cs)) = true.
Proof. intro L. destruct (status_lookup_none _ _ L) as [H|H]; now rewrite H. Qed.

Lemma step_listdir p s : wf s -> step_ok (OListdir p) s.
Proof.
  intro W. unfold step_ok. cbn [mem_run ref_run]. unfold with1.
  destruct (rpath p) as [cs|adm] eqn:R; mstep.
  - rewrite (mem_listdir_spec _ _ s R). unfold ref_listing.
    destruct (lookup s cs) as [[|ents m]|] eqn:L; mstep.
    + unfold fail. apply fin_err; [assumption|]. eapply dir_errors_file; eauto.
    + fin_ok.
    + unfold fail. apply fin_err; [assumption|]. now apply dir_errors_none.
  - rewrite (mem_listdir_bad _ _ s R). mstep. fin_bad R.
Qed.

Lemma step_scandir p s : wf s -> step_ok (OScandir p) s.
Proof.
  intro W. unfold step_ok. cbn [mem_run ref_run]. unfold with1.
  destruct (rpath p) as [cs|adm] eqn:R; mstep.
  - rewrite (mem_scandir_spec _ _ s R). unfold ref_listing.
    destruct (lookup s cs) as [[|ents m]|] eqn:L; mstep.
    + unfold fail. apply fin_err; [assumption|]. eapply dir_errors_file; eauto.
    + fin_ok.
    + unfold fail. apply fin_err; [assumption|]. now apply dir_errors_none.
  - rewrite (mem_scandir_bad _ _ s R). mstep. fin_bad R.
Qed.

Lemma step_isempty p s : wf s -> step_ok (OIsempty p) s.
Proof.
  intro W. unfold step_ok. cbn [mem_run ref_run]. unfold with1, mem_isempty, b_isempty.
  cbn [l_scandir mem_low].
  destruct (rpath p) as [cs|adm] eqn:R; mstep.
  - rewrite (mem_scandir_spec _ _ s R). unfold ref_listing.
    destruct (lookup s cs) as [[|ents m]|] eqn:L; mstep.
    + unfold fail. apply fin_err; [assumption|]. eapply dir_errors_file; eauto.
    + destruct ents; fin_ok.
    + unfold fail. apply fin_err; [assumption|]. now apply dir_errors_none.
  - rewrite (mem_scandir_bad _ _ s R). mstep. fin_bad R.
Qed.

Lemma step_exists p s : wf s -> step_ok (OExists p) s.
Proof.
  intro W. unfold step_ok. cbn [mem_run ref_run]. unfold ref_query, with1, mem_exists.
  destruct (rpath p) as [cs|adm] eqn:R; mstep.
  - rewrite (mem_exists_spec _ _ s R). mstep. rewrite exists_st_lookup. fin_ok.
  - rewrite (mem_exists_bad _ _ s R). mstep. fin_bad R.
Qed.

Lemma step_isdir p s : wf s -> step_ok (OIsdir p) s.
Proof.
  intro W. unfold step_ok. cbn [mem_run ref_run]. unfold ref_query, with1, mem_isdir, b_isdir.
  cbn [l_getinfo mem_low].
  destruct (rpath p) as [cs|adm] eqn:R; mstep.
  - rewrite (mem_getinfo_spec _ _ s R).
    destruct (lookup s cs) as [n|] eqn:L; mstep.
    + rewrite (status_lookup_some _ _ _ L). unfold to_info, i_isdir. destruct (is_dir n); fin_ok.
    + destruct (status_lookup_none _ _ L) as [H|H]; rewrite H; fin_ok.
  - rewrite (mem_getinfo_bad _ _ s R). mstep. rewrite bad_err_not_rnf. fin_bad R.
Qed.

Lemma step_isfile p s : wf s -> step_ok (OIsfile p) s.
Proof.
  intro W. unfold step_ok. cbn [mem_run ref_run]. unfold ref_query, with1, mem_isfile, b_isfile.
  cbn [l_getinfo mem_low].
  destruct (rpath p) as [cs|adm] eqn:R; mstep.
  - rewrite (mem_getinfo_spec _ _ s R).
    destruct (lookup s cs) as [n|] eqn:L; mstep.
    + rewrite (status_lookup_some _ _ _ L). unfold to_info, i_isdir. destruct (is_dir n); fin_ok.
    + destruct (status_lookup_none _ _ L) as [H|H]; rewrite H; fin_ok.
  - rewrite (mem_getinfo_bad _ _ s R). mstep. rewrite bad_err_not_rnf. fin_bad R.
Qed.

Lemma step_getsize p s : wf s -> step_ok (OGetsize p) s.
Proof.
  intro W. unfold step_ok. cbn [mem_run ref_run]. unfold ref_query, with1, mem_getsize, b_getsize.
  cbn [l_getinfo mem_low].
  destruct (rpath p) as [cs|adm] eqn:R; mstep.
  - rewrite (mem_getinfo_spec _ _ s R).
    destruct (lookup s cs) as [n|] eqn:L; mstep; [fin_ok|fin_err].
  - rewrite (mem_getinfo_bad _ _ s R). mstep. fin_bad R.
Qed.

Lemma step_gettype p s : wf s -> step_ok (OGettype p) s.
Proof.
  intro W. unfold step_ok. cbn [mem_run ref_run]. unfold ref_query, with1, mem_gettype, b_gettype.
  cbn [l_getinfo mem_low].
  destruct (rpath p) as [cs|adm] eqn:R; mstep.
  - rewrite (mem_getinfo_spec _ _ s R).
    destruct (lookup s cs) as [n|] eqn:L; mstep; [fin_ok|fin_err].
  - rewrite (mem_getinfo_bad _ _ s R). mstep. fin_bad R.
Qed.

(* ------------------------------------------------------------------ *)
(* setinfo / makedir / remove / removedir / removetree                 *)
(* ------------------------------------------------------------------ *)
Lemma step_setinfo p mt s : wf s -> step_ok (OSetinfo p mt) s.
Proof.
  intro W. unfold step_ok. cbn [mem_run ref_run]. unfold with1.
  destruct (rpath p) as [cs|adm] eqn:R; mstep.
  - rewrite (mem_setinfo_spec _ _ mt s R). unfold ref_setinfo.
    destruct (lookup s cs) as [n|] eqn:L; mstep; [|fin_err].
    apply fin_ok; [|reflexivity]. apply wf_put_setmt; auto. eapply rpath_good; eauto.
  - rewrite (mem_setinfo_bad _ _ mt s R). mstep. fin_bad R.
Qed.

Lemma ref_makedir_snoc t d c r :
  ref_makedir t (d ++ [c]) r =
  match parent_errors (status_of t d) with
  | (_ :: _) as e => fail t e
  | [] =>
    match status_of t (d ++ [c]) with
    | IsDir => if r then same t (ROk VUnit) else fail t [DirectoryExists]
    | IsFile => fail t [DirectoryExists; DirectoryExpected]
    | _ => {| rs_tree := Some (put t (d ++ [c]) empty_dir); rs_res := ROk VUnit |}
    end
  end.
Proof. unfold ref_makedir, parent. rewrite removelast_app1. destruct d; reflexivity. Qed.

Lemma step_makedir p r s : wf s -> step_ok (OMakedir p r) s.
Proof.
  intro W. unfold step_ok. cbn [mem_run ref_run]. unfold with1.
  destruct (rpath p) as [cs|adm] eqn:R; mstep.
  2:{ rewrite (mem_makedir_bad _ _ r s R). mstep. fin_bad R. }
  pose proof (rpath_good _ _ R) as G.
  destruct (list_snoc_case cs) as [->|[d [c ->]]].
  - rewrite (mem_makedir_root _ r s R). unfold ref_makedir.
    destruct r; [|mstep; fin_err].
    rewrite (mem_opendir_spec _ _ s R). cbn [lookup]. destruct W as [Wd Wn]. rewrite Wd.
    mstep. apply fin_ok; [split; assumption|reflexivity].
  - rewrite (mem_makedir_snoc _ _ _ r s R), ref_makedir_snoc.
    pview s d c; rewrite ?Hl, ?Hs, ?Hsc, ?Ha; cbn [parent_errors]; mstep; try fin_err.
    + rewrite (mem_opendir_spec _ _ _ R). rewrite (lookup_put_same _ _ _ _ _ _ Hl).
      cbn [is_dir empty_dir]. mstep. apply fin_ok; [|reflexivity].
      apply wf_put_ne; auto using snoc_ne', wf_empty_dir.
    + destruct r.
      * rewrite (mem_opendir_spec _ _ _ R), Hlc. destruct (is_dir n); mstep; [fin_ok|fin_err].
      * destruct (is_dir n); mstep; fin_err.
Qed.

Lemma ref_remove_snoc t d c :
  ref_remove t (d ++ [c]) =
  match status_of t (d ++ [c]) with
  | IsFile => {| rs_tree := Some (del t (d ++ [c])); rs_res := ROk VUnit |}
  | IsDir => fail t [FileExpected]
  | _ => fail t [ResourceNotFound]
  end.
Proof. unfold ref_remove. destruct d; reflexivity. Qed.

Lemma step_remove p s : wf s -> step_ok (ORemove p) s.
Proof.
  intro W. unfold step_ok. cbn [mem_run ref_run]. unfold with1.
  destruct (rpath p) as [cs|adm] eqn:R; mstep.
  2:{ rewrite (mem_remove_bad _ _ s R). mstep. fin_bad R. }
  destruct (list_snoc_case cs) as [->|[d [c ->]]].
  - rewrite (mem_remove_root _ s R). mstep. unfold ref_remove. fin_err.
  - rewrite (mem_remove_snoc _ _ _ s R), ref_remove_snoc.
    pview s d c; rewrite ?Hl, ?Hs, ?Hsc, ?Ha; mstep; try fin_err.
    destruct n; cbn [is_dir]; mstep; [|fin_err].
    apply fin_ok; [|reflexivity]. now apply wf_del_any.
Qed.

Lemma ref_removedir_snoc t d c :
  ref_removedir t (d ++ [c]) =
  match lookup t (d ++ [c]) with
  | Some (Dir [] _) => {| rs_tree := Some (del t (d ++ [c])); rs_res := ROk VUnit |}
  | Some (Dir _ _) => fail t [DirectoryNotEmpty]
  | _ => fail t (dir_errors (status_of t (d ++ [c])))
  end.
Proof. unfold ref_removedir. destruct d; reflexivity. Qed.

Lemma step_removedir p s : wf s -> step_ok (ORemovedir p) s.
Proof.
  intro W. unfold step_ok. cbn [mem_run ref_run]. unfold with1.
  destruct (rpath p) as [cs|adm] eqn:R; mstep.
  2:{ rewrite (mem_removedir_bad _ _ s R). mstep. fin_bad R. }
  destruct (list_snoc_case cs) as [->|[d [c ->]]].
  - rewrite (mem_removedir_root _ s R). mstep. unfold ref_removedir. fin_err.
  - rewrite (mem_removedir_snoc _ _ _ s R), ref_removedir_snoc.
    destruct (lookup s (d ++ [c])) as [[|ents m]|] eqn:L; mstep.
    + unfold fail. apply fin_err; [assumption|]. eapply dir_errors_file; eauto.
    + destruct ents; mstep; [|fin_err]. apply fin_ok; [|reflexivity]. now apply wf_del_any.
    + unfold fail. apply fin_err; [assumption|]. now apply dir_errors_none.
Qed.

Lemma ref_removetree_snoc t d c :
  ref_removetree t (d ++ [c]) =
  match status_of t (d ++ [c]) with
  | IsDir => {| rs_tree := Some (del t (d ++ [c])); rs_res := ROk VUnit |}
  | s => fail t (dir_errors s)
  end.
Proof. unfold ref_removetree. destruct d; reflexivity. Qed.

Lemma step_removetree p s : wf s -> step_ok (ORemovetree p) s.
Proof.
  intro W. unfold step_ok. cbn [mem_run ref_run]. unfold with1.
  destruct (rpath p) as [cs|adm] eqn:R; mstep.
  2:{ rewrite (mem_removetree_bad _ _ s R). mstep. fin_bad R. }
  destruct (list_snoc_case cs) as [->|[d [c ->]]].
  - rewrite (mem_removetree_root _ s R). mstep. unfold ref_removetree.
    apply fin_ok; [|reflexivity]. now apply wf_root_clear.
  - rewrite (mem_removetree_snoc _ _ _ s R), ref_removetree_snoc.
    pview s d c; rewrite ?Hl, ?Hs, ?Hsc, ?Ha; mstep; try fin_err.
    destruct n; cbn [is_dir]; mstep; [fin_err|].
    apply fin_ok; [|reflexivity]. now apply wf_del_any.
Qed.

(* ------------------------------------------------------------------ *)
(* open: openwrite / writebytes / appendbytes / openread / readbytes   *)
(* ------------------------------------------------------------------ *)
Lemma fin_crash s :
  wf s ->
  agree (s, @Crash value ValueError) {| rs_tree := Some s; rs_res := RValueError |} = true
  /\ wf (fst (s, @Crash value ValueError)).
Proof. intro W. split; [|exact W]. unfold agree. simpl. now rewrite tree_eqb_refl. Qed.

Lemma ref_open_snoc t d c mode wr rd : mode_valid_bin mode = true ->
  ref_open t (d ++ [c]) mode wr rd =
  match status_of t (d ++ [c]) with
  | IsDir => fail t ([FileExpected] ++ if m_create mode && m_exclusive mode then [FileExists] else [])
  | IsFile =>
    if m_create mode && m_exclusive mode then fail t [FileExists]
    else
      match lookup t (d ++ [c]) with
      | Some (File old mt) =>
        let base := if m_truncate mode then [] else old in
        let pos := if m_appending mode then length base else 0 in
        let t1 := if m_truncate mode then put t (d ++ [c]) (File [] mt) else t in
        let t2 := match wr with
                  | Some dd => put t1 (d ++ [c]) (File (Ref.write_at pos base dd) None)
                  | None => t1
                  end in
        {| rs_tree := Some t2;
           rs_res := ROk (if rd then VBytes (skipn pos base) else VUnit) |}
      | _ => fail t [ResourceNotFound]
      end
  | _ =>
    match file_parent_errors (status_of t d) with
    | (_ :: _) as e => fail t e
    | [] =>
      if m_create mode then
        let t2 := put t (d ++ [c]) (File (match wr with Some dd => dd | None => [] end) None) in
        {| rs_tree := Some t2; rs_res := ROk (if rd then VBytes [] else VUnit) |}
      else fail t [ResourceNotFound]
    end
  end.
Proof. intro V. unfold ref_open, parent. rewrite V, removelast_app1. destruct d; reflexivity. Qed.

Lemma ow_state_eq s cs mode wr old mt :
  (let base := if m_truncate mode then [] else old in
   let pos := if m_appending mode then length base else 0 in
   let t1 := if m_truncate mode then put s cs (File [] mt) else s in
   match wr with
   | Some dd => put t1 cs (File (Ref.write_at pos base dd) None)
   | None => t1
   end) = ow_state s cs mode wr old mt.
Proof.
  unfold ow_state. change Ref.write_at with Mem.write_at.
  destruct (m_truncate mode), (m_appending mode), wr; cbv zeta; cbn [length];
    rewrite ?put_put, ?write_at_nil; reflexivity.
Qed.

Lemma wf_put_file s cs d m : wf s -> cs <> [] -> Forall good cs -> wf (put s cs (File d m)).
Proof. intros. apply wf_put_ne; auto. exact I. Qed.

Lemma wf_ow_state s cs mode wr old mt :
  wf s -> cs <> [] -> Forall good cs -> wf (ow_state s cs mode wr old mt).
Proof.
  intros W N G. unfold ow_state.
  destruct (m_truncate mode), wr; auto using wf_put_file.
Qed.

Lemma openwrite_rel p cs mode wr s :
  wf s -> rpath p = inl cs -> mode_valid_bin mode = true ->
  (wr = None \/ m_writing mode = true) ->
  (exists t', mem_openwrite p mode wr s = (t', Ok tt) /\
              ref_open s cs mode wr false = {| rs_tree := Some t'; rs_res := ROk VUnit |} /\
              wf t') \/
  (exists e adm, mem_openwrite p mode wr s = (s, Err e) /\
                 ref_open s cs mode wr false = fail s adm /\
                 existsb (ecls_eqb e) adm = true).
Proof.
  intros W R V Hw. pose proof (rpath_good _ _ R) as G.
  destruct (list_snoc_case cs) as [->|[d [c ->]]].
  - right. rewrite (mem_openwrite_root _ _ wr s R V). unfold ref_open. rewrite V.
    cbn [negb]. eexists _, _. repeat split; reflexivity.
  - rewrite (mem_openwrite_snoc _ _ _ _ wr s R V Hw), (ref_open_snoc _ _ _ _ _ _ V).
    pview s d c; rewrite ?Hl, ?Hs, ?Hsc, ?Ha; cbn [file_parent_errors].
    + right. eexists _, _. repeat split; reflexivity.
    + right. eexists _, _. repeat split; reflexivity.
    + right. eexists _, _. repeat split; reflexivity.
    + destruct (m_create mode).
      * left. eexists. split; [reflexivity|]. split; [reflexivity|]. auto using wf_put_file, snoc_ne'.
      * right. eexists _, _. repeat split; reflexivity.
    + destruct n as [old mt|e2 m2]; cbn [is_dir].
      * destruct (m_create mode && m_exclusive mode).
        -- right. eexists _, _. repeat split; reflexivity.
        -- left. rewrite Hlc. eexists. split; [reflexivity|]. split.
           ++ f_equal. f_equal. apply ow_state_eq.
           ++ apply wf_ow_state; auto using snoc_ne'.
      * right. destruct (m_create mode && m_exclusive mode); eexists _, _; repeat split; reflexivity.
Qed.

Lemma step_openwrite p m d s : wf s -> step_ok (OOpenwrite p m d) s.
Proof.
  intro W. unfold step_ok. cbn [mem_run ref_run].
  destruct (mode_valid_bin m) eqn:V; cbn [negb]; mstep.
  2:{ rewrite (mem_openwrite_invalid _ _ _ s V). mstep. unfold same. now apply fin_crash. }
  unfold with1. destruct (rpath p) as [cs|adm] eqn:R.
  2:{ rewrite (mem_openwrite_bad _ _ _ _ s R V). mstep. fin_bad R. }
  assert (Hw : (if m_writing m then Some d else None) = None \/ m_writing m = true)
    by (destruct (m_writing m); auto).
  destruct (openwrite_rel _ _ _ _ s W R V Hw) as [(t' & Hm & Hr & Wt)|(e & adm & Hm & Hr & He)];
    rewrite Hm, Hr; mstep.
  - apply fin_ok; [assumption|reflexivity].
  - unfold fail. apply fin_err; assumption.
Qed.

Lemma step_writebytes p d s : wf s -> step_ok (OWritebytes p d) s.
Proof. intro W. exact (step_openwrite p m_wb d s W). Qed.

Lemma step_appendbytes p d s : wf s -> step_ok (OAppendbytes p d) s.
Proof. intro W. exact (step_openwrite p m_ab d s W). Qed.

Ltac or_crush Hl Hlc :=
  repeat first [ progress mstep | progress cbn [fst snd negb]
               | rewrite put_put | rewrite (lookup_put_same _ _ _ _ _ _ Hl) | rewrite Hlc ].

Lemma openread_rel p cs mode s :
  wf s -> rpath p = inl cs -> mode_valid_bin mode = true ->
  (exists t' v, mem_run (OOpenread p mode) s = (t', Ok v) /\
                ref_open s cs mode None (m_reading mode)
                = {| rs_tree := Some t'; rs_res := ROk v |} /\
                wf t') \/
  (exists e adm, mem_run (OOpenread p mode) s = (s, Err e) /\
                 ref_open s cs mode None (m_reading mode) = fail s adm /\
                 existsb (ecls_eqb e) adm = true).
Proof.
  intros W R V. pose proof (rpath_good _ _ R) as G. cbn [mem_run]. mstep.
  destruct (list_snoc_case cs) as [->|[d [c ->]]].
  - right. rewrite (mem_open_root _ _ s R V). unfold ref_open. rewrite V.
    cbn [negb]. eexists _, _. repeat split; reflexivity.
  - rewrite (mem_open_snoc _ _ _ _ s R V), (ref_open_snoc _ _ _ _ _ _ V).
    pview s d c; rewrite ?Hl, ?Hs, ?Hsc, ?Ha; cbn [file_parent_errors].
    + right. eexists _, _. repeat split; reflexivity.
    + right. eexists _, _. repeat split; reflexivity.
    + right. eexists _, _. repeat split; reflexivity.
    + destruct (m_create mode).
      * left. unfold open_init.
        destruct (m_truncate mode), (m_appending mode), (m_reading mode);
          or_crush Hl Hlc; eexists _, _; (split; [reflexivity|]); (split; [reflexivity|]);
            auto using wf_put_file, snoc_ne'.
      * right. eexists _, _. repeat split; reflexivity.
    + destruct n as [old mt|e2 m2]; cbn [is_dir].
      * destruct (m_create mode && m_exclusive mode).
        -- right. eexists _, _. repeat split; reflexivity.
        -- left. rewrite Hlc. unfold open_init.
           destruct (m_truncate mode), (m_appending mode), (m_reading mode);
             or_crush Hl Hlc; eexists _, _; (split; [reflexivity|]); (split; [reflexivity|]);
            auto using wf_put_file, snoc_ne'.
      * right. destruct (m_create mode && m_exclusive mode); eexists _, _; repeat split; reflexivity.
Qed.

Lemma step_openread p m s : wf s -> step_ok (OOpenread p m) s.
Proof.
  intro W. unfold step_ok. cbn [ref_run].
  destruct (mode_valid_bin m) eqn:V; cbn [negb]; mstep.
  2:{ cbn [mem_run]. mstep. rewrite (mem_open_invalid _ _ s V). mstep. unfold same. now apply fin_crash. }
  unfold with1. destruct (rpath p) as [cs|adm] eqn:R.
  2:{ cbn [mem_run]. mstep. rewrite (mem_open_bad _ _ _ s R V). mstep. fin_bad R. }
  destruct (openread_rel _ _ _ s W R V) as [(t' & v & Hm & Hr & Wt)|(e & adm & Hm & Hr & He)];
    rewrite Hm, Hr.
  - apply fin_ok; [assumption|apply value_eqb_refl].
  - unfold fail. apply fin_err; assumption.
Qed.

Lemma readbytes_as_openread p s : mem_run (OReadbytes p) s = mem_run (OOpenread p m_rb) s.
Proof.
  cbn [mem_run]. unfold mem_readbytes, b_readbytes. cbn [l_openread mem_low].
  unfold mem_openread. mstep.
  destruct (mem_open p m_rb s) as [s' [h| |]]; try reflexivity.
  change (m_reading m_rb) with true. mstep.
  destruct (lookup s' (fst h)) as [[|]|]; reflexivity.
Qed.

Lemma step_readbytes p s : wf s -> step_ok (OReadbytes p) s.
Proof.
  intro W. unfold step_ok. rewrite readbytes_as_openread.
  change (ref_run (OReadbytes p) s) with (ref_run (OOpenread p m_rb) s).
  exact (step_openread p m_rb s W).
Qed.

(* ------------------------------------------------------------------ *)
(* create / touch                                                      *)
(* ------------------------------------------------------------------ *)
Lemma step_create p wipe s : wf s -> step_ok (OCreate p wipe) s.
Proof.
  intro W. unfold step_ok. cbn [mem_run ref_run]. unfold with1, mem_create, b_create.
  cbn [l_openwrite mem_low].
  destruct (rpath p) as [cs|adm] eqn:R.
  2:{ destruct wipe; mstep.
      - rewrite (mem_openwrite_bad _ _ _ None s R m_wb_valid). mstep. fin_bad R.
      - rewrite (mem_exists_bad _ _ s R). mstep. fin_bad R. }
  rewrite exists_st_lookup.
  assert (Hw : @None bytes = None \/ m_writing m_wb = true) by (left; reflexivity).
  destruct wipe; cbn [negb andb]; mstep.
  - destruct (openwrite_rel _ _ _ _ s W R m_wb_valid Hw)
      as [(t' & Hm & Hr & Wt)|(e & adm & Hm & Hr & He)]; rewrite Hm, Hr; mstep;
      cbv zeta; cbn [rs_res rs_tree fail same].
    + apply fin_ok; [assumption|reflexivity].
    + apply fin_err; assumption.
  - rewrite (mem_exists_spec _ _ s R). mstep.
    destruct (lookup s cs) as [n|] eqn:L; mstep.
    + fin_ok.
    + destruct (openwrite_rel _ _ _ _ s W R m_wb_valid Hw)
        as [(t' & Hm & Hr & Wt)|(e & adm & Hm & Hr & He)]; rewrite Hm, Hr; mstep;
        cbv zeta; cbn [rs_res rs_tree fail same].
      * apply fin_ok; [assumption|reflexivity].
      * apply fin_err; assumption.
Qed.

Lemma step_touch p s : wf s -> step_ok (OTouch p) s.
Proof.
  intro W. unfold step_ok. cbn [mem_run ref_run]. unfold with1, mem_touch, b_touch, b_create.
  cbn [l_openwrite l_setinfo mem_low].
  destruct (rpath p) as [cs|adm] eqn:R; mstep.
  2:{ rewrite (mem_exists_bad _ _ s R). mstep. fin_bad R. }
  assert (Hw : @None bytes = None \/ m_writing m_wb = true) by (left; reflexivity).
  rewrite (mem_exists_spec _ _ s R). mstep.
  destruct (lookup s cs) as [n|] eqn:L; mstep.
  - rewrite (mem_setinfo_spec _ _ None s R), L. mstep.
    apply fin_ok; [|reflexivity]. apply wf_put_setmt; auto. eapply rpath_good; eauto.
  - destruct (openwrite_rel _ _ _ _ s W R m_wb_valid Hw)
      as [(t' & Hm & Hr & Wt)|(e & adm & Hm & Hr & He)]; rewrite Hm, Hr; mstep.
    + apply fin_ok; [assumption|reflexivity].
    + unfold fail. apply fin_err; assumption.
Qed.

(* ------------------------------------------------------------------ *)
(* move                                                                *)
(* ------------------------------------------------------------------ *)
Lemma with2_bad1 t p q k e1 : rpath p = inr e1 ->
  exists adm, with2 t p q k = fail t adm /\ existsb (ecls_eqb (bad_err p)) adm = true.
Proof.
  intro R. unfold with2. rewrite R. destruct (rpath q); eexists; split; try reflexivity.
  - exact (bad_err_in _ _ R).
  - rewrite existsb_app, (bad_err_in _ _ R). reflexivity.
Qed.

Lemma transfer_errors_snoc t s dd dc o :
  transfer_errors t s (dd ++ [dc]) o =
  (match status_of t s with
   | Missing | AncFile => [ResourceNotFound] | IsDir => [FileExpected] | IsFile => [] end)
  ++ (if exists_st (status_of t (dd ++ [dc])) && negb o then [DestinationExists] else [])
  ++ (match status_of t (dd ++ [dc]) with IsDir => [FileExpected] | _ => [] end)
  ++ (if exists_st (status_of t (dd ++ [dc])) then [] else parent_errors (status_of t dd)).
Proof. unfold transfer_errors, parent. rewrite removelast_app1. destruct dd; reflexivity. Qed.

Lemma fin_move_err s cs cd o pt e :
  wf s -> existsb (ecls_eqb e) (transfer_errors s cs cd o) = true ->
  agree (s, @Err value e) (ref_move s cs cd o pt) = true /\ wf (fst (s, @Err value e)).
Proof.
  intros W H. unfold ref_move. destruct (transfer_errors s cs cd o) as [|x l]; [discriminate|].
  unfold fail, same. now apply fin_err.
Qed.

Lemma path_eqb_snoc a x b y : path_eqb (a ++ [x]) (b ++ [y]) = path_eqb a b && str_eqb x y.
Proof.
  apply Bool.eq_iff_eq_true. rewrite andb_true_iff, !path_eqb_eq, str_eqb_eq.
  split.
  - intro H. now apply app_inj_tail in H.
  - intros [-> ->]. reflexivity.
Qed.

Lemma pjoin_root : pjoin (@cons str s_slash (@cons str (@nil char) (@nil str))) = Ok s_slash.
Proof. reflexivity. Qed.

Lemma get_dir_entry_root' s : wf s ->
  exists dents rm, s = Dir dents rm /\ wf_node (Dir dents rm) /\
                   get_dir_entry s_slash s = (s, Ok (Some (Dir dents rm))).
Proof.
  intro W. destruct (wf_root_dir s W) as (dents & rm & E). exists dents, rm.
  split; [exact E|]. split; [destruct W as [_ W]; now rewrite <- E|].
  rewrite get_dir_entry_root. now rewrite <- E.
Qed.

Ltac pview2 s d c :=
  destruct (path_view d s c)
    as [(Dl & Ds & Dsc & Dlc)
       | [(dt2 & dm2 & Dl & Ds & Dsc & Dlc)
         | [(dents & dm2 & Dl & Ds & Da & Dsc & Dlc)
           | (dents & dm2 & n2 & Dl & Ds & Da & Dsc & Dlc)]]];
  [ destruct Ds as [Ds|Ds]; rewrite Ds in Dsc | | | ].

Lemma step_move src dst o pt s : wf s -> step_ok (OMove src dst o pt) s.
Proof.
  intro W. unfold step_ok. cbn [mem_run ref_run]. mstep.
  destruct (rpath src) as [cs|e1] eqn:R1.
  2:{ destruct (with2_bad1 s src dst (fun a b => ref_move s a b o pt) e1 R1) as (adm & Hr & He).
      rewrite Hr. unfold mem_move. mstep. rewrite (validate_inr _ _ s R1). mstep.
      unfold fail. apply fin_err; assumption. }
  destruct (rpath dst) as [cd|e2] eqn:R2.
  2:{ unfold with2. rewrite R1, R2. unfold mem_move. mstep.
      rewrite (validate_inl _ _ s R1). mstep. rewrite (validate_inr _ _ s R2). mstep. fin_bad R2. }
  unfold with2. rewrite R1, R2.
  pose proof (rpath_good _ _ R1) as G1. pose proof (rpath_good _ _ R2) as G2.
  unfold mem_move. mstep. rewrite (validate_inl _ _ s R1). mstep.
  rewrite (validate_inl _ _ s R2). mstep.
  destruct (list_snoc_case cs) as [->|[sd [sc ->]]].
  { rewrite to_path_root, psplit_root. destruct (psplit (to_path true cd)) as [dd0 dn0]. mstep.
    apply fin_move_err; [assumption|]. unfold transfer_errors. cbn [status_of].
    destruct W as [Wd Wn]. rewrite Wd. reflexivity. }
  destruct (good_snoc _ _ G1) as [Gsd Gsc].
  rewrite (psplit_snoc true sd sc Gsd Gsc).
  destruct (list_snoc_case cd) as [->|[dd [dc ->]]].
  - (* destination is the root *)
    rewrite to_path_root, psplit_root. mstep. rewrite (good_not_empty _ Gsc).
    rewrite get_dir_entry_nf by assumption. mstep.
    pview s sd sc; rewrite ?Hl, ?Ha; mstep;
      try (apply fin_move_err; [assumption|]; unfold transfer_errors; rewrite Hsc; reflexivity).
    destruct n as [sdata smt|e3 m3]; cbn [is_dir] in Hsc; mstep;
      try (apply fin_move_err; [assumption|]; unfold transfer_errors; rewrite Hsc; reflexivity).
    destruct (get_dir_entry_root' s W) as (rents & rm & Es & Wr & Hg).
    rewrite Hg. mstep. rewrite (wf_assoc_nil _ _ Wr), andb_false_r. mstep.
    rewrite pjoin_root. mstep. rewrite Hg. mstep.
    assert (Hroot : status_of s [] = IsDir) by (destruct W as [Wd _]; simpl; now rewrite Wd).
    destruct o; cbn [negb]; mstep;
      (apply fin_move_err; [assumption|]; unfold transfer_errors; rewrite Hsc, Hroot; reflexivity).
  - (* destination has a name *)
    destruct (good_snoc _ _ G2) as [Gdd Gdc].
    rewrite (psplit_snoc true dd dc Gdd Gdc). mstep. rewrite (good_not_empty _ Gsc).
    rewrite (pjoin_two_nf true dd dc Gdd Gdc).
    rewrite !iteratepath_nf by assumption.
    rewrite get_dir_entry_nf by assumption. mstep.
    pview s sd sc; rewrite ?Hl, ?Ha; mstep;
      try (apply fin_move_err; [assumption|]; unfold transfer_errors; rewrite Hsc; reflexivity).
    destruct n as [sdata smt|e3 m3]; cbn [is_dir] in Hsc; mstep;
      try (apply fin_move_err; [assumption|]; unfold transfer_errors; rewrite Hsc; reflexivity).
    rewrite (to_path_eqb sd dd Gsd Gdd), <- path_eqb_snoc.
    rewrite get_dir_entry_nf by assumption. mstep.
    pview2 s dd dc; rewrite ?Dl, ?Da; mstep;
      try (apply fin_move_err; [assumption|]; rewrite transfer_errors_snoc, Hsc, Dsc, Ds; reflexivity).
    + (* destination missing, parent is a directory *)
      rewrite andb_false_r. mstep. rewrite get_dir_entry_nf by assumption. mstep. rewrite Dlc. mstep.
      destruct (path_eqb (sd ++ [sc]) (dd ++ [dc])) eqn:E.
      { apply path_eqb_eq in E. rewrite E in Hlc. congruence. }
      mstep. unfold ref_move. rewrite transfer_errors_snoc, Hsc, Dsc, Ds.
      cbn [exists_st andb app parent_errors].
      rewrite E, Hlc. apply fin_ok; [|reflexivity].
      apply wf_del_any. apply wf_put_file; auto using snoc_ne'.
    + (* destination exists *)
      destruct o; cbn [negb andb]; mstep.
      * rewrite get_dir_entry_nf by assumption. mstep. rewrite Dlc. mstep.
        destruct n2 as [ddata dmt|e4 m4]; cbn [is_dir] in Dsc; mstep.
        -- destruct (path_eqb (sd ++ [sc]) (dd ++ [dc])) eqn:E; mstep;
             unfold ref_move; rewrite transfer_errors_snoc, Hsc, Dsc;
             cbn [exists_st andb negb app]; rewrite E.
           ++ fin_ok.
           ++ rewrite Hlc. apply fin_ok; [|reflexivity].
              apply wf_del_any. apply wf_put_file; auto using snoc_ne'.
        -- apply fin_move_err; [assumption|]. rewrite transfer_errors_snoc, Hsc, Dsc. reflexivity.
      * apply fin_move_err; [assumption|]. rewrite transfer_errors_snoc, Hsc, Dsc.
        destruct (is_dir n2); reflexivity.
Qed.

(* ------------------------------------------------------------------ *)
(* copy                                                                *)
(* ------------------------------------------------------------------ *)
Definition copy_tail (qs qd : str) (pt : bool) : MM unit :=
  if str_eqb qs qd then raise IllegalDestination
  else
    mbind (mem_openread qs) (fun d =>
    mbind (b_upload mem_low qd d) (fun _ =>
    if pt then b_copy_modified_time mem_low qs qd else ret tt)).

Lemma b_copy_unfold src dst o pt :
  b_copy mem_low src dst o pt =
  mbind (mem_validatepath src) (fun _src =>
  mbind (mem_validatepath dst) (fun _dst =>
  mbind (if o then ret false else b_exists mem_low _dst) (fun e =>
  if e then raise DestinationExists else copy_tail _src _dst pt))).
Proof. reflexivity. Qed.

Lemma fin_copy_err s cs cd o pt e :
  wf s ->
  existsb (ecls_eqb e)
          (transfer_errors s cs cd o ++ (if path_eqb cs cd then [IllegalDestination] else [])) = true ->
  agree (s, @Err value e) (ref_copy s cs cd o pt) = true /\ wf (fst (s, @Err value e)).
Proof.
  intros W H. unfold ref_copy.
  destruct (transfer_errors s cs cd o ++ (if path_eqb cs cd then [IllegalDestination] else []))
    as [|x l]; [discriminate|].
  unfold fail, same. now apply fin_err.
Qed.

Lemma fin_copy_err' s cs cd o pt e :
  wf s -> existsb (ecls_eqb e) (transfer_errors s cs cd o) = true ->
  agree (s, @Err value e) (ref_copy s cs cd o pt) = true /\ wf (fst (s, @Err value e)).
Proof.
  intros W H. apply fin_copy_err; [assumption|]. rewrite existsb_app, H. reflexivity.
Qed.

Lemma copy_tail_ok s cs cd o pt :
  wf s -> vp cs -> vp cd -> (o = true \/ lookup s cd = None) ->
  agree (vmap (fun _ => VUnit) (copy_tail (to_path true cs) (to_path true cd) pt) s)
        (ref_copy s cs cd o pt) = true
  /\ wf (fst (vmap (fun _ => VUnit) (copy_tail (to_path true cs) (to_path true cd) pt) s)).
Proof.
  intros W V1 V2 Ho.
  pose proof (rpath_nf _ V1) as Q1. pose proof (rpath_nf _ V2) as Q2.
  destruct V1 as [G1 N1]. destruct V2 as [G2 N2].
  assert (Hroot : status_of s [] = IsDir) by (destruct W as [Wd _]; simpl; now rewrite Wd).
  unfold copy_tail. rewrite (to_path_eqb cs cd G1 G2).
  destruct (path_eqb cs cd) eqn:E; mstep.
  { apply fin_copy_err; [assumption|]. rewrite E, existsb_app. apply orb_true_iff. now right. }
  destruct (list_snoc_case cs) as [->|[sd [sc ->]]].
  { rewrite (mem_openread_root _ s Q1). mstep.
    apply fin_copy_err'; [assumption|]. unfold transfer_errors. rewrite Hroot. reflexivity. }
  rewrite (mem_openread_snoc _ _ _ s Q1).
  pview s sd sc; rewrite ?Hl, ?Ha; mstep;
    try (apply fin_copy_err'; [assumption|]; unfold transfer_errors; rewrite Hsc; reflexivity).
  destruct n as [data mt|e3 m3]; cbn [is_dir] in Hsc; mstep;
    try (apply fin_copy_err'; [assumption|]; unfold transfer_errors; rewrite Hsc; reflexivity).
  unfold b_upload. cbn [l_openwrite mem_low].
  set (wr := match data with [] => None | _ :: _ => Some data end).
  assert (Hw : wr = None \/ m_writing m_wb = true) by (right; reflexivity).
  assert (Hwr : match wr with Some x => x | None => [] end = data) by (subst wr; destruct data; reflexivity).
  destruct (list_snoc_case cd) as [->|[dd [dc ->]]].
  { rewrite (mem_openwrite_root _ _ wr s Q2 m_wb_valid). mstep.
    apply fin_copy_err'; [assumption|]. unfold transfer_errors. rewrite Hsc, Hroot.
    destruct o; reflexivity. }
  rewrite (mem_openwrite_snoc _ _ _ _ wr s Q2 m_wb_valid Hw).
  change (m_create m_wb && m_exclusive m_wb) with false. change (m_create m_wb) with true.
  (* the state after a successful upload, and the end of the call *)
  assert (Hfin : forall dents dm2 X,
             lookup s dd = Some (Dir dents dm2) ->
             (lookup s (dd ++ [dc]) = None \/
              exists d2 m2, lookup s (dd ++ [dc]) = Some (File d2 m2)) ->
             transfer_errors s (sd ++ [sc]) (dd ++ [dc]) o = [] ->
             X = match data, lookup s (dd ++ [dc]) with
                 | [], Some (File _ m) => m
                 | _, _ => None
                 end ->
             agree
               (let (s', o0) :=
                  (if pt
                   then b_copy_modified_time mem_low (to_path true (sd ++ [sc])) (to_path true (dd ++ [dc]))
                   else fun s0 => (s0, Ok tt)) (put s (dd ++ [dc]) (File data X)) in
                match o0 with
                | Ok _ => (s', Ok VUnit)
                | Err e => (s', Err e)
                | Crash k => (s', Crash k)
                end)
               (ref_copy s (sd ++ [sc]) (dd ++ [dc]) o pt) = true /\
             wf (fst
               (let (s', o0) :=
                  (if pt
                   then b_copy_modified_time mem_low (to_path true (sd ++ [sc])) (to_path true (dd ++ [dc]))
                   else fun s0 => (s0, Ok tt)) (put s (dd ++ [dc]) (File data X)) in
                match o0 with
                | Ok _ => (s', Ok VUnit)
                | Err e => (s', Err e)
                | Crash k => (s', Crash k)
                end))).
  { intros dents dm2 X Dl Hd Hte HX.
    unfold ref_copy. rewrite Hte, E, Hlc. cbn [app].
    destruct pt.
    - unfold b_copy_modified_time. cbn [l_getinfo l_setinfo mem_low]. mstep.
      rewrite (mem_getinfo_spec _ _ _ Q1).
      rewrite (lookup_put_file _ _ _ _ _ _ Hlc) by
          (auto; intro Heq; rewrite Heq, path_eqb_refl in E; discriminate).
      mstep. cbn [i_mt to_info node_mt].
      rewrite (mem_setinfo_spec _ _ _ _ Q2).
      rewrite (lookup_put_same _ _ _ _ _ _ Dl). cbn [set_mt]. rewrite put_put.
      apply fin_ok; [|reflexivity]. apply wf_put_file; auto using snoc_ne'.
    - subst X. apply fin_ok; [|reflexivity]. apply wf_put_file; auto using snoc_ne'. }
  pview2 s dd dc; rewrite ?Dl, ?Da; mstep;
    try (apply fin_copy_err'; [assumption|]; rewrite transfer_errors_snoc, Hsc, Dsc, Ds; reflexivity).
  - (* new destination *)
    rewrite Hwr. eapply Hfin; eauto.
    + rewrite transfer_errors_snoc, Hsc, Dsc, Ds. reflexivity.
    + rewrite Dlc. destruct data; reflexivity.
  - (* existing destination *)
    destruct Ho as [->|Ho]; [|congruence].
    destruct n2 as [old dmt|e4 m4]; cbn [is_dir] in Dsc; mstep.
    + unfold ow_state. change (m_truncate m_wb) with true. cbv iota.
      assert (Hte : transfer_errors s (sd ++ [sc]) (dd ++ [dc]) true = [])
        by (rewrite transfer_errors_snoc, Hsc, Dsc; reflexivity).
      subst wr. destruct data as [|b0 data].
      * eapply Hfin; eauto. now rewrite Dlc.
      * eapply Hfin; eauto.
    + apply fin_copy_err'; [assumption|]. rewrite transfer_errors_snoc, Hsc, Dsc. reflexivity.
Qed.

Lemma te_dest_exists s cs cd n :
  lookup s cd = Some n ->
  existsb (ecls_eqb DestinationExists) (transfer_errors s cs cd false) = true.
Proof.
  intro H. unfold transfer_errors. rewrite exists_st_lookup, H. cbn [negb andb].
  rewrite existsb_app. apply orb_true_iff. right. reflexivity.
Qed.

Lemma vmap_mbind {A B} (f : B -> value) (m : MM A) (k : A -> MM B) s :
  vmap f (mbind m k) s =
  match m s with
  | (s', Ok a) => vmap f (k a) s'
  | (s', Err e) => (s', Err e)
  | (s', Crash c) => (s', Crash c)
  end.
Proof. unfold vmap, mbind. destruct (m s) as [s' [a|e|c]]; reflexivity. Qed.

Lemma step_copy src dst o pt s : wf s -> step_ok (OCopy src dst o pt) s.
Proof.
  intro W. unfold step_ok. cbn [mem_run ref_run]. unfold mem_copy. rewrite b_copy_unfold.
  destruct (rpath src) as [cs|e1] eqn:R1.
  2:{ destruct (with2_bad1 s src dst (fun a b => ref_copy s a b o pt) e1 R1) as (adm & Hr & He).
      rewrite Hr. mstep. rewrite (validate_inr _ _ s R1). mstep.
      unfold fail. apply fin_err; assumption. }
  destruct (rpath dst) as [cd|e2] eqn:R2.
  2:{ unfold with2. rewrite R1, R2. mstep.
      rewrite (validate_inl _ _ s R1). mstep. rewrite (validate_inr _ _ s R2). mstep. fin_bad R2. }
  unfold with2. rewrite R1, R2.
  pose proof (rpath_vp _ _ R1) as V1. pose proof (rpath_vp _ _ R2) as V2.
  rewrite vmap_mbind, (validate_inl _ _ s R1). cbv beta iota.
  rewrite vmap_mbind, (validate_inl _ _ s R2). cbv beta iota.
  rewrite vmap_mbind.
  destruct o.
  - unfold ret at 1. cbv beta iota.
    apply (copy_tail_ok s cs cd true pt W V1 V2). now left.
  - rewrite (mem_exists_spec _ _ s (rpath_nf _ V2)). cbv beta iota.
    destruct (lookup s cd) as [n|] eqn:L; cbv beta iota.
    + mstep. apply fin_copy_err'; [assumption|]. eapply te_dest_exists; eauto.
    + apply (copy_tail_ok s cs cd false pt W V1 V2). now right.
Qed.

(* ------------------------------------------------------------------ *)
(* the two main theorems                                               *)
(* ------------------------------------------------------------------ *)
Lemma step_covered o s : wf s -> covered o = true -> step_ok o s.
Proof.
  intros W C. destruct o; try discriminate C.
  - now apply step_getinfo.
  - now apply step_listdir.
  - now apply step_scandir.
  - now apply step_makedir.
  - now apply step_writebytes.
  - now apply step_appendbytes.
  - now apply step_readbytes.
  - now apply step_create.
  - now apply step_touch.
  - now apply step_openwrite.
  - now apply step_openread.
  - now apply step_remove.
  - now apply step_removedir.
  - now apply step_removetree.
  - now apply step_move.
  - now apply step_copy.
  - now apply step_setinfo.
  - now apply step_exists.
  - now apply step_isdir.
  - now apply step_isfile.
  - now apply step_isempty.
  - now apply step_getsize.
  - now apply step_gettype.
Qed.

Theorem mem_wf_preserved : forall o s, wf s -> covered o = true -> wf (fst (mem_run o s)).
Proof. intros o s W C. exact (proj2 (step_covered o s W C)). Qed.

Theorem mem_refines_ref : forall o s, wf s -> covered o = true ->
  agree (mem_run o s) (ref_run o s) = true.
Proof. intros o s W C. exact (proj1 (step_covered o s W C)). Qed.

(* ------------------------------------------------------------------ *)
(* fast path of MemoryFS.movedir: destination does not exist           *)
(* ------------------------------------------------------------------ *)
Lemma dirtransfer_errors_snoc t s dd dc create :
  dirtransfer_errors t s (dd ++ [dc]) create true =
  (if list_prefix s (dd ++ [dc]) then [IllegalDestination] else [])
  ++ (match status_of t s with
      | Missing => [ResourceNotFound] | AncFile => [ResourceNotFound; DirectoryExpected]
      | IsFile => [DirectoryExpected] | IsDir => [] end)
  ++ (match status_of t (dd ++ [dc]) with
      | IsFile => [DirectoryExpected; DirectoryExists]
      | IsDir => []
      | _ => (if create then [] else [ResourceNotFound]) ++ parent_errors (status_of t dd)
      end).
Proof. unfold dirtransfer_errors, parent. rewrite removelast_app1. destruct dd; reflexivity. Qed.

Lemma fin_dt_err s cs cd create pt e :
  wf s -> path_eqb cs cd = false ->
  existsb (ecls_eqb e) (dirtransfer_errors s cs cd create true) = true ->
  agree (s, @Err value e) (ref_dirtransfer s cs cd create pt true) = true
  /\ wf (fst (s, @Err value e)).
Proof.
  intros W E H. unfold ref_dirtransfer. rewrite E. cbn [andb].
  destruct (dirtransfer_errors s cs cd create true) as [|x l]; [discriminate|].
  unfold fail, same. now apply fin_err.
Qed.

Lemma movedir_fast src dst create pt s cs cd :
  wf s -> rpath src = inl cs -> rpath dst = inl cd -> lookup s cd = None ->
  step_ok (OMovedir src dst create pt) s.
Proof.
  intros W R1 R2 Lcd. unfold step_ok. cbn [mem_run ref_run]. unfold with2. rewrite R1, R2.
  pose proof (rpath_good _ _ R1) as G1. pose proof (rpath_good _ _ R2) as G2.
  destruct (list_snoc_case cd) as [->|[dd [dc ->]]]; [discriminate Lcd|].
  destruct (good_snoc _ _ G2) as [Gdd Gdc].
  unfold mem_movedir. mstep. rewrite (validate_inl _ _ s R1). mstep.
  rewrite (validate_inl _ _ s R2). mstep.
  rewrite (psplit_snoc true dd dc Gdd Gdc).
  rewrite (to_path_eqb cs (dd ++ [dc]) G1 G2).
  rewrite (isbase_nf true cs true (dd ++ [dc]) G1 G2), <- list_prefix_cprefix.
  destruct (list_snoc_case cs) as [->|[sd [sc ->]]].
  { rewrite to_path_root, psplit_root. mstep.
    assert (E : path_eqb [] (dd ++ [dc]) = false) by (destruct dd; reflexivity).
    rewrite E. cbn [list_prefix]. mstep.
    apply fin_dt_err; [assumption|assumption|]. rewrite dirtransfer_errors_snoc. reflexivity. }
  destruct (good_snoc _ _ G1) as [Gsd Gsc].
  rewrite (psplit_snoc true sd sc Gsd Gsc). mstep.
  destruct (path_eqb (sd ++ [sc]) (dd ++ [dc])) eqn:E; mstep.
  { unfold ref_dirtransfer. rewrite E. cbn [andb]. fin_ok. }
  destruct (list_prefix (sd ++ [sc]) (dd ++ [dc])) eqn:P; mstep.
  { apply fin_dt_err; [assumption|assumption|]. rewrite dirtransfer_errors_snoc, P. reflexivity. }
  rewrite get_dir_entry_nf by assumption. mstep.
  pview s sd sc; rewrite ?Hl, ?Ha; mstep;
    try (apply fin_dt_err; [assumption|assumption|];
         rewrite dirtransfer_errors_snoc, P, Hsc; reflexivity).
  destruct n as [sdata smt|e3 m3]; cbn [is_dir] in Hsc; mstep;
    try (apply fin_dt_err; [assumption|assumption|];
         rewrite dirtransfer_errors_snoc, P, Hsc; reflexivity).
  rewrite get_dir_entry_nf by assumption. mstep. rewrite Lcd. mstep.
  rewrite get_dir_entry_nf by assumption. mstep.
  pview2 s dd dc; rewrite ?Dl; mstep;
    try (apply fin_dt_err; [assumption|assumption|];
         rewrite dirtransfer_errors_snoc, P, Hsc, Dsc, Ds; destruct create; reflexivity).
  2:{ congruence. }
  destruct create; cbn [negb]; mstep.
  2:{ apply fin_dt_err; [assumption|assumption|].
      rewrite dirtransfer_errors_snoc, P, Hsc, Dsc, Ds. reflexivity. }
  rewrite !iteratepath_nf by assumption. mstep.
  assert (Wn : wf (del (put s (dd ++ [dc]) (Dir e3 m3)) (sd ++ [sc]))).
  { apply wf_del_any. apply wf_put_ne; auto using snoc_ne'.
    destruct W as [_ W]. eapply wf_lookup; eauto. }
  unfold ref_dirtransfer. rewrite E. cbn [andb].
  rewrite dirtransfer_errors_snoc, P, Hsc, Dsc, Ds. cbn [app parent_errors].
  destruct (list_prefix (dd ++ [dc]) (sd ++ [sc])).
  - split; [reflexivity|exact Wn].
  - rewrite Hlc, Lcd. apply fin_ok; [exact Wn|reflexivity].
Qed.

Theorem mem_movedir_refines_ref : forall src dst create pt s cs cd,
  wf s -> rpath src = inl cs -> rpath dst = inl cd -> lookup s cd = None ->
  agree (mem_run (OMovedir src dst create pt) s) (ref_run (OMovedir src dst create pt) s) = true.
Proof. intros. exact (proj1 (movedir_fast src dst create pt s cs cd H H0 H1 H2)). Qed.

Theorem mem_movedir_wf : forall src dst create pt s cs cd,
  wf s -> rpath src = inl cs -> rpath dst = inl cd -> lookup s cd = None ->
  wf (fst (mem_run (OMovedir src dst create pt) s)).
Proof. intros. exact (proj2 (movedir_fast src dst create pt s cs cd H H0 H1 H2)). Qed.
