(* The NUL-free-names invariant [nn] holds initially and is preserved by every covered call
   (through the refinement: the reference trees only grow by validated paths). *)
From Coq Require Import List NArith ZArith Bool Arith Lia.
From PyFS Require Import Base.PyStr Base.Outcome Path.PathModel Path.PathSpec Path.PathProofs
     FS.Tree FS.Monad FS.Mode FS.Base FS.Mem FS.Ops FS.Ref FS.Agree FS.Wf
     FS.TreeLemmas FS.RefineLemmas FS.RefineProofs
     FS.RefineWalkLemmasEq FS.RefineWalkLemmasBfs.
Import ListNotations.

(* ------------------------------------------------------------------ *)
(* node_eqb decides equality                                           *)
(* ------------------------------------------------------------------ *)
Lemma mt_eqb_eq a b : mt_eqb a b = true -> a = b.
Proof.
  destruct a, b; simpl; try discriminate; [|reflexivity].
  intro H. apply Z.eqb_eq in H. now subst.
Qed.

Lemma node_eqb_eq : forall x y, node_eqb true x y = true -> x = y.
Proof.
  induction x as [d m|ents m IH] using node_ind'; intros y H; destruct y as [d2 m2|e2 m2];
    simpl in H; try discriminate.
  - apply andb_true_iff in H as [H1 H2]. apply str_eqb_eq in H1. apply mt_eqb_eq in H2. now subst.
  - apply andb_true_iff in H as [H1 H2]. apply mt_eqb_eq in H1. subst m2. f_equal.
    revert e2 H2. induction ents as [|[k n] r IHr]; intros [|[k2 n2] r2] H2; try discriminate.
    + reflexivity.
    + inversion IH as [|? ? Hn Hr]; subst.
      apply andb_true_iff in H2 as [Ha Hb]. apply andb_true_iff in Ha as [Ha Hc].
      apply str_eqb_eq in Ha. subst k2. cbn [snd] in *. rewrite (Hn n2 Hc).
      now rewrite (IHr Hr r2 Hb).
Qed.

(* ------------------------------------------------------------------ *)
(* canon keeps the names                                               *)
(* ------------------------------------------------------------------ *)
Lemma In_insert {A} k (v : A) l x : In x (insert_sorted k v l) <-> x = (k, v) \/ In x l.
Proof.
  induction l as [|[k0 v0] r IH]; simpl.
  - intuition.
  - destruct (str_ltb k k0); simpl.
    + intuition.
    + rewrite IH. intuition.
Qed.

Lemma In_sort {A} (l : list (str * A)) x : In x (sort_ents l) <-> In x l.
Proof.
  induction l as [|[k v] r IH]; simpl; [tauto|].
  rewrite In_insert, IH. intuition.
Qed.

Lemma nn_canon : forall t, nnode (canon t) <-> nnode t.
Proof.
  induction t as [d m|ents m IH] using node_ind'; [simpl; tauto|].
  rewrite canon_dir, !nnode_dir. unfold keys. rewrite !Forall_forall.
  rewrite Forall_forall in IH. split; intros [H1 H2]; split.
  - intros k Hk. apply in_map_iff in Hk as ([k0 n] & <- & Hi). apply H1.
    apply in_map_iff. exists (k0, canon n). split; [reflexivity|].
    apply In_sort. unfold cmap. apply in_map_iff. exists (k0, n). auto.
  - intros [k n] Hi. cbn [snd]. apply (IH (k, n) Hi).
    apply (H2 (k, canon n)). apply In_sort. unfold cmap. apply in_map_iff. exists (k, n). auto.
  - intros k Hk. apply in_map_iff in Hk as ([k0 n'] & <- & Hi). apply (proj1 (In_sort _ _)) in Hi.
    unfold cmap in Hi. apply in_map_iff in Hi as ([k1 n] & E & Hi). cbn [fst snd] in E. injection E as <- <-.
    apply H1. apply in_map_iff. exists (k1, n). auto.
  - intros [k n'] Hi. apply (proj1 (In_sort _ _)) in Hi.
    unfold cmap in Hi. apply in_map_iff in Hi as ([k1 n] & E & Hi). cbn [fst snd] in E. injection E as <- <-.
    cbn [snd]. apply (IH (k1, n) Hi). apply (H2 (k1, n) Hi).
Qed.

Lemma nn_tree_eqb a b : tree_eqb true a b = true -> nn b -> nn a.
Proof.
  unfold tree_eqb, nn. intros H Nb. apply node_eqb_eq in H.
  apply nn_canon. rewrite H. now apply nn_canon.
Qed.

(* ------------------------------------------------------------------ *)
(* the reference trees of covered calls                                *)
(* ------------------------------------------------------------------ *)
Definition nnstep (r : rstep) : Prop := exists tr, rs_tree r = Some tr /\ nn tr.

Lemma nn_put_setmt t cs n mt : nn t -> lookup t cs = Some n -> nn (put t cs (set_mt n mt)).
Proof.
  intros N L. destruct (nn_lookup cs t n N L) as [Nn Np].
  apply nn_put; auto. now apply nn_set_mt.
Qed.

Lemma nn_clear t : nn t -> nn (match t with Dir _ mt => Dir [] mt | f => f end).
Proof. intro N. destruct t; [exact N|]. apply nnode_dir. split; constructor. Qed.

Ltac nncrush :=
  repeat match goal with
         | |- nnstep (fail _ _) => eexists; split; [reflexivity|assumption]
         | |- nnstep (same _ _) => eexists; split; [reflexivity|assumption]
         | |- nnstep {| rs_tree := Some _; rs_res := _ |} => eexists; split; [reflexivity|]
         | |- nnstep (if ?x then _ else _) => destruct x
         | |- nnstep (match ?x with _ => _ end) => destruct x eqn:?
         | |- nnstep (let _ := _ in _) => cbv zeta
         end.

Lemma nnstep_open t cs mode wr rd : nn t -> nonul cs -> nnstep (ref_open t cs mode wr rd).
Proof.
  intros N Nc. unfold ref_open. nncrush;
    repeat match goal with
           | |- nn (match ?w with Some _ => _ | None => _ end) => destruct w
           | |- nn (put _ _ _) => apply nn_put; auto; try exact I
           | |- nnode (put _ _ _) => apply nn_put; auto; try exact I
           | |- nnode (match ?w with Some _ => _ | None => _ end) => destruct w
           | |- nn (if ?x then _ else _) => destruct x
           | |- nnode (if ?x then _ else _) => destruct x
           end; auto.
Qed.

Ltac fin_nn :=
  first [ assumption | exact nn_empty | exact I
        | apply nn_del; fin_nn
        | apply nn_put; [fin_nn|assumption|fin_nn]
        | eapply nn_put_setmt; eassumption
        | apply nn_clear; assumption ].

Ltac triv_nn := eexists; split; [reflexivity|assumption].

Lemma ref_nn o t : nn t -> covered o = true -> nnstep (ref_run o t).
Proof.
  intros N C. destruct o; try discriminate C; cbn [ref_run];
    unfold ref_query, with1, with2;
    repeat match goal with
           | |- context [rpath ?p] =>
             let R := fresh "R" in
             destruct (rpath p) eqn:R; [apply rpath_vp in R; destruct R as [_ R]|]
           end;
    first
      [ solve [triv_nn]
      | solve [apply nnstep_open; assumption]
      | solve [destruct (negb (mode_valid_bin mode));
               [triv_nn|first [apply nnstep_open; assumption|triv_nn]]]
      | solve [match goal with
               | |- nnstep (if ?c then _ else _) => destruct c; [triv_nn|]
               end;
               cbv zeta;
               match goal with
               | R : nonul ?l |- context [ref_open ?t0 ?l ?m ?w ?r] =>
                 destruct (nnstep_open t0 l m w r N R) as (tr & T & Ntr);
                 destruct (rs_res (ref_open t0 l m w r));
                 eexists; (split; [cbn [rs_tree]; exact T|exact Ntr])
               end]
      | solve [match goal with
               | |- nnstep (match lookup ?t0 ?l with _ => _ end) =>
                 destruct (lookup t0 l) eqn:L;
                 [eexists; split; [reflexivity|]; eapply nn_put_setmt; eauto
                 |apply nnstep_open; assumption]
               end]
      | solve [unfold ref_getinfo, ref_listing, ref_makedir, ref_remove, ref_removedir,
               ref_removetree, ref_move, ref_copy, ref_setinfo; nncrush; fin_nn] ].
Qed.

Theorem nn_initial : nn empty_dir.
Proof. exact nn_empty. Qed.

Theorem nn_preserved_covered : forall o s,
  wf s -> nn s -> covered o = true -> nn (fst (mem_run o s)).
Proof.
  intros o s W N C. pose proof (mem_refines_ref o s W C) as A.
  destruct (ref_nn o s N C) as (tr & T & Ntr).
  unfold agree in A. rewrite T in A. apply andb_true_iff in A as [_ A].
  exact (nn_tree_eqb _ _ A Ntr).
Qed.
