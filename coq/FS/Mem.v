(* fs/memoryfs.py: MemoryFS over a tree of entries (state = the root node). *)
From Coq Require Import List NArith ZArith Bool Arith.
From PyFS Require Import Base.PyStr Base.Outcome Path.PathModel FS.Tree FS.Monad FS.Mode FS.Base.
Import ListNotations.
Local Open Scope monad_scope.

Definition MM := M node.

Definition nul : char := 0%N.

(* FS.validatepath with meta invalid_path_chars = "\0" *)
Definition mem_validatepath (p : str) : MM str :=
  if has_char nul p then raise InvalidCharsInPath
  else n <- lift (normpath p) ;; ret (abspath n).

(* MemoryFS._get_dir_entry *)
Definition get_dir_entry (q : str) : MM (option node) :=
  cs <- lift (iteratepath q) ;;
  root <- get ;;
  ret (lookup root cs).

Definition to_info (name : str) (n : node) : info :=
  {| i_name := name; i_isdir := is_dir n; i_size := node_size n; i_mt := node_mt n |}.

Definition mem_getinfo (p : str) : MM info :=
  q <- mem_validatepath p ;;
  e <- get_dir_entry q ;;
  match e with
  | None => raise ResourceNotFound
  | Some n => ret (to_info (basename q) n)
  end.

Definition mem_listdir (p : str) : MM (list str) :=
  q <- mem_validatepath p ;;
  e <- get_dir_entry q ;;
  match e with
  | None => raise ResourceNotFound
  | Some (File _ _) => raise DirectoryExpected
  | Some (Dir ents _) => ret (keys ents)
  end.

Definition mem_scandir (p : str) : MM (list info) :=
  q <- mem_validatepath p ;;
  e <- get_dir_entry q ;;
  match e with
  | None => raise ResourceNotFound
  | Some (File _ _) => raise DirectoryExpected
  | Some (Dir ents _) => ret (map (fun kn => to_info (fst kn) (snd kn)) ents)
  end.

(* FS.opendir on MemoryFS *)
Definition mem_opendir (p : str) : MM unit :=
  i <- mem_getinfo p ;; if i_isdir i then ret tt else raise DirectoryExpected.

Definition mem_makedir (p : str) (recreate : bool) : MM unit :=
  q <- mem_validatepath p ;;
  if str_eqb q s_slash then
    (if recreate then mem_opendir p else raise DirectoryExists)
  else
    let '(dir_path, dir_name) := psplit q in
    parent <- get_dir_entry dir_path ;;
    match parent with
    | None | Some (File _ _) => raise ResourceNotFound
    | Some (Dir ents _) =>
      match assoc dir_name ents with
      | Some _ => if recreate then mem_opendir p else raise DirectoryExists
      | None =>
        cs <- lift (iteratepath q) ;;
        _ <- modify (fun root => put root cs empty_dir) ;;
        mem_opendir p
      end
    end.

(* openbin + _MemoryFile.__init__: returns (component path of the entry, position) *)
Definition mem_open (p mode : str) : MM (list str * nat) :=
  if negb (mode_valid_bin mode) then crash ValueError
  else
    q <- mem_validatepath p ;;
    let '(dir_path, file_name) := psplit q in
    if is_empty file_name then raise FileExpected
    else
      parent <- get_dir_entry dir_path ;;
      match parent with
      | None | Some (File _ _) => raise ResourceNotFound
      | Some (Dir ents _) =>
        cs <- lift (iteratepath q) ;;
        let init (data : bytes) (mt : option Z) : MM (list str * nat) :=
            if m_truncate mode then
              _ <- modify (fun root => put root cs (File [] mt)) ;; ret (cs, 0)
            else if m_appending mode then ret (cs, length data)
            else ret (cs, 0) in
        match assoc file_name ents with
        | None =>
          if m_create mode then
            _ <- modify (fun root => put root cs (File [] None)) ;; init [] None
          else raise ResourceNotFound
        | Some e =>
          if m_create mode && m_exclusive mode then raise FileExists
          else match e with
               | Dir _ _ => raise FileExpected
               | File data mt => init data mt
               end
        end
      end.

Definition write_at (pos : nat) (old data : bytes) : bytes :=
  firstn pos old ++ data ++ skipn (pos + length data) old.

Definition mem_openread (p : str) : MM bytes :=
  h <- mem_open p m_rb ;;
  root <- get ;;
  match lookup root (fst h) with
  | Some (File data _) => ret (skipn (snd h) data)
  | _ => crash Unreachable
  end.

Definition mem_openwrite (p mode : str) (d : option bytes) : MM unit :=
  h <- mem_open p mode ;;
  match d with
  | None => ret tt
  | Some data =>
    if negb (m_writing mode) then crash RawOSError   (* IOError: File not open for writing *)
    else
      root <- get ;;
      match lookup root (fst h) with
      | Some (File old _) =>
        modify (fun r => put r (fst h) (File (write_at (snd h) old data) None))
      | _ => crash Unreachable
      end
  end.

Definition mem_remove (p : str) : MM unit :=
  q <- mem_validatepath p ;;
  if str_eqb q s_slash then raise FileExpected
  else
    let '(dir_path, file_name) := psplit q in
    parent <- get_dir_entry dir_path ;;
    match parent with
    | None | Some (File _ _) => raise ResourceNotFound
    | Some (Dir ents _) =>
      match assoc file_name ents with
      | None => raise ResourceNotFound
      | Some (Dir _ _) => raise FileExpected
      | Some (File _ _) =>
        cs <- lift (iteratepath q) ;; modify (fun root => del root cs)
      end
    end.

Definition mem_removetree (p : str) : MM unit :=
  q <- mem_validatepath p ;;
  if str_eqb q s_slash then
    modify (fun root => match root with Dir _ mt => Dir [] mt | f => f end)
  else
    let '(dir_path, file_name) := psplit q in
    parent <- get_dir_entry dir_path ;;
    match parent with
    | None | Some (File _ _) => raise ResourceNotFound
    | Some (Dir ents _) =>
      match assoc file_name ents with
      | None => raise ResourceNotFound
      | Some (File _ _) => raise DirectoryExpected
      | Some (Dir _ _) =>
        cs <- lift (iteratepath q) ;; modify (fun root => del root cs)
      end
    end.

Definition mem_removedir (p : str) : MM unit :=
  q <- mem_validatepath p ;;
  if str_eqb q s_slash then raise RemoveRootError
  else
    l <- mem_scandir p ;;              (* FS.isempty *)
    match l with
    | _ :: _ => raise DirectoryNotEmpty
    | [] => mem_removetree q
    end.

Definition mem_setinfo (p : str) (mt : option Z) : MM unit :=
  q <- mem_validatepath p ;;
  e <- get_dir_entry q ;;
  match e with
  | None => raise ResourceNotFound
  | Some n =>
    cs <- lift (iteratepath q) ;;
    modify (fun root => put root cs (set_mt n mt))
  end.

Definition mem_fuel (root : node) : nat := tree_size root.

Definition mem_low : low node :=
  {| l_validatepath := mem_validatepath; l_getinfo := mem_getinfo; l_listdir := mem_listdir;
     l_scandir := mem_scandir; l_makedir := mem_makedir; l_openread := mem_openread;
     l_openwrite := mem_openwrite; l_remove := mem_remove; l_removedir := mem_removedir;
     l_removetree := mem_removetree; l_setinfo := mem_setinfo; l_fuel := mem_fuel |}.

Definition mem_copy := b_copy mem_low.

(* MemoryFS.move *)
Definition mem_move (src dst : str) (overwrite preserve_time : bool) : MM unit :=
  _src <- mem_validatepath src ;;
  _dst <- mem_validatepath dst ;;
  let '(src_dir, src_name) := psplit _src in
  let '(dst_dir, dst_name) := psplit _dst in
  if is_empty src_name then raise FileExpected
  else
    sde <- get_dir_entry src_dir ;;
    match sde with
    | None | Some (File _ _) => raise ResourceNotFound
    | Some (Dir sents _) =>
      match assoc src_name sents with
      | None => raise ResourceNotFound
      | Some (Dir _ _) => raise FileExpected
      | Some (File sdata smt) =>
        dde <- get_dir_entry dst_dir ;;
        match dde with
        | None | Some (File _ _) => raise ResourceNotFound
        | Some (Dir dents _) =>
          if negb overwrite && (match assoc dst_name dents with Some _ => true | None => false end)
          then raise DestinationExists
          else
            q <- lift (pjoin [dst_dir; dst_name]) ;;
            de <- get_dir_entry q ;;
            match de with
            | Some (Dir _ _) =>
              if negb overwrite then raise DestinationExists else raise FileExpected
            | _ =>
              if str_eqb src_dir dst_dir && str_eqb src_name dst_name then
                (if overwrite then ret tt else raise DestinationExists)
              else
                scs <- lift (iteratepath _src) ;;
                dcs <- lift (iteratepath _dst) ;;
                modify (fun root => del (put root dcs (File sdata smt)) scs)
            end
        end
      end
    end.

Definition mem_base_movedir := b_movedir mem_low mem_copy.

(* MemoryFS.movedir *)
Definition mem_movedir (src dst : str) (create preserve_time : bool) : MM unit :=
  _src <- mem_validatepath src ;;
  _dst <- mem_validatepath dst ;;
  let '(dst_dir, dst_name) := psplit _dst in
  let '(src_dir, src_name) := psplit _src in
  if str_eqb _src _dst then ret tt
  else if isbase _src _dst then raise IllegalDestination
  else
    sde <- get_dir_entry src_dir ;;
    match sde with
    | None | Some (File _ _) => raise ResourceNotFound
    | Some (Dir sents _) =>
      match assoc src_name sents with
      | None => raise ResourceNotFound
      | Some (File _ _) => raise DirectoryExpected
      | Some (Dir e m as sn) =>
        de <- get_dir_entry _dst ;;
        match de with
        | Some _ => mem_base_movedir src dst create preserve_time
        | None =>
          dde <- get_dir_entry dst_dir ;;
          match dde with
          | Some (Dir _ _) =>
            if negb create then raise ResourceNotFound
            else
              scs <- lift (iteratepath _src) ;;
              dcs <- lift (iteratepath _dst) ;;
              modify (fun root => del (put root dcs sn) scs)
          | _ => raise ResourceNotFound
          end
        end
      end
    end.

Definition mem_copydir := b_copydir mem_low mem_copy.
Definition mem_makedirs := b_makedirs mem_low.
Definition mem_exists := b_exists mem_low.
Definition mem_isdir := b_isdir mem_low.
Definition mem_isfile := b_isfile mem_low.
Definition mem_isempty := b_isempty mem_low.
Definition mem_getsize := b_getsize mem_low.
Definition mem_gettype := b_gettype mem_low.
Definition mem_readbytes := b_readbytes mem_low.
Definition mem_writebytes := b_writebytes mem_low.
Definition mem_appendbytes := b_appendbytes mem_low.
Definition mem_create := b_create mem_low.
Definition mem_touch := b_touch mem_low.
