(* Reference semantics of the FS contract (written from the docstrings of fs/base.py and
   docs/source/{concepts,implementers,interface}.rst), on resolved component paths.
   Where the documentation names one error class the reference has exactly it; where
   several documented preconditions fail at once, or an ancestor of the path is a file,
   every class whose condition holds is admissible (DESIGN.md, C01). *)
From Coq Require Import List NArith ZArith Bool Arith.
From PyFS Require Import Base.PyStr Base.Outcome Path.PathSpec FS.Tree FS.Mode FS.Base FS.Ops.
Import ListNotations.

Inductive rres :=
| ROk (v : value)
| RFail (adm : list ecls)          (* fails with one of these fs.errors classes *)
| RValueError                      (* documented ValueError (invalid mode string) *)
| RAny.                            (* verdict not determined by the contract *)

(* tree = None : the resulting tree is not determined by the contract (degenerate
   directory merges); only the C05 preservation predicate applies there *)
Record rstep := { rs_tree : option node; rs_res : rres }.

Definition same (t : node) (r : rres) : rstep := {| rs_tree := Some t; rs_res := r |}.
Definition fail (t : node) (adm : list ecls) : rstep := same t (RFail adm).

Inductive status := Missing | AncFile | IsFile | IsDir.

Fixpoint status_of (t : node) (p : list str) : status :=
  match p with
  | [] => if is_dir t then IsDir else IsFile
  | c :: rest =>
    match t with
    | File _ _ => AncFile
    | Dir ents _ => match assoc c ents with Some n => status_of n rest | None => Missing end
    end
  end.

Definition exists_st (s : status) : bool := match s with IsFile | IsDir => true | _ => false end.

(* raw path -> resolved components, or the admissible path errors *)
Definition nul : char := 0%N.
Definition rpath (p : str) : list str + list ecls :=
  let bad := if has_char nul p then [InvalidCharsInPath] else [] in
  match resolve (comps p) with
  | None => inr (bad ++ [IllegalBackReference])
  | Some cs => match bad with [] => inl cs | _ => inr bad end
  end.

Definition last_name (cs : list str) : str := last cs [].
Definition info_of (cs : list str) (n : node) : info :=
  {| i_name := last_name cs; i_isdir := is_dir n; i_size := node_size n; i_mt := node_mt n |}.

Definition with1 (t : node) (p : str) (k : list str -> rstep) : rstep :=
  match rpath p with inl cs => k cs | inr adm => fail t adm end.
Definition with2 (t : node) (p q : str) (k : list str -> list str -> rstep) : rstep :=
  match rpath p, rpath q with
  | inl a, inl b => k a b
  | inr e, inl _ => fail t e
  | inl _, inr e => fail t e
  | inr e1, inr e2 => fail t (e1 ++ e2)
  end.

(* classes for a directory-flavoured access to cs that does not reach a directory *)
Definition dir_errors (s : status) : list ecls :=
  match s with
  | Missing => [ResourceNotFound]
  | AncFile => [ResourceNotFound; DirectoryExpected]
  | IsFile => [DirectoryExpected]
  | IsDir => []
  end.
Definition parent_errors (s : status) : list ecls :=   (* status of the parent directory *)
  match s with
  | Missing => [ResourceNotFound]
  | AncFile | IsFile => [ResourceNotFound; DirectoryExpected]
  | IsDir => []
  end.
Definition file_parent_errors (s : status) : list ecls :=
  match s with IsDir => [] | _ => [ResourceNotFound] end.

Definition parent (cs : list str) : list str := removelast cs.

(* ---- single-resource calls ---- *)
Definition ref_getinfo (t : node) (cs : list str) : rstep :=
  match lookup t cs with
  | Some n => same t (ROk (VInfo (info_of cs n)))
  | None => fail t [ResourceNotFound]
  end.

Definition ref_listing (t : node) (cs : list str) (k : list (str * node) -> value) : rstep :=
  match lookup t cs with
  | Some (Dir ents _) => same t (ROk (k ents))
  | _ => fail t (dir_errors (status_of t cs))
  end.

Definition ref_makedir (t : node) (cs : list str) (recreate : bool) : rstep :=
  match cs with
  | [] => if recreate then same t (ROk VUnit) else fail t [DirectoryExists]
  | _ =>
    match parent_errors (status_of t (parent cs)) with
    | (_ :: _) as e => fail t e
    | [] =>
      match status_of t cs with
      | IsDir => if recreate then same t (ROk VUnit) else fail t [DirectoryExists]
      | IsFile => fail t [DirectoryExists; DirectoryExpected]
      | _ => {| rs_tree := Some (put t cs empty_dir); rs_res := ROk VUnit |}
      end
    end
  end.

Definition write_at (pos : nat) (old data : bytes) : bytes :=
  firstn pos old ++ data ++ skipn (pos + length data) old.

(* openbin(path, mode); optional write(data); close *)
Definition ref_open (t : node) (cs : list str) (mode : str) (wr : option bytes)
           (rd : bool) : rstep :=
  if negb (mode_valid_bin mode) then same t RValueError
  else
    match cs with
    | [] => fail t ([FileExpected] ++ if m_create mode && m_exclusive mode then [FileExists] else [])
    | _ =>
      match status_of t cs with
      | IsDir => fail t ([FileExpected] ++ if m_create mode && m_exclusive mode then [FileExists] else [])
      | IsFile =>
        if m_create mode && m_exclusive mode then fail t [FileExists]
        else
          match lookup t cs with
          | Some (File old mt) =>
            let base := if m_truncate mode then [] else old in
            let pos := if m_appending mode then length base else 0 in
            let t1 := if m_truncate mode then put t cs (File [] mt) else t in
            let t2 := match wr with
                      | Some d => put t1 cs (File (write_at pos base d) None)
                      | None => t1
                      end in
            {| rs_tree := Some t2;
               rs_res := ROk (if rd then VBytes (skipn pos base) else VUnit) |}
          | _ => fail t [ResourceNotFound]
          end
      | _ =>
        match file_parent_errors (status_of t (parent cs)) with
        | (_ :: _) as e => fail t e
        | [] =>
          if m_create mode then
            let t2 := put t cs (File (match wr with Some d => d | None => [] end) None) in
            {| rs_tree := Some t2; rs_res := ROk (if rd then VBytes [] else VUnit) |}
          else fail t [ResourceNotFound]
        end
      end
    end.

Definition ref_remove (t : node) (cs : list str) : rstep :=
  match cs with
  | [] => fail t [FileExpected]
  | _ => match status_of t cs with
         | IsFile => {| rs_tree := Some (del t cs); rs_res := ROk VUnit |}
         | IsDir => fail t [FileExpected]
         | _ => fail t [ResourceNotFound]
         end
  end.

Definition ref_removedir (t : node) (cs : list str) : rstep :=
  match cs with
  | [] => fail t [RemoveRootError]
  | _ => match lookup t cs with
         | Some (Dir [] _) => {| rs_tree := Some (del t cs); rs_res := ROk VUnit |}
         | Some (Dir _ _) => fail t [DirectoryNotEmpty]
         | _ => fail t (dir_errors (status_of t cs))
         end
  end.

Definition ref_removetree (t : node) (cs : list str) : rstep :=
  match cs with
  | [] => {| rs_tree := Some (match t with Dir _ mt => Dir [] mt | f => f end);
             rs_res := ROk VUnit |}
  | _ => match status_of t cs with
         | IsDir => {| rs_tree := Some (del t cs); rs_res := ROk VUnit |}
         | s => fail t (dir_errors s)
         end
  end.

Definition ref_setinfo (t : node) (cs : list str) (mt : option Z) : rstep :=
  match lookup t cs with
  | Some n => {| rs_tree := Some (put t cs (set_mt n mt)); rs_res := ROk VUnit |}
  | None => fail t [ResourceNotFound]
  end.

(* ---- move / copy of a file ---- *)
Definition transfer_errors (t : node) (s d : list str) (overwrite : bool) : list ecls :=
  let ss := status_of t s in
  let ds := status_of t d in
  (match ss with Missing | AncFile => [ResourceNotFound] | IsDir => [FileExpected] | IsFile => [] end)
  ++ (if exists_st ds && negb overwrite then [DestinationExists] else [])
  ++ (match ds with IsDir => [FileExpected] | _ => [] end)
  ++ (match d with
      | [] => []
      | _ => if exists_st ds then [] else parent_errors (status_of t (parent d))
      end).

Definition ref_move (t : node) (s d : list str) (overwrite pt : bool) : rstep :=
  match transfer_errors t s d overwrite with
  | (_ :: _) as e => fail t e
  | [] =>
    if path_eqb s d then same t (ROk VUnit)
    else match lookup t s with
         | Some (File data mt) =>
           {| rs_tree := Some (del (put t d (File data mt)) s); rs_res := ROk VUnit |}
         | _ => fail t [ResourceNotFound]
         end
  end.

Definition ref_copy (t : node) (s d : list str) (overwrite pt : bool) : rstep :=
  match transfer_errors t s d overwrite ++ (if path_eqb s d then [IllegalDestination] else []) with
  | (_ :: _) as e => fail t e
  | [] =>
    match lookup t s with
    | Some (File data mt) =>
      (* an empty source is uploaded without a write: an existing destination keeps its time *)
      let dmt := if pt then mt else
                   match data, lookup t d with [], Some (File _ m) => m | _, _ => None end in
      {| rs_tree := Some (put t d (File data dmt)); rs_res := ROk VUnit |}
    | _ => fail t [ResourceNotFound]
    end
  end.

(* ---- directory merge (copydir / movedir onto an existing directory) ---- *)
Fixpoint merge_node (fuel : nat) (pt : bool) (dst src : node) : option node :=
  match fuel with
  | O => None
  | S f =>
    match dst, src with
    | Dir dents dmt, Dir sents _ =>
      (fix go (l : list (str * node)) (acc : list (str * node)) : option node :=
         match l with
         | [] => Some (Dir acc dmt)
         | (k, n) :: r =>
           match assoc k acc, n with
           | None, _ => go r (assoc_set k (if pt then n else n) acc)
           | Some (Dir _ _ as d'), Dir _ _ =>
             match merge_node f pt d' n with
             | Some m => go r (assoc_set k m acc)
             | None => None
             end
           | Some (File _ omt), File data mt =>
             go r (assoc_set k (File data (if pt then mt else
                                            match data with [] => omt | _ => None end)) acc)
           | _, _ => None
           end
         end) sents dents
    | _, _ => None
    end
  end.

(* a fresh copy of a subtree: new resources get the current time unless preserve_time *)
Fixpoint fresh (pt : bool) (n : node) : node :=
  match n with
  | File d mt => File d (if pt then mt else None)
  | Dir ents mt =>
    Dir ((fix go (l : list (str * node)) : list (str * node) :=
            match l with [] => [] | (k, c) :: r => (k, fresh pt c) :: go r end) ents) None
  end.

(* ---- makedirs ---- *)
Fixpoint mkdirs (t : node) (pre rest : list str) : node :=
  match rest with
  | [] => t
  | c :: r =>
    let p := pre ++ [c] in
    mkdirs (match lookup t p with Some _ => t | None => put t p empty_dir end) p r
  end.

Fixpoint prefix_is_file (t : node) (pre rest : list str) : bool :=
  match rest with
  | [] => false
  | c :: r =>
    let p := pre ++ [c] in
    match lookup t p with
    | Some (File _ _) => true
    | _ => prefix_is_file t p r
    end
  end.

Definition dirtransfer_errors (t : node) (s d : list str) (create move : bool) : list ecls :=
  let ss := status_of t s in
  let ds := status_of t d in
  (if list_prefix s d then [IllegalDestination] else [])
  ++ (match ss with Missing => [ResourceNotFound] | AncFile => [ResourceNotFound; DirectoryExpected]
                  | IsFile => [DirectoryExpected] | IsDir => [] end)
  ++ (match ds with
      | IsFile => [DirectoryExpected; DirectoryExists]
      | IsDir => []
      | _ => (if create then [] else [ResourceNotFound])
             ++ (if move then match d with [] => [] | _ => parent_errors (status_of t (parent d)) end
                 else if prefix_is_file t [] d then [DirectoryExpected; ResourceNotFound] else [])
      end).

Definition ref_dirtransfer (t : node) (s d : list str) (create pt : bool) (move : bool) : rstep :=
  if move && path_eqb s d then same t (ROk VUnit)
  else
    match dirtransfer_errors t s d create move with
    | (_ :: _) as e => fail t e
    | [] =>
      if list_prefix d s then {| rs_tree := None; rs_res := RAny |}   (* d above s: degenerate *)
      else
        match lookup t s, lookup t d with
        | Some src, None =>
          let t1 := put (if move then t else mkdirs t [] d) d (if move then src else fresh pt src) in
          {| rs_tree := Some (if move then del t1 s else t1); rs_res := ROk VUnit |}
        | Some src, Some dst =>
          match merge_node (S (tree_size src)) pt dst (fresh pt src) with
          | Some m =>
            let t1 := put t d m in
            {| rs_tree := Some (if move then del t1 s else t1); rs_res := ROk VUnit |}
          | None =>   (* file/directory conflict below the destination: some failure *)
            {| rs_tree := None; rs_res := RFail [DirectoryExpected; FileExpected; DirectoryExists;
                                                 ResourceNotFound] |}
          end
        | _, _ => fail t [ResourceNotFound]
        end
    end.

Definition ref_makedirs (t : node) (cs : list str) (recreate : bool) : rstep :=
  if prefix_is_file t [] cs then fail t [DirectoryExpected; ResourceNotFound; DirectoryExists]
  else match status_of t cs with
       | IsDir => if recreate then same t (ROk VUnit) else fail t [DirectoryExists]
       | _ => {| rs_tree := Some (mkdirs t [] cs); rs_res := ROk VUnit |}
       end.

(* ---- the reference step ---- *)
Definition infos_of (ents : list (str * node)) : list info :=
  map (fun kn => {| i_name := fst kn; i_isdir := is_dir (snd kn);
                    i_size := node_size (snd kn); i_mt := node_mt (snd kn) |}) ents.

Definition ref_query (t : node) (p : str) (k : list str -> rres) : rstep :=
  with1 t p (fun cs => same t (k cs)).

Definition ref_run (o : op) (t : node) : rstep :=
  match o with
  | OGetinfo p => with1 t p (ref_getinfo t)
  | OListdir p => with1 t p (fun cs => ref_listing t cs (fun e => VNames (keys e)))
  | OScandir p => with1 t p (fun cs => ref_listing t cs (fun e => VInfos (infos_of e)))
  | OIsempty p => with1 t p (fun cs => ref_listing t cs
                     (fun e => VBool (match e with [] => true | _ => false end)))
  | OMakedir p r => with1 t p (fun cs => ref_makedir t cs r)
  | OMakedirs p r => with1 t p (fun cs => ref_makedirs t cs r)
  | OWritebytes p d => with1 t p (fun cs => ref_open t cs m_wb (Some d) false)
  | OAppendbytes p d => with1 t p (fun cs => ref_open t cs m_ab (Some d) false)
  | OReadbytes p => with1 t p (fun cs => ref_open t cs m_rb None true)
  (* an invalid mode string is rejected (ValueError) before the path is looked at *)
  | OOpenwrite p m d =>
    if negb (mode_valid_bin m) then same t RValueError
    else with1 t p (fun cs => ref_open t cs m (if m_writing m then Some d else None) false)
  | OOpenread p m =>
    if negb (mode_valid_bin m) then same t RValueError
    else with1 t p (fun cs => ref_open t cs m None (m_reading m))
  | OCreate p wipe =>
    with1 t p (fun cs =>
      if negb wipe && exists_st (status_of t cs) then same t (ROk (VBool false))
      else let r := ref_open t cs m_wb None false in
           match rs_res r with
           | ROk _ => {| rs_tree := rs_tree r; rs_res := ROk (VBool true) |}
           | _ => r
           end)
  | OTouch p =>
    with1 t p (fun cs =>
      match lookup t cs with
      | Some n => {| rs_tree := Some (put t cs (set_mt n None)); rs_res := ROk VUnit |}
      | None => ref_open t cs m_wb None false
      end)
  | ORemove p => with1 t p (ref_remove t)
  | ORemovedir p => with1 t p (ref_removedir t)
  | ORemovetree p => with1 t p (ref_removetree t)
  | OMove s d o pt => with2 t s d (fun a b => ref_move t a b o pt)
  | OCopy s d o pt => with2 t s d (fun a b => ref_copy t a b o pt)
  | OMovedir s d c pt => with2 t s d (fun a b => ref_dirtransfer t a b c pt true)
  | OCopydir s d c pt => with2 t s d (fun a b => ref_dirtransfer t a b c pt false)
  | OSetinfo p mt => with1 t p (fun cs => ref_setinfo t cs mt)
  | OExists p => ref_query t p (fun cs => ROk (VBool (exists_st (status_of t cs))))
  | OIsdir p => ref_query t p (fun cs =>
                  ROk (VBool (match status_of t cs with IsDir => true | _ => false end)))
  | OIsfile p => ref_query t p (fun cs =>
                  ROk (VBool (match status_of t cs with IsFile => true | _ => false end)))
  | OGetsize p => ref_query t p (fun cs =>
                  match lookup t cs with Some n => ROk (VNat (node_size n))
                                       | None => RFail [ResourceNotFound] end)
  | OGettype p => ref_query t p (fun cs =>
                  match lookup t cs with Some n => ROk (VNat (if is_dir n then 1 else 2))
                                       | None => RFail [ResourceNotFound] end)
  end.
