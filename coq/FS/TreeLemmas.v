(* Lemmas on trees (assoc / lookup / put / del / status_of), reflexivity of the
   comparison functions of Agree.v, and preservation of well-formedness. *)
From Coq Require Import List NArith ZArith Bool Arith Lia.
From PyFS Require Import Base.PyStr Base.Outcome Path.PathModel Path.PathSpec Path.PathProofs
     FS.Tree FS.Monad FS.Mode FS.Base FS.Mem FS.Ops FS.Ref FS.Agree FS.Wf.
Import ListNotations.

(* ------------------------------------------------------------------ *)
(* induction principle for nodes                                       *)
(* ------------------------------------------------------------------ *)
Section NodeInd.
  Variable P : node -> Prop.
  Hypothesis HF : forall d m, P (File d m).
  Hypothesis HD : forall ents m, Forall (fun kn => P (snd kn)) ents -> P (Dir ents m).
  Fixpoint node_ind' (t : node) : P t :=
    match t with
    | File d m => HF d m
    | Dir ents m =>
      HD ents m
         ((fix go (l : list (str * node)) : Forall (fun kn => P (snd kn)) l :=
             match l with
             | [] => Forall_nil _
             | (k, n) :: r => Forall_cons (k, n) (node_ind' n) (go r)
             end) ents)
    end.
End NodeInd.

(* ------------------------------------------------------------------ *)
(* association lists                                                   *)
(* ------------------------------------------------------------------ *)
Lemma str_eqb_sym a b : str_eqb a b = str_eqb b a.
Proof.
  destruct (str_eqb a b) eqn:E.
  - apply str_eqb_eq in E. subst. symmetry. apply str_eqb_refl.
  - symmetry. apply str_eqb_neq. apply str_eqb_neq in E. congruence.
Qed.

Lemma assoc_set_same {A} k (v : A) l : assoc k (assoc_set k v l) = Some v.
Proof.
  induction l as [|[k' v'] r IH]; simpl.
  - now rewrite str_eqb_refl.
  - destruct (str_eqb k k') eqn:E; simpl.
    + now rewrite str_eqb_refl.
    + now rewrite E.
Qed.

Lemma assoc_set_other {A} k k' (v : A) l : k' <> k -> assoc k' (assoc_set k v l) = assoc k' l.
Proof.
  intro H. induction l as [|[k2 v2] r IH]; simpl.
  - apply str_eqb_neq in H. now rewrite H.
  - destruct (str_eqb k k2) eqn:E; simpl.
    + apply str_eqb_eq in E. subst k2. apply str_eqb_neq in H. now rewrite H.
    + now rewrite IH.
Qed.

Lemma assoc_set_set {A} k (a b : A) l : assoc_set k b (assoc_set k a l) = assoc_set k b l.
Proof.
  induction l as [|[k2 v2] r IH]; simpl.
  - now rewrite str_eqb_refl.
  - destruct (str_eqb k k2) eqn:E; simpl.
    + now rewrite str_eqb_refl.
    + now rewrite E, IH.
Qed.

Lemma keys_assoc_set_some {A} k (v x : A) l :
  assoc k l = Some x -> keys (assoc_set k v l) = keys l.
Proof.
  unfold keys. induction l as [|[k2 v2] r IH]; simpl; [discriminate|].
  destruct (str_eqb k k2) eqn:E; simpl.
  - intros _. apply str_eqb_eq in E. now subst.
  - intro H. now rewrite IH.
Qed.

Lemma keys_assoc_set_none {A} k (v : A) l :
  assoc k l = None -> keys (assoc_set k v l) = keys l ++ [k].
Proof.
  unfold keys. induction l as [|[k2 v2] r IH]; simpl; [reflexivity|].
  destruct (str_eqb k k2) eqn:E; simpl; [discriminate|].
  intro H. now rewrite IH.
Qed.

Lemma assoc_none_notin {A} k (l : list (str * A)) : assoc k l = None -> ~ In k (keys l).
Proof.
  induction l as [|[k2 v2] r IH]; simpl; [tauto|].
  destruct (str_eqb k k2) eqn:E; [discriminate|].
  intros H [H1|H1].
  - subst. now rewrite str_eqb_refl in E.
  - now apply IH.
Qed.

Lemma assoc_some_in {A} k (v : A) l : assoc k l = Some v -> In k (keys l).
Proof.
  induction l as [|[k2 v2] r IH]; simpl; [discriminate|].
  destruct (str_eqb k k2) eqn:E.
  - apply str_eqb_eq in E. subst. now left.
  - intro H. right. now apply IH.
Qed.

Lemma assoc_some_In {A} k (v : A) l : assoc k l = Some v -> In (k, v) l.
Proof.
  induction l as [|[k2 v2] r IH]; simpl; [discriminate|].
  destruct (str_eqb k k2) eqn:E.
  - apply str_eqb_eq in E. subst. intro H. inversion H. now left.
  - intro H. right. now apply IH.
Qed.

Lemma keys_assoc_del_incl {A} k (l : list (str * A)) x : In x (keys (assoc_del k l)) -> In x (keys l).
Proof.
  induction l as [|[k2 v2] r IH]; simpl; [tauto|].
  destruct (str_eqb k k2); simpl.
  - now right.
  - intros [H|H]; [now left|right; now apply IH].
Qed.

Lemma In_assoc_del {A} k (l : list (str * A)) x : In x (assoc_del k l) -> In x l.
Proof.
  induction l as [|[k2 v2] r IH]; simpl; [tauto|].
  destruct (str_eqb k k2); simpl.
  - now right.
  - intros [H|H]; [now left|right; now apply IH].
Qed.

Lemma NoDup_keys_assoc_del {A} k (l : list (str * A)) : NoDup (keys l) -> NoDup (keys (assoc_del k l)).
Proof.
  induction l as [|[k2 v2] r IH]; simpl; [auto|].
  intro H. inversion H as [|? ? Hn Hr]; subst.
  destruct (str_eqb k k2); simpl; [assumption|].
  constructor; [|now apply IH].
  intro Hi. apply Hn. now apply keys_assoc_del_incl in Hi.
Qed.

(* ------------------------------------------------------------------ *)
(* well-formedness                                                     *)
(* ------------------------------------------------------------------ *)
Lemma wf_node_dir ents m :
  wf_node (Dir ents m) <->
  NoDup (keys ents) /\ Forall good (keys ents) /\ Forall (fun kn => wf_node (snd kn)) ents.
Proof.
  simpl.
  assert (forall l : list (str * node),
             (fix all (l : list (str * node)) : Prop :=
                match l with [] => True | (_, n) :: r => wf_node n /\ all r end) l
             <-> Forall (fun kn => wf_node (snd kn)) l) as Hall.
  { induction l as [|[k n] r IH].
    - split; auto.
    - split.
      + intros [H1 H2]. constructor; [exact H1|now apply IH].
      + intro H. inversion H; subst. split; [assumption|now apply IH]. }
  rewrite Hall. tauto.
Qed.

Lemma wf_empty_dir : wf_node empty_dir.
Proof. apply wf_node_dir. simpl. repeat split; constructor. Qed.

Lemma wf_assoc ents m k n : wf_node (Dir ents m) -> assoc k ents = Some n -> wf_node n.
Proof.
  intros H Ha. apply wf_node_dir in H as (_ & _ & H).
  apply assoc_some_In in Ha. rewrite Forall_forall in H. now apply H in Ha.
Qed.

Lemma wf_assoc_good ents m k n : wf_node (Dir ents m) -> assoc k ents = Some n -> good k.
Proof.
  intros H Ha. apply wf_node_dir in H as (_ & H & _).
  apply assoc_some_in in Ha. rewrite Forall_forall in H. now apply H.
Qed.

Lemma wf_lookup p : forall t n, wf_node t -> lookup t p = Some n -> wf_node n.
Proof.
  induction p as [|c rest IH]; simpl; intros t n W H.
  - now inversion H; subst.
  - destruct t as [|ents m]; [discriminate|].
    destruct (assoc c ents) as [ch|] eqn:E; [|discriminate].
    eapply IH; [|exact H]. eapply wf_assoc; eauto.
Qed.

Lemma Forall_assoc_set {A} (P : str * A -> Prop) k v l :
  Forall P l -> P (k, v) -> Forall P (assoc_set k v l).
Proof.
  intros H Hk. induction l as [|[k2 v2] r IH]; simpl.
  - constructor; [assumption|constructor].
  - inversion H; subst. destruct (str_eqb k k2); constructor; auto.
Qed.

Lemma wf_assoc_set ents m k n :
  wf_node (Dir ents m) -> good k -> wf_node n -> wf_node (Dir (assoc_set k n ents) m).
Proof.
  intros H Hg Hn. apply wf_node_dir in H as (H1 & H2 & H3). apply wf_node_dir.
  destruct (assoc k ents) as [x|] eqn:E.
  - rewrite (keys_assoc_set_some _ _ _ _ E). repeat split; auto.
    apply Forall_assoc_set; auto.
  - rewrite (keys_assoc_set_none _ _ _ E). repeat split.
    + apply NoDup_rev in H1. rewrite <- (rev_involutive (keys ents ++ [k])).
      apply NoDup_rev. rewrite rev_app_distr. simpl. constructor; [|assumption].
      rewrite <- in_rev. now apply assoc_none_notin.
    + apply Forall_app. split; [assumption|]. constructor; [assumption|constructor].
    + apply Forall_assoc_set; auto.
Qed.

Lemma wf_assoc_del ents m k : wf_node (Dir ents m) -> wf_node (Dir (assoc_del k ents) m).
Proof.
  intro H. apply wf_node_dir in H as (H1 & H2 & H3). apply wf_node_dir. repeat split.
  - now apply NoDup_keys_assoc_del.
  - rewrite Forall_forall in *. intros x Hx. apply H2. now apply keys_assoc_del_incl in Hx.
  - rewrite Forall_forall in *. intros x Hx. apply H3. now apply In_assoc_del in Hx.
Qed.

Lemma wf_put p : forall t n, wf_node t -> Forall good p -> wf_node n -> wf_node (put t p n).
Proof.
  induction p as [|c rest IH]; intros t n W G Wn; [exact Wn|].
  inversion G as [|? ? Gc Gr]; subst.
  destruct t as [d m|ents m]; [exact W|].
  simpl. destruct rest as [|c2 rest2].
  - now apply wf_assoc_set.
  - destruct (assoc c ents) as [ch|] eqn:E; [|exact W].
    apply wf_assoc_set; auto. apply IH; auto. eapply wf_assoc; eauto.
Qed.

Lemma wf_del p : forall t, wf_node t -> wf_node (del t p).
Proof.
  induction p as [|c rest IH]; intros t W; [exact W|].
  destruct t as [d m|ents m]; [exact W|].
  simpl. destruct rest as [|c2 rest2].
  - now apply wf_assoc_del.
  - destruct (assoc c ents) as [ch|] eqn:E; [|exact W].
    apply wf_assoc_set; auto.
    + eapply wf_assoc_good; eauto.
    + apply IH. eapply wf_assoc; eauto.
Qed.

Lemma is_dir_put t p n : p <> [] -> is_dir (put t p n) = is_dir t.
Proof.
  destruct p as [|c rest]; [congruence|]. intros _.
  destruct t as [d m|ents m]; [reflexivity|].
  simpl. destruct rest; [reflexivity|]. destruct (assoc c ents); reflexivity.
Qed.

Lemma is_dir_del t p : is_dir (del t p) = is_dir t.
Proof.
  destruct p as [|c rest]; [reflexivity|].
  destruct t as [d m|ents m]; [reflexivity|].
  simpl. destruct rest; [reflexivity|]. destruct (assoc c ents); reflexivity.
Qed.

Lemma is_dir_set_mt t m : is_dir (set_mt t m) = is_dir t.
Proof. destruct t; reflexivity. Qed.

Lemma wf_set_mt t m : wf_node t -> wf_node (set_mt t m).
Proof. destruct t; simpl; auto. Qed.

Lemma wf_put_ne s p n : wf s -> p <> [] -> Forall good p -> wf_node n -> wf (put s p n).
Proof.
  intros [H1 H2] Hp G Wn. split.
  - now rewrite is_dir_put.
  - now apply wf_put.
Qed.

Lemma wf_del_any s p : wf s -> wf (del s p).
Proof.
  intros [H1 H2]. split.
  - now rewrite is_dir_del.
  - now apply wf_del.
Qed.

Lemma wf_root_set_mt s m : wf s -> wf (set_mt s m).
Proof.
  intros [H1 H2]. split.
  - now rewrite is_dir_set_mt.
  - now apply wf_set_mt.
Qed.

Lemma wf_root_clear s : wf s -> wf (match s with Dir _ mt => Dir [] mt | f => f end).
Proof.
  intros [H1 H2]. destruct s as [|ents m]; [discriminate|].
  split; [reflexivity|]. apply wf_node_dir. simpl. repeat split; constructor.
Qed.

Lemma wf_root_dir s : wf s -> exists ents m, s = Dir ents m.
Proof. intros [H _]. destruct s; [discriminate|]. eauto. Qed.

Lemma wf_assoc_nil ents m : wf_node (Dir ents m) -> assoc [] ents = None.
Proof.
  intro H. destruct (assoc [] ents) eqn:E; [|reflexivity].
  eapply wf_assoc_good in E; eauto. destruct E as [E _]. congruence.
Qed.

(* ------------------------------------------------------------------ *)
(* lookup / status_of                                                  *)
(* ------------------------------------------------------------------ *)
Lemma lookup_app a : forall t b,
  lookup t (a ++ b) = match lookup t a with Some n => lookup n b | None => None end.
Proof.
  induction a as [|c a IH]; intros t b; simpl; [reflexivity|].
  destruct t as [|ents m]; [reflexivity|].
  destruct (assoc c ents); [apply IH|reflexivity].
Qed.

Lemma lookup_snoc t d c :
  lookup t (d ++ [c]) =
  match lookup t d with Some (Dir ents _) => assoc c ents | _ => None end.
Proof.
  rewrite lookup_app. destruct (lookup t d) as [[|ents m]|]; simpl; try reflexivity.
  destruct (assoc c ents); reflexivity.
Qed.

Lemma exists_st_lookup p : forall t,
  exists_st (status_of t p) = match lookup t p with Some _ => true | None => false end.
Proof.
  induction p as [|c p IH]; intros t; simpl.
  - destruct (is_dir t); reflexivity.
  - destruct t as [|ents m]; [reflexivity|].
    destruct (assoc c ents); [apply IH|reflexivity].
Qed.

Lemma status_lookup_some p : forall t n,
  lookup t p = Some n -> status_of t p = if is_dir n then IsDir else IsFile.
Proof.
  induction p as [|c p IH]; intros t n; simpl.
  - intro H. now inversion H.
  - destruct t as [|ents m]; [discriminate|].
    destruct (assoc c ents); [apply IH|discriminate].
Qed.

Lemma status_lookup_none p : forall t,
  lookup t p = None -> status_of t p = Missing \/ status_of t p = AncFile.
Proof.
  induction p as [|c p IH]; intros t; simpl.
  - discriminate.
  - destruct t as [|ents m]; [now right|].
    destruct (assoc c ents); [apply IH|now left].
Qed.

(* the four situations of a path d ++ [c] *)
Lemma path_view d : forall s c,
  (lookup s d = None /\ (status_of s d = Missing \/ status_of s d = AncFile) /\
   status_of s (d ++ [c]) = status_of s d /\ lookup s (d ++ [c]) = None) \/
  (exists dt m, lookup s d = Some (File dt m) /\ status_of s d = IsFile /\
                status_of s (d ++ [c]) = AncFile /\ lookup s (d ++ [c]) = None) \/
  (exists ents m, lookup s d = Some (Dir ents m) /\ status_of s d = IsDir /\
                  assoc c ents = None /\
                  status_of s (d ++ [c]) = Missing /\ lookup s (d ++ [c]) = None) \/
  (exists ents m n, lookup s d = Some (Dir ents m) /\ status_of s d = IsDir /\
                    assoc c ents = Some n /\
                    status_of s (d ++ [c]) = (if is_dir n then IsDir else IsFile) /\
                    lookup s (d ++ [c]) = Some n).
Proof.
  induction d as [|a d IH]; intros s c.
  - simpl. destruct s as [dt m|ents m].
    + right; left. exists dt, m. auto.
    + destruct (assoc c ents) as [n|] eqn:E.
      * right; right; right. exists ents, m, n. simpl. auto.
      * right; right; left. exists ents, m. simpl. auto.
  - simpl. destruct s as [dt m|ents m].
    + left. auto.
    + destruct (assoc a ents) as [ch|] eqn:E.
      * apply IH.
      * left. auto.
Qed.

Lemma lookup_put_same d : forall t c n ents m,
  lookup t d = Some (Dir ents m) -> lookup (put t (d ++ [c]) n) (d ++ [c]) = Some n.
Proof.
  induction d as [|a d IH]; intros t c n ents m H.
  - simpl in H. inversion H; subst. simpl. now rewrite assoc_set_same.
  - simpl in H. destruct t as [|e0 m0]; [discriminate|].
    destruct (assoc a e0) as [ch|] eqn:E; [|discriminate].
    simpl app. simpl put. destruct (d ++ [c]) eqn:Ed; [destruct d; discriminate|].
    rewrite E. rewrite <- Ed. simpl. rewrite assoc_set_same. eapply IH; eauto.
Qed.

Lemma put_cons_ne ents m c rest n : rest <> [] ->
  put (Dir ents m) (c :: rest) n =
  match assoc c ents with
  | Some ch => Dir (assoc_set c (put ch rest n) ents) m
  | None => Dir ents m
  end.
Proof. destruct rest; [congruence|reflexivity]. Qed.

Lemma del_cons_ne ents m c rest : rest <> [] ->
  del (Dir ents m) (c :: rest) =
  match assoc c ents with
  | Some ch => Dir (assoc_set c (del ch rest) ents) m
  | None => Dir ents m
  end.
Proof. destruct rest; [congruence|reflexivity]. Qed.

Lemma put_put p : forall t a b, put (put t p a) p b = put t p b.
Proof.
  induction p as [|c rest IH]; intros t a b; [reflexivity|].
  destruct t as [|ents m]; [reflexivity|].
  destruct rest as [|c2 rest2].
  - simpl. now rewrite assoc_set_set.
  - remember (c2 :: rest2) as rest eqn:Er.
    assert (Hne : rest <> []) by (subst; discriminate).
    rewrite (put_cons_ne ents m c rest a Hne), (put_cons_ne ents m c rest b Hne).
    destruct (assoc c ents) as [ch|] eqn:E.
    + rewrite put_cons_ne by assumption. rewrite assoc_set_same, IH. now rewrite assoc_set_set.
    + rewrite put_cons_ne by assumption. now rewrite E.
Qed.

(* a file elsewhere is not affected by writing at a path that holds no directory *)
Lemma lookup_put_file q : forall t p n data mt,
  lookup t q = Some (File data mt) -> q <> p ->
  (lookup t p = None \/ exists d2 m2, lookup t p = Some (File d2 m2)) ->
  lookup (put t p n) q = Some (File data mt).
Proof.
  induction q as [|a q IH]; intros t p n data mt Hq Hne Hp.
  - simpl in Hq. inversion Hq; subst.
    destruct p as [|c rest]; [congruence|]. reflexivity.
  - simpl in Hq. destruct t as [|ents m]; [discriminate|].
    destruct (assoc a ents) as [ch|] eqn:Ea; [|discriminate].
    destruct p as [|c rest].
    + simpl in Hp. destruct Hp as [Hp|[d2 [m2 Hp]]]; discriminate.
    + destruct rest as [|c2 rest2].
      * simpl put. destruct (str_eqb a c) eqn:Eac.
        -- apply str_eqb_eq in Eac. subst c.
           simpl in Hp. rewrite Ea in Hp.
           destruct q as [|a2 q2]; [congruence|].
           destruct ch as [|e2 mm]; [discriminate|].
           destruct Hp as [Hp|[d2 [m2 Hp]]]; discriminate.
        -- apply str_eqb_neq in Eac. simpl. rewrite assoc_set_other by assumption.
           now rewrite Ea.
      * remember (c2 :: rest2) as rest eqn:Er.
        assert (Hne2 : rest <> []) by (subst; discriminate).
        rewrite put_cons_ne by assumption.
        destruct (assoc c ents) as [ch2|] eqn:Ec.
        -- destruct (str_eqb a c) eqn:Eac.
           ++ apply str_eqb_eq in Eac. subst c. rewrite Ea in Ec. inversion Ec; subst ch2.
              simpl. rewrite assoc_set_same. apply IH; auto.
              ** congruence.
              ** simpl in Hp. now rewrite Ea in Hp.
           ++ apply str_eqb_neq in Eac. simpl. rewrite assoc_set_other by assumption.
              now rewrite Ea.
        -- simpl. now rewrite Ea.
Qed.

(* ------------------------------------------------------------------ *)
(* reflexivity of the comparisons of Agree.v                           *)
(* ------------------------------------------------------------------ *)
Lemma mt_eqb_refl m : mt_eqb m m = true.
Proof. destruct m; simpl; [apply Z.eqb_refl|reflexivity]. Qed.

Lemma node_eqb_refl times : forall a, node_eqb times a a = true.
Proof.
  induction a as [d m|ents m IH] using node_ind'; simpl.
  - rewrite str_eqb_refl, mt_eqb_refl. now destruct times.
  - rewrite mt_eqb_refl. replace (negb times || true) with true by now destruct times.
    simpl. induction ents as [|[k n] r IHr]; [reflexivity|].
    inversion IH; subst. simpl in *. rewrite str_eqb_refl. rewrite H1. simpl. now apply IHr.
Qed.

Lemma tree_eqb_refl times a : tree_eqb times a a = true.
Proof. apply node_eqb_refl. Qed.

Lemma list_eqb_refl {A} (f : A -> A -> bool) l : (forall x, f x x = true) -> list_eqb f l l = true.
Proof. intro H. induction l; simpl; [reflexivity|]. now rewrite H. Qed.

Lemma info_eqb_refl i : info_eqb i i = true.
Proof.
  unfold info_eqb. rewrite str_eqb_refl, Bool.eqb_reflx, Nat.eqb_refl, mt_eqb_refl. reflexivity.
Qed.

Lemma value_eqb_refl v : value_eqb v v = true.
Proof.
  destruct v; simpl.
  - reflexivity.
  - apply Bool.eqb_reflx.
  - apply Nat.eqb_refl.
  - apply str_eqb_refl.
  - apply list_eqb_refl. apply str_eqb_refl.
  - apply info_eqb_refl.
  - apply list_eqb_refl. apply info_eqb_refl.
Qed.

Lemma ecls_eqb_refl e : ecls_eqb e e = true.
Proof. now apply ecls_eqb_eq. Qed.

Lemma path_eqb_eq a : forall b, path_eqb a b = true <-> a = b.
Proof.
  induction a as [|x a IH]; intros [|y b]; simpl; split; intro H;
    try reflexivity; try discriminate.
  - apply andb_true_iff in H as [H1 H2]. apply str_eqb_eq in H1. apply IH in H2. congruence.
  - inversion H; subst. rewrite str_eqb_refl. simpl. now apply IH.
Qed.

Lemma path_eqb_refl a : path_eqb a a = true.
Proof. now apply path_eqb_eq. Qed.

Lemma path_eqb_neq a b : a <> b -> path_eqb a b = false.
Proof.
  intro H. destruct (path_eqb a b) eqn:E; [|reflexivity]. apply path_eqb_eq in E. contradiction.
Qed.

Lemma list_prefix_cprefix a : forall b, list_prefix a b = cprefix a b.
Proof. intros b. reflexivity. Qed.

Lemma list_prefix_nil b : list_prefix [] b = true.
Proof. reflexivity. Qed.
