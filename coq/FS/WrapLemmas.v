(* The reference semantics is "framed": a call on component paths below a directory d of the
   tree s behaves like the same call on the sub-tree at d, and changes nothing outside. *)
From Coq Require Import List NArith ZArith Bool Arith Lia.
From PyFS Require Import Base.PyStr Base.Outcome Path.PathModel Path.PathSpec Path.PathProofs
     FS.Tree FS.Monad FS.Mode FS.Base FS.Mem FS.Ops FS.Ref FS.Agree FS.Wf
     FS.TreeLemmas FS.RefineLemmas FS.RefineProofs FS.Props FS.PropsProofs
     FS.RefineWalkLemmasEq FS.RefineWalkLemmasMk FS.RefineWalkLemmasBfs
     FS.RefineWalkLemmasCopy.
Import ListNotations.

(* ------------------------------------------------------------------ *)
(* trees: access below a prefix                                        *)
(* ------------------------------------------------------------------ *)
Lemma lookup_pre d : forall s sub cs, lookup s d = Some sub -> lookup s (d ++ cs) = lookup sub cs.
Proof. intros s sub cs H. now rewrite lookup_app, H. Qed.

Lemma status_pre d : forall s sub cs, lookup s d = Some sub -> status_of s (d ++ cs) = status_of sub cs.
Proof.
  induction d as [|c d IH]; intros s sub cs H.
  - simpl in H. now inversion H.
  - simpl in H. destruct s as [|ents m]; [discriminate|].
    destruct (assoc c ents) as [ch|] eqn:E; [|discriminate].
    simpl. rewrite E. now apply IH.
Qed.

Lemma assoc_set_id {A} k (v : A) l : assoc k l = Some v -> assoc_set k v l = l.
Proof.
  induction l as [|[k2 v2] r IH]; simpl; [discriminate|].
  destruct (str_eqb k k2) eqn:E.
  - intro H. inversion H; subst. apply str_eqb_eq in E. now subst.
  - intro H. now rewrite IH.
Qed.

Lemma put_id d : forall s sub, lookup s d = Some sub -> put s d sub = s.
Proof.
  induction d as [|c d IH]; intros s sub H.
  - simpl in H. now inversion H.
  - simpl in H. destruct s as [|ents m]; [discriminate|].
    destruct (assoc c ents) as [ch|] eqn:E; [|discriminate].
    destruct d as [|c2 d2].
    + simpl in H. inversion H; subst. simpl. now rewrite assoc_set_id.
    + rewrite put_cons_ne by discriminate. rewrite E, (IH ch sub H). now rewrite assoc_set_id.
Qed.

Lemma put_pre d : forall s sub cs n, lookup s d = Some sub ->
  put s (d ++ cs) n = put s d (put sub cs n).
Proof.
  induction d as [|c d IH]; intros s sub cs n H.
  - simpl in H. now inversion H.
  - simpl in H. destruct s as [|ents m]; [discriminate|].
    destruct (assoc c ents) as [ch|] eqn:E; [|discriminate].
    destruct d as [|c2 d2].
    + simpl in H. inversion H; subst ch. simpl app.
      destruct cs as [|x cs]; [reflexivity|].
      rewrite put_cons_ne by discriminate. now rewrite E.
    + change ((c :: c2 :: d2) ++ cs) with (c :: ((c2 :: d2) ++ cs)).
      rewrite put_cons_ne by (simpl; discriminate). rewrite E.
      rewrite (put_cons_ne ents m c (c2 :: d2)) by discriminate. rewrite E.
      now rewrite (IH ch sub cs n H).
Qed.

Lemma del_pre d : forall s sub cs, lookup s d = Some sub -> cs <> [] ->
  del s (d ++ cs) = put s d (del sub cs).
Proof.
  induction d as [|c d IH]; intros s sub cs H Hc.
  - simpl in H. now inversion H.
  - simpl in H. destruct s as [|ents m]; [discriminate|].
    destruct (assoc c ents) as [ch|] eqn:E; [|discriminate].
    destruct d as [|c2 d2].
    + simpl in H. inversion H; subst ch. simpl app.
      rewrite del_cons_ne by assumption. now rewrite E.
    + change ((c :: c2 :: d2) ++ cs) with (c :: ((c2 :: d2) ++ cs)).
      rewrite del_cons_ne by (simpl; discriminate). rewrite E.
      rewrite (put_cons_ne ents m c (c2 :: d2)) by discriminate. rewrite E.
      now rewrite (IH ch sub cs H Hc).
Qed.

Lemma lookup_put_at d : forall s sub x, lookup s d = Some sub -> lookup (put s d x) d = Some x.
Proof.
  induction d as [|c d IH]; intros s sub x H; [reflexivity|].
  simpl in H. destruct s as [|ents m]; [discriminate|].
  destruct (assoc c ents) as [ch|] eqn:E; [|discriminate].
  destruct d as [|c2 d2].
  - simpl. now rewrite assoc_set_same.
  - rewrite put_cons_ne by discriminate. rewrite E. cbn [lookup]. rewrite assoc_set_same.
    now apply (IH ch sub).
Qed.

Lemma parent_pre (d cs : list str) : cs <> [] -> parent (d ++ cs) = d ++ parent cs.
Proof. intro H. unfold parent. now apply removelast_app. Qed.

Lemma last_pre (d cs : list str) : cs <> [] -> last (d ++ cs) [] = last cs [].
Proof.
  intro H. induction d as [|x d IH]; [reflexivity|].
  simpl. destruct (d ++ cs) eqn:E; [|exact IH].
  apply app_eq_nil in E. destruct E. contradiction.
Qed.

Lemma match_ne {A B} (l : list A) (x y : B) : l <> [] ->
  match l with [] => x | _ :: _ => y end = y.
Proof. destruct l; [congruence|reflexivity]. Qed.

Lemma lookup_parent_dir d : forall s sub, d <> [] -> lookup s d = Some sub ->
  exists e m, lookup s (parent d) = Some (Dir e m).
Proof.
  intros s sub Hd H. destruct (list_snoc_case d) as [->|[d0 [c ->]]]; [congruence|].
  unfold parent. rewrite removelast_app1. rewrite lookup_snoc in H.
  destruct (lookup s d0) as [[|e m]|]; try discriminate. eauto.
Qed.

(* ------------------------------------------------------------------ *)
(* the reference step transported to the enclosing tree                *)
(* ------------------------------------------------------------------ *)
Definition lift_step (d : list str) (s : node) (r : rstep) : rstep :=
  {| rs_tree := option_map (put s d) (rs_tree r); rs_res := rs_res r |}.

Section Frame.
  Variables (s sub : node) (d : list str).
  Hypothesis Hd : d <> [].
  Hypothesis Hl : lookup s d = Some sub.
  Hypothesis Hsub : is_dir sub = true.

  Lemma dcs_ne cs : d ++ cs <> [].
  Proof. intro E. apply app_eq_nil in E. destruct E. contradiction. Qed.

  Lemma lift_same r : lift_step d s (same sub r) = same s r.
  Proof. unfold lift_step, same. cbn. now rewrite (put_id _ _ _ Hl). Qed.

  Lemma lift_fail a : lift_step d s (fail sub a) = fail s a.
  Proof. apply lift_same. Qed.

  Lemma lift_mk t v : lift_step d s {| rs_tree := Some t; rs_res := v |}
                      = {| rs_tree := Some (put s d t); rs_res := v |}.
  Proof. reflexivity. Qed.

  Lemma status_d : status_of s d = IsDir.
  Proof. rewrite (status_lookup_some _ _ _ Hl). now rewrite Hsub. Qed.

  Lemma status_parent_d : status_of s (parent d) = IsDir.
  Proof.
    destruct (lookup_parent_dir d s sub Hd Hl) as (e & m & H).
    now rewrite (status_lookup_some _ _ _ H).
  Qed.

  Lemma status_sub_nil : status_of sub [] = IsDir.
  Proof. simpl. now rewrite Hsub. Qed.

  Ltac pre := rewrite ?(lookup_pre d s sub _ Hl), ?(status_pre d s sub _ Hl).

  Lemma F_getinfo cs : cs <> [] -> ref_getinfo s (d ++ cs) = lift_step d s (ref_getinfo sub cs).
  Proof.
    intro Hc. unfold ref_getinfo. pre. destruct (lookup sub cs) as [n|].
    - rewrite lift_same. unfold info_of, last_name. now rewrite last_pre.
    - now rewrite lift_fail.
  Qed.

  Lemma F_listing cs k : ref_listing s (d ++ cs) k = lift_step d s (ref_listing sub cs k).
  Proof.
    unfold ref_listing. pre. destruct (lookup sub cs) as [[|e m]|]; now rewrite ?lift_same, ?lift_fail.
  Qed.

  Lemma F_makedir cs r : ref_makedir s (d ++ cs) r = lift_step d s (ref_makedir sub cs r).
  Proof.
    unfold ref_makedir. rewrite (match_ne (d ++ cs)) by apply dcs_ne.
    destruct cs as [|c cs'].
    - rewrite app_nil_r, status_parent_d, status_d. cbn [parent_errors].
      destruct r; now rewrite ?lift_same, ?lift_fail.
    - rewrite parent_pre by discriminate. pre.
      destruct (parent_errors (status_of sub (parent (c :: cs')))); [|now rewrite lift_fail].
      destruct (status_of sub (c :: cs')); rewrite ?lift_fail; try reflexivity.
      + rewrite lift_mk. now rewrite (put_pre d s sub _ _ Hl).
      + rewrite lift_mk. now rewrite (put_pre d s sub _ _ Hl).
      + destruct r; now rewrite ?lift_same, ?lift_fail.
  Qed.

  Lemma F_open cs mode wr rd : ref_open s (d ++ cs) mode wr rd = lift_step d s (ref_open sub cs mode wr rd).
  Proof.
    unfold ref_open. destruct (negb (mode_valid_bin mode)); [now rewrite lift_same|].
    rewrite (match_ne (d ++ cs)) by apply dcs_ne.
    destruct cs as [|c cs'].
    - rewrite app_nil_r, status_d. now rewrite lift_fail.
    - pre. rewrite parent_pre by discriminate. pre.
      destruct (status_of sub (c :: cs')).
      + destruct (file_parent_errors (status_of sub (parent (c :: cs')))); [|now rewrite lift_fail].
        destruct (m_create mode); [|now rewrite lift_fail].
        cbv zeta. rewrite lift_mk. now rewrite (put_pre d s sub _ _ Hl).
      + destruct (file_parent_errors (status_of sub (parent (c :: cs')))); [|now rewrite lift_fail].
        destruct (m_create mode); [|now rewrite lift_fail].
        cbv zeta. rewrite lift_mk. now rewrite (put_pre d s sub _ _ Hl).
      + destruct (m_create mode && m_exclusive mode); [now rewrite lift_fail|].
        destruct (lookup sub (c :: cs')) as [[old mt|]|]; try now rewrite lift_fail.
        cbv zeta. rewrite lift_mk. f_equal. f_equal.
        destruct (m_truncate mode), wr;
          rewrite ?(put_pre d s sub _ _ Hl); try reflexivity.
        * rewrite (put_pre d (put s d (put sub (c :: cs') (File [] mt))) (put sub (c :: cs') (File [] mt)))
            by (eapply lookup_put_at; eauto).
          now rewrite put_put.
        * now rewrite (put_id _ _ _ Hl).
      + now rewrite lift_fail.
  Qed.

  Lemma F_remove cs : ref_remove s (d ++ cs) = lift_step d s (ref_remove sub cs).
  Proof.
    unfold ref_remove. rewrite (match_ne (d ++ cs)) by apply dcs_ne.
    destruct cs as [|c cs'].
    - rewrite app_nil_r, status_d. now rewrite lift_fail.
    - pre. destruct (status_of sub (c :: cs')); rewrite ?lift_fail; try reflexivity.
      rewrite lift_mk. now rewrite (del_pre d s sub _ Hl) by discriminate.
  Qed.

  Lemma F_removedir cs : cs <> [] -> ref_removedir s (d ++ cs) = lift_step d s (ref_removedir sub cs).
  Proof.
    intro Hc. unfold ref_removedir. rewrite (match_ne (d ++ cs)) by apply dcs_ne.
    rewrite (match_ne cs) by assumption. pre.
    destruct (lookup sub cs) as [[|[|] m]|]; rewrite ?lift_fail; try reflexivity.
    rewrite lift_mk. now rewrite (del_pre d s sub _ Hl).
  Qed.

  Lemma F_removetree cs : cs <> [] -> ref_removetree s (d ++ cs) = lift_step d s (ref_removetree sub cs).
  Proof.
    intro Hc. unfold ref_removetree. rewrite (match_ne (d ++ cs)) by apply dcs_ne.
    rewrite (match_ne cs) by assumption. pre.
    destruct (status_of sub cs); rewrite ?lift_fail; try reflexivity.
    rewrite lift_mk. now rewrite (del_pre d s sub _ Hl).
  Qed.

  Lemma F_setinfo cs mt : ref_setinfo s (d ++ cs) mt = lift_step d s (ref_setinfo sub cs mt).
  Proof.
    unfold ref_setinfo. pre. destruct (lookup sub cs); [|now rewrite lift_fail].
    rewrite lift_mk. now rewrite (put_pre d s sub _ _ Hl).
  Qed.

  Lemma F_transfer_errors a b o :
    transfer_errors s (d ++ a) (d ++ b) o = transfer_errors sub a b o.
  Proof.
    unfold transfer_errors. pre. rewrite (match_ne (d ++ b)) by apply dcs_ne.
    f_equal. f_equal. f_equal.
    destruct b as [|c b'].
    - rewrite status_sub_nil. reflexivity.
    - rewrite parent_pre by discriminate. pre. reflexivity.
  Qed.

  Lemma del_put_pre a b n : a <> [] ->
    del (put s (d ++ b) n) (d ++ a) = put s d (del (put sub b n) a).
  Proof.
    intro Ha. rewrite (put_pre d s sub _ _ Hl).
    rewrite (del_pre d _ (put sub b n)) by (auto; eapply lookup_put_at; eauto).
    now rewrite put_put.
  Qed.

  Lemma transfer_src_ne a b o : transfer_errors sub a b o = [] -> a <> [].
  Proof.
    intros H E. subst a. unfold transfer_errors in H. rewrite status_sub_nil in H. discriminate.
  Qed.

  Lemma F_move a b o pt : ref_move s (d ++ a) (d ++ b) o pt = lift_step d s (ref_move sub a b o pt).
  Proof.
    unfold ref_move. rewrite F_transfer_errors, path_eqb_app. pre.
    destruct (transfer_errors sub a b o) eqn:T; [|now rewrite lift_fail].
    destruct (path_eqb a b); [now rewrite lift_same|].
    destruct (lookup sub a) as [[data mt|]|]; try now rewrite lift_fail.
    rewrite lift_mk. rewrite del_put_pre; [reflexivity|]. eapply transfer_src_ne; eauto.
  Qed.

  Lemma F_copy a b o pt : ref_copy s (d ++ a) (d ++ b) o pt = lift_step d s (ref_copy sub a b o pt).
  Proof.
    unfold ref_copy. rewrite F_transfer_errors, path_eqb_app. pre.
    destruct (transfer_errors sub a b o ++ (if path_eqb a b then [IllegalDestination] else []));
      [|now rewrite lift_fail].
    destruct (lookup sub a) as [[data mt|]|]; try now rewrite lift_fail.
    rewrite lift_mk. now rewrite (put_pre d s sub _ _ Hl).
  Qed.
End Frame.

(* ------------------------------------------------------------------ *)
(* calls: o' is o with every path argument moved below d               *)
(* ------------------------------------------------------------------ *)
Definition plift (d : list str) (p q : str) : Prop :=
  match rpath p with
  | inl cs => rpath q = inl (d ++ cs)
  | inr a => rpath q = inr a
  end.

Definition op_lift (d : list str) (o o' : op) : Prop :=
  match o, o' with
  | OGetinfo p, OGetinfo p' => plift d p p'
  | OListdir p, OListdir p' => plift d p p'
  | OScandir p, OScandir p' => plift d p p'
  | OMakedir p r, OMakedir p' r' => plift d p p' /\ r = r'
  | OMakedirs p r, OMakedirs p' r' => plift d p p' /\ r = r'
  | OWritebytes p x, OWritebytes p' x' => plift d p p' /\ x = x'
  | OAppendbytes p x, OAppendbytes p' x' => plift d p p' /\ x = x'
  | OReadbytes p, OReadbytes p' => plift d p p'
  | OCreate p w, OCreate p' w' => plift d p p' /\ w = w'
  | OTouch p, OTouch p' => plift d p p'
  | OOpenwrite p m x, OOpenwrite p' m' x' => plift d p p' /\ m = m' /\ x = x'
  | OOpenread p m, OOpenread p' m' => plift d p p' /\ m = m'
  | ORemove p, ORemove p' => plift d p p'
  | ORemovedir p, ORemovedir p' => plift d p p'
  | ORemovetree p, ORemovetree p' => plift d p p'
  | OMove a b o t, OMove a' b' o' t' => plift d a a' /\ plift d b b' /\ o = o' /\ t = t'
  | OCopy a b o t, OCopy a' b' o' t' => plift d a a' /\ plift d b b' /\ o = o' /\ t = t'
  | OMovedir a b o t, OMovedir a' b' o' t' => plift d a a' /\ plift d b b' /\ o = o' /\ t = t'
  | OCopydir a b o t, OCopydir a' b' o' t' => plift d a a' /\ plift d b b' /\ o = o' /\ t = t'
  | OSetinfo p m, OSetinfo p' m' => plift d p p' /\ m = m'
  | OExists p, OExists p' => plift d p p'
  | OIsdir p, OIsdir p' => plift d p p'
  | OIsfile p, OIsfile p' => plift d p p'
  | OIsempty p, OIsempty p' => plift d p p'
  | OGetsize p, OGetsize p' => plift d p p'
  | OGettype p, OGettype p' => plift d p p'
  | _, _ => False
  end.

(* the calls on the root of the sub-tree that WrapFS implements itself *)
Definition not_root_special (o : op) : Prop :=
  match o with
  | OGetinfo p | ORemovedir p | ORemovetree p => rpath p <> inl []
  | _ => True
  end.

Section FrameOps.
  Variables (s sub : node) (d : list str).
  Hypothesis Hd : d <> [].
  Hypothesis Hl : lookup s d = Some sub.
  Hypothesis Hsub : is_dir sub = true.

  Notation L := (lift_step d s).

  Lemma F_with1 p q k k' : plift d p q ->
    (forall cs, rpath p = inl cs -> k' (d ++ cs) = L (k cs)) ->
    with1 s q k' = L (with1 sub p k).
  Proof.
    unfold plift, with1. intros P H. destruct (rpath p) as [cs|a] eqn:R; rewrite P.
    - now apply H.
    - now rewrite (lift_fail s sub d Hl).
  Qed.

  Lemma F_with2 p1 q1 p2 q2 k k' : plift d p1 q1 -> plift d p2 q2 ->
    (forall a b, rpath p1 = inl a -> rpath p2 = inl b -> k' (d ++ a) (d ++ b) = L (k a b)) ->
    with2 s q1 q2 k' = L (with2 sub p1 p2 k).
  Proof.
    unfold plift, with2. intros P1 P2 H.
    destruct (rpath p1) as [a|e1] eqn:R1; rewrite P1;
      destruct (rpath p2) as [b|e2] eqn:R2; rewrite P2;
      rewrite ?(lift_fail s sub d Hl); auto.
  Qed.

  Lemma F_query p q k k' : plift d p q ->
    (forall cs, k' (d ++ cs) = k cs) ->
    ref_query s q k' = L (ref_query sub p k).
  Proof.
    intros P H. unfold ref_query. apply F_with1; [exact P|].
    intros cs _. rewrite (lift_same s sub d Hl). now rewrite H.
  Qed.

  Lemma L_okmap r v :
    L (match rs_res r with
       | ROk _ => {| rs_tree := rs_tree r; rs_res := ROk v |}
       | _ => r
       end)
    = match rs_res (L r) with
      | ROk _ => {| rs_tree := rs_tree (L r); rs_res := ROk v |}
      | _ => L r
      end.
  Proof. destruct r as [t [w|a| |]]; reflexivity. Qed.

  Theorem ref_frame_covered o o' :
    op_lift d o o' -> not_root_special o -> covered o = true ->
    ref_run o' s = L (ref_run o sub).
  Proof.
    intros H NR C.
    destruct o, o'; simpl in H; try contradiction; try discriminate C; split_and; subst;
      cbn [ref_run not_root_special] in *.
    - (* getinfo *)
      apply F_with1; [assumption|]. intros cs R. apply F_getinfo; auto. intro E; subst; auto.
    - apply F_with1; [assumption|]. intros cs R. now apply F_listing.
    - apply F_with1; [assumption|]. intros cs R. now apply F_listing.
    - apply F_with1; [assumption|]. intros cs R. now apply F_makedir.
    - apply F_with1; [assumption|]. intros cs R. now apply F_open.
    - apply F_with1; [assumption|]. intros cs R. now apply F_open.
    - apply F_with1; [assumption|]. intros cs R. now apply F_open.
    - (* create *)
      apply F_with1; [assumption|]. intros cs R.
      rewrite (status_pre d s sub _ Hl).
      destruct (negb wipe0 && exists_st (status_of sub cs)); [now rewrite (lift_same s sub d Hl)|].
      cbv zeta. rewrite L_okmap. now rewrite <- (F_open s sub d Hd Hl Hsub).
    - (* touch *)
      apply F_with1; [assumption|]. intros cs R.
      rewrite (lookup_pre d s sub _ Hl). destruct (lookup sub cs).
      + rewrite lift_mk. now rewrite (put_pre d s sub _ _ Hl).
      + now apply F_open.
    - (* openwrite *)
      destruct (negb (mode_valid_bin mode0)); [now rewrite (lift_same s sub d Hl)|].
      apply F_with1; [assumption|]. intros cs R. now apply F_open.
    - destruct (negb (mode_valid_bin mode0)); [now rewrite (lift_same s sub d Hl)|].
      apply F_with1; [assumption|]. intros cs R. now apply F_open.
    - apply F_with1; [assumption|]. intros cs R. now apply F_remove.
    - apply F_with1; [assumption|]. intros cs R. apply F_removedir; auto. intro E; subst; auto.
    - apply F_with1; [assumption|]. intros cs R. apply F_removetree; auto. intro E; subst; auto.
    - apply F_with2; try assumption. intros a b _ _. now apply F_move.
    - apply F_with2; try assumption. intros a b _ _. now apply F_copy.
    - apply F_with1; [assumption|]. intros cs R. now apply F_setinfo.
    - apply F_query; [assumption|]. intro cs. now rewrite (status_pre d s sub _ Hl).
    - apply F_query; [assumption|]. intro cs. now rewrite (status_pre d s sub _ Hl).
    - apply F_query; [assumption|]. intro cs. now rewrite (status_pre d s sub _ Hl).
    - apply F_with1; [assumption|]. intros cs R. now apply F_listing.
    - apply F_query; [assumption|]. intro cs. now rewrite (lookup_pre d s sub _ Hl).
    - apply F_query; [assumption|]. intro cs. now rewrite (lookup_pre d s sub _ Hl).
  Qed.
End FrameOps.
