(* The reference semantics is "framed": a call on component paths below a directory d of the
   tree s behaves like the same call on the sub-tree at d, and changes nothing outside. *)
From Coq Require Import List NArith ZArith Bool Arith Lia.
From PyFS Require Import Base.PyStr Base.Outcome Path.PathModel Path.PathSpec Path.PathProofs
     FS.Tree FS.Monad FS.Mode FS.Base FS.Mem FS.Ops FS.Ref FS.Agree FS.Wf
     FS.TreeLemmas FS.RefineLemmas FS.RefineProofs FS.Props FS.PropsProofs
     FS.RefineWalkLemmasEq FS.RefineWalkLemmasMk FS.RefineWalkLemmasBfs
     FS.RefineWalkLemmasCopy FS.RefineWalkNn.
Import ListNotations.

(* ------------------------------------------------------------------ *)
(* trees: access below a prefix                                        *)
(* ------------------------------------------------------------------ *)
Lemma lookup_pre d : forall s sub cs, lookup s d = Some sub -> lookup s (d ++ cs) = lookup sub cs.
Proof. intros s sub cs H. now rewrite lookup_app, H. Qed.

Lemma status_pre d : forall s sub cs, lookup s d = Some sub -> status_of s (d ++ cs) = status_of sub cs.
Proof.
  induction d as [|c d IH]; intros s sub cs H.
  - simpl in H. now inversion H.
  - simpl in H. destruct s as [|ents m]; [discriminate|].
    destruct (assoc c ents) as [ch|] eqn:E; [|discriminate].
    simpl. rewrite E. now apply IH.
Qed.

Lemma assoc_set_id {A} k (v : A) l : assoc k l = Some v -> assoc_set k v l = l.
Proof.
  induction l as [|[k2 v2] r IH]; simpl; [discriminate|].
  destruct (str_eqb k k2) eqn:E.
  - intro H. inversion H; subst. apply str_eqb_eq in E. now subst.
  - intro H. now rewrite IH.
Qed.

Lemma put_id d : forall s sub, lookup s d = Some sub -> put s d sub = s.
Proof.
  induction d as [|c d IH]; intros s sub H.
  - simpl in H. now inversion H.
  - simpl in H. destruct s as [|ents m]; [discriminate|].
    destruct (assoc c ents) as [ch|] eqn:E; [|discriminate].
    destruct d as [|c2 d2].
    + simpl in H. inversion H; subst. simpl. now rewrite assoc_set_id.
    + rewrite put_cons_ne by discriminate. rewrite E, (IH ch sub H). now rewrite assoc_set_id.
Qed.

Lemma put_pre d : forall s sub cs n, lookup s d = Some sub ->
  put s (d ++ cs) n = put s d (put sub cs n).
Proof.
  induction d as [|c d IH]; intros s sub cs n H.
  - simpl in H. now inversion H.
  - simpl in H. destruct s as [|ents m]; [discriminate|].
    destruct (assoc c ents) as [ch|] eqn:E; [|discriminate].
    destruct d as [|c2 d2].
    + simpl in H. inversion H; subst ch. simpl app.
      destruct cs as [|x cs]; [reflexivity|].
      rewrite put_cons_ne by discriminate. now rewrite E.
    + change ((c :: c2 :: d2) ++ cs) with (c :: ((c2 :: d2) ++ cs)).
      rewrite put_cons_ne by (simpl; discriminate). rewrite E.
      rewrite (put_cons_ne ents m c (c2 :: d2)) by discriminate. rewrite E.
      now rewrite (IH ch sub cs n H).
Qed.

Lemma del_pre d : forall s sub cs, lookup s d = Some sub -> cs <> [] ->
  del s (d ++ cs) = put s d (del sub cs).
Proof.
  induction d as [|c d IH]; intros s sub cs H Hc.
  - simpl in H. now inversion H.
  - simpl in H. destruct s as [|ents m]; [discriminate|].
    destruct (assoc c ents) as [ch|] eqn:E; [|discriminate].
    destruct d as [|c2 d2].
    + simpl in H. inversion H; subst ch. simpl app.
      rewrite del_cons_ne by assumption. now rewrite E.
    + change ((c :: c2 :: d2) ++ cs) with (c :: ((c2 :: d2) ++ cs)).
      rewrite del_cons_ne by (simpl; discriminate). rewrite E.
      rewrite (put_cons_ne ents m c (c2 :: d2)) by discriminate. rewrite E.
      now rewrite (IH ch sub cs H Hc).
Qed.

Lemma lookup_put_at d : forall s sub x, lookup s d = Some sub -> lookup (put s d x) d = Some x.
Proof.
  induction d as [|c d IH]; intros s sub x H; [reflexivity|].
  simpl in H. destruct s as [|ents m]; [discriminate|].
  destruct (assoc c ents) as [ch|] eqn:E; [|discriminate].
  destruct d as [|c2 d2].
  - simpl. now rewrite assoc_set_same.
  - rewrite put_cons_ne by discriminate. rewrite E. cbn [lookup]. rewrite assoc_set_same.
    now apply (IH ch sub).
Qed.

Lemma parent_pre (d cs : list str) : cs <> [] -> parent (d ++ cs) = d ++ parent cs.
Proof. intro H. unfold parent. now apply removelast_app. Qed.

Lemma last_pre (d cs : list str) : cs <> [] -> last (d ++ cs) [] = last cs [].
Proof.
  intro H. induction d as [|x d IH]; [reflexivity|].
  simpl. destruct (d ++ cs) eqn:E; [|exact IH].
  apply app_eq_nil in E. destruct E. contradiction.
Qed.

Lemma match_ne {A B} (l : list A) (x y : B) : l <> [] ->
  match l with [] => x | _ :: _ => y end = y.
Proof. destruct l; [congruence|reflexivity]. Qed.

Lemma lookup_parent_dir d : forall s sub, d <> [] -> lookup s d = Some sub ->
  exists e m, lookup s (parent d) = Some (Dir e m).
Proof.
  intros s sub Hd H. destruct (list_snoc_case d) as [->|[d0 [c ->]]]; [congruence|].
  unfold parent. rewrite removelast_app1. rewrite lookup_snoc in H.
  destruct (lookup s d0) as [[|e m]|]; try discriminate. eauto.
Qed.

(* ------------------------------------------------------------------ *)
(* the reference step transported to the enclosing tree                *)
(* ------------------------------------------------------------------ *)
Definition lift_step (d : list str) (s : node) (r : rstep) : rstep :=
  {| rs_tree := option_map (put s d) (rs_tree r); rs_res := rs_res r |}.

Section Frame.
  Variables (s sub : node) (d : list str).
  Hypothesis Hd : d <> [].
  Hypothesis Hl : lookup s d = Some sub.
  Hypothesis Hsub : is_dir sub = true.

  Lemma dcs_ne cs : d ++ cs <> [].
  Proof. intro E. apply app_eq_nil in E. destruct E. contradiction. Qed.

  Lemma lift_same r : lift_step d s (same sub r) = same s r.
  Proof. unfold lift_step, same. cbn. now rewrite (put_id _ _ _ Hl). Qed.

  Lemma lift_fail a : lift_step d s (fail sub a) = fail s a.
  Proof. apply lift_same. Qed.

  Lemma lift_mk t v : lift_step d s {| rs_tree := Some t; rs_res := v |}
                      = {| rs_tree := Some (put s d t); rs_res := v |}.
  Proof. reflexivity. Qed.

  Lemma status_d : status_of s d = IsDir.
  Proof. rewrite (status_lookup_some _ _ _ Hl). now rewrite Hsub. Qed.

  Lemma status_parent_d : status_of s (parent d) = IsDir.
  Proof.
    destruct (lookup_parent_dir d s sub Hd Hl) as (e & m & H).
    now rewrite (status_lookup_some _ _ _ H).
  Qed.

  Lemma status_sub_nil : status_of sub [] = IsDir.
  Proof. simpl. now rewrite Hsub. Qed.

  Ltac pre := rewrite ?(lookup_pre d s sub _ Hl), ?(status_pre d s sub _ Hl).

  Lemma F_getinfo cs : cs <> [] -> ref_getinfo s (d ++ cs) = lift_step d s (ref_getinfo sub cs).
  Proof.
    intro Hc. unfold ref_getinfo. pre. destruct (lookup sub cs) as [n|].
    - rewrite lift_same. unfold info_of, last_name. now rewrite last_pre.
    - now rewrite lift_fail.
  Qed.

  Lemma F_listing cs k : ref_listing s (d ++ cs) k = lift_step d s (ref_listing sub cs k).
  Proof.
    unfold ref_listing. pre. destruct (lookup sub cs) as [[|e m]|]; now rewrite ?lift_same, ?lift_fail.
  Qed.

  Lemma F_makedir cs r : ref_makedir s (d ++ cs) r = lift_step d s (ref_makedir sub cs r).
  Proof.
    unfold ref_makedir. rewrite (match_ne (d ++ cs)) by apply dcs_ne.
    destruct cs as [|c cs'].
    - rewrite app_nil_r, status_parent_d, status_d. cbn [parent_errors].
      destruct r; now rewrite ?lift_same, ?lift_fail.
    - rewrite parent_pre by discriminate. pre.
      destruct (parent_errors (status_of sub (parent (c :: cs')))); [|now rewrite lift_fail].
      destruct (status_of sub (c :: cs')); rewrite ?lift_fail; try reflexivity.
      + rewrite lift_mk. now rewrite (put_pre d s sub _ _ Hl).
      + rewrite lift_mk. now rewrite (put_pre d s sub _ _ Hl).
      + destruct r; now rewrite ?lift_same, ?lift_fail.
  Qed.

  Lemma F_open cs mode wr rd : ref_open s (d ++ cs) mode wr rd = lift_step d s (ref_open sub cs mode wr rd).
  Proof.
    unfold ref_open. destruct (negb (mode_valid_bin mode)); [now rewrite lift_same|].
    rewrite (match_ne (d ++ cs)) by apply dcs_ne.
    destruct cs as [|c cs'].
    - rewrite app_nil_r, status_d. now rewrite lift_fail.
    - pre. rewrite parent_pre by discriminate. pre.
      destruct (status_of sub (c :: cs')).
      + destruct (file_parent_errors (status_of sub (parent (c :: cs')))); [|now rewrite lift_fail].
        destruct (m_create mode); [|now rewrite lift_fail].
        cbv zeta. rewrite lift_mk. now rewrite (put_pre d s sub _ _ Hl).
      + destruct (file_parent_errors (status_of sub (parent (c :: cs')))); [|now rewrite lift_fail].
        destruct (m_create mode); [|now rewrite lift_fail].
        cbv zeta. rewrite lift_mk. now rewrite (put_pre d s sub _ _ Hl).
      + destruct (m_create mode && m_exclusive mode); [now rewrite lift_fail|].
        destruct (lookup sub (c :: cs')) as [[old mt|]|]; try now rewrite lift_fail.
        cbv zeta. rewrite lift_mk. f_equal. f_equal.
        destruct (m_truncate mode), wr;
          rewrite ?(put_pre d s sub _ _ Hl); try reflexivity.
        * rewrite (put_pre d (put s d (put sub (c :: cs') (File [] mt))) (put sub (c :: cs') (File [] mt)))
            by (eapply lookup_put_at; eauto).
          now rewrite put_put.
        * now rewrite (put_id _ _ _ Hl).
      + now rewrite lift_fail.
  Qed.

  Lemma F_remove cs : ref_remove s (d ++ cs) = lift_step d s (ref_remove sub cs).
  Proof.
    unfold ref_remove. rewrite (match_ne (d ++ cs)) by apply dcs_ne.
    destruct cs as [|c cs'].
    - rewrite app_nil_r, status_d. now rewrite lift_fail.
    - pre. destruct (status_of sub (c :: cs')); rewrite ?lift_fail; try reflexivity.
      rewrite lift_mk. now rewrite (del_pre d s sub _ Hl) by discriminate.
  Qed.

  Lemma F_removedir cs : cs <> [] -> ref_removedir s (d ++ cs) = lift_step d s (ref_removedir sub cs).
  Proof.
    intro Hc. unfold ref_removedir. rewrite (match_ne (d ++ cs)) by apply dcs_ne.
    rewrite (match_ne cs) by assumption. pre.
    destruct (lookup sub cs) as [[|[|] m]|]; rewrite ?lift_fail; try reflexivity.
    rewrite lift_mk. now rewrite (del_pre d s sub _ Hl).
  Qed.

  Lemma F_removetree cs : cs <> [] -> ref_removetree s (d ++ cs) = lift_step d s (ref_removetree sub cs).
  Proof.
    intro Hc. unfold ref_removetree. rewrite (match_ne (d ++ cs)) by apply dcs_ne.
    rewrite (match_ne cs) by assumption. pre.
    destruct (status_of sub cs); rewrite ?lift_fail; try reflexivity.
    rewrite lift_mk. now rewrite (del_pre d s sub _ Hl).
  Qed.

  Lemma F_setinfo cs mt : ref_setinfo s (d ++ cs) mt = lift_step d s (ref_setinfo sub cs mt).
  Proof.
    unfold ref_setinfo. pre. destruct (lookup sub cs); [|now rewrite lift_fail].
    rewrite lift_mk. now rewrite (put_pre d s sub _ _ Hl).
  Qed.

  Lemma F_transfer_errors a b o :
    transfer_errors s (d ++ a) (d ++ b) o = transfer_errors sub a b o.
  Proof.
    unfold transfer_errors. pre. rewrite (match_ne (d ++ b)) by apply dcs_ne.
    f_equal. f_equal. f_equal.
    destruct b as [|c b'].
    - rewrite status_sub_nil. reflexivity.
    - rewrite parent_pre by discriminate. pre. reflexivity.
  Qed.

  Lemma del_put_pre a b n : a <> [] ->
    del (put s (d ++ b) n) (d ++ a) = put s d (del (put sub b n) a).
  Proof.
    intro Ha. rewrite (put_pre d s sub _ _ Hl).
    rewrite (del_pre d _ (put sub b n)) by (auto; eapply lookup_put_at; eauto).
    now rewrite put_put.
  Qed.

  Lemma transfer_src_ne a b o : transfer_errors sub a b o = [] -> a <> [].
  Proof.
    intros H E. subst a. unfold transfer_errors in H. rewrite status_sub_nil in H. discriminate.
  Qed.

  Lemma F_move a b o pt : ref_move s (d ++ a) (d ++ b) o pt = lift_step d s (ref_move sub a b o pt).
  Proof.
    unfold ref_move. rewrite F_transfer_errors, path_eqb_app. pre.
    destruct (transfer_errors sub a b o) eqn:T; [|now rewrite lift_fail].
    destruct (path_eqb a b); [now rewrite lift_same|].
    destruct (lookup sub a) as [[data mt|]|]; try now rewrite lift_fail.
    rewrite lift_mk. rewrite del_put_pre; [reflexivity|]. eapply transfer_src_ne; eauto.
  Qed.

  Lemma F_copy a b o pt : ref_copy s (d ++ a) (d ++ b) o pt = lift_step d s (ref_copy sub a b o pt).
  Proof.
    unfold ref_copy. rewrite F_transfer_errors, path_eqb_app. pre.
    destruct (transfer_errors sub a b o ++ (if path_eqb a b then [IllegalDestination] else []));
      [|now rewrite lift_fail].
    destruct (lookup sub a) as [[data mt|]|]; try now rewrite lift_fail.
    rewrite lift_mk. now rewrite (put_pre d s sub _ _ Hl).
  Qed.
End Frame.

(* ------------------------------------------------------------------ *)
(* calls: o' is o with every path argument moved below d               *)
(* ------------------------------------------------------------------ *)
Definition plift (d : list str) (p q : str) : Prop :=
  match rpath p with
  | inl cs => rpath q = inl (d ++ cs)
  | inr a => rpath q = inr a
  end.

Definition op_lift (d : list str) (o o' : op) : Prop :=
  match o, o' with
  | OGetinfo p, OGetinfo p' => plift d p p'
  | OListdir p, OListdir p' => plift d p p'
  | OScandir p, OScandir p' => plift d p p'
  | OMakedir p r, OMakedir p' r' => plift d p p' /\ r = r'
  | OMakedirs p r, OMakedirs p' r' => plift d p p' /\ r = r'
  | OWritebytes p x, OWritebytes p' x' => plift d p p' /\ x = x'
  | OAppendbytes p x, OAppendbytes p' x' => plift d p p' /\ x = x'
  | OReadbytes p, OReadbytes p' => plift d p p'
  | OCreate p w, OCreate p' w' => plift d p p' /\ w = w'
  | OTouch p, OTouch p' => plift d p p'
  | OOpenwrite p m x, OOpenwrite p' m' x' => plift d p p' /\ m = m' /\ x = x'
  | OOpenread p m, OOpenread p' m' => plift d p p' /\ m = m'
  | ORemove p, ORemove p' => plift d p p'
  | ORemovedir p, ORemovedir p' => plift d p p'
  | ORemovetree p, ORemovetree p' => plift d p p'
  | OMove a b o t, OMove a' b' o' t' => plift d a a' /\ plift d b b' /\ o = o' /\ t = t'
  | OCopy a b o t, OCopy a' b' o' t' => plift d a a' /\ plift d b b' /\ o = o' /\ t = t'
  | OMovedir a b o t, OMovedir a' b' o' t' => plift d a a' /\ plift d b b' /\ o = o' /\ t = t'
  | OCopydir a b o t, OCopydir a' b' o' t' => plift d a a' /\ plift d b b' /\ o = o' /\ t = t'
  | OSetinfo p m, OSetinfo p' m' => plift d p p' /\ m = m'
  | OExists p, OExists p' => plift d p p'
  | OIsdir p, OIsdir p' => plift d p p'
  | OIsfile p, OIsfile p' => plift d p p'
  | OIsempty p, OIsempty p' => plift d p p'
  | OGetsize p, OGetsize p' => plift d p p'
  | OGettype p, OGettype p' => plift d p p'
  | _, _ => False
  end.

(* the calls on the root of the sub-tree that WrapFS implements itself *)
Definition not_root_special (o : op) : Prop :=
  match o with
  | OGetinfo p | ORemovedir p | ORemovetree p => rpath p <> inl []
  | _ => True
  end.

Section FrameOps.
  Variables (s sub : node) (d : list str).
  Hypothesis Hd : d <> [].
  Hypothesis Hl : lookup s d = Some sub.
  Hypothesis Hsub : is_dir sub = true.

  Notation L := (lift_step d s).

  Lemma F_with1 p q k k' : plift d p q ->
    (forall cs, rpath p = inl cs -> k' (d ++ cs) = L (k cs)) ->
    with1 s q k' = L (with1 sub p k).
  Proof.
    unfold plift, with1. intros P H. destruct (rpath p) as [cs|a] eqn:R; rewrite P.
    - now apply H.
    - now rewrite (lift_fail s sub d Hl).
  Qed.

  Lemma F_with2 p1 q1 p2 q2 k k' : plift d p1 q1 -> plift d p2 q2 ->
    (forall a b, rpath p1 = inl a -> rpath p2 = inl b -> k' (d ++ a) (d ++ b) = L (k a b)) ->
    with2 s q1 q2 k' = L (with2 sub p1 p2 k).
  Proof.
    unfold plift, with2. intros P1 P2 H.
    destruct (rpath p1) as [a|e1] eqn:R1; rewrite P1;
      destruct (rpath p2) as [b|e2] eqn:R2; rewrite P2;
      rewrite ?(lift_fail s sub d Hl); auto.
  Qed.

  Lemma F_query p q k k' : plift d p q ->
    (forall cs, k' (d ++ cs) = k cs) ->
    ref_query s q k' = L (ref_query sub p k).
  Proof.
    intros P H. unfold ref_query. apply F_with1; [exact P|].
    intros cs _. rewrite (lift_same s sub d Hl). now rewrite H.
  Qed.

  Lemma L_okmap r v :
    L (match rs_res r with
       | ROk _ => {| rs_tree := rs_tree r; rs_res := ROk v |}
       | _ => r
       end)
    = match rs_res (L r) with
      | ROk _ => {| rs_tree := rs_tree (L r); rs_res := ROk v |}
      | _ => L r
      end.
  Proof. destruct r as [t [w|a| |]]; reflexivity. Qed.

  Theorem ref_frame_covered o o' :
    op_lift d o o' -> not_root_special o -> covered o = true ->
    ref_run o' s = L (ref_run o sub).
  Proof.
    intros H NR C.
    destruct o, o'; simpl in H; try contradiction; try discriminate C; split_and; subst;
      cbn [ref_run not_root_special] in *.
    - (* getinfo *)
      apply F_with1; [assumption|]. intros cs R. apply F_getinfo; auto. intro E; subst; auto.
    - apply F_with1; [assumption|]. intros cs R. now apply F_listing.
    - apply F_with1; [assumption|]. intros cs R. now apply F_listing.
    - apply F_with1; [assumption|]. intros cs R. now apply F_makedir.
    - apply F_with1; [assumption|]. intros cs R. now apply F_open.
    - apply F_with1; [assumption|]. intros cs R. now apply F_open.
    - apply F_with1; [assumption|]. intros cs R. now apply F_open.
    - (* create *)
      apply F_with1; [assumption|]. intros cs R.
      rewrite (status_pre d s sub _ Hl).
      destruct (negb wipe0 && exists_st (status_of sub cs)); [now rewrite (lift_same s sub d Hl)|].
      cbv zeta. rewrite L_okmap. now rewrite <- (F_open s sub d Hd Hl Hsub).
    - (* touch *)
      apply F_with1; [assumption|]. intros cs R.
      rewrite (lookup_pre d s sub _ Hl). destruct (lookup sub cs).
      + rewrite lift_mk. now rewrite (put_pre d s sub _ _ Hl).
      + now apply F_open.
    - (* openwrite *)
      destruct (negb (mode_valid_bin mode0)); [now rewrite (lift_same s sub d Hl)|].
      apply F_with1; [assumption|]. intros cs R. now apply F_open.
    - destruct (negb (mode_valid_bin mode0)); [now rewrite (lift_same s sub d Hl)|].
      apply F_with1; [assumption|]. intros cs R. now apply F_open.
    - apply F_with1; [assumption|]. intros cs R. now apply F_remove.
    - apply F_with1; [assumption|]. intros cs R. apply F_removedir; auto. intro E; subst; auto.
    - apply F_with1; [assumption|]. intros cs R. apply F_removetree; auto. intro E; subst; auto.
    - apply F_with2; try assumption. intros a b _ _. now apply F_move.
    - apply F_with2; try assumption. intros a b _ _. now apply F_copy.
    - apply F_with1; [assumption|]. intros cs R. now apply F_setinfo.
    - apply F_query; [assumption|]. intro cs. now rewrite (status_pre d s sub _ Hl).
    - apply F_query; [assumption|]. intro cs. now rewrite (status_pre d s sub _ Hl).
    - apply F_query; [assumption|]. intro cs. now rewrite (status_pre d s sub _ Hl).
    - apply F_with1; [assumption|]. intros cs R. now apply F_listing.
    - apply F_query; [assumption|]. intro cs. now rewrite (lookup_pre d s sub _ Hl).
    - apply F_query; [assumption|]. intro cs. now rewrite (lookup_pre d s sub _ Hl).
  Qed.
End FrameOps.

(* ------------------------------------------------------------------ *)
(* the frame theorem for any prefix (d = [] : the tree itself)          *)
(* ------------------------------------------------------------------ *)
Lemma plift_nil p q : plift [] p q -> rpath p = rpath q.
Proof. unfold plift. destruct (rpath p); simpl; intro H; now rewrite H. Qed.

Lemma op_lift_nil o o' : op_lift [] o o' -> same_call o o'.
Proof.
  destruct o, o'; simpl; try tauto; intros; split_and; subst;
    repeat split; auto using plift_nil.
Qed.

Lemma op_lift_covered d o o' : op_lift d o o' -> covered o' = covered o.
Proof. destruct o, o'; simpl; try tauto; reflexivity. Qed.

Lemma lift_step_nil s r : lift_step [] s r = r.
Proof. destruct r as [[t|] v]; reflexivity. Qed.

Theorem ref_frame s sub d o o' :
  lookup s d = Some sub -> is_dir sub = true ->
  op_lift d o o' -> not_root_special o -> covered o = true ->
  ref_run o' s = lift_step d s (ref_run o sub).
Proof.
  intros Hl Hs H NR C. destruct d as [|c d].
  - simpl in Hl. inversion Hl; subst sub. rewrite lift_step_nil.
    symmetry. apply ref_spelling. now apply op_lift_nil.
  - apply ref_frame_covered; auto. discriminate.
Qed.

(* agreement with a transported step is sub-tree agreement *)
Definition sub_agree' (d : list str) (obs : node * outcome value) (r : rstep) (s : node) : bool :=
  res_agree (snd obs) (rs_res r)
  && match rs_tree r with
     | Some t' => tree_eqb true (fst obs) (put s d t')
     | None => true
     end.

Lemma agree_lift d s obs r : agree obs (lift_step d s r) = sub_agree' d obs r s.
Proof. unfold agree, sub_agree', lift_step. cbn. destruct (rs_tree r); reflexivity. Qed.

(* ------------------------------------------------------------------ *)
(* NUL characters of a normalised path                                 *)
(* ------------------------------------------------------------------ *)
Lemma has_nul_join l : has_char Mem.nul (join [slash] l) = existsb (has_char Mem.nul) l.
Proof.
  induction l as [|x l IH]; [reflexivity|].
  destruct l as [|y l].
  - simpl. now rewrite orb_false_r.
  - rewrite join_cons by discriminate. rewrite !has_char_app, IH. reflexivity.
Qed.

Lemma has_nul_to_path abs l : has_char Mem.nul (to_path abs l) = existsb (has_char Mem.nul) l.
Proof. unfold to_path. rewrite has_char_app, has_nul_join. now destruct abs. Qed.

Lemma nonul_existsb l : nonul l -> existsb (has_char Mem.nul) l = false.
Proof.
  induction 1 as [|x l Hx Hl IH]; [reflexivity|]. simpl. now rewrite Hx, IH.
Qed.

Lemma existsb_nonul l : existsb (has_char Mem.nul) l = false -> nonul l.
Proof. intro H. now apply existsb_false_Forall in H. Qed.

Lemma has_nul_pre abs d cs : nonul d ->
  has_char Mem.nul (to_path abs (d ++ cs)) = has_char Mem.nul (to_path abs cs).
Proof. intro N. rewrite !has_nul_to_path, existsb_app, (nonul_existsb _ N). reflexivity. Qed.

(* ------------------------------------------------------------------ *)
(* looking through canonical forms                                     *)
(* ------------------------------------------------------------------ *)
Lemma is_dir_canon t : is_dir (canon t) = is_dir t.
Proof. destruct t; reflexivity. Qed.

Lemma assoc_canon k ents : NoDup (keys ents) ->
  assoc k (sort_ents (cmap ents)) = option_map canon (assoc k ents).
Proof.
  intro N. assert (N' : NoDup (keys (cmap ents))) by now rewrite keys_cmap.
  destruct (sort_ents_props (cmap ents) N') as (_ & _ & H). rewrite H. apply assoc_cmap.
Qed.

Lemma lookup_canon p : forall t, wf_node t -> lookup (canon t) p = option_map canon (lookup t p).
Proof.
  induction p as [|c p IH]; intros t W; [reflexivity|].
  destruct t as [|ents m]; [reflexivity|].
  rewrite canon_dir. cbn [lookup]. pose proof W as W'. apply wf_node_dir in W' as (N & _ & _).
  rewrite (assoc_canon _ _ N). destruct (assoc c ents) as [ch|] eqn:E; [|reflexivity].
  cbn [option_map]. apply IH. eapply wf_assoc; eauto.
Qed.

Lemma lookup_canon_put d : forall s sub x, wf_node s -> lookup s d = Some sub ->
  lookup (canon (put s d x)) d = Some (canon x).
Proof.
  induction d as [|c d IH]; intros s sub x W H; [reflexivity|].
  simpl in H. destruct s as [|ents m]; [discriminate|].
  destruct (assoc c ents) as [ch|] eqn:E; [|discriminate].
  pose proof W as W'. apply wf_node_dir in W' as (N & _ & _).
  assert (K : forall y, lookup (canon (Dir (assoc_set c y ents) m)) (c :: d) = lookup (canon y) d).
  { intro y. rewrite canon_dir. cbn [lookup]. rewrite assoc_canon.
    - now rewrite assoc_set_same.
    - now rewrite (keys_assoc_set_some _ _ _ _ E). }
  destruct d as [|c2 d2].
  - cbn [put]. rewrite K. reflexivity.
  - rewrite put_cons_ne by discriminate. rewrite E, K. eapply IH; eauto. eapply wf_assoc; eauto.
Qed.

(* a tree equal (up to entry order) to s with the directory at d replaced still has a
   directory at d *)
Lemma tree_eqb_sub_survives a s d sub x :
  wf_node a -> wf_node s -> lookup s d = Some sub -> is_dir x = true ->
  tree_eqb true a (put s d x) = true ->
  exists sub', lookup a d = Some sub' /\ is_dir sub' = true.
Proof.
  intros Wa Ws Hl Hx E. unfold tree_eqb in E. apply node_eqb_eq in E.
  pose proof (lookup_canon_put d s sub x Ws Hl) as K. rewrite <- E in K.
  rewrite (lookup_canon d a Wa) in K.
  destruct (lookup a d) as [sub'|]; [|discriminate]. exists sub'. split; [reflexivity|].
  cbn in K. inversion K as [K']. rewrite <- (is_dir_canon sub'), K', is_dir_canon. exact Hx.
Qed.

Lemma tree_eqb_is_dir a b : tree_eqb true a b = true -> is_dir a = is_dir b.
Proof.
  unfold tree_eqb. intro E. apply node_eqb_eq in E.
  rewrite <- (is_dir_canon a), E. apply is_dir_canon.
Qed.

(* ------------------------------------------------------------------ *)
(* join(root, name) for any spelling of the root                       *)
(* ------------------------------------------------------------------ *)
Lemma split_on_app_gen c a b : split_on c (a ++ c :: b) = split_on c a ++ split_on c b.
Proof.
  induction a as [|x a IH]; simpl.
  - now rewrite ceqb_refl.
  - destruct (ceqb x c); [now rewrite IH|].
    rewrite IH. pose proof (split_on_nonnil c a) as Hn.
    destruct (split_on c a) as [|h t]; [congruence|]. reflexivity.
Qed.

Lemma resolve_stack_app X Y : forall st,
  resolve_stack (X ++ Y) st =
  match resolve_stack X st with Some r => resolve_stack Y (rev r) | None => None end.
Proof.
  induction X as [|c X IH]; intro st; simpl.
  - now rewrite rev_involutive.
  - destruct (c_empty c || c_dot c); [apply IH|].
    destruct (c_dotdot c); [|apply IH].
    destruct st; [reflexivity|apply IH].
Qed.

Lemma pjoin_root_spelling p k : resolve (comps p) = Some [] -> good k ->
  exists b, pjoin [p; k] = Ok (to_path b [k]).
Proof.
  intros E Gk. assert (G1 : Forall good [k]) by (constructor; [exact Gk|constructor]).
  destruct p as [|x t] eqn:Ep.
  - exists false. destruct (good_head k Gk) as [y [t' [Ek Hy]]].
    assert (Ejs : join_scan [[]; k] false [] = (false, [k])).
    { subst k. simpl. rewrite Hy. reflexivity. }
    erewrite pjoin_eq by exact Ejs. change (join s_slash [k]) with (to_path false [k]).
    rewrite normpath_nf by exact G1. reflexivity.
  - rewrite <- Ep in *. assert (Hp : p <> []) by (subst; discriminate).
    erewrite pjoin_eq by (apply join_scan_two; assumption).
    change (join s_slash [p; k]) with (p ++ slash :: k).
    rewrite normpath_spec. unfold spec_normpath, comps, resolve.
    rewrite split_on_app_gen, resolve_stack_app. unfold resolve, comps in E. rewrite E.
    rewrite split_on_nochar by (apply good_noslash; exact Gk).
    cbn [rev]. rewrite resolve_good_all by exact G1. cbn [rev app bind].
    destruct (starts_c slash p).
    + exists true. now rewrite abspath_nf_gen by exact G1.
    + eexists. reflexivity.
Qed.

Lemma rpath_single b k : good k -> nonulc k -> rpath (to_path b [k]) = inl [k].
Proof.
  intros Gk Nk. unfold rpath. change Ref.nul with Mem.nul.
  rewrite has_nul_to_path. cbn [existsb]. unfold nonulc in Nk. rewrite Nk. cbn [orb].
  rewrite resolve_comps_nf by (constructor; [exact Gk|constructor]). reflexivity.
Qed.

(* ------------------------------------------------------------------ *)
(* the frame theorem for makedirs / copydir / movedir                  *)
(* ------------------------------------------------------------------ *)
Lemma pif_pre d s sub : lookup s d = Some sub -> forall rest pre,
  prefix_is_file s (d ++ pre) rest = prefix_is_file sub pre rest.
Proof.
  intro Hl. induction rest as [|c r IH]; intro pre; [reflexivity|].
  cbn [prefix_is_file]. rewrite <- app_assoc, (lookup_pre d s sub _ Hl).
  destruct (lookup sub (pre ++ [c])) as [[|]|]; try reflexivity; apply IH.
Qed.

Lemma pif_self d : forall s sub, lookup s d = Some sub -> is_dir sub = true ->
  prefix_is_file s [] d = false.
Proof.
  intros s sub Hl Hs. destruct (list_snoc_case d) as [->|[d0 [c ->]]]; [reflexivity|].
  rewrite pif_app. rewrite (pif_dirs d0 s [] c sub Hl). cbn [orb app prefix_is_file].
  rewrite Hl. destruct sub; [discriminate|reflexivity].
Qed.

Lemma mkdirs_pre d : forall rest s sub pre, lookup s d = Some sub ->
  mkdirs s (d ++ pre) rest = put s d (mkdirs sub pre rest).
Proof.
  induction rest as [|c r IH]; intros s sub pre Hl.
  - cbn [mkdirs]. now rewrite (put_id _ _ _ Hl).
  - cbn [mkdirs]. rewrite <- app_assoc, (lookup_pre d s sub _ Hl).
    destruct (lookup sub (pre ++ [c])).
    + now apply IH.
    + rewrite (put_pre d s sub _ _ Hl).
      rewrite (IH _ (put sub (pre ++ [c]) empty_dir)) by (eapply lookup_put_at; eauto).
      now rewrite put_put.
Qed.

Section FrameWalk.
  Variables (s sub : node) (d : list str).
  Hypothesis Hd : d <> [].
  Hypothesis Hl : lookup s d = Some sub.
  Hypothesis Hsub : is_dir sub = true.

  Notation L := (lift_step d s).

  Lemma pif_whole cs : prefix_is_file s [] (d ++ cs) = prefix_is_file sub [] cs.
  Proof.
    rewrite pif_app, (pif_self d s sub Hl Hsub). cbn [orb app].
    rewrite <- (app_nil_r d) at 1. now apply pif_pre.
  Qed.

  Lemma mkdirs_whole cs : mkdirs s [] (d ++ cs) = put s d (mkdirs sub [] cs).
  Proof.
    rewrite mkdirs_app. rewrite (mkdirs_exists d s [] sub Hl). cbn [app].
    rewrite <- (app_nil_r d) at 1. now apply mkdirs_pre.
  Qed.

  Lemma F_makedirs cs r : ref_makedirs s (d ++ cs) r = L (ref_makedirs sub cs r).
  Proof.
    unfold ref_makedirs. rewrite pif_whole, (status_pre d s sub _ Hl).
    destruct (prefix_is_file sub [] cs); [now rewrite (lift_fail s sub d Hl)|].
    destruct (status_of sub cs); try (rewrite lift_mk; now rewrite mkdirs_whole).
    destruct r; now rewrite ?(lift_same s sub d Hl), ?(lift_fail s sub d Hl).
  Qed.

  Lemma F_dte a b c mv :
    dirtransfer_errors s (d ++ a) (d ++ b) c mv = dirtransfer_errors sub a b c mv.
  Proof.
    unfold dirtransfer_errors.
    rewrite list_prefix_app, !(status_pre d s sub _ Hl), pif_whole.
    rewrite (match_ne (d ++ b)) by (now apply dcs_ne).
    do 2 f_equal. destruct (status_of sub b); try reflexivity; f_equal; destruct mv; try reflexivity.
    - destruct b as [|x b'].
      + rewrite app_nil_r, (status_parent_d s sub d Hd Hl). reflexivity.
      + rewrite parent_pre by discriminate. now rewrite (status_pre d s sub _ Hl).
    - destruct b as [|x b'].
      + rewrite app_nil_r, (status_parent_d s sub d Hd Hl). reflexivity.
      + rewrite parent_pre by discriminate. now rewrite (status_pre d s sub _ Hl).
  Qed.

  Lemma dte_src_ne b c mv : dirtransfer_errors sub [] b c mv = [] -> False.
  Proof. unfold dirtransfer_errors. cbn [list_prefix app]. discriminate. Qed.

  Lemma F_dirtransfer a b c pt mv :
    ref_dirtransfer s (d ++ a) (d ++ b) c pt mv = L (ref_dirtransfer sub a b c pt mv).
  Proof.
    unfold ref_dirtransfer. rewrite path_eqb_app.
    destruct (mv && path_eqb a b); [now rewrite (lift_same s sub d Hl)|].
    rewrite F_dte. destruct (dirtransfer_errors sub a b c mv) eqn:T; [|now rewrite (lift_fail s sub d Hl)].
    assert (Ha : a <> []) by (intro; subst a; exact (dte_src_ne _ _ _ T)).
    rewrite list_prefix_app. destruct (list_prefix b a); [reflexivity|].
    rewrite !(lookup_pre d s sub _ Hl).
    destruct (lookup sub a) as [src|]; [|destruct (lookup sub b); now rewrite (lift_fail s sub d Hl)].
    destruct (lookup sub b) as [dst|].
    - destruct (merge_node (S (tree_size src)) pt dst (fresh pt src)) as [m|]; [|reflexivity].
      cbv zeta. rewrite lift_mk. f_equal. f_equal. destruct mv.
      + now apply del_put_pre.
      + now apply put_pre.
    - cbv zeta. rewrite lift_mk. f_equal. f_equal. destruct mv.
      + now apply del_put_pre.
      + rewrite mkdirs_whole.
        rewrite (put_pre d _ (mkdirs sub [] b)) by (eapply lookup_put_at; eauto).
        now rewrite put_put.
  Qed.
End FrameWalk.

Definition is_walk (o : op) : bool :=
  match o with OMakedirs _ _ | OCopydir _ _ _ _ | OMovedir _ _ _ _ => true | _ => false end.

Theorem ref_frame_walk s sub d o o' :
  lookup s d = Some sub -> is_dir sub = true ->
  op_lift d o o' -> is_walk o = true ->
  ref_run o' s = lift_step d s (ref_run o sub).
Proof.
  intros Hl Hs H C. destruct d as [|c0 d0].
  - simpl in Hl. inversion Hl; subst sub. rewrite lift_step_nil.
    symmetry. apply ref_spelling. now apply op_lift_nil.
  - assert (Hd : c0 :: d0 <> []) by discriminate.
    destruct o, o'; simpl in H; try contradiction; try discriminate C; split_and; subst;
      cbn [ref_run].
    + apply (F_with1 s sub _ Hl); [assumption|]. intros cs R. now apply F_makedirs.
    + apply (F_with2 s sub _ Hl); try assumption. intros a b _ _. now apply F_dirtransfer.
    + apply (F_with2 s sub _ Hl); try assumption. intros a b _ _. now apply F_dirtransfer.
Qed.
