(* Property C06 for the three walker-based calls of the MemoryFS model (makedirs, copydir,
   movedir), as corollaries of the refinement theorems of FS/RefineWalk.v, FS/RefineWalkLemmasMk.v
   and FS/RefineProofs.v (fast path of MemoryFS.movedir).

   What the reference (FS/Ref.v) says about a FAILING walker-based call:
   - makedirs: every failure is an argument check (a prefix of the path is a file; the directory
     exists and recreate=False; invalid path) and keeps the tree: a failed makedirs leaves NO
     intermediate directory behind ([makedirs_ref_fail_keeps_tree]; on the model
     [makedirs_failed_is_noop], with plain equality of trees, for resolvable paths; for an
     unresolvable path the model is NOT a no-op: [makedirs_invalid_path_not_noop_ce]).
   - copydir / movedir: every failure of the argument checks ([walk_arg_errors]: invalid path,
     destination inside the source, source missing / not a directory, destination a file,
     destination missing with create=False, destination parent missing, ...) keeps the tree;
     the ONLY failure that does not is a file/directory conflict met while merging into an existing
     destination ([merge_conflict]): there the reference leaves the tree open (rs_tree = None)
     and the model indeed leaves a partial copy behind ([walk_failed_call_is_noop_ce]).
   - the verdict RAny appears exactly for the degenerate transfers (destination a proper
     ancestor of the source, argument checks passed): [ref_any_iff_degenerate]; it is excluded
     by [walk_pre]. *)
From Coq Require Import List NArith ZArith Bool Arith Lia.
From PyFS Require Import Base.PyStr Base.Outcome Base.Render Path.PathModel Path.PathSpec Path.PathProofs
     FS.Tree FS.Monad FS.Mode FS.Base FS.Mem FS.Ops FS.Ref FS.Agree FS.Wf
     FS.TreeLemmas FS.RefineLemmas FS.RefineProofs FS.Props FS.PropsProofs
     FS.RefineWalkLemmasEq FS.RefineWalkLemmasMk FS.RefineWalkLemmasBfs
     FS.RefineWalkLemmasMerge FS.RefineWalkLemmasCopy FS.RefineWalkNn FS.RefineWalk.
Import ListNotations.

(* ================================================================== *)
(* the side condition                                                  *)
(* ================================================================== *)

(* the three calls implemented with the directory walker *)
Definition walk_op (o : op) : bool := negb (covered o).

(* copydir / movedir: either a path is rejected by validatepath, or the transfer is not
   degenerate (the destination is not an ancestor of the source); MemoryFS.movedir is also covered
   when source and destination coincide and on its fast path (destination missing) *)
Definition dt_pre (move : bool) (src dst : str) (s : node) : bool :=
  match rpath src, rpath dst with
  | inl a, inl b =>
    negb (list_prefix b a)
    || (move && (path_eqb a b || match lookup s b with None => true | Some _ => false end))
  | _, _ => true
  end.

Definition walk_pre (o : op) (s : node) : bool :=
  match o with
  | OMakedirs p _ => match rpath p with inl _ => true | inr _ => false end
  | OCopydir src dst _ _ => dt_pre false src dst s
  | OMovedir src dst _ _ => dt_pre true src dst s
  | _ => covered o
  end.

(* the hypotheses of the refinement theorems of FS/RefineWalk.v imply [walk_pre] *)
Lemma walk_pre_makedirs p r s cs : rpath p = inl cs -> walk_pre (OMakedirs p r) s = true.
Proof. intro R. cbn [walk_pre]. now rewrite R. Qed.

Lemma walk_pre_copydir src dst c pt s a b :
  rpath src = inl a -> rpath dst = inl b -> list_prefix b a = false ->
  walk_pre (OCopydir src dst c pt) s = true.
Proof. intros R1 R2 H. cbn [walk_pre]. unfold dt_pre. now rewrite R1, R2, H. Qed.

Lemma walk_pre_movedir src dst c pt s a b :
  rpath src = inl a -> rpath dst = inl b -> list_prefix b a = false ->
  walk_pre (OMovedir src dst c pt) s = true.
Proof. intros R1 R2 H. cbn [walk_pre]. unfold dt_pre. now rewrite R1, R2, H. Qed.

Lemma walk_pre_covered o s : covered o = true -> walk_pre o s = true.
Proof. destruct o; intro C; try discriminate C; reflexivity. Qed.

(* ================================================================== *)
(* the model agrees with the reference under [walk_pre]                *)
(* ================================================================== *)
Lemma agree_err s e r adm :
  rs_res r = RFail adm -> rs_tree r = Some s -> existsb (ecls_eqb e) adm = true ->
  agree (s, @Err value e) r = true.
Proof.
  intros R T E. unfold agree. cbn [fst snd]. rewrite T, R. cbn [res_agree].
  now rewrite E, tree_eqb_refl.
Qed.

Lemma with2_bad2 t p q k a e2 : rpath p = inl a -> rpath q = inr e2 ->
  with2 t p q k = fail t e2 /\ existsb (ecls_eqb (bad_err q)) e2 = true.
Proof.
  intros R1 R2. unfold with2. rewrite R1, R2. split; [reflexivity|exact (bad_err_in _ _ R2)].
Qed.

Lemma copydir_bad1 src dst c pt s e1 : rpath src = inr e1 ->
  mem_copydir src dst c pt s = (s, Err (bad_err src)).
Proof.
  intro R. unfold mem_copydir, b_copydir. cbn [l_validatepath mem_low]. mstep.
  rewrite (validate_inr _ _ s R). reflexivity.
Qed.

Lemma copydir_bad2 src dst c pt s a e2 : rpath src = inl a -> rpath dst = inr e2 ->
  mem_copydir src dst c pt s = (s, Err (bad_err dst)).
Proof.
  intros R1 R2. unfold mem_copydir, b_copydir. cbn [l_validatepath mem_low]. mstep.
  rewrite (validate_inl _ _ s R1). mstep. rewrite (validate_inr _ _ s R2). reflexivity.
Qed.

Lemma movedir_bad1 src dst c pt s e1 : rpath src = inr e1 ->
  mem_movedir src dst c pt s = (s, Err (bad_err src)).
Proof.
  intro R. unfold mem_movedir. mstep. rewrite (validate_inr _ _ s R). reflexivity.
Qed.

Lemma movedir_bad2 src dst c pt s a e2 : rpath src = inl a -> rpath dst = inr e2 ->
  mem_movedir src dst c pt s = (s, Err (bad_err dst)).
Proof.
  intros R1 R2. unfold mem_movedir. mstep.
  rewrite (validate_inl _ _ s R1). mstep. rewrite (validate_inr _ _ s R2). reflexivity.
Qed.

(* MemoryFS.movedir of a directory onto itself does nothing *)
Lemma movedir_same src dst c pt s a : rpath src = inl a -> rpath dst = inl a ->
  mem_movedir src dst c pt s = (s, Ok tt).
Proof.
  intros R1 R2. pose proof (rpath_good _ _ R1) as G.
  unfold mem_movedir. mstep. rewrite (validate_inl _ _ s R1). mstep.
  rewrite (validate_inl _ _ s R2). mstep.
  destruct (psplit (to_path true a)) as [dd dn].
  rewrite (to_path_eqb _ _ G G), path_eqb_refl. reflexivity.
Qed.

Lemma prefix_lookup_none s a b : list_prefix b a = true -> lookup s b = None -> lookup s a = None.
Proof. intros H L. apply list_prefix_ex in H as [r ->]. now apply lookup_none_app. Qed.

Lemma dir_bad_agree s src dst k e (m : MM unit) :
  m s = (s, Err e) ->
  (exists adm, with2 s src dst k = fail s adm /\ existsb (ecls_eqb e) adm = true) ->
  agree (vmap (fun _ : unit => VUnit) m s) (with2 s src dst k) = true.
Proof.
  intros Em (adm & Ew & Ee). unfold vmap, mbind. rewrite Em, Ew.
  now apply (agree_err s e (fail s adm) adm).
Qed.

(* T0: the refinement theorems gathered into one statement *)
Theorem walk_refines : forall o s,
  wf s -> nn s -> walk_pre o s = true -> agree (mem_run o s) (ref_run o s) = true.
Proof.
  intros o s W N Pre.
  destruct (covered o) eqn:C; [now apply mem_refines_ref|].
  destruct o; try discriminate C; cbn [walk_pre] in Pre.
  - (* makedirs *)
    destruct (rpath p) as [cs|e] eqn:R; [|discriminate Pre].
    exact (mem_makedirs_refines_ref p recreate s cs W R).
  - (* movedir *)
    unfold dt_pre in Pre.
    destruct (rpath s0) as [a|e1] eqn:R1.
    + destruct (rpath d) as [b|e2] eqn:R2.
      * destruct (list_prefix b a) eqn:Hba; cbn [negb orb andb] in Pre.
        -- destruct (path_eqb a b) eqn:Eab; cbn [orb] in Pre.
           ++ apply path_eqb_eq in Eab. subst b.
              cbn [mem_run ref_run]. unfold with2. rewrite R1, R2. unfold vmap, mbind.
              rewrite (movedir_same _ _ create pt s a R1 R2).
              unfold ref_dirtransfer. rewrite path_eqb_refl. cbn [andb].
              unfold agree, same. cbn [fst snd rs_res rs_tree res_agree value_eqb andb].
              apply tree_eqb_refl.
           ++ destruct (lookup s b) eqn:Lb; [discriminate Pre|].
              exact (mem_movedir_refines_ref s0 d create pt s a b W R1 R2 Lb).
        -- exact (proj1 (mem_movedir_refines_ref_nondegenerate s0 d create pt s a b W N R1 R2 Hba)).
      * cbn [mem_run ref_run]. apply (dir_bad_agree s s0 d _ (bad_err d)).
        -- exact (movedir_bad2 _ _ _ _ s a e2 R1 R2).
        -- eexists. exact (with2_bad2 s s0 d _ a e2 R1 R2).
    + cbn [mem_run ref_run]. apply (dir_bad_agree s s0 d _ (bad_err s0)).
      * exact (movedir_bad1 _ _ _ _ s e1 R1).
      * exact (with2_bad1 s s0 d _ e1 R1).
  - (* copydir *)
    unfold dt_pre in Pre.
    destruct (rpath s0) as [a|e1] eqn:R1.
    + destruct (rpath d) as [b|e2] eqn:R2.
      * destruct (list_prefix b a) eqn:Hba; [discriminate Pre|].
        exact (mem_copydir_refines_ref s0 d create pt s a b W N R1 R2 Hba).
      * cbn [mem_run ref_run]. apply (dir_bad_agree s s0 d _ (bad_err d)).
        -- exact (copydir_bad2 _ _ _ _ s a e2 R1 R2).
        -- eexists. exact (with2_bad2 s s0 d _ a e2 R1 R2).
    + cbn [mem_run ref_run]. apply (dir_bad_agree s s0 d _ (bad_err s0)).
      * exact (copydir_bad1 _ _ _ _ s e1 R1).
      * exact (with2_bad1 s s0 d _ e1 R1).
Qed.
Print Assumptions walk_refines.

(* ================================================================== *)
(* the reference step of a walker-based call                           *)
(* ================================================================== *)
Definition conflict_classes : list ecls :=
  [DirectoryExpected; FileExpected; DirectoryExists; ResourceNotFound].

(* a file/directory conflict below the destination while merging lookup s a into lookup s b *)
Definition merge_conflict_at (s : node) (a b : list str) (pt : bool) : bool :=
  match lookup s a, lookup s b with
  | Some src, Some dst =>
    match merge_node (S (tree_size src)) pt dst (fresh pt src) with None => true | Some _ => false end
  | _, _ => false
  end.

Definition is_nil {A} (l : list A) : bool := match l with [] => true | _ => false end.

Lemma is_nil_true {A} (l : list A) : is_nil l = true <-> l = [].
Proof. destruct l; simpl; split; intro H; try reflexivity; discriminate. Qed.

Lemma dte_src_none s a b c mv : lookup s a = None -> dirtransfer_errors s a b c mv <> [].
Proof.
  intros L. rewrite dte_eq.
  destruct (status_lookup_none _ _ L) as [E|E]; rewrite E;
    destruct (list_prefix a b); discriminate.
Qed.

(* every way [ref_dirtransfer] can fail *)
Lemma ref_dt_fail_cases s a b c pt mv adm :
  rs_res (ref_dirtransfer s a b c pt mv) = RFail adm ->
  (mv && path_eqb a b) = false /\
  ((rs_tree (ref_dirtransfer s a b c pt mv) = Some s /\
    adm = dirtransfer_errors s a b c mv /\ adm <> [])
   \/
   (rs_tree (ref_dirtransfer s a b c pt mv) = None /\
    dirtransfer_errors s a b c mv = [] /\ list_prefix b a = false /\
    merge_conflict_at s a b pt = true /\ adm = conflict_classes)).
Proof.
  unfold ref_dirtransfer. intro H.
  destruct (mv && path_eqb a b) eqn:Hm; [discriminate H|]. split; [reflexivity|].
  destruct (dirtransfer_errors s a b c mv) as [|x l] eqn:He.
  - destruct (list_prefix b a) eqn:Hba; [discriminate H|].
    destruct (lookup s a) as [src|] eqn:La.
    2:{ exfalso. exact (dte_src_none s a b c mv La He). }
    destruct (lookup s b) as [dst|] eqn:Lb; [|discriminate H].
    destruct (merge_node (S (tree_size src)) pt dst (fresh pt src)) as [m|] eqn:Em; [discriminate H|].
    right. cbn [rs_tree rs_res] in *. inversion H; subst adm.
    repeat split; try reflexivity. unfold merge_conflict_at. now rewrite La, Lb, Em.
  - left. cbn [fail same rs_tree rs_res] in *. inversion H; subst adm.
    repeat split. discriminate.
Qed.

Lemma ref_dt_conflict s a b c pt mv :
  (mv && path_eqb a b) = false -> dirtransfer_errors s a b c mv = [] ->
  list_prefix b a = false -> merge_conflict_at s a b pt = true ->
  ref_dirtransfer s a b c pt mv = {| rs_tree := None; rs_res := RFail conflict_classes |}.
Proof.
  intros Hm He Hba Hc. unfold ref_dirtransfer. rewrite Hm, He, Hba.
  unfold merge_conflict_at in Hc.
  destruct (lookup s a) as [src|]; [|discriminate Hc].
  destruct (lookup s b) as [dst|]; [|discriminate Hc].
  destruct (merge_node (S (tree_size src)) pt dst (fresh pt src)); [discriminate Hc|reflexivity].
Qed.

Lemma ref_dt_any s a b c pt mv :
  rs_res (ref_dirtransfer s a b c pt mv) = RAny <->
  (mv && path_eqb a b) = false /\ dirtransfer_errors s a b c mv = [] /\ list_prefix b a = true.
Proof.
  unfold ref_dirtransfer.
  destruct (mv && path_eqb a b); [split; [discriminate|intros (H & _); discriminate H]|].
  destruct (dirtransfer_errors s a b c mv) as [|x l].
  2:{ split; [discriminate|intros (_ & H & _); discriminate H]. }
  destruct (list_prefix b a); [split; [auto|reflexivity]|].
  split; [|intros (_ & _ & H); discriminate H].
  destruct (lookup s a) as [src|]; [|discriminate].
  destruct (lookup s b) as [dst|]; [|discriminate].
  destruct (merge_node (S (tree_size src)) pt dst (fresh pt src)); discriminate.
Qed.

Lemma ref_dt_not_valueerror s a b c pt mv :
  rs_res (ref_dirtransfer s a b c pt mv) <> RValueError.
Proof.
  unfold ref_dirtransfer.
  destruct (mv && path_eqb a b); [discriminate|].
  destruct (dirtransfer_errors s a b c mv); [|discriminate].
  destruct (list_prefix b a); [discriminate|].
  destruct (lookup s a) as [src|]; [|discriminate].
  destruct (lookup s b) as [dst|]; [|discriminate].
  destruct (merge_node (S (tree_size src)) pt dst (fresh pt src)); discriminate.
Qed.

Lemma ref_makedirs_cases s cs r :
  (exists adm, ref_makedirs s cs r = fail s adm) \/
  (exists t, ref_makedirs s cs r = {| rs_tree := Some t; rs_res := ROk VUnit |}).
Proof.
  unfold ref_makedirs. destruct (prefix_is_file s [] cs); [left; eauto|].
  destruct (status_of s cs); try (right; eexists; reflexivity).
  destruct r; [right; eexists; reflexivity|left; eauto].
Qed.

Lemma rpath_inr_nonempty p e : rpath p = inr e -> e <> [].
Proof.
  unfold rpath. destruct (has_char Ref.nul p); destruct (resolve (comps p));
    cbn [app]; intro H; inversion H; discriminate.
Qed.

(* ---- the argument checks of the three calls: the classes the reference allows when it
        rejects the call before touching the tree ---- *)
Definition dt_arg_errors (mv : bool) (src dst : str) (c : bool) (s : node) : list ecls :=
  match rpath src, rpath dst with
  | inl a, inl b => if mv && path_eqb a b then [] else dirtransfer_errors s a b c mv
  | inr e, inl _ => e
  | inl _, inr e => e
  | inr e1, inr e2 => e1 ++ e2
  end.

Definition makedirs_arg_errors (p : str) (r : bool) (s : node) : list ecls :=
  match rpath p with
  | inr e => e
  | inl cs =>
    if prefix_is_file s [] cs then [DirectoryExpected; ResourceNotFound; DirectoryExists]
    else match status_of s cs with
         | IsDir => if r then [] else [DirectoryExists]
         | _ => []
         end
  end.

Definition walk_arg_errors (o : op) (s : node) : list ecls :=
  match o with
  | OMakedirs p r => makedirs_arg_errors p r s
  | OCopydir src dst c _ => dt_arg_errors false src dst c s
  | OMovedir src dst c _ => dt_arg_errors true src dst c s
  | _ => []
  end.

Definition dt_conflict (mv : bool) (src dst : str) (c pt : bool) (s : node) : bool :=
  match rpath src, rpath dst with
  | inl a, inl b =>
    negb (mv && path_eqb a b) && is_nil (dirtransfer_errors s a b c mv)
    && negb (list_prefix b a) && merge_conflict_at s a b pt
  | _, _ => false
  end.

(* the call passes its argument checks and then meets a file/directory conflict while merging *)
Definition merge_conflict (o : op) (s : node) : bool :=
  match o with
  | OCopydir src dst c pt => dt_conflict false src dst c pt s
  | OMovedir src dst c pt => dt_conflict true src dst c pt s
  | _ => false
  end.

Definition dt_degenerate (mv : bool) (src dst : str) (c : bool) (s : node) : bool :=
  match rpath src, rpath dst with
  | inl a, inl b =>
    negb (mv && path_eqb a b) && is_nil (dirtransfer_errors s a b c mv) && list_prefix b a
  | _, _ => false
  end.

(* the call passes its argument checks and the destination is a proper ancestor of the source *)
Definition degenerate (o : op) (s : node) : bool :=
  match o with
  | OCopydir src dst c _ => dt_degenerate false src dst c s
  | OMovedir src dst c _ => dt_degenerate true src dst c s
  | _ => false
  end.

(* T4a: every failing reference step of a walker-based call is either an argument check,
   which keeps the tree, or a merge conflict, which leaves the tree open *)
Theorem walk_ref_fail_cases : forall o s adm,
  walk_op o = true -> rs_res (ref_run o s) = RFail adm ->
  (rs_tree (ref_run o s) = Some s /\ adm = walk_arg_errors o s /\ adm <> []
   /\ merge_conflict o s = false)
  \/ (rs_tree (ref_run o s) = None /\ adm = conflict_classes /\ walk_arg_errors o s = []
      /\ merge_conflict o s = true).
Proof.
  intros o s adm Wo H. destruct o; try discriminate Wo; cbn [ref_run walk_arg_errors merge_conflict] in *.
  - (* makedirs *)
    unfold with1, makedirs_arg_errors in *. destruct (rpath p) as [cs|e] eqn:R.
    + left. unfold ref_makedirs in *.
      destruct (prefix_is_file s [] cs).
      { cbn [fail same rs_res rs_tree] in *. inversion H; subst. repeat split. discriminate. }
      destruct (status_of s cs); try discriminate H.
      destruct recreate; [discriminate H|].
      cbn [fail same rs_res rs_tree] in *. inversion H; subst. repeat split. discriminate.
    + left. cbn [fail same rs_res rs_tree] in *. inversion H; subst. repeat split.
      exact (rpath_inr_nonempty _ _ R).
  - (* movedir *)
    unfold with2, dt_arg_errors, dt_conflict in *.
    destruct (rpath s0) as [a|e1] eqn:R1; destruct (rpath d) as [b|e2] eqn:R2.
    + destruct (ref_dt_fail_cases s a b create pt true adm H)
        as [Hm [(T & E & Ne)|(T & He & Hba & Hc & E)]]; rewrite Hm.
      * left. repeat split; auto. cbn [negb andb]. rewrite <- E.
        destruct adm; [congruence|reflexivity].
      * right. rewrite He, Hba, Hc. repeat split; auto.
    + left. cbn [fail same rs_res rs_tree] in *. inversion H; subst. repeat split.
      exact (rpath_inr_nonempty _ _ R2).
    + left. cbn [fail same rs_res rs_tree] in *. inversion H; subst. repeat split.
      exact (rpath_inr_nonempty _ _ R1).
    + left. cbn [fail same rs_res rs_tree] in *. inversion H; subst. repeat split.
      pose proof (rpath_inr_nonempty _ _ R1). destruct e1; [congruence|discriminate].
  - (* copydir *)
    unfold with2, dt_arg_errors, dt_conflict in *.
    destruct (rpath s0) as [a|e1] eqn:R1; destruct (rpath d) as [b|e2] eqn:R2.
    + destruct (ref_dt_fail_cases s a b create pt false adm H)
        as [Hm [(T & E & Ne)|(T & He & Hba & Hc & E)]]; rewrite Hm.
      * left. repeat split; auto. cbn [negb andb]. rewrite <- E.
        destruct adm; [congruence|reflexivity].
      * right. rewrite He, Hba, Hc. repeat split; auto.
    + left. cbn [fail same rs_res rs_tree] in *. inversion H; subst. repeat split.
      exact (rpath_inr_nonempty _ _ R2).
    + left. cbn [fail same rs_res rs_tree] in *. inversion H; subst. repeat split.
      exact (rpath_inr_nonempty _ _ R1).
    + left. cbn [fail same rs_res rs_tree] in *. inversion H; subst. repeat split.
      pose proof (rpath_inr_nonempty _ _ R1). destruct e1; [congruence|discriminate].
Qed.
Print Assumptions walk_ref_fail_cases.

(* The reference does NOT keep the tree for every RFail of copydir / movedir: *)
From Coq Require Import String.
Local Open Scope string_scope.
Definition ex_s : node :=
  Dir [(lit "a", Dir [(lit "f", File (lit "x") None); (lit "d", Dir [] None)] None);
       (lit "g", File (lit "y") (Some 5%Z));
       (lit "b", Dir [(lit "f", Dir [] None)] None)] None.
Local Close Scope string_scope.
Local Open Scope list_scope.

Definition ex_copydir_missing : op := OCopydir (lit "/zz") (lit "/b") true false.
Definition ex_movedir_onto_file : op := OMovedir (lit "/a") (lit "/g") true false.
Definition ex_makedirs_below_file : op := OMakedirs (lit "/g/x/y") true.
Definition ex_copydir_conflict : op := OCopydir (lit "/a") (lit "/b") true false.
Definition ex_movedir_conflict : op := OMovedir (lit "/a") (lit "/b") true false.
Definition ex_movedir_degenerate : op := OMovedir (lit "/a/d") (lit "/a") true false.

Lemma ex_s_wf : wf ex_s.
Proof.
  split; [reflexivity|]. vm_compute.
  repeat (first [ split | constructor | discriminate | reflexivity
                | (let H := fresh in intro H; simpl in H; intuition discriminate) ]).
Qed.

Lemma ex_s_nn : nn ex_s.
Proof. vm_compute. repeat (first [ split | constructor | reflexivity ]). Qed.

(* counterexample to "the reference keeps the tree for EVERY RFail of a walker-based call":
   copydir (or movedir) of /a = {f: file, d: dir} onto /b = {f: dir} passes the argument
   checks and then meets the file/directory conflict on "f" *)
Example walk_ref_fail_keeps_tree_ce :
  walk_op ex_copydir_conflict = true /\
  rs_res (ref_run ex_copydir_conflict ex_s) = RFail conflict_classes /\
  rs_tree (ref_run ex_copydir_conflict ex_s) = None /\
  walk_op ex_movedir_conflict = true /\
  rs_res (ref_run ex_movedir_conflict ex_s) = RFail conflict_classes /\
  rs_tree (ref_run ex_movedir_conflict ex_s) = None.
Proof. vm_compute. repeat split. Qed.

(* T4.  STATEMENT CHANGED: "forall o s adm, walk_op o -> rs_res (ref_run o s) = RFail adm ->
   rs_tree (ref_run o s) = Some s" is false (walk_ref_fail_keeps_tree_ce); the weakest extra
   hypothesis is [merge_conflict o s = false] (see walk_ref_fail_tree_iff).  With it the
   statement holds for all 26 calls. *)
Theorem walk_ref_fail_keeps_tree : forall o s adm,
  rs_res (ref_run o s) = RFail adm -> merge_conflict o s = false ->
  rs_tree (ref_run o s) = Some s.
Proof.
  intros o s adm H Nc. destruct (covered o) eqn:C; [exact (ref_fail_keeps_tree o s adm C H)|].
  assert (Wo : walk_op o = true) by (unfold walk_op; now rewrite C).
  destruct (walk_ref_fail_cases o s adm Wo H) as [(T & _)|(_ & _ & _ & Hc)]; [exact T|congruence].
Qed.
Print Assumptions walk_ref_fail_keeps_tree.

Theorem walk_ref_fail_tree_iff : forall o s adm,
  walk_op o = true -> rs_res (ref_run o s) = RFail adm ->
  (rs_tree (ref_run o s) = Some s <-> merge_conflict o s = false).
Proof.
  intros o s adm Wo H.
  destruct (walk_ref_fail_cases o s adm Wo H) as [(T & _ & _ & Hc)|(T & _ & _ & Hc)].
  - split; auto.
  - rewrite T, Hc. split; discriminate.
Qed.
Print Assumptions walk_ref_fail_tree_iff.

(* a merge conflict is a failure whose resulting tree the contract leaves open *)
Theorem walk_ref_conflict : forall o s,
  merge_conflict o s = true ->
  ref_run o s = {| rs_tree := None; rs_res := RFail conflict_classes |}.
Proof.
  intros o s H. destruct o; try discriminate H; cbn [merge_conflict ref_run] in *;
    unfold dt_conflict, with2 in *;
    destruct (rpath s0) as [a|e1]; try discriminate H;
    destruct (rpath d) as [b|e2]; try discriminate H;
    apply andb_true_iff in H as [H Hc]; apply andb_true_iff in H as [H Hba];
    apply andb_true_iff in H as [Hm He];
    apply negb_true_iff in Hm; apply negb_true_iff in Hba; apply is_nil_true in He;
    now apply ref_dt_conflict.
Qed.
Print Assumptions walk_ref_conflict.

(* the argument checks: whenever one of them fails the reference rejects the call with exactly
   these classes and keeps the tree *)
Theorem walk_ref_argcheck : forall o s,
  walk_arg_errors o s <> [] -> ref_run o s = fail s (walk_arg_errors o s).
Proof.
  intros o s H. destruct o; try (exfalso; apply H; reflexivity);
    cbn [walk_arg_errors ref_run] in *.
  - unfold makedirs_arg_errors, with1, ref_makedirs in *.
    destruct (rpath p) as [cs|e]; [|reflexivity].
    destruct (prefix_is_file s [] cs); [reflexivity|].
    destruct (status_of s cs); try (exfalso; apply H; reflexivity).
    destruct recreate; [exfalso; apply H; reflexivity|reflexivity].
  - unfold dt_arg_errors, with2, ref_dirtransfer in *.
    destruct (rpath s0) as [a|e1]; destruct (rpath d) as [b|e2]; try reflexivity.
    destruct (true && path_eqb a b); [exfalso; apply H; reflexivity|].
    destruct (dirtransfer_errors s a b create true); [exfalso; apply H; reflexivity|reflexivity].
  - unfold dt_arg_errors, with2, ref_dirtransfer in *.
    destruct (rpath s0) as [a|e1]; destruct (rpath d) as [b|e2]; try reflexivity.
    destruct (false && path_eqb a b); [exfalso; apply H; reflexivity|].
    destruct (dirtransfer_errors s a b create false); [exfalso; apply H; reflexivity|reflexivity].
Qed.
Print Assumptions walk_ref_argcheck.

(* makedirs: the reference keeps the tree for EVERY failure -- no intermediate directory is left *)
Theorem makedirs_ref_fail_keeps_tree : forall p r s adm,
  rs_res (ref_run (OMakedirs p r) s) = RFail adm -> rs_tree (ref_run (OMakedirs p r) s) = Some s.
Proof. intros p r s adm H. exact (walk_ref_fail_keeps_tree (OMakedirs p r) s adm H eq_refl). Qed.
Print Assumptions makedirs_ref_fail_keeps_tree.

(* ---- the verdict RAny ---- *)
Theorem ref_any_iff_degenerate : forall o s,
  rs_res (ref_run o s) = RAny <-> degenerate o s = true.
Proof.
  intros o s. destruct (covered o) eqn:C.
  { split; [intro H; exfalso; exact (ref_covered_not_any o s C H)|].
    destruct o; try discriminate C; discriminate. }
  destruct o; try discriminate C; cbn [ref_run degenerate].
  - unfold with1. split; [|discriminate].
    destruct (rpath p) as [cs|e]; [|discriminate].
    destruct (ref_makedirs_cases s cs recreate) as [[adm E]|[t E]]; rewrite E; discriminate.
  - unfold with2, dt_degenerate.
    destruct (rpath s0) as [a|e1]; destruct (rpath d) as [b|e2];
      try (split; discriminate).
    rewrite (ref_dt_any s a b create pt true). split.
    + intros (Hm & He & Hba). now rewrite Hm, He, Hba.
    + intro H. apply andb_true_iff in H as [H Hba]. apply andb_true_iff in H as [Hm He].
      apply negb_true_iff in Hm. apply is_nil_true in He. auto.
  - unfold with2, dt_degenerate.
    destruct (rpath s0) as [a|e1]; destruct (rpath d) as [b|e2];
      try (split; discriminate).
    rewrite (ref_dt_any s a b create pt false). split.
    + intros (Hm & He & Hba). now rewrite Hm, He, Hba.
    + intro H. apply andb_true_iff in H as [H Hba]. apply andb_true_iff in H as [Hm He].
      apply negb_true_iff in Hm. apply is_nil_true in He. auto.
Qed.
Print Assumptions ref_any_iff_degenerate.

Lemma dt_pre_not_degenerate mv src dst c s :
  dt_pre mv src dst s = true -> dt_degenerate mv src dst c s = false.
Proof.
  unfold dt_pre, dt_degenerate.
  destruct (rpath src) as [a|e1]; [|reflexivity]. destruct (rpath dst) as [b|e2]; [|reflexivity].
  destruct (list_prefix b a) eqn:Hba; [|intros _; apply andb_false_r].
  cbn [negb orb]. intro H. apply andb_true_iff in H as [-> H]. cbn [andb].
  destruct (path_eqb a b); [reflexivity|]. cbn [orb negb andb] in *.
  destruct (lookup s b) eqn:Lb; [discriminate H|].
  pose proof (dte_src_none s a b c true (prefix_lookup_none s a b Hba Lb)) as Ne.
  destruct (dirtransfer_errors s a b c true); [congruence|reflexivity].
Qed.

Theorem walk_pre_not_degenerate : forall o s, walk_pre o s = true -> degenerate o s = false.
Proof.
  intros o s H. destruct o; try reflexivity; cbn [walk_pre degenerate] in *;
    now apply dt_pre_not_degenerate.
Qed.

Print Assumptions walk_pre_not_degenerate.

Theorem walk_ref_not_any : forall o s, walk_pre o s = true -> rs_res (ref_run o s) <> RAny.
Proof.
  intros o s H A. apply ref_any_iff_degenerate in A.
  rewrite (walk_pre_not_degenerate o s H) in A. discriminate A.
Qed.
Print Assumptions walk_ref_not_any.

(* the reference never asks a walker-based call for a ValueError *)
Theorem walk_ref_not_valueerror : forall o s,
  walk_op o = true -> rs_res (ref_run o s) <> RValueError.
Proof.
  intros o s Wo. destruct o; try discriminate Wo; cbn [ref_run].
  - unfold with1. destruct (rpath p) as [cs|e]; [|discriminate].
    destruct (ref_makedirs_cases s cs recreate) as [[adm E]|[t E]]; rewrite E; discriminate.
  - unfold with2. destruct (rpath s0) as [a|e1]; destruct (rpath d) as [b|e2]; try discriminate.
    apply ref_dt_not_valueerror.
  - unfold with2. destruct (rpath s0) as [a|e1]; destruct (rpath d) as [b|e2]; try discriminate.
    apply ref_dt_not_valueerror.
Qed.
Print Assumptions walk_ref_not_valueerror.

(* ================================================================== *)
(* C06 on the MemoryFS model, all 26 calls                             *)
(* ================================================================== *)

(* T1: no foreign exception (same statement as mem_no_foreign_exception, now for every call) *)
Theorem walk_no_foreign_exception : forall o s k,
  wf s -> nn s -> walk_pre o s = true -> snd (mem_run o s) = Crash k ->
  k = ValueError /\ rs_res (ref_run o s) = RValueError.
Proof.
  intros o s k W N Pre H. destruct (agree_parts _ _ (walk_refines o s W N Pre)) as [A _].
  rewrite H in A. unfold res_agree in A.
  destruct k; try discriminate A; destruct (rs_res (ref_run o s)); try discriminate A; auto.
Qed.
Print Assumptions walk_no_foreign_exception.

(* T1': the walker-based calls never end in a non-fs.errors exception, not even the documented
   ValueError, and never run out of walker fuel (Crash NonTermination = an endless loop) *)
Theorem walk_never_crashes : forall o s k,
  wf s -> nn s -> walk_op o = true -> walk_pre o s = true -> snd (mem_run o s) = Crash k -> False.
Proof.
  intros o s k W N Wo Pre H.
  destruct (walk_no_foreign_exception o s k W N Pre H) as [_ R].
  exact (walk_ref_not_valueerror o s Wo R).
Qed.
Print Assumptions walk_never_crashes.

(* T2: the error class is admissible.  RAny is impossible under walk_pre (walk_ref_not_any), so
   the second disjunct of the target statement is dropped. *)
Theorem walk_error_admissible : forall o s e,
  wf s -> nn s -> walk_pre o s = true -> snd (mem_run o s) = Err e ->
  exists adm, rs_res (ref_run o s) = RFail adm /\ In e adm.
Proof.
  intros o s e W N Pre H. destruct (agree_parts _ _ (walk_refines o s W N Pre)) as [A _].
  rewrite H in A. unfold res_agree in A.
  pose proof (walk_ref_not_any o s Pre) as NA.
  destruct (rs_res (ref_run o s)) as [v|adm| |]; try discriminate A; [|congruence].
  exists adm. split; [reflexivity|].
  apply existsb_exists in A as [x [Hin Hx]]. apply ecls_eqb_eq in Hx. now subst.
Qed.
Print Assumptions walk_error_admissible.

(* the weaker form asked for, kept for reference *)
Corollary walk_error_admissible_or_any : forall o s e,
  wf s -> nn s -> walk_pre o s = true -> snd (mem_run o s) = Err e ->
  (exists adm, rs_res (ref_run o s) = RFail adm /\ In e adm) \/ rs_res (ref_run o s) = RAny.
Proof. intros. left. now apply walk_error_admissible. Qed.
Print Assumptions walk_error_admissible_or_any.

(* T3: a call the reference rejects without touching the tree leaves the tree as it was *)
Theorem walk_rejected_is_noop : forall o s adm,
  wf s -> nn s -> walk_pre o s = true ->
  rs_res (ref_run o s) = RFail adm -> rs_tree (ref_run o s) = Some s ->
  tree_eqb true (fst (mem_run o s)) s = true.
Proof.
  intros o s adm W N Pre _ T. destruct (agree_parts _ _ (walk_refines o s W N Pre)) as [_ A].
  now rewrite T in A.
Qed.
Print Assumptions walk_rejected_is_noop.

(* ... and it does fail, with one of the admissible classes *)
Theorem walk_rejected_fails : forall o s adm,
  wf s -> nn s -> walk_pre o s = true -> rs_res (ref_run o s) = RFail adm ->
  exists e, snd (mem_run o s) = Err e /\ In e adm.
Proof.
  intros o s adm W N Pre R. destruct (agree_parts _ _ (walk_refines o s W N Pre)) as [A _].
  rewrite R in A. unfold res_agree in A.
  destruct (snd (mem_run o s)) as [v|e|k]; try discriminate A; [|destruct k; discriminate A].
  exists e. split; [reflexivity|].
  apply existsb_exists in A as [x [Hin Hx]]. apply ecls_eqb_eq in Hx. now subst.
Qed.
Print Assumptions walk_rejected_fails.

(* T3': a call that fails one of its argument checks fails with one of the classes whose
   condition holds, and changes nothing *)
Theorem walk_argcheck_rejected : forall o s,
  wf s -> nn s -> walk_pre o s = true -> walk_arg_errors o s <> [] ->
  (exists e, snd (mem_run o s) = Err e /\ In e (walk_arg_errors o s))
  /\ tree_eqb true (fst (mem_run o s)) s = true.
Proof.
  intros o s W N Pre H. pose proof (walk_ref_argcheck o s H) as E.
  split.
  - apply (walk_rejected_fails o s _ W N Pre). now rewrite E.
  - apply (walk_rejected_is_noop o s (walk_arg_errors o s) W N Pre); now rewrite E.
Qed.
Print Assumptions walk_argcheck_rejected.

(* counterexample to "every failed walker-based call is a no-op" (the statement of
   mem_failed_call_is_noop for the three calls): the conflicting copydir fails with
   FileExpected after having created /b/d *)
Example walk_failed_call_is_noop_ce :
  walk_pre ex_copydir_conflict ex_s = true /\
  snd (mem_run ex_copydir_conflict ex_s) = Err FileExpected /\
  tree_eqb true (fst (mem_run ex_copydir_conflict ex_s)) ex_s = false /\
  lookup (fst (mem_run ex_copydir_conflict ex_s)) [lit "b"; lit "d"] = Some (Dir [] None) /\
  lookup ex_s [lit "b"; lit "d"] = None /\
  merge_conflict ex_copydir_conflict ex_s = true.
Proof. vm_compute. repeat split. Qed.

(* T3''.  STATEMENT CHANGED (with respect to mem_failed_call_is_noop): a failed call leaves the
   tree exactly as it was unless it failed on a merge conflict (walk_failed_call_is_noop_ce);
   in particular every failed makedirs is a no-op. *)
Theorem walk_failed_call_is_noop : forall o s e,
  wf s -> nn s -> walk_pre o s = true -> snd (mem_run o s) = Err e ->
  merge_conflict o s = false ->
  tree_eqb true (fst (mem_run o s)) s = true.
Proof.
  intros o s e W N Pre H Nc.
  destruct (walk_error_admissible o s e W N Pre H) as (adm & R & _).
  exact (walk_rejected_is_noop o s adm W N Pre R (walk_ref_fail_keeps_tree o s adm R Nc)).
Qed.
Print Assumptions walk_failed_call_is_noop.

(* T5: why a walker-based call failed: an argument check whose condition holds (and then nothing
   changed), or a merge conflict *)
Theorem walk_error_cause : forall o s e,
  wf s -> nn s -> walk_op o = true -> walk_pre o s = true -> snd (mem_run o s) = Err e ->
  (In e (walk_arg_errors o s) /\ merge_conflict o s = false
   /\ tree_eqb true (fst (mem_run o s)) s = true)
  \/ (In e conflict_classes /\ merge_conflict o s = true /\ walk_arg_errors o s = []).
Proof.
  intros o s e W N Wo Pre H.
  destruct (walk_error_admissible o s e W N Pre H) as (adm & R & I).
  destruct (walk_ref_fail_cases o s adm Wo R) as [(T & E & _ & Hc)|(_ & E & Ha & Hc)]; subst adm.
  - left. split; [exact I|]. split; [exact Hc|].
    exact (walk_rejected_is_noop o s _ W N Pre R T).
  - right. auto.
Qed.
Print Assumptions walk_error_cause.

(* the documented ValueError (only possible for the covered open calls) also changes nothing *)
Theorem walk_crashed_call_is_noop : forall o s k,
  wf s -> nn s -> walk_pre o s = true -> snd (mem_run o s) = Crash k ->
  tree_eqb true (fst (mem_run o s)) s = true.
Proof.
  intros o s k W N Pre H. destruct (covered o) eqn:C.
  - exact (mem_crashed_call_is_noop o s k W C H).
  - exfalso. apply (walk_never_crashes o s k W N); auto. unfold walk_op. now rewrite C.
Qed.
Print Assumptions walk_crashed_call_is_noop.

(* ---- makedirs on the model: a failed call leaves no intermediate directory behind ---- *)
Theorem makedirs_failed_is_noop : forall p r s cs e,
  wf s -> rpath p = inl cs -> snd (mem_run (OMakedirs p r) s) = Err e ->
  fst (mem_run (OMakedirs p r) s) = s
  /\ ((prefix_is_file s [] cs = true /\ e = DirectoryExpected)
      \/ (prefix_is_file s [] cs = false /\ status_of s cs = IsDir /\ r = false
          /\ e = DirectoryExists)).
Proof.
  intros p r s cs e W R. cbn [mem_run]. unfold vmap, mbind.
  destruct (makedirs_spec p r s cs W R) as [E _]. rewrite E. unfold makedirs_rhs.
  destruct (prefix_is_file s [] cs).
  { cbn [fst snd]. intro H. inversion H; subst. auto. }
  destruct (status_of s cs); cbn [fst snd]; try discriminate.
  destruct r; cbn [fst snd]; [discriminate|]. intro H. inversion H; subst.
  split; [reflexivity|]. right. auto.
Qed.
Print Assumptions makedirs_failed_is_noop.

(* for a path rejected by validatepath the model's makedirs is NOT a no-op (known finding, see
   FS/PropsProofs.v): FS.makedirs computes the intermediate directories from the raw path,
   creates /x and only then fails on the NUL; this is why walk_pre asks for a resolvable path *)
Example makedirs_invalid_path_not_noop_ce :
  let p := (lit "x/y/" ++ [0%N] ++ lit "/..")%list in
  wf empty_dir /\ nn empty_dir /\
  walk_pre (OMakedirs p false) empty_dir = false /\
  mem_run (OMakedirs p false) empty_dir = (Dir [(lit "x", Dir [] None)] None, Err InvalidCharsInPath) /\
  ref_run (OMakedirs p false) empty_dir = fail empty_dir [InvalidCharsInPath].
Proof.
  split; [exact wf_empty|]. split; [exact nn_empty|]. vm_compute. repeat split.
Qed.

(* ================================================================== *)
(* the argument checks by name (reference side)                        *)
(* ================================================================== *)

(* the reference rejects the call with a set of classes containing e and keeps the tree *)
Definition rejects (r : rstep) (s : node) (e : ecls) : Prop :=
  rs_tree r = Some s /\ exists adm, rs_res r = RFail adm /\ In e adm.

Lemma fail_rejects s adm e : In e adm -> rejects (fail s adm) s e.
Proof. intro H. split; [reflexivity|]. exists adm. split; [reflexivity|exact H]. Qed.

Lemma ref_dt_rejects s a b c pt mv e :
  (mv && path_eqb a b) = false -> In e (dirtransfer_errors s a b c mv) ->
  rejects (ref_dirtransfer s a b c pt mv) s e.
Proof.
  intros Hm H. unfold ref_dirtransfer. rewrite Hm.
  destruct (dirtransfer_errors s a b c mv) as [|x l]; [contradiction|].
  now apply fail_rejects.
Qed.

(* destination inside (or equal to) the source *)
Lemma dte_dst_inside_src s a b c mv :
  list_prefix a b = true -> In IllegalDestination (dirtransfer_errors s a b c mv).
Proof. intro H. rewrite dte_eq, H. apply in_or_app. left. left. reflexivity. Qed.

(* missing source *)
Lemma dte_src_missing s a b c mv :
  lookup s a = None -> In ResourceNotFound (dirtransfer_errors s a b c mv).
Proof.
  intro L. rewrite dte_eq. apply in_or_app. right. apply in_or_app. left.
  destruct (status_lookup_none _ _ L) as [E|E]; rewrite E; left; reflexivity.
Qed.

(* the source is a file *)
Lemma dte_src_file s a b c mv d m :
  lookup s a = Some (File d m) -> In DirectoryExpected (dirtransfer_errors s a b c mv).
Proof.
  intro L. rewrite dte_eq, (status_file _ _ _ _ L). apply in_or_app. right. apply in_or_app. left.
  left. reflexivity.
Qed.

(* the destination is a file *)
Lemma dte_dst_file s a b c mv d m :
  lookup s b = Some (File d m) ->
  In DirectoryExpected (dirtransfer_errors s a b c mv) /\
  In DirectoryExists (dirtransfer_errors s a b c mv).
Proof.
  intro L. rewrite dte_eq, (status_file _ _ _ _ L).
  split; apply in_or_app; right; apply in_or_app; right; [left|right; left]; reflexivity.
Qed.

(* the destination is missing and create=False *)
Lemma dte_dst_missing_nocreate s a b mv :
  lookup s b = None -> In ResourceNotFound (dirtransfer_errors s a b false mv).
Proof.
  intro L. rewrite dte_eq. apply in_or_app. right. apply in_or_app. right.
  destruct (status_lookup_none _ _ L) as [E|E]; rewrite E; left; reflexivity.
Qed.

(* movedir: the destination is missing and its parent is not a directory *)
Lemma dte_move_parent s a b c :
  lookup s b = None -> b <> [] -> status_of s (parent b) <> IsDir ->
  In ResourceNotFound (dirtransfer_errors s a b c true).
Proof.
  intros L Nb Hp. rewrite dte_eq. apply in_or_app. right. apply in_or_app. right.
  destruct b as [|x b']; [congruence|].
  assert (Hin : In ResourceNotFound (parent_errors (status_of s (parent (x :: b'))))).
  { destruct (status_of s (parent (x :: b'))); try congruence; left; reflexivity. }
  destruct (status_lookup_none _ _ L) as [E|E]; rewrite E; apply in_or_app; right; exact Hin.
Qed.

(* copydir: the destination is missing and a proper prefix of it is a file *)
Lemma dte_copy_prefix_file s a b c :
  lookup s b = None -> prefix_is_file s [] b = true ->
  In DirectoryExpected (dirtransfer_errors s a b c false).
Proof.
  intros L Pf. rewrite dte_eq, Pf. apply in_or_app. right. apply in_or_app. right.
  destruct (status_lookup_none _ _ L) as [E|E]; rewrite E; apply in_or_app; right; left; reflexivity.
Qed.

(* T4b: copydir rejected by its argument checks keeps the tree *)
Theorem copydir_argument_checks : forall src dst c pt s a b,
  rpath src = inl a -> rpath dst = inl b ->
  let r := ref_run (OCopydir src dst c pt) s in
  (list_prefix a b = true -> rejects r s IllegalDestination) /\
  (lookup s a = None -> rejects r s ResourceNotFound) /\
  (forall d m, lookup s a = Some (File d m) -> rejects r s DirectoryExpected) /\
  (forall d m, lookup s b = Some (File d m) ->
               rejects r s DirectoryExpected /\ rejects r s DirectoryExists) /\
  (lookup s b = None -> c = false -> rejects r s ResourceNotFound) /\
  (lookup s b = None -> prefix_is_file s [] b = true -> rejects r s DirectoryExpected).
Proof.
  intros src dst c pt s a b R1 R2 r. subst r. cbn [ref_run]. unfold with2. rewrite R1, R2.
  assert (Hm : (false && path_eqb a b) = false) by reflexivity.
  split; [|split; [|split; [|split; [|split]]]].
  - intros. apply ref_dt_rejects; auto using dte_dst_inside_src.
  - intros. apply ref_dt_rejects; auto using dte_src_missing.
  - intros. apply ref_dt_rejects; eauto using dte_src_file.
  - intros d m L. split; apply ref_dt_rejects; auto; eapply dte_dst_file; eauto.
  - intros L ->. apply ref_dt_rejects; auto using dte_dst_missing_nocreate.
  - intros. apply ref_dt_rejects; auto using dte_copy_prefix_file.
Qed.
Print Assumptions copydir_argument_checks.

(* T4c: movedir rejected by its argument checks keeps the tree (a <> b: moving a directory onto
   itself is a successful no-op) *)
Theorem movedir_argument_checks : forall src dst c pt s a b,
  rpath src = inl a -> rpath dst = inl b -> a <> b ->
  let r := ref_run (OMovedir src dst c pt) s in
  (list_prefix a b = true -> rejects r s IllegalDestination) /\
  (lookup s a = None -> rejects r s ResourceNotFound) /\
  (forall d m, lookup s a = Some (File d m) -> rejects r s DirectoryExpected) /\
  (forall d m, lookup s b = Some (File d m) ->
               rejects r s DirectoryExpected /\ rejects r s DirectoryExists) /\
  (lookup s b = None -> c = false -> rejects r s ResourceNotFound) /\
  (lookup s b = None -> b <> [] -> status_of s (parent b) <> IsDir -> rejects r s ResourceNotFound).
Proof.
  intros src dst c pt s a b R1 R2 Nab r. subst r. cbn [ref_run]. unfold with2. rewrite R1, R2.
  assert (Hm : (true && path_eqb a b) = false) by (cbn [andb]; now apply path_eqb_neq).
  split; [|split; [|split; [|split; [|split]]]].
  - intros. apply ref_dt_rejects; auto using dte_dst_inside_src.
  - intros. apply ref_dt_rejects; auto using dte_src_missing.
  - intros. apply ref_dt_rejects; eauto using dte_src_file.
  - intros d m L. split; apply ref_dt_rejects; auto; eapply dte_dst_file; eauto.
  - intros L ->. apply ref_dt_rejects; auto using dte_dst_missing_nocreate.
  - intros. apply ref_dt_rejects; auto using dte_move_parent.
Qed.
Print Assumptions movedir_argument_checks.

(* T4d: makedirs *)
Theorem makedirs_argument_checks : forall p r s cs,
  rpath p = inl cs ->
  let st := ref_run (OMakedirs p r) s in
  (prefix_is_file s [] cs = true -> rejects st s DirectoryExpected) /\
  (prefix_is_file s [] cs = false -> status_of s cs = IsDir -> r = false ->
   rejects st s DirectoryExists).
Proof.
  intros p r s cs R st. subst st. cbn [ref_run]. unfold with1, ref_makedirs. rewrite R.
  split.
  - intros ->. apply fail_rejects. left. reflexivity.
  - intros -> -> ->. apply fail_rejects. left. reflexivity.
Qed.
Print Assumptions makedirs_argument_checks.

(* T4e: an invalid path (NUL character, back-reference above the root) in any argument *)
Theorem walk_invalid_path_rejected : forall o s,
  walk_op o = true ->
  match o with
  | OMakedirs p _ => exists e, rpath p = inr e
  | OCopydir src dst _ _ | OMovedir src dst _ _ =>
    (exists e, rpath src = inr e) \/ (exists e, rpath dst = inr e)
  | _ => False
  end ->
  rs_tree (ref_run o s) = Some s /\
  exists adm, rs_res (ref_run o s) = RFail adm /\ adm <> [] /\
              forall e, In e adm -> e = InvalidCharsInPath \/ e = IllegalBackReference.
Proof.
  assert (Hcl : forall p adm, rpath p = inr adm ->
            forall e, In e adm -> e = InvalidCharsInPath \/ e = IllegalBackReference).
  { intros p adm. unfold rpath. destruct (has_char Ref.nul p); destruct (resolve (comps p));
      cbn [app]; intro H; inversion H; subst; simpl; intuition. }
  intros o s Wo H. destruct o; try discriminate Wo; cbn [ref_run].
  - destruct H as [e R]. unfold with1. rewrite R. split; [reflexivity|].
    exists e. split; [reflexivity|]. split; [exact (rpath_inr_nonempty _ _ R)|exact (Hcl _ _ R)].
  - unfold with2.
    destruct (rpath s0) as [a|e1] eqn:R1; destruct (rpath d) as [b|e2] eqn:R2.
    + destruct H as [[e H]|[e H]]; discriminate H.
    + split; [reflexivity|]. exists e2. split; [reflexivity|].
      split; [exact (rpath_inr_nonempty _ _ R2)|exact (Hcl _ _ R2)].
    + split; [reflexivity|]. exists e1. split; [reflexivity|].
      split; [exact (rpath_inr_nonempty _ _ R1)|exact (Hcl _ _ R1)].
    + split; [reflexivity|]. exists (e1 ++ e2). split; [reflexivity|]. split.
      * pose proof (rpath_inr_nonempty _ _ R1). destruct e1; [congruence|discriminate].
      * intros e Hin. apply in_app_or in Hin as [Hin|Hin]; [exact (Hcl _ _ R1 e Hin)|exact (Hcl _ _ R2 e Hin)].
  - unfold with2.
    destruct (rpath s0) as [a|e1] eqn:R1; destruct (rpath d) as [b|e2] eqn:R2.
    + destruct H as [[e H]|[e H]]; discriminate H.
    + split; [reflexivity|]. exists e2. split; [reflexivity|].
      split; [exact (rpath_inr_nonempty _ _ R2)|exact (Hcl _ _ R2)].
    + split; [reflexivity|]. exists e1. split; [reflexivity|].
      split; [exact (rpath_inr_nonempty _ _ R1)|exact (Hcl _ _ R1)].
    + split; [reflexivity|]. exists (e1 ++ e2). split; [reflexivity|]. split.
      * pose proof (rpath_inr_nonempty _ _ R1). destruct e1; [congruence|discriminate].
      * intros e Hin. apply in_app_or in Hin as [Hin|Hin]; [exact (Hcl _ _ R1 e Hin)|exact (Hcl _ _ R2 e Hin)].
Qed.
Print Assumptions walk_invalid_path_rejected.

(* ================================================================== *)
(* examples: the hypotheses are satisfiable with a FAILING call of     *)
(* each of the three ops, on the non-empty state ex_s =                *)
(*   /a/f (file), /a/d (dir), /g (file), /b/f (dir)                    *)
(* ================================================================== *)
Definition ex_hyps (o : op) : Prop := wf ex_s /\ nn ex_s /\ walk_op o = true /\ walk_pre o ex_s = true.

Lemma ex_hyps_intro o : walk_op o = true -> walk_pre o ex_s = true -> ex_hyps o.
Proof. intros H1 H2. split; [exact ex_s_wf|]. split; [exact ex_s_nn|]. auto. Qed.

Ltac ex_solve :=
  repeat match goal with
         | |- ex_hyps _ => apply ex_hyps_intro
         | |- _ /\ _ => split
         | |- _ => vm_compute; reflexivity
         end.

(* walk_no_foreign_exception / walk_never_crashes: the three failing calls end in Err, not Crash;
   a covered call with an invalid mode is the only way to the (documented) ValueError *)
Example walk_no_foreign_exception_ex :
  (ex_hyps ex_copydir_missing /\ snd (mem_run ex_copydir_missing ex_s) = Err ResourceNotFound) /\
  (ex_hyps ex_movedir_onto_file /\ snd (mem_run ex_movedir_onto_file ex_s) = Err DirectoryExpected) /\
  (ex_hyps ex_makedirs_below_file /\ snd (mem_run ex_makedirs_below_file ex_s) = Err DirectoryExpected) /\
  (walk_pre (OOpenread (lit "/g") (lit "z")) ex_s = true /\
   snd (mem_run (OOpenread (lit "/g") (lit "z")) ex_s) = Crash ValueError /\
   rs_res (ref_run (OOpenread (lit "/g") (lit "z")) ex_s) = RValueError).
Proof.
  ex_solve.
Qed.

(* walk_error_admissible: the class reported is in the reference's admissible set *)
Example walk_error_admissible_ex :
  (ex_hyps ex_copydir_missing /\
   snd (mem_run ex_copydir_missing ex_s) = Err ResourceNotFound /\
   rs_res (ref_run ex_copydir_missing ex_s) = RFail [ResourceNotFound]) /\
  (ex_hyps ex_movedir_onto_file /\
   snd (mem_run ex_movedir_onto_file ex_s) = Err DirectoryExpected /\
   rs_res (ref_run ex_movedir_onto_file ex_s) = RFail [DirectoryExpected; DirectoryExists]) /\
  (ex_hyps ex_makedirs_below_file /\
   snd (mem_run ex_makedirs_below_file ex_s) = Err DirectoryExpected /\
   rs_res (ref_run ex_makedirs_below_file ex_s)
   = RFail [DirectoryExpected; ResourceNotFound; DirectoryExists]) /\
  (ex_hyps ex_copydir_conflict /\
   snd (mem_run ex_copydir_conflict ex_s) = Err FileExpected /\
   rs_res (ref_run ex_copydir_conflict ex_s) = RFail conflict_classes).
Proof.
  ex_solve.
Qed.

(* walk_rejected_is_noop / walk_argcheck_rejected / walk_failed_call_is_noop *)
Example walk_rejected_is_noop_ex :
  (ex_hyps ex_copydir_missing /\
   ref_run ex_copydir_missing ex_s = fail ex_s [ResourceNotFound] /\
   walk_arg_errors ex_copydir_missing ex_s = [ResourceNotFound] /\
   merge_conflict ex_copydir_missing ex_s = false /\
   fst (mem_run ex_copydir_missing ex_s) = ex_s) /\
  (ex_hyps ex_movedir_onto_file /\
   ref_run ex_movedir_onto_file ex_s = fail ex_s [DirectoryExpected; DirectoryExists] /\
   walk_arg_errors ex_movedir_onto_file ex_s = [DirectoryExpected; DirectoryExists] /\
   merge_conflict ex_movedir_onto_file ex_s = false /\
   fst (mem_run ex_movedir_onto_file ex_s) = ex_s) /\
  (ex_hyps ex_makedirs_below_file /\
   ref_run ex_makedirs_below_file ex_s
   = fail ex_s [DirectoryExpected; ResourceNotFound; DirectoryExists] /\
   walk_arg_errors ex_makedirs_below_file ex_s
   = [DirectoryExpected; ResourceNotFound; DirectoryExists] /\
   merge_conflict ex_makedirs_below_file ex_s = false /\
   fst (mem_run ex_makedirs_below_file ex_s) = ex_s).
Proof.
  ex_solve.
Qed.

(* walk_ref_fail_keeps_tree / walk_ref_fail_cases / walk_ref_conflict: both kinds of failure occur *)
Example walk_ref_fail_keeps_tree_ex :
  (rs_res (ref_run ex_copydir_missing ex_s) = RFail [ResourceNotFound] /\
   merge_conflict ex_copydir_missing ex_s = false /\
   rs_tree (ref_run ex_copydir_missing ex_s) = Some ex_s) /\
  (rs_res (ref_run ex_movedir_onto_file ex_s) = RFail [DirectoryExpected; DirectoryExists] /\
   merge_conflict ex_movedir_onto_file ex_s = false /\
   rs_tree (ref_run ex_movedir_onto_file ex_s) = Some ex_s) /\
  (rs_res (ref_run ex_makedirs_below_file ex_s)
   = RFail [DirectoryExpected; ResourceNotFound; DirectoryExists] /\
   merge_conflict ex_makedirs_below_file ex_s = false /\
   rs_tree (ref_run ex_makedirs_below_file ex_s) = Some ex_s) /\
  (merge_conflict ex_movedir_conflict ex_s = true /\
   ref_run ex_movedir_conflict ex_s = {| rs_tree := None; rs_res := RFail conflict_classes |}).
Proof. vm_compute. repeat split. Qed.

(* ref_any_iff_degenerate / walk_pre_not_degenerate: RAny does occur outside walk_pre *)
Example ref_any_iff_degenerate_ex :
  degenerate ex_movedir_degenerate ex_s = true /\
  walk_pre ex_movedir_degenerate ex_s = false /\
  ref_run ex_movedir_degenerate ex_s = {| rs_tree := None; rs_res := RAny |} /\
  snd (mem_run ex_movedir_degenerate ex_s) = Ok VUnit.
Proof. vm_compute. repeat split. Qed.

(* makedirs_failed_is_noop: both failure causes *)
Example makedirs_failed_is_noop_ex :
  (rpath (lit "/g/x/y") = inl [lit "g"; lit "x"; lit "y"] /\
   mem_run (OMakedirs (lit "/g/x/y") true) ex_s = (ex_s, Err DirectoryExpected) /\
   prefix_is_file ex_s [] [lit "g"; lit "x"; lit "y"] = true) /\
  (rpath (lit "/a/d") = inl [lit "a"; lit "d"] /\
   mem_run (OMakedirs (lit "/a/d") false) ex_s = (ex_s, Err DirectoryExists) /\
   prefix_is_file ex_s [] [lit "a"; lit "d"] = false /\
   status_of ex_s [lit "a"; lit "d"] = IsDir).
Proof. vm_compute. repeat split. Qed.

(* the named argument checks on ex_s *)
Example argument_checks_ex :
  rejects (ref_run (OCopydir (lit "/a") (lit "/a/d/x") true false) ex_s) ex_s IllegalDestination /\
  rejects (ref_run (OMovedir (lit "/a/f") (lit "/c") true false) ex_s) ex_s DirectoryExpected /\
  rejects (ref_run (OMovedir (lit "/a") (lit "/c") false false) ex_s) ex_s ResourceNotFound /\
  rejects (ref_run (OMovedir (lit "/a") (lit "/q/c") true false) ex_s) ex_s ResourceNotFound /\
  rejects (ref_run (OCopydir (lit "/a") (lit "/g/c") true false) ex_s) ex_s DirectoryExpected /\
  rejects (ref_run (OCopydir (lit "/a/../..") (lit "/c") true false) ex_s) ex_s IllegalBackReference.
Proof.
  repeat (match goal with |- rejects _ _ _ /\ _ => split end);
    (split; [vm_compute; reflexivity|]); vm_compute;
    eexists; (split; [reflexivity|]); simpl; auto.
Qed.
