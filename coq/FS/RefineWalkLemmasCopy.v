(* The two passes of copy_dir on the MemoryFS model, as iterations over the visiting
   order of the walker: creation of the directories, then copy of the files. *)
From Coq Require Import List NArith ZArith Bool Arith Lia.
From PyFS Require Import Base.PyStr Base.Outcome Path.PathModel Path.PathSpec Path.PathProofs
     FS.Tree FS.Monad FS.Mode FS.Base FS.Mem FS.Ops FS.Ref FS.Agree FS.Wf
     FS.TreeLemmas FS.RefineLemmas FS.RefineProofs FS.Props FS.PropsProofs
     FS.RefineWalkLemmasEq FS.RefineWalkLemmasMk FS.RefineWalkLemmasBfs FS.RefineWalkLemmasMerge.
Import ListNotations.

(* ------------------------------------------------------------------ *)
(* shallow content                                                     *)
(* ------------------------------------------------------------------ *)
Lemma shl_file t p d m : shl t p = Some (SF d m) <-> lookup t p = Some (File d m).
Proof.
  unfold shl. destruct (lookup t p) as [[|]|]; simpl; split; intro H; try discriminate;
    inversion H; reflexivity.
Qed.

Lemma shl_dir t p m : shl t p = Some (SD m) <-> exists e, lookup t p = Some (Dir e m).
Proof.
  unfold shl. destruct (lookup t p) as [[|e m0]|]; simpl; split; intro H; try discriminate.
  - destruct H as [e H]. discriminate.
  - inversion H; subst. eauto.
  - destruct H as [e' H]. inversion H; reflexivity.
  - destruct H as [e' H]. discriminate.
Qed.

Lemma shl_none t p : shl t p = None <-> lookup t p = None.
Proof. unfold shl. destruct (lookup t p); simpl; split; congruence. Qed.

Lemma isD_lookup t p : isD t p <-> exists e m, lookup t p = Some (Dir e m).
Proof.
  split.
  - intros [m H]. apply shl_dir in H as [e H]. eauto.
  - intros (e & m & H). exists m. apply shl_dir. eauto.
Qed.

Lemma list_prefix_app b : forall x y, list_prefix (b ++ x) (b ++ y) = list_prefix x y.
Proof. induction b as [|c b IH]; intros x y; simpl; [reflexivity|]. rewrite str_eqb_refl. apply IH. Qed.

Lemma list_prefix_ex a : forall b, list_prefix a b = true <-> exists r, b = a ++ r.
Proof.
  induction a as [|x a IH]; intros b; simpl.
  - split; [intros _; now exists b|reflexivity].
  - destruct b as [|y b]; [split; [discriminate|intros [r H]; discriminate]|].
    split.
    + intro H. apply andb_true_iff in H as [H1 H2]. apply str_eqb_eq in H1; subst.
      apply IH in H2 as [r ->]. now exists r.
    + intros [r H]. inversion H; subst. rewrite str_eqb_refl. simpl. apply IH. now exists r.
Qed.

Lemma path_eqb_app b x y : path_eqb (b ++ x) (b ++ y) = path_eqb x y.
Proof. induction b as [|c b IH]; simpl; [reflexivity|]. rewrite str_eqb_refl. apply IH. Qed.

Lemma vp_app p q : vp (p ++ q) <-> vp p /\ vp q.
Proof.
  unfold vp, nonul. rewrite !Forall_app. tauto.
Qed.

(* shallow content after writing one node at a place that holds no directory *)
Lemma shl_put_leaf t d c n e m q :
  lookup t d = Some (Dir e m) ->
  (lookup t (d ++ [c]) = None \/ exists d0 m0, lookup t (d ++ [c]) = Some (File d0 m0)) ->
  (forall r, r <> [] -> shl n r = None) ->
  shl (put t (d ++ [c]) n) q = if path_eqb q (d ++ [c]) then Some (sh n) else shl t q.
Proof.
  intros L Hp Hn. rewrite (shl_put d t c n q e m L).
  destruct (list_prefix (d ++ [c]) q) eqn:Pq.
  - apply list_prefix_ex in Pq as [r ->]. rewrite skipn_len_app.
    destruct r as [|r0 r].
    + rewrite app_nil_r, path_eqb_refl. reflexivity.
    + rewrite Hn by discriminate.
      rewrite path_eqb_neq.
      * symmetry. apply shl_none. rewrite lookup_app.
        destruct Hp as [Hp|(d0 & m0 & Hp)]; rewrite Hp; reflexivity.
      * intro E. rewrite <- (app_nil_r (d ++ [c])) in E at 2. apply app_inv_head in E. discriminate.
  - rewrite path_eqb_neq; [reflexivity|].
    intro E. subst q. clear -Pq. induction (d ++ [c]); simpl in *; [discriminate|].
    rewrite str_eqb_refl in Pq. auto.
Qed.

Lemma copy_step t cs cd o pt :
  wf t -> vp cs -> vp cd ->
  exists t1 out,
    mem_copy (to_path true cs) (to_path true cd) o pt t = (t1, out) /\
    rs_tree (ref_copy t cs cd o pt) = Some t1 /\
    res_agree (omap (fun _ => VUnit) out) (rs_res (ref_copy t cs cd o pt)) = true /\
    wf t1.
Proof.
  intros W V1 V2.
  destruct (sstep_copy (to_path true cs) (to_path true cd) o pt t W) as [[A T] Wf].
  cbn [mem_run ref_run] in *. unfold with2 in *.
  rewrite (rpath_nf _ V1), (rpath_nf _ V2) in *.
  unfold vmap, mbind, ret in *.
  destruct (mem_copy (to_path true cs) (to_path true cd) o pt t) as [t1 out].
  exists t1, out. destruct out; cbn [fst snd omap] in *; auto.
Qed.

Lemma cfi_eq cs cd pt t : vp cs -> vp cd -> path_eqb cs cd = false ->
  copy_file_internal mem_low mem_copy (to_path true cs) (to_path true cd) pt t =
  mem_copy (to_path true cs) (to_path true cd) true pt t.
Proof.
  intros V1 V2 E. unfold copy_file_internal. cbn [l_validatepath mem_low]. mstep.
  rewrite (validate_inl _ _ t (rpath_nf _ V1)). mstep.
  rewrite (validate_inl _ _ t (rpath_nf _ V2)). mstep.
  destruct V1 as [G1 _]. destruct V2 as [G2 _].
  rewrite (to_path_eqb cs cd G1 G2), E. reflexivity.
Qed.

Section Copy.
  Variables (a b : list str) (pt : bool) (S0 : node).
  Hypothesis Va : vp a.
  Hypothesis Vb : vp b.
  Hypothesis Dab : diverge a b.

  Notation P := (P a S0).
  Notation sound := (sound_list S0).

  Lemma a_ne : a <> [].
  Proof. destruct Dab as (u & c1 & c2 & p' & q' & _ & -> & _). destruct u; discriminate. Qed.
  Lemma b_ne : b <> [].
  Proof. destruct Dab as (u & c1 & c2 & p' & q' & _ & _ & ->). destruct u; discriminate. Qed.

  Lemma P_vp_x t x n : P t -> lookup S0 x = Some n -> vp x.
  Proof. intros HP L. apply (P_vp a S0 t x n HP) in L. apply vp_app in L. tauto. Qed.

  Lemma P_put t p n' :
    P t -> p <> [] -> vp p -> diverge p a -> wf_node n' -> nnode n' -> P (put t p n').
  Proof.
    intros (W & N & L) Np [Gp Nlp] D Wn Nn. split; [|split].
    - apply wf_put_ne; auto.
    - apply nn_put; auto.
    - rewrite lookup_put_diverge; auto.
  Qed.

  Lemma diverge_bx x : diverge (b ++ x) a.
  Proof.
    pose proof (diverge_app b a x [] (diverge_sym _ _ Dab)) as H. now rewrite app_nil_r in H.
  Qed.

  Lemma neq_ax_bx x : path_eqb (a ++ x) (b ++ x) = false.
  Proof. apply path_eqb_neq. apply diverge_neq. apply diverge_app. exact Dab. Qed.

  (* ---------------------------------------------------------------- *)
  (* pass 1: directories                                               *)
  (* ---------------------------------------------------------------- *)
  Definition act1 (x : list str) (n : node) : MM unit :=
    if is_dir n then mem_makedir (to_path true (b ++ x)) true else ret tt.

  Definition visit1 (dir_path : str) (i : info) : MM unit :=
    if i_isdir i then
      mbind (lift (frombase (to_path true a) (combine dir_path (i_name i)))) (fun rel =>
      mem_makedir (combine (to_path true b) rel) true)
    else ret tt.

  Lemma visit1_act r k n t : vp (a ++ r ++ [k]) ->
    visit1 (to_path true (a ++ r)) (to_info k n) t = act1 (r ++ [k]) n t.
  Proof.
    intro V. unfold visit1, act1. cbn [i_isdir i_name to_info].
    destruct (is_dir n); [|reflexivity].
    apply vp_app in V as [[Ga _] V2]. apply vp_app in V2 as [[Gr _] [Gk _]].
    assert (Gk1 : good k) by (inversion Gk; assumption).
    assert (Gar : Forall good (a ++ r)) by (apply Forall_app; now split).
    assert (Grk : Forall good (r ++ [k])) by (apply Forall_app; now split).
    rewrite (combine_abs (a ++ r) k Gar Gk1).
    rewrite <- app_assoc.
    rewrite (frombase_rel a (r ++ [k]) Ga Grk a_ne (snoc_ne' r k)).
    unfold mbind, lift.
    pose proof Vb as [Gb _].
    rewrite (combine_rel b (r ++ [k]) Gb Grk b_ne (snoc_ne' r k)). reflexivity.
  Qed.

  Lemma act1_eq x' k n t :
    P t -> lookup S0 (x' ++ [k]) = Some n -> isD t (b ++ x') ->
    act1 (x' ++ [k]) n t =
    if is_dir n then
      match lookup t ((b ++ x') ++ [k]) with
      | None => (put t ((b ++ x') ++ [k]) empty_dir, Ok tt)
      | Some n2 => if is_dir n2 then (t, Ok tt) else (t, Err DirectoryExpected)
      end
    else (t, Ok tt).
  Proof.
    intros HP L HD. unfold act1. destruct (is_dir n); [|reflexivity].
    assert (V : vp ((b ++ x') ++ [k])).
    { rewrite <- app_assoc. apply vp_app. split; [exact Vb|]. eapply P_vp_x; eauto. }
    rewrite app_assoc.
    apply isD_lookup in HD as (e & m & Lb).
    rewrite (mem_makedir_snoc _ _ _ true t (rpath_nf _ V)), Lb.
    rewrite lookup_snoc, Lb.
    destruct (assoc k e) as [n2|] eqn:A.
    - rewrite (mem_opendir_spec _ _ t (rpath_nf _ V)). rewrite lookup_snoc, Lb, A.
      destruct (is_dir n2); reflexivity.
    - rewrite (mem_opendir_spec _ _ _ (rpath_nf _ V)).
      rewrite (lookup_put_same _ _ _ _ _ _ Lb). reflexivity.
  Qed.

  Lemma P_put_bx t x n' n :
    P t -> lookup S0 x = Some n -> x <> [] -> wf_node n' -> nnode n' -> P (put t (b ++ x) n').
  Proof.
    intros HP L Nx Wn Nn. apply P_put; auto.
    - intro E. apply app_eq_nil in E as [E _]. exact (b_ne E).
    - apply vp_app. split; [exact Vb|]. eapply P_vp_x; eauto.
    - apply diverge_bx.
  Qed.

  Lemma act1_P x n t t' u : P t -> lookup S0 x = Some n -> x <> [] ->
    act1 x n t = (t', Ok u) -> P t'.
  Proof.
    intros HP L Nx H.
    destruct (list_snoc_case x) as [->|[x' [k ->]]]; [congruence|].
    unfold act1 in H. destruct (is_dir n) eqn:Dn; [|inversion H; subst; exact HP].
    assert (V : vp ((b ++ x') ++ [k])).
    { rewrite <- app_assoc. apply vp_app. split; [exact Vb|]. eapply P_vp_x; eauto. }
    rewrite app_assoc in H.
    rewrite (mem_makedir_snoc _ _ _ true t (rpath_nf _ V)) in H.
    destruct (lookup t (b ++ x')) as [[|e m]|] eqn:Lb; try discriminate.
    destruct (assoc k e) as [n2|] eqn:A.
    - rewrite (mem_opendir_spec _ _ t (rpath_nf _ V)) in H. inversion H; subst. exact HP.
    - rewrite (mem_opendir_spec _ _ _ (rpath_nf _ V)) in H. inversion H; subst.
      rewrite <- app_assoc. eapply P_put_bx; eauto using wf_empty_dir. exact nn_empty.
  Qed.

  Definition inl1 (l : list (list str * node)) (q : list str) : bool :=
    existsb (fun xn => is_dir (snd xn) && path_eqb q (b ++ fst xn)) l.

  Definition post1 (l : list (list str * node)) (t t' : node) : Prop :=
    forall q, shl t' q =
              match shl t q with
              | Some v => Some v
              | None => if inl1 l q then Some (SD None) else None
              end.

  Definition ord (l : list (list str * node)) (t : node) : Prop :=
    forall l1 x k n l2, l = l1 ++ (x ++ [k], n) :: l2 ->
                        isD t (b ++ x) \/ exists e m, In (x, Dir e m) l1.

  Lemma post1_isD l t t' p : post1 l t t' -> isD t p -> isD t' p.
  Proof. intros H [m Hm]. exists m. rewrite H, Hm. reflexivity. Qed.

  Lemma phase1 l : forall t,
    P t -> sound l -> ord l t ->
    (exists t', mfor l (act' act1) t = (t', Ok tt) /\ P t' /\ post1 l t t' /\
                (forall x e m, In (x, Dir e m) l -> ~ isF t (b ++ x)))
    \/ (exists t', mfor l (act' act1) t = (t', Err DirectoryExpected) /\ P t' /\
                   exists x e m, In (x, Dir e m) l /\ isF t (b ++ x)).
  Proof.
    induction l as [|[x n] l IH]; intros t HP Snd Ho.
    - left. exists t. split; [reflexivity|]. split; [exact HP|]. split.
      + intro q. simpl. destruct (shl t q); reflexivity.
      + intros x e m [].
    - inversion Snd as [|? ? [S1 S2] S3]; subst. cbn [fst snd] in S1, S2.
      destruct (list_snoc_case x) as [->|[x' [k ->]]]; [congruence|].
      assert (HD : isD t (b ++ x')).
      { destruct (Ho [] x' k n l eq_refl) as [H|(e & m & [])]. exact H. }
      assert (Hmf : mfor ((x' ++ [k], n) :: l) (act' act1) t =
                    match act1 (x' ++ [k]) n t with
                    | (s', Ok _) => mfor l (act' act1) s'
                    | (s', Err e) => (s', Err e)
                    | (s', Crash c) => (s', Crash c)
                    end) by reflexivity.
      rewrite Hmf. clear Hmf.
      rewrite (act1_eq x' k n t HP S1 HD).
      (* the tail is in order for any state that keeps the directories of t and
         has b ++ x as a directory when n is one *)
      assert (Htail : forall t1, (forall p, isD t p -> isD t1 p) ->
                                 (is_dir n = true -> isD t1 (b ++ x' ++ [k])) -> ord l t1).
      { intros t1 Hm Hn l1 y k' n' l2 E.
        destruct (Ho ((x' ++ [k], n) :: l1) y k' n' l2) as [H|(e & m & [H|H])].
        - rewrite E. reflexivity.
        - left. auto.
        - inversion H; subst. left. apply Hn. reflexivity.
        - right. eauto. }
      destruct (is_dir n) eqn:Dn.
      + destruct (lookup t ((b ++ x') ++ [k])) as [n2|] eqn:Lk.
        * destruct (is_dir n2) eqn:Dn2.
          -- (* already a directory *)
             assert (HDk : isD t (b ++ x' ++ [k])).
             { rewrite app_assoc. apply isD_lookup. destruct n2; [discriminate|]. eauto. }
             destruct (IH t HP S3 (Htail t (fun p H => H) (fun _ => HDk)))
               as [(t' & H1 & H2 & H3 & H4)|(t' & H1 & H2 & H3)].
             ++ left. exists t'. split; [exact H1|]. split; [exact H2|]. split.
                ** intro q. rewrite H3. destruct (shl t q) eqn:Sq; [reflexivity|].
                   cbn [inl1 existsb fst snd]. rewrite Dn. cbn [andb].
                   destruct (path_eqb q (b ++ x' ++ [k])) eqn:Eq; [|reflexivity].
                   apply path_eqb_eq in Eq. subst q. destruct HDk as [m Hm]. congruence.
                ** intros y e m [H|H]; [|eauto].
                   inversion H; subst. intros (d0 & m0 & HF). destruct HDk as [m1 Hm]. congruence.
             ++ right. exists t'. split; [exact H1|]. split; [exact H2|].
                destruct H3 as (y & e & m & Hy & HF). exists y, e, m. split; [now right|exact HF].
          -- (* a file is in the way *)
             right. exists t. split; [reflexivity|]. split; [exact HP|].
             destruct n as [|e m]; [discriminate|]. exists (x' ++ [k]), e, m.
             split; [now left|]. rewrite app_assoc. destruct n2 as [d2 m2|]; [|discriminate].
             exists d2, m2. now apply shl_file.
        * (* created *)
          set (t1 := put t ((b ++ x') ++ [k]) empty_dir).
          apply isD_lookup in HD as (eb & mb & Lb).
          assert (Hsh : forall q, shl t1 q =
                                  match shl t q with
                                  | Some v => Some v
                                  | None => if path_eqb q (b ++ x' ++ [k]) then Some (SD None) else None
                                  end).
          { intro q. unfold t1.
            rewrite (shl_put_leaf t (b ++ x') k empty_dir eb mb q Lb (or_introl Lk)).
            - rewrite <- app_assoc. destruct (path_eqb q (b ++ x' ++ [k])) eqn:Eq.
              + apply path_eqb_eq in Eq. subst q. rewrite app_assoc.
                apply shl_none in Lk. rewrite Lk. reflexivity.
              + destruct (shl t q); reflexivity.
            - intros r Hr. destruct r; [congruence|reflexivity]. }
          assert (HP1 : P t1).
          { unfold t1. rewrite <- app_assoc. eapply P_put_bx; eauto using wf_empty_dir, snoc_ne'.
            exact nn_empty. }
          assert (Hm : forall p, isD t p -> isD t1 p).
          { intros p [m Hp]. exists m. rewrite Hsh, Hp. reflexivity. }
          assert (HDk : isD t1 (b ++ x' ++ [k])).
          { exists None. rewrite Hsh. rewrite app_assoc. apply shl_none in Lk. rewrite Lk.
            rewrite <- app_assoc, path_eqb_refl. reflexivity. }
          destruct (IH t1 HP1 S3 (Htail t1 Hm (fun _ => HDk)))
            as [(t' & H1 & H2 & H3 & H4)|(t' & H1 & H2 & H3)].
          -- left. exists t'. split; [exact H1|]. split; [exact H2|]. split.
             ++ intro q. rewrite H3, Hsh. destruct (shl t q) eqn:Sq; [reflexivity|].
                cbn [inl1 existsb fst snd]. rewrite Dn. cbn [andb].
                destruct (path_eqb q (b ++ x' ++ [k])); reflexivity.
             ++ intros y e m [H|H].
                ** inversion H; subst. intros (d0 & m0 & HF). rewrite app_assoc in HF.
                   apply shl_none in Lk. congruence.
                ** intros (d0 & m0 & HF). apply (H4 y e m H). exists d0, m0.
                   rewrite Hsh, HF. reflexivity.
          -- right. exists t'. split; [exact H1|]. split; [exact H2|].
             destruct H3 as (y & e & m & Hy & (d0 & m0 & HF)). exists y, e, m.
             split; [now right|]. exists d0, m0. rewrite Hsh in HF.
             destruct (shl t (b ++ y)) as [v|]; [exact HF|].
             destruct (path_eqb (b ++ y) (b ++ x' ++ [k])); discriminate.
      + (* a file entry: nothing to do in this pass *)
        destruct (IH t HP S3 (Htail t (fun p H => H) (fun H => ltac:(discriminate))))
          as [(t' & H1 & H2 & H3 & H4)|(t' & H1 & H2 & H3)].
        * left. exists t'. split; [exact H1|]. split; [exact H2|]. split.
          -- intro q. rewrite H3. cbn [inl1 existsb fst snd]. rewrite Dn. reflexivity.
          -- intros y e m [H|H]; [|eauto]. inversion H; subst. discriminate.
        * right. exists t'. split; [exact H1|]. split; [exact H2|].
          destruct H3 as (y & e & m & Hy & HF). exists y, e, m. split; [now right|exact HF].
  Qed.
  (* ---------------------------------------------------------------- *)
  (* pass 2: files                                                     *)
  (* ---------------------------------------------------------------- *)
  Definition act2 (x : list str) (n : node) : MM unit :=
    if is_dir n then ret tt
    else copy_file_internal mem_low mem_copy (to_path true (a ++ x)) (to_path true (b ++ x)) pt.

  Definition visit2 (dir_path : str) (i : info) : MM unit :=
    if i_isdir i then ret tt
    else
      let fp := combine dir_path (i_name i) in
      mbind (lift (frombase (to_path true a) fp)) (fun rel =>
      copy_file_internal mem_low mem_copy fp (combine (to_path true b) rel) pt).

  Lemma visit2_act r k n t : vp (a ++ r ++ [k]) ->
    visit2 (to_path true (a ++ r)) (to_info k n) t = act2 (r ++ [k]) n t.
  Proof.
    intro V. unfold visit2, act2. cbn [i_isdir i_name to_info].
    destruct (is_dir n); [reflexivity|]. cbv zeta.
    apply vp_app in V as [[Ga _] V2]. apply vp_app in V2 as [[Gr _] [Gk _]].
    assert (Gk1 : good k) by (inversion Gk; assumption).
    assert (Gar : Forall good (a ++ r)) by (apply Forall_app; now split).
    assert (Grk : Forall good (r ++ [k])) by (apply Forall_app; now split).
    rewrite (combine_abs (a ++ r) k Gar Gk1).
    rewrite <- app_assoc.
    rewrite (frombase_rel a (r ++ [k]) Ga Grk a_ne (snoc_ne' r k)).
    unfold mbind, lift.
    pose proof Vb as [Gb _].
    rewrite (combine_rel b (r ++ [k]) Gb Grk b_ne (snoc_ne' r k)). reflexivity.
  Qed.

  Definition dmt_of (t : node) (q : list str) (d : bytes) (m : option Z) : option Z :=
    if pt then m else match d, lookup t q with [], Some (File _ m') => m' | _, _ => None end.

  Definition fileval (t : node) (q : list str) (d : bytes) (m : option Z) : shv :=
    SF d (if pt then m else match d, shl t q with [], Some (SF _ om) => om | _, _ => None end).

  Lemma fileval_dmt t q d m : sh (File d (dmt_of t q d m)) = fileval t q d m.
  Proof.
    unfold fileval, dmt_of, shl. cbn [sh]. destruct pt; [reflexivity|].
    destruct d; [|reflexivity]. destruct (lookup t q) as [[|]|]; reflexivity.
  Qed.

  Lemma act2_eq x' k d m t :
    P t -> lookup S0 (x' ++ [k]) = Some (File d m) -> isD t (b ++ x') ->
    act2 (x' ++ [k]) (File d m) t =
    match lookup t ((b ++ x') ++ [k]) with
    | Some (Dir _ _) => (t, Err FileExpected)
    | _ => (put t ((b ++ x') ++ [k]) (File d (dmt_of t ((b ++ x') ++ [k]) d m)), Ok tt)
    end.
  Proof.
    intros HP L HD. unfold act2. cbn [is_dir].
    assert (Vx : vp (x' ++ [k])) by (eapply P_vp_x; eauto).
    assert (V1 : vp (a ++ x' ++ [k])) by (apply vp_app; split; [exact Va|exact Vx]).
    assert (V2 : vp (b ++ x' ++ [k])) by (apply vp_app; split; [exact Vb|exact Vx]).
    rewrite (cfi_eq _ _ pt t V1 V2 (neq_ax_bx _)).
    destruct HP as (W & N & La).
    destruct (copy_step t _ _ true pt W V1 V2) as (t1 & out & E & T & A & W1).
    rewrite E. clear E.
    assert (Ls : lookup t (a ++ x' ++ [k]) = Some (File d m)) by (rewrite lookup_app, La; exact L).
    assert (Ss : status_of t (a ++ x' ++ [k]) = IsFile) by (rewrite (status_lookup_some _ _ _ Ls); reflexivity).
    apply isD_lookup in HD as (eb & mb & Lb).
    assert (Sb : status_of t (b ++ x') = IsDir) by (rewrite (status_lookup_some _ _ _ Lb); reflexivity).
    unfold ref_copy in T, A. rewrite (neq_ax_bx (x' ++ [k])) in T, A.
    rewrite (app_assoc b x' [k]) in T, A.
    rewrite transfer_errors_snoc, Ss, Sb in T, A.
    destruct (lookup t ((b ++ x') ++ [k])) as [[d2 m2|e2 m2]|] eqn:Lk.
    - rewrite (status_lookup_some _ _ _ Lk) in T, A. cbn [is_dir exists_st andb negb app parent_errors] in T, A.
      rewrite Ls in T, A. cbn [rs_tree rs_res] in T, A. inversion T; subst t1.
      destruct out as [[]|e|c]; try discriminate A; try (destruct c; discriminate A). unfold dmt_of. rewrite Lk. reflexivity.
    - rewrite (status_lookup_some _ _ _ Lk) in T, A. cbn [is_dir exists_st andb negb app parent_errors] in T, A.
      cbn [rs_tree rs_res fail same] in T, A. inversion T; subst t1.
      destruct out as [[]|e|c]; try discriminate A; try (destruct c; discriminate A). cbn [omap res_agree existsb] in A.
      destruct e; try discriminate A. reflexivity.
    - destruct (status_lookup_none _ _ Lk) as [Sk|Sk]; rewrite Sk in T, A;
        cbn [is_dir exists_st andb negb app parent_errors] in T, A;
        rewrite Ls in T, A; cbn [rs_tree rs_res] in T, A; inversion T; subst t1;
        (destruct out as [[]|e|c]; try discriminate A; try (destruct c; discriminate A)); unfold dmt_of; rewrite Lk; reflexivity.
  Qed.

  Lemma act2_P x n t t' u : P t -> lookup S0 x = Some n -> x <> [] ->
    act2 x n t = (t', Ok u) -> P t'.
  Proof.
    intros HP L Nx H. unfold act2 in H.
    destruct (is_dir n) eqn:Dn; [inversion H; subst; exact HP|].
    assert (Vx : vp x) by (eapply P_vp_x; eauto).
    assert (V1 : vp (a ++ x)) by (apply vp_app; split; [exact Va|exact Vx]).
    assert (V2 : vp (b ++ x)) by (apply vp_app; split; [exact Vb|exact Vx]).
    rewrite (cfi_eq _ _ pt t V1 V2 (neq_ax_bx _)) in H.
    pose proof HP as (W & N & La).
    destruct (copy_step t _ _ true pt W V1 V2) as (t1 & out & E & T & A & W1).
    rewrite E in H. inversion H; subst t1 out. clear H E.
    unfold ref_copy in T.
    destruct (transfer_errors t (a ++ x) (b ++ x) true ++
              (if path_eqb (a ++ x) (b ++ x) then [IllegalDestination] else [])).
    - destruct (lookup t (a ++ x)) as [[d m|]|]; cbn [rs_tree fail same] in T; inversion T; subst; auto.
      eapply P_put_bx; eauto. exact I. exact I.
    - cbn [rs_tree fail same] in T. inversion T; subst; auto.
  Qed.

  Definition inl2 (l : list (list str * node)) (q : list str) : bool :=
    existsb (fun xn => negb (is_dir (snd xn)) && path_eqb q (b ++ fst xn)) l.

  Lemma inl2_cons x n l q :
    inl2 ((x, n) :: l) q = (negb (is_dir n) && path_eqb q (b ++ x)) || inl2 l q.
  Proof. reflexivity. Qed.

  Definition post2 (l : list (list str * node)) (t t' : node) : Prop :=
    forall q, shl t' q =
              if inl2 l q then
                match lookup S0 (skipn (length b) q) with
                | Some (File d m) => Some (fileval t q d m)
                | _ => shl t q
                end
              else shl t q.

  Definition dirs_ready (t : node) : Prop :=
    forall x e m, lookup S0 x = Some (Dir e m) -> isD t (b ++ x).

  Lemma fileval_ext t t1 q d m : shl t1 q = shl t q -> fileval t1 q d m = fileval t q d m.
  Proof. intro H. unfold fileval. now rewrite H. Qed.

  Lemma fileval_idem t t1 q d m :
    shl t1 q = Some (fileval t q d m) -> fileval t1 q d m = fileval t q d m.
  Proof.
    intro H. unfold fileval in *. rewrite H. destruct pt; [reflexivity|].
    destruct d; reflexivity.
  Qed.

  Lemma phase2 l : forall t,
    P t -> sound l -> dirs_ready t ->
    (exists t', mfor l (act' act2) t = (t', Ok tt) /\ P t' /\ post2 l t t' /\
                (forall x d m, In (x, File d m) l -> ~ isD t (b ++ x)))
    \/ (exists t', mfor l (act' act2) t = (t', Err FileExpected) /\ P t' /\
                   exists x d m, In (x, File d m) l /\ isD t (b ++ x)).
  Proof.
    induction l as [|[x n] l IH]; intros t HP Snd Hr.
    - left. exists t. split; [reflexivity|]. split; [exact HP|]. split.
      + intro q. reflexivity.
      + intros x d m [].
    - inversion Snd as [|? ? [S1 S2] S3]; subst. cbn [fst snd] in S1, S2.
      destruct (list_snoc_case x) as [->|[x' [k ->]]]; [congruence|].
      assert (Hmf : mfor ((x' ++ [k], n) :: l) (act' act2) t =
                    match act2 (x' ++ [k]) n t with
                    | (s', Ok _) => mfor l (act' act2) s'
                    | (s', Err e) => (s', Err e)
                    | (s', Crash c) => (s', Crash c)
                    end) by reflexivity.
      rewrite Hmf. clear Hmf.
      destruct n as [d m|e m].
      + (* a file *)
        assert (HD : isD t (b ++ x')).
        { destruct (lookup_dir_prefix S0 x' k [] _ S1) as (e & m' & Lx). eapply Hr; eauto. }
        rewrite (act2_eq x' k d m t HP S1 HD).
        assert (Hcase : (exists e2 m2, lookup t ((b ++ x') ++ [k]) = Some (Dir e2 m2)) \/
                        (lookup t ((b ++ x') ++ [k]) = None \/
                         exists d0 m0, lookup t ((b ++ x') ++ [k]) = Some (File d0 m0))).
        { destruct (lookup t ((b ++ x') ++ [k])) as [[|]|]; eauto. }
        destruct Hcase as [(e2 & m2 & Lk)|Hleaf].
        * rewrite Lk. right. exists t. split; [reflexivity|]. split; [exact HP|].
          exists (x' ++ [k]), d, m. split; [now left|]. rewrite app_assoc. apply isD_lookup. eauto.
        * set (dm := dmt_of t ((b ++ x') ++ [k]) d m).
          set (t1 := put t ((b ++ x') ++ [k]) (File d dm)).
          assert (Hres : match lookup t ((b ++ x') ++ [k]) with
                         | Some (Dir _ _) => (t, Err FileExpected)
                         | _ => (t1, @Ok unit tt)
                         end = (t1, Ok tt)).
          { destruct Hleaf as [Lk|(d0 & m0 & Lk)]; rewrite Lk; reflexivity. }
          fold dm. fold t1. rewrite Hres. clear Hres.
          pose proof HD as HD'. apply isD_lookup in HD' as (eb & mb & Lb).
          assert (Hsh : forall q, shl t1 q =
                                  if path_eqb q (b ++ x' ++ [k])
                                  then Some (fileval t q d m) else shl t q).
          { intro q. unfold t1.
            rewrite (shl_put_leaf t (b ++ x') k (File d dm) eb mb q Lb Hleaf).
            - rewrite <- app_assoc. destruct (path_eqb q (b ++ x' ++ [k])) eqn:Eq; [|reflexivity].
              apply path_eqb_eq in Eq. subst q. unfold dm. rewrite <- fileval_dmt.
              rewrite app_assoc. reflexivity.
            - intros r Nr. destruct r; [congruence|reflexivity]. }
          assert (HP1 : P t1).
          { unfold t1. rewrite <- app_assoc. eapply P_put_bx; eauto using snoc_ne'; exact I. }
          assert (Hr1 : dirs_ready t1).
          { intros y e m' Ly. destruct (Hr y e m' Ly) as [my Hy]. exists my.
            rewrite Hsh. destruct (path_eqb (b ++ y) (b ++ x' ++ [k])) eqn:Eq; [|exact Hy].
            rewrite path_eqb_app in Eq. apply path_eqb_eq in Eq. subst y. congruence. }
          destruct (IH t1 HP1 S3 Hr1) as [(t' & H1 & H2 & H3 & H4)|(t' & H1 & H2 & H3)].
          -- left. exists t'. split; [exact H1|]. split; [exact H2|]. split.
             ++ intro q. rewrite H3. rewrite inl2_cons. cbn [is_dir negb andb].
                destruct (path_eqb q (b ++ x' ++ [k])) eqn:Eq.
                ** apply path_eqb_eq in Eq. subst q. cbn [orb].
                   rewrite skipn_len_app, S1.
                   assert (E1 : shl t1 (b ++ x' ++ [k]) = Some (fileval t (b ++ x' ++ [k]) d m))
                     by (rewrite Hsh, path_eqb_refl; reflexivity).
                   destruct (inl2 l (b ++ x' ++ [k])).
                   --- now rewrite (fileval_idem t t1 _ d m E1).
                   --- exact E1.
                ** cbn [orb].
                   assert (E1 : shl t1 q = shl t q) by (rewrite Hsh, Eq; reflexivity).
                   destruct (inl2 l q); [|exact E1].
                   destruct (lookup S0 (skipn (length b) q)) as [[d' m'|]|]; auto.
                   now rewrite (fileval_ext t t1 q d' m' E1).
             ++ intros y d' m' [H|H] HDy.
                ** inversion H; subst. rewrite app_assoc in HDy. apply isD_lookup in HDy as (e3 & m3 & L3).
                   destruct Hleaf as [Lk|(d0 & m0 & Lk)]; congruence.
                ** apply (H4 y d' m' H). destruct HDy as [my Hy]. exists my. rewrite Hsh.
                   destruct (path_eqb (b ++ y) (b ++ x' ++ [k])) eqn:Eq; [|exact Hy].
                   apply path_eqb_eq in Eq. rewrite Eq in Hy. rewrite app_assoc in Hy.
                   apply shl_dir in Hy as [e3 L3]. destruct Hleaf as [Lk|(d0 & m0 & Lk)]; congruence.
          -- right. exists t'. split; [exact H1|]. split; [exact H2|].
             destruct H3 as (y & d' & m' & Hy & [my HDy]). exists y, d', m'. split; [now right|].
             exists my. rewrite Hsh in HDy.
             destruct (path_eqb (b ++ y) (b ++ x' ++ [k])); [discriminate|exact HDy].
      + (* a directory entry: nothing to do in this pass *)
        unfold act2. cbn [is_dir]. unfold ret.
        destruct (IH t HP S3 Hr) as [(t' & H1 & H2 & H3 & H4)|(t' & H1 & H2 & H3)].
        * left. exists t'. split; [exact H1|]. split; [exact H2|]. split.
          -- intro q. rewrite H3. reflexivity.
          -- intros y d' m' [H|H]; [discriminate|eauto].
        * right. exists t'. split; [exact H1|]. split; [exact H2|].
          destruct H3 as (y & d' & m' & Hy & HF). exists y, d', m'. split; [now right|exact HF].
  Qed.
  (* ---------------------------------------------------------------- *)
  (* both passes                                                       *)
  (* ---------------------------------------------------------------- *)
  Definition complete (l : list (list str * node)) : Prop :=
    forall x n, x <> [] -> lookup S0 x = Some n -> In (x, n) l.

  Lemma inl1_true l q : sound l -> inl1 l q = true ->
    exists x e m, q = b ++ x /\ x <> [] /\ lookup S0 x = Some (Dir e m).
  Proof.
    intros Snd H. unfold inl1 in H. apply existsb_exists in H as ([x n] & Hi & H).
    cbn [fst snd] in H. apply andb_true_iff in H as [H1 H2]. apply path_eqb_eq in H2.
    unfold sound_list in Snd. rewrite Forall_forall in Snd. destruct (Snd _ Hi) as [S1 S2]. cbn [fst snd] in *.
    destruct n as [|e m]; [discriminate|]. exists x, e, m. auto.
  Qed.

  Lemma inl1_in l x e m : In (x, Dir e m) l -> inl1 l (b ++ x) = true.
  Proof.
    intro H. unfold inl1. apply existsb_exists. exists (x, Dir e m). split; [exact H|].
    cbn [fst snd is_dir andb]. apply path_eqb_refl.
  Qed.

  Lemma inl2_true l q : sound l -> inl2 l q = true ->
    exists x d m, q = b ++ x /\ x <> [] /\ lookup S0 x = Some (File d m).
  Proof.
    intros Snd H. unfold inl2 in H. apply existsb_exists in H as ([x n] & Hi & H).
    cbn [fst snd] in H. apply andb_true_iff in H as [H1 H2]. apply path_eqb_eq in H2.
    unfold sound_list in Snd. rewrite Forall_forall in Snd. destruct (Snd _ Hi) as [S1 S2]. cbn [fst snd] in *.
    destruct n as [d m|]; [|discriminate]. exists x, d, m. auto.
  Qed.

  Lemma inl2_in l x d m : In (x, File d m) l -> inl2 l (b ++ x) = true.
  Proof.
    intro H. unfold inl2. apply existsb_exists. exists (x, File d m). split; [exact H|].
    cbn [fst snd is_dir negb andb]. apply path_eqb_refl.
  Qed.

  Lemma shl_sub t D r : lookup t b = Some D -> shl D r = shl t (b ++ r).
  Proof. intro L. unfold shl. now rewrite lookup_app, L. Qed.

  Hypothesis S0dir : is_dir S0 = true.

  Lemma two_pass l1 l2 t D :
    P t -> lookup t b = Some D -> is_dir D = true ->
    sound l1 -> complete l1 -> ord l1 t -> sound l2 -> complete l2 ->
    (exists t1 t2,
        mfor l1 (act' act1) t = (t1, Ok tt) /\ mfor l2 (act' act2) t1 = (t2, Ok tt) /\
        P t1 /\ P t2 /\ (forall r, ~ confl D S0 r) /\
        (forall M' db cb eb mb, b = db ++ [cb] -> lookup t db = Some (Dir eb mb) ->
                                (forall r, shl M' r = mval pt D S0 r) -> ext_eq t2 (put t b M')))
    \/ (exists t1, mfor l1 (act' act1) t = (t1, Err DirectoryExpected) /\ P t1 /\
                   exists r, confl D S0 r)
    \/ (exists t1 t2,
           mfor l1 (act' act1) t = (t1, Ok tt) /\ P t1 /\
           mfor l2 (act' act2) t1 = (t2, Err FileExpected) /\ P t2 /\ exists r, confl D S0 r).
  Proof.
    intros HP Lb DD Snd1 Cm1 Ho Snd2 Cm2.
    assert (HDb : isD t b).
    { apply isD_lookup. destruct D; [discriminate|]. eauto. }
    destruct (phase1 l1 t HP Snd1 Ho) as [(t1 & E1 & HP1 & Po1 & Nc1)|(t1 & E1 & HP1 & Cf1)].
    2:{ right. left. exists t1. split; [exact E1|]. split; [exact HP1|].
        destruct Cf1 as (x & e & m & Hi & HF). exists x.
        unfold sound_list in Snd1. rewrite Forall_forall in Snd1. destruct (Snd1 _ Hi) as [S1 S2]. cbn [fst snd] in *.
        split; [exact S2|]. left. split; [eauto|].
        destruct HF as (d0 & m0 & HF). exists d0, m0. now rewrite (shl_sub t D x Lb). }
    assert (Hr1 : dirs_ready t1).
    { intros x e m Lx. destruct x as [|k x'].
      - rewrite app_nil_r. eapply post1_isD; eauto.
      - assert (Hi : In (k :: x', Dir e m) l1) by (apply Cm1; [discriminate|exact Lx]).
        pose proof (Po1 (b ++ k :: x')) as Hq. rewrite (inl1_in l1 _ e m Hi) in Hq.
        destruct (shl t (b ++ k :: x')) as [[d0 m0|m0]|] eqn:Sq.
        + exfalso. apply (Nc1 _ e m Hi). exists d0, m0. exact Sq.
        + exists m0. exact Hq.
        + exists None. exact Hq. }
    destruct (phase2 l2 t1 HP1 Snd2 Hr1) as [(t2 & E2 & HP2 & Po2 & Nc2)|(t2 & E2 & HP2 & Cf2)].
    2:{ right. right. exists t1, t2. split; [exact E1|]. split; [exact HP1|]. split; [exact E2|].
        split; [exact HP2|].
        destruct Cf2 as (x & d & m & Hi & [mx HD]). exists x.
        unfold sound_list in Snd2. rewrite Forall_forall in Snd2. destruct (Snd2 _ Hi) as [S1 S2]. cbn [fst snd] in *.
        split; [exact S2|]. right. split; [eauto|].
        exists mx. rewrite (shl_sub t D x Lb). rewrite Po1 in HD.
        destruct (shl t (b ++ x)) as [v|] eqn:Sq; [exact HD|].
        destruct (inl1 l1 (b ++ x)) eqn:I1; [|discriminate].
        apply (inl1_true l1 _ Snd1) in I1 as (y & e' & m' & Ey & _ & Ly).
        apply app_inv_head in Ey. subst y. congruence. }
    left. exists t1, t2. split; [exact E1|]. split; [exact E2|]. split; [exact HP1|].
    split; [exact HP2|]. split.
    - intros r [Nr [[(e & m & Lr) HF]|[(d & m & Lr) [mx HD]]]].
      + apply (Nc1 r e m (Cm1 r _ Nr Lr)). destruct HF as (d0 & m0 & HF). exists d0, m0.
        now rewrite <- (shl_sub t D r Lb).
      + apply (Nc2 r d m (Cm2 r _ Nr Lr)). apply (post1_isD l1 t t1 _ Po1).
        exists mx. now rewrite <- (shl_sub t D r Lb).
    - intros M' db cb eb mb Eb Ldb HM q. rewrite Eb at 1.
      rewrite (shl_put db t cb M' q eb mb Ldb). rewrite <- Eb.
      destruct (list_prefix b q) eqn:Pq.
      + apply list_prefix_ex in Pq as [r ->]. rewrite skipn_len_app, HM. unfold mval.
        rewrite (shl_sub t D r Lb). rewrite Po2, skipn_len_app.
        destruct (lookup S0 r) as [[d m|e m]|] eqn:Lr.
        * assert (Nr : r <> []).
          { intro; subst r. simpl in Lr. inversion Lr as [E0]. pose proof S0dir as Sd.
            rewrite E0 in Sd. discriminate Sd. }
          rewrite (inl2_in l2 r d m (Cm2 r _ Nr Lr)). unfold fileval.
          assert (E : shl t1 (b ++ r) = shl t (b ++ r)).
          { rewrite Po1. destruct (shl t (b ++ r)) as [v|] eqn:Sq; [reflexivity|].
            destruct (inl1 l1 (b ++ r)) eqn:I1; [|reflexivity].
            apply (inl1_true l1 _ Snd1) in I1 as (y & e' & m' & Ey & _ & Ly).
            apply app_inv_head in Ey. subst y. congruence. }
          now rewrite E.
        * assert (I2 : inl2 l2 (b ++ r) = false).
          { destruct (inl2 l2 (b ++ r)) eqn:I2; [|reflexivity].
            apply (inl2_true l2 _ Snd2) in I2 as (y & d' & m' & Ey & _ & Ly).
            apply app_inv_head in Ey. subst y. congruence. }
          rewrite I2, Po1. destruct (shl t (b ++ r)) as [v|] eqn:Sq; [reflexivity|].
          destruct r as [|k r'].
          -- exfalso. rewrite app_nil_r in Sq. destruct HDb as [mb' Hb]. congruence.
          -- assert (Nk : k :: r' <> []) by discriminate.
             now rewrite (inl1_in l1 _ e m (Cm1 _ _ Nk Lr)).
        * assert (I2 : inl2 l2 (b ++ r) = false).
          { destruct (inl2 l2 (b ++ r)) eqn:I2; [|reflexivity].
            apply (inl2_true l2 _ Snd2) in I2 as (y & d' & m' & Ey & _ & Ly).
            apply app_inv_head in Ey. subst y. congruence. }
          rewrite I2, Po1. destruct (shl t (b ++ r)) as [v|] eqn:Sq; [reflexivity|].
          destruct (inl1 l1 (b ++ r)) eqn:I1; [|reflexivity].
          apply (inl1_true l1 _ Snd1) in I1 as (y & e' & m' & Ey & _ & Ly).
          apply app_inv_head in Ey. subst y. congruence.
      + assert (I2 : inl2 l2 q = false).
        { destruct (inl2 l2 q) eqn:I2; [|reflexivity].
          apply (inl2_true l2 _ Snd2) in I2 as (y & d' & m' & -> & _ & Ly).
          assert (H : list_prefix b (b ++ y) = true) by (apply list_prefix_ex; eauto). congruence. }
        rewrite Po2, I2, Po1. destruct (shl t q) as [v|] eqn:Sq; [reflexivity|].
        destruct (inl1 l1 q) eqn:I1; [|reflexivity].
        apply (inl1_true l1 _ Snd1) in I1 as (y & e' & m' & -> & _ & Ly).
        assert (H : list_prefix b (b ++ y) = true) by (apply list_prefix_ex; eauto). congruence.
  Qed.
End Copy.
