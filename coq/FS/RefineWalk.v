(* The walker-based calls of the MemoryFS model refine the reference semantics:
   makedirs (W1), copydir (W2), movedir onto an existing directory (W3). *)
From Coq Require Import List NArith ZArith Bool Arith Lia.
From PyFS Require Import Base.PyStr Base.Outcome Path.PathModel Path.PathSpec Path.PathProofs
     FS.Tree FS.Monad FS.Mode FS.Base FS.Mem FS.Ops FS.Ref FS.Agree FS.Wf
     FS.TreeLemmas FS.RefineLemmas FS.RefineProofs FS.Props FS.PropsProofs
     FS.RefineWalkLemmasEq FS.RefineWalkLemmasMk FS.RefineWalkLemmasBfs
     FS.RefineWalkLemmasMerge FS.RefineWalkLemmasCopy FS.RefineWalkNn.
Import ListNotations.

(* ------------------------------------------------------------------ *)
(* small facts                                                         *)
(* ------------------------------------------------------------------ *)
Lemma tree_size_lookup p : forall t n, lookup t p = Some n -> tree_size n <= tree_size t.
Proof.
  induction p as [|c p IH]; intros t n L.
  - simpl in L. inversion L; subst. lia.
  - simpl in L. destruct t as [|e m]; [discriminate|].
    destruct (assoc c e) as [ch|] eqn:A; [|discriminate].
    pose proof (tree_size_child c ch e m (assoc_some_In _ _ _ A)).
    specialize (IH ch n L). lia.
Qed.

Lemma list_prefix_snoc_self d c : list_prefix (d ++ [c]) d = false.
Proof. induction d as [|x d IH]; simpl; [reflexivity|]. now rewrite str_eqb_refl. Qed.

Lemma lookup_put_parent t d c n e m :
  lookup t d = Some (Dir e m) -> exists e', lookup (put t (d ++ [c]) n) d = Some (Dir e' m).
Proof.
  intro L. apply shl_dir. rewrite (shl_put d t c n d e m L), list_prefix_snoc_self.
  apply shl_dir. eauto.
Qed.

Lemma list_prefix_trans a p q : list_prefix a p = true -> list_prefix p q = true -> list_prefix a q = true.
Proof.
  intros H1 H2. apply list_prefix_ex in H1 as [r1 ->]. apply list_prefix_ex in H2 as [r2 ->].
  apply list_prefix_ex. exists (r1 ++ r2). now rewrite app_assoc.
Qed.

(* ------------------------------------------------------------------ *)
(* mkdirs towards a missing destination                                *)
(* ------------------------------------------------------------------ *)
Lemma mkdirs_P a S0 rest : forall pre t,
  P a S0 t -> vp (pre ++ rest) -> list_prefix a (pre ++ rest) = false ->
  P a S0 (mkdirs t pre rest).
Proof.
  induction rest as [|c r IH]; intros pre t HP V Hp; [exact HP|].
  assert (E : pre ++ c :: r = (pre ++ [c]) ++ r) by (rewrite <- app_assoc; reflexivity).
  cbn [mkdirs]. rewrite E in V, Hp.
  destruct (lookup t (pre ++ [c])) as [x|] eqn:L; [apply IH; auto|].
  apply IH; auto.
  destruct HP as (W & N & La).
  assert (Vc : vp (pre ++ [c])) by (eapply vp_app_l; eauto).
  split; [|split].
  - apply wf_put_ne; auto using snoc_ne', wf_empty_dir. destruct Vc; assumption.
  - apply nn_put; auto. destruct Vc; assumption. exact nn_empty.
  - rewrite lookup_put_diverge; auto. apply diverge_of_prefix.
    + destruct (list_prefix (pre ++ [c]) a) eqn:Pa; [|reflexivity].
      apply list_prefix_ex in Pa as [r' ->]. rewrite lookup_app, L in La. discriminate.
    + destruct (list_prefix a (pre ++ [c])) eqn:Pa; [|reflexivity].
      assert (H : list_prefix (pre ++ [c]) ((pre ++ [c]) ++ r) = true)
        by (apply list_prefix_ex; eauto).
      pose proof (list_prefix_trans _ _ _ Pa H). congruence.
Qed.

Lemma mkdirs_new s b :
  wf s -> vp b -> lookup s b = None -> prefix_is_file s [] b = false ->
  exists t1 db cb eb mb,
    b = db ++ [cb] /\ mkdirs s [] b = put t1 b empty_dir /\ lookup t1 db = Some (Dir eb mb).
Proof.
  intros W V Lb Pf.
  assert (Wd : is_dir s = true) by (destruct W; assumption).
  destruct (decomp b s) as (ex & mis & n & Hb & Lex & Hmis). subst b.
  rewrite (pif_decomp s ex mis n Wd Lex Hmis) in Pf.
  destruct n as [|nents nm]; [discriminate|].
  destruct (list_snoc_case mis) as [->|[mis0 [c ->]]].
  { rewrite app_nil_r in Lb. congruence. }
  assert (A : forall c' r, mis0 = c' :: r -> assoc c' nents = None).
  { intros c' r E. subst mis0. specialize (Hmis c' (r ++ [c]) eq_refl).
    rewrite lookup_snoc, Lex in Hmis. exact Hmis. }
  assert (V0 : vp (ex ++ mis0)) by (rewrite app_assoc in V; eapply vp_app_l; eauto).
  destruct (mfor_mk true mis0 ex s nents nm W V0 Lex A) as (e' & m' & H1 & H2 & H3 & H4).
  assert (A1 : assoc c e' = None).
  { destruct H4 as [[-> ->]| ->]; [|reflexivity].
    specialize (Hmis c [] eq_refl). rewrite lookup_snoc, Lex in Hmis. exact Hmis. }
  exists (mkdirs s ex mis0), (ex ++ mis0), c, e', m'.
  split; [now rewrite app_assoc|]. split; [|exact H3].
  rewrite mkdirs_app. cbn [app]. rewrite (mkdirs_exists ex s [] _ Lex).
  rewrite mkdirs_app. cbn [mkdirs]. rewrite lookup_snoc, H3, A1.
  now rewrite app_assoc.
Qed.

(* ------------------------------------------------------------------ *)
(* copy_structure / copy_dir unfolded                                  *)
(* ------------------------------------------------------------------ *)
Definition vis1 (qa qb : str) : str -> info -> MM unit :=
  fun dir_path i =>
    if i_isdir i then
      mbind (lift (frombase qa (combine dir_path (i_name i)))) (fun rel =>
      mem_makedir (combine qb rel) true)
    else ret tt.

Definition vis2 (qa qb : str) (pt : bool) : str -> info -> MM unit :=
  fun dir_path i =>
    if i_isdir i then ret tt
    else
      let fp := combine dir_path (i_name i) in
      mbind (lift (frombase qa fp)) (fun rel =>
      copy_file_internal mem_low mem_copy fp (combine qb rel) pt).

Lemma copy_structure_unfold p1 p2 :
  copy_structure mem_low p1 p2 =
  mbind (mem_validatepath p1) (fun _src =>
  mbind (mem_validatepath p2) (fun _dst =>
  if isbase _src _dst then raise IllegalDestination
  else
    mbind (mem_makedirs _dst true) (fun _ =>
    mbind (walk_fuel mem_low) (fun fuel =>
    bfs_walk mem_low fuel [_src] (vis1 _src _dst))))).
Proof. reflexivity. Qed.

Lemma copy_dir_unfold p1 p2 pt :
  copy_dir mem_low mem_copy p1 p2 pt =
  mbind (lift (normpath p1)) (fun ns =>
  mbind (lift (normpath p2)) (fun nd =>
  mbind (copy_structure mem_low p1 p2) (fun _ =>
  mbind (walk_fuel mem_low) (fun fuel =>
  bfs_walk mem_low fuel [abspath ns] (vis2 (abspath ns) (abspath nd) pt))))).
Proof. reflexivity. Qed.

Lemma walk_fuel_eq t : walk_fuel mem_low t = (t, Ok (2 * tree_size t + 2)).
Proof. reflexivity. Qed.

Lemma normpath_abs p cs : rpath p = inl cs ->
  exists n, normpath p = Ok n /\ abspath n = to_path true cs.
Proof.
  intro R. pose proof (rpath_good _ _ R) as G. apply rpath_inl in R as [_ H].
  exists (to_path (starts_c slash p) cs). split.
  - rewrite normpath_spec. unfold spec_normpath. now rewrite H.
  - now apply abspath_nf_gen.
Qed.

Section Run.
  Variables (a b : list str) (pt : bool) (S0 : node).
  Hypothesis Va : vp a.
  Hypothesis Vb : vp b.
  Hypothesis Dab : diverge a b.
  Hypothesis S0dir : is_dir S0 = true.

  Notation P := (P a S0).

  Lemma S0_dirs_in : dirs_in S0 [[]].
  Proof.
    constructor; [|constructor]. simpl. destruct S0; [discriminate|]. eauto.
  Qed.

  Lemma fuel_ok t : P t -> qsize S0 [[]] < 2 * tree_size t + 2.
  Proof.
    intros (_ & _ & La). unfold qsize, dsub. cbn [map list_sum lookup]. unfold list_sum. cbn [fold_right].
    pose proof (dsize_le_tree_size S0). pose proof (tree_size_lookup a t S0 La). lia.
  Qed.

  Lemma wfS t : P t -> wf_node S0.
  Proof. intros ((_ & W) & _ & La). eapply wf_lookup; eauto. Qed.

  Lemma walk1 t fuel : P t -> qsize S0 [[]] < fuel ->
    bfs_walk mem_low fuel [to_path true a] (visit1 a b) t =
    mfor (bfs_list S0 fuel [[]]) (act' (act1 b)) t.
  Proof.
    intros HP Hf.
    pose proof (bfs_eq a S0 (visit1 a b) (act1 b) (visit1_act a b Va Vb Dab)
                       (act1_P a b S0 Vb Dab) fuel [[]] t HP S0_dirs_in Hf) as H.
    cbn [map] in H. rewrite app_nil_r in H. exact H.
  Qed.

  Lemma walk2 t fuel : P t -> qsize S0 [[]] < fuel ->
    bfs_walk mem_low fuel [to_path true a] (visit2 a b pt) t =
    mfor (bfs_list S0 fuel [[]]) (act' (act2 a b pt)) t.
  Proof.
    intros HP Hf.
    pose proof (bfs_eq a S0 (visit2 a b pt) (act2 a b pt) (visit2_act a b pt Va Vb Dab)
                       (act2_P a b pt S0 Va Vb Dab) fuel [[]] t HP S0_dirs_in Hf) as H.
    cbn [map] in H. rewrite app_nil_r in H. exact H.
  Qed.

  Lemma list_complete t fuel : P t -> qsize S0 [[]] < fuel -> complete S0 (bfs_list S0 fuel [[]]).
  Proof.
    intros HP Hf x n Nx L. destruct x as [|k x']; [congruence|].
    apply (bfs_complete S0 (wfS t HP) fuel [[]] S0_dirs_in Hf [] k x' n); [now left|exact L].
  Qed.

  Lemma list_ord t fuel : P t -> isD t b -> ord b (bfs_list S0 fuel [[]]) t.
  Proof.
    intros HP HD l1 x k n l2 E.
    destruct (bfs_order S0 (wfS t HP) fuel [[]] l1 x k n l2 S0_dirs_in E) as [[<-|[]]|H].
    - left. now rewrite app_nil_r.
    - right. exact H.
  Qed.

  (* the two walks of copy_dir from a state where the destination directory exists *)
  Definition run2 (t : node) : node * outcome unit :=
    match bfs_walk mem_low (2 * tree_size t + 2) [to_path true a] (visit1 a b) t with
    | (t1, Ok _) =>
      bfs_walk mem_low (2 * tree_size t1 + 2) [to_path true a] (visit2 a b pt) t1
    | (t1, Err e) => (t1, Err e)
    | (t1, Crash c) => (t1, Crash c)
    end.

  Lemma run2_spec t D :
    P t -> lookup t b = Some D -> is_dir D = true ->
    (exists t2, run2 t = (t2, Ok tt) /\ P t2 /\ (forall r, ~ confl D S0 r) /\
                (forall M' db cb eb mb, b = db ++ [cb] -> lookup t db = Some (Dir eb mb) ->
                                        (forall r, shl M' r = mval pt D S0 r) ->
                                        ext_eq t2 (put t b M')))
    \/ (exists t2 e, run2 t = (t2, Err e) /\ P t2 /\
                     (e = DirectoryExpected \/ e = FileExpected) /\ exists r, confl D S0 r).
  Proof.
    intros HP Lb DD. unfold run2.
    assert (HDb : isD t b) by (apply isD_lookup; destruct D; [discriminate|]; eauto).
    rewrite (walk1 t _ HP (fuel_ok t HP)).
    set (l1 := bfs_list S0 (2 * tree_size t + 2) [[]]).
    assert (Snd1 : sound_list S0 l1) by (apply bfs_sound; [exact (wfS t HP)|exact S0_dirs_in]).
    assert (Cm1 : complete S0 l1) by (apply (list_complete t); [exact HP|exact (fuel_ok t HP)]).
    assert (Or1 : ord b l1 t) by (apply list_ord; assumption).
    (* the second list depends on the state after the first pass: treat both cases *)
    destruct (phase1 a b S0 Vb Dab l1 t HP Snd1 Or1) as [(t1 & E1 & HP1 & _)|(t1 & E1 & HP1 & Cf1)].
    - rewrite E1. rewrite (walk2 t1 _ HP1 (fuel_ok t1 HP1)).
      set (l2 := bfs_list S0 (2 * tree_size t1 + 2) [[]]).
      assert (Snd2 : sound_list S0 l2) by (apply bfs_sound; [exact (wfS t HP)|exact S0_dirs_in]).
      assert (Cm2 : complete S0 l2) by (apply (list_complete t1); [exact HP1|exact (fuel_ok t1 HP1)]).
      destruct (two_pass a b pt S0 Va Vb Dab S0dir l1 l2 t D HP Lb DD Snd1 Cm1 Or1 Snd2 Cm2)
        as [(t1' & t2 & F1 & F2 & _ & HP2 & Nc & Hext)
           |[(t1' & F1 & _)|(t1' & t2 & F1 & _ & F2 & HP2 & Cf)]].
      + rewrite E1 in F1. inversion F1; subst t1'. left. exists t2. auto.
      + rewrite E1 in F1. discriminate.
      + rewrite E1 in F1. inversion F1; subst t1'. right. exists t2, FileExpected. auto.
    - rewrite E1. right. exists t1, DirectoryExpected. split; [reflexivity|]. split; [exact HP1|].
      split; [now left|].
      destruct Cf1 as (x & e & m & Hi & HF). exists x.
      unfold sound_list in Snd1. rewrite Forall_forall in Snd1.
      destruct (Snd1 _ Hi) as [S1 S2]. cbn [fst snd] in *.
      split; [exact S2|]. left. split; [eauto|].
      destruct HF as (d0 & m0 & HF). exists d0, m0. now rewrite (shl_sub b t D x Lb).
  Qed.

  (* copy_dir from raw paths *)
  Lemma copy_dir_run p1 p2 t :
    rpath p1 = inl a -> rpath p2 = inl b -> P t ->
    copy_dir mem_low mem_copy p1 p2 pt t =
    match mem_makedirs (to_path true b) true t with
    | (t0, Ok _) => run2 t0
    | (t0, Err e) => (t0, Err e)
    | (t0, Crash c) => (t0, Crash c)
    end.
  Proof.
    intros R1 R2 HP. rewrite copy_dir_unfold.
    destruct (normpath_abs _ _ R1) as (n1 & N1 & A1). destruct (normpath_abs _ _ R2) as (n2 & N2 & A2).
    rewrite N1, mbind_lift_ok, N2, mbind_lift_ok, A1, A2.
    rewrite copy_structure_unfold.
    unfold mbind at 1 2. rewrite (validate_inl _ _ t R1). cbv beta iota.
    unfold mbind at 1. rewrite (validate_inl _ _ t R2). cbv beta iota.
    pose proof Va as [Ga _]. pose proof Vb as [Gb _].
    rewrite (isbase_nf true a true b Ga Gb), <- list_prefix_cprefix, (diverge_prefix _ _ Dab).
    unfold mbind at 1.
    destruct (mem_makedirs (to_path true b) true t) as [t0 [u|e|c]]; try reflexivity.
  Qed.
End Run.

(* ------------------------------------------------------------------ *)
(* reference side                                                      *)
(* ------------------------------------------------------------------ *)
Lemma mval_empty pt S0 r : is_dir S0 = true ->
  shl (fresh pt S0) r = mval pt empty_dir S0 r.
Proof.
  intro Sd. unfold mval. rewrite shl_fresh.
  destruct (lookup S0 r) as [[d m|e m]|] eqn:L.
  - destruct r as [|k r]; [simpl in L; inversion L; subst; discriminate|].
    destruct pt; [reflexivity|]. destruct d; reflexivity.
  - destruct r; reflexivity.
  - destruct r as [|k r]; [simpl in L; discriminate|reflexivity].
Qed.

Lemma no_confl_empty S0 r : ~ confl empty_dir S0 r.
Proof.
  intros [Nr [[_ (d & m & H)]|[_ (m & H)]]]; destruct r; try congruence; discriminate.
Qed.

Lemma dte_eq t s d create move :
  dirtransfer_errors t s d create move =
  (if list_prefix s d then [IllegalDestination] else [])
  ++ (match status_of t s with
      | Missing => [ResourceNotFound] | AncFile => [ResourceNotFound; DirectoryExpected]
      | IsFile => [DirectoryExpected] | IsDir => [] end)
  ++ (match status_of t d with
      | IsFile => [DirectoryExpected; DirectoryExists]
      | IsDir => []
      | _ => (if create then [] else [ResourceNotFound])
             ++ (if move then match d with [] => [] | _ => parent_errors (status_of t (parent d)) end
                 else if prefix_is_file t [] d then [DirectoryExpected; ResourceNotFound] else [])
      end).
Proof. reflexivity. Qed.

Definition wstep_ok (o : op) (s : node) : Prop :=
  agree (mem_run o s) (ref_run o s) = true /\ wf (fst (mem_run o s)) /\ nn (fst (mem_run o s)).

Lemma wfin_err s e r :
  wf s -> nn s -> rs_tree r = Some s ->
  (exists adm, rs_res r = RFail adm /\ existsb (ecls_eqb e) adm = true) ->
  agree (s, @Err value e) r = true /\ wf (fst (s, @Err value e)) /\ nn (fst (s, @Err value e)).
Proof.
  intros W N T (adm & R & E). split; [|split; assumption].
  unfold agree. cbn [fst snd]. rewrite T, R. cbn [res_agree]. now rewrite E, tree_eqb_refl.
Qed.

Lemma ref_dt_fail s a b create pt move e :
  (move && path_eqb a b) = false ->
  existsb (ecls_eqb e) (dirtransfer_errors s a b create move) = true ->
  rs_tree (ref_dirtransfer s a b create pt move) = Some s /\
  exists adm, rs_res (ref_dirtransfer s a b create pt move) = RFail adm /\
              existsb (ecls_eqb e) adm = true.
Proof.
  intros Hm H. unfold ref_dirtransfer. rewrite Hm.
  destruct (dirtransfer_errors s a b create move) as [|x l]; [discriminate|].
  split; [reflexivity|]. eexists. split; [reflexivity|exact H].
Qed.

Lemma wfin_dt_err s a b create pt move e :
  wf s -> nn s -> (move && path_eqb a b) = false ->
  existsb (ecls_eqb e) (dirtransfer_errors s a b create move) = true ->
  agree (s, @Err value e) (ref_dirtransfer s a b create pt move) = true
  /\ wf (fst (s, @Err value e)) /\ nn (fst (s, @Err value e)).
Proof.
  intros W N Hm H. destruct (ref_dt_fail s a b create pt move e Hm H) as [T R].
  now apply wfin_err.
Qed.

Lemma ref_dt_ok s a b create pt move S0 D :
  (move && path_eqb a b) = false ->
  dirtransfer_errors s a b create move = [] -> list_prefix b a = false ->
  lookup s a = Some S0 -> lookup s b = Some D ->
  ref_dirtransfer s a b create pt move =
  match merge_node (S (tree_size S0)) pt D (fresh pt S0) with
  | Some m =>
    let t1 := put s b m in
    {| rs_tree := Some (if move then del t1 a else t1); rs_res := ROk VUnit |}
  | None =>
    {| rs_tree := None;
       rs_res := RFail [DirectoryExpected; FileExpected; DirectoryExists; ResourceNotFound] |}
  end.
Proof.
  intros Hm He Hp La Lb. unfold ref_dirtransfer. rewrite Hm, He, Hp, La, Lb. reflexivity.
Qed.

Lemma confl_class e : e = DirectoryExpected \/ e = FileExpected ->
  existsb (ecls_eqb e) [DirectoryExpected; FileExpected; DirectoryExists; ResourceNotFound] = true.
Proof. intros [->| ->]; reflexivity. Qed.

Lemma pif_dir_false s b D : is_dir s = true -> lookup s b = Some D -> is_dir D = true ->
  prefix_is_file s [] b = false.
Proof.
  intros Wd L DD. rewrite <- (app_nil_r b).
  rewrite (pif_decomp s b [] D Wd L); [now rewrite DD|]. intros c r H. discriminate.
Qed.

Lemma pif_file_true s b d m : is_dir s = true -> lookup s b = Some (File d m) ->
  prefix_is_file s [] b = true.
Proof.
  intros Wd L. rewrite <- (app_nil_r b).
  rewrite (pif_decomp s b [] _ Wd L); [reflexivity|]. intros c r H. discriminate.
Qed.

(* the copy of the source S0 = lookup s a into an existing directory D = lookup s b,
   compared with the reference merge *)
Lemma run2_vs_merge a b pt S0 D s :
  vp a -> vp b -> diverge a b -> is_dir S0 = true ->
  P a S0 s -> lookup s b = Some D -> is_dir D = true ->
  let r := run2 a b pt s in
  let mg := merge_node (S (tree_size S0)) pt D (fresh pt S0) in
  P a S0 (fst r) /\
  ((exists t2 M, r = (t2, Ok tt) /\ mg = Some M /\ wf_node M /\ ext_eq t2 (put s b M)) \/
   (exists t2 e, r = (t2, Err e) /\ mg = None /\ (e = DirectoryExpected \/ e = FileExpected))).
Proof.
  intros Va Vb Dab Sd HP Lb DD r mg. subst r mg.
  pose proof HP as ((Wd & Wn) & N & La).
  assert (WS : wf_node S0) by exact (wf_lookup _ _ _ Wn La).
  assert (WD : wf_node D) by exact (wf_lookup _ _ _ Wn Lb).
  assert (Hb : exists db cb eb mb, b = db ++ [cb] /\ lookup s db = Some (Dir eb mb)).
  { destruct (list_snoc_case b) as [->|[db [cb ->]]].
    - exfalso. destruct Dab as (u & c1 & c2 & p' & q' & _ & _ & E). destruct u; discriminate.
    - rewrite lookup_snoc in Lb. destruct (lookup s db) as [[|eb mb]|] eqn:Ldb0; try discriminate.
      exists db, cb, eb, mb. split; [reflexivity|exact Ldb0]. }
  destruct Hb as (db & cb & eb & mb & Eb & Ldb).
  destruct (merge_spec pt (S (tree_size S0)) D S0 (Nat.lt_succ_diag_r _) WD WS DD Sd)
    as [(M & H1 & H2 & H3 & H4)|(H1 & r' & H2)];
  destruct (run2_spec a b pt S0 Va Vb Dab Sd s D HP Lb DD)
    as [(t2 & E2 & HP2 & Nc & Hext)|(t2 & e & E2 & HP2 & He & r'' & Cf)].
  - rewrite E2. split; [exact HP2|]. left. exists t2, M. repeat split; auto.
    all: try (eapply Hext; eauto).
  - exfalso. exact (H4 r'' Cf).
  - exfalso. exact (Nc r' H2).
  - rewrite E2. split; [exact HP2|]. right. exists t2, e. auto.
Qed.

(* ------------------------------------------------------------------ *)
(* W2: copydir                                                         *)
(* ------------------------------------------------------------------ *)
Lemma copydir_unfold src dst create pt s a b :
  rpath src = inl a -> rpath dst = inl b ->
  mem_copydir src dst create pt s =
  if list_prefix a b then (s, Err IllegalDestination)
  else if negb (if create then true else match lookup s b with Some _ => true | None => false end)
       then (s, Err ResourceNotFound)
       else match lookup s a with
            | None => (s, Err ResourceNotFound)
            | Some n => if is_dir n
                        then copy_dir mem_low mem_copy (to_path true a) (to_path true b) pt s
                        else (s, Err DirectoryExpected)
            end.
Proof.
  intros R1 R2. pose proof (rpath_vp _ _ R1) as Va. pose proof (rpath_vp _ _ R2) as Vb.
  pose proof Va as [Ga _]. pose proof Vb as [Gb _].
  unfold mem_copydir, b_copydir. cbn [l_validatepath l_getinfo mem_low]. mstep.
  rewrite (validate_inl _ _ s R1). mstep. rewrite (validate_inl _ _ s R2). mstep.
  rewrite (isbase_nf true a true b Ga Gb), <- list_prefix_cprefix.
  destruct (list_prefix a b); [reflexivity|].
  destruct create; cbn [negb]; mstep.
  - rewrite (mem_getinfo_spec _ _ s (rpath_nf _ Va)).
    destruct (lookup s a) as [n|]; [|reflexivity]. mstep. cbn [to_info i_isdir].
    destruct (is_dir n); reflexivity.
  - rewrite (mem_exists_spec _ _ s (rpath_nf _ Vb)). mstep.
    destruct (lookup s b) as [nb|]; cbn [negb]; mstep; [|reflexivity].
    rewrite (mem_getinfo_spec _ _ s (rpath_nf _ Va)).
    destruct (lookup s a) as [n|]; [|reflexivity]. mstep. cbn [to_info i_isdir].
    destruct (is_dir n); reflexivity.
Qed.

Lemma status_dir s p e m : lookup s p = Some (Dir e m) -> status_of s p = IsDir.
Proof. intro L. now rewrite (status_lookup_some _ _ _ L). Qed.
Lemma status_file s p d m : lookup s p = Some (File d m) -> status_of s p = IsFile.
Proof. intro L. now rewrite (status_lookup_some _ _ _ L). Qed.

Lemma wfin_ok t v tr :
  wf t -> nn t -> wf_node tr -> ext_eq t tr ->
  agree (t, Ok v) {| rs_tree := Some tr; rs_res := ROk v |} = true
  /\ wf (fst (t, @Ok value v)) /\ nn (fst (t, @Ok value v)).
Proof.
  intros W N Wt E. split; [|split; assumption]. unfold agree. cbn [fst snd rs_res rs_tree res_agree].
  rewrite value_eqb_refl. cbn [andb]. apply ext_tree_eqb; auto. destruct W; assumption.
Qed.

Lemma copydir_step src dst create pt s a b :
  wf s -> nn s -> rpath src = inl a -> rpath dst = inl b -> list_prefix b a = false ->
  wstep_ok (OCopydir src dst create pt) s.
Proof.
  intros W N R1 R2 Hba. unfold wstep_ok. cbn [mem_run ref_run]. unfold with2. rewrite R1, R2.
  pose proof (rpath_vp _ _ R1) as Va. pose proof (rpath_vp _ _ R2) as Vb.
  assert (Wd : is_dir s = true) by (destruct W; assumption).
  assert (Hm : (false && path_eqb a b) = false) by reflexivity.
  unfold vmap, mbind. rewrite (copydir_unfold _ _ create pt s a b R1 R2).
  destruct (list_prefix a b) eqn:Hab.
  { apply wfin_dt_err; auto;
      rewrite dte_eq, Hab; reflexivity. }
  pose proof (diverge_of_prefix a b Hab Hba) as Dab.
  (* the destination must exist unless create *)
  destruct (negb (if create then true else match lookup s b with Some _ => true | None => false end)) eqn:Hex.
  { destruct create; [discriminate|]. destruct (lookup s b) eqn:Lb; [discriminate|].
    apply wfin_dt_err; auto;
      rewrite dte_eq, Hab.
    destruct (status_lookup_none _ _ Lb) as [E|E]; rewrite E;
      destruct (status_of s a); destruct (prefix_is_file s [] b); reflexivity. }
  destruct (lookup s a) as [S0|] eqn:La.
  2:{ apply wfin_dt_err; auto;
        rewrite dte_eq, Hab.
      destruct (status_lookup_none _ _ La) as [E|E]; rewrite E; reflexivity. }
  destruct S0 as [d0 m0|es ms]; cbn [is_dir].
  { apply wfin_dt_err; auto;
      rewrite dte_eq, Hab, (status_file _ _ _ _ La); reflexivity. }
  set (S0 := Dir es ms) in *.
  assert (HP : P a S0 s) by (split; [exact W|split; [exact N|exact La]]).
  assert (Sd : is_dir S0 = true) by reflexivity.
  rewrite (copy_dir_run a b pt S0 Va Vb Dab _ _ s (rpath_nf _ Va) (rpath_nf _ Vb) HP).
  destruct (makedirs_spec _ true s b W (rpath_nf _ Vb)) as [Emk Wmk].
  rewrite Emk. unfold makedirs_rhs.
  destruct (lookup s b) as [D|] eqn:Lb.
  - (* the destination exists *)
    destruct D as [db mb|eb mb].
    + rewrite (pif_file_true s b db mb Wd Lb).
      apply wfin_dt_err; auto;
        rewrite dte_eq, Hab, (status_dir _ _ _ _ La), (status_file _ _ _ _ Lb); reflexivity.
    + set (D := Dir eb mb) in *.
      rewrite (pif_dir_false s b D Wd Lb eq_refl), (status_dir _ _ _ _ Lb).
      assert (He : dirtransfer_errors s a b create false = []).
      { rewrite dte_eq, Hab, (status_dir _ _ _ _ La), (status_dir _ _ _ _ Lb). reflexivity. }
      rewrite (ref_dt_ok s a b create pt false S0 D Hm He Hba La Lb).
      destruct (run2_vs_merge a b pt S0 D s Va Vb Dab Sd HP Lb eq_refl)
        as [HP2 [(t2 & M & E2 & Em & WM & Hext)|(t2 & e & E2 & Em & Hcl)]];
        rewrite E2 in *; rewrite Em; cbn [fst] in HP2; destruct HP2 as (W2 & N2 & _).
      * apply wfin_ok; auto. apply wf_put; auto; destruct W, Vb; auto.
      * split; [|split; assumption]. unfold agree. cbn [fst snd rs_res rs_tree res_agree].
        now rewrite (confl_class e Hcl).
  - (* the destination is missing: create = true *)
    destruct create; [|discriminate].
    destruct (prefix_is_file s [] b) eqn:Pf.
    { apply wfin_dt_err; auto;
        rewrite dte_eq, Hab, (status_dir _ _ _ _ La), Pf.
      destruct (status_lookup_none _ _ Lb) as [E|E]; rewrite E; reflexivity. }
    assert (Hst : match status_of s b with IsDir => False | _ => True end) by (apply status_missing; exact Lb).
    assert (Est : match status_of s b with
                  | IsDir => (s, @Ok unit tt)
                  | _ => (mkdirs s [] b, Ok tt)
                  end = (mkdirs s [] b, Ok tt)).
    { destruct (status_of s b); try reflexivity. contradiction. }
    rewrite Est.
    set (t0 := mkdirs s [] b).
    assert (HP0 : P a S0 t0) by (apply (mkdirs_P a S0 b [] s HP Vb Hab)).
    destruct (mkdirs_new s b W Vb Lb Pf) as (t1 & db & cb & eb & mb & Eb & Emk0 & Ldb).
    assert (Lb0 : lookup t0 b = Some empty_dir).
    { unfold t0. rewrite Emk0, Eb. apply (lookup_put_same _ _ _ _ _ _ Ldb). }
    assert (He : dirtransfer_errors s a b true false = []).
    { rewrite dte_eq, Hab, (status_dir _ _ _ _ La), Pf.
      destruct (status_lookup_none _ _ Lb) as [E|E]; rewrite E; reflexivity. }
    unfold ref_dirtransfer. rewrite Hm, He, Hba, La, Lb. cbn [negb andb].
    destruct (run2_spec a b pt S0 Va Vb Dab Sd t0 empty_dir HP0 Lb0 eq_refl)
      as [(t2 & E2 & HP2 & _ & Hext)|(t2 & e & E2 & _ & _ & r' & Cf)].
    + rewrite E2. destruct HP2 as (W2 & N2 & _).
      destruct (lookup_put_parent t1 db cb empty_dir eb mb Ldb) as [eb' Ldb'].
      apply wfin_ok; auto.
      * fold t0. apply wf_put; auto; try (destruct Vb; assumption).
        -- destruct HP0 as ((_ & W0) & _). exact W0.
        -- apply wf_fresh. destruct HP as ((_ & Wn) & _ & _). exact (wf_lookup _ _ _ Wn La).
      * fold t0. eapply (Hext (fresh pt S0) db cb eb' mb Eb).
        -- unfold t0. rewrite Emk0, Eb. exact Ldb'.
        -- intro r. now apply mval_empty.
    + exfalso. exact (no_confl_empty S0 r' Cf).
Qed.

(* W2 *)
Theorem mem_copydir_refines_ref : forall src dst create pt s a b,
  wf s -> nn s -> rpath src = inl a -> rpath dst = inl b -> list_prefix b a = false ->
  agree (mem_run (OCopydir src dst create pt) s) (ref_run (OCopydir src dst create pt) s) = true.
Proof. intros. now apply (copydir_step src dst create pt s a b). Qed.

Theorem mem_copydir_wf : forall src dst create pt s a b,
  wf s -> nn s -> rpath src = inl a -> rpath dst = inl b -> list_prefix b a = false ->
  wf (fst (mem_run (OCopydir src dst create pt) s)) /\ nn (fst (mem_run (OCopydir src dst create pt) s)).
Proof. intros. now apply (copydir_step src dst create pt s a b). Qed.

(* ------------------------------------------------------------------ *)
(* W3: movedir onto an existing destination                            *)
(* ------------------------------------------------------------------ *)
Lemma movedir_exist_unfold src dst create pt s a b D :
  rpath src = inl a -> rpath dst = inl b -> diverge a b -> lookup s b = Some D ->
  mem_movedir src dst create pt s =
  match lookup s a with
  | None => (s, Err ResourceNotFound)
  | Some (File _ _) => (s, Err DirectoryExpected)
  | Some (Dir _ _) => mem_base_movedir src dst create pt s
  end.
Proof.
  intros R1 R2 Dab Lb.
  pose proof (rpath_good _ _ R1) as G1. pose proof (rpath_good _ _ R2) as G2.
  destruct (list_snoc_case b) as [->|[dd [dc ->]]].
  { exfalso. destruct Dab as (u & c1 & c2 & p' & q' & _ & _ & E). destruct u; discriminate. }
  destruct (list_snoc_case a) as [->|[sd [sc ->]]].
  { exfalso. destruct Dab as (u & c1 & c2 & p' & q' & _ & E & _). destruct u; discriminate. }
  destruct (good_snoc _ _ G2) as [Gdd Gdc]. destruct (good_snoc _ _ G1) as [Gsd Gsc].
  unfold mem_movedir. mstep. rewrite (validate_inl _ _ s R1). mstep.
  rewrite (validate_inl _ _ s R2). mstep.
  rewrite (psplit_snoc true dd dc Gdd Gdc).
  rewrite (to_path_eqb _ _ G1 G2).
  rewrite (isbase_nf true _ true _ G1 G2), <- list_prefix_cprefix.
  rewrite (psplit_snoc true sd sc Gsd Gsc). mstep.
  rewrite (path_eqb_neq _ _ (diverge_neq _ _ Dab)), (diverge_prefix _ _ Dab). mstep.
  rewrite get_dir_entry_nf by assumption. mstep.
  pview s sd sc; rewrite ?Hl, ?Ha, Hlc; mstep; try reflexivity.
  destruct n as [sdata smt|e3 m3]; mstep; [reflexivity|].
  rewrite get_dir_entry_nf by assumption. mstep. rewrite Lb. reflexivity.
Qed.

Lemma base_movedir_unfold src dst create pt s a b S0 D :
  rpath src = inl a -> rpath dst = inl b -> diverge a b ->
  lookup s a = Some S0 -> is_dir S0 = true -> lookup s b = Some D ->
  mem_base_movedir src dst create pt s =
  if is_dir D then
    match copy_dir mem_low mem_copy src dst pt s with
    | (t2, Ok _) => mem_removetree src t2
    | (t2, Err e) => (t2, Err e)
    | (t2, Crash c) => (t2, Crash c)
    end
  else (s, Err DirectoryExpected).
Proof.
  intros R1 R2 Dab La Sd Lb.
  pose proof (rpath_vp _ _ R1) as Va. pose proof (rpath_vp _ _ R2) as Vb.
  pose proof Va as [Ga _]. pose proof Vb as [Gb _].
  unfold mem_base_movedir, b_movedir. cbn [l_validatepath l_getinfo mem_low]. mstep.
  rewrite (validate_inl _ _ s R1). mstep. rewrite (validate_inl _ _ s R2). mstep.
  rewrite (to_path_eqb _ _ Ga Gb), (path_eqb_neq _ _ (diverge_neq _ _ Dab)).
  rewrite (isbase_nf true a true b Ga Gb), <- list_prefix_cprefix, (diverge_prefix _ _ Dab).
  mstep.
  assert (He : b_exists mem_low dst s = (s, Ok true)).
  { rewrite (mem_exists_spec _ _ s R2), Lb. reflexivity. }
  destruct create; [|rewrite He]; cbn [negb]; mstep.
  all: rewrite (mem_getinfo_spec _ _ s (rpath_nf _ Va)), La; mstep; cbn [to_info i_isdir];
    rewrite Sd; cbn [negb]; mstep;
    unfold move_dir; cbn [l_makedir l_removetree mem_low]; mstep;
    (destruct (list_snoc_case b) as [Eb|[dd [dc Eb]]];
     [exfalso; subst b; destruct Dab as (u & c1 & c2 & p' & q' & _ & _ & E); destruct u; discriminate|]);
    subst b;
    rewrite (mem_makedir_snoc _ _ _ true s R2);
    pose proof Lb as Lb'; rewrite lookup_snoc in Lb';
    (destruct (lookup s dd) as [[|eb mb]|]; try discriminate); rewrite Lb';
    rewrite (mem_opendir_spec _ _ s R2), Lb;
    destruct (is_dir D); reflexivity.
Qed.

Lemma ext_eq_del x y p c : wf_node x -> wf_node y -> ext_eq x y ->
  ext_eq (del x (p ++ [c])) (del y (p ++ [c])).
Proof. intros Wx Wy E q. rewrite !shl_del by assumption. now rewrite E. Qed.

Lemma list_prefix_refl a : list_prefix a a = true.
Proof. induction a as [|x a IH]; simpl; [reflexivity|]. now rewrite str_eqb_refl. Qed.

Lemma movedir_prefix_illegal src dst create pt s a b :
  rpath src = inl a -> rpath dst = inl b -> list_prefix a b = true -> path_eqb a b = false ->
  mem_movedir src dst create pt s = (s, Err IllegalDestination).
Proof.
  intros R1 R2 Hab Eab.
  pose proof (rpath_good _ _ R1) as G1. pose proof (rpath_good _ _ R2) as G2.
  unfold mem_movedir. mstep. rewrite (validate_inl _ _ s R1). mstep.
  rewrite (validate_inl _ _ s R2). mstep.
  destruct (psplit (to_path true b)) as [dd dn]. destruct (psplit (to_path true a)) as [sd sn].
  rewrite (to_path_eqb _ _ G1 G2), Eab.
  rewrite (isbase_nf true _ true _ G1 G2), <- list_prefix_cprefix, Hab. reflexivity.
Qed.

Lemma movedir_exist_step src dst create pt s a b D :
  wf s -> nn s -> rpath src = inl a -> rpath dst = inl b -> list_prefix b a = false ->
  lookup s b = Some D ->
  wstep_ok (OMovedir src dst create pt) s.
Proof.
  intros W N R1 R2 Hba Lb. unfold wstep_ok. cbn [mem_run ref_run]. unfold with2. rewrite R1, R2.
  pose proof (rpath_vp _ _ R1) as Va. pose proof (rpath_vp _ _ R2) as Vb.
  assert (Wd : is_dir s = true) by (destruct W; assumption).
  unfold vmap, mbind.
  destruct (list_prefix a b) eqn:Hab.
  { (* identical or inside: not through the walker *)
    destruct (path_eqb a b) eqn:Eab.
    - apply path_eqb_eq in Eab. subst b. rewrite list_prefix_refl in Hba. discriminate.
    - pose proof (movedir_prefix_illegal src dst create pt s a b R1 R2 Hab Eab) as E.
      rewrite E. apply wfin_dt_err; auto.
      rewrite dte_eq, Hab. reflexivity. }
  pose proof (diverge_of_prefix a b Hab Hba) as Dab.
  assert (Hm : (true && path_eqb a b) = false)
    by (cbn [andb]; apply path_eqb_neq; now apply diverge_neq).
  rewrite (movedir_exist_unfold _ _ create pt s a b D R1 R2 Dab Lb).
  destruct (lookup s a) as [S0|] eqn:La.
  2:{ apply wfin_dt_err; auto. rewrite dte_eq, Hab.
      destruct (status_lookup_none _ _ La) as [E|E]; rewrite E; reflexivity. }
  destruct S0 as [d0 m0|es ms].
  { apply wfin_dt_err; auto. rewrite dte_eq, Hab, (status_file _ _ _ _ La). reflexivity. }
  set (S0 := Dir es ms) in *.
  assert (HP : P a S0 s) by (split; [exact W|split; [exact N|exact La]]).
  assert (Sd : is_dir S0 = true) by reflexivity.
  rewrite (base_movedir_unfold _ _ create pt s a b S0 D R1 R2 Dab La Sd Lb).
  destruct D as [db mb|eb mb]; cbn [is_dir].
  { apply wfin_dt_err; auto. rewrite dte_eq, Hab, (status_dir _ _ _ _ La), (status_file _ _ _ _ Lb).
    reflexivity. }
  set (D := Dir eb mb) in *.
  rewrite (copy_dir_run a b pt S0 Va Vb Dab _ _ s R1 R2 HP).
  destruct (makedirs_spec _ true s b W (rpath_nf _ Vb)) as [Emk _].
  rewrite Emk. unfold makedirs_rhs.
  rewrite (pif_dir_false s b D Wd Lb eq_refl), (status_dir _ _ _ _ Lb).
  assert (He : dirtransfer_errors s a b create true = []).
  { rewrite dte_eq, Hab, (status_dir _ _ _ _ La), (status_dir _ _ _ _ Lb). reflexivity. }
  rewrite (ref_dt_ok s a b create pt true S0 D Hm He Hba La Lb).
  destruct (run2_vs_merge a b pt S0 D s Va Vb Dab Sd HP Lb eq_refl)
    as [HP2 [(t2 & M & E2 & Em & WM & Hext)|(t2 & e & E2 & Em & Hcl)]];
    rewrite E2 in *; rewrite Em; cbn [fst] in HP2; pose proof HP2 as (W2 & N2 & La2).
  - (* copied: remove the source *)
    destruct (list_snoc_case a) as [Ea|[sd [sc Ea]]].
    { exfalso. subst a. destruct Dab as (u & c1 & c2 & p' & q' & _ & E & _). destruct u; discriminate. }
    subst a.
    rewrite (mem_removetree_snoc _ _ _ t2 R1).
    pose proof La2 as La2'. rewrite lookup_snoc in La2'.
    destruct (lookup t2 sd) as [[|ed md]|]; try discriminate. rewrite La2'. unfold S0.
    apply wfin_ok.
    + now apply wf_del_any.
    + now apply nn_del.
    + apply wf_del. apply wf_put; auto; destruct W, Vb; auto.
    + apply ext_eq_del; auto.
      * destruct W2; assumption.
      * apply wf_put; auto; destruct W, Vb; auto.
  - split; [|split; assumption]. unfold agree. cbn [fst snd rs_res rs_tree res_agree].
    now rewrite (confl_class e Hcl).
Qed.

(* W3 *)
Theorem mem_movedir_exist_refines_ref : forall src dst create pt s a b D,
  wf s -> nn s -> rpath src = inl a -> rpath dst = inl b -> list_prefix b a = false ->
  lookup s b = Some D ->
  agree (mem_run (OMovedir src dst create pt) s) (ref_run (OMovedir src dst create pt) s) = true.
Proof. intros. now apply (movedir_exist_step src dst create pt s a b D). Qed.

Theorem mem_movedir_exist_wf : forall src dst create pt s a b D,
  wf s -> nn s -> rpath src = inl a -> rpath dst = inl b -> list_prefix b a = false ->
  lookup s b = Some D ->
  wf (fst (mem_run (OMovedir src dst create pt) s)) /\ nn (fst (mem_run (OMovedir src dst create pt) s)).
Proof. intros. now apply (movedir_exist_step src dst create pt s a b D). Qed.

(* the fast path (destination missing) keeps the NUL-free invariant too *)
Lemma movedir_fast_nn src dst create pt s a b :
  wf s -> nn s -> rpath src = inl a -> rpath dst = inl b -> list_prefix b a = false ->
  lookup s b = None -> nn (fst (mem_run (OMovedir src dst create pt) s)).
Proof.
  intros W N R1 R2 Hba Lb.
  pose proof (mem_movedir_refines_ref src dst create pt s a b W R1 R2 Lb) as A.
  pose proof (rpath_vp _ _ R1) as [_ Na]. pose proof (rpath_vp _ _ R2) as [_ Nb].
  unfold agree in A. apply andb_true_iff in A as [_ A].
  cbn [ref_run] in A. unfold with2 in A. rewrite R1, R2 in A. unfold ref_dirtransfer in A.
  destruct (true && path_eqb a b); [exact (nn_tree_eqb _ _ A N)|].
  destruct (dirtransfer_errors s a b create true); [|exact (nn_tree_eqb _ _ A N)].
  rewrite Hba, Lb in A.
  destruct (lookup s a) as [src0|] eqn:La; [|exact (nn_tree_eqb _ _ A N)].
  cbn [rs_tree] in A. apply (nn_tree_eqb _ _ A).
  apply nn_del. apply nn_put; auto. now destruct (nn_lookup a s src0 N La).
Qed.

(* movedir, every non-degenerate case *)
Theorem mem_movedir_refines_ref_nondegenerate : forall src dst create pt s a b,
  wf s -> nn s -> rpath src = inl a -> rpath dst = inl b -> list_prefix b a = false ->
  agree (mem_run (OMovedir src dst create pt) s) (ref_run (OMovedir src dst create pt) s) = true
  /\ wf (fst (mem_run (OMovedir src dst create pt) s))
  /\ nn (fst (mem_run (OMovedir src dst create pt) s)).
Proof.
  intros src dst create pt s a b W N R1 R2 Hba.
  destruct (lookup s b) as [D|] eqn:Lb.
  - exact (movedir_exist_step src dst create pt s a b D W N R1 R2 Hba Lb).
  - split; [exact (mem_movedir_refines_ref src dst create pt s a b W R1 R2 Lb)|].
    split; [exact (mem_movedir_wf src dst create pt s a b W R1 R2 Lb)|].
    exact (movedir_fast_nn src dst create pt s a b W N R1 R2 Hba Lb).
Qed.

(* W1 keeps the NUL-free invariant *)
Lemma nn_mkdirs rest : forall pre t, nn t -> nonul (pre ++ rest) -> nn (mkdirs t pre rest).
Proof.
  induction rest as [|c r IH]; intros pre t N Np; [exact N|].
  assert (E : pre ++ c :: r = (pre ++ [c]) ++ r) by (rewrite <- app_assoc; reflexivity).
  cbn [mkdirs]. rewrite E in Np.
  destruct (lookup t (pre ++ [c])); apply IH; auto.
  apply nn_put; auto; [|exact nn_empty]. apply nonul_app in Np. tauto.
Qed.

Theorem mem_makedirs_nn : forall p recreate s cs,
  wf s -> nn s -> rpath p = inl cs -> nn (fst (mem_run (OMakedirs p recreate) s)).
Proof.
  intros p r s cs W N R. cbn [mem_run]. unfold vmap, mbind.
  destruct (makedirs_spec p r s cs W R) as [E _]. rewrite E. unfold makedirs_rhs.
  pose proof (rpath_vp _ _ R) as [_ Nc].
  destruct (prefix_is_file s [] cs); [exact N|].
  destruct (status_of s cs); try (cbn [fst]; now apply nn_mkdirs).
  destruct r; exact N.
Qed.
