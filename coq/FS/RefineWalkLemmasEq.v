(* Order-insensitivity of the tree comparison: two well-formed trees with the same
   "shallow" content at every path have the same canonical form. *)
From Coq Require Import List NArith ZArith Bool Arith Lia.
From PyFS Require Import Base.PyStr Base.Outcome Path.PathSpec
     FS.Tree FS.Mode FS.Base FS.Ops FS.Ref FS.Agree FS.Wf FS.TreeLemmas.
Import ListNotations.

(* ------------------------------------------------------------------ *)
(* the order on names                                                  *)
(* ------------------------------------------------------------------ *)
Lemma str_ltb_irrefl a : str_ltb a a = false.
Proof.
  induction a as [|x a IH]; [reflexivity|]. simpl.
  rewrite N.ltb_irrefl, N.eqb_refl. exact IH.
Qed.

Lemma str_ltb_trans a : forall b c, str_ltb a b = true -> str_ltb b c = true -> str_ltb a c = true.
Proof.
  induction a as [|x a IH]; intros [|y b] [|z c]; simpl; try congruence.
  destruct (N.ltb_spec x y), (N.eqb_spec x y), (N.ltb_spec y z), (N.eqb_spec y z),
    (N.ltb_spec x z), (N.eqb_spec x z); try discriminate; try lia; try reflexivity; subst; eauto.
Qed.

Lemma str_ltb_total a : forall b, a = b \/ str_ltb a b = true \/ str_ltb b a = true.
Proof.
  induction a as [|x a IH]; intros [|y b]; simpl; auto.
  destruct (N.ltb_spec x y), (N.eqb_spec x y), (N.ltb_spec y x), (N.eqb_spec y x);
    try lia; auto; subst.
  destruct (IH b) as [->|[Hab|Hab]]; auto.
Qed.

(* ------------------------------------------------------------------ *)
(* sorted association lists                                            *)
(* ------------------------------------------------------------------ *)
Fixpoint ssorted {A} (l : list (str * A)) : Prop :=
  match l with
  | [] => True
  | (k, _) :: r => Forall (fun k' => str_ltb k k' = true) (keys r) /\ ssorted r
  end.

Lemma keys_insert {A} k (v : A) l x :
  In x (keys (insert_sorted k v l)) <-> x = k \/ In x (keys l).
Proof.
  induction l as [|[k0 v0] r IH]; simpl.
  - intuition.
  - destruct (str_ltb k k0); simpl.
    + intuition.
    + rewrite IH. intuition.
Qed.

Lemma ssorted_insert {A} k (v : A) l :
  ssorted l -> ~ In k (keys l) -> ssorted (insert_sorted k v l).
Proof.
  induction l as [|[k0 v0] r IH]; simpl; intros S N.
  - split; [constructor|exact I].
  - destruct S as [S1 S2]. destruct (str_ltb k k0) eqn:E.
    + simpl. split; [|split; assumption].
      constructor; [exact E|].
      rewrite Forall_forall in *. intros x Hx. eapply str_ltb_trans; eauto.
    + simpl. split; [|apply IH; tauto].
      rewrite Forall_forall in *. intros x Hx. apply keys_insert in Hx as [->|Hx]; [|auto].
      destruct (str_ltb_total k k0) as [->|[H|H]]; [tauto|congruence|exact H].
Qed.

Lemma assoc_insert {A} k (v : A) l k' :
  ~ In k (keys l) ->
  assoc k' (insert_sorted k v l) = if str_eqb k' k then Some v else assoc k' l.
Proof.
  induction l as [|[k0 v0] r IH]; simpl; intro N.
  - reflexivity.
  - destruct (str_ltb k k0); simpl; [reflexivity|].
    destruct (str_eqb k' k0) eqn:E0.
    + apply str_eqb_eq in E0. subst k0.
      destruct (str_eqb k' k) eqn:E; [|reflexivity]. apply str_eqb_eq in E. subst. tauto.
    + apply IH. tauto.
Qed.

Lemma sort_ents_props {A} (l : list (str * A)) : NoDup (keys l) ->
  ssorted (sort_ents l) /\ (forall x, In x (keys (sort_ents l)) <-> In x (keys l)) /\
  (forall k, assoc k (sort_ents l) = assoc k l).
Proof.
  induction l as [|[k v] r IH]; simpl; intro N.
  - repeat split; auto.
  - inversion N as [|? ? Nk Nr]; subst. destruct (IH Nr) as (S & M & HA).
    assert (Nk' : ~ In k (keys (sort_ents r))) by (rewrite M; exact Nk).
    split; [now apply ssorted_insert|]. split.
    + intro x. rewrite keys_insert, M. intuition.
    + intro k'. rewrite assoc_insert by exact Nk'. now rewrite HA.
Qed.

Lemma assoc_lt_none {A} k (l : list (str * A)) :
  Forall (fun k' => str_ltb k k' = true) (keys l) -> assoc k l = None.
Proof.
  induction l as [|[k0 v0] r IH]; simpl; intro H; [reflexivity|].
  inversion H; subst. destruct (str_eqb k k0) eqn:E.
  - apply str_eqb_eq in E. subst. rewrite str_ltb_irrefl in H2. discriminate.
  - now apply IH.
Qed.

Lemma ssorted_unique {A} (l1 : list (str * A)) : forall l2,
  ssorted l1 -> ssorted l2 -> (forall k, assoc k l1 = assoc k l2) -> l1 = l2.
Proof.
  induction l1 as [|[k1 v1] r1 IH]; intros [|[k2 v2] r2] S1 S2 H.
  - reflexivity.
  - specialize (H k2). simpl in H. rewrite str_eqb_refl in H. discriminate.
  - specialize (H k1). simpl in H. rewrite str_eqb_refl in H. discriminate.
  - destruct S1 as [F1 S1]. destruct S2 as [F2 S2].
    assert (Ek : k1 = k2).
    { destruct (str_ltb_total k1 k2) as [E|[L|L]]; [exact E| |]; exfalso.
      - specialize (H k1). simpl in H. rewrite str_eqb_refl in H.
        assert (E : str_eqb k1 k2 = false).
        { apply str_eqb_neq. intro; subst. rewrite str_ltb_irrefl in L. discriminate. }
        rewrite E in H. rewrite assoc_lt_none in H; [discriminate|].
        rewrite Forall_forall in *. intros x Hx. eapply str_ltb_trans; eauto.
      - specialize (H k2). simpl in H. rewrite str_eqb_refl in H.
        assert (E : str_eqb k2 k1 = false).
        { apply str_eqb_neq. intro; subst. rewrite str_ltb_irrefl in L. discriminate. }
        rewrite E in H. rewrite assoc_lt_none in H; [discriminate|].
        rewrite Forall_forall in *. intros x Hx. eapply str_ltb_trans; eauto. }
    subst k2.
    assert (Ev : v1 = v2).
    { specialize (H k1). simpl in H. rewrite str_eqb_refl in H. congruence. }
    subst v2. f_equal. apply IH; auto.
    intro k. specialize (H k). simpl in H. destruct (str_eqb k k1) eqn:E; [|exact H].
    apply str_eqb_eq in E. subst. now rewrite !assoc_lt_none.
Qed.

Lemma sort_ents_ext {A} (l1 l2 : list (str * A)) :
  NoDup (keys l1) -> NoDup (keys l2) -> (forall k, assoc k l1 = assoc k l2) ->
  sort_ents l1 = sort_ents l2.
Proof.
  intros N1 N2 H. destruct (sort_ents_props l1 N1) as (S1 & _ & A1).
  destruct (sort_ents_props l2 N2) as (S2 & _ & A2).
  apply ssorted_unique; auto. intro k. now rewrite A1, A2.
Qed.

(* ------------------------------------------------------------------ *)
(* shallow content                                                     *)
(* ------------------------------------------------------------------ *)
Inductive shv := SF (d : bytes) (m : option Z) | SD (m : option Z).
Definition sh (n : node) : shv := match n with File d m => SF d m | Dir _ m => SD m end.
Definition shl (t : node) (p : list str) : option shv := option_map sh (lookup t p).
Definition ext_eq (a b : node) : Prop := forall p, shl a p = shl b p.

Definition cmap (ents : list (str * node)) : list (str * node) :=
  map (fun kn => (fst kn, canon (snd kn))) ents.

Lemma canon_dir ents m : canon (Dir ents m) = Dir (sort_ents (cmap ents)) m.
Proof.
  simpl. f_equal. f_equal. unfold cmap.
  induction ents as [|[k n] r IH]; [reflexivity|]. simpl. now rewrite IH.
Qed.

Lemma keys_cmap ents : keys (cmap ents) = keys ents.
Proof. unfold cmap, keys. rewrite map_map. reflexivity. Qed.

Lemma assoc_cmap k ents : assoc k (cmap ents) = option_map canon (assoc k ents).
Proof.
  induction ents as [|[k0 n0] r IH]; [reflexivity|]. simpl.
  destruct (str_eqb k k0); [reflexivity|exact IH].
Qed.

Theorem ext_canon : forall a b, wf_node a -> wf_node b -> ext_eq a b -> canon a = canon b.
Proof.
  induction a as [d m|e1 m1 IH] using node_ind'; intros b Wa Wb E.
  - specialize (E []). unfold shl in E. simpl in E. destruct b; simpl in E; congruence.
  - pose proof (E []) as E0. unfold shl in E0. simpl in E0.
    destruct b as [|e2 m2]; simpl in E0; [discriminate|].
    assert (m1 = m2) by congruence. subst m2.
    rewrite !canon_dir. f_equal.
    pose proof Wa as Wa'. pose proof Wb as Wb'.
    apply wf_node_dir in Wa' as (N1 & _ & _). apply wf_node_dir in Wb' as (N2 & _ & _).
    apply sort_ents_ext; rewrite ?keys_cmap; auto.
    intro k. rewrite !assoc_cmap.
    pose proof (E [k]) as Ek. unfold shl in Ek. simpl in Ek.
    destruct (assoc k e1) as [n1|] eqn:A1; destruct (assoc k e2) as [n2|] eqn:A2;
      simpl in Ek; try discriminate; [|reflexivity].
    simpl. f_equal.
    rewrite Forall_forall in IH. apply (IH (k, n1) (assoc_some_In _ _ _ A1) n2).
    + exact (wf_assoc _ _ _ _ Wa A1).
    + exact (wf_assoc _ _ _ _ Wb A2).
    + intro p. specialize (E (k :: p)). unfold shl in *. simpl in E. now rewrite A1, A2 in E.
Qed.

Theorem ext_tree_eqb a b times : wf_node a -> wf_node b -> ext_eq a b -> tree_eqb times a b = true.
Proof.
  intros Wa Wb E. unfold tree_eqb. rewrite (ext_canon a b Wa Wb E). apply node_eqb_refl.
Qed.

(* ------------------------------------------------------------------ *)
(* shallow content after put / del                                     *)
(* ------------------------------------------------------------------ *)
Lemma shl_nil t : shl t [] = Some (sh t).
Proof. reflexivity. Qed.

Lemma shl_put d : forall t c n q e m,
  lookup t d = Some (Dir e m) ->
  shl (put t (d ++ [c]) n) q =
  if list_prefix (d ++ [c]) q then shl n (skipn (length (d ++ [c])) q) else shl t q.
Proof.
  induction d as [|a d IH]; intros t c n q e m L.
  - simpl in L. inversion L; subst. simpl put. destruct q as [|x q]; [reflexivity|].
    unfold shl. simpl. rewrite (str_eqb_sym c x). destruct (str_eqb x c) eqn:E.
    + apply str_eqb_eq in E. subst. rewrite assoc_set_same. simpl. reflexivity.
    + apply str_eqb_neq in E. rewrite assoc_set_other by assumption. reflexivity.
  - simpl in L. destruct t as [|e0 m0]; [discriminate|].
    destruct (assoc a e0) as [ch|] eqn:HA; [|discriminate].
    change ((a :: d) ++ [c]) with (a :: (d ++ [c])).
    rewrite put_cons_ne by (destruct d; discriminate). rewrite HA.
    destruct q as [|x q]; [reflexivity|].
    unfold shl. simpl lookup. simpl list_prefix. simpl length. simpl skipn.
    rewrite (str_eqb_sym a x). destruct (str_eqb x a) eqn:E.
    + apply str_eqb_eq in E. subst. rewrite assoc_set_same, HA. simpl andb.
      apply (IH ch c n q e m L).
    + apply str_eqb_neq in E. rewrite assoc_set_other by assumption. reflexivity.
Qed.

Lemma assoc_del_same {A} k (l : list (str * A)) : NoDup (keys l) -> assoc k (assoc_del k l) = None.
Proof.
  induction l as [|[k0 v0] r IH]; simpl; intro N; [reflexivity|].
  inversion N; subst. destruct (str_eqb k k0) eqn:E.
  - apply str_eqb_eq in E. subst. destruct (assoc k0 r) eqn:HA; [|reflexivity].
    apply assoc_some_in in HA. contradiction.
  - simpl. rewrite E. now apply IH.
Qed.

Lemma assoc_del_other' {A} k k' (l : list (str * A)) : k' <> k -> assoc k' (assoc_del k l) = assoc k' l.
Proof.
  intro H. induction l as [|[k0 v0] r IH]; simpl; [reflexivity|].
  destruct (str_eqb k k0) eqn:E.
  - apply str_eqb_eq in E. subst. apply str_eqb_neq in H. now rewrite H.
  - simpl. now rewrite IH.
Qed.

Lemma shl_del d : forall t c q,
  wf_node t ->
  shl (del t (d ++ [c])) q = if list_prefix (d ++ [c]) q then None else shl t q.
Proof.
  induction d as [|a d IH]; intros t c q W.
  - simpl app. destruct t as [dt m|e m].
    + simpl. destruct q as [|x q]; [reflexivity|]. unfold shl. simpl.
      destruct (str_eqb c x); reflexivity.
    + simpl del. destruct q as [|x q]; [reflexivity|].
      apply wf_node_dir in W as (N & _ & _).
      unfold shl. simpl. rewrite (str_eqb_sym c x). destruct (str_eqb x c) eqn:E.
      * apply str_eqb_eq in E. subst. now rewrite assoc_del_same.
      * apply str_eqb_neq in E. now rewrite assoc_del_other'.
  - change ((a :: d) ++ [c]) with (a :: (d ++ [c])). destruct t as [dt m|e m].
    + simpl. destruct q as [|x q]; [reflexivity|]. unfold shl. simpl.
      destruct (str_eqb a x && list_prefix (d ++ [c]) q); reflexivity.
    + rewrite del_cons_ne by (destruct d; discriminate).
      destruct (assoc a e) as [ch|] eqn:HA.
      * destruct q as [|x q]; [reflexivity|].
        unfold shl. simpl lookup. simpl list_prefix.
        rewrite (str_eqb_sym a x). destruct (str_eqb x a) eqn:E.
        -- apply str_eqb_eq in E. subst. rewrite assoc_set_same, HA. simpl andb.
           apply IH. eapply wf_assoc; eauto.
        -- apply str_eqb_neq in E. rewrite assoc_set_other by assumption. reflexivity.
      * destruct q as [|x q]; [reflexivity|].
        unfold shl. simpl lookup. simpl list_prefix.
        destruct (str_eqb a x) eqn:E; [|reflexivity].
        apply str_eqb_eq in E. subst. rewrite HA. simpl.
        destruct (list_prefix (d ++ [c]) q); reflexivity.
Qed.
