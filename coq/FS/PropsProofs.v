(* Properties C05 / C06 / C10 / C11 of the FS contract, proved on the reference semantics
   (FS/Ref.v) and transferred to the MemoryFS model (FS/Mem.v) through the refinement
   theorem of FS/RefineProofs.v. *)
From Coq Require Import List NArith ZArith Bool Arith Lia.
From PyFS Require Import Base.PyStr Base.Outcome Path.PathModel Path.PathSpec Path.PathProofs
     FS.Tree FS.Monad FS.Mode FS.Base FS.Mem FS.Ops FS.Ref FS.Agree FS.Props FS.Wf
     FS.TreeLemmas FS.RefineLemmas FS.RefineProofs.
Import ListNotations.

(* ================================================================== *)
(* C06: failures are fs.errors exceptions for a real cause and change  *)
(* nothing                                                             *)
(* ================================================================== *)

(* a reference step of a covered call: never RAny, and a failing verdict keeps the tree *)
Definition okstep (t : node) (r : rstep) : Prop :=
  match rs_res r with
  | ROk _ => True
  | RAny => False
  | _ => rs_tree r = Some t
  end.

Lemma okstep_fail t adm : okstep t (fail t adm).
Proof. reflexivity. Qed.

Lemma okstep_with1 t p k : (forall cs, okstep t (k cs)) -> okstep t (with1 t p k).
Proof. intro H. unfold with1. destruct (rpath p); [apply H|apply okstep_fail]. Qed.

Lemma okstep_with2 t p q k : (forall a b, okstep t (k a b)) -> okstep t (with2 t p q k).
Proof.
  intro H. unfold with2. destruct (rpath p), (rpath q); try apply okstep_fail. apply H.
Qed.

Ltac okcrush :=
  repeat (match goal with
          | |- okstep _ (fail _ _) => apply okstep_fail
          | |- okstep _ (same _ _) => exact I || reflexivity
          | |- okstep _ {| rs_tree := _; rs_res := ROk _ |} => exact I
          | |- okstep _ (if ?x then _ else _) => destruct x
          | |- okstep _ (match ?x with _ => _ end) => destruct x
          end).

Lemma okstep_getinfo t cs : okstep t (ref_getinfo t cs).
Proof. unfold ref_getinfo. okcrush. Qed.

Lemma okstep_listing t cs k : okstep t (ref_listing t cs k).
Proof. unfold ref_listing. okcrush. Qed.

Lemma okstep_makedir t cs r : okstep t (ref_makedir t cs r).
Proof. unfold ref_makedir. okcrush. Qed.

Lemma okstep_open t cs mode wr rd : okstep t (ref_open t cs mode wr rd).
Proof. unfold ref_open. okcrush. Qed.

Lemma okstep_remove t cs : okstep t (ref_remove t cs).
Proof. unfold ref_remove. okcrush. Qed.

Lemma okstep_removedir t cs : okstep t (ref_removedir t cs).
Proof. unfold ref_removedir. okcrush. Qed.

Lemma okstep_removetree t cs : okstep t (ref_removetree t cs).
Proof. unfold ref_removetree. okcrush. Qed.

Lemma okstep_setinfo t cs mt : okstep t (ref_setinfo t cs mt).
Proof. unfold ref_setinfo. okcrush. Qed.

Lemma okstep_move t a b o pt : okstep t (ref_move t a b o pt).
Proof. unfold ref_move. okcrush. Qed.

Lemma okstep_copy t a b o pt : okstep t (ref_copy t a b o pt).
Proof. unfold ref_copy. okcrush. Qed.

Lemma okstep_query t p k :
  (forall cs, match k cs with RAny => False | _ => True end) -> okstep t (ref_query t p k).
Proof.
  intro H. unfold ref_query. apply okstep_with1. intro cs. specialize (H cs).
  unfold okstep, same. simpl. destruct (k cs); auto.
Qed.

Lemma okstep_covered o t : covered o = true -> okstep t (ref_run o t).
Proof.
  intro C. destruct o; try discriminate C; cbn [ref_run];
    try (apply okstep_with1; intro cs);
    try (apply okstep_with2; intros a b);
    auto using okstep_getinfo, okstep_listing, okstep_makedir, okstep_open, okstep_remove,
      okstep_removedir, okstep_removetree, okstep_setinfo, okstep_move, okstep_copy.
  - (* OCreate *)
    destruct (negb wipe && exists_st (status_of t cs)); [exact I|].
    pose proof (okstep_open t cs m_wb None false) as H. cbv zeta.
    unfold okstep in *. destruct (rs_res (ref_open t cs m_wb None false)) eqn:E; rewrite ?E; auto.
  - (* OTouch *)
    destruct (lookup t cs); [exact I|apply okstep_open].
  - (* OOpenwrite *)
    destruct (negb (mode_valid_bin mode)); [reflexivity|].
    apply okstep_with1; intro cs. apply okstep_open.
  - (* OOpenread *)
    destruct (negb (mode_valid_bin mode)); [reflexivity|].
    apply okstep_with1; intro cs. apply okstep_open.
  - exact I.
  - exact I.
  - exact I.
  - unfold okstep, same; simpl. destruct (lookup t cs); simpl; auto.
  - unfold okstep, same; simpl. destruct (lookup t cs); simpl; auto.
Qed.

(* T3 *)
Theorem ref_fail_keeps_tree : forall o t adm,
  covered o = true -> rs_res (ref_run o t) = RFail adm -> rs_tree (ref_run o t) = Some t.
Proof.
  intros o t adm C H. pose proof (okstep_covered o t C) as K. unfold okstep in K.
  now rewrite H in K.
Qed.

Theorem ref_valueerror_keeps_tree : forall o t,
  covered o = true -> rs_res (ref_run o t) = RValueError -> rs_tree (ref_run o t) = Some t.
Proof.
  intros o t C H. pose proof (okstep_covered o t C) as K. unfold okstep in K.
  now rewrite H in K.
Qed.

Theorem ref_covered_not_any : forall o t, covered o = true -> rs_res (ref_run o t) <> RAny.
Proof.
  intros o t C H. pose proof (okstep_covered o t C) as K. unfold okstep in K.
  now rewrite H in K.
Qed.

Lemma agree_parts obs r : agree obs r = true ->
  res_agree (snd obs) (rs_res r) = true /\
  match rs_tree r with Some t => tree_eqb true (fst obs) t = true | None => True end.
Proof.
  unfold agree. intro H. apply andb_true_iff in H as [H1 H2]. split; [exact H1|].
  destruct (rs_tree r); auto.
Qed.

(* T1 *)
Theorem mem_no_foreign_exception : forall o s k,
  wf s -> covered o = true -> snd (mem_run o s) = Crash k ->
  k = ValueError /\ rs_res (ref_run o s) = RValueError.
Proof.
  intros o s k W C H. destruct (agree_parts _ _ (mem_refines_ref o s W C)) as [A _].
  rewrite H in A. unfold res_agree in A.
  destruct k; try discriminate A; destruct (rs_res (ref_run o s)); try discriminate A; auto.
Qed.

(* T2 *)
Theorem mem_error_admissible : forall o s e,
  wf s -> covered o = true -> snd (mem_run o s) = Err e ->
  exists adm, rs_res (ref_run o s) = RFail adm /\ In e adm.
Proof.
  intros o s e W C H. destruct (agree_parts _ _ (mem_refines_ref o s W C)) as [A _].
  rewrite H in A. unfold res_agree in A.
  pose proof (ref_covered_not_any o s C) as NA.
  destruct (rs_res (ref_run o s)) as [v|adm| |]; try discriminate A; [|congruence].
  exists adm. split; [reflexivity|].
  apply existsb_exists in A as [x [Hin Hx]]. apply ecls_eqb_eq in Hx. now subst.
Qed.

(* T4 *)
Theorem mem_failed_call_is_noop : forall o s e,
  wf s -> covered o = true -> snd (mem_run o s) = Err e ->
  tree_eqb true (fst (mem_run o s)) s = true.
Proof.
  intros o s e W C H. destruct (mem_error_admissible o s e W C H) as (adm & Hr & _).
  destruct (agree_parts _ _ (mem_refines_ref o s W C)) as [_ A].
  now rewrite (ref_fail_keeps_tree o s adm C Hr) in A.
Qed.

(* the documented ValueError also changes nothing *)
Theorem mem_crashed_call_is_noop : forall o s k,
  wf s -> covered o = true -> snd (mem_run o s) = Crash k ->
  tree_eqb true (fst (mem_run o s)) s = true.
Proof.
  intros o s k W C H. destruct (mem_no_foreign_exception o s k W C H) as (_ & Hr).
  destruct (agree_parts _ _ (mem_refines_ref o s W C)) as [_ A].
  now rewrite (ref_valueerror_keeps_tree o s C Hr) in A.
Qed.

(* ================================================================== *)
(* C11: equivalent spellings of a path are interchangeable             *)
(* ================================================================== *)

(* T5 *)
Theorem rpath_spelling : forall p p',
  has_char Ref.nul p = false -> has_char Ref.nul p' = false ->
  resolve (comps p) = resolve (comps p') -> rpath p = rpath p'.
Proof. intros p p' H H' E. unfold rpath. now rewrite H, H', E. Qed.

(* o and o' are the same call up to the spelling of their path arguments *)
Definition same_call (o o' : op) : Prop :=
  match o, o' with
  | OGetinfo p, OGetinfo p' => rpath p = rpath p'
  | OListdir p, OListdir p' => rpath p = rpath p'
  | OScandir p, OScandir p' => rpath p = rpath p'
  | OMakedir p r, OMakedir p' r' => rpath p = rpath p' /\ r = r'
  | OMakedirs p r, OMakedirs p' r' => rpath p = rpath p' /\ r = r'
  | OWritebytes p d, OWritebytes p' d' => rpath p = rpath p' /\ d = d'
  | OAppendbytes p d, OAppendbytes p' d' => rpath p = rpath p' /\ d = d'
  | OReadbytes p, OReadbytes p' => rpath p = rpath p'
  | OCreate p w, OCreate p' w' => rpath p = rpath p' /\ w = w'
  | OTouch p, OTouch p' => rpath p = rpath p'
  | OOpenwrite p m d, OOpenwrite p' m' d' => rpath p = rpath p' /\ m = m' /\ d = d'
  | OOpenread p m, OOpenread p' m' => rpath p = rpath p' /\ m = m'
  | ORemove p, ORemove p' => rpath p = rpath p'
  | ORemovedir p, ORemovedir p' => rpath p = rpath p'
  | ORemovetree p, ORemovetree p' => rpath p = rpath p'
  | OMove s d o t, OMove s' d' o' t' =>
    rpath s = rpath s' /\ rpath d = rpath d' /\ o = o' /\ t = t'
  | OCopy s d o t, OCopy s' d' o' t' =>
    rpath s = rpath s' /\ rpath d = rpath d' /\ o = o' /\ t = t'
  | OMovedir s d o t, OMovedir s' d' o' t' =>
    rpath s = rpath s' /\ rpath d = rpath d' /\ o = o' /\ t = t'
  | OCopydir s d o t, OCopydir s' d' o' t' =>
    rpath s = rpath s' /\ rpath d = rpath d' /\ o = o' /\ t = t'
  | OSetinfo p m, OSetinfo p' m' => rpath p = rpath p' /\ m = m'
  | OExists p, OExists p' => rpath p = rpath p'
  | OIsdir p, OIsdir p' => rpath p = rpath p'
  | OIsfile p, OIsfile p' => rpath p = rpath p'
  | OIsempty p, OIsempty p' => rpath p = rpath p'
  | OGetsize p, OGetsize p' => rpath p = rpath p'
  | OGettype p, OGettype p' => rpath p = rpath p'
  | _, _ => False
  end.

Ltac split_and :=
  repeat match goal with H : _ /\ _ |- _ => destruct H end.

(* T6: the reference semantics sees a path only through rpath (all 26 calls) *)
Theorem ref_spelling : forall o o' t, same_call o o' -> ref_run o t = ref_run o' t.
Proof.
  intros o o' t H.
  destruct o, o'; simpl in H; try contradiction; split_and; subst;
    cbn [ref_run]; unfold ref_query, with1, with2;
    repeat match goal with E : rpath _ = rpath _ |- _ => rewrite E; clear E end;
    reflexivity.
Qed.

(* validatepath as a function of rpath: both spellings give the SAME state transformer *)
Lemma validatepath_fun_inl p cs :
  rpath p = inl cs -> mem_validatepath p = (fun s => (s, Ok (to_path true cs))).
Proof.
  intro H. pose proof (rpath_good _ _ H) as G. apply rpath_inl in H as [H1 H2].
  unfold mem_validatepath. rewrite H1, normpath_spec. unfold spec_normpath. rewrite H2.
  unfold mbind, lift, ret. cbv beta iota. now rewrite abspath_nf_gen.
Qed.

Lemma validatepath_fun_inr p adm :
  rpath p = inr adm -> mem_validatepath p = (fun s => (s, Err (bad_err p))).
Proof.
  unfold rpath, mem_validatepath, bad_err. change Ref.nul with Mem.nul.
  destruct (has_char Mem.nul p); [reflexivity|].
  rewrite normpath_spec. unfold spec_normpath.
  destruct (resolve (comps p)); simpl; [discriminate|reflexivity].
Qed.

Lemma bad_err_spelling p p' adm : rpath p = rpath p' -> rpath p = inr adm -> bad_err p = bad_err p'.
Proof.
  unfold rpath, bad_err. change Ref.nul with Mem.nul.
  destruct (has_char Mem.nul p), (has_char Mem.nul p'),
    (resolve (comps p)), (resolve (comps p')); simpl; intros H1 H2;
    try reflexivity; try discriminate.
Qed.

Lemma validatepath_fun_spelling p p' : rpath p = rpath p' -> mem_validatepath p = mem_validatepath p'.
Proof.
  intro H. destruct (rpath p) as [cs|adm] eqn:R.
  - rewrite (validatepath_fun_inl _ _ R). symmetry in H. now rewrite (validatepath_fun_inl _ _ H).
  - rewrite (validatepath_fun_inr _ _ R). symmetry in H. rewrite (validatepath_fun_inr _ _ H).
    symmetry in H. rewrite <- R in H. now rewrite (bad_err_spelling _ _ _ H R).
Qed.

(* T7: no extra NUL hypothesis is needed: rpath records whether NUL occurs *)
Theorem mem_validatepath_spelling : forall p p' s,
  rpath p = rpath p' -> mem_validatepath p s = mem_validatepath p' s.
Proof. intros p p' s H. now rewrite (validatepath_fun_spelling _ _ H). Qed.

(* T8, for every covered call, as an equality of state transformers (wf not needed) *)
Theorem mem_spelling_fun : forall o o',
  same_call o o' -> covered o = true -> mem_run o = mem_run o'.
Proof.
  intros o o' H C.
  destruct o, o'; simpl in H; try contradiction; try discriminate C; split_and; subst;
    repeat progress
      (unfold mem_run, mem_makedir, mem_opendir, mem_getinfo, mem_listdir, mem_scandir,
         mem_writebytes, mem_appendbytes, mem_readbytes, mem_create, mem_touch,
         mem_exists, mem_isdir, mem_isfile, mem_isempty, mem_getsize, mem_gettype,
         b_writebytes, b_appendbytes, b_readbytes, b_create, b_touch, b_exists, b_isdir,
         b_isfile, b_isempty, b_getsize, b_gettype, mem_copy, b_copy, mem_move,
         mem_removedir, mem_scandir, mem_removetree, mem_remove, mem_setinfo,
         mem_openread, mem_openwrite, mem_open;
       cbn [l_validatepath l_getinfo l_listdir l_scandir l_makedir l_openread l_openwrite
            l_remove l_removedir l_removetree l_setinfo mem_low]);
    repeat match goal with
           | E : rpath _ = rpath _ |- _ =>
             rewrite (validatepath_fun_spelling _ _ E); clear E
           end;
    reflexivity.
Qed.

Theorem mem_spelling : forall o o' s,
  wf s -> same_call o o' -> covered o = true -> mem_run o s = mem_run o' s.
Proof. intros o o' s _ H C. now rewrite (mem_spelling_fun o o' H C). Qed.

(* ================================================================== *)
(* C10: the queries of MemoryFS agree with each other                  *)
(* ================================================================== *)

Lemma mem_isdir_spec p cs s : rpath p = inl cs ->
  mem_isdir p s = (s, Ok (match lookup s cs with Some n => is_dir n | None => false end)).
Proof.
  intro R. unfold mem_isdir, b_isdir. cbn [l_getinfo mem_low]. mstep.
  rewrite (mem_getinfo_spec _ _ s R). destruct (lookup s cs); reflexivity.
Qed.

Lemma mem_isdir_bad p adm s : rpath p = inr adm -> mem_isdir p s = (s, Err (bad_err p)).
Proof.
  intro R. unfold mem_isdir, b_isdir. cbn [l_getinfo mem_low]. mstep.
  rewrite (mem_getinfo_bad _ _ s R). mstep. now rewrite bad_err_not_rnf.
Qed.

Lemma mem_isfile_spec p cs s : rpath p = inl cs ->
  mem_isfile p s = (s, Ok (match lookup s cs with Some n => negb (is_dir n) | None => false end)).
Proof.
  intro R. unfold mem_isfile, b_isfile. cbn [l_getinfo mem_low]. mstep.
  rewrite (mem_getinfo_spec _ _ s R). destruct (lookup s cs); reflexivity.
Qed.

Lemma mem_isfile_bad p adm s : rpath p = inr adm -> mem_isfile p s = (s, Err (bad_err p)).
Proof.
  intro R. unfold mem_isfile, b_isfile. cbn [l_getinfo mem_low]. mstep.
  rewrite (mem_getinfo_bad _ _ s R). mstep. now rewrite bad_err_not_rnf.
Qed.

Lemma mem_isempty_spec p cs s : rpath p = inl cs ->
  mem_isempty p s =
  (s, match lookup s cs with
      | None => Err ResourceNotFound
      | Some (File _ _) => Err DirectoryExpected
      | Some (Dir ents _) => Ok (match ents with [] => true | _ => false end)
      end).
Proof.
  intro R. unfold mem_isempty, b_isempty. cbn [l_scandir mem_low]. mstep.
  rewrite (mem_scandir_spec _ _ s R). destruct (lookup s cs) as [[|[|? ?] ?]|]; reflexivity.
Qed.

Lemma mem_isempty_bad p adm s : rpath p = inr adm -> mem_isempty p s = (s, Err (bad_err p)).
Proof.
  intro R. unfold mem_isempty, b_isempty. cbn [l_scandir mem_low]. mstep.
  now rewrite (mem_scandir_bad _ _ s R).
Qed.

Lemma mem_getsize_spec p cs s : rpath p = inl cs ->
  mem_getsize p s =
  (s, match lookup s cs with Some n => Ok (node_size n) | None => Err ResourceNotFound end).
Proof.
  intro R. unfold mem_getsize, b_getsize. cbn [l_getinfo mem_low]. mstep.
  rewrite (mem_getinfo_spec _ _ s R). destruct (lookup s cs); reflexivity.
Qed.

Lemma mem_getsize_bad p adm s : rpath p = inr adm -> mem_getsize p s = (s, Err (bad_err p)).
Proof.
  intro R. unfold mem_getsize, b_getsize. cbn [l_getinfo mem_low]. mstep.
  now rewrite (mem_getinfo_bad _ _ s R).
Qed.

Lemma mem_gettype_spec p cs s : rpath p = inl cs ->
  mem_gettype p s =
  (s, match lookup s cs with
      | Some n => Ok (if is_dir n then 1 else 2)
      | None => Err ResourceNotFound
      end).
Proof.
  intro R. unfold mem_gettype, b_gettype. cbn [l_getinfo mem_low]. mstep.
  rewrite (mem_getinfo_spec _ _ s R). destruct (lookup s cs); reflexivity.
Qed.

Lemma mem_gettype_bad p adm s : rpath p = inr adm -> mem_gettype p s = (s, Err (bad_err p)).
Proof.
  intro R. unfold mem_gettype, b_gettype. cbn [l_getinfo mem_low]. mstep.
  now rewrite (mem_getinfo_bad _ _ s R).
Qed.

Lemma mem_readbytes_spec p cs s : rpath p = inl cs ->
  mem_readbytes p s =
  (s, match cs with
      | [] => Err FileExpected
      | _ => match lookup s cs with
             | Some (File data _) => Ok data
             | Some (Dir _ _) => Err FileExpected
             | None => Err ResourceNotFound
             end
      end).
Proof.
  intro R. unfold mem_readbytes, b_readbytes. cbn [l_openread mem_low].
  destruct (list_snoc_case cs) as [->|[d [c ->]]].
  - now rewrite (mem_openread_root _ s R).
  - rewrite (mem_openread_snoc _ _ _ s R), lookup_snoc.
    destruct (d ++ [c]) eqn:E; [destruct d; discriminate|].
    destruct (lookup s d) as [[|ents m]|]; try reflexivity.
    destruct (assoc c ents) as [[|]|]; reflexivity.
Qed.

Lemma mem_readbytes_bad p adm s : rpath p = inr adm -> mem_readbytes p s = (s, Err (bad_err p)).
Proof.
  intro R. unfold mem_readbytes, b_readbytes. cbn [l_openread mem_low].
  now rewrite (mem_openread_bad _ _ s R).
Qed.

(* every query leaves the state unchanged (any state, any raw path) *)
Theorem mem_query_pure : forall p s,
  fst (mem_getinfo p s) = s /\ fst (mem_listdir p s) = s /\ fst (mem_scandir p s) = s /\
  fst (mem_exists p s) = s /\ fst (mem_isdir p s) = s /\ fst (mem_isfile p s) = s /\
  fst (mem_isempty p s) = s /\ fst (mem_getsize p s) = s /\ fst (mem_gettype p s) = s /\
  fst (mem_readbytes p s) = s /\ fst (mem_validatepath p s) = s.
Proof.
  intros p s. unfold mem_exists. destruct (rpath p) as [cs|adm] eqn:R.
  - rewrite (mem_getinfo_spec _ _ s R), (mem_listdir_spec _ _ s R), (mem_scandir_spec _ _ s R),
      (mem_exists_spec _ _ s R), (mem_isdir_spec _ _ s R), (mem_isfile_spec _ _ s R),
      (mem_isempty_spec _ _ s R), (mem_getsize_spec _ _ s R), (mem_gettype_spec _ _ s R),
      (mem_readbytes_spec _ _ s R), (validate_inl _ _ s R).
    repeat split; reflexivity.
  - rewrite (mem_getinfo_bad _ _ s R), (mem_listdir_bad _ _ s R), (mem_scandir_bad _ _ s R),
      (mem_exists_bad _ _ s R), (mem_isdir_bad _ _ s R), (mem_isfile_bad _ _ s R),
      (mem_isempty_bad _ _ s R), (mem_getsize_bad _ _ s R), (mem_gettype_bad _ _ s R),
      (mem_readbytes_bad _ _ s R), (validate_inr _ _ s R).
    repeat split; reflexivity.
Qed.

Ltac inv H := inversion H; subst; clear H.

(* T9 *)
Theorem q_exists : forall p s b d f,
  mem_exists p s = (s, Ok b) -> mem_isdir p s = (s, Ok d) -> mem_isfile p s = (s, Ok f) ->
  b = d || f /\ d && f = false.
Proof.
  intros p s b d f. unfold mem_exists. destruct (rpath p) as [cs|adm] eqn:R.
  - rewrite (mem_exists_spec _ _ s R), (mem_isdir_spec _ _ s R), (mem_isfile_spec _ _ s R).
    intros H1 H2 H3. inv H1. inv H2. inv H3.
    destruct (lookup s cs) as [n|]; [destruct (is_dir n)|]; auto.
  - rewrite (mem_exists_bad _ _ s R). discriminate.
Qed.

(* T10 (the statement quantifies the scandir result existentially) *)
Theorem q_listdir_scandir : forall p s names,
  wf s -> mem_listdir p s = (s, Ok names) ->
  exists infos, mem_scandir p s = (s, Ok infos) /\ names = map i_name infos /\ NoDup names.
Proof.
  intros p s names W. destruct (rpath p) as [cs|adm] eqn:R.
  - rewrite (mem_listdir_spec _ _ s R), (mem_scandir_spec _ _ s R).
    destruct (lookup s cs) as [[|ents m]|] eqn:L; intro H; try discriminate. inv H.
    eexists. split; [reflexivity|]. split.
    + unfold keys. rewrite map_map. reflexivity.
    + destruct W as [_ W]. pose proof (wf_lookup _ _ _ W L) as Wn. simpl in Wn. tauto.
  - rewrite (mem_listdir_bad _ _ s R). discriminate.
Qed.

(* and conversely: a successful scandir determines listdir *)
Theorem q_scandir_listdir : forall p s infos,
  mem_scandir p s = (s, Ok infos) -> mem_listdir p s = (s, Ok (map i_name infos)).
Proof.
  intros p s infos. destruct (rpath p) as [cs|adm] eqn:R.
  - rewrite (mem_listdir_spec _ _ s R), (mem_scandir_spec _ _ s R).
    destruct (lookup s cs) as [[|ents m]|] eqn:L; intro H; try discriminate. inv H.
    unfold keys. rewrite map_map. reflexivity.
  - rewrite (mem_scandir_bad _ _ s R). discriminate.
Qed.

(* T11 *)
Theorem q_isempty : forall p s b,
  mem_isempty p s = (s, Ok b) -> (b = true <-> mem_listdir p s = (s, Ok [])).
Proof.
  intros p s b. destruct (rpath p) as [cs|adm] eqn:R.
  - rewrite (mem_isempty_spec _ _ s R), (mem_listdir_spec _ _ s R).
    destruct (lookup s cs) as [[|ents m]|] eqn:L; intro H; try discriminate. inv H.
    destruct ents as [|[k n] r]; simpl; split; intro H; try reflexivity; discriminate.
  - rewrite (mem_isempty_bad _ _ s R). discriminate.
Qed.

(* T12 *)
Theorem q_getsize : forall p s data,
  mem_readbytes p s = (s, Ok data) ->
  mem_getsize p s = (s, Ok (length data)) /\
  exists i, mem_getinfo p s = (s, Ok i) /\ i_size i = length data /\ i_isdir i = false.
Proof.
  intros p s data. destruct (rpath p) as [cs|adm] eqn:R.
  - rewrite (mem_readbytes_spec _ _ s R), (mem_getsize_spec _ _ s R), (mem_getinfo_spec _ _ s R).
    destruct cs as [|c0 cs0]; [discriminate|].
    destruct (lookup s (c0 :: cs0)) as [[dt m|ents m]|]; intro H; try discriminate. inv H.
    split; [reflexivity|]. eexists. split; [reflexivity|]. split; reflexivity.
  - rewrite (mem_readbytes_bad _ _ s R). discriminate.
Qed.

(* T13 *)
Theorem q_gettype : forall p s i,
  mem_getinfo p s = (s, Ok i) ->
  mem_gettype p s = (s, Ok (if i_isdir i then 1 else 2)) /\
  mem_isdir p s = (s, Ok (i_isdir i)) /\
  mem_isfile p s = (s, Ok (negb (i_isdir i))).
Proof.
  intros p s i. destruct (rpath p) as [cs|adm] eqn:R.
  - rewrite (mem_getinfo_spec _ _ s R), (mem_gettype_spec _ _ s R), (mem_isdir_spec _ _ s R),
      (mem_isfile_spec _ _ s R).
    destruct (lookup s cs) as [n|]; intro H; try discriminate. inv H.
    repeat split; reflexivity.
  - rewrite (mem_getinfo_bad _ _ s R). discriminate.
Qed.

(* ================================================================== *)
(* C05: move, copy and removetree never destroy unrelated data         *)
(* ================================================================== *)

(* ---- files_of versus lookup ---- *)
Definition files_ents (l : list (str * node)) : list (list str * bytes) :=
  flat_map (fun kn => map (fun pb => (fst kn :: fst pb, snd pb)) (files_of (snd kn))) l.

Lemma files_of_dir ents m : files_of (Dir ents m) = files_ents ents.
Proof.
  induction ents as [|[k n] r IH]; [reflexivity|].
  change (files_of (Dir ((k, n) :: r) m))
    with (map (fun pb => (k :: fst pb, snd pb)) (files_of n) ++ files_of (Dir r m)).
  now rewrite IH.
Qed.

Lemma In_assoc_NoDup {A} k (v : A) l : NoDup (keys l) -> In (k, v) l -> assoc k l = Some v.
Proof.
  induction l as [|[k' v'] r IH]; simpl; intros N H; [contradiction|].
  inversion N as [|? ? Hn Nr]; subst. destruct H as [H|H].
  - inversion H; subst. now rewrite str_eqb_refl.
  - destruct (str_eqb k k') eqn:E.
    + apply str_eqb_eq in E. subst k'. exfalso. apply Hn.
      change k with (fst (k, v)). now apply in_map.
    + now apply IH.
Qed.

Lemma files_of_lookup : forall t, wf_node t ->
  forall p d, In (p, d) (files_of t) -> exists m, lookup t p = Some (File d m).
Proof.
  induction t as [d0 m0|ents m0 IH] using node_ind'; intros W p d H.
  - simpl in H. destruct H as [H|[]]. inversion H; subst. now exists m0.
  - rewrite files_of_dir in H. unfold files_ents in H.
    apply in_flat_map in H as [[k n] [Hin H]]. apply in_map_iff in H as [[p' d'] [E H]].
    simpl in E. inversion E; subst. clear E.
    pose proof W as W0. simpl in W. destruct W as [N _].
    pose proof (In_assoc_NoDup _ _ _ N Hin) as Ha.
    rewrite Forall_forall in IH. specialize (IH _ Hin). simpl in IH.
    destruct (IH (wf_assoc _ _ _ _ W0 Ha) _ _ H) as [m Hm].
    exists m. simpl. now rewrite Ha.
Qed.

Lemma has_file_lookup t p d m : lookup t p = Some (File d m) -> has_file t p d = true.
Proof. intro H. unfold has_file, file_at. rewrite H. apply str_eqb_refl. Qed.

Lemma all_files_kept_intro t t' ex : wf_node t ->
  (forall p d m, lookup t p = Some (File d m) -> ex p = true \/ has_file t' p d = true) ->
  all_files_kept t t' ex = true.
Proof.
  intros W H. unfold all_files_kept. apply forallb_forall. intros [p d] Hin.
  destruct (files_of_lookup t W p d Hin) as [m Hm]. simpl.
  apply orb_true_iff. eapply H; eauto.
Qed.

Lemma kept_same t ex : wf_node t -> all_files_kept t t ex = true.
Proof.
  intro W. apply all_files_kept_intro; [assumption|]. intros p d m H. right.
  eapply has_file_lookup; eauto.
Qed.

Lemma preserved_noop t o : wf t -> preserved t t o false = true.
Proof. intros [_ W]. unfold preserved. now rewrite kept_same. Qed.

(* ---- lookup of a file after del / put ---- *)
Lemma assoc_del_other {A} k k' (l : list (str * A)) : k' <> k -> assoc k' (assoc_del k l) = assoc k' l.
Proof.
  intro H. induction l as [|[k2 v2] r IH]; simpl; [reflexivity|].
  destruct (str_eqb k k2) eqn:E.
  - apply str_eqb_eq in E. subst k2. apply str_eqb_neq in H. now rewrite H.
  - simpl. now rewrite IH.
Qed.

Lemma lookup_del_file a : forall t p d m,
  lookup t p = Some (File d m) -> list_prefix a p = false ->
  lookup (del t a) p = Some (File d m).
Proof.
  induction a as [|c rest IH]; intros t p d m Hp Hn; [discriminate|].
  destruct t as [d0 m0|ents m0]; [exact Hp|].
  destruct p as [|x p'].
  - simpl in Hp. discriminate.
  - simpl in Hp. destruct (assoc x ents) as [ch|] eqn:Ex; [|discriminate].
    simpl in Hn.
    destruct rest as [|c2 rest2].
    + simpl del. simpl. rewrite andb_true_r in Hn. apply str_eqb_neq in Hn.
      rewrite assoc_del_other by congruence. now rewrite Ex.
    + remember (c2 :: rest2) as rest eqn:Er.
      assert (Hne : rest <> []) by (subst; discriminate).
      rewrite del_cons_ne by assumption.
      destruct (assoc c ents) as [ch2|] eqn:Ec.
      * destruct (str_eqb c x) eqn:Ecx.
        -- apply str_eqb_eq in Ecx. subst x. rewrite Ex in Ec. inversion Ec; subst ch2.
           simpl. rewrite assoc_set_same. apply IH; assumption.
        -- apply str_eqb_neq in Ecx. simpl. rewrite assoc_set_other by congruence.
           now rewrite Ex.
      * simpl. now rewrite Ex.
Qed.

Lemma file_no_prefix t a p d m d' m' :
  lookup t a = Some (File d m) -> lookup t p = Some (File d' m') -> a <> p ->
  list_prefix a p = false.
Proof.
  intros Ha Hp Hne. destruct (list_prefix a p) eqn:E; [|reflexivity].
  rewrite list_prefix_cprefix in E. apply cprefix_app in E as [r ->].
  destruct r as [|x r]; [now rewrite app_nil_r in Hne|].
  rewrite lookup_app, Ha in Hp. discriminate.
Qed.

Lemma status_isfile t p : status_of t p = IsFile -> exists d m, lookup t p = Some (File d m).
Proof.
  intro H. pose proof (exists_st_lookup p t) as E. rewrite H in E. simpl in E.
  destruct (lookup t p) as [n|] eqn:L; [|discriminate].
  rewrite (status_lookup_some _ _ _ L) in H. destruct n; [eauto|discriminate].
Qed.

Lemma status_isdir t p : status_of t p = IsDir -> exists e m, lookup t p = Some (Dir e m).
Proof.
  intro H. pose proof (exists_st_lookup p t) as E. rewrite H in E. simpl in E.
  destruct (lookup t p) as [n|] eqn:L; [|discriminate].
  rewrite (status_lookup_some _ _ _ L) in H. destruct n; [discriminate|eauto].
Qed.

Lemma rp_inl p cs : rpath p = inl cs -> rp p = Some cs.
Proof. intro H. unfold rp. now rewrite H. Qed.

(* what an empty set of transfer errors means *)
Lemma transfer_ok t a b o : wf t -> transfer_errors t a b o = [] ->
  (exists data mt, lookup t a = Some (File data mt)) /\
  (lookup t b = None \/ (o = true /\ exists d2 m2, lookup t b = Some (File d2 m2))) /\
  (exists dd dc ents m, b = dd ++ [dc] /\ lookup t dd = Some (Dir ents m)).
Proof.
  intros W H.
  assert (Hroot : status_of t [] = IsDir) by (destruct W as [Wd _]; simpl; now rewrite Wd).
  destruct (list_snoc_case b) as [->|[dd [dc ->]]].
  { unfold transfer_errors in H. rewrite Hroot in H.
    apply app_eq_nil in H as [_ H]. apply app_eq_nil in H as [_ H]. discriminate. }
  rewrite transfer_errors_snoc in H.
  apply app_eq_nil in H as [H1 H]. apply app_eq_nil in H as [H2 H].
  apply app_eq_nil in H as [H3 H4].
  split.
  { destruct (status_of t a) eqn:Sa; try discriminate. now apply status_isfile. }
  pview t dd dc.
  - rewrite Hsc, Hs in H4. discriminate.
  - rewrite Hsc, Hs in H4. discriminate.
  - rewrite Hsc, Hs in H4. discriminate.
  - split; [now left|]. eauto 6.
  - rewrite Hsc in H2, H3. destruct n as [d2 m2|e2 m2]; simpl in H2, H3; [|discriminate].
    destruct o; [|discriminate]. split; [|eauto 6]. right. eauto.
Qed.

Definition ok_res (r : rres) : bool := match r with ROk _ => true | _ => false end.

Lemma pres_move s d a b o pt t t' :
  wf t -> rpath s = inl a -> rpath d = inl b ->
  rs_tree (ref_move t a b o pt) = Some t' ->
  preserved t t' (OMove s d o pt) (ok_res (rs_res (ref_move t a b o pt))) = true.
Proof.
  intros W Ra Rb. unfold ref_move.
  destruct (transfer_errors t a b o) as [|e0 es] eqn:TE.
  2:{ simpl. intro H. inversion H; subst. now apply preserved_noop. }
  destruct (transfer_ok t a b o W TE) as ((data & mt & La) & Lb & (dd & dc & ents & m & Eb & Ld)).
  pose proof W as [_ Wn].
  destruct (path_eqb a b) eqn:E.
  - simpl. intro H. inversion H; subst t'. unfold preserved. rewrite kept_same by assumption.
    simpl. rewrite (rp_inl _ _ Ra), (rp_inl _ _ Rb). unfold file_at. rewrite La.
    apply path_eqb_eq in E. rewrite <- E. rewrite (has_file_lookup _ _ _ _ La). reflexivity.
  - rewrite La. simpl. intro H. inversion H; subst t'. clear H.
    assert (Hab : a <> b) by (intro X; subst; now rewrite path_eqb_refl in E).
    assert (Lb' : lookup t b = None \/ exists d2 m2, lookup t b = Some (File d2 m2))
      by (destruct Lb as [Lb|[_ Lb]]; auto).
    assert (Pa : lookup (put t b (File data mt)) a = Some (File data mt))
      by (apply lookup_put_file; auto).
    assert (Pb : lookup (put t b (File data mt)) b = Some (File data mt))
      by (subst b; eapply lookup_put_same; eauto).
    unfold preserved. apply andb_true_iff. split.
    + apply all_files_kept_intro; [assumption|]. intros p d0 m0 Hp.
      simpl. rewrite (rp_inl _ _ Ra), (rp_inl _ _ Rb).
      destruct (path_eqb p a) eqn:Epa; [now left|].
      destruct (path_eqb p b) eqn:Epb.
      * apply path_eqb_eq in Epb. subst p. left.
        destruct Lb as [Lb|[-> _]]; [congruence|reflexivity].
      * right. assert (p <> a) by (intro X; subst; now rewrite path_eqb_refl in Epa).
        assert (p <> b) by (intro X; subst; now rewrite path_eqb_refl in Epb).
        assert (Pp : lookup (put t b (File data mt)) p = Some (File d0 m0))
          by (apply lookup_put_file; auto).
        eapply has_file_lookup. apply lookup_del_file; [exact Pp|].
        eapply file_no_prefix; eauto.
    + simpl. rewrite (rp_inl _ _ Ra), (rp_inl _ _ Rb). unfold file_at. rewrite La.
      rewrite andb_true_r. eapply has_file_lookup. apply lookup_del_file; [exact Pb|].
      eapply file_no_prefix; eauto.
Qed.

Lemma pres_copy s d a b o pt t t' :
  wf t -> rpath s = inl a -> rpath d = inl b ->
  rs_tree (ref_copy t a b o pt) = Some t' ->
  preserved t t' (OCopy s d o pt) (ok_res (rs_res (ref_copy t a b o pt))) = true.
Proof.
  intros W Ra Rb. unfold ref_copy.
  destruct (transfer_errors t a b o ++ (if path_eqb a b then [IllegalDestination] else []))
    as [|e0 es] eqn:TE0.
  2:{ simpl. intro H. inversion H; subst. now apply preserved_noop. }
  apply app_eq_nil in TE0 as [TE E].
  destruct (path_eqb a b) eqn:E'; [discriminate|]. clear E.
  destruct (transfer_ok t a b o W TE) as ((data & mt & La) & Lb & (dd & dc & ents & m & Eb & Ld)).
  pose proof W as [_ Wn].
  rewrite La. simpl. intro H. inversion H; subst t'. clear H.
  set (F := File data (if pt then mt
                      else match data with
                           | [] => match lookup t b with Some (File _ m1) => m1 | _ => None end
                           | _ :: _ => None
                           end)).
  assert (Hab : a <> b) by (intro X; subst; now rewrite path_eqb_refl in E').
  assert (Lb' : lookup t b = None \/ exists d2 m2, lookup t b = Some (File d2 m2))
    by (destruct Lb as [Lb|[_ Lb]]; auto).
  assert (Pa : lookup (put t b F) a = Some (File data mt)) by (apply lookup_put_file; auto).
  assert (Pb : lookup (put t b F) b = Some F) by (subst b; eapply lookup_put_same; eauto).
  unfold preserved. apply andb_true_iff. split.
  - apply all_files_kept_intro; [assumption|]. intros p d0 m0 Hp.
    simpl. rewrite (rp_inl _ _ Ra), (rp_inl _ _ Rb).
    destruct (path_eqb p b) eqn:Epb.
    + apply path_eqb_eq in Epb. subst p. left.
      destruct Lb as [Lb|[-> _]]; [congruence|reflexivity].
    + right. assert (p <> b) by (intro X; subst; now rewrite path_eqb_refl in Epb).
      eapply has_file_lookup. apply lookup_put_file; eauto.
  - simpl. rewrite (rp_inl _ _ Ra), (rp_inl _ _ Rb). unfold file_at. rewrite La.
    rewrite (has_file_lookup _ _ _ _ Pa). rewrite andb_true_r.
    unfold F in Pb. eapply has_file_lookup; eauto.
Qed.

Lemma pres_removetree p cs t t' :
  wf t -> rpath p = inl cs ->
  rs_tree (ref_removetree t cs) = Some t' ->
  preserved t t' (ORemovetree p) (ok_res (rs_res (ref_removetree t cs))) = true.
Proof.
  intros W R. pose proof W as [_ Wn]. unfold ref_removetree.
  assert (Hdel : preserved t (del t cs) (ORemovetree p) true = true).
  { unfold preserved. simpl. rewrite (rp_inl _ _ R), andb_true_r.
    apply all_files_kept_intro; [assumption|]. intros q d0 m0 Hq.
    destruct (list_prefix cs q) eqn:E; [now left|]. right.
    eapply has_file_lookup. apply lookup_del_file; eauto. }
  destruct cs as [|c cs0].
  - simpl. intro H. inversion H; subst t'. unfold preserved. simpl.
    rewrite (rp_inl _ _ R), andb_true_r.
    apply all_files_kept_intro; [assumption|]. intros q d0 m0 Hq. now left.
  - destruct (status_of t (c :: cs0)); simpl; intro H; inversion H; subst t';
      try (now apply preserved_noop). exact Hdel.
Qed.

Definition is_mcr (o : op) : bool :=
  match o with OMove _ _ _ _ | OCopy _ _ _ _ | ORemovetree _ => true | _ => false end.

(* T15 *)
Theorem ref_preserved_move_copy_removetree : forall o t t',
  wf t -> is_mcr o = true -> rs_tree (ref_run o t) = Some t' ->
  preserved t t' o (match rs_res (ref_run o t) with ROk _ => true | _ => false end) = true.
Proof.
  intros o t t' W M. change (match rs_res (ref_run o t) with ROk _ => true | _ => false end)
    with (ok_res (rs_res (ref_run o t))).
  destruct o; try discriminate M; cbn [ref_run]; unfold with1, with2.
  - destruct (rpath p) as [cs|adm] eqn:R.
    + now apply pres_removetree.
    + simpl. intro H. inversion H; subst. now apply preserved_noop.
  - destruct (rpath s) as [a|e1] eqn:Ra; destruct (rpath d) as [b|e2] eqn:Rb;
      try (simpl; intro H; inversion H; subst; now apply preserved_noop).
    now apply pres_move.
  - destruct (rpath s) as [a|e1] eqn:Ra; destruct (rpath d) as [b|e2] eqn:Rb;
      try (simpl; intro H; inversion H; subst; now apply preserved_noop).
    now apply pres_copy.
Qed.

(* ---- the MemoryFS model reaches EXACTLY the reference tree for move / copy / removetree.
   The scripts below are those of step_removetree / step_move / step_copy in
   FS/RefineProofs.v, replayed against a strict notion of agreement (tree equality
   instead of equality of canonical forms). ---- *)
Definition sagree (obs : node * outcome value) (r : rstep) : Prop :=
  res_agree (snd obs) (rs_res r) = true /\ rs_tree r = Some (fst obs).

Definition sstep_ok (o : op) (s : node) : Prop :=
  sagree (mem_run o s) (ref_run o s) /\ wf (fst (mem_run o s)).

Lemma sfin_ok s' (v w : value) :
  wf s' -> value_eqb v w = true ->
  sagree (s', Ok v) {| rs_tree := Some s'; rs_res := ROk w |} /\ wf (fst (s', Ok v)).
Proof. intros W E. split; [|exact W]. split; [exact E|reflexivity]. Qed.

Lemma sfin_err s e adm :
  wf s -> existsb (ecls_eqb e) adm = true ->
  sagree (s, @Err value e) {| rs_tree := Some s; rs_res := RFail adm |}
  /\ wf (fst (s, @Err value e)).
Proof. intros W E. split; [|exact W]. split; [exact E|reflexivity]. Qed.

Ltac sfin_ok := unfold same; apply sfin_ok; [auto | apply value_eqb_refl].
Ltac sfin_err := unfold fail, same; apply sfin_err; [assumption | reflexivity].
Ltac sfin_bad R := unfold fail, same; apply sfin_err; [assumption | exact (bad_err_in _ _ R)].

Lemma sstep_removetree p s : wf s -> sstep_ok (ORemovetree p) s.
Proof.
  intro W. unfold sstep_ok. cbn [mem_run ref_run]. unfold with1.
  destruct (rpath p) as [cs|adm] eqn:R; mstep.
  2:{ rewrite (mem_removetree_bad _ _ s R). mstep. sfin_bad R. }
  destruct (list_snoc_case cs) as [->|[d [c ->]]].
  - rewrite (mem_removetree_root _ s R). mstep. unfold ref_removetree.
    apply sfin_ok; [|reflexivity]. now apply wf_root_clear.
  - rewrite (mem_removetree_snoc _ _ _ s R), ref_removetree_snoc.
    pview s d c; rewrite ?Hl, ?Hs, ?Hsc, ?Ha; mstep; try sfin_err.
    destruct n; cbn [is_dir]; mstep; [sfin_err|].
    apply sfin_ok; [|reflexivity]. now apply wf_del_any.
Qed.

Lemma sfin_move_err s cs cd o pt e :
  wf s -> existsb (ecls_eqb e) (transfer_errors s cs cd o) = true ->
  sagree (s, @Err value e) (ref_move s cs cd o pt) /\ wf (fst (s, @Err value e)).
Proof.
  intros W H. unfold ref_move. destruct (transfer_errors s cs cd o) as [|x l]; [discriminate|].
  unfold fail, same. now apply sfin_err.
Qed.

Lemma sstep_move src dst o pt s : wf s -> sstep_ok (OMove src dst o pt) s.
Proof.
  intro W. unfold sstep_ok. cbn [mem_run ref_run]. mstep.
  destruct (rpath src) as [cs|e1] eqn:R1.
  2:{ destruct (with2_bad1 s src dst (fun a b => ref_move s a b o pt) e1 R1) as (adm & Hr & He).
      rewrite Hr. unfold mem_move. mstep. rewrite (validate_inr _ _ s R1). mstep.
      unfold fail. apply sfin_err; assumption. }
  destruct (rpath dst) as [cd|e2] eqn:R2.
  2:{ unfold with2. rewrite R1, R2. unfold mem_move. mstep.
      rewrite (validate_inl _ _ s R1). mstep. rewrite (validate_inr _ _ s R2). mstep. sfin_bad R2. }
  unfold with2. rewrite R1, R2.
  pose proof (rpath_good _ _ R1) as G1. pose proof (rpath_good _ _ R2) as G2.
  unfold mem_move. mstep. rewrite (validate_inl _ _ s R1). mstep.
  rewrite (validate_inl _ _ s R2). mstep.
  destruct (list_snoc_case cs) as [->|[sd [sc ->]]].
  { rewrite to_path_root, psplit_root. destruct (psplit (to_path true cd)) as [dd0 dn0]. mstep.
    apply sfin_move_err; [assumption|]. unfold transfer_errors. cbn [status_of].
    destruct W as [Wd Wn]. rewrite Wd. reflexivity. }
  destruct (good_snoc _ _ G1) as [Gsd Gsc].
  rewrite (psplit_snoc true sd sc Gsd Gsc).
  destruct (list_snoc_case cd) as [->|[dd [dc ->]]].
  - (* destination is the root *)
    rewrite to_path_root, psplit_root. mstep. rewrite (good_not_empty _ Gsc).
    rewrite get_dir_entry_nf by assumption. mstep.
    pview s sd sc; rewrite ?Hl, ?Ha; mstep;
      try (apply sfin_move_err; [assumption|]; unfold transfer_errors; rewrite Hsc; reflexivity).
    destruct n as [sdata smt|e3 m3]; cbn [is_dir] in Hsc; mstep;
      try (apply sfin_move_err; [assumption|]; unfold transfer_errors; rewrite Hsc; reflexivity).
    destruct (get_dir_entry_root' s W) as (rents & rm & Es & Wr & Hg).
    rewrite Hg. mstep. rewrite (wf_assoc_nil _ _ Wr), andb_false_r. mstep.
    rewrite pjoin_root. mstep. rewrite Hg. mstep.
    assert (Hroot : status_of s [] = IsDir) by (destruct W as [Wd _]; simpl; now rewrite Wd).
    destruct o; cbn [negb]; mstep;
      (apply sfin_move_err; [assumption|]; unfold transfer_errors; rewrite Hsc, Hroot; reflexivity).
  - (* destination has a name *)
    destruct (good_snoc _ _ G2) as [Gdd Gdc].
    rewrite (psplit_snoc true dd dc Gdd Gdc). mstep. rewrite (good_not_empty _ Gsc).
    rewrite (pjoin_two_nf true dd dc Gdd Gdc).
    rewrite !iteratepath_nf by assumption.
    rewrite get_dir_entry_nf by assumption. mstep.
    pview s sd sc; rewrite ?Hl, ?Ha; mstep;
      try (apply sfin_move_err; [assumption|]; unfold transfer_errors; rewrite Hsc; reflexivity).
    destruct n as [sdata smt|e3 m3]; cbn [is_dir] in Hsc; mstep;
      try (apply sfin_move_err; [assumption|]; unfold transfer_errors; rewrite Hsc; reflexivity).
    rewrite (to_path_eqb sd dd Gsd Gdd), <- path_eqb_snoc.
    rewrite get_dir_entry_nf by assumption. mstep.
    pview2 s dd dc; rewrite ?Dl, ?Da; mstep;
      try (apply sfin_move_err; [assumption|]; rewrite transfer_errors_snoc, Hsc, Dsc, Ds; reflexivity).
    + (* destination missing, parent is a directory *)
      rewrite andb_false_r. mstep. rewrite get_dir_entry_nf by assumption. mstep. rewrite Dlc. mstep.
      destruct (path_eqb (sd ++ [sc]) (dd ++ [dc])) eqn:E.
      { apply path_eqb_eq in E. rewrite E in Hlc. congruence. }
      mstep. unfold ref_move. rewrite transfer_errors_snoc, Hsc, Dsc, Ds.
      cbn [exists_st andb app parent_errors].
      rewrite E, Hlc. apply sfin_ok; [|reflexivity].
      apply wf_del_any. apply wf_put_file; auto using snoc_ne'.
    + (* destination exists *)
      destruct o; cbn [negb andb]; mstep.
      * rewrite get_dir_entry_nf by assumption. mstep. rewrite Dlc. mstep.
        destruct n2 as [ddata dmt|e4 m4]; cbn [is_dir] in Dsc; mstep.
        -- destruct (path_eqb (sd ++ [sc]) (dd ++ [dc])) eqn:E; mstep;
             unfold ref_move; rewrite transfer_errors_snoc, Hsc, Dsc;
             cbn [exists_st andb negb app]; rewrite E.
           ++ sfin_ok.
           ++ rewrite Hlc. apply sfin_ok; [|reflexivity].
              apply wf_del_any. apply wf_put_file; auto using snoc_ne'.
        -- apply sfin_move_err; [assumption|]. rewrite transfer_errors_snoc, Hsc, Dsc. reflexivity.
      * apply sfin_move_err; [assumption|]. rewrite transfer_errors_snoc, Hsc, Dsc.
        destruct (is_dir n2); reflexivity.
Qed.

Lemma sfin_copy_err s cs cd o pt e :
  wf s ->
  existsb (ecls_eqb e)
          (transfer_errors s cs cd o ++ (if path_eqb cs cd then [IllegalDestination] else [])) = true ->
  sagree (s, @Err value e) (ref_copy s cs cd o pt) /\ wf (fst (s, @Err value e)).
Proof.
  intros W H. unfold ref_copy.
  destruct (transfer_errors s cs cd o ++ (if path_eqb cs cd then [IllegalDestination] else []))
    as [|x l]; [discriminate|].
  unfold fail, same. now apply sfin_err.
Qed.

Lemma sfin_copy_err' s cs cd o pt e :
  wf s -> existsb (ecls_eqb e) (transfer_errors s cs cd o) = true ->
  sagree (s, @Err value e) (ref_copy s cs cd o pt) /\ wf (fst (s, @Err value e)).
Proof.
  intros W H. apply sfin_copy_err; [assumption|]. rewrite existsb_app, H. reflexivity.
Qed.

Lemma scopy_tail_ok s cs cd o pt :
  wf s -> vp cs -> vp cd -> (o = true \/ lookup s cd = None) ->
  sagree (vmap (fun _ => VUnit) (copy_tail (to_path true cs) (to_path true cd) pt) s)
        (ref_copy s cs cd o pt)
  /\ wf (fst (vmap (fun _ => VUnit) (copy_tail (to_path true cs) (to_path true cd) pt) s)).
Proof.
  intros W V1 V2 Ho.
  pose proof (rpath_nf _ V1) as Q1. pose proof (rpath_nf _ V2) as Q2.
  destruct V1 as [G1 N1]. destruct V2 as [G2 N2].
  assert (Hroot : status_of s [] = IsDir) by (destruct W as [Wd _]; simpl; now rewrite Wd).
  unfold copy_tail. rewrite (to_path_eqb cs cd G1 G2).
  destruct (path_eqb cs cd) eqn:E; mstep.
  { apply sfin_copy_err; [assumption|]. rewrite E, existsb_app. apply orb_true_iff. now right. }
  destruct (list_snoc_case cs) as [->|[sd [sc ->]]].
  { rewrite (mem_openread_root _ s Q1). mstep.
    apply sfin_copy_err'; [assumption|]. unfold transfer_errors. rewrite Hroot. reflexivity. }
  rewrite (mem_openread_snoc _ _ _ s Q1).
  pview s sd sc; rewrite ?Hl, ?Ha; mstep;
    try (apply sfin_copy_err'; [assumption|]; unfold transfer_errors; rewrite Hsc; reflexivity).
  destruct n as [data mt|e3 m3]; cbn [is_dir] in Hsc; mstep;
    try (apply sfin_copy_err'; [assumption|]; unfold transfer_errors; rewrite Hsc; reflexivity).
  unfold b_upload. cbn [l_openwrite mem_low].
  set (wr := match data with [] => None | _ :: _ => Some data end).
  assert (Hw : wr = None \/ m_writing m_wb = true) by (right; reflexivity).
  assert (Hwr : match wr with Some x => x | None => [] end = data) by (subst wr; destruct data; reflexivity).
  destruct (list_snoc_case cd) as [->|[dd [dc ->]]].
  { rewrite (mem_openwrite_root _ _ wr s Q2 m_wb_valid). mstep.
    apply sfin_copy_err'; [assumption|]. unfold transfer_errors. rewrite Hsc, Hroot.
    destruct o; reflexivity. }
  rewrite (mem_openwrite_snoc _ _ _ _ wr s Q2 m_wb_valid Hw).
  change (m_create m_wb && m_exclusive m_wb) with false. change (m_create m_wb) with true.
  (* the state after a successful upload, and the end of the call *)
  assert (Hfin : forall dents dm2 X,
             lookup s dd = Some (Dir dents dm2) ->
             (lookup s (dd ++ [dc]) = None \/
              exists d2 m2, lookup s (dd ++ [dc]) = Some (File d2 m2)) ->
             transfer_errors s (sd ++ [sc]) (dd ++ [dc]) o = [] ->
             X = match data, lookup s (dd ++ [dc]) with
                 | [], Some (File _ m) => m
                 | _, _ => None
                 end ->
             sagree
               (let (s', o0) :=
                  (if pt
                   then b_copy_modified_time mem_low (to_path true (sd ++ [sc])) (to_path true (dd ++ [dc]))
                   else fun s0 => (s0, Ok tt)) (put s (dd ++ [dc]) (File data X)) in
                match o0 with
                | Ok _ => (s', Ok VUnit)
                | Err e => (s', Err e)
                | Crash k => (s', Crash k)
                end)
               (ref_copy s (sd ++ [sc]) (dd ++ [dc]) o pt) /\
             wf (fst
               (let (s', o0) :=
                  (if pt
                   then b_copy_modified_time mem_low (to_path true (sd ++ [sc])) (to_path true (dd ++ [dc]))
                   else fun s0 => (s0, Ok tt)) (put s (dd ++ [dc]) (File data X)) in
                match o0 with
                | Ok _ => (s', Ok VUnit)
                | Err e => (s', Err e)
                | Crash k => (s', Crash k)
                end))).
  { intros dents dm2 X Dl Hd Hte HX.
    unfold ref_copy. rewrite Hte, E, Hlc. cbn [app].
    destruct pt.
    - unfold b_copy_modified_time. cbn [l_getinfo l_setinfo mem_low]. mstep.
      rewrite (mem_getinfo_spec _ _ _ Q1).
      rewrite (lookup_put_file _ _ _ _ _ _ Hlc) by
          (auto; intro Heq; rewrite Heq, path_eqb_refl in E; discriminate).
      mstep. cbn [i_mt to_info node_mt].
      rewrite (mem_setinfo_spec _ _ _ _ Q2).
      rewrite (lookup_put_same _ _ _ _ _ _ Dl). cbn [set_mt]. rewrite put_put.
      apply sfin_ok; [|reflexivity]. apply wf_put_file; auto using snoc_ne'.
    - subst X. apply sfin_ok; [|reflexivity]. apply wf_put_file; auto using snoc_ne'. }
  pview2 s dd dc; rewrite ?Dl, ?Da; mstep;
    try (apply sfin_copy_err'; [assumption|]; rewrite transfer_errors_snoc, Hsc, Dsc, Ds; reflexivity).
  - (* new destination *)
    rewrite Hwr. eapply Hfin; eauto.
    + rewrite transfer_errors_snoc, Hsc, Dsc, Ds. reflexivity.
    + rewrite Dlc. destruct data; reflexivity.
  - (* existing destination *)
    destruct Ho as [->|Ho]; [|congruence].
    destruct n2 as [old dmt|e4 m4]; cbn [is_dir] in Dsc; mstep.
    + unfold ow_state. change (m_truncate m_wb) with true. cbv iota.
      assert (Hte : transfer_errors s (sd ++ [sc]) (dd ++ [dc]) true = [])
        by (rewrite transfer_errors_snoc, Hsc, Dsc; reflexivity).
      subst wr. destruct data as [|b0 data].
      * eapply Hfin; eauto. now rewrite Dlc.
      * eapply Hfin; eauto.
    + apply sfin_copy_err'; [assumption|]. rewrite transfer_errors_snoc, Hsc, Dsc. reflexivity.
Qed.

Lemma sstep_copy src dst o pt s : wf s -> sstep_ok (OCopy src dst o pt) s.
Proof.
  intro W. unfold sstep_ok. cbn [mem_run ref_run]. unfold mem_copy. rewrite b_copy_unfold.
  destruct (rpath src) as [cs|e1] eqn:R1.
  2:{ destruct (with2_bad1 s src dst (fun a b => ref_copy s a b o pt) e1 R1) as (adm & Hr & He).
      rewrite Hr. mstep. rewrite (validate_inr _ _ s R1). mstep.
      unfold fail. apply sfin_err; assumption. }
  destruct (rpath dst) as [cd|e2] eqn:R2.
  2:{ unfold with2. rewrite R1, R2. mstep.
      rewrite (validate_inl _ _ s R1). mstep. rewrite (validate_inr _ _ s R2). mstep. sfin_bad R2. }
  unfold with2. rewrite R1, R2.
  pose proof (rpath_vp _ _ R1) as V1. pose proof (rpath_vp _ _ R2) as V2.
  rewrite vmap_mbind, (validate_inl _ _ s R1). cbv beta iota.
  rewrite vmap_mbind, (validate_inl _ _ s R2). cbv beta iota.
  rewrite vmap_mbind.
  destruct o.
  - unfold ret at 1. cbv beta iota.
    apply (scopy_tail_ok s cs cd true pt W V1 V2). now left.
  - rewrite (mem_exists_spec _ _ s (rpath_nf _ V2)). cbv beta iota.
    destruct (lookup s cd) as [n|] eqn:L; cbv beta iota.
    + mstep. apply sfin_copy_err'; [assumption|]. eapply te_dest_exists; eauto.
    + apply (scopy_tail_ok s cs cd false pt W V1 V2). now right.
Qed.

Lemma sstep_mcr o s : wf s -> is_mcr o = true -> sstep_ok o s.
Proof.
  intros W M. destruct o; try discriminate M.
  - now apply sstep_removetree.
  - now apply sstep_move.
  - now apply sstep_copy.
Qed.

Lemma is_mcr_covered o : is_mcr o = true -> covered o = true.
Proof. destruct o; simpl; congruence. Qed.

(* move / copy / removetree: the model tree IS the reference tree *)
Theorem mem_tree_exact_move_copy_removetree : forall o s,
  wf s -> is_mcr o = true -> rs_tree (ref_run o s) = Some (fst (mem_run o s)).
Proof. intros o s W M. exact (proj2 (proj1 (sstep_mcr o s W M))). Qed.

(* T16 *)
Theorem mem_preserved_move_copy_removetree : forall o s,
  wf s -> is_mcr o = true ->
  preserved s (fst (mem_run o s)) o (is_ok (snd (mem_run o s))) = true.
Proof.
  intros o s W M. destruct (sstep_mcr o s W M) as [[A T] _].
  pose proof (ref_preserved_move_copy_removetree o s _ W M T) as P.
  pose proof (ref_covered_not_any o s (is_mcr_covered o M)) as NA.
  replace (is_ok (snd (mem_run o s)))
    with (match rs_res (ref_run o s) with ROk _ => true | _ => false end); [exact P|].
  unfold res_agree in A.
  destruct (snd (mem_run o s)) as [v|e|k]; destruct (rs_res (ref_run o s));
    try discriminate A; try reflexivity; try congruence;
    destruct k; discriminate A.
Qed.

(* ================================================================== *)
(* C11 continued: movedir / copydir (calls outside [covered])          *)
(* ================================================================== *)
Lemma mbind_lift_ok {S A B} (x : A) (k : A -> M S B) : mbind (lift (Ok x)) k = k x.
Proof. reflexivity. Qed.

Lemma copy_dir_spelling copy src src' dst dst' pt a b :
  rpath src = inl a -> rpath src' = inl a -> rpath dst = inl b -> rpath dst' = inl b ->
  copy_dir mem_low copy src dst pt = copy_dir mem_low copy src' dst' pt.
Proof.
  intros Ra Ra' Rb Rb'.
  pose proof (rpath_good _ _ Ra) as Ga. pose proof (rpath_good _ _ Rb) as Gb.
  assert (Ea : rpath src = rpath src') by congruence.
  assert (Eb : rpath dst = rpath dst') by congruence.
  apply rpath_inl in Ra as [_ Ra]. apply rpath_inl in Ra' as [_ Ra'].
  apply rpath_inl in Rb as [_ Rb]. apply rpath_inl in Rb' as [_ Rb'].
  unfold copy_dir, copy_structure. cbn [l_validatepath mem_low].
  rewrite !normpath_spec. unfold spec_normpath. rewrite Ra, Ra', Rb, Rb'.
  rewrite !mbind_lift_ok. cbv zeta.
  rewrite !abspath_nf_gen by assumption.
  rewrite (validatepath_fun_spelling _ _ Ea), (validatepath_fun_spelling _ _ Eb).
  reflexivity.
Qed.

Definition is_dirop (o : op) : bool :=
  match o with OMovedir _ _ _ _ | OCopydir _ _ _ _ => true | _ => false end.

Theorem mem_spelling_dirs_fun : forall o o',
  same_call o o' -> is_dirop o = true -> mem_run o = mem_run o'.
Proof.
  intros o o' H C.
  destruct o, o'; simpl in H; try contradiction; try discriminate C; split_and; subst.
  - (* movedir *)
    rename s0 into s', d0 into d', H into Hs, H0 into Hd.
    cbn [mem_run]. f_equal.
    pose proof (validatepath_fun_spelling _ _ Hs) as Vs.
    pose proof (validatepath_fun_spelling _ _ Hd) as Vd.
    destruct (rpath s) as [a|e1] eqn:Ra.
    2:{ unfold mem_movedir. rewrite <- Vs.
        rewrite (validatepath_fun_inr _ _ Ra). reflexivity. }
    destruct (rpath d) as [b|e2] eqn:Rb.
    2:{ unfold mem_movedir. rewrite <- Vs, <- Vd.
        rewrite (validatepath_fun_inl _ _ Ra), (validatepath_fun_inr _ _ Rb). reflexivity. }
    symmetry in Hs, Hd.
    unfold mem_movedir, mem_base_movedir, b_movedir, move_dir, b_exists.
    rewrite (copy_dir_spelling mem_copy s s' d d' _ a b Ra Hs Rb Hd).
    cbn [l_validatepath l_getinfo l_makedir l_removetree mem_low].
    unfold mem_makedir, mem_opendir, mem_getinfo, mem_removetree.
    rewrite Vs, Vd.
    reflexivity.
  - (* copydir *)
    rename s0 into s', d0 into d', H into Hs, H0 into Hd.
    cbn [mem_run]. f_equal.
    unfold mem_copydir, b_copydir. cbn [l_validatepath l_getinfo mem_low].
    rewrite (validatepath_fun_spelling _ _ Hs), (validatepath_fun_spelling _ _ Hd).
    reflexivity.
Qed.

Theorem mem_spelling_dirs : forall o o' s,
  same_call o o' -> is_dirop o = true -> mem_run o s = mem_run o' s.
Proof. intros o o' s H C. now rewrite (mem_spelling_dirs_fun o o' H C). Qed.

(* T8, OMakedirs.  STATEMENT CHANGED: mem_spelling is FALSE for OMakedirs when same_call is
   defined through rpath.  Counterexample (Eval vm_compute), with x=120, y=121, '/'=47, NUL=0,
   '.'=46:   p1 = "x/y/\0/.."  and  p2 = "\0"  have rpath p1 = rpath p2 = inr [InvalidCharsInPath],
   but  mem_run (OMakedirs p1 false) empty_dir = (Dir [("x", Dir [] None)] None, Err InvalidCharsInPath)
   while mem_run (OMakedirs p2 false) empty_dir = (Dir [] None, Err InvalidCharsInPath):
   FS.makedirs computes the intermediate directories from the raw path (no validatepath), creates
   "/x", and only then fails on the NUL character -- a failed call that is not a no-op (so C06
   also fails for makedirs; ref_run gives {| rs_tree := Some empty_dir; rs_res := RFail [ICP] |}).
   The spelling theorem is therefore proved for the 23 covered calls (mem_spelling) and for
   OMovedir / OCopydir (mem_spelling_dirs); OMakedirs restricted to rpath p = inl _ is left
   (it needs recursepath (abspath p) as a function of rpath p; recursepath_spec has a side
   condition for paths that resolve to the root). *)

(* ================================================================== *)
(* C10 continued: scandir versus getinfo                               *)
(* ================================================================== *)

(* T14.  STATEMENT CHANGED: [wf] guarantees that entry names are [good] but not that they are
   free of NUL, and getinfo rejects NUL.  Counterexample (Eval vm_compute):
   s = Dir [("\0", File [] None)] None is wf, mem_scandir "/" s = Ok [info "\0"],
   pjoin ["/"; "\0"] = Ok "/\0", and mem_getinfo "/\0" s = Err InvalidCharsInPath.
   Hence the extra hypothesis has_char Mem.nul (i_name i) = false (true in every state
   reachable from the empty filesystem, since every created name comes from a validated path). *)
Theorem q_scandir_getinfo : forall p s infos cs,
  wf s -> mem_scandir p s = (s, Ok infos) -> rpath p = inl cs ->
  forall i, In i infos -> has_char Mem.nul (i_name i) = false ->
  exists q, pjoin [to_path true cs; i_name i] = Ok q /\ mem_getinfo q s = (s, Ok i).
Proof.
  intros p s infos cs W H R i Hi Hn.
  rewrite (mem_scandir_spec _ _ s R) in H.
  destruct (lookup s cs) as [[|ents m]|] eqn:L; try discriminate. inv H.
  apply in_map_iff in Hi as [[k n] [E Hin]]. simpl in E. subst i. simpl in Hn.
  destruct W as [_ W]. pose proof (wf_lookup _ _ _ W L) as Wd.
  pose proof Wd as Wd0. simpl in Wd. destruct Wd as (N & G & _).
  assert (Gk : good k).
  { rewrite Forall_forall in G. apply G. change k with (fst (k, n)). now apply in_map. }
  destruct (rpath_vp _ _ R) as [Gcs Ncs].
  exists (to_path true (cs ++ [k])). split.
  - simpl i_name. now apply pjoin_two_nf.
  - assert (V : vp (cs ++ [k])).
    { split; apply Forall_app; split; auto; constructor; auto; constructor. }
    rewrite (mem_getinfo_spec _ _ s (rpath_nf _ V)).
    rewrite lookup_snoc, L, (In_assoc_NoDup _ _ _ N Hin), last_last. reflexivity.
Qed.

(* ================================================================== *)
(* C05 continued (T17, partial): movedir onto a destination that does  *)
(* not exist, on the reference semantics                               *)
(* ================================================================== *)
Lemma prefix_app_cases a : forall b q,
  list_prefix a (b ++ q) = true -> list_prefix a b = true \/ list_prefix b a = true.
Proof.
  induction a as [|x a IH]; intros b q H; [now left|].
  destruct b as [|y b]; [now right|].
  simpl in H. apply andb_true_iff in H as [H1 H2].
  destruct (IH _ _ H2) as [H|H]; [left|right]; simpl; rewrite ?H1, ?H; auto.
  rewrite str_eqb_sym, H1. reflexivity.
Qed.

Theorem ref_preserved_movedir_fresh : forall s d c pt a b t t',
  wf t -> rpath s = inl a -> rpath d = inl b -> lookup t b = None ->
  rs_tree (ref_run (OMovedir s d c pt) t) = Some t' ->
  preserved t t' (OMovedir s d c pt)
            (match rs_res (ref_run (OMovedir s d c pt) t) with ROk _ => true | _ => false end) = true.
Proof.
  intros s d c pt a b t t' W Ra Rb Lb.
  change (match rs_res (ref_run (OMovedir s d c pt) t) with ROk _ => true | _ => false end)
    with (ok_res (rs_res (ref_run (OMovedir s d c pt) t))).
  cbn [ref_run]. unfold with2. rewrite Ra, Rb. unfold ref_dirtransfer.
  pose proof W as [_ Wn].
  destruct (path_eqb a b) eqn:E; cbn [andb].
  { simpl. intro H. inversion H; subst t'. unfold preserved. rewrite kept_same by assumption.
    simpl. rewrite (rp_inl _ _ Ra), (rp_inl _ _ Rb), E. reflexivity. }
  destruct (dirtransfer_errors t a b c true) as [|e0 es] eqn:DE.
  2:{ simpl. intro H. inversion H; subst. now apply preserved_noop. }
  destruct (list_prefix b a) eqn:Pba; [discriminate|].
  rewrite Lb. destruct (lookup t a) as [src|] eqn:La.
  2:{ simpl. intro H. inversion H; subst. now apply preserved_noop. }
  simpl. intro H. inversion H; subst t'. clear H.
  (* consequences of the empty error set *)
  destruct (list_snoc_case b) as [->|[dd [dc ->]]]; [discriminate Lb|].
  rewrite dirtransfer_errors_snoc in DE.
  apply app_eq_nil in DE as [D1 DE]. apply app_eq_nil in DE as [_ D3].
  destruct (list_prefix a (dd ++ [dc])) eqn:Pab; [discriminate|]. clear D1.
  assert (Ld : exists ents m, lookup t dd = Some (Dir ents m)).
  { pview t dd dc; rewrite Hsc in D3; try congruence;
      try (apply app_eq_nil in D3 as [_ D3]; rewrite ?Hs in D3; discriminate).
    eauto. }
  destruct Ld as (ents & m & Ld).
  assert (Pb : lookup (put t (dd ++ [dc]) src) (dd ++ [dc]) = Some src)
    by (eapply lookup_put_same; eauto).
  pose proof (wf_lookup _ _ _ Wn La) as Wsrc.
  unfold preserved. apply andb_true_iff. split.
  - apply all_files_kept_intro; [assumption|]. intros p d0 m0 Hp.
    simpl. rewrite (rp_inl _ _ Ra), (rp_inl _ _ Rb).
    destruct (list_prefix a p) eqn:Pap; [now left|]. right.
    assert (p <> dd ++ [dc]) by congruence.
    eapply has_file_lookup. apply lookup_del_file; [|exact Pap].
    apply lookup_put_file; eauto.
  - simpl. rewrite (rp_inl _ _ Ra), (rp_inl _ _ Rb), E. simpl.
    unfold sub_files. rewrite La. apply forallb_forall. intros [q dq] Hin. simpl.
    destruct (files_of_lookup src Wsrc q dq Hin) as [mq Hq].
    eapply has_file_lookup. apply lookup_del_file.
    + rewrite lookup_app, Pb. exact Hq.
    + destruct (list_prefix a ((dd ++ [dc]) ++ q)) eqn:X; [|reflexivity].
      apply prefix_app_cases in X as [X|X]; congruence.
Qed.

(* ---- and on the MemoryFS model (fast path of MemoryFS.movedir), by replaying the script of
   movedir_fast (FS/RefineProofs.v) against strict agreement ---- *)
Lemma sfin_dt_err s cs cd create pt e :
  wf s -> path_eqb cs cd = false ->
  existsb (ecls_eqb e) (dirtransfer_errors s cs cd create true) = true ->
  sagree (s, @Err value e) (ref_dirtransfer s cs cd create pt true)
  /\ wf (fst (s, @Err value e)).
Proof.
  intros W E H. unfold ref_dirtransfer. rewrite E. cbn [andb].
  destruct (dirtransfer_errors s cs cd create true) as [|x l]; [discriminate|].
  unfold fail, same. now apply sfin_err.
Qed.

Lemma smovedir_fast src dst create pt s cs cd :
  wf s -> rpath src = inl cs -> rpath dst = inl cd -> lookup s cd = None ->
  sstep_ok (OMovedir src dst create pt) s.
Proof.
  intros W R1 R2 Lcd. unfold sstep_ok. cbn [mem_run ref_run]. unfold with2. rewrite R1, R2.
  pose proof (rpath_good _ _ R1) as G1. pose proof (rpath_good _ _ R2) as G2.
  destruct (list_snoc_case cd) as [->|[dd [dc ->]]]; [discriminate Lcd|].
  destruct (good_snoc _ _ G2) as [Gdd Gdc].
  unfold mem_movedir. mstep. rewrite (validate_inl _ _ s R1). mstep.
  rewrite (validate_inl _ _ s R2). mstep.
  rewrite (psplit_snoc true dd dc Gdd Gdc).
  rewrite (to_path_eqb cs (dd ++ [dc]) G1 G2).
  rewrite (isbase_nf true cs true (dd ++ [dc]) G1 G2), <- list_prefix_cprefix.
  destruct (list_snoc_case cs) as [->|[sd [sc ->]]].
  { rewrite to_path_root, psplit_root. mstep.
    assert (E : path_eqb [] (dd ++ [dc]) = false) by (destruct dd; reflexivity).
    rewrite E. cbn [list_prefix]. mstep.
    apply sfin_dt_err; [assumption|assumption|]. rewrite dirtransfer_errors_snoc. reflexivity. }
  destruct (good_snoc _ _ G1) as [Gsd Gsc].
  rewrite (psplit_snoc true sd sc Gsd Gsc). mstep.
  destruct (path_eqb (sd ++ [sc]) (dd ++ [dc])) eqn:E; mstep.
  { unfold ref_dirtransfer. rewrite E. cbn [andb]. sfin_ok. }
  destruct (list_prefix (sd ++ [sc]) (dd ++ [dc])) eqn:P; mstep.
  { apply sfin_dt_err; [assumption|assumption|]. rewrite dirtransfer_errors_snoc, P. reflexivity. }
  rewrite get_dir_entry_nf by assumption. mstep.
  pview s sd sc; rewrite ?Hl, ?Ha; mstep;
    try (apply sfin_dt_err; [assumption|assumption|];
         rewrite dirtransfer_errors_snoc, P, Hsc; reflexivity).
  destruct n as [sdata smt|e3 m3]; cbn [is_dir] in Hsc; mstep;
    try (apply sfin_dt_err; [assumption|assumption|];
         rewrite dirtransfer_errors_snoc, P, Hsc; reflexivity).
  rewrite get_dir_entry_nf by assumption. mstep. rewrite Lcd. mstep.
  rewrite get_dir_entry_nf by assumption. mstep.
  pview2 s dd dc; rewrite ?Dl; mstep;
    try (apply sfin_dt_err; [assumption|assumption|];
         rewrite dirtransfer_errors_snoc, P, Hsc, Dsc, Ds; destruct create; reflexivity).
  2:{ congruence. }
  destruct create; cbn [negb]; mstep.
  2:{ apply sfin_dt_err; [assumption|assumption|].
      rewrite dirtransfer_errors_snoc, P, Hsc, Dsc, Ds. reflexivity. }
  rewrite !iteratepath_nf by assumption. mstep.
  assert (Wn : wf (del (put s (dd ++ [dc]) (Dir e3 m3)) (sd ++ [sc]))).
  { apply wf_del_any. apply wf_put_ne; auto using snoc_ne'.
    destruct W as [_ W]. eapply wf_lookup; eauto. }
  unfold ref_dirtransfer. rewrite E. cbn [andb].
  rewrite dirtransfer_errors_snoc, P, Hsc, Dsc, Ds. cbn [app parent_errors].
  destruct (list_prefix (dd ++ [dc]) (sd ++ [sc])) eqn:X.
  - exfalso. rewrite list_prefix_cprefix in X. apply cprefix_app in X as [r Er].
    rewrite Er, lookup_app, Lcd in Hlc. discriminate.
  - rewrite Hlc, Lcd. apply sfin_ok; [exact Wn|reflexivity].
Qed.

Lemma dt_any t a b c pt mv :
  rs_res (ref_dirtransfer t a b c pt mv) = RAny -> rs_tree (ref_dirtransfer t a b c pt mv) = None.
Proof.
  unfold ref_dirtransfer.
  repeat match goal with |- context [match ?x with _ => _ end] => destruct x end;
    simpl; congruence.
Qed.

Theorem mem_preserved_movedir_fresh : forall src dst create pt s cs cd,
  wf s -> rpath src = inl cs -> rpath dst = inl cd -> lookup s cd = None ->
  preserved s (fst (mem_run (OMovedir src dst create pt) s)) (OMovedir src dst create pt)
            (is_ok (snd (mem_run (OMovedir src dst create pt) s))) = true.
Proof.
  intros src dst create pt s cs cd W R1 R2 L.
  destruct (smovedir_fast src dst create pt s cs cd W R1 R2 L) as [[A T] _].
  pose proof (ref_preserved_movedir_fresh src dst create pt cs cd s _ W R1 R2 L T) as P.
  replace (is_ok (snd (mem_run (OMovedir src dst create pt) s)))
    with (match rs_res (ref_run (OMovedir src dst create pt) s) with ROk _ => true | _ => false end);
    [exact P|].
  assert (NA : rs_res (ref_run (OMovedir src dst create pt) s) <> RAny).
  { intro X. cbn [ref_run] in X, T. unfold with2 in X, T. rewrite R1, R2 in X, T.
    apply dt_any in X. congruence. }
  unfold res_agree in A.
  destruct (snd (mem_run (OMovedir src dst create pt) s)) as [v|e|k];
    destruct (rs_res (ref_run (OMovedir src dst create pt) s));
    try discriminate A; try reflexivity; try congruence;
    destruct k; discriminate A.
Qed.
