(* Properties C05 / C06 / C10 / C11 of the FS contract, proved on the reference semantics
   (FS/Ref.v) and transferred to the MemoryFS model (FS/Mem.v) through the refinement
   theorem of FS/RefineProofs.v. *)
From Coq Require Import List NArith ZArith Bool Arith Lia.
From PyFS Require Import Base.PyStr Base.Outcome Path.PathModel Path.PathSpec Path.PathProofs
     FS.Tree FS.Monad FS.Mode FS.Base FS.Mem FS.Ops FS.Ref FS.Agree FS.Props FS.Wf
     FS.TreeLemmas FS.RefineLemmas FS.RefineProofs.
Import ListNotations.

(* ================================================================== *)
(* C06: failures are fs.errors exceptions for a real cause and change  *)
(* nothing                                                             *)
(* ================================================================== *)

(* a reference step of a covered call: never RAny, and a failing verdict keeps the tree *)
Definition okstep (t : node) (r : rstep) : Prop :=
  match rs_res r with
  | ROk _ => True
  | RAny => False
  | _ => rs_tree r = Some t
  end.

Lemma okstep_fail t adm : okstep t (fail t adm).
Proof. reflexivity. Qed.

Lemma okstep_with1 t p k : (forall cs, okstep t (k cs)) -> okstep t (with1 t p k).
Proof. intro H. unfold with1. destruct (rpath p); [apply H|apply okstep_fail]. Qed.

Lemma okstep_with2 t p q k : (forall a b, okstep t (k a b)) -> okstep t (with2 t p q k).
Proof.
  intro H. unfold with2. destruct (rpath p), (rpath q); try apply okstep_fail. apply H.
Qed.

Ltac okcrush :=
  repeat (match goal with
          | |- okstep _ (fail _ _) => apply okstep_fail
          | |- okstep _ (same _ _) => exact I || reflexivity
          | |- okstep _ {| rs_tree := _; rs_res := ROk _ |} => exact I
          | |- okstep _ (if ?x then _ else _) => destruct x
          | |- okstep _ (match ?x with _ => _ end) => destruct x
          end).

Lemma okstep_getinfo t cs : okstep t (ref_getinfo t cs).
Proof. unfold ref_getinfo. okcrush. Qed.

Lemma okstep_listing t cs k : okstep t (ref_listing t cs k).
Proof. unfold ref_listing. okcrush. Qed.

Lemma okstep_makedir t cs r : okstep t (ref_makedir t cs r).
Proof. unfold ref_makedir. okcrush. Qed.

Lemma okstep_open t cs mode wr rd : okstep t (ref_open t cs mode wr rd).
Proof. unfold ref_open. okcrush. Qed.

Lemma okstep_remove t cs : okstep t (ref_remove t cs).
Proof. unfold ref_remove. okcrush. Qed.

Lemma okstep_removedir t cs : okstep t (ref_removedir t cs).
Proof. unfold ref_removedir. okcrush. Qed.

Lemma okstep_removetree t cs : okstep t (ref_removetree t cs).
Proof. unfold ref_removetree. okcrush. Qed.

Lemma okstep_setinfo t cs mt : okstep t (ref_setinfo t cs mt).
Proof. unfold ref_setinfo. okcrush. Qed.

Lemma okstep_move t a b o pt : okstep t (ref_move t a b o pt).
Proof. unfold ref_move. okcrush. Qed.

Lemma okstep_copy t a b o pt : okstep t (ref_copy t a b o pt).
Proof. unfold ref_copy. okcrush. Qed.

Lemma okstep_query t p k :
  (forall cs, match k cs with RAny => False | _ => True end) -> okstep t (ref_query t p k).
Proof.
  intro H. unfold ref_query. apply okstep_with1. intro cs. specialize (H cs).
  unfold okstep, same. simpl. destruct (k cs); auto.
Qed.

Lemma okstep_covered o t : covered o = true -> okstep t (ref_run o t).
Proof.
  intro C. destruct o; try discriminate C; cbn [ref_run];
    try (apply okstep_with1; intro cs);
    try (apply okstep_with2; intros a b);
    auto using okstep_getinfo, okstep_listing, okstep_makedir, okstep_open, okstep_remove,
      okstep_removedir, okstep_removetree, okstep_setinfo, okstep_move, okstep_copy.
  - (* OCreate *)
    destruct (negb wipe && exists_st (status_of t cs)); [exact I|].
    pose proof (okstep_open t cs m_wb None false) as H. cbv zeta.
    unfold okstep in *. destruct (rs_res (ref_open t cs m_wb None false)) eqn:E; rewrite ?E; auto.
  - (* OTouch *)
    destruct (lookup t cs); [exact I|apply okstep_open].
  - (* OOpenwrite *)
    destruct (negb (mode_valid_bin mode)); [reflexivity|].
    apply okstep_with1; intro cs. apply okstep_open.
  - (* OOpenread *)
    destruct (negb (mode_valid_bin mode)); [reflexivity|].
    apply okstep_with1; intro cs. apply okstep_open.
  - exact I.
  - exact I.
  - exact I.
  - unfold okstep, same; simpl. destruct (lookup t cs); simpl; auto.
  - unfold okstep, same; simpl. destruct (lookup t cs); simpl; auto.
Qed.

(* T3 *)
Theorem ref_fail_keeps_tree : forall o t adm,
  covered o = true -> rs_res (ref_run o t) = RFail adm -> rs_tree (ref_run o t) = Some t.
Proof.
  intros o t adm C H. pose proof (okstep_covered o t C) as K. unfold okstep in K.
  now rewrite H in K.
Qed.

Theorem ref_valueerror_keeps_tree : forall o t,
  covered o = true -> rs_res (ref_run o t) = RValueError -> rs_tree (ref_run o t) = Some t.
Proof.
  intros o t C H. pose proof (okstep_covered o t C) as K. unfold okstep in K.
  now rewrite H in K.
Qed.

Theorem ref_covered_not_any : forall o t, covered o = true -> rs_res (ref_run o t) <> RAny.
Proof.
  intros o t C H. pose proof (okstep_covered o t C) as K. unfold okstep in K.
  now rewrite H in K.
Qed.

Lemma agree_parts obs r : agree obs r = true ->
  res_agree (snd obs) (rs_res r) = true /\
  match rs_tree r with Some t => tree_eqb true (fst obs) t = true | None => True end.
Proof.
  unfold agree. intro H. apply andb_true_iff in H as [H1 H2]. split; [exact H1|].
  destruct (rs_tree r); auto.
Qed.

(* T1 *)
Theorem mem_no_foreign_exception : forall o s k,
  wf s -> covered o = true -> snd (mem_run o s) = Crash k ->
  k = ValueError /\ rs_res (ref_run o s) = RValueError.
Proof.
  intros o s k W C H. destruct (agree_parts _ _ (mem_refines_ref o s W C)) as [A _].
  rewrite H in A. unfold res_agree in A.
  destruct k; try discriminate A; destruct (rs_res (ref_run o s)); try discriminate A; auto.
Qed.

(* T2 *)
Theorem mem_error_admissible : forall o s e,
  wf s -> covered o = true -> snd (mem_run o s) = Err e ->
  exists adm, rs_res (ref_run o s) = RFail adm /\ In e adm.
Proof.
  intros o s e W C H. destruct (agree_parts _ _ (mem_refines_ref o s W C)) as [A _].
  rewrite H in A. unfold res_agree in A.
  pose proof (ref_covered_not_any o s C) as NA.
  destruct (rs_res (ref_run o s)) as [v|adm| |]; try discriminate A; [|congruence].
  exists adm. split; [reflexivity|].
  apply existsb_exists in A as [x [Hin Hx]]. apply ecls_eqb_eq in Hx. now subst.
Qed.

(* T4 *)
Theorem mem_failed_call_is_noop : forall o s e,
  wf s -> covered o = true -> snd (mem_run o s) = Err e ->
  tree_eqb true (fst (mem_run o s)) s = true.
Proof.
  intros o s e W C H. destruct (mem_error_admissible o s e W C H) as (adm & Hr & _).
  destruct (agree_parts _ _ (mem_refines_ref o s W C)) as [_ A].
  now rewrite (ref_fail_keeps_tree o s adm C Hr) in A.
Qed.

(* the documented ValueError also changes nothing *)
Theorem mem_crashed_call_is_noop : forall o s k,
  wf s -> covered o = true -> snd (mem_run o s) = Crash k ->
  tree_eqb true (fst (mem_run o s)) s = true.
Proof.
  intros o s k W C H. destruct (mem_no_foreign_exception o s k W C H) as (_ & Hr).
  destruct (agree_parts _ _ (mem_refines_ref o s W C)) as [_ A].
  now rewrite (ref_valueerror_keeps_tree o s C Hr) in A.
Qed.

(* ================================================================== *)
(* C11: equivalent spellings of a path are interchangeable             *)
(* ================================================================== *)

(* T5 *)
Theorem rpath_spelling : forall p p',
  has_char Ref.nul p = false -> has_char Ref.nul p' = false ->
  resolve (comps p) = resolve (comps p') -> rpath p = rpath p'.
Proof. intros p p' H H' E. unfold rpath. now rewrite H, H', E. Qed.

(* o and o' are the same call up to the spelling of their path arguments *)
Definition same_call (o o' : op) : Prop :=
  match o, o' with
  | OGetinfo p, OGetinfo p' => rpath p = rpath p'
  | OListdir p, OListdir p' => rpath p = rpath p'
  | OScandir p, OScandir p' => rpath p = rpath p'
  | OMakedir p r, OMakedir p' r' => rpath p = rpath p' /\ r = r'
  | OMakedirs p r, OMakedirs p' r' => rpath p = rpath p' /\ r = r'
  | OWritebytes p d, OWritebytes p' d' => rpath p = rpath p' /\ d = d'
  | OAppendbytes p d, OAppendbytes p' d' => rpath p = rpath p' /\ d = d'
  | OReadbytes p, OReadbytes p' => rpath p = rpath p'
  | OCreate p w, OCreate p' w' => rpath p = rpath p' /\ w = w'
  | OTouch p, OTouch p' => rpath p = rpath p'
  | OOpenwrite p m d, OOpenwrite p' m' d' => rpath p = rpath p' /\ m = m' /\ d = d'
  | OOpenread p m, OOpenread p' m' => rpath p = rpath p' /\ m = m'
  | ORemove p, ORemove p' => rpath p = rpath p'
  | ORemovedir p, ORemovedir p' => rpath p = rpath p'
  | ORemovetree p, ORemovetree p' => rpath p = rpath p'
  | OMove s d o t, OMove s' d' o' t' =>
    rpath s = rpath s' /\ rpath d = rpath d' /\ o = o' /\ t = t'
  | OCopy s d o t, OCopy s' d' o' t' =>
    rpath s = rpath s' /\ rpath d = rpath d' /\ o = o' /\ t = t'
  | OMovedir s d o t, OMovedir s' d' o' t' =>
    rpath s = rpath s' /\ rpath d = rpath d' /\ o = o' /\ t = t'
  | OCopydir s d o t, OCopydir s' d' o' t' =>
    rpath s = rpath s' /\ rpath d = rpath d' /\ o = o' /\ t = t'
  | OSetinfo p m, OSetinfo p' m' => rpath p = rpath p' /\ m = m'
  | OExists p, OExists p' => rpath p = rpath p'
  | OIsdir p, OIsdir p' => rpath p = rpath p'
  | OIsfile p, OIsfile p' => rpath p = rpath p'
  | OIsempty p, OIsempty p' => rpath p = rpath p'
  | OGetsize p, OGetsize p' => rpath p = rpath p'
  | OGettype p, OGettype p' => rpath p = rpath p'
  | _, _ => False
  end.

Ltac split_and :=
  repeat match goal with H : _ /\ _ |- _ => destruct H end.

(* T6: the reference semantics sees a path only through rpath (all 26 calls) *)
Theorem ref_spelling : forall o o' t, same_call o o' -> ref_run o t = ref_run o' t.
Proof.
  intros o o' t H.
  destruct o, o'; simpl in H; try contradiction; split_and; subst;
    cbn [ref_run]; unfold ref_query, with1, with2;
    repeat match goal with E : rpath _ = rpath _ |- _ => rewrite E; clear E end;
    reflexivity.
Qed.

(* validatepath as a function of rpath: both spellings give the SAME state transformer *)
Lemma validatepath_fun_inl p cs :
  rpath p = inl cs -> mem_validatepath p = (fun s => (s, Ok (to_path true cs))).
Proof.
  intro H. pose proof (rpath_good _ _ H) as G. apply rpath_inl in H as [H1 H2].
  unfold mem_validatepath. rewrite H1, normpath_spec. unfold spec_normpath. rewrite H2.
  unfold mbind, lift, ret. cbv beta iota. now rewrite abspath_nf_gen.
Qed.

Lemma validatepath_fun_inr p adm :
  rpath p = inr adm -> mem_validatepath p = (fun s => (s, Err (bad_err p))).
Proof.
  unfold rpath, mem_validatepath, bad_err. change Ref.nul with Mem.nul.
  destruct (has_char Mem.nul p); [reflexivity|].
  rewrite normpath_spec. unfold spec_normpath.
  destruct (resolve (comps p)); simpl; [discriminate|reflexivity].
Qed.

Lemma bad_err_spelling p p' adm : rpath p = rpath p' -> rpath p = inr adm -> bad_err p = bad_err p'.
Proof.
  unfold rpath, bad_err. change Ref.nul with Mem.nul.
  destruct (has_char Mem.nul p), (has_char Mem.nul p'),
    (resolve (comps p)), (resolve (comps p')); simpl; intros H1 H2;
    try reflexivity; try discriminate.
Qed.

Lemma validatepath_fun_spelling p p' : rpath p = rpath p' -> mem_validatepath p = mem_validatepath p'.
Proof.
  intro H. destruct (rpath p) as [cs|adm] eqn:R.
  - rewrite (validatepath_fun_inl _ _ R). symmetry in H. now rewrite (validatepath_fun_inl _ _ H).
  - rewrite (validatepath_fun_inr _ _ R). symmetry in H. rewrite (validatepath_fun_inr _ _ H).
    symmetry in H. rewrite <- R in H. now rewrite (bad_err_spelling _ _ _ H R).
Qed.

(* T7: no extra NUL hypothesis is needed: rpath records whether NUL occurs *)
Theorem mem_validatepath_spelling : forall p p' s,
  rpath p = rpath p' -> mem_validatepath p s = mem_validatepath p' s.
Proof. intros p p' s H. now rewrite (validatepath_fun_spelling _ _ H). Qed.

(* T8, for every covered call, as an equality of state transformers (wf not needed) *)
Theorem mem_spelling_fun : forall o o',
  same_call o o' -> covered o = true -> mem_run o = mem_run o'.
Proof.
  intros o o' H C.
  destruct o, o'; simpl in H; try contradiction; try discriminate C; split_and; subst;
    repeat progress
      (unfold mem_run, mem_makedir, mem_opendir, mem_getinfo, mem_listdir, mem_scandir,
         mem_writebytes, mem_appendbytes, mem_readbytes, mem_create, mem_touch,
         mem_exists, mem_isdir, mem_isfile, mem_isempty, mem_getsize, mem_gettype,
         b_writebytes, b_appendbytes, b_readbytes, b_create, b_touch, b_exists, b_isdir,
         b_isfile, b_isempty, b_getsize, b_gettype, mem_copy, b_copy, mem_move,
         mem_removedir, mem_scandir, mem_removetree, mem_remove, mem_setinfo,
         mem_openread, mem_openwrite, mem_open;
       cbn [l_validatepath l_getinfo l_listdir l_scandir l_makedir l_openread l_openwrite
            l_remove l_removedir l_removetree l_setinfo mem_low]);
    repeat match goal with
           | E : rpath _ = rpath _ |- _ =>
             rewrite (validatepath_fun_spelling _ _ E); clear E
           end;
    reflexivity.
Qed.

Theorem mem_spelling : forall o o' s,
  wf s -> same_call o o' -> covered o = true -> mem_run o s = mem_run o' s.
Proof. intros o o' s _ H C. now rewrite (mem_spelling_fun o o' H C). Qed.

(* ================================================================== *)
(* C10: the queries of MemoryFS agree with each other                  *)
(* ================================================================== *)

Lemma mem_isdir_spec p cs s : rpath p = inl cs ->
  mem_isdir p s = (s, Ok (match lookup s cs with Some n => is_dir n | None => false end)).
Proof.
  intro R. unfold mem_isdir, b_isdir. cbn [l_getinfo mem_low]. mstep.
  rewrite (mem_getinfo_spec _ _ s R). destruct (lookup s cs); reflexivity.
Qed.

Lemma mem_isdir_bad p adm s : rpath p = inr adm -> mem_isdir p s = (s, Err (bad_err p)).
Proof.
  intro R. unfold mem_isdir, b_isdir. cbn [l_getinfo mem_low]. mstep.
  rewrite (mem_getinfo_bad _ _ s R). mstep. now rewrite bad_err_not_rnf.
Qed.

Lemma mem_isfile_spec p cs s : rpath p = inl cs ->
  mem_isfile p s = (s, Ok (match lookup s cs with Some n => negb (is_dir n) | None => false end)).
Proof.
  intro R. unfold mem_isfile, b_isfile. cbn [l_getinfo mem_low]. mstep.
  rewrite (mem_getinfo_spec _ _ s R). destruct (lookup s cs); reflexivity.
Qed.

Lemma mem_isfile_bad p adm s : rpath p = inr adm -> mem_isfile p s = (s, Err (bad_err p)).
Proof.
  intro R. unfold mem_isfile, b_isfile. cbn [l_getinfo mem_low]. mstep.
  rewrite (mem_getinfo_bad _ _ s R). mstep. now rewrite bad_err_not_rnf.
Qed.

Lemma mem_isempty_spec p cs s : rpath p = inl cs ->
  mem_isempty p s =
  (s, match lookup s cs with
      | None => Err ResourceNotFound
      | Some (File _ _) => Err DirectoryExpected
      | Some (Dir ents _) => Ok (match ents with [] => true | _ => false end)
      end).
Proof.
  intro R. unfold mem_isempty, b_isempty. cbn [l_scandir mem_low]. mstep.
  rewrite (mem_scandir_spec _ _ s R). destruct (lookup s cs) as [[|[|? ?] ?]|]; reflexivity.
Qed.

Lemma mem_isempty_bad p adm s : rpath p = inr adm -> mem_isempty p s = (s, Err (bad_err p)).
Proof.
  intro R. unfold mem_isempty, b_isempty. cbn [l_scandir mem_low]. mstep.
  now rewrite (mem_scandir_bad _ _ s R).
Qed.

Lemma mem_getsize_spec p cs s : rpath p = inl cs ->
  mem_getsize p s =
  (s, match lookup s cs with Some n => Ok (node_size n) | None => Err ResourceNotFound end).
Proof.
  intro R. unfold mem_getsize, b_getsize. cbn [l_getinfo mem_low]. mstep.
  rewrite (mem_getinfo_spec _ _ s R). destruct (lookup s cs); reflexivity.
Qed.

Lemma mem_getsize_bad p adm s : rpath p = inr adm -> mem_getsize p s = (s, Err (bad_err p)).
Proof.
  intro R. unfold mem_getsize, b_getsize. cbn [l_getinfo mem_low]. mstep.
  now rewrite (mem_getinfo_bad _ _ s R).
Qed.

Lemma mem_gettype_spec p cs s : rpath p = inl cs ->
  mem_gettype p s =
  (s, match lookup s cs with
      | Some n => Ok (if is_dir n then 1 else 2)
      | None => Err ResourceNotFound
      end).
Proof.
  intro R. unfold mem_gettype, b_gettype. cbn [l_getinfo mem_low]. mstep.
  rewrite (mem_getinfo_spec _ _ s R). destruct (lookup s cs); reflexivity.
Qed.

Lemma mem_gettype_bad p adm s : rpath p = inr adm -> mem_gettype p s = (s, Err (bad_err p)).
Proof.
  intro R. unfold mem_gettype, b_gettype. cbn [l_getinfo mem_low]. mstep.
  now rewrite (mem_getinfo_bad _ _ s R).
Qed.

Lemma mem_readbytes_spec p cs s : rpath p = inl cs ->
  mem_readbytes p s =
  (s, match cs with
      | [] => Err FileExpected
      | _ => match lookup s cs with
             | Some (File data _) => Ok data
             | Some (Dir _ _) => Err FileExpected
             | None => Err ResourceNotFound
             end
      end).
Proof.
  intro R. unfold mem_readbytes, b_readbytes. cbn [l_openread mem_low].
  destruct (list_snoc_case cs) as [->|[d [c ->]]].
  - now rewrite (mem_openread_root _ s R).
  - rewrite (mem_openread_snoc _ _ _ s R), lookup_snoc.
    destruct (d ++ [c]) eqn:E; [destruct d; discriminate|].
    destruct (lookup s d) as [[|ents m]|]; try reflexivity.
    destruct (assoc c ents) as [[|]|]; reflexivity.
Qed.

Lemma mem_readbytes_bad p adm s : rpath p = inr adm -> mem_readbytes p s = (s, Err (bad_err p)).
Proof.
  intro R. unfold mem_readbytes, b_readbytes. cbn [l_openread mem_low].
  now rewrite (mem_openread_bad _ _ s R).
Qed.

(* every query leaves the state unchanged (any state, any raw path) *)
Theorem mem_query_pure : forall p s,
  fst (mem_getinfo p s) = s /\ fst (mem_listdir p s) = s /\ fst (mem_scandir p s) = s /\
  fst (mem_exists p s) = s /\ fst (mem_isdir p s) = s /\ fst (mem_isfile p s) = s /\
  fst (mem_isempty p s) = s /\ fst (mem_getsize p s) = s /\ fst (mem_gettype p s) = s /\
  fst (mem_readbytes p s) = s /\ fst (mem_validatepath p s) = s.
Proof.
  intros p s. unfold mem_exists. destruct (rpath p) as [cs|adm] eqn:R.
  - rewrite (mem_getinfo_spec _ _ s R), (mem_listdir_spec _ _ s R), (mem_scandir_spec _ _ s R),
      (mem_exists_spec _ _ s R), (mem_isdir_spec _ _ s R), (mem_isfile_spec _ _ s R),
      (mem_isempty_spec _ _ s R), (mem_getsize_spec _ _ s R), (mem_gettype_spec _ _ s R),
      (mem_readbytes_spec _ _ s R), (validate_inl _ _ s R).
    repeat split; reflexivity.
  - rewrite (mem_getinfo_bad _ _ s R), (mem_listdir_bad _ _ s R), (mem_scandir_bad _ _ s R),
      (mem_exists_bad _ _ s R), (mem_isdir_bad _ _ s R), (mem_isfile_bad _ _ s R),
      (mem_isempty_bad _ _ s R), (mem_getsize_bad _ _ s R), (mem_gettype_bad _ _ s R),
      (mem_readbytes_bad _ _ s R), (validate_inr _ _ s R).
    repeat split; reflexivity.
Qed.

Ltac inv H := inversion H; subst; clear H.

(* T9 *)
Theorem q_exists : forall p s b d f,
  mem_exists p s = (s, Ok b) -> mem_isdir p s = (s, Ok d) -> mem_isfile p s = (s, Ok f) ->
  b = d || f /\ d && f = false.
Proof.
  intros p s b d f. unfold mem_exists. destruct (rpath p) as [cs|adm] eqn:R.
  - rewrite (mem_exists_spec _ _ s R), (mem_isdir_spec _ _ s R), (mem_isfile_spec _ _ s R).
    intros H1 H2 H3. inv H1. inv H2. inv H3.
    destruct (lookup s cs) as [n|]; [destruct (is_dir n)|]; auto.
  - rewrite (mem_exists_bad _ _ s R). discriminate.
Qed.

(* T10 (the statement quantifies the scandir result existentially) *)
Theorem q_listdir_scandir : forall p s names,
  wf s -> mem_listdir p s = (s, Ok names) ->
  exists infos, mem_scandir p s = (s, Ok infos) /\ names = map i_name infos /\ NoDup names.
Proof.
  intros p s names W. destruct (rpath p) as [cs|adm] eqn:R.
  - rewrite (mem_listdir_spec _ _ s R), (mem_scandir_spec _ _ s R).
    destruct (lookup s cs) as [[|ents m]|] eqn:L; intro H; try discriminate. inv H.
    eexists. split; [reflexivity|]. split.
    + unfold keys. rewrite map_map. reflexivity.
    + destruct W as [_ W]. pose proof (wf_lookup _ _ _ W L) as Wn. simpl in Wn. tauto.
  - rewrite (mem_listdir_bad _ _ s R). discriminate.
Qed.

(* and conversely: a successful scandir determines listdir *)
Theorem q_scandir_listdir : forall p s infos,
  mem_scandir p s = (s, Ok infos) -> mem_listdir p s = (s, Ok (map i_name infos)).
Proof.
  intros p s infos. destruct (rpath p) as [cs|adm] eqn:R.
  - rewrite (mem_listdir_spec _ _ s R), (mem_scandir_spec _ _ s R).
    destruct (lookup s cs) as [[|ents m]|] eqn:L; intro H; try discriminate. inv H.
    unfold keys. rewrite map_map. reflexivity.
  - rewrite (mem_scandir_bad _ _ s R). discriminate.
Qed.

(* T11 *)
Theorem q_isempty : forall p s b,
  mem_isempty p s = (s, Ok b) -> (b = true <-> mem_listdir p s = (s, Ok [])).
Proof.
  intros p s b. destruct (rpath p) as [cs|adm] eqn:R.
  - rewrite (mem_isempty_spec _ _ s R), (mem_listdir_spec _ _ s R).
    destruct (lookup s cs) as [[|ents m]|] eqn:L; intro H; try discriminate. inv H.
    destruct ents as [|[k n] r]; simpl; split; intro H; try reflexivity; discriminate.
  - rewrite (mem_isempty_bad _ _ s R). discriminate.
Qed.

(* T12 *)
Theorem q_getsize : forall p s data,
  mem_readbytes p s = (s, Ok data) ->
  mem_getsize p s = (s, Ok (length data)) /\
  exists i, mem_getinfo p s = (s, Ok i) /\ i_size i = length data /\ i_isdir i = false.
Proof.
  intros p s data. destruct (rpath p) as [cs|adm] eqn:R.
  - rewrite (mem_readbytes_spec _ _ s R), (mem_getsize_spec _ _ s R), (mem_getinfo_spec _ _ s R).
    destruct cs as [|c0 cs0]; [discriminate|].
    destruct (lookup s (c0 :: cs0)) as [[dt m|ents m]|]; intro H; try discriminate. inv H.
    split; [reflexivity|]. eexists. split; [reflexivity|]. split; reflexivity.
  - rewrite (mem_readbytes_bad _ _ s R). discriminate.
Qed.

(* T13 *)
Theorem q_gettype : forall p s i,
  mem_getinfo p s = (s, Ok i) ->
  mem_gettype p s = (s, Ok (if i_isdir i then 1 else 2)) /\
  mem_isdir p s = (s, Ok (i_isdir i)) /\
  mem_isfile p s = (s, Ok (negb (i_isdir i))).
Proof.
  intros p s i. destruct (rpath p) as [cs|adm] eqn:R.
  - rewrite (mem_getinfo_spec _ _ s R), (mem_gettype_spec _ _ s R), (mem_isdir_spec _ _ s R),
      (mem_isfile_spec _ _ s R).
    destruct (lookup s cs) as [n|]; intro H; try discriminate. inv H.
    repeat split; reflexivity.
  - rewrite (mem_getinfo_bad _ _ s R). discriminate.
Qed.
