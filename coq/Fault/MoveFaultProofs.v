(* C07 — proofs about Fault/MoveFault.v: whatever primitive step fails (any position, any of
   FSError / OSError / Crash, any prefix left by a failing write), no source file is lost, the
   fault is reported, and the source is removed only after the complete transfer. *)
From Coq Require Import List Arith Bool Lia.
From PyFS Require Import Fault.MoveFault.
Import ListNotations.

(* ---------- association lists ---------- *)
Lemma lookup_remove_same : forall n l, lookup n (remove n l) = None.
Proof.
  induction l as [|[m b] r IH]; simpl; auto.
  destruct (Nat.eqb n m) eqn:E; simpl; auto. rewrite E. auto.
Qed.

Lemma lookup_remove_other : forall n m l, m <> n -> lookup m (remove n l) = lookup m l.
Proof.
  induction l as [|[x b] r IH]; simpl; intros; auto.
  destruct (Nat.eqb n x) eqn:E.
  - apply Nat.eqb_eq in E. subst x.
    destruct (Nat.eqb m n) eqn:E2; [apply Nat.eqb_eq in E2; congruence | auto].
  - simpl. destruct (Nat.eqb m x); auto.
Qed.

Lemma lookup_set_same : forall n b l, lookup n (set n b l) = Some b.
Proof. intros. unfold set. simpl. rewrite Nat.eqb_refl. auto. Qed.

Lemma lookup_set_other : forall n m b l, m <> n -> lookup m (set n b l) = lookup m l.
Proof.
  intros. unfold set. simpl.
  destruct (Nat.eqb m n) eqn:E; [apply Nat.eqb_eq in E; congruence|].
  apply lookup_remove_other; auto.
Qed.

Lemma cur_set_same : forall n b l, cur n (set n b l) = b.
Proof. intros. unfold cur. rewrite lookup_set_same. auto. Qed.

Opaque set.

Lemma lookup_in_dom : forall n l, In n (map fst l) -> lookup n l <> None.
Proof.
  induction l as [|[m b] r IH]; simpl; intros H; [contradiction|].
  destruct (Nat.eqb n m) eqn:E; [discriminate|].
  destruct H as [H|H]; [subst; rewrite Nat.eqb_refl in E; discriminate | auto].
Qed.

Lemma lookup_some_in_dom : forall n b l, lookup n l = Some b -> In n (map fst l).
Proof.
  induction l as [|[m c] r IH]; simpl; intros H; [discriminate|].
  destruct (Nat.eqb n m) eqn:E; [apply Nat.eqb_eq in E; auto | right; auto].
Qed.

(* ---------- chunking ---------- *)
Lemma concat_chunks_fuel : forall cs fuel d, length d <= fuel -> concat (chunks_fuel cs fuel d) = d.
Proof.
  induction fuel as [|fu IH]; intros d H.
  - destruct d; simpl in *; [auto | lia].
  - destruct d as [|x d']; [reflexivity|].
    change (chunks_fuel cs (S fu) (x :: d'))
      with (firstn (S cs) (x :: d') :: chunks_fuel cs fu (skipn (S cs) (x :: d'))).
    change (concat (firstn (S cs) (x :: d') :: chunks_fuel cs fu (skipn (S cs) (x :: d'))))
      with (firstn (S cs) (x :: d') ++ concat (chunks_fuel cs fu (skipn (S cs) (x :: d')))).
    rewrite IH.
    + apply firstn_skipn.
    + rewrite skipn_length. simpl in *. lia.
Qed.

Lemma concat_chunks : forall cs d, concat (chunks cs d) = d.
Proof. intros. unfold chunks. apply concat_chunks_fuel. auto. Qed.

(* ---------- primitives ---------- *)
Lemma hits_fault : forall f c, hits f c = true -> f_at f <> None.
Proof. unfold hits. intros f c H. destruct (f_at f); [discriminate | discriminate H]. Qed.

Lemma hits_bound : forall f c, hits f c = true -> f_at f = Some c.
Proof.
  unfold hits. intros f c H. destruct (f_at f); [|discriminate].
  apply Nat.eqb_eq in H. subst. auto.
Qed.

(* a finished primitive step: either it was not the fault position, or it raised *)
Definition faulted (f : fault) (s' : mstate) : Prop := fired s' = true /\ f_at f <> None.

Lemma tick_spec : forall l f s r s',
  tick l f s = (r, s') ->
  st s' = st s /\ cnt s' = S (cnt s) /\
  ((r = Ret tt /\ fired s' = fired s) \/ (r = Exc (f_exn f) /\ faulted f s')).
Proof.
  unfold tick, faulted. intros l f s r s' H.
  destruct (hits f (cnt s)) eqn:E; inversion H; subst; simpl.
  - repeat split; auto. right. repeat split; auto. eapply hits_fault; eauto.
  - repeat split; auto.
Qed.

Lemma try_finally_tick : forall A (m : M A) l f s r s',
  try_finally m (tick l) f s = (r, s') ->
  exists r0 s0, m f s = (r0, s0) /\ st s' = st s0 /\ cnt s' = S (cnt s0) /\
    ((r = r0 /\ fired s' = fired s0) \/ (r = Exc (f_exn f) /\ faulted f s')).
Proof.
  unfold try_finally. intros A m l f s r s' H.
  destruct (m f s) as [r0 s0] eqn:E0.
  destruct (tick l f s0) as [r1 s1] eqn:E1.
  exists r0, s0. split; auto.
  apply tick_spec in E1. destruct E1 as (Hst & Hc & [[Hr Hf] | [Hr Hf]]); subst r1.
  - inversion H; subst. repeat split; auto.
  - inversion H; subst. repeat split; auto.
Qed.

(* ---------- the copy loop ---------- *)
Lemma copy_loop_spec : forall n chs f s r s' acc,
  copy_loop n chs f s = (r, s') ->
  lookup n (dst (st s)) = Some acc ->
  src (st s') = src (st s) /\
  (forall m, m <> n -> lookup m (dst (st s')) = lookup m (dst (st s))) /\
  cnt s < cnt s' /\
  match r with
  | Ret _ => fired s' = fired s /\ lookup n (dst (st s')) = Some (acc ++ concat chs)
  | Exc _ => faulted f s'
  end.
Proof.
  induction chs as [|c chs IH]; intros f s r s' acc H Hacc.
  - simpl in H. apply tick_spec in H. destruct H as (Hst & Hc & [[Hr Hf] | [Hr Hf]]); subst r;
      rewrite Hst.
    + repeat split; auto; try lia. simpl. rewrite app_nil_r. auto.
    + repeat split; auto; try lia; apply Hf.
  - simpl in H. unfold bind in H.
    destruct (tick (PRead n) f s) as [r1 s1] eqn:E1.
    apply tick_spec in E1. destruct E1 as (Hst1 & Hc1 & [[Hr1 Hf1] | [Hr1 Hf1]]); subst r1.
    2:{ inversion H; subst. rewrite Hst1. repeat split; auto; try lia; apply Hf1. }
    unfold write_chunk in H.
    destruct (hits f (cnt s1)) eqn:Eh.
    + inversion H; subst. simpl. rewrite Hst1. repeat split; auto; try lia.
      * intros m Hm. apply lookup_set_other; auto.
      * eapply hits_fault; eauto.
    + remember (step (PWrite n) s1 (fired s1) (app_dst n c (st s1))) as s2.
      assert (Hacc2 : lookup n (dst (st s2)) = Some (acc ++ c)).
      { subst s2. simpl. rewrite lookup_set_same. unfold cur. rewrite Hst1, Hacc. auto. }
      specialize (IH f s2 r s' (acc ++ c) H Hacc2).
      destruct IH as (Hs & Hfr & Hc & Hr).
      assert (Hsrc2 : src (st s2) = src (st s)) by (subst s2; simpl; rewrite Hst1; auto).
      assert (Hdst2 : forall m, m <> n -> lookup m (dst (st s2)) = lookup m (dst (st s))).
      { intros m Hm. subst s2. simpl. rewrite lookup_set_other; auto. rewrite Hst1. auto. }
      assert (Hc2 : cnt s2 = S (cnt s1)) by (subst s2; auto).
      assert (Hf2 : fired s2 = fired s) by (subst s2; simpl; auto).
      repeat split.
      * congruence.
      * intros m Hm. rewrite Hfr; auto.
      * lia.
      * destruct r; auto. destruct Hr as [Hr1 Hr2]. split; [congruence|].
        rewrite Hr2. simpl. rewrite app_assoc. auto.
Qed.

(* ---------- copying one file ---------- *)
Lemma copy_file_spec : forall cs n f s r s' b,
  copy_file cs n f s = (r, s') ->
  lookup n (src (st s)) = Some b ->
  src (st s') = src (st s) /\
  (forall m, m <> n -> lookup m (dst (st s')) = lookup m (dst (st s))) /\
  cnt s < cnt s' /\
  match r with
  | Ret _ => fired s' = fired s /\ lookup n (dst (st s')) = Some b
  | Exc _ => faulted f s'
  end.
Proof.
  intros cs n f s r s' b H Hb.
  unfold copy_file, bind, open_src in H. unfold bind in H.
  destruct (tick (POpenSrc n) f s) as [r1 s1] eqn:E1.
  apply tick_spec in E1. destruct E1 as (Hst1 & Hc1 & [[Hr1 Hf1] | [Hr1 Hf1]]); subst r1.
  2:{ inversion H; subst. rewrite Hst1. repeat split; auto; try lia; apply Hf1. }
  rewrite Hst1, Hb in H.
  apply try_finally_tick in H.
  destruct H as (r0 & s0 & Hin & Hst' & Hc' & Hres).
  (* the body: open_dst then the inner with-block *)
  unfold bind, open_dst in Hin. unfold bind in Hin.
  destruct (tick (POpenDst n) f s1) as [r2 s2] eqn:E2.
  apply tick_spec in E2. destruct E2 as (Hst2 & Hc2 & [[Hr2 Hf2] | [Hr2 Hf2]]); subst r2.
  2:{ inversion Hin; subst. rewrite Hst', Hst2, Hst1. repeat split; auto; try lia.
      destruct Hres as [[Hr Hf] | [Hr Hf]]; subst r; auto.
      split; [rewrite Hf; apply Hf2 | apply Hf2]. }
  apply try_finally_tick in Hin.
  destruct Hin as (r3 & s3 & Hloop & Hst0 & Hc0 & Hres0).
  remember (with_st s2 (mkState (src (st s2)) (set n [] (dst (st s2))))) as s2'.
  assert (Hacc : lookup n (dst (st s2')) = Some []) by (subst s2'; simpl; apply lookup_set_same).
  destruct (copy_loop_spec n (chunks cs b) f s2' r3 s3 [] Hloop Hacc) as (Hs3 & Hd3 & Hc3 & Hr3).
  assert (Hsrc : src (st s') = src (st s)).
  { rewrite Hst', Hst0, Hs3. subst s2'. simpl. rewrite Hst2, Hst1. auto. }
  assert (Hdst : forall m, m <> n -> lookup m (dst (st s')) = lookup m (dst (st s))).
  { intros m Hm. rewrite Hst', Hst0, Hd3; auto. subst s2'. simpl.
    rewrite lookup_set_other; auto. rewrite Hst2, Hst1. auto. }
  assert (Hcnt : cnt s < cnt s').
  { assert (cnt s2' = cnt s2) by (subst s2'; auto). lia. }
  assert (Hf2' : fired s2' = fired s) by (subst s2'; simpl; congruence).
  repeat split; auto.
  destruct Hres as [[Hr Hf] | [Hr Hf]]; subst r; [|exact Hf].
  destruct Hres0 as [[Hr0 Hf0] | [Hr0 Hf0]]; subst r0.
  - destruct r3.
    + destruct Hr3 as [Hr31 Hr32]. split; [congruence|].
      rewrite Hst', Hst0, Hr32. simpl. rewrite concat_chunks. auto.
    + split; [rewrite Hf, Hf0; apply Hr3 | apply Hr3].
  - split; [rewrite Hf; apply Hf0 | apply Hf0].
Qed.

(* ---------- removing a source file ---------- *)
Lemma remove_src_spec : forall n f s r s',
  remove_src n f s = (r, s') ->
  dst (st s') = dst (st s) /\
  match r with
  | Ret _ => fired s' = fired s /\ src (st s') = remove n (src (st s)) /\ lookup n (src (st s)) <> None
  | Exc e => src (st s') = src (st s) /\
             (faulted f s' \/ (lookup n (src (st s)) = None /\ fired s' = fired s /\ e = FSError))
  end.
Proof.
  intros n f s r s' H. unfold remove_src, bind in H.
  destruct (tick (PRemoveSrc n) f s) as [r1 s1] eqn:E1.
  apply tick_spec in E1. destruct E1 as (Hst1 & Hc1 & [[Hr1 Hf1] | [Hr1 Hf1]]); subst r1.
  2:{ inversion H; subst. rewrite Hst1. auto. }
  rewrite Hst1 in H.
  destruct (lookup n (src (st s))) eqn:El; inversion H; subst; simpl.
  - repeat split; auto. discriminate.
  - rewrite Hst1. repeat split; auto.
Qed.

Lemma remove_dst_src : forall n f s r s', remove_dst n f s = (r, s') -> src (st s') = src (st s).
Proof.
  intros n f s r s' H. unfold remove_dst, bind in H.
  destruct (tick (PRemoveDst n) f s) as [r1 s1] eqn:E1.
  apply tick_spec in E1. destruct E1 as (Hst1 & Hc1 & [[Hr1 Hf1] | [Hr1 Hf1]]); subst r1.
  2:{ inversion H; subst. rewrite Hst1. auto. }
  rewrite Hst1 in H.
  destruct (lookup n (dst (st s))); inversion H; subst; simpl; rewrite ?Hst1; auto.
Qed.

(* ---------- move_file ---------- *)
(* the complete description of a run of move_file on an existing source file *)
Lemma move_file_spec : forall cs n f s r s' b,
  move_file cs n f s = (r, s') ->
  lookup n (src (st s)) = Some b ->
  (forall m, m <> n -> lookup m (src (st s')) = lookup m (src (st s))) /\
  (forall m, m <> n -> lookup m (dst (st s')) = lookup m (dst (st s))) /\
  match r with
  | Ret _ => fired s' = fired s /\ lookup n (src (st s')) = None /\ lookup n (dst (st s')) = Some b
  | Exc _ => faulted f s' /\ lookup n (src (st s')) = Some b
  end.
Proof.
  intros cs n f s r s' b H Hb.
  unfold move_file, bind in H.
  destruct (copy_file cs n f s) as [r1 s1] eqn:E1.
  destruct (copy_file_spec cs n f s r1 s1 b E1 Hb) as (Hs1 & Hd1 & Hc1 & Hr1).
  destruct r1 as [u|e].
  2:{ inversion H; subst.
      repeat split; try (intros; rewrite Hs1; auto); try apply Hr1; auto. }
  destruct Hr1 as [Hf1 Hdn].
  unfold try_except_fs in H.
  destruct (remove_src n f s1) as [r2 s2] eqn:E2.
  destruct (remove_src_spec n f s1 r2 s2 E2) as (Hd2 & Hr2).
  destruct r2 as [u2|e2].
  - inversion H; subst. destruct Hr2 as (Hf2 & Hs2 & _).
    repeat split.
    + intros m Hm. rewrite Hs2, lookup_remove_other, Hs1; auto.
    + intros m Hm. rewrite Hd2; auto.
    + congruence.
    + rewrite Hs2. apply lookup_remove_same.
    + rewrite Hd2; auto.
  - destruct Hr2 as [Hs2 Hcase].
    assert (Hfl : faulted f s2).
    { destruct Hcase as [Hfl | [Hnone _]]; auto. rewrite Hs1, Hb in Hnone. discriminate. }
    destruct e2.
    + (* FSError: the copy is cleaned up and the error re-raised *)
      destruct (remove_dst n f s2) as [r3 s3] eqn:E3.
      pose proof (remove_dst_src n f s2 r3 s3 E3) as Hs3.
      assert (Hd3 : forall m, m <> n -> lookup m (dst (st s3)) = lookup m (dst (st s2))).
      { intros m Hm. unfold remove_dst, bind in E3.
        destruct (tick (PRemoveDst n) f s2) as [r4 s4] eqn:E4.
        apply tick_spec in E4. destruct E4 as (Hst4 & Hc4 & [[Hr4 Hf4] | [Hr4 Hf4]]); subst r4.
        2:{ inversion E3; subst. rewrite Hst4. auto. }
        rewrite Hst4 in E3.
        destruct (lookup n (dst (st s2))); inversion E3; subst; simpl; rewrite ?Hst4; auto.
        apply lookup_remove_other; auto. }
      assert (Hf3 : fired s3 = true).
      { unfold remove_dst, bind in E3.
        destruct (tick (PRemoveDst n) f s2) as [r4 s4] eqn:E4.
        apply tick_spec in E4. destruct E4 as (Hst4 & Hc4 & [[Hr4 Hf4] | [Hr4 Hf4]]); subst r4.
        2:{ inversion E3; subst. apply Hf4. }
        rewrite Hst4 in E3.
        destruct (lookup n (dst (st s2))); inversion E3; subst; simpl;
          rewrite ?Hf4; apply Hfl. }
      assert (Hfin : s' = s3 /\ exists e, r = Exc e).
      { destruct r3; inversion H; subst; split; eauto. }
      destruct Hfin as [-> [e ->]].
      repeat split.
      * intros m Hm. rewrite Hs3, Hs2, Hs1; auto.
      * intros m Hm. rewrite Hd3, Hd2; auto.
      * exact Hf3.
      * apply Hfl.
      * rewrite Hs3, Hs2, Hs1; auto.
    + inversion H; subst. repeat split; auto.
      * intros; rewrite Hs2, Hs1; auto.
      * intros; rewrite Hd2; auto.
      * apply Hfl.
      * apply Hfl.
      * rewrite Hs2, Hs1; auto.
    + inversion H; subst. repeat split; auto.
      * intros; rewrite Hs2, Hs1; auto.
      * intros; rewrite Hd2; auto.
      * apply Hfl.
      * apply Hfl.
      * rewrite Hs2, Hs1; auto.
Qed.

Section MoveFile.
  Variables (cs : nat) (e : exn) (p : nat).

  Lemma run_move_file_unfold : forall k s d n,
    exists r m, move_file cs n (mk_fault e p k) (init s d) = (r, m) /\
                run_move_file cs e p k s d n = (st m, out_of r) /\
                fired_move_file cs e p k s d n = fired m.
  Proof.
    intros. unfold run_move_file, fired_move_file.
    destruct (move_file cs n (mk_fault e p k) (init s d)) as [r m]. eauto.
  Qed.

  (* whatever step fails, the file's bytes are at the source or complete at the destination *)
  Theorem move_file_no_loss : forall (k : option nat) (s d : files) (n : name) (b : bytes),
    lookup n s = Some b ->
    let (t, _) := run_move_file cs e p k s d n in
    lookup n (src t) = Some b \/ lookup n (dst t) = Some b.
  Proof.
    intros k s d n b Hb.
    destruct (run_move_file_unfold k s d n) as (r & m & Hrun & -> & _).
    destruct (move_file_spec cs n _ _ r m b Hrun Hb) as (_ & _ & Hr).
    destruct r; [right; apply Hr | left; apply Hr].
  Qed.

  (* a fault that fired is reported: the call does not return normally *)
  Theorem move_file_reports : forall (k : option nat) (s d : files) (n : name) (b : bytes),
    lookup n s = Some b ->
    fired_move_file cs e p k s d n = true ->
    snd (run_move_file cs e p k s d n) <> Ok.
  Proof.
    intros k s d n b Hb Hf.
    destruct (run_move_file_unfold k s d n) as (r & m & Hrun & -> & Hfm).
    rewrite Hfm in Hf.
    destruct (move_file_spec cs n _ _ r m b Hrun Hb) as (_ & _ & Hr).
    destruct r; simpl; [|discriminate].
    destruct Hr as [Hr _]. simpl in Hr. congruence.
  Qed.

  (* an error is only ever caused by the injected fault, and then the source is intact *)
  Theorem move_file_error_means_fault : forall (k : option nat) (s d : files) (n : name) (b : bytes),
    lookup n s = Some b ->
    snd (run_move_file cs e p k s d n) <> Ok ->
    fired_move_file cs e p k s d n = true /\ k <> None /\
    lookup n (src (fst (run_move_file cs e p k s d n))) = Some b.
  Proof.
    intros k s d n b Hb Hne.
    destruct (run_move_file_unfold k s d n) as (r & m & Hrun & Heq & Hfm).
    rewrite Heq in *. rewrite Hfm.
    destruct (move_file_spec cs n _ _ r m b Hrun Hb) as (_ & _ & Hr).
    destruct r; simpl in *; [congruence|].
    destruct Hr as [[H1 H2] H3]. auto.
  Qed.

  (* no fault fired (k = None, or k beyond the last step): Ok, source gone, destination complete *)
  Theorem move_file_ok_moves : forall (k : option nat) (s d : files) (n : name) (b : bytes),
    lookup n s = Some b ->
    fired_move_file cs e p k s d n = false ->
    let (t, o) := run_move_file cs e p k s d n in
    o = Ok /\ lookup n (src t) = None /\ lookup n (dst t) = Some b.
  Proof.
    intros k s d n b Hb Hf.
    destruct (run_move_file_unfold k s d n) as (r & m & Hrun & -> & Hfm).
    rewrite Hfm in Hf.
    destruct (move_file_spec cs n _ _ r m b Hrun Hb) as (_ & _ & Hr).
    destruct r; simpl.
    - destruct Hr as (_ & H1 & H2). auto.
    - destruct Hr as [[H1 _] _]. congruence.
  Qed.

  Theorem move_file_no_fault_ok : forall (s d : files) (n : name) (b : bytes),
    lookup n s = Some b ->
    let (t, o) := run_move_file cs e p None s d n in
    o = Ok /\ lookup n (src t) = None /\ lookup n (dst t) = Some b.
  Proof.
    intros s d n b Hb.
    apply move_file_ok_moves; auto.
    destruct (run_move_file_unfold None s d n) as (r & m & Hrun & _ & ->).
    destruct (move_file_spec cs n _ _ r m b Hrun Hb) as (_ & _ & Hr).
    destruct r.
    - destruct Hr as [Hr _]. simpl in Hr. auto.
    - destruct Hr as [[_ H] _]. simpl in H. congruence.
  Qed.

  (* Ok is only returned after the complete transfer *)
  Theorem move_file_ok_means_moved : forall (k : option nat) (s d : files) (n : name) (b : bytes),
    lookup n s = Some b ->
    snd (run_move_file cs e p k s d n) = Ok ->
    lookup n (src (fst (run_move_file cs e p k s d n))) = None /\
    lookup n (dst (fst (run_move_file cs e p k s d n))) = Some b.
  Proof.
    intros k s d n b Hb Hok.
    destruct (run_move_file_unfold k s d n) as (r & m & Hrun & Heq & _).
    rewrite Heq in *.
    destruct (move_file_spec cs n _ _ r m b Hrun Hb) as (_ & _ & Hr).
    destruct r; simpl in *; [|discriminate].
    destruct Hr as (_ & H1 & H2). auto.
  Qed.

  (* the other files of both filesystems are not touched *)
  Theorem move_file_frame : forall (k : option nat) (s d : files) (n m : name) (b : bytes),
    lookup n s = Some b -> m <> n ->
    let (t, _) := run_move_file cs e p k s d n in
    lookup m (src t) = lookup m s /\ lookup m (dst t) = lookup m d.
  Proof.
    intros k s d n m b Hb Hm.
    destruct (run_move_file_unfold k s d n) as (r & mm & Hrun & -> & _).
    destruct (move_file_spec cs n _ _ r mm b Hrun Hb) as (H1 & H2 & _).
    split; [apply H1 | apply H2]; auto.
  Qed.
End MoveFile.

(* ---------- move_dir ---------- *)
Lemma copy_all_spec : forall cs ns f s r s',
  copy_all cs ns f s = (r, s') ->
  (forall n, In n ns -> lookup n (src (st s)) <> None) ->
  src (st s') = src (st s) /\
  match r with
  | Ret _ => fired s' = fired s /\
             (forall n b, In n ns -> lookup n (src (st s)) = Some b -> lookup n (dst (st s')) = Some b) /\
             (forall m, ~ In m ns -> lookup m (dst (st s')) = lookup m (dst (st s)))
  | Exc _ => faulted f s'
  end.
Proof.
  induction ns as [|n ns IH]; intros f s r s' H Hdom.
  - inversion H; subst. repeat split; auto. intros n b [].
  - simpl in H. unfold bind in H.
    destruct (copy_file cs n f s) as [r1 s1] eqn:E1.
    destruct (lookup n (src (st s))) as [b|] eqn:Eb; [|exfalso; apply (Hdom n); simpl; auto].
    destruct (copy_file_spec cs n f s r1 s1 b E1 Eb) as (Hs1 & Hd1 & Hc1 & Hr1).
    destruct r1 as [u|ex].
    2:{ inversion H; subst. split; auto. }
    destruct Hr1 as [Hf1 Hdn].
    assert (Hdom1 : forall x, In x ns -> lookup x (src (st s1)) <> None).
    { intros x Hx. rewrite Hs1. apply Hdom. simpl; auto. }
    destruct (IH f s1 r s' H Hdom1) as (Hs' & Hr).
    split; [congruence|].
    destruct r; auto.
    destruct Hr as (Hf' & Hall & Hframe).
    repeat split.
    + congruence.
    + intros x bx [Hx | Hx] Hbx.
      * subst x. assert (bx = b) by congruence. subst bx.
        destruct (in_dec Nat.eq_dec n ns) as [Hin | Hnin].
        -- apply Hall; auto. rewrite Hs1. auto.
        -- rewrite Hframe; auto.
      * apply Hall; auto. rewrite Hs1. auto.
    + intros m Hm. simpl in Hm.
      rewrite Hframe; [|tauto]. apply Hd1. intro; subst; tauto.
Qed.

Lemma remove_all_dst : forall ns f s r s',
  remove_all ns f s = (r, s') -> dst (st s') = dst (st s).
Proof.
  induction ns as [|n ns IH]; intros f s r s' H.
  - inversion H; subst; auto.
  - simpl in H. unfold bind in H.
    destruct (remove_src n f s) as [r1 s1] eqn:E1.
    destruct (remove_src_spec n f s r1 s1 E1) as (Hd1 & _).
    destruct r1.
    + apply IH in H. congruence.
    + inversion H; subst; auto.
Qed.

Lemma remove_all_spec : forall ns f s r s',
  remove_all ns f s = (r, s') ->
  NoDup ns ->
  (forall n, In n ns -> lookup n (src (st s)) <> None) ->
  match r with
  | Ret _ => fired s' = fired s /\
             (forall n, In n ns -> lookup n (src (st s')) = None) /\
             (forall m, ~ In m ns -> lookup m (src (st s')) = lookup m (src (st s)))
  | Exc _ => faulted f s'
  end.
Proof.
  induction ns as [|n ns IH]; intros f s r s' H Hnd Hdom.
  - inversion H; subst. repeat split; auto. intros n [].
  - simpl in H. unfold bind in H.
    destruct (remove_src n f s) as [r1 s1] eqn:E1.
    destruct (remove_src_spec n f s r1 s1 E1) as (Hd1 & Hr1).
    inversion Hnd as [|x l Hnotin Hnd']; subst.
    destruct r1 as [u|ex].
    + destruct Hr1 as (Hf1 & Hs1 & _).
      assert (Hdom1 : forall x, In x ns -> lookup x (src (st s1)) <> None).
      { intros x Hx. rewrite Hs1, lookup_remove_other.
        - apply Hdom; simpl; auto.
        - intro; subst; tauto. }
      specialize (IH f s1 r s' H Hnd' Hdom1).
      destruct r; auto.
      destruct IH as (Hf' & Hgone & Hframe).
      repeat split.
      * congruence.
      * intros x [Hx | Hx].
        -- subst x. rewrite Hframe; auto. rewrite Hs1. apply lookup_remove_same.
        -- apply Hgone; auto.
      * intros m Hm. simpl in Hm. rewrite Hframe; [|tauto].
        rewrite Hs1. apply lookup_remove_other. intro; subst; tauto.
    + inversion H; subst. destruct Hr1 as [_ [Hfl | [Hnone _]]]; auto.
      exfalso. apply (Hdom n); simpl; auto.
Qed.

(* every run of move_dir: the source table is untouched, or every source file is complete
   at the destination (removal only starts after copy_dir returned) *)
Lemma move_dir_spec : forall cs f s d r m,
  move_dir cs f (init s d) = (r, m) ->
  src (st m) = s \/ (forall n b, lookup n s = Some b -> lookup n (dst (st m)) = Some b).
Proof.
  intros cs f s d r m H.
  unfold move_dir in H. cbv zeta in H. unfold bind in H.
  remember (init s d) as s0.
  assert (Hs0 : src (st s0) = s) by (subst s0; auto).
  destruct (tick PMakedirDst f s0) as [r1 s1] eqn:E1.
  apply tick_spec in E1. destruct E1 as (Hst1 & _ & [[Hr1 _] | [Hr1 _]]); subst r1.
  2:{ inversion H; subst m. left. rewrite Hst1. auto. }
  destruct (tick PScanSrc f s1) as [r2 s2] eqn:E2.
  apply tick_spec in E2. destruct E2 as (Hst2 & _ & [[Hr2 _] | [Hr2 _]]); subst r2.
  2:{ inversion H; subst m. left. rewrite Hst2, Hst1. auto. }
  destruct (copy_all cs (map fst (src (st s0))) f s2) as [r3 s3] eqn:E3.
  assert (Hdom : forall n, In n (map fst (src (st s0))) -> lookup n (src (st s2)) <> None).
  { intros n Hn. rewrite Hst2, Hst1. apply lookup_in_dom. auto. }
  destruct (copy_all_spec cs _ f s2 r3 s3 E3 Hdom) as (Hs3 & Hr3).
  destruct r3 as [u|ex].
  2:{ inversion H; subst m. left. rewrite Hs3, Hst2, Hst1. auto. }
  destruct Hr3 as (_ & Hall & _).
  assert (Hcomplete : forall n b, lookup n s = Some b -> lookup n (dst (st s3)) = Some b).
  { intros n b Hb. apply Hall.
    - rewrite Hs0. eapply lookup_some_in_dom; eauto.
    - rewrite Hst2, Hst1, Hs0. auto. }
  right.
  destruct (tick PScanSrc f s3) as [r4 s4] eqn:E4.
  apply tick_spec in E4. destruct E4 as (Hst4 & _ & [[Hr4 _] | [Hr4 _]]); subst r4.
  2:{ inversion H; subst m. rewrite Hst4. auto. }
  destruct (remove_all (map fst (src (st s0))) f s4) as [r5 s5] eqn:E5.
  pose proof (remove_all_dst _ f s4 r5 s5 E5) as Hd5.
  destruct r5 as [u5|ex5].
  2:{ inversion H; subst m. rewrite Hd5, Hst4. auto. }
  apply tick_spec in H. destruct H as (Hst6 & _).
  rewrite Hst6, Hd5, Hst4. auto.
Qed.

(* a normal return of move_dir: every file is gone from the source and complete at the
   destination; an error is always the injected fault *)
Lemma move_dir_result : forall cs f s d r m,
  NoDup (map fst s) ->
  move_dir cs f (init s d) = (r, m) ->
  match r with
  | Ret _ => fired m = false /\
             forall n b, lookup n s = Some b ->
                         lookup n (src (st m)) = None /\ lookup n (dst (st m)) = Some b
  | Exc _ => faulted f m
  end.
Proof.
  intros cs f s d r m Hnd H.
  unfold move_dir in H. cbv zeta in H. unfold bind in H.
  remember (init s d) as s0.
  assert (Hs0 : src (st s0) = s) by (subst s0; auto).
  assert (Hf0 : fired s0 = false) by (subst s0; auto).
  destruct (tick PMakedirDst f s0) as [r1 s1] eqn:E1.
  apply tick_spec in E1. destruct E1 as (Hst1 & _ & [[Hr1 Hf1] | [Hr1 Hf1]]); subst r1.
  2:{ inversion H; subst; auto. }
  destruct (tick PScanSrc f s1) as [r2 s2] eqn:E2.
  apply tick_spec in E2. destruct E2 as (Hst2 & _ & [[Hr2 Hf2] | [Hr2 Hf2]]); subst r2.
  2:{ inversion H; subst; auto. }
  destruct (copy_all cs (map fst (src (st s0))) f s2) as [r3 s3] eqn:E3.
  assert (Hdom : forall n, In n (map fst (src (st s0))) -> lookup n (src (st s2)) <> None).
  { intros n Hn. rewrite Hst2, Hst1. apply lookup_in_dom. auto. }
  destruct (copy_all_spec cs _ f s2 r3 s3 E3 Hdom) as (Hs3 & Hr3).
  destruct r3 as [u|ex].
  2:{ inversion H; subst; auto. }
  destruct Hr3 as (Hf3 & Hall & _).
  destruct (tick PScanSrc f s3) as [r4 s4] eqn:E4.
  apply tick_spec in E4. destruct E4 as (Hst4 & _ & [[Hr4 Hf4] | [Hr4 Hf4]]); subst r4.
  2:{ inversion H; subst; auto. }
  destruct (remove_all (map fst (src (st s0))) f s4) as [r5 s5] eqn:E5.
  pose proof (remove_all_dst _ f s4 r5 s5 E5) as Hd5.
  assert (Hdom4 : forall n, In n (map fst (src (st s0))) -> lookup n (src (st s4)) <> None).
  { intros n Hn. rewrite Hst4, Hs3. auto. }
  assert (Hnd0 : NoDup (map fst (src (st s0)))) by (rewrite Hs0; auto).
  pose proof (remove_all_spec _ f s4 r5 s5 E5 Hnd0 Hdom4) as Hr5.
  destruct r5 as [u5|ex5].
  2:{ inversion H; subst; auto. }
  destruct Hr5 as (Hf5 & Hgone & _).
  apply tick_spec in H. destruct H as (Hst6 & _ & [[Hr6 Hf6] | [Hr6 Hf6]]); subst r; auto.
  split; [congruence|].
  intros n b Hb.
  assert (Hin : In n (map fst (src (st s0)))) by (rewrite Hs0; eapply lookup_some_in_dom; eauto).
  split.
  - rewrite Hst6. apply Hgone. auto.
  - rewrite Hst6, Hd5, Hst4. apply Hall; auto. rewrite Hst2, Hst1, Hs0. auto.
Qed.

Section MoveDir.
  Variables (cs : nat) (e : exn) (p : nat).

  Lemma run_move_dir_unfold : forall k s d,
    exists r m, move_dir cs (mk_fault e p k) (init s d) = (r, m) /\
                run_move_dir cs e p k s d = (st m, out_of r) /\
                fired_move_dir cs e p k s d = fired m.
  Proof.
    intros. unfold run_move_dir, fired_move_dir.
    destruct (move_dir cs (mk_fault e p k) (init s d)) as [r m]. eauto.
  Qed.

  (* whatever step fails, every source file's bytes are at the source or complete at the
     destination *)
  Theorem move_dir_no_loss : forall (k : option nat) (s d : files),
    NoDup (map fst s) ->
    forall (n : name) (b : bytes), lookup n s = Some b ->
    let (t, _) := run_move_dir cs e p k s d in
    lookup n (src t) = Some b \/ lookup n (dst t) = Some b.
  Proof.
    intros k s d _ n b Hb.
    destruct (run_move_dir_unfold k s d) as (r & m & Hrun & -> & _).
    destruct (move_dir_spec cs _ s d r m Hrun) as [Hs | Hc].
    - left. rewrite Hs. auto.
    - right. auto.
  Qed.

  (* a source file is missing after the run only if the destination has its complete bytes *)
  Theorem move_dir_source_removed_late : forall (k : option nat) (s d : files),
    NoDup (map fst s) ->
    forall (n : name) (b : bytes), lookup n s = Some b ->
    let (t, _) := run_move_dir cs e p k s d in
    lookup n (src t) = None -> lookup n (dst t) = Some b.
  Proof.
    intros k s d _ n b Hb.
    destruct (run_move_dir_unfold k s d) as (r & m & Hrun & -> & _).
    destruct (move_dir_spec cs _ s d r m Hrun) as [Hs | Hc]; intros Hnone.
    - rewrite Hs in Hnone. congruence.
    - auto.
  Qed.

  (* stronger: as soon as ANY source file has been removed, EVERY source file is complete at
     the destination (removetree only starts after copy_dir returned normally) *)
  Theorem move_dir_removal_after_all_copies : forall (k : option nat) (s d : files),
    let (t, _) := run_move_dir cs e p k s d in
    src t <> s -> forall (n : name) (b : bytes), lookup n s = Some b -> lookup n (dst t) = Some b.
  Proof.
    intros k s d.
    destruct (run_move_dir_unfold k s d) as (r & m & Hrun & -> & _).
    destruct (move_dir_spec cs _ s d r m Hrun) as [Hs | Hc]; intros Hne; [congruence | auto].
  Qed.

  Theorem move_dir_reports : forall (k : option nat) (s d : files),
    NoDup (map fst s) ->
    fired_move_dir cs e p k s d = true ->
    snd (run_move_dir cs e p k s d) <> Ok.
  Proof.
    intros k s d Hnd Hf.
    destruct (run_move_dir_unfold k s d) as (r & m & Hrun & -> & Hfm).
    rewrite Hfm in Hf.
    pose proof (move_dir_result cs _ s d r m Hnd Hrun) as Hr.
    destruct r; simpl; [|discriminate].
    destruct Hr as [Hr _]. congruence.
  Qed.

  Theorem move_dir_ok_moves : forall (k : option nat) (s d : files),
    NoDup (map fst s) ->
    fired_move_dir cs e p k s d = false ->
    let (t, o) := run_move_dir cs e p k s d in
    o = Ok /\ forall (n : name) (b : bytes), lookup n s = Some b ->
                lookup n (src t) = None /\ lookup n (dst t) = Some b.
  Proof.
    intros k s d Hnd Hf.
    destruct (run_move_dir_unfold k s d) as (r & m & Hrun & -> & Hfm).
    rewrite Hfm in Hf.
    pose proof (move_dir_result cs _ s d r m Hnd Hrun) as Hr.
    destruct r; simpl.
    - destruct Hr as [_ Hr]. auto.
    - destruct Hr as [Hr _]. congruence.
  Qed.

  Theorem move_dir_ok_means_moved : forall (k : option nat) (s d : files),
    NoDup (map fst s) ->
    snd (run_move_dir cs e p k s d) = Ok ->
    forall (n : name) (b : bytes), lookup n s = Some b ->
      lookup n (src (fst (run_move_dir cs e p k s d))) = None /\
      lookup n (dst (fst (run_move_dir cs e p k s d))) = Some b.
  Proof.
    intros k s d Hnd Hok.
    destruct (run_move_dir_unfold k s d) as (r & m & Hrun & Heq & _).
    rewrite Heq in *.
    pose proof (move_dir_result cs _ s d r m Hnd Hrun) as Hr.
    destruct r; simpl in *; [|discriminate].
    destruct Hr as [_ Hr]. auto.
  Qed.
End MoveDir.

(* Fault positions are unbounded: a position beyond the last step of the run never fires
   ([fired_* = false]), and move_file_ok_moves / move_dir_ok_moves then give the fault-free
   result; e.g. the 10-step run of MoveFault.ex_trace with k = 10 and k = 1000: *)
Example late_fault_is_no_fault :
  run_move_file 1 OSError 0 (Some 10) [(7, [1;2;3])] [] 7 = run_move_file 1 OSError 0 None [(7, [1;2;3])] [] 7
  /\ run_move_file 1 OSError 0 (Some 1000) [(7, [1;2;3])] [] 7 = run_move_file 1 OSError 0 None [(7, [1;2;3])] [] 7
  /\ fired_move_file 1 OSError 0 (Some 10) [(7, [1;2;3])] [] 7 = false
  /\ fired_move_file 1 OSError 0 (Some 9) [(7, [1;2;3])] [] 7 = true.
Proof. repeat split; reflexivity. Qed.

Print Assumptions move_file_no_loss.
Print Assumptions move_file_reports.
Print Assumptions move_file_ok_moves.
Print Assumptions move_dir_no_loss.
Print Assumptions move_dir_source_removed_late.
