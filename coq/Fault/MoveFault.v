(* C07 — fault model of fs.move.move_file (cross-filesystem branch, fs/move.py l.97-113) and
   fs.move.move_dir (l.138-150, copy_dir with workers=0) over a flat list of files.

   An exception-monad interpreter with a step counter.  Every primitive I/O step (openbin on
   the source / on the destination, each read, each write, each close, remove on the source,
   the cleanup remove on the destination, makedir / scandir / removedir) first consults the
   fault description: when the counter equals the fault position the primitive raises the
   chosen exception INSTEAD of being performed (a failing write may first have written a
   prefix of its chunk).  `with` blocks are try/finally: the close still runs while the
   exception propagates, also for `Crash` (a BaseException that no `except FSError` handler
   catches: Python still runs finally blocks).

   stdlib only; no axioms. *)
From Coq Require Import List Arith Bool Lia.
Import ListNotations.

Definition name := nat.
Definition bytes := list nat.
Definition files := list (name * bytes).

(* association lists: first binding wins, remove drops every binding *)
Fixpoint lookup (n : name) (l : files) : option bytes :=
  match l with
  | [] => None
  | (m, b) :: r => if Nat.eqb n m then Some b else lookup n r
  end.

Fixpoint remove (n : name) (l : files) : files :=
  match l with
  | [] => []
  | (m, b) :: r => if Nat.eqb n m then remove n r else (m, b) :: remove n r
  end.

Definition set (n : name) (b : bytes) (l : files) : files := (n, b) :: remove n l.

(* content of a destination file that is being written ([] when it does not exist) *)
Definition cur (n : name) (l : files) : bytes :=
  match lookup n l with Some b => b | None => [] end.

(* ---------- exceptions, outcomes, primitives ---------- *)
Inductive exn := FSError | OSError | Crash.
Inductive outcome := Ok | Raised (e : exn).

Inductive prim :=
| POpenSrc (n : name)      (* src_fs.openbin(src_path)            *)
| POpenDst (n : name)      (* dst_fs.openbin(dst_path, "wb")      *)
| PRead (n : name)         (* read_file.read(chunk)               *)
| PWrite (n : name)        (* dst_file.write(chunk)               *)
| PCloseDst (n : name)
| PCloseSrc (n : name)
| PRemoveSrc (n : name)    (* src_fs.remove(src_path)             *)
| PRemoveDst (n : name)    (* cleanup: dst_fs.remove(dst_path)    *)
| PMakedirDst              (* dst_fs.makedir(dst_path, recreate)  *)
| PScanSrc                 (* a directory scan of the source      *)
| PRemovedirSrc.           (* src_fs.removedir(src_path)          *)

Record state := mkState { src : files; dst : files }.

(* the fault: position (None = no fault), exception raised, length of the prefix a failing
   write leaves behind *)
Record fault := mkFault { f_at : option nat; f_exn : exn; f_prefix : nat }.

(* interpreter state: number of primitives started so far, whether the fault has fired,
   the primitives started so far (most recent first), the two file tables *)
Record mstate := mkM { cnt : nat; fired : bool; trace : list prim; st : state }.

Inductive res (A : Type) : Type :=
| Ret : A -> res A
| Exc : exn -> res A.
Arguments Ret {A} _.
Arguments Exc {A} _.

Definition M (A : Type) := fault -> mstate -> res A * mstate.

Definition ret {A} (a : A) : M A := fun _ s => (Ret a, s).
Definition raise {A} (e : exn) : M A := fun _ s => (Exc e, s).
Definition bind {A B} (m : M A) (k : A -> M B) : M B :=
  fun f s => match m f s with
             | (Ret a, s') => k a f s'
             | (Exc e, s') => (Exc e, s')
             end.

(* try: m finally: fin  — fin always runs; an exception of fin replaces the result of m *)
Definition try_finally {A} (m : M A) (fin : M unit) : M A :=
  fun f s => match m f s with
             | (r, s') => match fin f s' with
                          | (Ret _, s'') => (r, s'')
                          | (Exc e, s'') => (Exc e, s'')
                          end
             end.

(* try: m except FSError as e: h; raise e   — OSError and Crash are not caught *)
Definition try_except_fs {A} (m : M A) (h : M unit) : M A :=
  fun f s => match m f s with
             | (Exc FSError, s') => match h f s' with
                                    | (Ret _, s'') => (Exc FSError, s'')
                                    | (Exc e, s'') => (Exc e, s'')
                                    end
             | other => other
             end.

Definition hits (f : fault) (c : nat) : bool :=
  match f_at f with Some k => Nat.eqb k c | None => false end.

Definition step (l : prim) (s : mstate) (fi : bool) (t : state) : mstate :=
  mkM (S (cnt s)) fi (l :: trace s) t.

(* a primitive without effect on the file tables *)
Definition tick (l : prim) : M unit :=
  fun f s => if hits f (cnt s) then (Exc (f_exn f), step l s true (st s))
             else (Ret tt, step l s (fired s) (st s)).

Definition with_st (s : mstate) (t : state) : mstate := mkM (cnt s) (fired s) (trace s) t.

(* openbin(src): ResourceNotFound (an FSError) when the file does not exist *)
Definition open_src (n : name) : M bytes :=
  bind (tick (POpenSrc n)) (fun _ => fun _ s =>
    match lookup n (src (st s)) with
    | Some b => (Ret b, s)
    | None => (Exc FSError, s)
    end).

(* openbin(dst, "wb") creates the file or truncates it *)
Definition open_dst (n : name) : M unit :=
  bind (tick (POpenDst n)) (fun _ => fun _ s =>
    (Ret tt, with_st s (mkState (src (st s)) (set n [] (dst (st s)))))).

Definition app_dst (n : name) (c : bytes) (t : state) : state :=
  mkState (src t) (set n (cur n (dst t) ++ c) (dst t)).

(* write(chunk): a failing write leaves the first f_prefix bytes of the chunk *)
Definition write_chunk (n : name) (c : bytes) : M unit :=
  fun f s => if hits f (cnt s)
             then (Exc (f_exn f), step (PWrite n) s true (app_dst n (firstn (f_prefix f) c) (st s)))
             else (Ret tt, step (PWrite n) s (fired s) (app_dst n c (st s))).

Definition remove_src (n : name) : M unit :=
  bind (tick (PRemoveSrc n)) (fun _ => fun _ s =>
    match lookup n (src (st s)) with
    | Some _ => (Ret tt, with_st s (mkState (remove n (src (st s))) (dst (st s))))
    | None => (Exc FSError, s)
    end).

Definition remove_dst (n : name) : M unit :=
  bind (tick (PRemoveDst n)) (fun _ => fun _ s =>
    match lookup n (dst (st s)) with
    | Some _ => (Ret tt, with_st s (mkState (src (st s)) (remove n (dst (st s)))))
    | None => (Exc FSError, s)
    end).

(* fs.tools.copy_file_data: for chunk in iter(lambda: read(size) or None, None): write(chunk)
   — one read and one write per chunk, then the read that returns b"" *)
Fixpoint copy_loop (n : name) (chs : list bytes) : M unit :=
  match chs with
  | [] => tick (PRead n)
  | c :: r => bind (tick (PRead n)) (fun _ => bind (write_chunk n c) (fun _ => copy_loop n r))
  end.

Section Chunked.
  (* read size is [S cs] bytes *)
  Variable cs : nat.

  Fixpoint chunks_fuel (fuel : nat) (d : bytes) : list bytes :=
    match fuel with
    | 0 => []
    | S fu => match d with
              | [] => []
              | _ :: _ => firstn (S cs) d :: chunks_fuel fu (skipn (S cs) d)
              end
    end.

  Definition chunks (d : bytes) : list bytes := chunks_fuel (length d) d.

  (* copy_file_internal (fs/copy.py l.275-276) with FS.upload (fs/base.py l.1435-1437):
       with src_fs.openbin(src_path) as read_file:
           with dst_fs.openbin(dst_path, "wb") as dst_file:
               copy_file_data(read_file, dst_file)                                   *)
  Definition copy_file (n : name) : M unit :=
    bind (open_src n) (fun data =>
      try_finally
        (bind (open_dst n) (fun _ =>
           try_finally (copy_loop n (chunks data)) (tick (PCloseDst n))))
        (tick (PCloseSrc n))).

  (* move_file (fs/move.py l.98-113):
       copy_file(...)
       try: src_fs.remove(src_path)
       except FSError as e: dst_fs.remove(dst_path); raise e                          *)
  Definition move_file (n : name) : M unit :=
    bind (copy_file n) (fun _ => try_except_fs (remove_src n) (remove_dst n)).

  Fixpoint copy_all (ns : list name) : M unit :=
    match ns with
    | [] => ret tt
    | n :: r => bind (copy_file n) (fun _ => copy_all r)
    end.

  Fixpoint remove_all (ns : list name) : M unit :=
    match ns with
    | [] => ret tt
    | n :: r => bind (remove_src n) (fun _ => remove_all r)
    end.

  (* move_dir (fs/move.py l.141-150), workers = 0:
       dst_fs.makedir(dst_path, recreate=True)
       copy_dir(...)            scan the source, copy every file, stop at the first error
       src_fs.removetree(src)   scan, remove every file, removedir                    *)
  Definition move_dir : M unit :=
    fun f s =>
      let ns := map fst (src (st s)) in
      bind (tick PMakedirDst) (fun _ =>
      bind (tick PScanSrc) (fun _ =>
      bind (copy_all ns) (fun _ =>
      bind (tick PScanSrc) (fun _ =>
      bind (remove_all ns) (fun _ =>
      tick PRemovedirSrc))))) f s.

  Definition init (s d : files) : mstate := mkM 0 false [] (mkState s d).

  Definition out_of {A} (r : res A) : outcome :=
    match r with Ret _ => Ok | Exc e => Raised e end.

  Definition mk_fault (e : exn) (p : nat) (k : option nat) : fault := mkFault k e p.

  (* e: exception raised by the failing primitive; p: prefix length of a failing write;
     k: fault position (None, or a position beyond the last step: nothing fails) *)
  Definition run_move_file (e : exn) (p : nat) (k : option nat) (s d : files) (n : name)
    : state * outcome :=
    let (r, m) := move_file n (mk_fault e p k) (init s d) in (st m, out_of r).

  Definition fired_move_file (e : exn) (p : nat) (k : option nat) (s d : files) (n : name) : bool :=
    fired (snd (move_file n (mk_fault e p k) (init s d))).

  Definition trace_move_file (e : exn) (p : nat) (k : option nat) (s d : files) (n : name)
    : list prim :=
    rev (trace (snd (move_file n (mk_fault e p k) (init s d)))).

  Definition run_move_dir (e : exn) (p : nat) (k : option nat) (s d : files) : state * outcome :=
    let (r, m) := move_dir (mk_fault e p k) (init s d) in (st m, out_of r).

  Definition fired_move_dir (e : exn) (p : nat) (k : option nat) (s d : files) : bool :=
    fired (snd (move_dir (mk_fault e p k) (init s d))).

  Definition trace_move_dir (e : exn) (p : nat) (k : option nat) (s d : files) : list prim :=
    rev (trace (snd (move_dir (mk_fault e p k) (init s d)))).
End Chunked.

(* sanity: a two-chunk file, fault-free and with the second write failing after one byte *)
Example ex_ok :
  run_move_file 1 FSError 0 None [(7, [1;2;3])] [(9, [5])] 7
  = (mkState [] [(7, [1;2;3]); (9, [5])], Ok).
Proof. reflexivity. Qed.

Example ex_trace :
  trace_move_file 1 FSError 0 None [(7, [1;2;3])] [] 7
  = [POpenSrc 7; POpenDst 7; PRead 7; PWrite 7; PRead 7; PWrite 7; PRead 7;
     PCloseDst 7; PCloseSrc 7; PRemoveSrc 7].
Proof. reflexivity. Qed.

Example ex_write_fault :
  run_move_file 1 OSError 0 (Some 5) [(7, [1;2;3])] [] 7
  = (mkState [(7, [1;2;3])] [(7, [1;2])], Raised OSError).
Proof. reflexivity. Qed.

Example ex_remove_fault_cleanup :
  run_move_file 1 FSError 0 (Some 9) [(7, [1;2;3])] [] 7
  = (mkState [(7, [1;2;3])] [], Raised FSError).
Proof. reflexivity. Qed.

Example ex_remove_fault_oserror_keeps_copy :
  run_move_file 1 OSError 0 (Some 9) [(7, [1;2;3])] [] 7
  = (mkState [(7, [1;2;3])] [(7, [1;2;3])], Raised OSError).
Proof. reflexivity. Qed.
