(* Documented shell semantics of wildcard and glob patterns, as recursive matchers over
   tokens / path components (independent of the regex translation in fs/glob.py,
   fs/wildcard.py). *)
From Coq Require Import List NArith Bool Arith Lia.
From PyFS Require Import Base.PyStr Path.PathSpec.
Import ListNotations.
Local Open Scope N_scope.

Inductive item := ILit (c : char) | IRange (lo hi : char).
Inductive tok :=
| TStar | TQ | TClass (neg : bool) (items : list item) | TLit (c : char).

Definition ch_star : char := 42. Definition ch_q : char := 63. Definition ch_lb : char := 91.
Definition ch_rb : char := 93. Definition ch_bang : char := 33. Definition ch_dash : char := 45.

(* items of a class body: a-z ranges and literals *)
Fixpoint class_items_fuel (fuel : nat) (s : str) : list item :=
  match fuel with
  | O => []
  | S f =>
    match s with
    | a :: d :: b :: r => if N.eqb d ch_dash then IRange a b :: class_items_fuel f r
                          else ILit a :: class_items_fuel f (d :: b :: r)
    | a :: r => ILit a :: class_items_fuel f r
    | [] => []
    end
  end.
Definition class_items (s : str) : list item := class_items_fuel (S (length s)) s.

(* index of the closing bracket of a class starting after '[' (fnmatch rule: an optional
   '!' and then an optional ']' do not close it) *)
Fixpoint find_rb (s : str) : option nat :=
  match s with
  | [] => None
  | c :: r => if N.eqb c ch_rb then Some O
              else match find_rb r with Some n => Some (S n) | None => None end
  end.

Definition class_end (s : str) : option nat :=
  let '(k1, s1) := match s with c :: r => if N.eqb c ch_bang then (1%nat, r) else (0%nat, s) | [] => (0%nat, s) end in
  let '(k2, s2) := match s1 with c :: r => if N.eqb c ch_rb then (1%nat, r) else (0%nat, s1) | [] => (0%nat, s1) end in
  match find_rb s2 with Some n => Some (k1 + k2 + n)%nat | None => None end.

Fixpoint tokens_fuel (fuel : nat) (p : str) : list tok :=
  match fuel with
  | O => []
  | S f =>
    match p with
    | [] => []
    | c :: r =>
      if N.eqb c ch_star then TStar :: tokens_fuel f r
      else if N.eqb c ch_q then TQ :: tokens_fuel f r
      else if N.eqb c ch_lb then
        match class_end r with
        | None => TLit c :: tokens_fuel f r
        | Some j =>
          let stuff := firstn j r in
          let rest := skipn (S j) r in
          match stuff with
          | b :: body => if N.eqb b ch_bang then TClass true (class_items body) :: tokens_fuel f rest
                         else TClass false (class_items stuff) :: tokens_fuel f rest
          | [] => TClass false [] :: tokens_fuel f rest
          end
        end
      else TLit c :: tokens_fuel f r
    end
  end.
Definition tokens (p : str) : list tok := tokens_fuel (S (length p)) p.

(* ASCII case folding (the harness restricts case-insensitive comparisons to ASCII) *)
Definition lower (c : char) : char := if (65 <=? c) && (c <=? 90) then c + 32 else c.
Definition upper (c : char) : char := if (97 <=? c) && (c <=? 122) then c - 32 else c.

Definition item_has (cs : bool) (i : item) (c : char) : bool :=
  let one (x : char) := match i with
                        | ILit a => N.eqb a x
                        | IRange lo hi => (lo <=? x) && (x <=? hi)
                        end in
  if cs then one c else one (lower c) || one (upper c).

Definition tok_char (cs : bool) (in_component : bool) (t : tok) (c : char) : bool :=
  match t with
  | TStar => false
  | TQ => negb in_component || negb (N.eqb c slash)
  | TClass neg items =>
    let hit := existsb (fun i => item_has cs i c) items in
    if neg then negb hit && (negb in_component || negb (N.eqb c slash)) else hit
  | TLit a => if cs then N.eqb a c else N.eqb (lower a) (lower c)
  end.

(* a token list matches a whole string; '*' never crosses '/' *)
Fixpoint tmatch (cs : bool) (in_component : bool) (ts : list tok) (s : str) : bool :=
  match ts with
  | [] => match s with [] => true | _ => false end
  | TStar :: r =>
    (fix star (s : str) : bool :=
       tmatch cs in_component r s
       || match s with
          | c :: s' => negb (N.eqb c slash) && star s'
          | [] => false
          end) s
  | t :: r =>
    match s with
    | c :: s' => tok_char cs in_component t c && tmatch cs in_component r s'
    | [] => false
    end
  end.

(* fs.wildcard.match / imatch : the whole name, '?' and negated classes match any character *)
Definition wild_spec (cs : bool) (pat name : str) : bool :=
  tmatch cs false (tokens (if cs then pat else map lower pat)) name.

Definition wild_any (cs : bool) (pats : list str) (name : str) : bool :=
  match pats with [] => true | _ => existsb (fun p => wild_spec cs p name) pats end.

(* ---- glob: component-wise ---- *)
Definition is_dstar (c : str) : bool := str_eqb c [ch_star; ch_star].

(* pattern components vs path components: '**' consumes any number of whole components *)
Fixpoint gmatch (cs : bool) (pcs : list str) (path : list str) : bool :=
  match pcs with
  | [] => match path with [] => true | _ => false end
  | pc :: r =>
    if is_dstar pc then
      (fix skip (path : list str) : bool :=
         gmatch cs r path || match path with _ :: p' => skip p' | [] => false end) path
    else
      match path with
      | c :: p' => tmatch cs true (tokens pc) c && gmatch cs r p'
      | [] => false
      end
  end.

(* documented meaning of fs.glob.match(pattern, path) for a resource of the given kind:
   a pattern ending in '/' matches only directories, any other pattern files and
   directories alike; the path is taken as absolute *)
Definition glob_spec (cs : bool) (pat : str) (path : list str) (is_dir : bool) : option bool :=
  match resolve (comps pat) with
  | None => None
  | Some pcs =>
    Some ((negb (ends_c slash pat) || is_dir) && gmatch cs pcs path)
  end.

(* patterns on which the documentation is explicit: every component is '**' or '**'-free *)
Definition has_dstar (c : str) : bool :=
  (fix go (s : str) : bool :=
     match s with
     | a :: (b :: _) as r => (N.eqb a ch_star && N.eqb b ch_star) || go r
     | _ => false
     end) c.
Definition plain_pattern (pat : str) : bool :=
  match resolve (comps pat) with
  | None => false
  | Some pcs => forallb (fun c => is_dstar c || negb (has_dstar c)) pcs
  end.

(* fs.glob._translate_glob levels: the depth bound handed to the walker *)
Definition levels (pat : str) : option nat :=
  match resolve (comps pat) with
  | None => None
  | Some pcs => if existsb has_dstar pcs then None else Some (S (count_c slash pat))
  end.
