(* The regular-expression subset emitted by fs/wildcard.py and fs/glob.py, with
   - [render]   : the exact Python source text of a regex of this subset,
   - [re_match] : a total executable matcher with the semantics of
                  re.compile("(?ms)" + text [, re.IGNORECASE]).match(s) is not None.

   Trusted (validated against CPython's re on every run by harness/h_globre.py, part b):
   the meaning given here to each atom, [parse_items] (how CPython reads the inside of a
   bracket class) and [re_compiles] (when re.compile raises re.error).

   Flags are always (?ms): '.' matches every character (DOTALL), '^' matches at the start
   and after a newline, '$' matches at the end and before a newline (MULTILINE).
   IGNORECASE is modelled for ASCII letters only (patterns and subjects outside ASCII are
   not claimed in case-insensitive mode: CPython applies Unicode case folding there).

   Only the boolean "does a match starting at position 0 exist" is modelled, so the order
   in which a backtracking engine tries the alternatives of a star (greedy first) does not
   matter: the matcher explores the same alternatives and returns their disjunction. *)
From Coq Require Import List NArith Bool Arith Lia.
From PyFS Require Import Base.PyStr.
Import ListNotations.
Local Open Scope N_scope.

(* ------------------------------------------------------------------ *)
(* syntax                                                              *)
(* ------------------------------------------------------------------ *)

Inductive citem :=
| CLit (c : char)              (* one character of a class *)
| CRange (lo hi : char).       (* lo-hi *)

Inductive atom :=
| ALit (c : char)              (* re.escape(c) : the literal character c *)
| ARaw (c : char)              (* c written unescaped (a literal iff c is not a metacharacter) *)
| ADot                         (* .      any character (DOTALL) *)
| ANotSlash                    (* [^/]   *)
| AStarNotSlash                (* [^/]*  *)
| ADotStar                     (* .*     *)
| AOptSlash                    (* /?     *)
| AClass (neg : bool) (items : list citem)
                               (* [items] / [^items]; fs.glob puts an extra '/' item in
                                  front of the items of every negated class *)
| ABol                         (* ^   (MULTILINE) *)
| AEol                         (* $   (MULTILINE) *)
| AEndZ.                       (* \Z  *)

Definition regex := list atom.   (* concatenation *)

(* ------------------------------------------------------------------ *)
(* rendering: the exact Python source text                             *)
(* ------------------------------------------------------------------ *)

(* characters escaped by Python 3.12 re.escape: \t \n \v \f \r space # $ & ( ) * + - . ? [ \ ] ^ { | } ~ *)
Definition escape_set : list N :=
  [9; 10; 11; 12; 13; 32; 35; 36; 38; 40; 41; 42; 43; 45; 46; 63; 91; 92; 93; 94; 123; 124; 125; 126].
Definition is_special (c : char) : bool := existsb (N.eqb c) escape_set.
Definition re_escape (c : char) : str := if is_special c then [92; c] else [c].

Definition ch_bs : char := 92.      (* \ *)
Definition ch_caret : char := 94.   (* ^ *)
Definition ch_minus : char := 45.   (* - *)
Definition ch_rbr : char := 93.     (* ] *)

(* inside a class the translators only double the backslash *)
Definition render_cchar (c : char) : str := if N.eqb c ch_bs then [ch_bs; ch_bs] else [c].
Definition render_item (i : citem) : str :=
  match i with
  | CLit c => render_cchar c
  | CRange lo hi => render_cchar lo ++ [ch_minus] ++ render_cchar hi
  end.
Definition render_items (l : list citem) : str := flat_map render_item l.

Definition render_atom (a : atom) : str :=
  match a with
  | ALit c => re_escape c
  | ARaw c => [c]
  | ADot => [46]
  | ANotSlash => [91; 94; 47; 93]
  | AStarNotSlash => [91; 94; 47; 93; 42]
  | ADotStar => [46; 42]
  | AOptSlash => [47; 63]
  | AClass neg items =>
    let body := render_items items in
    [91] ++ (if neg then ch_caret :: body
             else if starts_c ch_caret body then ch_bs :: body   (* a leading ^ is written \^ *)
             else body) ++ [93]
  | ABol => [94]
  | AEol => [36]
  | AEndZ => [92; 90]
  end.

Definition render (r : regex) : str := flat_map render_atom r.

Definition flags_ms : str := [40; 63; 109; 115; 41].   (* "(?ms)" *)
Definition render_full (r : regex) : str := flags_ms ++ render r.

(* ------------------------------------------------------------------ *)
(* how CPython reads the inside of a class: x-y is a range, anything else a character
   (the text handed over here is the class body before backslash doubling; a doubled
   backslash is read back as one backslash character, a leading \^ as '^')         *)
(* ------------------------------------------------------------------ *)
Fixpoint parse_items_fuel (fuel : nat) (s : str) : list citem :=
  match fuel with
  | O => []
  | S f =>
    match s with
    | a :: d :: b :: r => if N.eqb d ch_minus then CRange a b :: parse_items_fuel f r
                          else CLit a :: parse_items_fuel f (d :: b :: r)
    | a :: r => CLit a :: parse_items_fuel f r
    | [] => []
    end
  end.
Definition parse_items (s : str) : list citem := parse_items_fuel (S (length s)) s.

(* ------------------------------------------------------------------ *)
(* when re.compile accepts the text                                    *)
(* ------------------------------------------------------------------ *)
Definition citem_ok (i : citem) : bool :=
  match i with CLit _ => true | CRange lo hi => lo <=? hi end.   (* else "bad character range" *)

(* metacharacters outside a class: \ . ^ $ * + ? { } [ | ( ) *)
Definition meta_set : list N := [92; 46; 94; 36; 42; 43; 63; 123; 125; 91; 124; 40; 41].
Definition raw_ok (c : char) : bool := negb (existsb (N.eqb c) meta_set).

Definition atom_ok (a : atom) : bool :=
  match a with
  | AClass _ items => forallb citem_ok items
  | ARaw c => raw_ok c
  | _ => true
  end.
Definition re_compiles (r : regex) : bool := forallb atom_ok r.

(* ------------------------------------------------------------------ *)
(* matching                                                            *)
(* ------------------------------------------------------------------ *)

(* ASCII case mapping *)
Definition lower (c : char) : char := if (65 <=? c) && (c <=? 90) then c + 32 else c.
Definition upper (c : char) : char := if (97 <=? c) && (c <=? 122) then c - 32 else c.

Definition lit_eq (ci : bool) (a c : char) : bool :=
  if ci then N.eqb (lower a) (lower c) else N.eqb a c.

Definition citem_has (ci : bool) (i : citem) (c : char) : bool :=
  let one (x : char) := match i with
                        | CLit a => N.eqb a x
                        | CRange lo hi => (lo <=? x) && (x <=? hi)
                        end in
  if ci then one (lower c) || one (upper c) else one c.

Definition class_has (ci : bool) (neg : bool) (items : list citem) (c : char) : bool :=
  xorb neg (existsb (fun i => citem_has ci i c) items).

(* atoms consuming exactly one character *)
Definition single (ci : bool) (a : atom) (c : char) : bool :=
  match a with
  | ALit x => lit_eq ci x c
  | ARaw x => lit_eq ci x c
  | ADot => true
  | ANotSlash => negb (N.eqb c slash)
  | AClass neg items => class_has ci neg items c
  | _ => false
  end.

(* '^' under MULTILINE: at the start of the text or just after a newline *)
Definition bol (prev : option char) : bool :=
  match prev with None => true | Some c => N.eqb c newline end.
(* '$' under MULTILINE: at the end of the text or just before a newline *)
Definition eol (s : str) : bool :=
  match s with [] => true | c :: _ => N.eqb c newline end.
Definition at_end (s : str) : bool := match s with [] => true | _ => false end.

(* [re_m ci r prev s]: r matches a prefix of s, where prev is the character before s
   (None at position 0) *)
Fixpoint re_m (ci : bool) (r : regex) (prev : option char) (s : str) {struct r} : bool :=
  match r with
  | [] => true
  | a :: r' =>
    match a with
    | ABol => bol prev && re_m ci r' prev s
    | AEol => eol s && re_m ci r' prev s
    | AEndZ => at_end s && re_m ci r' prev s
    | AOptSlash =>
      match s with
      | c :: s' => (N.eqb c slash && re_m ci r' (Some c) s') || re_m ci r' prev s
      | [] => re_m ci r' prev s
      end
    | AStarNotSlash =>
      (fix star (prev : option char) (s : str) {struct s} : bool :=
         re_m ci r' prev s
         || match s with
            | c :: s' => negb (N.eqb c slash) && star (Some c) s'
            | [] => false
            end) prev s
    | ADotStar =>
      (fix star (prev : option char) (s : str) {struct s} : bool :=
         re_m ci r' prev s
         || match s with
            | c :: s' => star (Some c) s'
            | [] => false
            end) prev s
    | _ =>
      match s with
      | c :: s' => single ci a c && re_m ci r' (Some c) s'
      | [] => false
      end
    end
  end.

(* pattern.match(s) is not None *)
Definition re_match (ci : bool) (r : regex) (s : str) : bool := re_m ci r None s.

(* the same with compilation: None = re.compile raises re.error *)
Definition re_match_py (ci : bool) (r : regex) (s : str) : option bool :=
  if re_compiles r then Some (re_match ci r s) else None.

(* ------------------------------------------------------------------ *)
(* unfolding lemmas for the nested fixpoints                           *)
(* ------------------------------------------------------------------ *)
Lemma re_m_star_unfold ci r prev s :
  re_m ci (AStarNotSlash :: r) prev s
  = re_m ci r prev s
    || match s with
       | c :: s' => negb (N.eqb c slash) && re_m ci (AStarNotSlash :: r) (Some c) s'
       | [] => false
       end.
Proof. destruct s; reflexivity. Qed.

Lemma re_m_dotstar_unfold ci r prev s :
  re_m ci (ADotStar :: r) prev s
  = re_m ci r prev s
    || match s with
       | c :: s' => re_m ci (ADotStar :: r) (Some c) s'
       | [] => false
       end.
Proof. destruct s; reflexivity. Qed.

Definition is_single (a : atom) : bool :=
  match a with
  | ALit _ | ARaw _ | ADot | ANotSlash | AClass _ _ => true
  | _ => false
  end.

Lemma re_m_single_unfold ci a r prev s :
  is_single a = true ->
  re_m ci (a :: r) prev s
  = match s with
    | c :: s' => single ci a c && re_m ci r (Some c) s'
    | [] => false
    end.
Proof. intro H. destruct a; try discriminate; reflexivity. Qed.

(* sanity checks of the matcher against facts checked on CPython 3.12 *)
Example ex_dollar_before_newline :
  re_match false [ABol; ALit 97; AEol] [97; 10; 98] = true.      (* (?ms)^a$  on "a\nb" *)
Proof. reflexivity. Qed.
Example ex_endz_not_before_newline :
  re_match false [ALit 97; AEndZ] [97; 10] = false.              (* (?ms)a\Z  on "a\n" *)
Proof. reflexivity. Qed.
Example ex_render_class :
  render [AClass false [CLit 94; CRange 92 97]; AClass true [CLit 47; CLit 98]]
  = [91; 92; 94; 92; 92; 45; 97; 93; 91; 94; 47; 98; 93].        (* [\^\\-a][^/b] *)
Proof. reflexivity. Qed.
