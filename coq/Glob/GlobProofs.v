(* Properties of the documented glob / wildcard semantics and of the pattern cache. *)
From Coq Require Import List NArith Bool Arith Lia.
From PyFS Require Import Base.PyStr Path.PathSpec FS.Tree Glob.ShellSpec Glob.LRU.
Import ListNotations.

(* ------------------------------------------------------------------ *)
(* unfolding lemmas for the nested fixpoints                           *)
(* ------------------------------------------------------------------ *)

Lemma tmatch_star_unfold cs ic r s :
  tmatch cs ic (TStar :: r) s
  = tmatch cs ic r s
    || match s with
       | c :: s' => negb (N.eqb c slash) && tmatch cs ic (TStar :: r) s'
       | [] => false
       end.
Proof. destruct s; reflexivity. Qed.

Lemma tmatch_tok_unfold cs ic t r s :
  t <> TStar ->
  tmatch cs ic (t :: r) s
  = match s with
    | c :: s' => tok_char cs ic t c && tmatch cs ic r s'
    | [] => false
    end.
Proof. intro H. destruct t; try reflexivity. congruence. Qed.

Definition dstar : str := [ch_star; ch_star].

Lemma gmatch_dstar_unfold cs r path :
  gmatch cs (dstar :: r) path
  = gmatch cs r path
    || match path with
       | _ :: p' => gmatch cs (dstar :: r) p'
       | [] => false
       end.
Proof. destruct path; reflexivity. Qed.

Lemma gmatch_plain_unfold cs pc r path :
  is_dstar pc = false ->
  gmatch cs (pc :: r) path
  = match path with
    | c :: p' => tmatch cs true (tokens pc) c && gmatch cs r p'
    | [] => false
    end.
Proof. intro H. simpl. rewrite H. reflexivity. Qed.

(* ------------------------------------------------------------------ *)
(* '*', '?' and classes stay within one component: a '**'-free pattern of k components
   matches only paths of exactly k components *)
Theorem gmatch_component_count : forall cs pcs path,
  forallb (fun c => negb (is_dstar c)) pcs = true ->
  gmatch cs pcs path = true -> length path = length pcs.
Proof.
  intros cs pcs. induction pcs as [|pc r IH]; intros path Hf H.
  - destruct path; [reflexivity|discriminate].
  - simpl in Hf. apply andb_true_iff in Hf as [H1 H2].
    apply negb_true_iff in H1. rewrite gmatch_plain_unfold in H by exact H1.
    destruct path as [|c p']; [discriminate|].
    apply andb_true_iff in H as [_ H]. simpl. f_equal. apply IH; assumption.
Qed.

(* ------------------------------------------------------------------ *)
(* a component pattern never matches a name containing '/' *)

Lemma lower_slash a : lower a = slash -> a = slash.
Proof.
  unfold lower, slash.
  destruct ((65 <=? a)%N && (a <=? 90)%N) eqn:E; [|tauto].
  apply andb_true_iff in E as [E1 E2]. apply N.leb_le in E1. lia.
Qed.

Lemma has_char_cons c x s : has_char c (x :: s) = ceqb c x || has_char c s.
Proof. reflexivity. Qed.

Lemma tok_char_noslash cs t :
  t <> TStar ->
  (forall c, t = TLit c -> c <> slash) ->
  (forall items, t = TClass false items ->
      forall i, In i items -> item_has cs i slash = false) ->
  tok_char cs true t slash = false.
Proof.
  intros Hs Hl Hc. destruct t as [| |neg items|a]; simpl.
  - congruence.
  - reflexivity.
  - destruct neg.
    + rewrite N.eqb_refl. simpl. apply andb_false_r.
    + destruct (existsb (fun i => item_has cs i slash) items) eqn:E; [|reflexivity].
      apply existsb_exists in E as [i [Hi1 Hi2]].
      rewrite (Hc items eq_refl i Hi1) in Hi2. discriminate.
  - specialize (Hl a eq_refl). destruct cs.
    + apply N.eqb_neq. exact Hl.
    + apply N.eqb_neq. intro E. apply Hl. apply lower_slash.
      rewrite E. reflexivity.
Qed.

Theorem tmatch_component_noslash : forall cs ts s,
  tmatch cs true ts s = true -> (forall c, In (TLit c) ts -> c <> slash) ->
  (forall items, In (TClass false items) ts ->
      forall i, In i items -> item_has cs i slash = false) ->
  has_char slash s = false.
Proof.
  intros cs ts. induction ts as [|t r IH]; intros s H Hl Hc.
  - destruct s; [reflexivity|discriminate].
  - assert (Hl' : forall c, In (TLit c) r -> c <> slash)
      by (intros c Hin; apply Hl; right; exact Hin).
    assert (Hc' : forall items, In (TClass false items) r ->
              forall i, In i items -> item_has cs i slash = false)
      by (intros items Hin; apply Hc; right; exact Hin).
    destruct (tok_eq_star t) as [Et|Et].
    + subst t. induction s as [|c s' IHs].
      * reflexivity.
      * rewrite tmatch_star_unfold in H. apply orb_true_iff in H as [H|H].
        -- apply (IH _ H Hl' Hc').
        -- apply andb_true_iff in H as [H1 H2]. rewrite has_char_cons.
           rewrite (IHs H2). apply negb_true_iff in H1.
           unfold ceqb. rewrite N.eqb_sym, H1. reflexivity.
    + rewrite tmatch_tok_unfold in H by exact Et.
      destruct s as [|c s']; [discriminate|].
      apply andb_true_iff in H as [H1 H2].
      rewrite has_char_cons, (IH _ H2 Hl' Hc'), orb_false_r.
      destruct (ceqb slash c) eqn:E; [|reflexivity].
      apply ceqb_eq in E. subst c.
      rewrite tok_char_noslash in H1; [discriminate|exact Et| |].
      * intros c E. apply Hl. left. exact E.
      * intros items E. apply Hc. left. exact E.
Qed.
