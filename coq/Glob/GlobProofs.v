(* Properties of the documented glob / wildcard semantics and of the pattern cache. *)
From Coq Require Import List NArith Bool Arith Lia.
From PyFS Require Import Base.PyStr Path.PathSpec FS.Tree Glob.ShellSpec Glob.LRU.
Import ListNotations.

(* ------------------------------------------------------------------ *)
(* unfolding lemmas for the nested fixpoints                           *)
(* ------------------------------------------------------------------ *)

Lemma tmatch_star_unfold cs ic r s :
  tmatch cs ic (TStar :: r) s
  = tmatch cs ic r s
    || match s with
       | c :: s' => negb (N.eqb c slash) && tmatch cs ic (TStar :: r) s'
       | [] => false
       end.
Proof. destruct s; reflexivity. Qed.

Lemma tmatch_tok_unfold cs ic t r s :
  t <> TStar ->
  tmatch cs ic (t :: r) s
  = match s with
    | c :: s' => tok_char cs ic t c && tmatch cs ic r s'
    | [] => false
    end.
Proof. intro H. destruct t; try reflexivity. congruence. Qed.

Lemma tok_eq_star t : t = TStar \/ t <> TStar.
Proof. destruct t; [left; reflexivity|right; discriminate..]. Qed.

Definition dstar : str := [ch_star; ch_star].

Lemma gmatch_dstar_unfold cs r path :
  gmatch cs (dstar :: r) path
  = gmatch cs r path
    || match path with
       | _ :: p' => gmatch cs (dstar :: r) p'
       | [] => false
       end.
Proof. destruct path; reflexivity. Qed.

Lemma gmatch_plain_unfold cs pc r path :
  is_dstar pc = false ->
  gmatch cs (pc :: r) path
  = match path with
    | c :: p' => tmatch cs true (tokens pc) c && gmatch cs r p'
    | [] => false
    end.
Proof. intro H. simpl. rewrite H. reflexivity. Qed.

(* ------------------------------------------------------------------ *)
(* '*', '?' and classes stay within one component: a '**'-free pattern of k components
   matches only paths of exactly k components *)
Theorem gmatch_component_count : forall cs pcs path,
  forallb (fun c => negb (is_dstar c)) pcs = true ->
  gmatch cs pcs path = true -> length path = length pcs.
Proof.
  intros cs pcs. induction pcs as [|pc r IH]; intros path Hf H.
  - destruct path; [reflexivity|discriminate].
  - simpl in Hf. apply andb_true_iff in Hf as [H1 H2].
    apply negb_true_iff in H1. rewrite gmatch_plain_unfold in H by exact H1.
    destruct path as [|c p']; [discriminate|].
    apply andb_true_iff in H as [_ H]. simpl. f_equal. apply IH; assumption.
Qed.

(* ------------------------------------------------------------------ *)
(* a component pattern never matches a name containing '/' *)

Lemma lower_slash a : lower a = slash -> a = slash.
Proof.
  unfold lower, slash.
  destruct ((65 <=? a)%N && (a <=? 90)%N) eqn:E; [|tauto].
  apply andb_true_iff in E as [E1 E2]. apply N.leb_le in E1. lia.
Qed.

Lemma has_char_cons c x s : has_char c (x :: s) = ceqb c x || has_char c s.
Proof. reflexivity. Qed.

Lemma tok_char_noslash cs t :
  t <> TStar ->
  (forall c, t = TLit c -> c <> slash) ->
  (forall items, t = TClass false items ->
      forall i, In i items -> item_has cs i slash = false) ->
  tok_char cs true t slash = false.
Proof.
  intros Hs Hl Hc. destruct t as [| |neg items|a]; cbn [tok_char].
  - congruence.
  - reflexivity.
  - destruct neg.
    + rewrite N.eqb_refl. simpl. apply andb_false_r.
    + destruct (existsb (fun i => item_has cs i slash) items) eqn:E; [|reflexivity].
      apply existsb_exists in E as [i [Hi1 Hi2]].
      rewrite (Hc items eq_refl i Hi1) in Hi2. discriminate.
  - specialize (Hl a eq_refl). destruct cs.
    + apply N.eqb_neq. exact Hl.
    + apply N.eqb_neq. intro E. apply Hl. apply lower_slash.
      rewrite E. reflexivity.
Qed.

Theorem tmatch_component_noslash : forall cs ts s,
  tmatch cs true ts s = true -> (forall c, In (TLit c) ts -> c <> slash) ->
  (forall items, In (TClass false items) ts ->
      forall i, In i items -> item_has cs i slash = false) ->
  has_char slash s = false.
Proof.
  intros cs ts. induction ts as [|t r IH]; intros s H Hl Hc.
  - destruct s; [reflexivity|discriminate].
  - assert (Hl' : forall c, In (TLit c) r -> c <> slash)
      by (intros c Hin; apply Hl; right; exact Hin).
    assert (Hc' : forall items, In (TClass false items) r ->
              forall i, In i items -> item_has cs i slash = false)
      by (intros items Hin; apply Hc; right; exact Hin).
    destruct (tok_eq_star t) as [Et|Et].
    + subst t. revert H. induction s as [|c s' IHs]; intro H.
      * reflexivity.
      * rewrite tmatch_star_unfold in H. apply orb_true_iff in H as [H|H].
        -- apply (IH _ H Hl' Hc').
        -- apply andb_true_iff in H as [H1 H2]. rewrite has_char_cons.
           rewrite (IHs H2). apply negb_true_iff in H1.
           unfold ceqb. rewrite N.eqb_sym, H1. reflexivity.
    + rewrite tmatch_tok_unfold in H by exact Et.
      destruct s as [|c s']; [discriminate|].
      apply andb_true_iff in H as [H1 H2].
      rewrite has_char_cons, (IH _ H2 Hl' Hc'), orb_false_r.
      destruct (ceqb slash c) eqn:E; [|reflexivity].
      apply ceqb_eq in E. subst c.
      rewrite tok_char_noslash in H1; [discriminate|exact Et| |].
      * intros c E. apply Hl. left. exact E.
      * intros items E. apply Hc. left. exact E.
Qed.

(* ------------------------------------------------------------------ *)
(* '**' matches any number of whole directory levels *)
Theorem gmatch_dstar_any : forall cs r path extra,
  gmatch cs r path = true -> gmatch cs ([ch_star; ch_star] :: r) (extra ++ path) = true.
Proof.
  intros cs r path extra H. fold dstar. induction extra as [|e extra IH].
  - simpl app. rewrite gmatch_dstar_unfold, H. reflexivity.
  - simpl app. rewrite gmatch_dstar_unfold. apply orb_true_iff. right. exact IH.
Qed.

Theorem gmatch_dstar_inv : forall cs r path,
  gmatch cs ([ch_star; ch_star] :: r) path = true ->
  exists a b, path = a ++ b /\ gmatch cs r b = true.
Proof.
  intros cs r path. fold dstar. induction path as [|c p IH]; intro H.
  - rewrite gmatch_dstar_unfold, orb_false_r in H. exists [], []. split; [reflexivity|exact H].
  - rewrite gmatch_dstar_unfold in H. apply orb_true_iff in H as [H|H].
    + exists [], (c :: p). split; [reflexivity|exact H].
    + destruct (IH H) as [a [b [E Hb]]]. exists (c :: a), b. split; [|exact Hb].
      simpl. f_equal. exact E.
Qed.

(* ------------------------------------------------------------------ *)
(* depth pruning never loses a match: a pattern without '**' only matches paths that are
   at most [levels] components deep *)

Lemma split_on_length c s : length (split_on c s) = S (count_c c s).
Proof.
  unfold count_c. induction s as [|x xs IH]; [reflexivity|].
  simpl. replace (ceqb c x) with (ceqb x c) by (unfold ceqb; apply N.eqb_sym).
  destruct (ceqb x c).
  - simpl. f_equal. exact IH.
  - pose proof (split_on_nonnil c xs) as Hn.
    destruct (split_on c xs) as [|h t]; [congruence|]. exact IH.
Qed.

Lemma resolve_stack_length cs : forall st r,
  resolve_stack cs st = Some r -> length r <= length cs + length st.
Proof.
  induction cs as [|c cs IH]; intros st r H.
  - simpl in H. inversion H; subst. rewrite rev_length. simpl. lia.
  - simpl in H. destruct (c_empty c || c_dot c).
    + apply IH in H. simpl. lia.
    + destruct (c_dotdot c).
      * destruct st as [|x st]; [discriminate|]. apply IH in H. simpl. lia.
      * apply IH in H. simpl in *. lia.
Qed.

Lemma resolve_comps_length pat pcs :
  resolve (comps pat) = Some pcs -> length pcs <= S (count_c slash pat).
Proof.
  intro H. apply resolve_stack_length in H. unfold comps in H.
  rewrite split_on_length in H. simpl in H. lia.
Qed.

Lemma is_dstar_has_dstar c : is_dstar c = true -> has_dstar c = true.
Proof. unfold is_dstar. intro H. apply str_eqb_eq in H. subst c. reflexivity. Qed.

Lemma no_has_dstar_no_is_dstar pcs :
  existsb has_dstar pcs = false -> forallb (fun c => negb (is_dstar c)) pcs = true.
Proof.
  induction pcs as [|c pcs IH]; [reflexivity|].
  cbn [existsb forallb]. intro H. apply orb_false_iff in H as [H1 H2].
  rewrite (IH H2), andb_true_r. apply negb_true_iff.
  destruct (is_dstar c) eqn:E; [|reflexivity].
  apply is_dstar_has_dstar in E. congruence.
Qed.

Theorem levels_sound : forall cs pat path d n,
  levels pat = Some n -> glob_spec cs pat path d = Some true -> length path <= n.
Proof.
  intros cs pat path d n Hl Hg. unfold levels in Hl. unfold glob_spec in Hg.
  destruct (resolve (comps pat)) as [pcs|] eqn:Er; [|discriminate].
  destruct (existsb has_dstar pcs) eqn:Ed; [discriminate|].
  inversion Hl; subst n. inversion Hg as [Hg'].
  apply andb_true_iff in Hg' as [_ Hm].
  rewrite (gmatch_component_count cs pcs path (no_has_dstar_no_is_dstar pcs Ed) Hm).
  apply resolve_comps_length. exact Er.
Qed.

(* ------------------------------------------------------------------ *)
(* names match in full: a literal pattern matches exactly itself (case sensitive) *)
Theorem tmatch_literal : forall s t,
  tmatch true false (map TLit s) t = true <-> t = s.
Proof.
  induction s as [|a s IH]; intro t.
  - simpl. destruct t; split; intro H; try reflexivity; discriminate.
  - cbn [map]. rewrite tmatch_tok_unfold by discriminate.
    destruct t as [|c t'].
    + split; intro H; discriminate.
    + cbn [tok_char]. split; intro H.
      * apply andb_true_iff in H as [H1 H2]. apply N.eqb_eq in H1. apply IH in H2.
        subst. reflexivity.
      * inversion H; subst. rewrite N.eqb_refl. simpl. apply IH. reflexivity.
Qed.

(* ------------------------------------------------------------------ *)
(* the cache never exceeds its size and never changes an answer *)

Lemma assoc_set_length {A} k (v : A) c :
  assoc k c <> None -> length (assoc_set k v c) = length c.
Proof.
  induction c as [|[k' v'] c IH]; simpl; intro H; [congruence|].
  destruct (str_eqb k k'); [reflexivity|]. simpl. f_equal. apply IH. exact H.
Qed.

Lemma assoc_del_length {A} k (c : list (str * A)) :
  assoc k c <> None -> S (length (assoc_del k c)) = length c.
Proof.
  induction c as [|[k' v'] c IH]; simpl; intro H; [congruence|].
  destruct (str_eqb k k'); [reflexivity|]. simpl. f_equal. apply IH. exact H.
Qed.

Theorem lru_bound : forall (V : Type) size (c : list (str * V)) k v,
  0 < size -> length c <= size -> length (lru_set size c k v) <= size.
Proof.
  intros V size c k v Hs Hc. unfold lru_set.
  destruct (assoc k c) eqn:E.
  - rewrite assoc_set_length by congruence. exact Hc.
  - rewrite app_length. simpl. destruct (size <=? length c) eqn:El.
    + apply Nat.leb_le in El. destruct c as [|x c]; simpl in *; lia.
    + apply Nat.leb_gt in El. lia.
Qed.

Theorem lru_get_bound : forall (V : Type) (c : list (str * V)) k v c',
  lru_get c k = Some (v, c') -> length c' = length c.
Proof.
  intros V c k v c' H. unfold lru_get in H.
  destruct (assoc k c) eqn:E; [|discriminate]. inversion H; subst.
  rewrite app_length. simpl. rewrite <- (assoc_del_length k c) by congruence. lia.
Qed.

(* ---- association-list facts ---- *)

Lemma assoc_app {A} k (a b : list (str * A)) :
  assoc k (a ++ b) = match assoc k a with Some v => Some v | None => assoc k b end.
Proof.
  induction a as [|[k' v'] a IH]; simpl; [reflexivity|].
  destruct (str_eqb k k'); [reflexivity|exact IH].
Qed.

Lemma assoc_in_keys {A} k (c : list (str * A)) v : assoc k c = Some v -> In k (keys c).
Proof.
  induction c as [|[k' v'] c IH]; simpl; intro H; [discriminate|].
  destruct (str_eqb k k') eqn:E.
  - apply str_eqb_eq in E. left. congruence.
  - right. apply IH. exact H.
Qed.

Lemma assoc_none_keys {A} k (c : list (str * A)) : assoc k c = None -> ~ In k (keys c).
Proof.
  induction c as [|[k' v'] c IH]; simpl; intros H Hin; [exact Hin|].
  destruct (str_eqb k k') eqn:E; [discriminate|].
  destruct Hin as [Hin|Hin].
  - subst k'. rewrite str_eqb_refl in E. discriminate.
  - exact (IH H Hin).
Qed.

Lemma not_in_keys_assoc {A} k (c : list (str * A)) : ~ In k (keys c) -> assoc k c = None.
Proof.
  intro H. destruct (assoc k c) eqn:E; [|reflexivity].
  exfalso. apply H. eapply assoc_in_keys. exact E.
Qed.

Lemma assoc_del_other {A} k k' (c : list (str * A)) :
  k' <> k -> assoc k' (assoc_del k c) = assoc k' c.
Proof.
  intro Hne. induction c as [|[k0 v0] c IH]; simpl; [reflexivity|].
  destruct (str_eqb k k0) eqn:E.
  - apply str_eqb_eq in E. subst k0.
    apply str_eqb_neq in Hne. rewrite Hne. reflexivity.
  - simpl. rewrite IH. reflexivity.
Qed.

Lemma keys_assoc_del_incl {A} k (c : list (str * A)) x :
  In x (keys (assoc_del k c)) -> In x (keys c).
Proof.
  induction c as [|[k0 v0] c IH]; simpl; intro H; [exact H|].
  destruct (str_eqb k k0).
  - right. exact H.
  - simpl in H. destruct H as [H|H]; [left; exact H|right; apply IH; exact H].
Qed.

Lemma assoc_del_nodup {A} k (c : list (str * A)) :
  NoDup (keys c) -> NoDup (keys (assoc_del k c)).
Proof.
  induction c as [|[k0 v0] c IH]; simpl; intro H; [exact H|].
  inversion H as [|? ? Hn Hd]; subst.
  destruct (str_eqb k k0); [exact Hd|].
  simpl. constructor; [|apply IH; exact Hd].
  intro Hin. apply Hn. eapply keys_assoc_del_incl. exact Hin.
Qed.

Lemma assoc_del_not_in {A} k (c : list (str * A)) :
  NoDup (keys c) -> ~ In k (keys (assoc_del k c)).
Proof.
  induction c as [|[k0 v0] c IH]; simpl; intros H Hin; [exact Hin|].
  inversion H as [|? ? Hn Hd]; subst.
  destruct (str_eqb k k0) eqn:E.
  - apply str_eqb_eq in E. subst k0. exact (Hn Hin).
  - simpl in Hin. destruct Hin as [Hin|Hin].
    + subst k0. rewrite str_eqb_refl in E. discriminate.
    + exact (IH Hd Hin).
Qed.

Lemma assoc_tl_nodup {A} k (c : list (str * A)) v :
  NoDup (keys c) -> assoc k (tl c) = Some v -> assoc k c = Some v.
Proof.
  destruct c as [|[k0 v0] c]; simpl; intros H E; [exact E|].
  inversion H as [|? ? Hn Hd]; subst.
  destruct (str_eqb k k0) eqn:Ek; [|exact E].
  apply str_eqb_eq in Ek. subst k0. exfalso. apply Hn. eapply assoc_in_keys. exact E.
Qed.

Lemma keys_app {A} (a b : list (str * A)) : keys (a ++ b) = keys a ++ keys b.
Proof. unfold keys. apply map_app. Qed.

Lemma keys_assoc_set_present {A} k (v : A) c :
  assoc k c <> None -> keys (assoc_set k v c) = keys c.
Proof.
  induction c as [|[k0 v0] c IH]; simpl; intro H; [congruence|].
  destruct (str_eqb k k0) eqn:E.
  - apply str_eqb_eq in E. subst k0. reflexivity.
  - simpl. f_equal. apply IH. exact H.
Qed.

Lemma nodup_snoc {A} (l : list A) x : NoDup l -> ~ In x l -> NoDup (l ++ [x]).
Proof.
  induction l as [|y l IH]; simpl; intros Hd Hn.
  - constructor; [intros []|constructor].
  - inversion Hd as [|? ? Hy Hl]; subst. constructor.
    + intro Hin. apply in_app_or in Hin as [Hin|[Hin|[]]]; [exact (Hy Hin)|].
      apply Hn. left. symmetry. exact Hin.
    + apply IH; [exact Hl|]. intro Hin. apply Hn. right. exact Hin.
Qed.

(* ---- the well-formedness invariant (keys pairwise distinct, as in an OrderedDict)
        is preserved by all cache operations ---- *)

Lemma lru_set_nodup (V : Type) size (c : list (str * V)) k v :
  NoDup (keys c) -> NoDup (keys (lru_set size c k v)).
Proof.
  intro Hd. unfold lru_set. destruct (assoc k c) eqn:E.
  - rewrite keys_assoc_set_present by congruence. exact Hd.
  - apply assoc_none_keys in E. rewrite keys_app. simpl.
    destruct (size <=? length c).
    + destruct c as [|[k0 v0] c]; simpl in *.
      * apply (nodup_snoc []); [constructor|intros []].
      * inversion Hd; subst. apply nodup_snoc; [assumption|]. intro Hin. apply E. right. exact Hin.
    + apply nodup_snoc; assumption.
Qed.

Lemma lru_get_nodup (V : Type) (c : list (str * V)) k v c' :
  NoDup (keys c) -> lru_get c k = Some (v, c') -> NoDup (keys c').
Proof.
  intros Hd H. unfold lru_get in H. destruct (assoc k c) eqn:E; [|discriminate].
  inversion H; subst. rewrite keys_app. simpl.
  apply nodup_snoc; [apply assoc_del_nodup; exact Hd|apply assoc_del_not_in; exact Hd].
Qed.

Lemma cached_nodup (V : Type) size (compute : str -> V) c k :
  NoDup (keys c) -> NoDup (keys (snd (cached size compute c k))).
Proof.
  intro Hd. unfold cached. destruct (lru_get c k) as [[v c']|] eqn:E.
  - simpl. eapply lru_get_nodup; eassumption.
  - simpl. apply lru_set_nodup. exact Hd.
Qed.

(* STATEMENT CHANGED: the original statement (below, without [NoDup (keys c)]) is false when
   the association list holds a key twice: [assoc] only sees the first binding, so the
   hypothesis says nothing about a shadowed second binding, which [assoc_del] (on a hit) or
   [tl] (eviction on a miss) can uncover.  Counterexamples with V = nat, compute = fun _ => 0:
     c = [([],0); ([],1)], k = [], size = 3 (hit):
       cached 3 compute c [] = (0, [([],1); ([],0)])  and  assoc [] (snd ...) = Some 1 <> 0;
     c = [([],0); ([],1)], k = [1], size = 2 (miss with eviction):
       cached 2 compute c [1] = (0, [([],1); ([1],0)]) and  assoc [] (snd ...) = Some 1 <> 0.
   A Python OrderedDict never holds a key twice; the side condition [NoDup (keys c)] states
   exactly that, holds for the empty cache, and is preserved by every operation
   (lru_set_nodup, lru_get_nodup, cached_nodup above), so it is an invariant.
   The first conjunct (the answer is [compute k]) holds without it.

Theorem cached_transparent : forall (V : Type) size (compute : str -> V) c k,
  (forall k' v', assoc k' c = Some v' -> v' = compute k') ->
  fst (cached size compute c k) = compute k
  /\ (forall k' v', assoc k' (snd (cached size compute c k)) = Some v' -> v' = compute k').
*)

Lemma cached_answer (V : Type) size (compute : str -> V) c k :
  (forall k' v', assoc k' c = Some v' -> v' = compute k') ->
  fst (cached size compute c k) = compute k.
Proof.
  intro Hc. unfold cached, lru_get. destruct (assoc k c) eqn:E; simpl; [|reflexivity].
  apply Hc. exact E.
Qed.

Theorem cached_transparent : forall (V : Type) size (compute : str -> V) c k,
  NoDup (keys c) ->
  (forall k' v', assoc k' c = Some v' -> v' = compute k') ->
  fst (cached size compute c k) = compute k
  /\ (forall k' v', assoc k' (snd (cached size compute c k)) = Some v' -> v' = compute k').
Proof.
  intros V size compute c k Hd Hc. split; [apply cached_answer; exact Hc|].
  intros k' v'. unfold cached, lru_get. destruct (assoc k c) as [v|] eqn:E; simpl.
  - (* hit: the entry moves to the end *)
    rewrite assoc_app. destruct (str_eqb k' k) eqn:Ek.
    + apply str_eqb_eq in Ek. subst k'.
      rewrite (not_in_keys_assoc k _ (assoc_del_not_in k c Hd)). simpl.
      rewrite str_eqb_refl. intro H. inversion H; subst. apply Hc. exact E.
    + apply str_eqb_neq in Ek. rewrite assoc_del_other by exact Ek.
      destruct (assoc k' c) eqn:E'.
      * intro H. inversion H; subst. apply Hc. exact E'.
      * simpl. apply str_eqb_neq in Ek. rewrite Ek. discriminate.
  - (* miss: compute, store, possibly evicting the oldest *)
    unfold lru_set. rewrite E, assoc_app.
    set (c0 := if size <=? length c then tl c else c).
    assert (Hc0 : forall v0, assoc k' c0 = Some v0 -> assoc k' c = Some v0).
    { intros v0. unfold c0. destruct (size <=? length c); [|tauto].
      apply assoc_tl_nodup. exact Hd. }
    destruct (assoc k' c0) eqn:E0.
    + intro H. inversion H; subst. apply Hc. apply Hc0. reflexivity.
    + simpl. destruct (str_eqb k' k) eqn:Ek; [|discriminate].
      apply str_eqb_eq in Ek. subst k'. intro H. inversion H. reflexivity.
Qed.

(* the original (unconditional) statement is refuted by the first counterexample above *)
Lemma cached_transparent_original_false :
  ~ (forall (V : Type) size (compute : str -> V) c k,
      (forall k' v', assoc k' c = Some v' -> v' = compute k') ->
      fst (cached size compute c k) = compute k
      /\ (forall k' v', assoc k' (snd (cached size compute c k)) = Some v' -> v' = compute k')).
Proof.
  intro H.
  destruct (H nat 3 (fun _ => 0) [([], 0); ([], 1)] []) as [_ H2].
  - intros k' v'. destruct k'; simpl; intro E; inversion E; reflexivity.
  - specialize (H2 [] 1 eq_refl). discriminate.
Qed.
