(* fs/lrucache.py: LRUCache over an OrderedDict (association list, oldest first). *)
From Coq Require Import List NArith Bool Arith Lia.
From PyFS Require Import Base.PyStr FS.Tree.
Import ListNotations.

Section LRU.
  Variable V : Type.
  Definition cache := list (str * V).

  (* __setitem__: evict the oldest when a new key arrives in a full cache; an existing key
     keeps its place (OrderedDict.__setitem__) *)
  Definition lru_set (size : nat) (c : cache) (k : str) (v : V) : cache :=
    match assoc k c with
    | Some _ => assoc_set k v c
    | None => let c' := if size <=? length c then tl c else c in c' ++ [(k, v)]
    end.

  (* __getitem__: KeyError when absent; otherwise move to the end *)
  Definition lru_get (c : cache) (k : str) : option (V * cache) :=
    match assoc k c with
    | Some v => Some (v, assoc_del k c ++ [(k, v)])
    | None => None
    end.

  (* the access pattern of glob.match / wildcard.match: try the cache, else compute+store *)
  Definition cached (size : nat) (compute : str -> V) (c : cache) (k : str) : V * cache :=
    match lru_get c k with
    | Some (v, c') => (v, c')
    | None => let v := compute k in (v, lru_set size c k v)
    end.
End LRU.
Arguments lru_set {V}. Arguments lru_get {V}. Arguments cached {V}.
