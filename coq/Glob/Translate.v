(* Models of the regex translation in fs/wildcard.py and fs/glob.py.

   (a) string level: [wild_translate], [glob_translate], [glob_translate_glob] follow the
       Python loops statement by statement and produce the regex TEXT (compared for exact
       string equality with the running code by harness/h_globre.py on every run);
   (b) AST level: [wild_translate_ast], [glob_translate_ast], [glob_translate_glob_ast]
       produce regexes of Glob/Regex.v. Glob/TranslateProofs.v proves (a) = render (b).

   Restriction: case_sensitive=False does `pattern.lower()`; the model lowers ASCII
   letters only (str.lower() on non-ASCII text is outside the model). *)
From Coq Require Import List NArith Bool Arith Lia.
From PyFS Require Import Base.PyStr Base.Outcome Path.PathModel Path.PathSpec Glob.Regex.
Import ListNotations.
Local Open Scope N_scope.

Definition c_star : char := 42.   (* * *)
Definition c_q : char := 63.      (* ? *)
Definition c_lb : char := 91.     (* [ *)
Definition c_rb : char := 93.     (* ] *)
Definition c_bang : char := 33.   (* ! *)

(* ------------------------------------------------------------------ *)
(* the scan for the closing bracket, as an offset from i:
       j = i
       if j < n and pattern[j] == "!": j = j + 1
       if j < n and pattern[j] == "]": j = j + 1
       while j < n and pattern[j] != "]": j = j + 1
       if j >= n: (not closed)                                       *)
(* ------------------------------------------------------------------ *)
Fixpoint scan_rb (s : str) : option nat :=           (* the while loop *)
  match s with
  | [] => None
  | c :: r => if N.eqb c c_rb then Some O
              else match scan_rb r with Some n => Some (S n) | None => None end
  end.

Definition scan_class (s : str) : option nat :=      (* s = pattern[i:] ; result = j - i *)
  let '(k1, s1) := match s with
                   | c :: r => if N.eqb c c_bang then (1%nat, r) else (0%nat, s)
                   | [] => (0%nat, s)
                   end in
  let '(k2, s2) := match s1 with
                   | c :: r => if N.eqb c c_rb then (1%nat, r) else (0%nat, s1)
                   | [] => (0%nat, s1)
                   end in
  match scan_rb s2 with Some n => Some (k1 + k2 + n)%nat | None => None end.

(* stuff.replace("\\", "\\\\") *)
Definition replace_bs (s : str) : str := flat_map render_cchar s.

(* the text appended for a closed class; [g] = fs.glob (True) / fs.wildcard (False):
       stuff = pattern[i:j].replace("\\", "\\\\")
       if stuff[0] == "!":   stuff = "^" + stuff[1:]        (glob: "^/" + stuff[1:])
       elif stuff[0] == "^": stuff = "\\" + stuff
       res.append("[%s]" % stuff)                                                   *)
Definition class_text (g : bool) (raw : str) : outcome str :=
  let stuff := replace_bs raw in
  match stuff with
  | [] => Crash IndexError                              (* stuff[0] on an empty string *)
  | b :: t =>
    Ok ([c_lb] ++ (if N.eqb b c_bang then (if g then [ch_caret; slash] else [ch_caret]) ++ t
                   else if N.eqb b ch_caret then ch_bs :: stuff
                   else stuff) ++ [c_rb])
  end.

(* the main loop of _translate on the remaining text pattern[i:]; fuel bounds the number
   of iterations (each consumes at least one character) *)
Fixpoint tr_text (g : bool) (fuel : nat) (p : str) : outcome str :=
  match fuel with
  | O => Ok []
  | S f =>
    match p with
    | [] => Ok []                                                  (* while i < n *)
    | c :: r =>                                                    (* c = pattern[i]; i = i + 1 *)
      if N.eqb c c_star then
        if g && starts_c c_star r then Crash ValueError            (* glob only: "**" *)
        else let* t := tr_text g f r in Ok ([91; 94; 47; 93; 42] ++ t)       (* [^/]* *)
      else if N.eqb c c_q then
        let* t := tr_text g f r in
        Ok ((if g then [91; 94; 47; 93] else [46]) ++ t)           (* glob [^/]  wildcard . *)
      else if N.eqb c c_lb then
        match scan_class r with
        | None => let* t := tr_text g f r in Ok ([92; 91] ++ t)    (* j >= n : \[ *)
        | Some j =>
          let* k := class_text g (firstn j r) in                   (* pattern[i:j] *)
          let* t := tr_text g f (skipn (S j) r) in                 (* i = j + 1 *)
          Ok (k ++ t)
        end
      else let* t := tr_text g f r in Ok (re_escape c ++ t)
    end
  end.

Definition tr_run (g : bool) (p : str) : outcome str := tr_text g (S (length p)) p.

(* fs.wildcard._translate(pattern, case_sensitive) *)
Definition wild_translate_o (cs : bool) (pat : str) : outcome str :=
  tr_run false (if cs then pat else map lower pat).
(* (it never raises: TranslateProofs.wild_translate_total) *)
Definition wild_translate (cs : bool) (pat : str) : str :=
  match wild_translate_o cs pat with Ok t => t | _ => [] end.

(* fs.glob._translate(pattern); Crash ValueError on '**' *)
Definition glob_translate (pat : str) : outcome str := tr_run true pat.

(* "(?ms)" + _translate(pattern, cs) + r"\Z"  as compiled by wildcard.match / imatch *)
Definition wild_regex_text (cs : bool) (pat : str) : str :=
  flags_ms ++ wild_translate cs pat ++ [92; 90].

(* ------------------------------------------------------------------ *)
(* _translate_glob                                                     *)
(* ------------------------------------------------------------------ *)

(* "**" in component *)
Fixpoint has_dstar (s : str) : bool :=
  match s with
  | a :: r => match r with
              | b :: _ => (N.eqb a c_star && N.eqb b c_star) || has_dstar r
              | [] => false
              end
  | [] => false
  end.

Definition cons_head (a : char) (l : list str) : list str :=
  match l with h :: t => (a :: h) :: t | [] => [[a]] end.

(* component.split("**"): left to right, non-overlapping *)
Fixpoint split_dstar (s : str) : list str :=
  match s with
  | [] => [[]]
  | a :: r =>
    match r with
    | b :: r' => if N.eqb a c_star && N.eqb b c_star then [] :: split_dstar r'
                 else cons_head a (split_dstar r)
    | [] => [[a]]
    end
  end.

Fixpoint map_o {A B} (f : A -> outcome B) (l : list A) : outcome (list B) :=
  match l with
  | [] => Ok []
  | x :: r => let* y := f x in let* ys := map_o f r in Ok (y :: ys)
  end.

(* one iteration of `for component in iteratepath(pattern)`: (contains "**", appended text) *)
Definition glob_component_text (component : str) : outcome (bool * str) :=
  if has_dstar component then
    let* split_re := map_o glob_translate (split_dstar component) in
    Ok (true, [47; 63] ++ join [46; 42; 47; 63] split_re)          (* "/?" + ".*/?".join(..) *)
  else
    let* t := glob_translate component in Ok (false, slash :: t).  (* "/" + _translate(..) *)

Fixpoint glob_components_text (cs : list str) : outcome (bool * str) :=
  match cs with
  | [] => Ok (false, [])
  | c :: r =>
    let* x := glob_component_text c in
    let* y := glob_components_text r in
    Ok (fst x || fst y, snd x ++ snd y)
  end.

(* fs.glob._translate_glob(pattern) = (levels, regex text); Err IllegalBackReference when
   iteratepath raises it *)
Definition glob_translate_glob (pat : str) : outcome (option nat * str) :=
  let* components := iteratepath pat in
  let* x := glob_components_text components in
  Ok (if fst x then None else Some (S (count_c slash pat)),
      flags_ms ++ [94] ++ snd x ++ (if ends_c slash pat then [47; 36] else [36])).

(* ------------------------------------------------------------------ *)
(* AST level                                                           *)
(* ------------------------------------------------------------------ *)

(* a closed class. In fs.glob a negated class is written [^/stuff]: CPython reads '/'
   followed by the body as ONE item sequence (so "/-a" becomes a range), and if the body
   starts with ']' the class is closed right there and the rest of the body plus the
   final ']' are left outside the class as unescaped regex text. *)
Definition class_atoms (g : bool) (raw : str) : outcome (list atom) :=
  match raw with
  | [] => Crash IndexError
  | b :: body =>
    if N.eqb b c_bang then
      if g then
        match body with
        | c :: rest =>
          if N.eqb c c_rb
          then Ok (AClass true [CLit slash] :: map ARaw (replace_bs rest) ++ [ARaw c_rb])
          else Ok [AClass true (parse_items (slash :: body))]
        | [] => Ok [AClass true (parse_items (slash :: body))]
        end
      else Ok [AClass true (parse_items body)]
    else Ok [AClass false (parse_items raw)]
  end.

Fixpoint tr_ast (g : bool) (fuel : nat) (p : str) : outcome regex :=
  match fuel with
  | O => Ok []
  | S f =>
    match p with
    | [] => Ok []
    | c :: r =>
      if N.eqb c c_star then
        if g && starts_c c_star r then Crash ValueError
        else let* t := tr_ast g f r in Ok (AStarNotSlash :: t)
      else if N.eqb c c_q then
        let* t := tr_ast g f r in Ok ((if g then ANotSlash else ADot) :: t)
      else if N.eqb c c_lb then
        match scan_class r with
        | None => let* t := tr_ast g f r in Ok (ALit c_lb :: t)
        | Some j =>
          let* k := class_atoms g (firstn j r) in
          let* t := tr_ast g f (skipn (S j) r) in
          Ok (k ++ t)
        end
      else let* t := tr_ast g f r in Ok (ALit c :: t)
    end
  end.

Definition tr_ast_run (g : bool) (p : str) : outcome regex := tr_ast g (S (length p)) p.

Definition wild_translate_ast_o (cs : bool) (pat : str) : outcome regex :=
  tr_ast_run false (if cs then pat else map lower pat).
Definition wild_translate_ast (cs : bool) (pat : str) : regex :=
  match wild_translate_ast_o cs pat with Ok r => r | _ => [] end.

Definition glob_translate_ast (pat : str) : outcome regex := tr_ast_run true pat.

(* the regex compiled by wildcard.match (cs = true) / imatch (cs = false, with re.IGNORECASE) *)
Definition wild_regex (cs : bool) (pat : str) : regex := wild_translate_ast cs pat ++ [AEndZ].

Fixpoint join_ast (sep : regex) (l : list regex) : regex :=
  match l with
  | [] => []
  | [x] => x
  | x :: xs => x ++ sep ++ join_ast sep xs
  end.

Definition glob_component_ast (component : str) : outcome (bool * regex) :=
  if has_dstar component then
    let* split_re := map_o glob_translate_ast (split_dstar component) in
    Ok (true, AOptSlash :: join_ast [ADotStar; AOptSlash] split_re)
  else
    let* t := glob_translate_ast component in Ok (false, ALit slash :: t).

Fixpoint glob_components_ast (cs : list str) : outcome (bool * regex) :=
  match cs with
  | [] => Ok (false, [])
  | c :: r =>
    let* x := glob_component_ast c in
    let* y := glob_components_ast r in
    Ok (fst x || fst y, snd x ++ snd y)
  end.

(* (levels, regex); the text compiled by glob.match / imatch is render_full of the regex *)
Definition glob_translate_glob_ast (pat : str) : outcome (option nat * regex) :=
  let* components := iteratepath pat in
  let* x := glob_components_ast components in
  Ok (if fst x then None else Some (S (count_c slash pat)),
      [ABol] ++ snd x ++ (if ends_c slash pat then [ALit slash; AEol] else [AEol])).

(* ------------------------------------------------------------------ *)
(* the public matchers, as regex matching (None = re.error from re.compile) *)
(* ------------------------------------------------------------------ *)

(* fs.wildcard.match (cs = true) / imatch (cs = false) *)
Definition wild_match_model (cs : bool) (pat name : str) : option bool :=
  re_match_py (negb cs) (wild_regex cs pat) name.

(* fs.glob.match / imatch:  if path and path[0] != "/": path = "/" + path *)
Definition glob_subject (path : str) : str :=
  match path with
  | [] => []
  | c :: _ => if N.eqb c slash then path else slash :: path
  end.
Definition glob_match_model (cs : bool) (pat path : str) : outcome (option bool) :=
  let* x := glob_translate_glob_ast pat in
  Ok (re_match_py (negb cs) (snd x) (glob_subject path)).

(* ------------------------------------------------------------------ *)
(* side conditions of the glob theorem (TranslateProofs), executable   *)
(* ------------------------------------------------------------------ *)
Definition covers_slash (i : citem) : bool :=
  match i with
  | CLit a => N.eqb a slash
  | CRange lo hi => (lo <=? slash) && (slash <=? hi)
  end.

(* a class of a glob component behaves as documented unless
   - it is positive and one of its ranges contains '/' (e.g. [+-a]),
   - it is negated and its body starts with ']' (the class is cut short, see class_atoms),
   - it is negated and its body starts with '-x' (read as the range '/'-x). *)
Definition glob_class_ok (raw : str) : bool :=
  match raw with
  | b :: body =>
    if N.eqb b c_bang
    then negb (starts_c c_rb body) && negb (starts_c ch_minus body && (2 <=? length body)%nat)
    else negb (existsb covers_slash (parse_items raw))
  | [] => true
  end.

Fixpoint glob_comp_ok_fuel (fuel : nat) (p : str) : bool :=
  match fuel with
  | O => true
  | S f =>
    match p with
    | [] => true
    | c :: r =>
      if N.eqb c c_lb then
        match scan_class r with
        | None => glob_comp_ok_fuel f r
        | Some j => glob_class_ok (firstn j r) && glob_comp_ok_fuel f (skipn (S j) r)
        end
      else glob_comp_ok_fuel f r
    end
  end.
Definition glob_comp_ok (p : str) : bool := glob_comp_ok_fuel (S (length p)) p.

(* patterns covered by TranslateProofs.glob_regex_correct: no '**', every class regular *)
Definition glob_pattern_ok (pat : str) : bool :=
  match resolve (comps pat) with
  | Some pcs => forallb (fun c => negb (has_dstar c) && glob_comp_ok c) pcs
  | None => false
  end.
