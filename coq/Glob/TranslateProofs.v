(* The regex translation of fs/wildcard.py and fs/glob.py is correct with respect to the
   shell specification of Glob/ShellSpec.v — for all patterns and all names, by induction.

   (i)   text model = rendering of the AST model          (wild_translate_render,
         glob_translate_render, glob_translate_glob_render)
   (ii)  wildcard: matching the compiled regex = wild_spec (wild_regex_correct)
   (iii) glob without '**': matching the compiled regex = component-wise matching, under
         boolean side conditions (glob_regex_correct); levels = ShellSpec.levels
         (glob_levels_correct)
   Every place where the regex semantics of the code differs from the specification is an
   `Example ..._refuted` with a concrete witness (vm_compute). *)
From Coq Require Import List NArith Bool Arith Lia.
From PyFS Require Import Base.PyStr Base.Outcome Path.PathModel Path.PathSpec Path.PathProofs
     Glob.ShellSpec Glob.GlobProofs Glob.Regex Glob.Translate.
Import ListNotations.
Local Open Scope N_scope.

(* ------------------------------------------------------------------ *)
(* 0. the bracket scan                                                 *)
(* ------------------------------------------------------------------ *)

Lemma scan_rb_find_rb s : scan_rb s = find_rb s.
Proof. induction s as [|c r IH]; [reflexivity|]. cbn [scan_rb find_rb]. rewrite IH. reflexivity. Qed.

Lemma scan_class_class_end s : scan_class s = class_end s.
Proof.
  unfold scan_class, class_end.
  destruct s as [|c r]; [reflexivity|].
  change c_bang with ch_bang. change c_rb with ch_rb.
  destruct (N.eqb c ch_bang).
  - destruct r as [|c2 r2]; [reflexivity|]. destruct (N.eqb c2 ch_rb); rewrite scan_rb_find_rb; reflexivity.
  - destruct (N.eqb c ch_rb); rewrite scan_rb_find_rb; reflexivity.
Qed.

Lemma scan_rb_lt s n : scan_rb s = Some n -> (n < length s)%nat.
Proof.
  revert n; induction s as [|c r IH]; intros n H; [discriminate|].
  cbn [scan_rb] in H. destruct (N.eqb c c_rb).
  - inversion H; subst. simpl. lia.
  - destruct (scan_rb r) as [m|]; [|discriminate]. inversion H; subst. specialize (IH m eq_refl). simpl. lia.
Qed.

Lemma scan_rb_head s n : scan_rb s = Some n -> starts_c c_rb s = false -> (1 <= n)%nat.
Proof.
  destruct s as [|c r]; [discriminate|]. cbn [scan_rb starts_c]. unfold ceqb.
  intros H Hs. rewrite Hs in H. destruct (scan_rb r); [|discriminate]. inversion H; lia.
Qed.

(* stuff = pattern[i:j] is never empty (so stuff[0] cannot raise IndexError), and a negated
   class always has a non-empty body *)
Lemma scan_class_stuff s j :
  scan_class s = Some j ->
  exists b t, firstn j s = b :: t /\ (N.eqb b c_bang = true -> t <> []).
Proof.
  unfold scan_class. intro H.
  destruct s as [|c r]; [discriminate|].
  destruct (N.eqb c c_bang) eqn:Eb.
  - destruct r as [|c2 r2]; [discriminate|].
    destruct (N.eqb c2 c_rb) eqn:Er.
    + destruct (scan_rb r2) as [n|]; [|discriminate]. inversion H; subst j.
      exists c, (c2 :: firstn n r2). split; [reflexivity|]. intros _; discriminate.
    + destruct (scan_rb (c2 :: r2)) as [n|] eqn:En; [|discriminate]. inversion H; subst j.
      assert (1 <= n)%nat as Hn by (apply (scan_rb_head _ _ En); simpl; unfold ceqb; exact Er).
      destruct n as [|n']; [lia|].
      exists c, (c2 :: firstn n' r2). split; [reflexivity|]. intros _; discriminate.
  - destruct (N.eqb c c_rb) eqn:Er.
    + destruct (scan_rb r) as [n|]; [|discriminate]. inversion H; subst j.
      exists c, (firstn n r). split; [reflexivity|]. intro Hc. congruence.
    + destruct (scan_rb (c :: r)) as [n|] eqn:En; [|discriminate]. inversion H; subst j.
      assert (1 <= n)%nat as Hn by (apply (scan_rb_head _ _ En); simpl; unfold ceqb; exact Er).
      destruct n as [|n']; [lia|].
      exists c, (firstn n' r). split; [reflexivity|]. intro Hc. congruence.
Qed.

(* ------------------------------------------------------------------ *)
(* 1. class items                                                      *)
(* ------------------------------------------------------------------ *)

Lemma parse_items_fuel_enough s : forall f1 f2,
  (length s <= f1)%nat -> (length s <= f2)%nat -> parse_items_fuel f1 s = parse_items_fuel f2 s.
Proof.
  remember (length s) as n eqn:En. revert s En.
  induction n as [n IH] using lt_wf_ind. intros s En f1 f2 H1 H2.
  destruct s as [|a r].
  - destruct f1, f2; reflexivity.
  - simpl in En. destruct f1 as [|f1]; [lia|]. destruct f2 as [|f2]; [lia|].
    cbn [parse_items_fuel].
    destruct r as [|d r2].
    + f_equal. apply (IH 0%nat); simpl in *; lia.
    + destruct r2 as [|b r3].
      * f_equal. apply (IH 1%nat); simpl in *; lia.
      * destruct (N.eqb d ch_minus).
        -- f_equal. apply (IH (length r3)); simpl in *; lia.
        -- f_equal. apply (IH (length (d :: b :: r3))); simpl in *; lia.
Qed.

Lemma parse_items_fuel_S f s :
  parse_items_fuel (S f) s =
  match s with
  | a :: d :: b :: r => if N.eqb d ch_minus then CRange a b :: parse_items_fuel f r
                        else CLit a :: parse_items_fuel f (d :: b :: r)
  | a :: r => CLit a :: parse_items_fuel f r
  | [] => []
  end.
Proof. reflexivity. Qed.

Lemma parse_items_unfold s :
  parse_items s =
  match s with
  | a :: d :: b :: r => if N.eqb d ch_minus then CRange a b :: parse_items r
                        else CLit a :: parse_items (d :: b :: r)
  | a :: r => CLit a :: parse_items r
  | [] => []
  end.
Proof.
  unfold parse_items. rewrite parse_items_fuel_S.
  destruct s as [|a [|d [|b r]]]; try reflexivity.
  destruct (N.eqb d ch_minus); f_equal; apply parse_items_fuel_enough; simpl; lia.
Qed.

Lemma render_items_parse s : render_items (parse_items s) = replace_bs s.
Proof.
  remember (length s) as n eqn:En. revert s En.
  induction n as [n IH] using lt_wf_ind. intros s En.
  rewrite parse_items_unfold.
  destruct s as [|a [|d [|b r]]].
  - reflexivity.
  - cbn. rewrite app_nil_r. reflexivity.
  - unfold render_items. cbn [flat_map render_item]. fold (render_items (parse_items [d])).
    rewrite (IH 1%nat) by (simpl in *; lia || reflexivity). reflexivity.
  - destruct (N.eqb d ch_minus) eqn:Ed.
    + apply N.eqb_eq in Ed. subst d.
      unfold render_items. cbn [flat_map render_item]. fold (render_items (parse_items r)).
      rewrite (IH (length r)) by (simpl in *; lia || reflexivity).
      unfold replace_bs. cbn [flat_map]. rewrite <- !app_assoc. reflexivity.
    + unfold render_items. cbn [flat_map render_item]. fold (render_items (parse_items (d :: b :: r))).
      rewrite (IH (length (d :: b :: r))) by (simpl in *; lia || reflexivity). reflexivity.
Qed.

Definition conv (i : item) : citem :=
  match i with ILit c => CLit c | IRange lo hi => CRange lo hi end.

Lemma parse_items_class_items s : parse_items s = map conv (class_items s).
Proof.
  unfold parse_items, class_items. generalize (S (length s)) as f. intro f. revert s.
  induction f as [|f IH]; intro s; [reflexivity|].
  cbn [parse_items_fuel class_items_fuel].
  destruct s as [|a [|d [|b r]]]; try reflexivity;
    try (cbn [map]; f_equal; apply IH).
  change ch_minus with ch_dash. destruct (N.eqb d ch_dash); cbn [map]; f_equal; apply IH.
Qed.

Lemma citem_has_conv cs i c : citem_has (negb cs) (conv i) c = item_has cs i c.
Proof. destruct cs, i; reflexivity. Qed.

Lemma existsb_conv cs items c :
  existsb (fun i => citem_has (negb cs) i c) (map conv items) = existsb (fun i => item_has cs i c) items.
Proof.
  induction items as [|i r IH]; [reflexivity|]. cbn [map existsb]. rewrite citem_has_conv, IH. reflexivity.
Qed.

(* ------------------------------------------------------------------ *)
(* 2. (i) text = render (AST)                                          *)
(* ------------------------------------------------------------------ *)

Lemma render_app a b : render (a ++ b) = render a ++ render b.
Proof. unfold render. apply flat_map_app. Qed.

Lemma render_cons a r : render (a :: r) = render_atom a ++ render r.
Proof. reflexivity. Qed.

Lemma render_raw s : render (map ARaw s) = s.
Proof. induction s as [|c r IH]; [reflexivity|]. cbn [map]. rewrite render_cons, IH. reflexivity. Qed.

Lemma replace_bs_cons c s : replace_bs (c :: s) = render_cchar c ++ replace_bs s.
Proof. reflexivity. Qed.

Lemma class_render g raw : class_text g raw = omap render (class_atoms g raw).
Proof.
  unfold class_text, class_atoms.
  destruct raw as [|b body]; [reflexivity|].
  rewrite replace_bs_cons. unfold render_cchar at 1.
  destruct (N.eqb b c_bang) eqn:Eb.
  - apply N.eqb_eq in Eb. subst b. cbn [N.eqb c_bang ch_bs Pos.eqb app].
    change (N.eqb 33 c_bang) with true. cbv iota.
    destruct g.
    + destruct body as [|c rest].
      * reflexivity.
      * destruct (N.eqb c c_rb) eqn:Er.
        -- apply N.eqb_eq in Er. subst c. cbn [omap]. f_equal.
           rewrite render_cons, render_app, render_raw.
           rewrite replace_bs_cons. reflexivity.
        -- cbn [omap]. f_equal. unfold render. cbn [flat_map render_atom]. rewrite app_nil_r.
           rewrite render_items_parse. rewrite replace_bs_cons. reflexivity.
    + cbn [omap]. f_equal. unfold render. cbn [flat_map render_atom]. rewrite app_nil_r.
      rewrite render_items_parse. reflexivity.
  - cbn [omap]. f_equal. unfold render. cbn [flat_map render_atom]. rewrite app_nil_r.
    rewrite render_items_parse. rewrite replace_bs_cons. unfold render_cchar.
    destruct (N.eqb b ch_bs) eqn:Es.
    + apply N.eqb_eq in Es. subst b. reflexivity.
    + cbn [app starts_c]. rewrite Eb. unfold ceqb. destruct (N.eqb b ch_caret); reflexivity.
Qed.

Lemma omap_bind {A B C} (f : B -> C) (o : outcome A) (k : A -> outcome B) :
  omap f (bind o k) = bind o (fun x => omap f (k x)).
Proof. destruct o; reflexivity. Qed.

Lemma bind_omap {A B C} (f : A -> B) (o : outcome A) (k : B -> outcome C) :
  bind (omap f o) k = bind o (fun x => k (f x)).
Proof. destruct o; reflexivity. Qed.

Lemma tr_render g : forall fuel p, tr_text g fuel p = omap render (tr_ast g fuel p).
Proof.
  induction fuel as [|f IH]; intro p; [reflexivity|].
  cbn [tr_text tr_ast]. destruct p as [|c r]; [reflexivity|].
  destruct (N.eqb c c_star).
  { destruct (g && starts_c c_star r); [reflexivity|].
    rewrite IH. destruct (tr_ast g f r); reflexivity. }
  destruct (N.eqb c c_q).
  { rewrite IH. destruct (tr_ast g f r); [|reflexivity..]. destruct g; reflexivity. }
  destruct (N.eqb c c_lb).
  { destruct (scan_class r) as [j|].
    - rewrite class_render. destruct (class_atoms g (firstn j r)) as [k| |]; [|reflexivity..].
      cbn [omap bind]. rewrite IH. destruct (tr_ast g f (skipn (S j) r)); [|reflexivity..].
      cbn [omap bind]. rewrite render_app. reflexivity.
    - rewrite IH. destruct (tr_ast g f r); reflexivity. }
  rewrite IH. destruct (tr_ast g f r); reflexivity.
Qed.

(* the class text never raises on the stuff delivered by the scan *)
Lemma class_atoms_ok g s j : scan_class s = Some j -> exists k, class_atoms g (firstn j s) = Ok k.
Proof.
  intro H. destruct (scan_class_stuff s j H) as [b [t [E _]]]. rewrite E. unfold class_atoms.
  destruct (N.eqb b c_bang); [|eexists; reflexivity].
  destruct g; [|eexists; reflexivity].
  destruct t as [|c rest]; [eexists; reflexivity|]. destruct (N.eqb c c_rb); eexists; reflexivity.
Qed.

(* wildcard._translate never raises *)
Lemma tr_ast_wild_total : forall fuel p, exists r, tr_ast false fuel p = Ok r.
Proof.
  induction fuel as [|f IH]; intro p; [eexists; reflexivity|].
  cbn [tr_ast]. destruct p as [|c r]; [eexists; reflexivity|].
  destruct (N.eqb c c_star).
  { cbn [andb]. destruct (IH r) as [t ->]. eexists; reflexivity. }
  destruct (N.eqb c c_q).
  { destruct (IH r) as [t ->]. eexists; reflexivity. }
  destruct (N.eqb c c_lb).
  { destruct (scan_class r) as [j|] eqn:Ej.
    - destruct (class_atoms_ok false r j Ej) as [k ->].
      destruct (IH (skipn (S j) r)) as [t ->]. eexists; reflexivity.
    - destruct (IH r) as [t ->]. eexists; reflexivity. }
  destruct (IH r) as [t ->]. eexists; reflexivity.
Qed.

Theorem wild_translate_total : forall cs p, exists t, wild_translate_o cs p = Ok t.
Proof.
  intros cs p. unfold wild_translate_o, tr_run.
  generalize (if cs then p else map Regex.lower p) as q. intro q. rewrite tr_render.
  destruct (tr_ast_wild_total (S (length q)) q) as [r Hr].
  rewrite Hr. eexists; reflexivity.
Qed.
Print Assumptions wild_translate_total.

(* (i) wildcard *)
Theorem wild_translate_render : forall cs p,
  wild_translate cs p = render (wild_translate_ast cs p).
Proof.
  intros cs p. unfold wild_translate, wild_translate_ast, wild_translate_o, wild_translate_ast_o, tr_run, tr_ast_run.
  rewrite tr_render. destruct (tr_ast false _ _); reflexivity.
Qed.
Print Assumptions wild_translate_render.

Theorem wild_regex_text_render : forall cs p,
  wild_regex_text cs p = render_full (wild_regex cs p).
Proof.
  intros cs p. unfold wild_regex_text, render_full, wild_regex. rewrite render_app, wild_translate_render. reflexivity.
Qed.
Print Assumptions wild_regex_text_render.

(* (i) glob._translate *)
Theorem glob_translate_render : forall p,
  glob_translate p = omap render (glob_translate_ast p).
Proof. intro p. apply tr_render. Qed.
Print Assumptions glob_translate_render.

Lemma map_o_render l :
  map_o glob_translate l = omap (map render) (map_o glob_translate_ast l).
Proof.
  induction l as [|x r IH]; [reflexivity|].
  cbn [map_o]. rewrite glob_translate_render, IH.
  destruct (glob_translate_ast x); [|reflexivity..]. cbn [omap bind].
  destruct (map_o glob_translate_ast r); reflexivity.
Qed.

Lemma join_render sep l : join (render sep) (map render l) = render (join_ast sep l).
Proof.
  induction l as [|x r IH]; [reflexivity|].
  destruct r as [|y r']; [reflexivity|].
  change (join (render sep) (map render (x :: y :: r')))
    with (render x ++ render sep ++ join (render sep) (map render (y :: r'))).
  rewrite IH. change (join_ast sep (x :: y :: r')) with (x ++ sep ++ join_ast sep (y :: r')).
  rewrite !render_app. reflexivity.
Qed.

Lemma glob_component_render c :
  glob_component_text c = omap (fun x : bool * regex => (fst x, render (snd x))) (glob_component_ast c).
Proof.
  unfold glob_component_text, glob_component_ast. destruct (has_dstar c).
  - rewrite map_o_render. destruct (map_o glob_translate_ast (split_dstar c)); [|reflexivity..].
    cbn [omap bind fst snd]. f_equal. f_equal.
    change [46; 42; 47; 63] with (render [ADotStar; AOptSlash]).
    rewrite join_render. reflexivity.
  - rewrite glob_translate_render. destruct (glob_translate_ast c); reflexivity.
Qed.

Lemma glob_components_render l :
  glob_components_text l = omap (fun x : bool * regex => (fst x, render (snd x))) (glob_components_ast l).
Proof.
  induction l as [|c r IH]; [reflexivity|].
  cbn [glob_components_text glob_components_ast]. rewrite glob_component_render, IH.
  destruct (glob_component_ast c); [|reflexivity..]. cbn [omap bind].
  destruct (glob_components_ast r); [|reflexivity..]. cbn [omap bind fst snd].
  rewrite render_app. reflexivity.
Qed.

(* (i) glob._translate_glob: same outcome, same levels, text = "(?ms)" + render *)
Theorem glob_translate_glob_render : forall pat,
  glob_translate_glob pat
  = omap (fun x : option nat * regex => (fst x, render_full (snd x))) (glob_translate_glob_ast pat).
Proof.
  intro pat. unfold glob_translate_glob, glob_translate_glob_ast.
  destruct (iteratepath pat) as [cs| |]; [|reflexivity..]. cbn [bind].
  rewrite glob_components_render. destruct (glob_components_ast cs) as [x| |]; [|reflexivity..].
  cbn [omap bind fst snd]. f_equal. f_equal.
  unfold render_full. rewrite !render_app. destruct (ends_c slash pat); reflexivity.
Qed.
Print Assumptions glob_translate_glob_render.

(* ------------------------------------------------------------------ *)
(* 3. (ii) wildcard: the compiled regex decides exactly wild_spec      *)
(* ------------------------------------------------------------------ *)

Lemma lit_eq_tok cs ic a c : lit_eq (negb cs) a c = tok_char cs ic (TLit a) c.
Proof. destruct cs; reflexivity. Qed.

Lemma class_has_tok cs neg items c :
  class_has (negb cs) neg (map conv items) c = tok_char cs false (TClass neg items) c.
Proof.
  unfold class_has. cbn [tok_char]. rewrite existsb_conv.
  destruct neg, (existsb (fun i => item_has cs i c) items); reflexivity.
Qed.

Lemma re_m_endz ci prev s : re_m ci [AEndZ] prev s = match s with [] => true | _ => false end.
Proof. destruct s; reflexivity. Qed.

(* one step with a one-character atom against a one-character token *)
Lemma wild_single_step cs a t r ts prev s :
  is_single a = true -> t <> TStar ->
  (forall c, single (negb cs) a c = tok_char cs false t c) ->
  (forall prev s, re_m (negb cs) (r ++ [AEndZ]) prev s = tmatch cs false ts s) ->
  re_m (negb cs) ((a :: r) ++ [AEndZ]) prev s = tmatch cs false (t :: ts) s.
Proof.
  intros Ha Ht Hc IH. rewrite <- app_comm_cons.
  rewrite re_m_single_unfold by exact Ha. rewrite tmatch_tok_unfold by exact Ht.
  destruct s as [|c s']; [reflexivity|]. rewrite Hc, IH. reflexivity.
Qed.

Lemma wild_sem cs : forall fuel p r, tr_ast false fuel p = Ok r ->
  forall prev s, re_m (negb cs) (r ++ [AEndZ]) prev s = tmatch cs false (tokens_fuel fuel p) s.
Proof.
  induction fuel as [|f IH]; intros p r H prev s.
  { cbn in H. inversion H; subst r. cbn [app tokens_fuel]. rewrite re_m_endz. destruct s; reflexivity. }
  cbn [tr_ast tokens_fuel] in *.
  destruct p as [|c rest].
  { inversion H; subst r. cbn [app]. rewrite re_m_endz. destruct s; reflexivity. }
  change c_star with ch_star in H. change c_q with ch_q in H. change c_lb with ch_lb in H.
  rewrite scan_class_class_end in H.
  destruct (N.eqb c ch_star).
  { cbn [andb] in H. destruct (tr_ast false f rest) as [t| |] eqn:Et; try discriminate.
    cbn [bind] in H. inversion H; subst r. clear H.
    specialize (IH rest t Et). rewrite <- app_comm_cons.
    revert prev. induction s as [|x s' IHs]; intro prev.
    - rewrite re_m_star_unfold, tmatch_star_unfold, IH. reflexivity.
    - rewrite re_m_star_unfold, tmatch_star_unfold, IH, IHs. reflexivity. }
  destruct (N.eqb c ch_q).
  { destruct (tr_ast false f rest) as [t| |] eqn:Et; try discriminate.
    cbn [bind] in H. inversion H; subst r. clear H.
    apply wild_single_step; [reflexivity|discriminate|reflexivity|exact (IH rest t Et)]. }
  destruct (N.eqb c ch_lb) eqn:Elb.
  { destruct (class_end rest) as [j|] eqn:Ej.
    - rewrite <- scan_class_class_end in Ej.
      destruct (scan_class_stuff rest j Ej) as [b [body [Es _]]].
      rewrite Es in *. unfold class_atoms in H.
      change c_bang with ch_bang in H.
      destruct (N.eqb b ch_bang).
      + cbn [bind] in H. destruct (tr_ast false f (skipn (S j) rest)) as [t| |] eqn:Et; try discriminate.
        cbn [bind] in H. inversion H; subst r. clear H. cbn [app].
        apply wild_single_step; [reflexivity|discriminate| |exact (IH _ t Et)].
        intro x. cbn [single]. rewrite parse_items_class_items. apply class_has_tok.
      + cbn [bind] in H. destruct (tr_ast false f (skipn (S j) rest)) as [t| |] eqn:Et; try discriminate.
        cbn [bind] in H. inversion H; subst r. clear H. cbn [app].
        apply wild_single_step; [reflexivity|discriminate| |exact (IH _ t Et)].
        intro x. cbn [single]. rewrite parse_items_class_items. apply class_has_tok.
    - destruct (tr_ast false f rest) as [t| |] eqn:Et; try discriminate.
      cbn [bind] in H. inversion H; subst r. clear H.
      apply wild_single_step; [reflexivity|discriminate| |exact (IH rest t Et)].
      intro x. cbn [single]. apply N.eqb_eq in Elb. subst c. apply lit_eq_tok. }
  destruct (tr_ast false f rest) as [t| |] eqn:Et; try discriminate.
  cbn [bind] in H. inversion H; subst r. clear H.
  apply wild_single_step; [reflexivity|discriminate| |exact (IH rest t Et)].
  intro x. cbn [single]. apply lit_eq_tok.
Qed.

(* (ii) for ALL patterns and ALL names, both case modes: what re.compile("(?ms)" +
   _translate(p, cs) + "\Z" [, re.IGNORECASE]).match(name) decides is wild_spec.
   No side condition is needed: an ill-formed range such as [z-a] matches nothing on both
   sides (in CPython re.compile raises re.error instead: wild_match_model_spec). *)
Theorem wild_regex_correct : forall cs p name,
  re_match (negb cs) (wild_regex cs p) name = wild_spec cs p name.
Proof.
  intros cs p name. unfold re_match, wild_regex, wild_translate_ast, wild_translate_ast_o, tr_ast_run, wild_spec, tokens.
  change Regex.lower with ShellSpec.lower.
  generalize (if cs then p else map ShellSpec.lower p) as q. intro q.
  destruct (tr_ast_wild_total (S (length q)) q) as [r Hr]. rewrite Hr.
  apply wild_sem. exact Hr.
Qed.
Print Assumptions wild_regex_correct.

(* with compilation: whenever re.compile accepts the regex, match/imatch return wild_spec *)
Theorem wild_match_model_spec : forall cs p name b,
  wild_match_model cs p name = Some b -> b = wild_spec cs p name.
Proof.
  intros cs p name b. unfold wild_match_model, re_match_py.
  destruct (re_compiles (wild_regex cs p)); [|discriminate].
  intro H. inversion H. apply wild_regex_correct.
Qed.
Print Assumptions wild_match_model_spec.

(* the only way for wildcard.match to raise: a class with a descending range *)
Example wild_bad_range_raises :
  wild_match_model true [91; 122; 45; 97; 93] [98] = None                   (* match("[z-a]", "b") : re.error *)
  /\ wild_spec true [91; 122; 45; 97; 93] [98] = false.
Proof. split; vm_compute; reflexivity. Qed.

(* ------------------------------------------------------------------ *)
(* 4. (iii) glob                                                       *)
(* ------------------------------------------------------------------ *)

(* '^' occurs only in front: everything else is independent of the previous character *)
Fixpoint no_bol (r : regex) : bool :=
  match r with
  | [] => true
  | ABol :: _ => false
  | _ :: r' => no_bol r'
  end.

Lemma no_bol_app a b : no_bol (a ++ b) = no_bol a && no_bol b.
Proof. induction a as [|x a IH]; [reflexivity|]. destruct x; cbn [app no_bol]; try exact IH. reflexivity. Qed.

Lemma re_m_prev ci : forall r, no_bol r = true -> forall p1 p2 s, re_m ci r p1 s = re_m ci r p2 s.
Proof.
  induction r as [|a r IH]; intros Hn p1 p2 s; [reflexivity|].
  destruct a; cbn [no_bol] in Hn; try discriminate;
    try (rewrite !re_m_single_unfold by reflexivity; destruct s; reflexivity).
  - rewrite (re_m_star_unfold ci r p1), (re_m_star_unfold ci r p2), (IH Hn p1 p2). reflexivity.
  - rewrite (re_m_dotstar_unfold ci r p1), (re_m_dotstar_unfold ci r p2), (IH Hn p1 p2). reflexivity.
  - cbn [re_m]. destruct s; rewrite (IH Hn p1 p2); reflexivity.
  - cbn [re_m]. rewrite (IH Hn p1 p2). reflexivity.
  - cbn [re_m]. rewrite (IH Hn p1 p2). reflexivity.
Qed.

Lemma no_bol_raw l : no_bol (map ARaw l) = true.
Proof. induction l; [reflexivity|exact IHl]. Qed.

Lemma class_atoms_no_bol g raw k : class_atoms g raw = Ok k -> no_bol k = true.
Proof.
  unfold class_atoms. destruct raw as [|b body]; [discriminate|].
  destruct (N.eqb b c_bang); [|intro H; inversion H; reflexivity].
  destruct g; [|intro H; inversion H; reflexivity].
  destruct body as [|c rest]; [intro H; inversion H; reflexivity|].
  destruct (N.eqb c c_rb); intro H; inversion H; [|reflexivity].
  cbn [no_bol]. rewrite no_bol_app, no_bol_raw. reflexivity.
Qed.

Lemma tr_ast_no_bol g : forall fuel p r, tr_ast g fuel p = Ok r -> no_bol r = true.
Proof.
  induction fuel as [|f IH]; intros p r H; [inversion H; reflexivity|].
  cbn [tr_ast] in H. destruct p as [|c rest]; [inversion H; reflexivity|].
  destruct (N.eqb c c_star).
  { destruct (g && starts_c c_star rest); [discriminate|].
    destruct (tr_ast g f rest) as [t| |] eqn:Et; try discriminate. inversion H. exact (IH _ _ Et). }
  destruct (N.eqb c c_q).
  { destruct (tr_ast g f rest) as [t| |] eqn:Et; try discriminate. inversion H.
    destruct g; exact (IH _ _ Et). }
  destruct (N.eqb c c_lb).
  { destruct (scan_class rest) as [j|].
    - destruct (class_atoms g (firstn j rest)) as [k| |] eqn:Ek; try discriminate. cbn [bind] in H.
      destruct (tr_ast g f (skipn (S j) rest)) as [t| |] eqn:Et; try discriminate. inversion H.
      rewrite no_bol_app, (class_atoms_no_bol _ _ _ Ek), (IH _ _ Et). reflexivity.
    - destruct (tr_ast g f rest) as [t| |] eqn:Et; try discriminate. inversion H. exact (IH _ _ Et). }
  destruct (tr_ast g f rest) as [t| |] eqn:Et; try discriminate. inversion H. exact (IH _ _ Et).
Qed.

(* K cannot start on an ordinary character of a name (it wants '/', a newline or the end) *)
Definition blocked (ci : bool) (K : regex) : Prop :=
  forall x s p, x <> slash -> x <> newline -> re_m ci K p (x :: s) = false.
(* what follows a component in the path text: nothing, or a '/' *)
Definition bdry (rest : str) : Prop := rest = [] \/ exists t, rest = slash :: t.

Lemma has_char_cons_false c x s :
  has_char c (x :: s) = false -> x <> c /\ has_char c s = false.
Proof.
  rewrite has_char_cons. intro H. apply orb_false_iff in H as [H1 H2]. split; [|exact H2].
  intro E. subst x. rewrite ceqb_refl in H1. discriminate.
Qed.

Lemma has_char_skipn c n s : has_char c s = false -> has_char c (skipn n s) = false.
Proof.
  revert s; induction n as [|n IH]; intros s H; [exact H|].
  destruct s as [|x s]; [reflexivity|]. apply has_char_cons_false in H as [_ H]. apply IH. exact H.
Qed.

Lemma has_char_firstn c n s : has_char c s = false -> has_char c (firstn n s) = false.
Proof.
  revert s; induction n as [|n IH]; intros s H; [reflexivity|].
  destruct s as [|x s]; [reflexivity|]. pose proof (has_char_cons_false _ _ _ H) as [Hx Hs].
  cbn [firstn]. rewrite has_char_cons. rewrite (IH _ Hs), orb_false_r.
  rewrite has_char_cons in H. apply orb_false_iff in H as [H1 _]. exact H1.
Qed.

Lemma upper_slash a : Regex.upper a = slash -> a = slash.
Proof.
  unfold Regex.upper, slash. destruct ((97 <=? a) && (a <=? 122)) eqn:E; [|auto].
  apply andb_true_iff in E as [E1 E2]. apply N.leb_le in E1, E2. lia.
Qed.

Lemma lit_eq_slash ci x : x <> slash -> lit_eq ci slash x = false.
Proof.
  intro H. destruct ci; cbn [lit_eq].
  - apply N.eqb_neq. intro E. apply H. symmetry in E. change (Regex.lower slash) with slash in E.
    change Regex.lower with ShellSpec.lower in E. apply lower_slash. exact E.
  - apply N.eqb_neq. congruence.
Qed.

Lemma lit_eq_nonslash ci a : a <> slash -> lit_eq ci a slash = false.
Proof.
  intro H. destruct ci; cbn [lit_eq].
  - apply N.eqb_neq. intro E. apply H. change (Regex.lower slash) with slash in E.
    change Regex.lower with ShellSpec.lower in E. apply lower_slash. exact E.
  - apply N.eqb_neq. exact H.
Qed.

Lemma citem_has_slash ci i : citem_has ci i slash = covers_slash i.
Proof. destruct ci, i; cbn; rewrite ?orb_diag; reflexivity. Qed.

Lemma citem_slash_other ci c : c <> slash -> citem_has ci (CLit slash) c = false.
Proof.
  intro H. destruct ci; cbn [citem_has].
  - apply orb_false_iff. split; apply N.eqb_neq; intro E; apply H; symmetry in E.
    + change Regex.lower with ShellSpec.lower in E. apply lower_slash. exact E.
    + apply upper_slash. exact E.
  - apply N.eqb_neq. congruence.
Qed.

(* the base of the component lemma: nothing left of the component pattern *)
Lemma glob_comp_base cs K rest prev comp :
  no_bol K = true -> blocked (negb cs) K ->
  has_char slash comp = false -> has_char newline comp = false ->
  re_m (negb cs) K prev (comp ++ rest) = tmatch cs true [] comp && re_m (negb cs) K None rest.
Proof.
  intros Hn Hb Hs Hl. destruct comp as [|x c'].
  - cbn [app tmatch andb]. apply re_m_prev. exact Hn.
  - cbn [tmatch andb]. rewrite <- app_comm_cons. apply Hb.
    + apply (has_char_cons_false _ _ _ Hs).
    + apply (has_char_cons_false _ _ _ Hl).
Qed.

(* one step with a one-character atom that refuses '/' *)
Lemma glob_single_step cs a t atoms ts K rest prev comp :
  is_single a = true -> t <> TStar ->
  (forall c, c <> slash -> single (negb cs) a c = tok_char cs true t c) ->
  single (negb cs) a slash = false ->
  bdry rest ->
  (forall prev comp', has_char slash comp' = false -> has_char newline comp' = false ->
     re_m (negb cs) (atoms ++ K) prev (comp' ++ rest)
     = tmatch cs true ts comp' && re_m (negb cs) K None rest) ->
  has_char slash comp = false -> has_char newline comp = false ->
  re_m (negb cs) ((a :: atoms) ++ K) prev (comp ++ rest)
  = tmatch cs true (t :: ts) comp && re_m (negb cs) K None rest.
Proof.
  intros Ha Ht Hc Hsl Hb IH Hs Hl. rewrite <- app_comm_cons.
  rewrite re_m_single_unfold by exact Ha. rewrite tmatch_tok_unfold by exact Ht.
  destruct comp as [|x c'].
  - cbn [app andb]. destruct Hb as [-> | [r ->]]; [reflexivity|]. rewrite Hsl. reflexivity.
  - rewrite <- app_comm_cons.
    pose proof (has_char_cons_false _ _ _ Hs) as [Hx Hs'].
    pose proof (has_char_cons_false _ _ _ Hl) as [_ Hl'].
    rewrite (Hc x Hx), (IH (Some x) c' Hs' Hl'). rewrite andb_assoc. reflexivity.
Qed.

Lemma existsb_ext' {A} (f g : A -> bool) l : (forall x, f x = g x) -> existsb f l = existsb g l.
Proof. intro H. induction l as [|x r IH]; [reflexivity|]. cbn [existsb]. rewrite H, IH. reflexivity. Qed.

(* a regular class of a glob component is one atom that agrees with its token off '/' and
   refuses '/' *)
Lemma glob_class_single cs b body :
  glob_class_ok (b :: body) = true ->
  exists neg items,
    class_atoms true (b :: body) = Ok [AClass neg items]
    /\ (forall c, c <> slash ->
          class_has (negb cs) neg items c
          = tok_char cs true (if N.eqb b ch_bang then TClass true (class_items body)
                              else TClass false (class_items (b :: body))) c)
    /\ class_has (negb cs) neg items slash = false.
Proof.
  unfold glob_class_ok, class_atoms. change c_bang with ch_bang.
  destruct (N.eqb b ch_bang) eqn:Eb.
  - intro H. apply andb_true_iff in H as [H1 H2]. apply negb_true_iff in H1, H2.
    exists true, (parse_items (slash :: body)). split; [|].
    { destruct body as [|c rest]; [reflexivity|]. cbn [starts_c] in H1. unfold ceqb in H1. rewrite H1. reflexivity. }
    assert (parse_items (slash :: body) = CLit slash :: parse_items body) as Ep.
    { rewrite parse_items_unfold. destruct body as [|d [|b' r]]; try reflexivity.
      destruct (N.eqb d ch_minus) eqn:Ed; [|reflexivity].
      exfalso. cbn [starts_c length] in H2. unfold ceqb in H2. rewrite Ed in H2. discriminate. }
    rewrite Ep, parse_items_class_items. split.
    + intros c Hc. unfold class_has. cbn [existsb tok_char]. rewrite (citem_slash_other _ c Hc), existsb_conv.
      cbn [orb]. apply N.eqb_neq in Hc. rewrite Hc.
      destruct (existsb (fun i => item_has cs i c) (class_items body)); reflexivity.
    + unfold class_has. cbn [existsb]. rewrite citem_has_slash. reflexivity.
  - intro H. apply negb_true_iff in H.
    exists false, (parse_items (b :: body)). split; [reflexivity|]. split.
    + intros c _. rewrite parse_items_class_items. unfold class_has. cbn [tok_char]. rewrite existsb_conv.
      destruct (existsb (fun i => item_has cs i c) (class_items (b :: body))); reflexivity.
    + unfold class_has. cbn [xorb].
      rewrite (existsb_ext' _ covers_slash) by (intro i; apply citem_has_slash). rewrite H. reflexivity.
Qed.

(* the component lemma: the regex of one component consumes exactly one component *)
Lemma glob_comp_sem cs : forall fuel pc atoms,
  tr_ast true fuel pc = Ok atoms -> has_char slash pc = false -> glob_comp_ok_fuel fuel pc = true ->
  forall K rest, no_bol K = true -> blocked (negb cs) K -> bdry rest ->
  forall prev comp, has_char slash comp = false -> has_char newline comp = false ->
  re_m (negb cs) (atoms ++ K) prev (comp ++ rest)
  = tmatch cs true (tokens_fuel fuel pc) comp && re_m (negb cs) K None rest.
Proof.
  induction fuel as [|f IH]; intros pc atoms H Hpc Hok K rest Hn Hb Hbd prev comp Hs Hl.
  { cbn in H. inversion H; subst atoms. cbn [app tokens_fuel]. apply glob_comp_base; assumption. }
  cbn [tr_ast tokens_fuel glob_comp_ok_fuel] in *.
  destruct pc as [|c r].
  { inversion H; subst atoms. cbn [app]. apply glob_comp_base; assumption. }
  pose proof (has_char_cons_false _ _ _ Hpc) as [Hc Hr].
  change c_star with ch_star in H. change c_q with ch_q in H. change c_lb with ch_lb in H, Hok.
  rewrite scan_class_class_end in H, Hok.
  destruct (N.eqb c ch_star) eqn:Estar.
  { apply N.eqb_eq in Estar. subst c. change (N.eqb ch_star ch_lb) with false in Hok. cbv iota in Hok.
    destruct (true && starts_c ch_star r); [discriminate|].
    destruct (tr_ast true f r) as [t| |] eqn:Et; try discriminate.
    cbn [bind] in H. inversion H; subst atoms. clear H.
    pose proof (IH r t Et Hr Hok K rest Hn Hb Hbd) as IHr.
    rewrite <- app_comm_cons.
    revert prev Hs Hl. induction comp as [|x c' IHc]; intros prev Hs Hl.
    - cbn [app]. rewrite re_m_star_unfold, tmatch_star_unfold.
      pose proof (IHr prev [] eq_refl eq_refl) as E0. cbn [app] in E0. rewrite E0.
      destruct Hbd as [-> | [rr ->]]; [rewrite !orb_false_r; reflexivity|].
      change (N.eqb slash slash) with true. cbn [negb andb]. rewrite !orb_false_r. reflexivity.
    - pose proof (has_char_cons_false _ _ _ Hs) as [Hx Hs'].
      pose proof (has_char_cons_false _ _ _ Hl) as [_ Hl'].
      rewrite <- app_comm_cons. rewrite re_m_star_unfold, tmatch_star_unfold.
      rewrite app_comm_cons, (IHr prev (x :: c') Hs Hl), (IHc (Some x) Hs' Hl').
      apply N.eqb_neq in Hx. rewrite Hx. cbn [negb andb].
      destruct (tmatch cs true (tokens_fuel f r) (x :: c')), (tmatch cs true (TStar :: tokens_fuel f r) c'),
        (re_m (negb cs) K None rest); reflexivity. }
  destruct (N.eqb c ch_q) eqn:Eq.
  { apply N.eqb_eq in Eq. subst c. change (N.eqb ch_q ch_lb) with false in Hok. cbv iota in Hok.
    destruct (tr_ast true f r) as [t| |] eqn:Et; try discriminate.
    cbn [bind] in H. inversion H; subst atoms. clear H.
    apply glob_single_step; [reflexivity|discriminate| |reflexivity|exact Hbd| |exact Hs|exact Hl].
    - intros x Hx. cbn [single tok_char]. apply N.eqb_neq in Hx. rewrite Hx. reflexivity.
    - intros prev' comp' Hs' Hl'. apply (IH r t Et Hr Hok K rest Hn Hb Hbd); assumption. }
  destruct (N.eqb c ch_lb) eqn:Elb.
  { apply N.eqb_eq in Elb. subst c.
    destruct (class_end r) as [j|] eqn:Ej.
    - apply andb_true_iff in Hok as [Hok1 Hok2].
      rewrite <- scan_class_class_end in Ej.
      destruct (scan_class_stuff r j Ej) as [b [body [Es _]]].
      rewrite Es in *.
      destruct (glob_class_single cs b body Hok1) as [neg [items [Hk [Hsem Hsl]]]].
      rewrite Hk in H. cbn [bind] in H.
      destruct (tr_ast true f (skipn (S j) r)) as [t| |] eqn:Et; try discriminate.
      cbn [bind] in H. inversion H; subst atoms. clear H. cbn [app].
      assert (Htok : (if N.eqb b ch_bang then TClass true (class_items body) else TClass false (class_items (b :: body))) <> TStar)
        by (destruct (N.eqb b ch_bang); discriminate).
      replace (if N.eqb b ch_bang then TClass true (class_items body) :: tokens_fuel f (skipn (S j) r)
               else TClass false (class_items (b :: body)) :: tokens_fuel f (skipn (S j) r))
        with ((if N.eqb b ch_bang then TClass true (class_items body) else TClass false (class_items (b :: body)))
              :: tokens_fuel f (skipn (S j) r)) by (destruct (N.eqb b ch_bang); reflexivity).
      change (AClass neg items :: t ++ K) with ((AClass neg items :: t) ++ K).
      apply glob_single_step; [reflexivity|exact Htok|exact Hsem|exact Hsl|exact Hbd| |exact Hs|exact Hl].
      intros prev' comp' Hs' Hl'.
      apply (IH (skipn (S j) r) t Et (has_char_skipn _ _ _ Hr) Hok2 K rest Hn Hb Hbd); assumption.
    - destruct (tr_ast true f r) as [t| |] eqn:Et; try discriminate.
      cbn [bind] in H. inversion H; subst atoms. clear H.
      apply glob_single_step; [reflexivity|discriminate| | |exact Hbd| |exact Hs|exact Hl].
      + intros x Hx. cbn [single]. apply lit_eq_tok.
      + cbn [single]. apply lit_eq_nonslash. exact Hc.
      + intros prev' comp' Hs' Hl'. apply (IH r t Et Hr Hok K rest Hn Hb Hbd); assumption. }
  destruct (tr_ast true f r) as [t| |] eqn:Et; try discriminate.
  cbn [bind] in H. inversion H; subst atoms. clear H.
  apply glob_single_step; [reflexivity|discriminate| | |exact Hbd| |exact Hs|exact Hl].
  - intros x Hx. cbn [single]. apply lit_eq_tok.
  - cbn [single]. apply lit_eq_nonslash. exact Hc.
  - intros prev' comp' Hs' Hl'. apply (IH r t Et Hr Hok K rest Hn Hb Hbd); assumption.
Qed.

(* ---- whole patterns ---- *)

(* the text of a path: "/" + "/".join(components) [+ "/"] ; the empty list is the root *)
Definition path_text (segs : list str) (trailing : bool) : str :=
  flat_map (fun c => slash :: c) segs ++ (if trailing then [slash] else []).

(* names: non-empty, without '/', and without newline (the newline condition is the known
   finding about '$' under (?ms), see glob_dollar_newline_refuted) *)
Definition seg_ok (c : str) : bool :=
  negb (is_empty c) && negb (has_char slash c) && negb (has_char newline c).

Definition glob_tail (e : bool) : regex := if e then [ALit slash; AEol] else [AEol].

Lemma path_text_bdry segs trailing : bdry (path_text segs trailing).
Proof.
  unfold path_text. destruct segs as [|c r].
  - destruct trailing; [right; eexists; reflexivity|left; reflexivity].
  - right. eexists. cbn [flat_map]. rewrite <- app_comm_cons. reflexivity.
Qed.

Lemma blocked_lit_slash ci K : blocked ci (ALit slash :: K).
Proof.
  intros x s p Hx _. rewrite re_m_single_unfold by reflexivity. cbn [single].
  rewrite (lit_eq_slash ci x Hx). reflexivity.
Qed.

Lemma blocked_tail ci e : blocked ci (glob_tail e).
Proof.
  destruct e; [apply blocked_lit_slash|].
  intros x s p _ Hx. cbn [glob_tail re_m eol]. apply N.eqb_neq in Hx. rewrite Hx. reflexivity.
Qed.

Lemma is_dstar_false pc : has_dstar pc = false -> is_dstar pc = false.
Proof.
  intro H. unfold is_dstar. destruct (str_eqb pc [ch_star; ch_star]) eqn:E; [|reflexivity].
  apply str_eqb_eq in E. subst pc. discriminate.
Qed.

Lemma lit_eq_refl ci a : lit_eq ci a a = true.
Proof. destruct ci; cbn [lit_eq]; apply N.eqb_refl. Qed.

Lemma seg_ok_inv c : seg_ok c = true ->
  has_char slash c = false /\ has_char newline c = false /\ exists x t, c = x :: t /\ x <> newline.
Proof.
  unfold seg_ok. intro H. apply andb_true_iff in H as [H H3]. apply andb_true_iff in H as [H1 H2].
  apply negb_true_iff in H1, H2, H3. split; [exact H2|]. split; [exact H3|].
  destruct c as [|x t]; [discriminate|]. exists x, t. split; [reflexivity|].
  apply (has_char_cons_false _ _ _ H3).
Qed.

(* the main induction: a '**'-free pattern of k regular components against a path text *)
Lemma glob_main cs e trailing : implb trailing e = true ->
  forall pcs x,
  glob_components_ast pcs = Ok x ->
  forallb (fun c => negb (has_dstar c) && glob_comp_ok c) pcs = true ->
  Forall (fun c => has_char slash c = false) pcs ->
  fst x = false
  /\ no_bol (snd x ++ glob_tail e) = true
  /\ blocked (negb cs) (snd x ++ glob_tail e)
  /\ (e = true -> forall p, re_m (negb cs) (snd x ++ glob_tail e) p [] = false)
  /\ forall segs prev, forallb seg_ok segs = true ->
       re_m (negb cs) (snd x ++ glob_tail e) prev (path_text segs trailing)
       = eqb trailing e && gmatch cs pcs segs.
Proof.
  intro He. induction pcs as [|pc pcs IH]; intros x H Hok Hns.
  - cbn in H. inversion H; subst x. cbn [fst snd app].
    split; [reflexivity|]. split; [destruct e; reflexivity|]. split; [apply blocked_tail|].
    split; [intros -> p; reflexivity|].
    intros segs prev Hsegs. destruct segs as [|c segs'].
    + destruct e, trailing, cs; try discriminate; reflexivity.
    + cbn [forallb] in Hsegs. apply andb_true_iff in Hsegs as [Hc _].
      destruct (seg_ok_inv c Hc) as [_ [_ [x0 [t0 [-> Hx0]]]]].
      apply N.eqb_neq in Hx0.
      unfold path_text. cbn [flat_map]. rewrite <- !app_comm_cons. cbn [gmatch]. rewrite andb_false_r.
      destruct e; cbn [glob_tail].
      * rewrite re_m_single_unfold by reflexivity. cbn [single]. rewrite lit_eq_refl. cbn [andb re_m eol].
        rewrite Hx0. reflexivity.
      * cbn [re_m eol]. reflexivity.
  - cbn [glob_components_ast] in H. cbn [forallb] in Hok.
    apply andb_true_iff in Hok as [Hpc Hok']. apply andb_true_iff in Hpc as [Hds Hcok].
    apply negb_true_iff in Hds. inversion Hns as [|? ? Hpcs Hns']; subst.
    unfold glob_component_ast in H. rewrite Hds in H. unfold glob_translate_ast, tr_ast_run in H.
    destruct (tr_ast true (S (length pc)) pc) as [t| |] eqn:Et; try discriminate. cbn [bind] in H.
    destruct (glob_components_ast pcs) as [y| |] eqn:Ey; try discriminate. cbn [bind fst snd] in H.
    inversion H; subst x. clear H. cbn [fst snd orb].
    destruct (IH y eq_refl Hok' Hns') as [Hf [Hnb [Hbl [Hend IHm]]]].
    set (K := snd y ++ glob_tail e) in *.
    assert (EK : (ALit slash :: t ++ snd y) ++ glob_tail e = ALit slash :: (t ++ K)).
    { unfold K. rewrite <- app_comm_cons, <- app_assoc. reflexivity. }
    rewrite EK.
    split; [exact Hf|]. split.
    { cbn [no_bol]. rewrite no_bol_app, (tr_ast_no_bol _ _ _ _ Et). exact Hnb. }
    split; [apply blocked_lit_slash|].
    split; [intros _ p; reflexivity|].
    intros segs prev Hsegs.
    rewrite (gmatch_plain_unfold cs pc pcs segs (is_dstar_false pc Hds)).
    rewrite re_m_single_unfold by reflexivity.
    destruct segs as [|c segs'].
    + unfold path_text. cbn [flat_map app]. rewrite andb_false_r.
      destruct trailing; [|reflexivity].
      destruct e; [|discriminate].
      cbn [single]. rewrite lit_eq_refl. cbn [andb].
      pose proof (glob_comp_sem cs (S (length pc)) pc t Et Hpcs Hcok K [] Hnb Hbl (or_introl eq_refl)
                    (Some slash) [] eq_refl eq_refl) as E0.
      cbn [app] in E0. rewrite E0.
      rewrite (Hend eq_refl None). apply andb_false_r.
    + cbn [forallb] in Hsegs. apply andb_true_iff in Hsegs as [Hc Hsegs'].
      destruct (seg_ok_inv c Hc) as [Hcs [Hcl _]].
      unfold path_text. cbn [flat_map]. rewrite <- app_assoc. rewrite <- app_comm_cons.
      fold (path_text segs' trailing).
      cbn [single]. rewrite lit_eq_refl. cbn [andb].
      rewrite (glob_comp_sem cs (S (length pc)) pc t Et Hpcs Hcok K (path_text segs' trailing) Hnb Hbl
                 (path_text_bdry segs' trailing) (Some slash) c Hcs Hcl).
      rewrite (IHm segs' None Hsegs').
      unfold tokens.
      destruct (tmatch cs true (tokens_fuel (S (length pc)) pc) c), (eqb trailing e), (gmatch cs pcs segs'); reflexivity.
Qed.

(* (iii) glob.match / imatch for patterns without '**'.
   For every pattern whose classes are regular (glob_pattern_ok), every path given by its
   names (non-empty, no '/', no newline), with or without a trailing slash — a trailing
   slash only together with a pattern that ends in '/' (otherwise: glob_dir_slash_refuted,
   the known Globber finding) — matching the compiled regex = the pattern ends in '/' exactly
   when the path does, and the components match one by one. *)
Theorem glob_regex_correct : forall cs pat pcs lv r segs trailing,
  glob_translate_glob_ast pat = Ok (lv, r) ->
  resolve (comps pat) = Some pcs ->
  glob_pattern_ok pat = true ->
  forallb seg_ok segs = true ->
  implb trailing (ends_c slash pat) = true ->
  re_match (negb cs) r (path_text segs trailing)
  = eqb trailing (ends_c slash pat) && gmatch cs pcs segs.
Proof.
  intros cs pat pcs lv r segs trailing H Hres Hok Hsegs Himp.
  unfold glob_translate_glob_ast in H. rewrite iteratepath_spec, Hres in H. cbn [bind] in H.
  destruct (glob_components_ast pcs) as [x| |] eqn:Ex; try discriminate. cbn [bind] in H.
  inversion H; subst lv r. clear H.
  unfold glob_pattern_ok in Hok. rewrite Hres in Hok.
  assert (Hns : Forall (fun c => has_char slash c = false) pcs).
  { pose proof (resolve_comps_good pat pcs Hres) as Hg. apply Forall_good_noslash in Hg. exact Hg. }
  destruct (glob_main cs (ends_c slash pat) trailing Himp pcs x Ex Hok Hns) as [_ [_ [_ [_ Hm]]]].
  unfold re_match. cbn [app re_m bol andb].
  exact (Hm segs None Hsegs).
Qed.
Print Assumptions glob_regex_correct.

(* in the terms of ShellSpec.glob_spec: a resource whose text carries a trailing slash
   exactly when the pattern does (a directory for a slash pattern, anything otherwise) *)
Corollary glob_regex_spec : forall cs pat lv r segs,
  glob_translate_glob_ast pat = Ok (lv, r) ->
  glob_pattern_ok pat = true ->
  forallb seg_ok segs = true ->
  glob_spec cs pat segs (ends_c slash pat)
  = Some (re_match (negb cs) r (path_text segs (ends_c slash pat))).
Proof.
  intros cs pat lv r segs H Hok Hsegs. unfold glob_spec.
  pose proof Hok as Hok'. unfold glob_pattern_ok in Hok'.
  destruct (resolve (comps pat)) as [pcs|] eqn:Hres; [|discriminate].
  rewrite (glob_regex_correct cs pat pcs lv r segs (ends_c slash pat) H Hres Hok Hsegs)
    by (destruct (ends_c slash pat); reflexivity).
  destruct (ends_c slash pat); reflexivity.
Qed.
Print Assumptions glob_regex_spec.

(* ---- levels ---- *)

Lemma has_dstar_eq s : Translate.has_dstar s = ShellSpec.has_dstar s.
Proof.
  induction s as [|a r IH]; [reflexivity|].
  destruct r as [|b r']; [reflexivity|].
  change (ShellSpec.has_dstar (a :: b :: r'))
    with ((N.eqb a ch_star && N.eqb b ch_star) || ShellSpec.has_dstar (b :: r')).
  rewrite <- IH. reflexivity.
Qed.

Lemma glob_components_fst : forall pcs x,
  glob_components_ast pcs = Ok x -> fst x = existsb Translate.has_dstar pcs.
Proof.
  induction pcs as [|c r IH]; intros x H.
  - inversion H. reflexivity.
  - cbn [glob_components_ast] in H.
    destruct (glob_component_ast c) as [x1| |] eqn:E1; try discriminate. cbn [bind] in H.
    destruct (glob_components_ast r) as [y| |] eqn:Ey; try discriminate. cbn [bind] in H.
    inversion H; subst x. cbn [fst existsb]. rewrite (IH y eq_refl). f_equal.
    unfold glob_component_ast in E1. destruct (Translate.has_dstar c).
    + destruct (map_o glob_translate_ast (split_dstar c)); try discriminate. inversion E1. reflexivity.
    + destruct (glob_translate_ast c); try discriminate. inversion E1. reflexivity.
Qed.

(* the depth bound handed to the walker is ShellSpec.levels (with C14_levels_sound: pruning
   the walk at that depth never loses a match) *)
Theorem glob_levels_correct : forall pat lv t,
  glob_translate_glob pat = Ok (lv, t) -> lv = ShellSpec.levels pat.
Proof.
  intros pat lv t H. rewrite glob_translate_glob_render in H.
  unfold glob_translate_glob_ast in H. rewrite iteratepath_spec in H. unfold levels.
  destruct (resolve (comps pat)) as [pcs|]; [|discriminate]. cbn [bind] in H.
  destruct (glob_components_ast pcs) as [x| |] eqn:Ex; try discriminate. cbn [bind omap fst snd] in H.
  inversion H. rewrite (glob_components_fst pcs x Ex).
  rewrite (existsb_ext' _ ShellSpec.has_dstar) by apply has_dstar_eq. reflexivity.
Qed.
Print Assumptions glob_levels_correct.

(* a pattern that climbs above the root: iteratepath raises IllegalBackReference *)
Theorem glob_translate_glob_backref : forall pat,
  resolve (comps pat) = None -> glob_translate_glob pat = Err IllegalBackReference.
Proof.
  intros pat H. unfold glob_translate_glob. rewrite iteratepath_spec, H. reflexivity.
Qed.
Print Assumptions glob_translate_glob_backref.

(* ------------------------------------------------------------------ *)
(* 5. where the code's regex differs from the specification            *)
(* ------------------------------------------------------------------ *)
(* Each example: what glob.match returns (through the model, which is compared with the
   running code on every run), what the specification says, and which side condition of
   glob_regex_correct fails. Characters: / 47, a 97, b 98, x 120, * 42, [ 91, ] 93, ! 33,
   - 45, + 43, 0 48, newline 10. *)

(* KNOWN finding 1: '$' under (?ms) matches before a newline:  match("a", "/a\nb") *)
Example glob_dollar_newline_refuted :
  glob_match_model true [97] [47; 97; 10; 98] = Ok (Some true)
  /\ glob_spec true [97] [[97; 10; 98]] false = Some false
  /\ forallb seg_ok [[97; 10; 98]] = false.
Proof. repeat split; vm_compute; reflexivity. Qed.

(* KNOWN finding 2: '**' becomes '/?' '.*' pieces that cross components:
   match("a/**/b", "/ab/b") *)
Example glob_dstar_crosses_refuted :
  glob_match_model true [97; 47; 42; 42; 47; 98] [47; 97; 98; 47; 98] = Ok (Some true)
  /\ glob_spec true [97; 47; 42; 42; 47; 98] [[97; 98]; [98]] false = Some false
  /\ glob_pattern_ok [97; 47; 42; 42; 47; 98] = false.
Proof. repeat split; vm_compute; reflexivity. Qed.

(* KNOWN finding 3 at the level of match: a directory is matched with '/' appended, so a
   pattern without trailing slash sees an extra empty component:  match("a/*", "/a/") *)
Example glob_dir_slash_refuted :
  glob_match_model true [97; 47; 42] [47; 97; 47] = Ok (Some true)
  /\ path_text [[97]] true = [47; 97; 47]
  /\ glob_spec true [97; 47; 42] [[97]] true = Some false
  /\ implb true (ends_c slash [97; 47; 42]) = false.
Proof. repeat split; vm_compute; reflexivity. Qed.

(* the same for the root:  match("*", "/") *)
Example glob_star_root_refuted :
  glob_match_model true [42] [47] = Ok (Some true)
  /\ path_text [] true = [47]
  /\ glob_spec true [42] [] true = Some false.
Proof. repeat split; vm_compute; reflexivity. Qed.

(* NEW: a positive class whose range contains '/' crosses a component boundary:
   match("a[+-a]b", "/a/b") *)
Example glob_range_slash_refuted :
  glob_match_model true [97; 91; 43; 45; 97; 93; 98] [47; 97; 47; 98] = Ok (Some true)
  /\ glob_spec true [97; 91; 43; 45; 97; 93; 98] [[97]; [98]] false = Some false
  /\ glob_pattern_ok [97; 91; 43; 45; 97; 93; 98] = false.
Proof. repeat split; vm_compute; reflexivity. Qed.

(* NEW: the '/' that fs.glob inserts into a negated class fuses with a leading '-':
   "[!-a]" is compiled as [^/-a] = "not in the range '/'..'a'":
   match("[!-a]", "/0") is False although '0' is neither '-' nor 'a';
   match("[!-a]", "/-") is True although '-' is excluded *)
Example glob_neg_dash_refuted :
  glob_translate [91; 33; 45; 97; 93] = Ok [91; 94; 47; 45; 97; 93]
  /\ glob_match_model true [91; 33; 45; 97; 93] [47; 48] = Ok (Some false)
  /\ glob_spec true [91; 33; 45; 97; 93] [[48]] false = Some true
  /\ glob_match_model true [91; 33; 45; 97; 93] [47; 45] = Ok (Some true)
  /\ glob_spec true [91; 33; 45; 97; 93] [[45]] false = Some false
  /\ glob_pattern_ok [91; 33; 45; 97; 93] = false.
Proof. repeat split; vm_compute; reflexivity. Qed.

(* NEW: in a negated class starting with ']' the inserted '/' makes that ']' close the class:
   "[!]a]" is compiled as [^/]a] = "one character, then the text a]":
   match("[!]a]", "/xa]") is True, match("[!]a]", "/x") is False
   (fs.wildcard compiles the same pattern to [^]a] and is right) *)
Example glob_neg_rb_refuted :
  glob_translate [91; 33; 93; 97; 93] = Ok [91; 94; 47; 93; 97; 93]
  /\ glob_match_model true [91; 33; 93; 97; 93] [47; 120; 97; 93] = Ok (Some true)
  /\ glob_spec true [91; 33; 93; 97; 93] [[120; 97; 93]] false = Some false
  /\ glob_match_model true [91; 33; 93; 97; 93] [47; 120] = Ok (Some false)
  /\ glob_spec true [91; 33; 93; 97; 93] [[120]] false = Some true
  /\ wild_match_model true [91; 33; 93; 97; 93] [120] = Some true
  /\ glob_pattern_ok [91; 33; 93; 97; 93] = false.
Proof. repeat split; vm_compute; reflexivity. Qed.

(* ... and what follows that ']' is then unescaped regex text: "[!](]" does not compile *)
Example glob_neg_rb_raises :
  glob_match_model true [91; 33; 93; 40; 93] [47; 120] = Ok None.      (* match("[!](]", "/x") : re.error *)
Proof. vm_compute; reflexivity. Qed.

(* ------------------------------------------------------------------ *)
(* 6. _translate_glob raises nothing but IllegalBackReference          *)
(*    (the ValueError of glob._translate and the IndexError of stuff[0] are unreachable) *)
(* ------------------------------------------------------------------ *)

Lemma has_dstar_cons2 a b r :
  has_dstar (a :: b :: r) = (N.eqb a c_star && N.eqb b c_star) || has_dstar (b :: r).
Proof. reflexivity. Qed.

Lemma has_dstar_tail a r : has_dstar (a :: r) = false -> has_dstar r = false.
Proof.
  destruct r as [|b r']; [reflexivity|]. rewrite has_dstar_cons2. intro H.
  apply orb_false_iff in H. tauto.
Qed.

Lemma has_dstar_skipn n : forall s, has_dstar s = false -> has_dstar (skipn n s) = false.
Proof.
  induction n as [|n IH]; intros s H; [exact H|]. destruct s as [|a r]; [reflexivity|].
  apply IH. exact (has_dstar_tail _ _ H).
Qed.

Lemma tr_ast_glob_total : forall fuel p, has_dstar p = false -> exists r, tr_ast true fuel p = Ok r.
Proof.
  induction fuel as [|f IH]; intros p H; [eexists; reflexivity|].
  cbn [tr_ast]. destruct p as [|c r]; [eexists; reflexivity|].
  pose proof (has_dstar_tail _ _ H) as Hr.
  destruct (N.eqb c c_star) eqn:E.
  { assert (Hs : starts_c c_star r = false).
    { destruct r as [|b r']; [reflexivity|]. rewrite has_dstar_cons2, E in H.
      apply orb_false_iff in H as [H1 _]. exact H1. }
    rewrite Hs. cbn [andb]. destruct (IH r Hr) as [t ->]. eexists; reflexivity. }
  destruct (N.eqb c c_q).
  { destruct (IH r Hr) as [t ->]. eexists; reflexivity. }
  destruct (N.eqb c c_lb).
  { destruct (scan_class r) as [j|] eqn:Ej.
    - destruct (class_atoms_ok true r j Ej) as [k ->].
      destruct (IH (skipn (S j) r) (has_dstar_skipn _ _ Hr)) as [t ->]. eexists; reflexivity.
    - destruct (IH r Hr) as [t ->]. eexists; reflexivity. }
  destruct (IH r Hr) as [t ->]. eexists; reflexivity.
Qed.

Lemma split_dstar_cons2 a b r :
  split_dstar (a :: b :: r)
  = if N.eqb a c_star && N.eqb b c_star then [] :: split_dstar r else cons_head a (split_dstar (b :: r)).
Proof. reflexivity. Qed.

Lemma split_dstar_head b r :
  exists h t, split_dstar (b :: r) = h :: t /\ (h = [] \/ exists h', h = b :: h').
Proof.
  destruct r as [|b2 r2].
  - exists [b], []. split; [reflexivity|]. right. exists []. reflexivity.
  - rewrite split_dstar_cons2. destruct (N.eqb b c_star && N.eqb b2 c_star).
    + eexists _, _. split; [reflexivity|]. left. reflexivity.
    + destruct (split_dstar (b2 :: r2)) as [|h0 t0]; cbn [cons_head];
        eexists _, _; (split; [reflexivity|]); right; eexists; reflexivity.
Qed.

(* the pieces of component.split("**") contain no "**" *)
Lemma split_dstar_pieces : forall n s, (length s <= n)%nat ->
  Forall (fun x => has_dstar x = false) (split_dstar s).
Proof.
  induction n as [|n IH]; intros s Hl.
  - destruct s; [|simpl in Hl; lia]. repeat constructor.
  - destruct s as [|a [|b r']]; [repeat constructor..|].
    rewrite split_dstar_cons2. destruct (N.eqb a c_star && N.eqb b c_star) eqn:E.
    + constructor; [reflexivity|]. apply IH. simpl in Hl. lia.
    + assert (F : Forall (fun x => has_dstar x = false) (split_dstar (b :: r'))) by (apply IH; simpl in *; lia).
      destruct (split_dstar_head b r') as [h [t [Eh Hh]]]. rewrite Eh in *. cbn [cons_head].
      inversion F as [|? ? H1 H2]; subst. constructor; [|exact H2].
      destruct Hh as [-> | [h' ->]]; [reflexivity|]. rewrite has_dstar_cons2, E. exact H1.
Qed.

Lemma map_o_total l : Forall (fun x => has_dstar x = false) l -> exists rs, map_o glob_translate_ast l = Ok rs.
Proof.
  induction 1 as [|x r Hx _ IH]; [eexists; reflexivity|].
  cbn [map_o]. destruct (tr_ast_glob_total (S (length x)) x Hx) as [t Ht].
  change (glob_translate_ast x) with (tr_ast true (S (length x)) x). rewrite Ht. cbn [bind].
  destruct IH as [rs ->]. eexists; reflexivity.
Qed.

Lemma glob_components_total l : exists x, glob_components_ast l = Ok x.
Proof.
  induction l as [|c r [y Hy]]; [eexists; reflexivity|].
  cbn [glob_components_ast]. unfold glob_component_ast.
  destruct (has_dstar c) eqn:E.
  - destruct (map_o_total _ (split_dstar_pieces _ c (le_n _))) as [rs ->]. cbn [bind]. rewrite Hy. eexists; reflexivity.
  - destruct (tr_ast_glob_total (S (length c)) c E) as [t Ht]. unfold glob_translate_ast, tr_ast_run. rewrite Ht.
    cbn [bind]. rewrite Hy. eexists; reflexivity.
Qed.

Theorem glob_translate_glob_total : forall pat,
  match resolve (comps pat) with
  | None => glob_translate_glob pat = Err IllegalBackReference
  | Some _ => exists lv t, glob_translate_glob pat = Ok (lv, t)
  end.
Proof.
  intro pat. rewrite glob_translate_glob_render. unfold glob_translate_glob_ast. rewrite iteratepath_spec.
  destruct (resolve (comps pat)) as [pcs|]; [|reflexivity]. cbn [bind].
  destruct (glob_components_total pcs) as [x ->]. cbn [bind omap]. eexists _, _. reflexivity.
Qed.
Print Assumptions glob_translate_glob_total.
