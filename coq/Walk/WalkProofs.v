(* The walker state machines equal the recursive reference, for every finite tree. *)
From Coq Require Import List NArith Bool Arith Lia Permutation.
From PyFS Require Import Base.PyStr Path.PathModel FS.Tree Walk.WalkModel Walk.WalkSpec.
Import ListNotations.

(* ------------------------------------------------------------------------------------ *)
(* nested induction principle for [node]                                                 *)
(* ------------------------------------------------------------------------------------ *)
Section NodeInd.
  Variable P : node -> Prop.
  Hypothesis HF : forall d mt, P (File d mt).
  Hypothesis HD : forall ents mt, Forall (fun e => P (snd e)) ents -> P (Dir ents mt).

  Fixpoint node_ind' (t : node) : P t :=
    match t with
    | File d mt => HF d mt
    | Dir ents mt =>
      HD ents mt
         ((fix go (l : list (str * node)) : Forall (fun e => P (snd e)) l :=
             match l with
             | [] => Forall_nil _
             | e :: r =>
               Forall_cons e
                 (match e as e0 return P (snd e0) with (k, n) => node_ind' n end)
                 (go r)
             end) ents)
    end.
End NodeInd.

(* total size of an entry list / of a breadth-first queue (same type) *)
Fixpoint ents_size (l : list (str * node)) : nat :=
  match l with
  | [] => 0
  | (_, n) :: r => tree_size n + ents_size r
  end.

Lemma tree_size_Dir : forall ents mt, tree_size (Dir ents mt) = S (ents_size ents).
Proof.
  intros ents mt. reflexivity.
Qed.

Lemma tree_size_pos : forall t, 1 <= tree_size t.
Proof. destruct t; simpl; lia. Qed.

Lemma tree_size_dir_ents : forall t, S (ents_size (dir_ents t)) <= tree_size t.
Proof.
  destruct t as [d m|ents m].
  - simpl. lia.
  - rewrite tree_size_Dir. simpl. lia.
Qed.

Lemma ents_size_app : forall a b, ents_size (a ++ b) = ents_size a + ents_size b.
Proof.
  induction a as [|[k n] a IH]; intro b; simpl; [reflexivity|]. rewrite IH. lia.
Qed.

Lemma info_stream_app : forall a b, info_stream (a ++ b) = info_stream a ++ info_stream b.
Proof. intros a b. unfold info_stream. apply flat_map_app. Qed.

(* ------------------------------------------------------------------------------------ *)
(* generalised statements: arbitrary start depth, arbitrary stack / queue                *)
(* ------------------------------------------------------------------------------------ *)
Section Aux.
  Variable open_dir : str -> str -> bool.
  Variable keep_file : str -> str -> bool.
  Variable max_depth : option nat.
  Variable depth0 : nat.

  Notation listing' := (listing open_dir keep_file max_depth depth0).
  Notation dfs' := (dfs_events open_dir keep_file max_depth depth0).

  (* the inner [fix go] of [listing] and [dfs_events], named *)
  Fixpoint listing_ents (dp : str) (l : list (str * node)) : list (str * bool) :=
    match l with
    | [] => []
    | (name, child) :: r =>
      (if is_dir child then
         if open_dir dp name then
           (combine dp name, true)
             :: (if scan_dir max_depth (depth_of depth0 dp)
                 then listing' (combine dp name) child else [])
         else []
       else if keep_file dp name then [(combine dp name, false)] else [])
      ++ listing_ents dp r
    end.

  Fixpoint dfs_ents (dp : str) (l : list (str * node)) : list event :=
    match l with
    | [] => []
    | (name, child) :: r =>
      (if is_dir child then
         if open_dir dp name then
           if scan_dir max_depth (depth_of depth0 dp) then
             dfs' (combine dp name) child
               ++ [(dp, Some (name, true)); (combine dp name, None)]
           else [(dp, Some (name, true))]
         else []
       else if keep_file dp name then [(dp, Some (name, false))] else [])
      ++ dfs_ents dp r
    end.

  Lemma listing_Dir : forall dp ents mt, listing' dp (Dir ents mt) = listing_ents dp ents.
  Proof.
    intros dp ents mt. simpl.
    induction ents as [|[k n] r IH]; [reflexivity|].
    simpl. rewrite IH. reflexivity.
  Qed.

  Lemma dfs_Dir : forall dp ents mt, dfs' dp (Dir ents mt) = dfs_ents dp ents.
  Proof.
    intros dp ents mt. simpl.
    induction ents as [|[k n] r IH]; [reflexivity|].
    simpl. rewrite IH. reflexivity.
  Qed.

  Lemma listing_dir_ents : forall dp t, listing' dp t = listing_ents dp (dir_ents t).
  Proof. intros dp [d m|ents m]; [reflexivity|]. apply listing_Dir. Qed.

  Lemma dfs_dir_ents : forall dp t, dfs' dp t = dfs_ents dp (dir_ents t).
  Proof. intros dp [d m|ents m]; [reflexivity|]. apply dfs_Dir. Qed.

  Lemma dfs_ents_app : forall dp a b, dfs_ents dp (a ++ b) = dfs_ents dp a ++ dfs_ents dp b.
  Proof.
    intros dp a b. induction a as [|[k n] a IH]; [reflexivity|].
    simpl. rewrite IH. rewrite app_assoc. reflexivity.
  Qed.

  (* ---------------- depth first ---------------- *)
  Definition parent_evs (parent : option event) : list event :=
    match parent with Some p => [p] | None => [] end.

  Definition frame_den (f : frame) : list event :=
    match f with
    | (dp, it, parent) => dfs_ents dp it ++ parent_evs parent ++ [(dp, None)]
    end.

  Fixpoint stack_den (s : list frame) : list event :=
    match s with
    | [] => []
    | f :: r => frame_den f ++ stack_den r
    end.

  Definition frame_meas (f : frame) : nat :=
    match f with (dp, it, parent) => 1 + 2 * ents_size it end.

  Fixpoint stack_meas (s : list frame) : nat :=
    match s with
    | [] => 0
    | f :: r => frame_meas f + stack_meas r
    end.

  Lemma stack_meas_cons : forall dp it parent below,
    stack_meas ((dp, it, parent) :: below) = 1 + 2 * ents_size it + stack_meas below.
  Proof. reflexivity. Qed.

  Lemma ents_size_cons : forall k n r, ents_size ((k, n) :: r) = tree_size n + ents_size r.
  Proof. reflexivity. Qed.

  Lemma walk_depth_loop_correct : forall fuel stack,
    stack_meas stack <= fuel ->
    walk_depth_loop open_dir keep_file max_depth fuel depth0 stack = Some (stack_den stack).
  Proof.
    induction fuel as [|f IH]; intros stack H.
    - destruct stack as [|[[dp it] parent] below]; [reflexivity|].
      rewrite stack_meas_cons in H. lia.
    - destruct stack as [|[[dp it] parent] below]; [reflexivity|].
      rewrite stack_meas_cons in H.
      destruct it as [|[name child] it'].
      + simpl. rewrite IH by (simpl in H; lia).
        unfold parent_evs. destruct parent; reflexivity.
      + rewrite ents_size_cons in H.
        assert (Hrest : stack_meas ((dp, it', parent) :: below) <= f).
        { rewrite stack_meas_cons. pose proof (tree_size_pos child). lia. }
        assert (Hden : stack_den ((dp, (name, child) :: it', parent) :: below)
                       = dfs_ents dp [(name, child)] ++ stack_den ((dp, it', parent) :: below)).
        { cbn [stack_den frame_den dfs_ents]. rewrite app_nil_r, <- !app_assoc. reflexivity. }
        refine (eq_trans _ (eq_sym (f_equal Some Hden))). clear Hden.
        cbn [walk_depth_loop dfs_ents]. rewrite app_nil_r.
        destruct child as [d m|ents m]; cbn [is_dir].
        * destruct (keep_file dp name).
          -- rewrite IH by exact Hrest. reflexivity.
          -- rewrite IH by exact Hrest. reflexivity.
        * destruct (open_dir dp name).
          -- fold (depth_of depth0 dp).
             destruct (scan_dir max_depth (depth_of depth0 dp)) eqn:Hs.
             ++ rewrite IH.
                ** cbn [stack_den frame_den dir_ents parent_evs].
                   rewrite dfs_Dir.
                   rewrite <- !app_assoc. reflexivity.
                ** rewrite !stack_meas_cons. cbn [dir_ents].
                   rewrite tree_size_Dir in H. lia.
             ++ rewrite IH by exact Hrest. reflexivity.
          -- rewrite IH by exact Hrest. reflexivity.
  Qed.

  (* the reported infos of the depth-first stream: a permutation of the listing *)
  Lemma info_dfs_listing : forall t dp,
    Permutation (info_stream (dfs' dp t)) (listing' dp t).
  Proof.
    induction t as [d m|ents m IH] using node_ind'; intro dp; [apply Permutation_refl|].
    rewrite dfs_Dir, listing_Dir.
    induction ents as [|[k n] r IHr]; [apply Permutation_refl|].
    inversion IH as [|? ? Hn Hr]; subst. simpl in Hn.
    cbn [dfs_ents listing_ents].
    rewrite info_stream_app.
    apply Permutation_app; [|apply IHr; exact Hr].
    destruct (is_dir n).
    - destruct (open_dir dp k); [|apply Permutation_refl].
      destruct (scan_dir max_depth (depth_of depth0 dp)).
      + rewrite info_stream_app. simpl.
        apply Permutation_sym. apply Permutation_cons_app. rewrite app_nil_r.
        apply Permutation_sym. apply Hn.
      + simpl. apply Permutation_refl.
    - destruct (keep_file dp k); simpl; apply Permutation_refl.
  Qed.

  (* ---------------- breadth first ---------------- *)
  Definition listing_q (q : list (str * node)) : list (str * bool) :=
    flat_map (fun pn => listing' (fst pn) (snd pn)) q.

  Lemma listing_q_app : forall a b, listing_q (a ++ b) = listing_q a ++ listing_q b.
  Proof. intros. apply flat_map_app. Qed.

  Lemma scan_breadth_spec : forall dp ents evs pushed,
    scan_breadth open_dir keep_file max_depth depth0 dp ents = (evs, pushed) ->
    Permutation (info_stream evs ++ listing_q pushed) (listing_ents dp ents)
    /\ ents_size pushed <= ents_size ents.
  Proof.
    intros dp ents. induction ents as [|[k n] r IH]; intros evs pushed H.
    - simpl in H. inversion H; subst. split; [apply Permutation_refl|simpl; lia].
    - cbn [scan_breadth] in H.
      destruct (scan_breadth open_dir keep_file max_depth depth0 dp r) as [evs0 pushed0].
      destruct (IH _ _ eq_refl) as [IHp IHs].
      cbn [listing_ents ents_size].
      fold (depth_of depth0 dp) in H.
      destruct (is_dir n).
      + destruct (open_dir dp k).
        * destruct (scan_dir max_depth (depth_of depth0 dp)); inversion H; subst; clear H.
          -- split; [|simpl; lia].
             simpl. apply perm_skip.
             
             apply Permutation_trans
               with (listing' (combine dp k) n ++ info_stream evs0 ++ listing_q pushed0).
             ++ rewrite !app_assoc. apply Permutation_app_tail. apply Permutation_app_comm.
             ++ apply Permutation_app_head. exact IHp.
          -- split; [|lia]. simpl. apply perm_skip. exact IHp.
        * inversion H; subst. split; [exact IHp|lia].
      + destruct (keep_file dp k); inversion H; subst; clear H.
        * split; [|lia]. simpl. apply perm_skip. exact IHp.
        * split; [exact IHp|lia].
  Qed.

  Lemma walk_breadth_loop_terminates : forall fuel q,
    ents_size q <= fuel ->
    exists evs, walk_breadth_loop open_dir keep_file max_depth fuel depth0 q = Some evs.
  Proof.
    induction fuel as [|f IH]; intros q H.
    - destruct q as [|[dp n] q]; [eexists; reflexivity|].
      simpl in H. pose proof (tree_size_pos n). lia.
    - destruct q as [|[dp n] q]; [eexists; reflexivity|].
      cbn [walk_breadth_loop].
      destruct (scan_breadth open_dir keep_file max_depth depth0 dp (dir_ents n))
        as [evs pushed] eqn:Hs.
      apply scan_breadth_spec in Hs. destruct Hs as [_ Hs].
      destruct (IH (q ++ pushed)) as [rest Hrest].
      + rewrite ents_size_app. simpl in H. pose proof (tree_size_dir_ents n). lia.
      + rewrite Hrest. eexists; reflexivity.
  Qed.

  Lemma walk_breadth_loop_listing : forall fuel q evs,
    walk_breadth_loop open_dir keep_file max_depth fuel depth0 q = Some evs ->
    Permutation (info_stream evs) (listing_q q).
  Proof.
    induction fuel as [|f IH]; intros q evs H.
    - destruct q as [|[dp n] q]; simpl in H; [|discriminate].
      inversion H; subst. apply Permutation_refl.
    - destruct q as [|[dp n] q].
      + simpl in H. inversion H; subst. apply Permutation_refl.
      + cbn [walk_breadth_loop] in H.
        destruct (scan_breadth open_dir keep_file max_depth depth0 dp (dir_ents n))
          as [evs1 pushed] eqn:Hs.
        destruct (walk_breadth_loop open_dir keep_file max_depth f depth0 (q ++ pushed))
          as [rest|] eqn:Hl; [|discriminate].
        inversion H; subst; clear H.
        apply scan_breadth_spec in Hs. destruct Hs as [Hp _].
        apply IH in Hl. rewrite listing_q_app in Hl.
        rewrite info_stream_app.
        change (info_stream ((dp, None) :: rest)) with (info_stream rest).
        change (listing_q ((dp, n) :: q)) with (listing' dp n ++ listing_q q).
        rewrite listing_dir_ents.
        apply Permutation_trans with (info_stream evs1 ++ listing_q q ++ listing_q pushed).
        * apply Permutation_app_head. exact Hl.
        * apply Permutation_trans with (info_stream evs1 ++ listing_q pushed ++ listing_q q).
          -- apply Permutation_app_head. apply Permutation_app_comm.
          -- rewrite app_assoc. apply Permutation_app_tail. exact Hp.
  Qed.
End Aux.

(* ------------------------------------------------------------------------------------ *)
(* the theorems                                                                          *)
(* ------------------------------------------------------------------------------------ *)
Section P.
  Variable open_dir : str -> str -> bool.
  Variable keep_file : str -> str -> bool.
  Variable max_depth : option nat.

  (* depth first: the explicit-stack loop terminates within its fuel and yields exactly
     the recursive stream followed by the end marker of the start directory *)
  Theorem walk_depth_spec : forall path t,
    walk_depth open_dir keep_file max_depth path t
    = Some (dfs_events open_dir keep_file max_depth (calculate_depth path) path t ++ [(path, None)]).
  Proof.
    intros path t. unfold walk_depth.
    rewrite walk_depth_loop_correct.
    - cbn [stack_den frame_den parent_evs]. rewrite app_nil_r.
      rewrite <- dfs_dir_ents. reflexivity.
    - rewrite stack_meas_cons. cbn [stack_meas].
      pose proof (tree_size_dir_ents t). lia.
  Qed.

  (* the resources reported depth first are exactly the listing (as a permutation) *)
  Theorem dfs_reports_listing : forall path t,
    Permutation
      (info_stream (dfs_events open_dir keep_file max_depth (calculate_depth path) path t))
      (listing open_dir keep_file max_depth (calculate_depth path) path t).
  Proof. intros path t. apply info_dfs_listing. Qed.

  (* breadth first: terminates within its fuel; reports exactly the listing *)
  Theorem walk_breadth_terminates : forall path t,
    exists evs, walk_breadth open_dir keep_file max_depth path t = Some evs.
  Proof.
    intros path t. unfold walk_breadth.
    apply walk_breadth_loop_terminates. simpl. lia.
  Qed.

  Theorem bfs_reports_listing : forall path t evs,
    walk_breadth open_dir keep_file max_depth path t = Some evs ->
    Permutation (info_stream evs)
                (listing open_dir keep_file max_depth (calculate_depth path) path t).
  Proof.
    intros path t evs H. unfold walk_breadth in H.
    apply walk_breadth_loop_listing in H.
    unfold listing_q in H. simpl in H. rewrite app_nil_r in H. exact H.
  Qed.

  (* hence both orders report the same resources *)
  Theorem bfs_dfs_same : forall path t eb ed,
    walk_breadth open_dir keep_file max_depth path t = Some eb ->
    walk_depth open_dir keep_file max_depth path t = Some ed ->
    Permutation (info_stream eb) (info_stream ed).
  Proof.
    intros path t eb ed Hb Hd.
    rewrite walk_depth_spec in Hd. inversion Hd; subst; clear Hd.
    rewrite info_stream_app. simpl. rewrite app_nil_r.
    apply Permutation_trans
      with (listing open_dir keep_file max_depth (calculate_depth path) path t).
    - apply bfs_reports_listing. exact Hb.
    - apply Permutation_sym. apply dfs_reports_listing.
  Qed.

  (* depth order reports a directory only after everything inside it:
     in the depth-first stream of [t], the event of an opened-and-scanned sub-directory
     comes right after the whole stream of that sub-directory *)
  Theorem dfs_children_first : forall dp ents mt pre name child post,
    ents = pre ++ (name, child) :: post ->
    is_dir child = true -> open_dir dp name = true ->
    scan_dir max_depth (depth_of (calculate_depth dp) dp) = true ->
    exists before after,
      dfs_events open_dir keep_file max_depth (calculate_depth dp) dp (Dir ents mt)
      = before
        ++ dfs_events open_dir keep_file max_depth (calculate_depth dp) (combine dp name) child
        ++ [(dp, Some (name, true)); (combine dp name, None)] ++ after.
  Proof.
    intros dp ents mt pre name child post He Hd Ho Hs. subst ents.
    exists (dfs_ents open_dir keep_file max_depth (calculate_depth dp) dp pre).
    exists (dfs_ents open_dir keep_file max_depth (calculate_depth dp) dp post).
    rewrite dfs_Dir, dfs_ents_app. f_equal.
    cbn [dfs_ents]. rewrite Hd, Ho, Hs.
    rewrite <- app_assoc. reflexivity.
  Qed.
End P.

(* ------------------------------------------------------------------------------------ *)
(* completeness of the listing when nothing is filtered                                  *)
(* ------------------------------------------------------------------------------------ *)
Lemma assoc_In : forall (A : Type) (c : str) (l : list (str * A)) (v : A),
  assoc c l = Some v -> In (c, v) l.
Proof.
  intros A c l v. induction l as [|[k x] l IH]; simpl; intro H; [discriminate|].
  destruct (str_eqb c k) eqn:E.
  - apply str_eqb_eq in E. inversion H; subst. left; reflexivity.
  - right. apply IH. exact H.
Qed.

Section Complete.
  Variable depth0 : nat.
  Notation T := (fun _ _ : str => true).
  Notation lst := (listing T T None depth0).
  Notation lste := (listing_ents T T None depth0).

  Lemma listing_ents_In_here : forall dp ents c n,
    In (c, n) ents -> In (combine dp c, is_dir n) (lste dp ents).
  Proof.
    intros dp ents c n. induction ents as [|[k x] r IH]; simpl; intro H; [contradiction|].
    apply in_or_app. destruct H as [H|H].
    - inversion H; subst. left. destruct (is_dir n); simpl; left; reflexivity.
    - right. apply IH. exact H.
  Qed.

  Lemma listing_ents_In_below : forall dp ents c n x,
    In (c, n) ents -> In x (lst (combine dp c) n) -> In x (lste dp ents).
  Proof.
    intros dp ents c n x. induction ents as [|[k y] r IH]; simpl; intros H Hx; [contradiction|].
    apply in_or_app. destruct H as [H|H].
    - inversion H; subst. left.
      destruct n as [d m|e m]; [simpl in Hx; contradiction|].
      simpl is_dir. cbv iota. right. exact Hx.
    - right. apply IH; assumption.
  Qed.

  Lemma listing_complete_gen : forall (p : list str) path t n,
    lookup t p = Some n -> p <> [] ->
    In (fold_left combine p path, is_dir n) (lst path t).
  Proof.
    induction p as [|c rest IH]; intros path t n H Hne; [contradiction Hne; reflexivity|].
    destruct t as [d m|ents m]; [simpl in H; discriminate|].
    simpl in H. destruct (assoc c ents) as [ch|] eqn:Ha; [|discriminate].
    apply assoc_In in Ha.
    rewrite listing_Dir. simpl fold_left.
    destruct rest as [|c2 rest2].
    - simpl in H. inversion H; subst. simpl. apply listing_ents_In_here. exact Ha.
    - apply listing_ents_In_below with (c := c) (n := ch); [exact Ha|].
      apply IH; [exact H|discriminate].
  Qed.
End Complete.

(* every resource is listed when nothing is filtered: files *)
Theorem listing_complete_files : forall path t (p : list str) d mt,
  lookup t p = Some (File d mt) -> p <> [] ->
  In (fold_left combine p path, false)
     (listing (fun _ _ => true) (fun _ _ => true) None (calculate_depth path) path t).
Proof.
  intros path t p d mt H Hne.
  apply (listing_complete_gen (calculate_depth path) p path t (File d mt) H Hne).
Qed.

Theorem listing_complete_dirs : forall path t (p : list str) e mt,
  lookup t p = Some (Dir e mt) -> p <> [] ->
  In (fold_left combine p path, true)
     (listing (fun _ _ => true) (fun _ _ => true) None (calculate_depth path) path t).
Proof.
  intros path t p e mt H Hne.
  apply (listing_complete_gen (calculate_depth path) p path t (Dir e mt) H Hne).
Qed.
