(* Recursive reference for walks: what a walk must report, by structural recursion. *)
From Coq Require Import List NArith Bool Arith Lia.
From PyFS Require Import Base.PyStr Path.PathModel FS.Tree Walk.WalkModel.
Import ListNotations.

Section Spec.
  Variable open_dir : str -> str -> bool.
  Variable keep_file : str -> str -> bool.
  Variable max_depth : option nat.
  Variable depth0 : nat.

  Definition depth_of (dp : str) : nat := calculate_depth dp - depth0 + 1.

  (* the resources a walk of directory [t] at path [dp] must report: (path, is_dir) *)
  Fixpoint listing (dp : str) (t : node) : list (str * bool) :=
    match t with
    | File _ _ => []
    | Dir ents _ =>
      (fix go (l : list (str * node)) : list (str * bool) :=
         match l with
         | [] => []
         | (name, child) :: r =>
           (if is_dir child then
              if open_dir dp name then
                (combine dp name, true)
                  :: (if scan_dir max_depth (depth_of dp) then listing (combine dp name) child else [])
              else []
            else if keep_file dp name then [(combine dp name, false)] else [])
           ++ go r
         end) ents
    end.

  (* depth-first event stream of a directory, without its own end marker *)
  Fixpoint dfs_events (dp : str) (t : node) : list event :=
    match t with
    | File _ _ => []
    | Dir ents _ =>
      (fix go (l : list (str * node)) : list event :=
         match l with
         | [] => []
         | (name, child) :: r =>
           (if is_dir child then
              if open_dir dp name then
                if scan_dir max_depth (depth_of dp) then
                  dfs_events (combine dp name) child
                    ++ [(dp, Some (name, true)); (combine dp name, None)]
                else [(dp, Some (name, true))]
              else []
            else if keep_file dp name then [(dp, Some (name, false))] else [])
           ++ go r
         end) ents
    end.
End Spec.
