(* Walker options -> the per-entry checks (_check_open_dir, _check_file), with name
   patterns through the wildcard semantics and glob patterns through the glob semantics. *)
From Coq Require Import List NArith Bool Arith.
From PyFS Require Import Base.PyStr Path.PathModel Path.PathSpec FS.Tree Glob.ShellSpec Walk.WalkModel.
Import ListNotations.

Record wopts := {
  o_filter : option (list str); o_exclude : option (list str);
  o_filter_dirs : option (list str); o_exclude_dirs : option (list str);
  o_filter_glob : option (list str); o_exclude_glob : option (list str);
  o_max_depth : option nat; o_case : bool }.

(* fs.match(patterns, name) for patterns that are not None *)
Definition name_match (cs : bool) (pats : list str) (name : str) : bool := wild_any cs pats name.

(* glob.get_matcher(patterns, cs, accept_prefix)(path): the path never ends in '/' here *)
Definition glob_one (cs : bool) (accept_prefix : bool) (pat : str) (path : list str) : bool :=
  match resolve (comps pat) with
  | None => false
  | Some pcs =>
    (negb (ends_c slash pat) && gmatch cs pcs path)
    || (accept_prefix &&
        (* _split_pattern_by_sep splits the RAW pattern: "a/b/" has the proper prefixes "a" and "a/b" *)
        let raw := split_on slash pat in
        existsb (fun i => match resolve (firstn i raw) with
                          | Some pc => gmatch cs pc path
                          | None => false
                          end) (seq 1 (length raw - 1)))
  end.

Definition glob_match (cs : bool) (accept_prefix : bool) (pats : list str) (full_path : str) : bool :=
  match pats with
  | [] => true
  | _ => match resolve (comps full_path) with
         | Some pc => existsb (fun p => glob_one cs accept_prefix p pc) pats
         | None => false
         end
  end.

Definition opt_true {A} (o : option A) (f : A -> bool) : bool :=
  match o with Some x => f x | None => false end.

Definition check_open_dir (o : wopts) (dp name : str) : bool :=
  let full := combine dp name in
  if opt_true (o_exclude_dirs o) (fun p => name_match (o_case o) p name) then false
  else if opt_true (o_exclude_glob o) (fun p => glob_match (o_case o) false p full) then false
  else if opt_true (o_filter_dirs o) (fun p => negb (name_match (o_case o) p name)) then false
  else if opt_true (o_filter_glob o) (fun p => negb (glob_match (o_case o) true p full)) then false
  else true.

Definition check_file (o : wopts) (dp name : str) : bool :=
  let full := combine dp name in
  if opt_true (o_exclude o) (fun p => name_match (o_case o) p name) then false
  else if opt_true (o_exclude_glob o) (fun p => glob_match (o_case o) false p full) then false
  else if opt_true (o_filter o) (fun p => negb (name_match (o_case o) p name)) then false
  else if opt_true (o_filter_glob o) (fun p => negb (glob_match (o_case o) true p full)) then false
  else true.

Definition walk_model (o : wopts) (depth_first : bool) (path : str) (t : node)
  : option (list event) :=
  if depth_first then walk_depth (check_open_dir o) (check_file o) (o_max_depth o) path t
  else walk_breadth (check_open_dir o) (check_file o) (o_max_depth o) path t.
