(* fs/walk.py: the Walker state machines (_walk_breadth with its deque, _walk_depth with
   its explicit stack) over an arbitrary finite tree, with the per-entry checks abstracted
   to two predicates; Walk/WalkOpts.v instantiates them from the Walker options. *)
From Coq Require Import List NArith Bool Arith Lia.
From PyFS Require Import Base.PyStr Path.PathModel FS.Tree.
Import ListNotations.

(* an emitted pair (dir_path, info) ; info = None is the end-of-directory marker *)
Definition winfo := (str * bool)%type.          (* name, is_dir *)
Definition event := (str * option winfo)%type.

(* Walker._calculate_depth *)
Definition calculate_depth (path : str) : nat :=
  let p := strip_c slash path in
  match p with [] => 0 | _ => count_c slash p + 1 end.

Section Walker.
  (* _check_open_dir fs dir_path info ; _check_file fs dir_path info *)
  Variable open_dir : str -> str -> bool.
  Variable keep_file : str -> str -> bool.
  Variable max_depth : option nat.

  (* _check_scan_dir *)
  Definition scan_dir (depth : nat) : bool :=
    match max_depth with Some m => negb (m <=? depth) | None => true end.

  (* ---------------- breadth first: deque of (dir_path, directory node) ---------------- *)
  (* one directory: the events yielded while iterating its entries, and the pushes *)
  Fixpoint scan_breadth (depth0 : nat) (dp : str) (ents : list (str * node))
    : list event * list (str * node) :=
    match ents with
    | [] => ([], [])
    | (name, child) :: r =>
      let '(evs, pushed) := scan_breadth depth0 dp r in
      if is_dir child then
        let d := calculate_depth dp - depth0 + 1 in
        if open_dir dp name then
          ((dp, Some (name, true)) :: evs,
           if scan_dir d then (combine dp name, child) :: pushed else pushed)
        else (evs, pushed)
      else
        if keep_file dp name then ((dp, Some (name, false)) :: evs, pushed)
        else (evs, pushed)
    end.

  Fixpoint walk_breadth_loop (fuel : nat) (depth0 : nat) (queue : list (str * node))
    : option (list event) :=
    match queue with
    | [] => Some []
    | (dp, n) :: q =>
      match fuel with
      | O => None                                  (* out of fuel *)
      | S f =>
        let '(evs, pushed) := scan_breadth depth0 dp (dir_ents n) in
        match walk_breadth_loop f depth0 (q ++ pushed) with
        | Some rest => Some (evs ++ (dp, None) :: rest)
        | None => None
        end
      end
    end.

  Definition walk_breadth (path : str) (t : node) : option (list event) :=
    walk_breadth_loop (S (tree_size t)) (calculate_depth path) [(path, t)].

  (* ---------------- depth first: explicit stack of frames ---------------- *)
  (* frame = (dir_path, remaining entries of the iterator, parent event to yield at the end) *)
  Definition frame := (str * list (str * node) * option event)%type.

  Fixpoint walk_depth_loop (fuel : nat) (depth0 : nat) (stack : list frame)
    : option (list event) :=
    match stack with
    | [] => Some []
    | (dp, it, parent) :: below =>
      match fuel with
      | O => None
      | S f =>
        match it with
        | [] =>
          match walk_depth_loop f depth0 below with
          | Some rest =>
            Some (match parent with Some p => [p] | None => [] end ++ (dp, None) :: rest)
          | None => None
          end
        | (name, child) :: it' =>
          if is_dir child then
            let d := calculate_depth dp - depth0 + 1 in
            if open_dir dp name then
              if scan_dir d then
                walk_depth_loop f depth0
                  ((combine dp name, dir_ents child, Some (dp, Some (name, true)))
                     :: (dp, it', parent) :: below)
              else
                match walk_depth_loop f depth0 ((dp, it', parent) :: below) with
                | Some rest => Some ((dp, Some (name, true)) :: rest)
                | None => None
                end
            else walk_depth_loop f depth0 ((dp, it', parent) :: below)
          else
            if keep_file dp name then
              match walk_depth_loop f depth0 ((dp, it', parent) :: below) with
              | Some rest => Some ((dp, Some (name, false)) :: rest)
              | None => None
              end
            else walk_depth_loop f depth0 ((dp, it', parent) :: below)
        end
      end
    end.

  Definition walk_depth (path : str) (t : node) : option (list event) :=
    walk_depth_loop (2 * tree_size t + 2) (calculate_depth path) [(path, dir_ents t, None)].

  (* ---------------- what the public methods make of the event stream ---------------- *)
  (* Walker.info / files / dirs : combine(dir_path, name) for the non-marker events *)
  Definition info_stream (evs : list event) : list (str * bool) :=
    flat_map (fun e => match snd e with
                       | Some (name, d) => [(combine (fst e) name, d)]
                       | None => [] end) evs.
  Definition files_stream (evs : list event) : list str :=
    map fst (filter (fun pd => negb (snd pd)) (info_stream evs)).
  Definition dirs_stream (evs : list event) : list str :=
    map fst (filter (fun pd => snd pd) (info_stream evs)).

  (* Walker.walk : regroup into Steps (dir_path, dirs, files) at each end marker *)
  Definition step := (str * list str * list str)%type.
  Fixpoint regroup (evs : list event) (pending : list (str * winfo)) : list step :=
    match evs with
    | [] => []
    | (dp, Some i) :: r => regroup r (pending ++ [(dp, i)])
    | (dp, None) :: r =>
      let mine := filter (fun pi => str_eqb (fst pi) dp) pending in
      let others := filter (fun pi => negb (str_eqb (fst pi) dp)) pending in
      (dp, map (fun pi => fst (snd pi)) (filter (fun pi => snd (snd pi)) mine),
           map (fun pi => fst (snd pi)) (filter (fun pi => negb (snd (snd pi))) mine))
        :: regroup r others
    end.
End Walker.
